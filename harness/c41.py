"""C41 — parallel map processes every item exactly once (DESIGN §6 C41).

The implementation (pkgcore.util.thread_pool.map_async) is run for real, with real threads, under
sys.setswitchinterval(1e-6) and with functors that sleep/yield the CPU at generator-chosen points.
Without touching the source, the module attributes `thread_pool.queue` / `thread_pool.threading`
are replaced (in this process only, for the duration of a call) by shims whose Queue / Thread /
Event record every put/get (inside the queue's own mutex, so the order is the real one), thread
start/join, kill-flag read/set, and the functor logs every item it handles.

Streams
  trace   one map_async call -> (cfg, global event trace, outcome)
          (A) Model_C41.run_trace: the trace must be a run of the LTS (Lts.run / accepts) from the
              initial state to a terminal state, and the model's final processed/results multisets
              must equal the implementation's;
          (B) Spec_C41.spec_outcome_ok (in Coq) and the same oracle in Python, directly on what
              the implementation did: every item handled exactly once, every result returned.
          kind "regen": the functor is the real operations.regen.regen_iter, driven through
          regen_repository on a long-lived fake repo; per package the helper succeeds, raises an
          ordinary exception (-> exactly one result (pkg, that exception)), a MetadataException
          (-> nothing) or an ignored one (RuntimeError -> the worker dies; KeyboardInterrupt -> it stops)
  par     number of worker threads created for (len, threads) sweeps  vs Model_C41.parallelism
"""

import sys
import threading
import time
import warnings

from .common import Check, Err, cN, cZ, cbool, clist, cnat, copt, cpair, cval

IMPORTS = ("From Coq Require Import List NArith ZArith Bool.\n"
           "From Verif Require Import Base.Val C41.Lts C41.Model_C41 C41.Spec_C41.")
ANCHORS = ["util/thread_pool.py::map_async", "util/thread_pool.py::reclaim_threads",
           "operations/regen.py::regen_iter", "operations/regen.py::regen_repository"]
HANG_S = 20.0


class Boom(Exception):
    """raised by a generated functor on a 'poison' item (the worker thread dies)"""


class IterBoom(Exception):
    """raised by a generated iterable after its last item"""


# --------------------------------------------------------------------------- recording shims
class Recorder:
    def __init__(self):
        self.ev = []           # global event order
        self.lock = threading.Lock()
        self.nthreads = 0
        self.widx = {}         # thread ident -> worker index


def make_shims(rec):
    import queue as _q

    class RecQueue(_q.Queue):
        # _put/_get run with the queue mutex held: the log order is the real order of the operations
        def _put(self, item):
            rec.ev.append(("put", threading.get_ident(), item))
            super()._put(item)

        def _get(self):
            item = super()._get()
            rec.ev.append(("get", threading.get_ident(), item))
            return item

    class RecThread(threading.Thread):
        def __init__(self, *a, **kw):
            super().__init__(*a, **kw)
            self.daemon = True          # a hung pool must not keep the check alive
            self._c41_idx = rec.nthreads
            rec.nthreads += 1

        def start(self):
            rec.ev.append(("start", threading.get_ident(), self._c41_idx))
            super().start()

        def run(self):
            rec.widx[threading.get_ident()] = self._c41_idx
            super().run()

        def join(self, timeout=None):
            super().join(timeout)
            rec.ev.append(("join", threading.get_ident(), self._c41_idx))

    class RecEvent(threading.Event):
        def is_set(self):
            with rec.lock:
                v = super().is_set()
                rec.ev.append(("chk", threading.get_ident(), v))
            return v

        def set(self):
            with rec.lock:
                super().set()
                rec.ev.append(("kill", threading.get_ident(), None))

    class QMod:
        Queue = RecQueue

        def __getattr__(self, name):
            return getattr(_q, name)

    class TMod:
        Thread = RecThread
        Event = RecEvent

        def __getattr__(self, name):
            return getattr(threading, name)

    return QMod(), TMod()


class NoLen:
    """an iterable without __len__ (like a generator), optionally raising after the last item"""

    def __init__(self, items, raises):
        self.items, self.raises = list(items), raises

    def __iter__(self):
        yield from self.items
        if self.raises:
            raise IterBoom()


class WithLen(NoLen):
    """a sized iterable whose len() is what the generator says (a list when truthful)"""

    def __init__(self, items, raises, n):
        super().__init__(items, raises)
        self.n = n

    def __len__(self):
        return self.n


def pause(kind):
    if kind == 1:
        time.sleep(0)
    elif kind == 2:
        time.sleep(0.0002)
    elif kind == 3:
        for _ in range(200):
            pass


UNK = 999999     # id given to an object that is not an input item (the model has no such item)


class Opaque:
    """an input item that is just an object"""

    def __init__(self, name):
        self.name = name

    def __repr__(self):
        return f"<obj {self.name}>"


_L1A, _L1B = [1], [1]            # equal, not identical
OBJ_REGISTRY = {"None": None, "0": 0, "''": "", "False": False, "()": (), "0.0": 0.0, "'a'": "a",
                "obj_a": Opaque("a"), "obj_b": Opaque("b"), "[1]#a": _L1A, "[1]#b": _L1B,
                "b''": b"", "frozenset()": frozenset()}


def case_objects(case):
    """the actual python objects fed to map_async: item id -> object (default: the int itself).
    Items are told apart by IDENTITY (0, False and 0.0 are three different items)."""
    spec = case.get("objspec") or {}
    tab = {i: (OBJ_REGISTRY[spec[i]] if i in spec else i) for i in set(case["items"])}
    return [tab[i] for i in case["items"]], {id(o): i for i, o in tab.items()}


def make_functor(case, rec, idmap):
    tab, delays, mode = case["tab"], case["delays"], case["mode"]

    def body(obj):
        x = idmap.get(id(obj), UNK)
        d = delays.get(x, (0, 0))
        pause(d[0])
        rec.ev.append(("proc", threading.get_ident(), x))
        pause(d[1])
        o = tab.get(x, [])
        if o == "die":
            raise Boom(x)
        return o

    if mode == "gen":
        def functor(iterable, *args):
            for x in iterable:
                yield from body(x)
    elif mode == "retlist":
        def functor(iterable, *args):
            acc = []
            for x in iterable:
                acc.extend(body(x))
            return acc
    else:
        def functor(iterable, *args):
            for x in iterable:
                body(x)
            return None
    return functor


class RegenPkg:
    """a package object handed to regen_repository"""

    def __init__(self, n):
        self.n, self.cpvstr, self.keywords = n, f"cat/pkg-{n}", ()

    def __repr__(self):
        return f"<pkg {self.n}>"


class RegenBoom(Exception):
    pass


REGEN_EXC = (ValueError, KeyError, OSError, RegenBoom, ZeroDivisionError)
_REGEN_PKGS = {}


class RegenRepo:
    """long-lived fake repository: the same object serves every regen call of a run, so state kept
    across calls (in the repo, the module or the functor) is exercised too"""

    def __init__(self):
        self.current = None
        self.helpers_made = 0

    def _regen_operation_helper(self, **kw):
        self.helpers_made += 1
        return self.current


_REGEN_REPO = RegenRepo()


def regen_tab(behav, items):
    """per-item outcome of the real regen_iter in the model's terms: only an ordinary exception
    yields a result, (pkg, exception), encoded pkg*1000 + the failing package's id"""
    tab = {}
    for x in set(items):
        b = behav.get(x, "ok")
        tab[x] = [x * 1000 + x] if b == "exc" else ("die" if b in ("runtime", "kbd") else [])
    return tab


def run_case(case):
    """Run map_async once and turn the recorded events into LTS labels.

    Which queue entries are end-of-work markers is decided by POSITION, not by what the marker
    object is: the feeder's first len(items) puts must be the input objects in order (LPut), every
    later put is a marker (LSent); the k-th get returns the k-th put (queue.Queue is FIFO)."""
    from pkgcore.util import thread_pool

    rec = Recorder()
    qmod, tmod = make_shims(rec)
    items = case["items"]
    regen = case.get("driver") == "regen"
    if regen:
        for i in set(items):
            _REGEN_PKGS.setdefault(i, RegenPkg(i))        # package objects live across calls too
        objs = [_REGEN_PKGS[i] for i in items]
        idmap = {id(_REGEN_PKGS[i]): i for i in set(items)}
    else:
        objs, idmap = case_objects(case)
    if case["shape"] == "list":
        iterable = list(objs)
    elif case["shape"] == "tuple":
        iterable = tuple(objs)
    elif case["shape"] == "nolen":
        iterable = NoLen(objs, case["raises"])
    else:
        iterable = WithLen(objs, case["raises"], case["len"])
    kw = {}
    if case["threads"] is not None:
        kw["threads"] = case["threads"]
    box = {}
    if regen:
        from pkgcore.operations import regen as regen_mod
        from pkgcore.package.errors import MetadataException
        behav, delays = case["behav"], case["delays"]

        def regen_func(pkg):
            x = idmap.get(id(pkg), UNK)
            d = delays.get(x, (0, 0))
            pause(d[0])
            rec.ev.append(("proc", threading.get_ident(), x))
            pause(d[1])
            b = behav.get(x, "ok")
            if b == "exc":
                e = REGEN_EXC[x % len(REGEN_EXC)](f"regen of {x} failed")
                e.tag = x
                raise e
            if b == "meta":
                raise MetadataException(pkg, "keywords", "bad")
            if b == "runtime":
                raise RuntimeError("in IGNORED_EXCEPTIONS: re-raised by regen_iter")
            if b == "kbd":
                raise KeyboardInterrupt()

        _REGEN_REPO.current = regen_func

        def encode(r):
            try:
                pkg, e = r
                return idmap.get(id(pkg), UNK) * 1000 + int(getattr(e, "tag", 999))
            except Exception:  # noqa: BLE001
                return UNK

        def invoke():
            return [encode(r) for r in regen_mod.regen_repository(_REGEN_REPO, iterable, None, **kw)]
    else:
        functor = make_functor(case, rec, idmap)

        def invoke():
            return list(thread_pool.map_async(iterable, functor, **kw))

    def call():
        try:
            box["ret"] = invoke()
        except IterBoom:
            box["exc"] = "IterBoom"
        except BaseException as e:  # noqa: BLE001
            box["exc"] = type(e).__name__
            box["exc_msg"] = str(e)[:300]
        rec.ev.append(("ret", threading.get_ident(), None))

    saved = {n: getattr(thread_pool, n) for n in ("queue", "threading") if hasattr(thread_pool, n)}
    for n, m in (("queue", qmod), ("threading", tmod)):
        if n in saved:
            setattr(thread_pool, n, m)
    try:
        t = threading.Thread(target=call, daemon=True)
        t.start()
        t.join(HANG_S)
        hang = t.is_alive()
    finally:
        for n, m in saved.items():
            setattr(thread_pool, n, m)
    main_id = t.ident
    ev = list(rec.ev)
    out = {"hang": hang, "bad": None, "nthreads": rec.nthreads, "ev_n": len(ev)}
    if len(saved) < 2:
        out["bad"] = "thread_pool no longer uses the queue/threading modules (cannot observe it)"
    labels, put_labels, nget = [], [], 0
    for kind, tid, arg in ev:
        w = rec.widx.get(tid)
        if kind in ("start", "put", "kill", "join", "ret"):
            if tid != main_id:
                out["bad"] = f"{kind} from a thread other than the caller"
            if kind == "start":
                labels.append(("LStart", arg))
            elif kind == "join":
                labels.append(("LJoin", arg))
            elif kind == "put":
                n = len(put_labels)
                if n < len(items):
                    if arg is objs[n]:
                        lab = ("LPut", items[n])
                    else:
                        lab = ("LPut", UNK)
                        out["bad"] = f"put #{n} is not input item #{n}"
                else:
                    lab = ("LSent",)
                    if id(arg) in idmap:
                        out["marker_is_an_item"] = True
                put_labels.append(lab)
                labels.append(lab)
            elif kind == "kill":
                labels.append(("LKill",))
            else:
                labels.append(("LRet",))
        else:
            if w is None:
                out["bad"] = f"{kind} from a thread that is not a pool worker"
                w = 999
            if kind == "chk":
                labels.append(("LChk", w, bool(arg)))
            elif kind == "get":
                src = put_labels[nget] if nget < len(put_labels) else ("LPut", UNK)
                nget += 1
                labels.append(("LGet", w, None if src[0] == "LSent" else src[1]))
            else:
                labels.append(("LProc", w, arg))
    out["trace"] = labels
    out["handled"] = [a for k, _, a in ev if k == "proc"]
    if UNK in out["handled"]:
        out["bad"] = "the functor was handed an object that is not an input item"
    out["exc"] = box.get("exc")
    out["exc_msg"] = box.get("exc_msg")
    out["ret"] = box.get("ret")
    return out


# --------------------------------------------------------------------------- Coq rendering
def c_label(l):
    k = l[0]
    if k in ("LKill", "LSent", "LRet"):
        return k
    if k in ("LStart", "LJoin"):
        return f"{k} {int(l[1])}"
    if k == "LPut":
        return f"LPut {cN(l[1])}"
    if k == "LChk":
        return f"LChk {int(l[1])} {cbool(l[2])}"
    if k == "LGet":
        return f"LGet {int(l[1])} {copt(l[2], cN, 'N')}"
    return f"LProc {int(l[1])} {cN(l[2])}"


def c_trace(tr):
    """flat `list N`, three numbers per event (decoded by Model_C41.dec_trace)"""
    out = []
    for l in tr:
        k = l[0]
        if k == "LStart":
            out += [0, l[1], 0]
        elif k == "LPut":
            out += [1, l[1], 0]
        elif k == "LKill":
            out += [2, 0, 0]
        elif k == "LSent":
            out += [3, 0, 0]
        elif k == "LJoin":
            out += [4, l[1], 0]
        elif k == "LRet":
            out += [5, 0, 0]
        elif k == "LChk":
            out += [6, l[1], 1 if l[2] else 0]
        elif k == "LGet":
            out += [7, l[1], 0 if l[2] is None else l[2] + 1]
        else:
            out += [8, l[1], l[2]]
    return "[" + ";".join(str(int(x)) for x in out) + "]%N" if out else "(@nil N)"


def c_nl(xs):
    xs = list(xs)
    return "[" + ";".join(str(int(x)) for x in xs) + "]%N" if xs else "(@nil N)"


def c_cfg(case, cpu):
    tab = clist(["(%s, %s)" % (cN(k), "Die" if v == "die" else "Ok " + c_nl(v))
                 for k, v in sorted(case["tab"].items())], "item * outcome")
    if case["shape"] in ("list", "tuple"):
        ln = len(case["items"])
    elif case["shape"] == "withlen":
        ln = case["len"]
    else:
        ln = None
    mode = {"gen": "Gen", "retlist": "RetList", "retnone": "RetNone"}[case["mode"]]
    return ("{| items := %s; iter_raises := %s; len_hint := %s; threads := %s; cpu := %s; mode := %s; fout := tabf %s |}"
            % (c_nl(case["items"]), cbool(case["raises"]),
               copt(ln, lambda n: f"{int(n)}%nat", "nat"), copt(case["threads"], cZ, "Z"), cZ(cpu), mode, tab))


# --------------------------------------------------------------------------- model of the statement (python side of B)
def eff_workers(case, cpu):
    p = max(cpu if case["threads"] is None else case["threads"], 1)
    if case["shape"] in ("list", "tuple"):
        p = max(min(len(case["items"]), p), 0)
    elif case["shape"] == "withlen":
        p = max(min(case["len"], p), 0)
    return max(p, 0)


def n_die(case):
    return sum(1 for x in case["items"] if case["tab"].get(x) == "die")


def in_class_worker_death(case, cpu=None):
    """known class: the functor raises in a worker thread (at least one poison item); items are lost
    only when there are at least as many poison items as workers, a return value with any death"""
    import multiprocessing
    w = eff_workers(case, cpu or multiprocessing.cpu_count())
    return w >= 1 and n_die(case) >= 1


def describe(case):
    """the concrete input, for reports: ids as given to the model plus the python objects"""
    d = {k: v for k, v in case.items() if k != "delays"}
    try:
        d["item_objects"] = [repr(o) for o in case_objects(case)[0]]
    except Exception:  # noqa: BLE001
        pass
    return d


def expected_results(case):
    ys = [y for x in case["items"] for y in (case["tab"].get(x, []) if case["tab"].get(x) != "die" else [])]
    return sorted(ys)


def oracle(case, run, cpu):
    """Direct check of the statement on what the implementation did.  Returns None or a dict."""
    if run["hang"]:
        return {"what": "map_async did not return (deadlock)", "events_seen": run["ev_n"]}
    if case["raises"]:
        if run["exc"] != "IterBoom":
            return {"what": "the iterable's exception was not propagated", "got": run["exc"]}
        extra = sorted(run["handled"])
        want = sorted(case["items"])
        # at most once
        for x in set(extra):
            if extra.count(x) > want.count(x):
                return {"what": "an item was handled more often than it occurs", "item": x}
        return None
    if run["exc"] is not None:
        return {"what": "map_async raised", "got": run["exc"], "message": run.get("exc_msg")}
    handled, want = sorted(run["handled"]), sorted(case["items"])
    if handled != want:
        missing = list(want)
        for x in handled:
            if x in missing:
                missing.remove(x)
        return {"what": "not every item was handled exactly once", "handled": handled, "items": want,
                "missing": missing, "kind": "items"}
    ret = run["ret"]
    if case["mode"] == "gen":
        if sorted(ret) != expected_results(case):
            return {"what": "returned results are not exactly the yielded values", "returned": sorted(ret),
                    "expected": expected_results(case), "kind": "results"}
    elif case["mode"] == "retlist":
        flat = sorted(y for r in ret for y in r) if all(isinstance(r, list) for r in ret) else None
        if flat != expected_results(case) or (n_die(case) == 0 and len(ret) != eff_workers(case, cpu)):
            return {"what": "returned per-worker results are not complete", "returned": ret,
                    "expected_flat": expected_results(case), "kind": "results"}
    else:
        if ret != []:
            return {"what": "a None result was returned", "returned": ret, "kind": "results"}
    return None


# --------------------------------------------------------------------------- generator
def gen_case(rng, big, kind):
    n = rng.choice([0, 1, 1, 2, 2, 3, 3, 4, 5, 6, 8, 10] + ([14, 20, 30] if big else []))
    alpha = max(1, rng.choice([n, n, n // 2 + 1, 3]))
    if rng.random() < 0.6:
        items = list(range(1, n + 1))
        rng.shuffle(items)
    else:
        items = [rng.randrange(1, alpha + 1) for _ in range(n)]     # duplicates
    mode = rng.choice(["gen", "gen", "gen", "retlist", "retlist", "retnone"])
    tab = {}
    for x in set(items):
        r = rng.random()
        if r < 0.35:
            tab[x] = []                       # nothing (regen_iter on success)
        elif r < 0.8:
            tab[x] = [100 + x]
        else:
            tab[x] = [100 + x, 200 + x]
    threads = rng.choice([1, 1, 2, 2, 2, 3, 3, 3, 4, 4, 5, 7, None] + ([12, 20] if big else []))
    shape = rng.choice(["list", "list", "list", "nolen", "nolen", "tuple"])
    case = {"items": items, "mode": mode, "tab": tab, "threads": threads, "shape": shape,
            "raises": False, "len": None}
    if kind == "die" and items:
        k = rng.choice([1, 1, 2, 3])
        for x in rng.sample(sorted(set(items)), min(k, len(set(items)))):
            tab[x] = "die"
    elif kind == "raise":
        case["shape"] = rng.choice(["nolen", "nolen", "withlen"])
        case["raises"] = True
        case["len"] = rng.choice([n, n + 1, max(n - 1, 0), 3])
    elif kind == "nothreads":
        case["threads"] = rng.choice([0, 0, -1, -3])
    elif kind == "lyinglen":
        case["shape"] = "withlen"
        # a len() that is wrong but not 0 while there are items (len 0 with items is the caller's bug)
        case["len"] = rng.choice([1, n, n + 2, max(n - 1, 1)]) if n else rng.choice([0, 1, 2])
    elif kind == "odd":
        # "any input sequence": None, falsy values, equal-but-not-identical and repeated objects
        names = list(OBJ_REGISTRY)
        rng.shuffle(names)
        ids = sorted(set(items))
        spec = {}
        if ids:
            spec[rng.choice(ids)] = "None"            # None is (nearly) always among the items
        for i in ids:
            if i not in spec and rng.random() < 0.6:
                cand = [nm for nm in names if nm not in spec.values()]
                if cand:
                    spec[i] = cand[0]
        case["objspec"] = spec
        case["threads"] = rng.choice([1, 1, 2, 2, 3, None])
    elif kind == "regen":
        # the real worker functor of metadata regeneration, through regen_repository: an error
        # path (ordinary / Metadata / ignored exceptions) and further packages on the same worker
        n = rng.choice([2, 3, 4, 5, 6, 8, 10] + ([16, 24] if big else []))
        items = list(range(1, n + 1))
        rng.shuffle(items)
        if rng.random() < 0.25:
            items += rng.sample(items, min(2, n))            # a package listed twice
        behav = {}
        for x in set(items):
            r = rng.random()
            behav[x] = ("ok" if r < 0.45 else "exc" if r < 0.75 else "meta" if r < 0.9
                        else "runtime" if r < 0.96 else "kbd")
        if rng.random() < 0.5:                               # an early ordinary failure
            behav[items[0]] = "exc"
        case.update(items=items, driver="regen", behav=behav, mode="gen", tab=regen_tab(behav, items),
                    threads=rng.choice([1, 1, 1, 2, 2, 3, 4]), shape=rng.choice(["list", "list", "nolen"]))
    case["delays"] = {x: (rng.choice([0, 0, 1, 1, 2, 3]), rng.choice([0, 0, 1, 2, 3])) for x in set(case["items"])}
    return case


def load_corpus():
    """fixed cases that run first: corpus/C41/*.json, each a list of case dicts"""
    import json
    from .common import VERIF
    out = []
    for f in sorted((VERIF / "corpus" / "C41").glob("*.json")):
        for c in json.loads(f.read_text()):
            for k in ("tab", "behav", "objspec"):
                if k in c:
                    c[k] = {int(a): b for a, b in c[k].items()}
            c.setdefault("raises", False)
            c.setdefault("len", None)
            c.setdefault("mode", "gen")
            c.setdefault("shape", "list")
            c["delays"] = {}
            if c.get("driver") == "regen":
                c["tab"] = regen_tab(c["behav"], c["items"])
            else:
                c.setdefault("tab", {x: [100 + x] for x in c["items"]})
            out.append(("corpus", c))
    return out


def main(chk: Check):
    import multiprocessing
    from pkgcore.util import thread_pool

    chk.rule("random item lists (0..10 items, quick; up to 30 thorough; with and without duplicates), "
             "threads in {None,1..12} and {0,-1,-3}, list/tuple/length-less/lying-len/raising iterables, "
             "items that are None / 0 / '' / False / () / equal-but-distinct and repeated objects, "
             "the real regen_iter driven through regen_repository on one long-lived repo with packages "
             "whose regeneration succeeds / raises an ordinary, a Metadata or an ignored exception, "
             "generator / value-returning / None-returning functors whose body sleeps or spins at "
             "generator-chosen points, poison items that make the functor raise; every call runs real "
             "threads under sys.setswitchinterval(1e-6); non-trivial = a call with >=2 workers and >=2 "
             "items whose recorded trace interleaves events of different workers")
    ok = chk.build(["C41/Prop_C41.vo"])
    if ok:
        chk.check_assumptions("C41/Prop_C41.v")
    chk.lint(["C41"])
    chk.check_fingerprint(ANCHORS)
    cpu = thread_pool.cpu_count()
    rng = chk.rng

    plan = ([("plain", chk.n(150, 900)), ("die", chk.n(50, 300)), ("raise", chk.n(36, 200)),
             ("nothreads", chk.n(12, 60)), ("lyinglen", chk.n(16, 60)), ("odd", chk.n(40, 300)), ("regen", chk.n(70, 500))])
    cases = []
    for kind, n in plan:
        for _ in range(n):
            cases.append((kind, gen_case(rng, chk.thorough, kind)))
    # fixed corner cases first
    corner = []
    for threads in (None, 0, 1, 2, 5):
        for items in ([], [1], [1, 2, 3], [2, 2, 2, 2]):
            for shape in ("list", "nolen"):
                for mode in (("gen", "retlist", "retnone") if threads == 2 else ("gen",)):
                    corner.append(("corner", {"items": items, "mode": mode, "tab": {x: [100 + x] for x in items},
                                              "threads": threads, "shape": shape, "raises": False, "len": None,
                                              "delays": {}}))
    for threads in (1, 2, 3):
        for items, spec in (([1], {1: "None"}), ([1, 2, 3, 4], {1: "None"}), ([2, 3, 1, 4, 5], {1: "None"}),
                            ([1, 1, 1, 2, 3], {1: "None"}), ([1, 2, 3, 4], {1: "0", 2: "''", 3: "False", 4: "None"}),
                            ([1, 2, 1, 2, 3], {1: "[1]#a", 2: "[1]#b", 3: "obj_a"}),
                            ([1, 2, 3], {1: "0", 2: "False", 3: "0.0"})):
            for shape in ("list", "nolen"):
                corner.append(("corner-odd", {"items": items, "mode": "gen", "tab": {x: [100 + x] for x in items},
                                              "threads": threads, "shape": shape, "raises": False, "len": None,
                                              "delays": {}, "objspec": spec}))
    rng.shuffle(cases)          # every kind early (the quick tier may stop on a wall-clock limit)
    cases = load_corpus() + corner + cases

    old_si = sys.getswitchinterval()
    old_hook = threading.excepthook
    threading.excepthook = lambda a: None      # dying workers are part of the experiment
    warnings.filterwarnings("ignore", category=DeprecationWarning)
    sys.setswitchinterval(1e-6)
    coq_cases, prop_bad, hung = [], [], False
    kinds_seen = {}
    try:
        t_start, c_start = time.time(), time.process_time()
        for kind, case in cases:
            if not chk.thorough and time.time() - t_start > 40:
                chk.note("quick tier: trace generation stopped after 40 s wall (machine load); cases run: %d" % len(coq_cases))
                break
            chk.count("trace")
            kinds_seen[kind] = kinds_seen.get(kind, 0) + 1
            try:
                run = run_case(case)
                try:
                    bad = oracle(case, run, cpu)
                except Exception as e:  # noqa: BLE001 - e.g. results of an unexpected shape
                    bad = {"what": "map_async returned something the statement's oracle cannot read: %r" % (e,),
                           "returned": repr(run.get("ret"))[:300]}
                if run["bad"]:
                    bad = bad or {"what": run["bad"]}
                if bad is not None:
                    prop_bad.append((case, run, bad))
                if run["hang"]:
                    hung = True
                    break           # stuck daemon threads: stop generating, report
                tr = run["trace"]
                workers_in_trace = [l[1] for l in tr if l[0] in ("LGet", "LProc", "LChk")]
                switches = sum(1 for a, b in zip(workers_in_trace, workers_in_trace[1:]) if a != b)
                if run["nthreads"] >= 2 and len(case["items"]) >= 2 and switches >= 2:
                    chk.nontrivial((tuple(case["items"]), case["threads"], case["mode"], case["shape"],
                                    tuple(c_label(l) for l in tr)))
                if case.get("driver") == "regen":
                    failed_on = set()
                    for l in tr:
                        if l[0] == "LProc":
                            if l[1] in failed_on:
                                chk.cov["regen_more_after_failure"] = chk.cov.get("regen_more_after_failure", 0) + 1
                                break
                            if case["behav"].get(l[2]) in ("exc", "meta"):
                                failed_on.add(l[1])
                if kind in ("odd", "corner-odd") and "None" in (case.get("objspec") or {}).values():
                    chk.cov["cases_with_None_item"] = chk.cov.get("cases_with_None_item", 0) + 1
                if run["exc"] == "IterBoom":
                    impl = [True, sorted(run["handled"]), []]
                elif run["exc"] is not None:
                    impl = Err(run["exc"])
                else:
                    ret = run["ret"]
                    try:
                        impl = [False, sorted(run["handled"]), sorted(ret)]
                        cval(impl)
                    except (TypeError, ValueError):
                        impl = Err("uncanonical-results")
                coq_cases.append((cpair(c_cfg(case, cpu), c_trace(tr)), impl, case))
                if len(chk.cov["samples"]) < 3 and kind in ("plain", "die", "raise", "odd") and len(tr) > 12:
                    chk.sample({"stream": "trace", "kind": kind, "case": describe(case),
                                "trace": [c_label(l) for l in tr][:60], "impl": impl})
            except Exception:  # noqa: BLE001 - never a harness exception: report the concrete input
                import traceback
                prop_bad.append((case, {"hang": False, "bad": "unobservable", "trace": []},
                                 {"what": "the implementation behaved in a way the recorder cannot follow",
                                  "traceback": traceback.format_exc()[-1500:]}))
    finally:
        sys.setswitchinterval(old_si)
        threading.excepthook = old_hook
    chk.cov["kinds"] = kinds_seen
    chk.cov["trace_wall_s"] = round(time.time() - t_start, 1)
    chk.cov["trace_cpu_s"] = round(time.process_time() - c_start, 1)

    # ---- par stream: number of threads created
    par_cases = []
    for threads in [None, -2, -1, 0, 1, 2, 3, 4, 6, cpu, cpu + 1, 40]:
        for n in (0, 1, 2, 3, 5):
            for shape in ("list", "nolen"):
                for ln in ([None] if shape != "withlen" else [0]):
                    case = {"items": list(range(1, n + 1)), "mode": "retnone", "tab": {}, "threads": threads,
                            "shape": shape, "raises": False, "len": ln, "delays": {}}
                    try:
                        run = run_case(case)
                    except Exception as e:  # noqa: BLE001
                        prop_bad.append((case, {"hang": False, "bad": "unobservable", "trace": []},
                                         {"what": "the implementation behaved in a way the recorder cannot follow: %r" % (e,)}))
                        continue
                    if run["hang"]:
                        hung = True
                        prop_bad.append((case, run, {"what": "map_async did not return (deadlock)"}))
                        break
                    par_cases.append((c_cfg(case, cpu), run["nthreads"]))
                if hung:
                    break
            if hung:
                break
        if hung:
            break
    chk.count("par", len(par_cases))

    # ---- evaluate inside Coq
    spec_bad = []
    a_bad = []
    if ok:
        r = chk.coq_eval("trace", IMPORTS, "cfg * list N", [(i, v) for i, v, _ in coq_cases],
                         ["mismatches run_trace cases",
                          "where_ (fun i r => negb (spec_outcome_ok i r)) cases"], shard=100)
        if r is not None:
            a_bad = [coq_cases[i] for i in r[0]]
            spec_bad = [coq_cases[i] for i in r[1]]
        r2 = chk.coq_eval("par", IMPORTS, "cfg", par_cases, ["mismatches run_par cases"])
        if r2 is not None:
            for i in r2[0][:3]:
                chk.violation("correspondence",
                              {"what": "number of worker threads differs from Model_C41.parallelism",
                               "input": par_cases[i][0], "implementation": par_cases[i][1]},
                              no_input=not (prop_bad or spec_bad))

    # ---- property failures (B)
    reported = 0
    seen_keys = set()
    for case, run, bad in prop_bad:
        cls = None
        if not run["hang"] and not run["bad"] and not case["raises"] and run["exc"] is None:
            if in_class_worker_death(case, cpu) and (
                    (bad.get("kind") == "items" and n_die(case) >= eff_workers(case, cpu))
                    or (bad.get("kind") == "results" and case["mode"] == "retlist")):
                cls = "worker-death"
        detail = {"what": bad["what"], "input": describe(case),
                  "observed": bad, "trace": [c_label(l) for l in (run.get("trace") or [])][:200]}
        if cls is not None and chk.known_finding(cls, detail):
            continue
        if reported < 3:
            chk.violation("property", detail)
            reported += 1
    for inp, impl, case in spec_bad:
        key = inp
        if key in seen_keys:
            continue
        seen_keys.add(key)
        if any(case is c for c, _, _ in prop_bad):
            continue            # already handled through the python oracle
        if reported < 3:
            chk.violation("property", {"what": "Spec_C41.spec_outcome_ok rejects what the implementation did",
                                       "input": inp, "implementation": impl})
            reported += 1
    for inp, impl, case in a_bad[:3]:
        chk.violation("correspondence",
                      {"what": "the recorded event trace / outcome is not a run of Model_C41 "
                               "(theorems of Prop_C41 no longer speak about this code)",
                       "input": inp, "implementation": impl},
                      no_input=not (reported or hung))


def replay(chk, data):
    case = data.get("detail", {}).get("input")
    if not isinstance(case, dict) or "items" not in case:
        print("replay: no structured input recorded")
        return
    case["tab"] = {int(k): v for k, v in case["tab"].items()}
    case["objspec"] = {int(k): v for k, v in (case.get("objspec") or {}).items()}
    case["behav"] = {int(k): v for k, v in (case.get("behav") or {}).items()}
    case.pop("item_objects", None)
    case["delays"] = {}
    sys.setswitchinterval(1e-6)
    threading.excepthook = lambda a: None
    run = run_case(case)
    print("implementation:", {k: run[k] for k in ("hang", "exc", "ret", "handled", "nthreads")})
    import multiprocessing
    print("oracle:", oracle(case, run, multiprocessing.cpu_count()))
