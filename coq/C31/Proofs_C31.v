(* Proofs_C31.v — lemmas and proofs for C31 (framing part; the round trip of the quoting is in
   Roundtrip_C31.v). *)
From Coq Require Import List NArith ZArith Bool Lia DecimalN DecimalFacts Decimal.
Import ListNotations.
From Verif Require Import Base.Val C31.Model_C31 C31.Spec_C31.
Local Open Scope N_scope.

(* ------------------------------------------------------------------ decimal numerals *)
Lemma str_uint_uint_str u : str_uint (uint_str u) = Some u.
Proof. induction u; cbn [uint_str str_uint]; try rewrite IHu; reflexivity. Qed.

Lemma to_uint_no_leading_zero n u : N.to_uint n = D0 u -> u = Nil.
Proof.
  intro H.
  assert (E : N.to_uint n = unorm (N.to_uint n)).
  { rewrite <- (DecimalN.Unsigned.to_of (N.to_uint n)), DecimalN.Unsigned.of_to. reflexivity. }
  rewrite H in E. unfold unorm in E. cbn [nzhead] in E.
  pose proof (nb_digits_nzhead u) as L.
  destruct (nzhead u) eqn:Z; try discriminate.
  - injection E as ->. reflexivity.
  - injection E as ->. cbn [nb_digits] in L. lia.
Qed.

Lemma to_uint_not_nil n : N.to_uint n <> Nil.
Proof.
  destruct n as [|p]; cbn; [discriminate|].
  apply DecimalPos.Unsigned.to_uint_nonnil.
Qed.

Lemma parse_dec_dec n : parse_dec (dec n) = Some n.
Proof.
  unfold dec, parse_dec.
  pose proof (str_uint_uint_str (N.to_uint n)) as R.
  pose proof (DecimalN.Unsigned.of_to n) as O.
  destruct (N.to_uint n) as [|u|u|u|u|u|u|u|u|u|u] eqn:E.
  - exfalso; eapply to_uint_not_nil; eassumption.
  - apply to_uint_no_leading_zero in E as ->. cbn. cbn in O. congruence.
  - cbn [uint_str]. change (49 =? 48) with false. cbn [andb].
    change (49 :: uint_str u) with (uint_str (D1 u)). rewrite R, O. reflexivity.
  - cbn [uint_str]. change (50 =? 48) with false. cbn [andb].
    change (50 :: uint_str u) with (uint_str (D2 u)). rewrite R, O. reflexivity.
  - cbn [uint_str]. change (51 =? 48) with false. cbn [andb].
    change (51 :: uint_str u) with (uint_str (D3 u)). rewrite R, O. reflexivity.
  - cbn [uint_str]. change (52 =? 48) with false. cbn [andb].
    change (52 :: uint_str u) with (uint_str (D4 u)). rewrite R, O. reflexivity.
  - cbn [uint_str]. change (53 =? 48) with false. cbn [andb].
    change (53 :: uint_str u) with (uint_str (D5 u)). rewrite R, O. reflexivity.
  - cbn [uint_str]. change (54 =? 48) with false. cbn [andb].
    change (54 :: uint_str u) with (uint_str (D6 u)). rewrite R, O. reflexivity.
  - cbn [uint_str]. change (55 =? 48) with false. cbn [andb].
    change (55 :: uint_str u) with (uint_str (D7 u)). rewrite R, O. reflexivity.
  - cbn [uint_str]. change (56 =? 48) with false. cbn [andb].
    change (56 :: uint_str u) with (uint_str (D8 u)). rewrite R, O. reflexivity.
  - cbn [uint_str]. change (57 =? 48) with false. cbn [andb].
    change (57 :: uint_str u) with (uint_str (D9 u)). rewrite R, O. reflexivity.
Qed.

Lemma uint_str_digits u : forallb is_digit (uint_str u) = true.
Proof. induction u; cbn [uint_str forallb]; try rewrite IHu; reflexivity. Qed.
Lemma dec_digits n : forallb is_digit (dec n) = true.
Proof. apply uint_str_digits. Qed.

(* ------------------------------------------------------------------ ASCII lines *)
Definition line_char (c : N) : bool := (c <? 128) && negb (c =? c_nl).
Definition ascii_line (s : str) : Prop := forallb line_char s = true.

Lemma ascii_line_app a b : ascii_line a -> ascii_line b -> ascii_line (a ++ b).
Proof. unfold ascii_line; intros; rewrite forallb_app; apply andb_true_iff; auto. Qed.

Lemma ascii_line_encode s : ascii_line s -> encode s = s.
Proof.
  unfold ascii_line, encode. induction s as [|c s IH]; cbn [forallb flat_map]; intro H; [reflexivity|].
  apply andb_true_iff in H as [Hc Hs]. rewrite (IH Hs).
  unfold line_char in Hc. apply andb_true_iff in Hc as [Hc _].
  unfold utf8. rewrite Hc. reflexivity.
Qed.

Lemma ascii_line_no_nl s : ascii_line s -> ~ In c_nl s.
Proof.
  unfold ascii_line. induction s as [|c s IH]; cbn [forallb]; intros H I.
  - destruct I.
  - apply andb_true_iff in H as [Hc Hs]. destruct I as [E|I].
    + subst c. discriminate Hc.
    + exact (IH Hs I).
Qed.

Lemma digits_ascii_line s : forallb is_digit s = true -> ascii_line s.
Proof.
  unfold ascii_line. induction s as [|c s IH]; cbn [forallb]; intro H; [reflexivity|].
  apply andb_true_iff in H as [Hc Hs]. rewrite (IH Hs), andb_true_r.
  unfold is_digit in Hc. unfold line_char, c_nl.
  apply andb_true_iff in Hc as [H1 H2]. apply N.leb_le in H1, H2.
  apply andb_true_iff; split; [apply N.ltb_lt; lia | apply negb_true_iff, N.eqb_neq; lia].
Qed.

Lemma encode_app a b : encode (a ++ b) = encode a ++ encode b.
Proof. apply flat_map_app. Qed.

(* ------------------------------------------------------------------ the reader *)
Lemma read_line_app l r : ~ In c_nl l -> read_line (l ++ c_nl :: r) = Some (l, r).
Proof.
  induction l as [|b l IH]; cbn [Datatypes.app read_line]; intro H.
  - reflexivity.
  - destruct (b =? c_nl) eqn:E.
    + apply N.eqb_eq in E. exfalso; apply H; left; auto.
    + rewrite IH; [reflexivity | intro I; apply H; right; exact I].
Qed.

Lemma strip_prefix_app p s : strip_prefix p (p ++ s) = Some s.
Proof.
  induction p as [|x p IH]; cbn [Datatypes.app strip_prefix]; [destruct s; reflexivity|].
  rewrite N.eqb_refl. exact IH.
Qed.

Lemma firstn_len_app {A} (a b : list A) : firstn (length a) (a ++ b) = a.
Proof. induction a; cbn; congruence. Qed.
Lemma skipn_len_app {A} (a b : list A) : skipn (length a) (a ++ b) = b.
Proof. induction a; cbn; congruence. Qed.

Lemma hdr_bytes_line : ascii_line HDR_BYTES.  Proof. reflexivity. Qed.
Lemma hdr_file_line : ascii_line HDR_FILE.    Proof. reflexivity. Qed.

(* inline transfer: the daemon's reader gets exactly the encoded data and leaves exactly what
   the Python side writes afterwards *)
Lemma framing_in_sync_proof : forall data rest,
  reader (frame data ++ rest) = Some (encode data, rest).
Proof.
  intros data rest. unfold frame, reader.
  set (n := N.of_nat (length (encode data))).
  assert (L : ascii_line (HDR_BYTES ++ dec n))
    by (apply ascii_line_app; [exact hdr_bytes_line | apply digits_ascii_line, dec_digits]).
  replace (encode (HDR_BYTES ++ dec n ++ [c_nl] ++ data) ++ rest)
    with ((HDR_BYTES ++ dec n) ++ c_nl :: (encode data ++ rest)).
  2:{ rewrite (app_assoc HDR_BYTES), encode_app, (ascii_line_encode _ L).
      rewrite encode_app. cbn [encode flat_map Datatypes.app]. unfold utf8 at 1. cbn [N.ltb N.compare Pos.compare Pos.compare_cont].
      rewrite <- !app_assoc. reflexivity. }
  rewrite (read_line_app _ _ (ascii_line_no_nl _ L)).
  rewrite strip_prefix_app, parse_dec_dec.
  unfold n. rewrite Nat2N.id.
  replace (length (encode data ++ rest) <? length (encode data))%nat with false
    by (symmetry; apply Nat.ltb_ge; rewrite app_length; lia).
  rewrite firstn_len_app, skipn_len_app. reflexivity.
Qed.

(* transfer through a file: the command line is consumed exactly (the path has no newline and
   is ASCII here; the data does not travel on the channel at all) *)
Lemma framing_file_in_sync_proof : forall path rest,
  ascii_line path -> reader_file (frame_file path ++ rest) = Some (path, rest).
Proof.
  intros path rest P. unfold frame_file, reader_file.
  assert (L : ascii_line (HDR_FILE ++ path)) by (apply ascii_line_app; [exact hdr_file_line | exact P]).
  replace (encode (HDR_FILE ++ path ++ [c_nl]) ++ rest) with ((HDR_FILE ++ path) ++ c_nl :: rest).
  2:{ rewrite (app_assoc HDR_FILE), encode_app, (ascii_line_encode _ L).
      cbn [encode flat_map Datatypes.app]. unfold utf8. cbn [N.ltb N.compare Pos.compare Pos.compare_cont].
      rewrite <- !app_assoc. reflexivity. }
  rewrite (read_line_app _ _ (ascii_line_no_nl _ L)), strip_prefix_app. reflexivity.
Qed.

(* the count sent before the repair (characters) loses synchronisation on non-ASCII data *)
Lemma framing_charcount_refuted_proof :
  exists data rest, reader (frame_old data ++ rest) <> Some (encode data, rest).
Proof. exists [65; 61; 233], [97; 10]. vm_compute. discriminate. Qed.

Example framing_example :
  reader (frame [65; 61; 39; 233; 32; 8364; 39] ++ PROBE)
  = Some ([65; 61; 39; 195; 169; 32; 226; 130; 172; 39], PROBE).
Proof. vm_compute. reflexivity. Qed.
