(* Prop_C19.v — the property theorems of C19 and nothing else. *)
From Coq Require Import List NArith ZArith Bool.
Import ListNotations.
From Verif Require Import Base.Val C18.Fs C18.FsLemmas C18.Model_C18 C18.Spec_C18 C18.Proofs_C18.
From Verif Require Import C18.Exact_C18.
From Verif Require Import C19.Model_C19 C19.Spec_C19 C19.Proofs_C19 C19.Crash_C19 C19.Whole_C19.

(* crash_frame: at EVERY crash point of the merge, a path the merge never names (and whose
   inode it never writes) holds its old node *)
Theorem crash_frame : forall i k q,
  untouched (merge_ops i) (i_fs i) q ->
  lookup (crash_state (merge_ops i) (i_fs i) k) q = lookup (i_fs i) q.
Proof. exact crash_frame_proof. Qed.
Print Assumptions crash_frame.

(* every crash state of the whole merge is a crash state of ONE step block (offset mkdir, one
   directory entry, one non-directory entry) started from a boundary state that is itself a
   crash state of the merge *)
Theorem crash_localised : forall i k,
  exists sb blk k' j,
    step_block i sb blk /\
    crash_state (merge_ops i) (i_fs i) k = crash_state blk sb k' /\
    sb = crash_state (merge_ops i) (i_fs i) j.
Proof. exact crash_localised_proof. Qed.
Print Assumptions crash_localised.

(* crash_atomic for copyfile over an existing path, for every chunking of the write and EVERY
   crash point: the path holds its old node or the complete staged node (all data, mode,
   owner, mtime); only the path and its '#new' sibling change *)
Theorem copy_crash_atomic : forall um x chunks cp s k,
  let tmp := sibling_new cp in
  let ops := staged_file_ops_chunked um x chunks cp in
  let st := crash_state ops s k in
  (forall q, q <> cp -> q <> tmp -> lookup st q = lookup s q) /\
  (lookup st cp = lookup s cp \/
   exists s2, run_opt (removelast ops) s = Some s2 /\
     lookup s2 tmp = Some (staged_node (file_create_mode um) chunks (perms_new x tmp) (fresh_ino s)) /\
     lookup st cp = lookup s2 tmp /\ lookup st tmp = None).
Proof. exact copy_crash_atomic_proof. Qed.
Print Assumptions copy_crash_atomic.

(* crash_atomic for do_link's '#new' + rename *)
Theorem link_crash_atomic : forall pre a b s k na,
  let tmp := sibling_new b in
  (pre = [] \/ pre = [Unlink tmp]) ->
  lookup s a = Some na -> a <> tmp ->
  let st := crash_state (link_ops pre a b) s k in
  (forall q, q <> b -> q <> tmp -> lookup st q = lookup s q) /\
  (lookup st b = lookup s b \/ lookup st b = Some na).
Proof. exact link_crash_atomic_proof. Qed.
Print Assumptions link_crash_atomic.

(* the one allowed intermediate: an existing directory gets its owner, then its mtime; its
   mode never changes and nothing else is touched *)
Theorem dir_metadata_two_step : forall x cp n2 s k m u g t,
  lookup s cp = Some (Dir m u g t) ->
  let st := crash_state (perms_existing x cp cp n2) s k in
  (forall q, q <> cp -> lookup st q = lookup s q) /\
  exists u' g' t', lookup st cp = Some (Dir m u' g' t') /\
    (t' = t \/ (Some t' = e_mtime x /\ u' = (match e_uid x with Some v => v | None => u end)
                                    /\ g' = (match e_gid x with Some v => v | None => g end))
            \/ (Some t' = e_mtime x /\ u' = u /\ g' = g)).
Proof. exact dir_metadata_two_step_proof. Qed.
Print Assumptions dir_metadata_two_step.

(* crash_atomic for the WHOLE merge on the NoAlias domain of C18.merged_exact, composed from
   crash_localised and the merge invariant: at EVERY crash point k the state is a crash state of
   ONE step block [blk] started from a boundary state [sb] in which
   (a) every path that is not the location of an already processed entry (and not a created
       missing parent) holds its complete PRE-MERGE node, and
   (b) every already processed entry is COMPLETELY installed (type, data/target, mode, owner,
       mtime; an existing directory keeps its mode).
   What the single unfinished block may do to its own location is stated by copy_crash_atomic,
   link_crash_atomic and dir_metadata_two_step above. *)
Theorem crash_atomic_steps : forall i sf k,
  noalias i = true -> merge_err i = None -> run_opt (merge_ops i) (i_fs i) = Some sf ->
  exists P sb blk k',
    incl P (cset_of i) /\ step_block i sb blk /\
    crash_state (merge_ops i) (i_fs i) k = crash_state blk sb k' /\
    (forall q, (forall y, In y P -> e_loc y <> q) ->
       ~ (lookup (i_fs i) q = None /\ exists x, In x (cset_of i) /\ pprefix q (e_loc x)) ->
       lookup sb q = lookup (i_fs i) q) /\
    (forall y, In y P -> exists n, lookup sb (e_loc y) = Some n /\ installed (i_fs i) y n).
Proof. exact crash_atomic_steps_proof. Qed.
Print Assumptions crash_atomic_steps.

(* crash_atomic for the WHOLE merge (closed statement): on the NoAlias domain, at EVERY crash
   prefix k every path that existed before the merge holds its complete pre-merge node or its
   complete final node.  The one allowed exception, stated explicitly, is dir_metadata_two_step:
   a directory that existed before, caught between lchown and utime - still a directory with
   its old mode and old mtime, owner possibly already the new one. *)
Theorem crash_atomic_whole : forall i sf k p,
  noalias i = true -> merge_err i = None -> run_opt (merge_ops i) (i_fs i) = Some sf ->
  lookup (i_fs i) p <> None ->
  let st := crash_state (merge_ops i) (i_fs i) k in
  lookup st p = lookup (i_fs i) p \/ lookup st p = lookup sf p \/
  (exists m u g t u' g', lookup (i_fs i) p = Some (Dir m u g t) /\ lookup st p = Some (Dir m u' g' t)).
Proof. exact crash_atomic_whole_proof. Qed.
Print Assumptions crash_atomic_whole.
