"""Fail-closed translator of literal data in /repo's source into coq/gen/Tables_*.v (DESIGN §3.1).

Only literal data is translated (rank tables, operator tables, option gates, magic strings,
protocol literals).  The sources are parsed with `ast` (never imported); an AST shape the
extractor does not recognise raises TableError, which a check reports as a broken tie.

Property modules own their tables: a harness module may define

    def gen_tables() -> dict[str, str]:      # {"Tables_cpv.v": "<Coq text>"}

`python -m harness.tables --all` (run by setup.sh) calls every module's gen_tables();
a check calls `tables.regenerate(module)` itself before building.
"""

from __future__ import annotations

import ast
import importlib
import pkgutil
import sys
from pathlib import Path

from .common import COQ, SRC, cstr


class TableError(Exception):
    pass


def parse(rel: str) -> ast.Module:
    p = SRC / rel
    try:
        return ast.parse(p.read_text())
    except (OSError, SyntaxError) as e:
        raise TableError(f"cannot parse {p}: {e}") from e


def find_assign(tree: ast.AST, name: str, cls: str | None = None) -> ast.expr:
    """value expression of the (unique) top-level or class-level `name = ...`."""
    scope = tree
    if cls is not None:
        for n in ast.walk(tree):
            if isinstance(n, ast.ClassDef) and n.name == cls:
                scope = n
                break
        else:
            raise TableError(f"class {cls} not found")
    hits = []
    for n in ast.iter_child_nodes(scope):
        if isinstance(n, ast.Assign) and any(isinstance(t, ast.Name) and t.id == name for t in n.targets):
            hits.append(n.value)
        if isinstance(n, ast.AnnAssign) and isinstance(n.target, ast.Name) and n.target.id == name and n.value:
            hits.append(n.value)
    if len(hits) != 1:
        raise TableError(f"expected exactly one assignment to {name}, found {len(hits)}")
    return hits[0]


def literal(node: ast.expr):
    """ast.literal_eval that fails closed, additionally accepting frozenset(<literal>)/set()/tuple()."""
    if isinstance(node, ast.Call) and isinstance(node.func, ast.Name) and node.func.id in (
        "frozenset", "set", "tuple", "list") and len(node.args) <= 1 and not node.keywords:
        inner = literal(node.args[0]) if node.args else ()
        return {"frozenset": frozenset, "set": set, "tuple": tuple, "list": list}[node.func.id](inner)
    try:
        return ast.literal_eval(node)
    except Exception as e:  # noqa: BLE001
        raise TableError(f"not a literal: {ast.dump(node)[:200]}") from e


def find_func(tree: ast.AST, qual: str) -> ast.FunctionDef:
    node = tree
    for part in qual.split("."):
        for ch in ast.iter_child_nodes(node):
            if isinstance(ch, (ast.FunctionDef, ast.ClassDef)) and ch.name == part:
                node = ch
                break
        else:
            raise TableError(f"{qual}: {part} not found")
    return node  # type: ignore[return-value]


def header(src: str) -> str:
    return (f"(* GENERATED from {src} by harness/tables.py on every run — do not edit. *)\n"
            "From Coq Require Import List ZArith NArith Bool.\nImport ListNotations.\n"
            "From Verif Require Import Base.Val.\n")


def write(name: str, text: str) -> bool:
    """Write coq/gen/<name> only when the content changed (keeps make incremental)."""
    p = COQ / "gen" / name
    p.parent.mkdir(exist_ok=True)
    if p.exists() and p.read_text() == text:
        return False
    p.write_text(text)
    return True


def regenerate(mod) -> list[str]:
    """Run mod.gen_tables() and write the files; raises TableError (fail closed)."""
    out = []
    gen = getattr(mod, "gen_tables", None)
    if gen is None:
        return out
    for name, text in gen().items():
        write(name, text)
        out.append(name)
    return out


def main(argv):
    import harness

    rc = 0
    for m in pkgutil.iter_modules(harness.__path__):
        if not (m.name.startswith("c") and m.name[1:].isdigit()):
            continue
        try:
            mod = importlib.import_module(f"harness.{m.name}")
            names = regenerate(mod)
            if names:
                print(f"tables: {m.name}: {', '.join(names)}")
        except TableError as e:
            print(f"tables: {m.name}: FAILED CLOSED: {e}")
            rc = 1
        except Exception as e:  # noqa: BLE001
            print(f"tables: {m.name}: import problem: {e!r}")
            rc = 1
    return rc


if __name__ == "__main__":
    sys.exit(main(sys.argv[1:]))
