"""C35 — fail-closed extraction of the protocol literals of BOTH sides (DESIGN §3.1, §6 C35).

Python side (ast, never imported): per function the ordered literals passed to `.write(...)` and
`.expect(...)`, the keys of generic_handler's handler table, the words readlines intercepts, the
extra handler keys of get_keys/get_ebuild_environment/_run_depend_like_phase and of ebd.py.
Bash side (small text scanner): the `case` arms of __ebd_main_loop / __ebd_process_ebuild_phases
with the `__ebd_write_line` literals of every arm, per function the ordered `__ebd_write_line`
literals and the literals compared with a line that was read.

A literal is kept up to its first variable part (f-string field, `$`); a wholly dynamic argument
is recorded as "$".  Any shape the scanner does not recognise raises TableError.
"""

from __future__ import annotations

import ast
import re

from .common import REPO, SRC
from .tables import TableError, header

EBD = REPO / "data" / "lib" / "pkgcore" / "ebd"
CHAN = ("self", "ebp", "ebd")


# ----------------------------------------------------------------------------- python side
def _lit_prefix(node) -> str:
    """constant prefix of a str expression; '$' when it starts with a dynamic part"""
    if isinstance(node, ast.Constant) and isinstance(node.value, str):
        return node.value
    if isinstance(node, ast.JoinedStr):
        out = ""
        for v in node.values:
            if isinstance(v, ast.Constant) and isinstance(v.value, str):
                out += v.value
            else:
                break
        return out if out else "$"
    return "$"


def _first_line(s: str) -> str:
    return s.split("\n", 1)[0]


def _is_chan_call(node, name):
    if not (isinstance(node, ast.Call) and isinstance(node.func, ast.Attribute) and node.func.attr == name):
        return False
    v = node.func.value
    if isinstance(v, ast.Name) and v.id in CHAN:
        return True
    return isinstance(v, ast.Attribute) and isinstance(v.value, ast.Name) and v.value.id == "self" and v.attr == "ebd"


def _functions(tree):
    """(qualname, node) of every function, nested ones included (qualified by the outer name)"""
    out = []

    def rec(node, prefix):
        for ch in ast.iter_child_nodes(node):
            if isinstance(ch, (ast.FunctionDef, ast.AsyncFunctionDef)):
                out.append((prefix + ch.name, ch))
                rec(ch, prefix + ch.name + ".")
            elif isinstance(ch, ast.ClassDef):
                rec(ch, prefix)
            else:
                rec(ch, prefix)
    rec(tree, "")
    return out


def _own_nodes(fn):
    """nodes of fn in source order, not descending into nested function definitions"""
    stack = list(reversed(list(ast.iter_child_nodes(fn))))
    while stack:
        n = stack.pop()
        if isinstance(n, (ast.FunctionDef, ast.AsyncFunctionDef, ast.Lambda)):
            continue
        yield n
        stack.extend(reversed(list(ast.iter_child_nodes(n))))


def scan_python(path, modname=""):
    try:
        tree = ast.parse(path.read_text())
    except (OSError, SyntaxError) as e:
        raise TableError(f"cannot parse {path}: {e}") from e
    writes, expects = {}, {}
    for q, fn in _functions(tree):
        calls = [n for n in _own_nodes(fn) if isinstance(n, ast.Call)]
        calls.sort(key=lambda n: (n.lineno, n.col_offset))
        for n in calls:
            if _is_chan_call(n, "write"):
                if not n.args:
                    raise TableError(f"{path.name}:{n.lineno}: write() without argument")
                # red("...") + "\n" and friends are data lines
                writes.setdefault(modname + q, []).append(_first_line(_lit_prefix(n.args[0])))
            elif _is_chan_call(n, "expect"):
                if not n.args or not (isinstance(n.args[0], ast.Constant) and isinstance(n.args[0].value, str)):
                    raise TableError(f"{path.name}:{n.lineno}: expect() of a non-literal")
                expects.setdefault(modname + q, []).append(n.args[0].value)
    return tree, writes, expects


def scan_handlers(tree):
    fn = None
    for q, f in _functions(tree):
        if q == "generic_handler":
            fn = f
    if fn is None:
        raise TableError("generic_handler not found")
    keys, loopvars = [], {}
    for n in _own_nodes(fn):
        if isinstance(n, ast.Assign) and len(n.targets) == 1:
            t = n.targets[0]
            if isinstance(t, ast.Name) and t.id == "handlers":
                if not isinstance(n.value, ast.Dict):
                    raise TableError("handlers is not a dict literal")
                for k in n.value.keys:
                    if not (isinstance(k, ast.Constant) and isinstance(k.value, str)):
                        raise TableError("handlers: non-literal key")
                    keys.append(k.value)
            elif isinstance(t, ast.Subscript) and isinstance(t.value, ast.Name) and t.value.id == "handlers":
                s = t.slice
                if isinstance(s, ast.Constant) and isinstance(s.value, str):
                    keys.append(s.value)
                elif isinstance(s, ast.Name) and s.id in loopvars:
                    keys.extend(loopvars[s.id])
                else:
                    raise TableError(f"handlers[...] assigned with an unrecognised key at line {n.lineno}")
        elif isinstance(n, ast.For) and isinstance(n.target, ast.Name) and isinstance(n.iter, (ast.Tuple, ast.List)):
            vals = []
            for e in n.iter.elts:
                if not (isinstance(e, ast.Constant) and isinstance(e.value, str)):
                    vals = None
                    break
                vals.append(e.value)
            if vals is not None:
                loopvars[n.target.id] = vals
    if not keys:
        raise TableError("no handler keys found")
    return keys


def scan_compares(tree, qual, var):
    """string constants `var` (a Name, or a call/subscript on it) is compared with, in `qual`"""
    for q, fn in _functions(tree):
        if q == qual:
            out = []
            for n in _own_nodes(fn):
                if isinstance(n, ast.Compare) and len(n.ops) == 1 and isinstance(n.ops[0], ast.Eq):
                    sides = [n.left, n.comparators[0]]
                    names = {x.id for s in sides for x in ast.walk(s) if isinstance(x, ast.Name)}
                    consts = [s.value for s in sides if isinstance(s, ast.Constant) and isinstance(s.value, str)]
                    if var in names and consts:
                        out.append(consts[0])
            return out
    raise TableError(f"{qual} not found")


def scan_extra_handlers(ptree, etree):
    """handler keys added by callers of generic_handler: {site: [keys]}"""
    out = {}
    for q, fn in _functions(ptree):
        for n in _own_nodes(fn):
            if isinstance(n, ast.Call):
                for kw in n.keywords:
                    if kw.arg == "extra_commands" and isinstance(kw.value, ast.Dict):
                        for k in kw.value.keys:
                            if not (isinstance(k, ast.Constant) and isinstance(k.value, str)):
                                raise TableError("extra_commands: non-literal key")
                            out.setdefault(q, []).append(k.value)
                if (q in ("get_keys", "get_ebuild_environment") and isinstance(n.func, ast.Attribute)
                        and n.func.attr == "_run_depend_like_phase"):
                    if not (n.args and isinstance(n.args[0], ast.Constant) and isinstance(n.args[0].value, str)):
                        raise TableError(f"{q}: _run_depend_like_phase command is not a literal")
                    out.setdefault(q + ":command", []).append(n.args[0].value)
            if isinstance(n, ast.Assign) and len(n.targets) == 1 and isinstance(n.targets[0], ast.Subscript):
                t = n.targets[0]
                if (isinstance(t.value, ast.Name) and t.value.id in ("commands", "additional_commands")
                        and isinstance(t.slice, ast.Constant) and isinstance(t.slice.value, str)):
                    out.setdefault(q, []).append(t.slice.value)
    ipc = None
    for q, fn in _functions(etree):
        for n in _own_nodes(fn):
            if isinstance(n, ast.Assign) and len(n.targets) == 1:
                t = n.targets[0]
                if (isinstance(t, ast.Attribute) and t.attr == "_ipc_helpers" and isinstance(n.value, ast.Dict)
                        and ipc is None):
                    ipc = []
                    for k in n.value.keys:
                        if not (isinstance(k, ast.Constant) and isinstance(k.value, str)):
                            raise TableError("_ipc_helpers: non-literal key")
                        ipc.append(k.value)
                if (isinstance(t, ast.Subscript) and isinstance(t.value, ast.Name)
                        and t.value.id in ("commands", "additional_commands", "extra_handlers")
                        and isinstance(t.slice, ast.Constant) and isinstance(t.slice.value, str)):
                    out.setdefault("ebd." + q, []).append(t.slice.value)
            if (isinstance(n, ast.Call) and isinstance(n.func, ast.Attribute) and n.func.attr == "setdefault"
                    and isinstance(n.func.value, ast.Name) and n.func.value.id == "extra_handlers"
                    and n.args and isinstance(n.args[0], ast.Constant)):
                out.setdefault("ebd." + q, []).append(n.args[0].value)
    if ipc is None:
        raise TableError("ebd.py: _ipc_helpers dict literal not found")
    out["ebd.ipc"] = ipc
    return out


# ----------------------------------------------------------------------------- bash side
FUNC_RE = re.compile(r"^([A-Za-z_][\w.]*)\(\)\s*\{\s*$")
WFD = "${PKGCORE_EBD_WRITE_FD}"


def bash_functions(path):
    """{name: [(lineno, text)]} for every `name() {` ... `}` at column 0; lines outside any
    function that touch the channel fail closed"""
    try:
        lines = path.read_text().split("\n")
    except OSError as e:
        raise TableError(f"cannot read {path}: {e}") from e
    funcs, cur, name = {}, None, None
    for i, ln in enumerate(lines, 1):
        m = FUNC_RE.match(ln)
        if cur is None and m:
            name, cur = m.group(1), []
            continue
        if cur is not None:
            if ln.rstrip() == "}":
                funcs[name] = cur
                cur = None
            else:
                cur.append((i, ln))
        else:
            code = ln.split("#", 1)[0]
            if "__ebd_write" in code or "__ebd_read" in code or WFD in code:
                if not re.match(r"^declare -r ", code):
                    raise TableError(f"{path.name}:{i}: channel use outside a function")
    if cur is not None:
        raise TableError(f"{path.name}: unterminated function {name}")
    return funcs


def _code(ln):
    """strip a trailing comment (only ` #`/leading `#`, which is all these files use)"""
    s = ln.lstrip()
    if s.startswith("#"):
        return ""
    return re.sub(r"\s#\s.*$", "", ln)


def _write_arg(arg, where):
    arg = arg.strip()
    if not arg:
        return ""
    if arg[0] == '"':
        j = arg.find('"', 1)
        if j < 0 or "\\" in arg[:j]:
            raise TableError(f"{where}: unrecognised quoting in {arg!r}")
        lit = arg[1:j]
    elif arg[0] == "$":
        return "$"
    elif arg[0] == "'":
        raise TableError(f"{where}: single-quoted write literal {arg!r}")
    else:
        lit = re.split(r"\s", arg, 1)[0]
    k = lit.find("$")
    if k == 0:
        return "$"
    return lit if k < 0 else lit[:k]


def bash_writes(body, where):
    """ordered write literals of a function body (list of (lineno, text)); raw literals keep
    their `${var}` parts for the caller that wants to resolve them"""
    out = []
    for i, ln in body:
        c = _code(ln)
        m = re.search(r"__ebd_write_(line|raw|array)\b(.*)$", c)
        if m and not re.match(r"^\s*__ebd_write_\w+\(\)", c):
            if m.group(1) == "line":
                arg = m.group(2).strip()
                raw = arg
                if arg.startswith('"'):
                    j = arg.find('"', 1)
                    raw = arg[1:j] if j > 0 else arg
                if raw.startswith("key ") and "=" not in raw:
                    raise TableError(f"{where}:{i}: a `key` line without '=' would end generic_handler early")
                out.append((i, _write_arg(arg, f"{where}:{i}"), raw))
            continue
        if WFD in c:
            m2 = re.search(r'echo -n "([^"$]*)\$\{key\}=" >&', c)
            if m2:
                out.append((i, m2.group(1), m2.group(1) + "${key}="))
            elif re.search(r"printf '([^'%$]*)%s=%s\\n' \"\$\{key\}\" ", c):
                m3 = re.search(r"printf '([^'%$]*)%s=%s\\n' ", c)
                out.append((i, m3.group(1), m3.group(1) + "%s="))
            elif re.search(r"echo \$\{!key\} >&", c) or re.search(r"^\s*exec 2>&", c):
                pass      # continuation of the key line / die's stderr (free text up to "dead")
            elif "printf(\"receive_env %i\\n%s\"" in c:
                out.append((i, "receive_env ", "receive_env %i"))
            elif re.search(r"^\s*(echo|printf) .*>&\$\{PKGCORE_EBD_WRITE_FD\}\s*$", c) and where.startswith("lib:"):
                pass      # the bodies of __ebd_write_line/_raw/_array themselves
            else:
                raise TableError(f"{where}:{i}: unrecognised direct write to the channel: {c.strip()!r}")
    return out


def bash_read_compares(body):
    out = []
    for i, ln in body:
        c = _code(ln)
        for m in re.finditer(r'\[\[ \$\{(?:line|com)\} (?:==|!=) "([^"$]*)" \]\]', c):
            out.append(m.group(1))
    return out


def _pattern(p, where):
    p = p.strip()
    if p == "*":
        return None
    star = p.endswith("*")
    if star:
        p = p[:-1]
    if len(p) >= 2 and p.startswith('"') and p.endswith('"'):
        p = p[1:-1]
        bad = re.search(r"[$\\\"`]", p)
    else:
        p = p.replace("\\ ", " ")
        bad = re.search(r"[*?\[\]$\\\"'`]", p)
    if bad or not p:
        raise TableError(f"{where}: unrecognised case pattern {p!r}")
    return (star, p)


def case_arms(body, var, where):
    """arms of the first `case ${var} in` of a function body:
    [(patterns|None for the default arm, [(lineno,text)])]"""
    start = None
    for k, (i, ln) in enumerate(body):
        if re.match(r"^\t*case \$\{" + var + r"\} in\s*$", ln):
            start = k
            break
    if start is None:
        raise TableError(f"{where}: `case ${{{var}}} in` not found")
    indent = len(body[start][1]) - len(body[start][1].lstrip("\t"))
    arms, cur = [], None
    for i, ln in body[start + 1:]:
        ind = len(ln) - len(ln.lstrip("\t"))
        if ind == indent and ln.strip() == "esac":
            if cur:
                arms.append(cur)
            return arms
        m = re.match(r"^(.+)\)\s*$", ln.strip())
        if ind == indent + 1 and m and not ln.strip().startswith("#"):
            if cur:
                arms.append(cur)
            pats = [_pattern(p, f"{where}:{i}") for p in m.group(1).split("|")]
            cur = (pats, [])
        elif cur is not None:
            cur[1].append((i, ln))
        elif ln.strip():
            raise TableError(f"{where}:{i}: text before the first case arm")
    raise TableError(f"{where}: esac not found")


def arm_replies(body, where):
    """write literals of an arm, `${name}` resolved through the `name="v"` assignments of the arm"""
    assigns = {}
    for i, ln in body:
        for m in re.finditer(r"\b([a-z_]+)=(?:\"([a-z]+)\"|'([a-z]+)')", _code(ln)):
            assigns.setdefault(m.group(1), []).append(m.group(2) or m.group(3))
    out = []
    for i, lit, raw in bash_writes(body, where):
        m = re.fullmatch(r"([^$]*)\$\{([a-z_]+)\}", raw)
        if m and m.group(2) in assigns:
            out.extend(m.group(1) + v for v in assigns[m.group(2)])
        else:
            out.append(lit)
    return out


def scan_bash():
    dm = bash_functions(EBD / "ebuild-daemon.bash")
    lib = bash_functions(EBD / "ebuild-daemon-lib.bash")
    ex = bash_functions(EBD / "exit-handling.bash")
    eb = bash_functions(EBD / "ebuild.bash")
    for need, where in (("__ebd_main_loop", dm), ("__ebd_process_ebuild_phases", dm), ("__ebd_exec_main", dm),
                        ("__ebd_write_line", lib), ("__ebd_read_line", lib), ("die", ex)):
        if need not in where:
            raise TableError(f"bash function {need} not found")
    t = {}
    for key, fn, var in (("main", "__ebd_main_loop", "com"), ("phase", "__ebd_process_ebuild_phases", "line"),
                         ("sandbox", "__ebd_exec_main", "com")):
        arms = case_arms(dm[fn], var, fn)
        rows, default = [], None
        for pats, body in arms:
            rep = arm_replies(body, fn)
            if pats == [None]:
                default = body
                continue
            if None in pats:
                # `lines|*)` inside a nested case is not reached here; a top-level mix is unknown
                raise TableError(f"{fn}: default pattern mixed with others")
            for p in pats:
                rows.append((p, rep))
        if default is None or not any(re.search(r"\bdie\b", _code(l)) for _, l in default):
            raise TableError(f"{fn}: the default arm no longer dies")
        t[key] = rows
    fw, fr = {}, {}
    for tag, funcs in (("", dm), ("lib:", lib), ("", ex), ("", eb)):
        for name, body in funcs.items():
            w = [lit for _, lit, _ in bash_writes(body, tag + name)]
            if w:
                fw[name] = w
            r = bash_read_compares(body)
            if r:
                fr[name] = r
    t["fn_writes"], t["fn_reads"] = fw, fr
    return t


# ----------------------------------------------------------------------------- Coq text
def cs(s: str) -> str:
    if any(ord(c) > 126 or ord(c) < 32 for c in s):
        raise TableError(f"non-printable character in protocol literal {s!r}")
    return '"' + s.replace('"', '""') + '"'


def cl(items, ty="string"):
    items = list(items)
    return "[" + "; ".join(items) + "]" if items else f"(@nil ({ty}))"


def gen():
    ptree, pw, pe = scan_python(SRC / "ebuild" / "processor.py")
    etree, ew, ee = scan_python(SRC / "ebuild" / "ebd.py", "ebd.")
    handlers = scan_handlers(ptree)
    intercepts = scan_compares(ptree, "readlines", "cmd")
    dead = scan_compares(ptree, "chuck_DyingInterrupt", "line")
    stop = scan_compares(ptree, "chuck_StoppingCommand", "args")
    extra = scan_extra_handlers(ptree, etree)
    if len(dead) != 1 or len(stop) != 1 or len(intercepts) != 3:
        raise TableError(f"unexpected comparison literals: dead={dead} stop={stop} intercepts={intercepts}")
    b = scan_bash()
    pw.update(ew)
    pe.update(ee)

    def assoc(d):
        return cl(["(%s, %s)" % (cs(k), cl(cs(x) for x in v)) for k, v in sorted(d.items())],
                  "string * list string")

    def arms(rows):
        return cl(["((%s, %s), %s)" % ("true" if p[0] else "false", cs(p[1]), cl(cs(x) for x in rep))
                   for p, rep in rows], "(bool * string) * list string")

    out = [header("ebuild/processor.py, ebuild/ebd.py, ebd/ebuild-daemon.bash, ebd/ebuild-daemon-lib.bash, "
                  "ebd/exit-handling.bash, ebd/ebuild.bash (harness/c35_tables.py)"),
           "From Coq Require Import String.\nOpen Scope string_scope.\n",
           "(* bash: ((is_prefix_pattern, text), literals the arm writes) in source order; the default arm dies *)",
           f"Definition sh_main_arms : list ((bool * string) * list string) :=\n  {arms(b['main'])}.",
           f"Definition sh_phase_arms : list ((bool * string) * list string) :=\n  {arms(b['phase'])}.",
           f"Definition sh_sandbox_arms : list ((bool * string) * list string) :=\n  {arms(b['sandbox'])}.",
           "(* bash: per function, the literals written to the channel / compared with a line read *)",
           f"Definition sh_fn_writes : list (string * list string) :=\n  {assoc(b['fn_writes'])}.",
           f"Definition sh_fn_reads : list (string * list string) :=\n  {assoc(b['fn_reads'])}.",
           "(* python: per function, the literals passed to write() (first line, up to the first formatted",
           "   field; \"$\" = dynamic) and to expect() *)",
           f"Definition py_fn_writes : list (string * list string) :=\n  {assoc(pw)}.",
           f"Definition py_fn_expects : list (string * list string) :=\n  {assoc(pe)}.",
           f"Definition py_handlers : list string := {cl(cs(x) for x in handlers)}.",
           f"Definition py_intercepts : list string := {cl(cs(x) for x in intercepts)}.",
           f"Definition py_dead : string := {cs(dead[0])}.",
           f"Definition py_stop_ok : string := {cs(stop[0])}.",
           f"Definition py_extra_handlers : list (string * list string) :=\n  {assoc(extra)}.",
           ""]
    return {"Tables_protocol.v": "\n".join(out)}
