(* Proofs_C02.v — proofs about Model_C02 against Spec_C02. *)
From Coq Require Import List NArith ZArith Bool Lia.
Import ListNotations.
From Verif Require Import Base.Val gen.Tables_C01 gen.Tables_C02 C01.Model_C01 C01.Spec_C01 C01.Order_C01
  C01.Proofs_C01 C02.Model_C02 C02.Spec_C02.

(* ------------------------------------------------------------------ boolean equalities *)
Lemma list_eqb_eq l1 l2 : list_eqb str_eqb l1 l2 = true <-> l1 = l2.
Proof.
  revert l2; induction l1 as [|x l1 IH]; intros [|y l2]; cbn; split; intros H; try reflexivity; try discriminate.
  - apply andb_true_iff in H as [H1 H2]. apply str_eqb_eq in H1. apply IH in H2. congruence.
  - injection H as -> ->. rewrite str_eqb_refl. apply IH. reflexivity.
Qed.
Lemma opt_str_eq o1 o2 : opt_eqb str_eqb o1 o2 = true <-> o1 = o2.
Proof.
  destruct o1, o2; cbn; split; intros H; try reflexivity; try discriminate.
  - apply str_eqb_eq in H. congruence.
  - injection H as ->. apply str_eqb_refl.
Qed.
Lemma opt_list_eq o1 o2 : opt_eqb (list_eqb str_eqb) o1 o2 = true <-> o1 = o2.
Proof.
  destruct o1, o2; cbn; split; intros H; try reflexivity; try discriminate.
  - apply list_eqb_eq in H. congruence.
  - injection H as ->. apply list_eqb_eq. reflexivity.
Qed.
Lemma bool_eqb_eq a b : Bool.eqb a b = true <-> a = b.
Proof. destruct a, b; cbn; split; intros; try reflexivity; discriminate. Qed.

(* every clause that only involves the order holds of the operators of ANY three-valued comparison *)
Lemma order_clauses_of_Z (c : Z) (h : bool) :
  let o := {| o_eq := Z.eqb c 0; o_ne := negb (Z.eqb c 0); o_lt := Z.ltb c 0; o_le := Z.leb c 0;
              o_gt := Z.gtb c 0; o_ge := Z.geb c 0; o_hash := h |} in
  cl_eq_unordered o = true /\ cl_neq_strict o = true /\ cl_ne o = true /\ cl_le o = true
  /\ cl_ge o = true /\ cl_asym o = true.
Proof. destruct c; cbn; repeat split; reflexivity. Qed.

(* ================================================================== CPV *)
Lemma ver_cmp_same v r1 r2 : ver_cmp v r1 v r2 = cmpN (rev_val r1) (rev_val r2).
Proof. unfold ver_cmp, ver_cmp_gen. rewrite str_eqb_refl. reflexivity. Qed.

Section CpvParse.
  (* the CPV parser is not modelled; all that is used is that the fields of a CPV are a FUNCTION of
     its (normalised) text: re-parsing cpvstr gives category, package, version and revision value *)
  Variable cpv_parse : str -> str * str * str * N.
  Definition cpv_consistent (a : cpv) : Prop :=
    cpv_parse (cpv_hash_key a) = (cat a, pkg a, ver a, rev_val (rev a)).

  Lemma cpv_key_sound a b : cpv_consistent a -> cpv_consistent b ->
    cpv_hash_key a = cpv_hash_key b -> cpv_eq a b = true.
  Proof.
    unfold cpv_consistent. intros Ca Cb E. rewrite E in Ca. rewrite Ca in Cb.
    injection Cb as E1 E2 E3 E4.
    unfold cpv_eq, same_key, cpv_vcmp. rewrite E1, E2, E3, !str_eqb_refl, ver_cmp_same, E4, cmpN_refl.
    reflexivity.
  Qed.

  Lemma cpv_eq2_eq a b : cpv_consistent a -> cpv_consistent b -> cpv_eq2 a b = cpv_eq a b.
  Proof.
    intros Ca Cb. unfold cpv_eq2. destruct (str_eqb (cpv_hash_key a) (cpv_hash_key b)) eqn:E; [|reflexivity].
    apply str_eqb_eq in E. rewrite (cpv_key_sound a b Ca Cb E). reflexivity.
  Qed.

  Lemma cpv_eq_same_text_key a b : cpv_eq a b = true -> ver a = ver b -> cpv_hash_key a = cpv_hash_key b.
  Proof.
    unfold cpv_eq, same_key, cpv_vcmp. intros H Ev.
    apply andb_true_iff in H as [H Hc]. apply andb_true_iff in H as [H1 H2].
    apply (proj1 (str_eqb_eq _ _)) in H1. apply (proj1 (str_eqb_eq _ _)) in H2.
    rewrite Ev, ver_cmp_same in Hc. apply (proj1 (Z.eqb_eq _ _)) in Hc. apply (proj1 (cmpN_eq _ _)) in Hc.
    unfold cpv_hash_key. rewrite H1, H2, Ev, Hc. reflexivity.
  Qed.

  Definition cpv_clauses_stmt : Prop :=
    forall a b, cpv_consistent a -> cpv_consistent b -> cpv_clauses a b (cpv_obs a b) = true.

  Lemma cpv_clauses_proof : cpv_clauses_stmt.
  Proof.
    intros a b Ca Cb. unfold cpv_clauses, cpv_obs.
    rewrite (cpv_eq2_eq a b Ca Cb).
    destruct (cpv_ops_proof a b) as (Eeq & _ & Elt & Ele & Egt & Ege).
    assert (Hh : (cpv_known a b
                  || cl_eq_hash {| o_eq := cpv_eq a b; o_ne := negb (cpv_eq a b); o_lt := cpv_lt a b;
                                   o_le := cpv_le a b; o_gt := cpv_gt a b; o_ge := cpv_ge a b;
                                   o_hash := str_eqb (cpv_hash_key a) (cpv_hash_key b) |}) = true).
    { unfold cl_eq_hash, impb, cpv_known. cbn [o_eq o_hash].
      destruct (cpv_eq a b) eqn:E; [|rewrite orb_true_r; reflexivity]. cbn [negb orb].
      assert (S : same_key a b = true) by (unfold cpv_eq in E; apply andb_true_iff in E; tauto).
      rewrite S. cbn [andb]. destruct (str_eqb (ver a) (ver b)) eqn:Ev; [|reflexivity]. cbn [negb orb].
      apply str_eqb_eq in Ev. apply str_eqb_eq. apply cpv_eq_same_text_key; assumption. }
    rewrite Hh. rewrite Eeq, Elt, Ele, Egt, Ege.
    destruct (order_clauses_of_Z (cpv_cmp a b) (str_eqb (cpv_hash_key a) (cpv_hash_key b)))
      as (H1 & H2 & H3 & H4 & H5 & H6).
    cbv zeta in H1, H2, H3, H4, H5, H6. rewrite H1, H2, H3, H4, H5, H6. reflexivity.
  Qed.

  Definition cpv_sym_stmt : Prop :=
    forall a b, cpv_valid a -> cpv_valid b -> cpv_consistent a -> cpv_consistent b ->
      cpv_eq2 a b = cpv_eq2 b a /\ cpv_lt a b = cpv_gt b a /\ cpv_le a b = cpv_ge b a.

  Lemma cpv_sym_proof : cpv_sym_stmt.
  Proof.
    intros a b Va Vb Ca Cb. rewrite !cpv_eq2_eq by assumption.
    destruct (cpv_ops_proof a b) as (Eeq & _ & Elt & Ele & _ & _).
    destruct (cpv_ops_proof b a) as (Eeq' & _ & _ & _ & Egt' & Ege').
    destruct (cpv_order_proof a b a Va Vb Va) as (_ & _ & An & _).
    rewrite Eeq, Eeq', Elt, Ele, Egt', Ege', An.
    destruct (cpv_cmp a b); cbn; repeat split; reflexivity.
  Qed.
End CpvParse.

(* refuted: equal CPVs hashed by different texts (1.0 vs 1.00; _alpha vs _alpha0) *)
Definition mk_cpv (v : str) : cpv := {| cat := [97]%N; pkg := [98]%N; ver := v; rev := None |}.
Lemma cpv_eq_hash_refuted :
  (cpv_eq2 (mk_cpv [49;46;48]%N) (mk_cpv [49;46;48;48]%N) = true
   /\ cpv_hash_key (mk_cpv [49;46;48]%N) <> cpv_hash_key (mk_cpv [49;46;48;48]%N)
   /\ cpv_known (mk_cpv [49;46;48]%N) (mk_cpv [49;46;48;48]%N) = true)
  /\ (cpv_eq2 (mk_cpv [49;95;97;108;112;104;97]%N) (mk_cpv [49;95;97;108;112;104;97;48]%N) = true
      /\ cpv_hash_key (mk_cpv [49;95;97;108;112;104;97]%N) <> cpv_hash_key (mk_cpv [49;95;97;108;112;104;97;48]%N)).
Proof. vm_compute. repeat split; try reflexivity; discriminate. Qed.

(* ================================================================== atoms *)
Definition attrs_equal (a b : atomf) : Prop :=
  a_cpvstr a = a_cpvstr b /\ a_op a = a_op b /\ a_blocks a = a_blocks b /\ a_negate a = a_negate b
  /\ a_use a = a_use b /\ a_slot a = a_slot b /\ a_subslot a = a_subslot b /\ a_slotop a = a_slotop b
  /\ a_repo a = a_repo b.

(* depends on the regenerated attribute list *)
Lemma atom_eq_spec a b : atom_eq a b = true <-> attrs_equal a b.
Proof.
  unfold atom_eq, attrs_equal.
  change attr_comparison with [0;1;2;3;4;5;6;7;8]%N. cbn [forallb attr_eqb].
  rewrite !andb_true_iff, !str_eqb_eq, !bool_eqb_eq, !opt_str_eq, opt_list_eq. tauto.
Qed.

Lemma chain_zero ids a b : chain_cmp ids a b = 0%Z <-> Forall (fun id => key_cmp id a b = 0%Z) ids.
Proof.
  induction ids as [|id ids IH]; cbn [chain_cmp]; [split; [constructor|reflexivity]|].
  destruct (Z.eqb_spec (key_cmp id a b) 0) as [E|E]; split; intros H.
  - constructor; [exact E|apply IH; exact H].
  - inversion H; subst. apply IH; assumption.
  - contradiction.
  - inversion H; subst. contradiction.
Qed.

Lemma tuple_cmp_lex a b : tuple_cmp a b = list_lex str_cmp a b.
Proof. revert b; induction a as [|x a IH]; intros [|y b]; cbn; try reflexivity. rewrite IH. reflexivity. Qed.

Lemma tuple_cmp_zero a b : tuple_cmp a b = 0%Z <-> a = b.
Proof.
  revert b; induction a as [|x a IH]; intros [|y b]; cbn; split; intros H; try reflexivity; try discriminate.
  - destruct (Z.eqb_spec (str_cmp x y) 0) as [E|E].
    + apply str_cmp_eq in E. apply IH in H. congruence.
    + contradiction.
  - injection H as -> ->. rewrite str_cmp_refl. cbn. apply IH. reflexivity.
Qed.

Lemma cmp_opt_zero {A} (c : A -> A -> Z) (Hc : forall x y, c x y = 0%Z <-> x = y) o1 o2 :
  cmp_opt c o1 o2 = 0%Z <-> o1 = o2.
Proof.
  destruct o1, o2; cbn; split; intros H; try reflexivity; try discriminate.
  - apply Hc in H. congruence.
  - injection H as ->. apply Hc. reflexivity.
Qed.

Lemma cmp_bool_zero a b : cmp_bool a b = 0%Z <-> a = b.
Proof. destruct a, b; cbn; split; intros H; try reflexivity; discriminate. Qed.

Section AtomParse.
  (* the atom/CPV parser is not modelled; all that is used is that category, package, version and
     revision are a FUNCTION of the operator (versioned or not) and the cpv text *)
  Variable atom_parse : str -> str -> str * str * option str * option N.
  Definition atom_consistent (a : atomf) : Prop :=
    atom_parse (a_op a) (a_cpvstr a) = (a_cat a, a_pkg a, a_ver a, a_rev a).
  (* an empty slot is rejected by the parser *)
  Definition slot_wf (a : atomf) : Prop := a_slot a <> Some [].

  Lemma atom_vcmp_same a b : a_ver a = a_ver b -> a_rev a = a_rev b -> atom_vcmp a b = 0%Z.
  Proof.
    unfold atom_vcmp. intros -> ->. destruct (a_ver b); [|reflexivity].
    rewrite ver_cmp_same. apply cmpN_refl.
  Qed.

  (* equal atoms are unordered — outside the blocker-strength class *)
  Lemma atom_eq_cmp_zero a b : atom_consistent a -> atom_consistent b ->
    atom_eq a b = true -> k_strength a b = false -> atom_cmp a b = 0%Z.
  Proof.
    intros Ca Cb E K. apply (proj1 (atom_eq_spec _ _)) in E. destruct E as (E0 & E1 & E2 & E3 & E4 & E5 & E6 & E7 & E8).
    unfold k_strength in K. apply negb_false_iff in K. apply (proj1 (bool_eqb_eq _ _)) in K.
    unfold atom_consistent in Ca, Cb. rewrite E0, E1, Cb in Ca. injection Ca as P1 P2 P3 P4.
    unfold atom_cmp. apply chain_zero.
    change cmp_chain with [0;1;2;3;4;5;6;7;8;9]%N.
    repeat constructor; cbn [key_cmp].
    - rewrite P1. apply str_cmp_refl.
    - rewrite P2. apply str_cmp_refl.
    - rewrite E1. apply str_cmp_refl.
    - apply atom_vcmp_same; congruence.
    - rewrite E2. destruct (a_blocks b); reflexivity.
    - rewrite K. destruct (a_bstrong b); reflexivity.
    - rewrite E3. destruct (a_negate b); reflexivity.
    - rewrite E5. apply str_cmp_refl.
    - rewrite E4. apply (cmp_opt_zero tuple_cmp tuple_cmp_zero). reflexivity.
    - rewrite E8. apply (cmp_opt_zero str_cmp str_cmp_eq). reflexivity.
  Qed.

  (* unordered atoms are equal — outside the class of attributes __cmp__ does not read *)
  Lemma atom_cmp_zero_eq a b : slot_wf a -> slot_wf b ->
    atom_cmp a b = 0%Z -> k_blind a b = false -> atom_eq a b = true.
  Proof.
    intros Wa Wb C K. unfold atom_cmp in C. apply (proj1 (chain_zero _ _ _)) in C.
    change cmp_chain with [0;1;2;3;4;5;6;7;8;9]%N in C.
    repeat match goal with H : Forall _ (_ :: _) |- _ => inversion H; clear H; subst end.
    cbn [key_cmp] in *.
    unfold k_blind in K. apply orb_false_iff in K as [K K3]. apply orb_false_iff in K as [K1 K2].
    apply negb_false_iff in K1, K2, K3. apply (proj1 (opt_str_eq _ _)) in K1. apply (proj1 (opt_str_eq _ _)) in K2.
    apply (proj1 (str_eqb_eq _ _)) in K3.
    apply atom_eq_spec. unfold attrs_equal.
    repeat match goal with H : str_cmp _ _ = 0%Z |- _ => apply (proj1 (str_cmp_eq _ _)) in H end.
    repeat match goal with H : cmp_bool _ _ = 0%Z |- _ => apply (proj1 (cmp_bool_zero _ _)) in H end.
    match goal with H : (- cmp_bool _ _)%Z = 0%Z |- _ =>
      assert (Hb : a_blocks a = a_blocks b) by (apply cmp_bool_zero; lia) end.
    match goal with H : cmp_opt tuple_cmp _ _ = 0%Z |- _ => apply (proj1 (cmp_opt_zero tuple_cmp tuple_cmp_zero _ _)) in H end.
    match goal with H : cmp_opt str_cmp _ _ = 0%Z |- _ => apply (proj1 (cmp_opt_zero str_cmp str_cmp_eq _ _)) in H end.
    assert (Hs : a_slot a = a_slot b).
    { unfold slot_wf in Wa, Wb. unfold slot_text in *.
      destruct (a_slot a) as [[|x s]|], (a_slot b) as [[|y t]|]; cbn in *; try congruence; try reflexivity;
        try (exfalso; apply Wa; reflexivity); try (exfalso; apply Wb; reflexivity). }
    repeat split; assumption.
  Qed.

  Definition atom_clauses_stmt : Prop :=
    forall a b, atom_consistent a -> atom_consistent b -> slot_wf a -> slot_wf b ->
      atom_clauses a b (atom_obs a b) = true.

  Lemma atom_eq_hash_outside a b :
    atom_eq a b = true -> k_strength a b = false -> k_use_order a b = false ->
    atom_hash_key a = atom_hash_key b.
  Proof.
    intros E K1 K2. apply (proj1 (atom_eq_spec _ _)) in E. destruct E as (E0 & E1 & E2 & E3 & E4 & E5 & E6 & E7 & E8).
    unfold k_strength in K1. apply negb_false_iff in K1. apply (proj1 (bool_eqb_eq _ _)) in K1.
    unfold k_use_order in K2. apply negb_false_iff in K2. apply (proj1 (opt_list_eq _ _)) in K2.
    unfold atom_hash_key, atom_text. rewrite E0, E1, E2, K1, K2, E5, E6, E7, E8. reflexivity.
  Qed.

  Lemma atom_clauses_proof : atom_clauses_stmt.
  Proof.
    intros a b Ca Cb Wa Wb. unfold atom_clauses, atom_obs, atom_ne, atom_lt, atom_le, atom_gt, atom_ge.
    remember (atom_cmp a b) as c eqn:Hc. remember (str_eqb (atom_hash_key a) (atom_hash_key b)) as h eqn:Hh.
    destruct (order_clauses_of_Z c h) as (H1 & H2 & H3 & H4 & H5 & H6). cbv zeta in H1, H2, H3, H4, H5, H6.
    (* outside the classes, == is exactly "cmp = 0" *)
    assert (Q : k_strength a b = false -> k_blind a b = false -> atom_eq a b = Z.eqb c 0).
    { intros K1 K2. destruct (atom_eq a b) eqn:E.
      - symmetry. apply Z.eqb_eq. rewrite Hc. apply atom_eq_cmp_zero; assumption.
      - destruct (Z.eqb_spec c 0) as [E0|E0]; [|reflexivity].
        rewrite Hc in E0. rewrite (atom_cmp_zero_eq a b Wa Wb E0 K2) in E. discriminate. }
    assert (HH : atom_eq a b = true -> k_strength a b = false -> k_use_order a b = false -> h = true).
    { intros E K1 K3. rewrite Hh, (atom_eq_hash_outside a b E K1 K3). apply str_eqb_refl. }
    assert (C0 : atom_eq a b = true -> k_strength a b = false -> c = 0%Z).
    { intros E K1. rewrite Hc. apply atom_eq_cmp_zero; assumption. }
    assert (N0 : atom_eq a b = false -> k_blind a b = false -> c <> 0%Z).
    { intros E K2 E0. rewrite Hc in E0. rewrite (atom_cmp_zero_eq a b Wa Wb E0 K2) in E. discriminate. }
    clear Hc Hh.
    unfold cl_eq_hash, cl_eq_unordered, cl_neq_strict, cl_ne, cl_le, cl_ge, cl_asym, impb in *.
    cbn [o_eq o_ne o_lt o_le o_gt o_ge o_hash] in *.
    destruct (k_strength a b) eqn:K1; destruct (k_blind a b) eqn:K2; destruct (k_use_order a b) eqn:K3;
      destruct (atom_eq a b) eqn:E; cbn [orb andb negb Bool.eqb];
      try (specialize (C0 eq_refl eq_refl); subst c); try (specialize (HH eq_refl eq_refl eq_refl); subst h);
      try (specialize (N0 eq_refl eq_refl));
      try (destruct c as [|p|p]); try contradiction; try reflexivity; cbn; try reflexivity.
  Qed.
End AtomParse.

(* ================================================================== refuted clauses (witnesses) *)
Definition mk_atom (bs : bool) (op cpvs : str) (u : option (list str)) (sub : option str)
                   (v : option str) : atomf :=
  {| a_cpvstr := cpvs; a_op := op; a_blocks := bs; a_bstrong := bs; a_negate := false; a_use_raw := u;
     a_slot := match sub with Some _ => Some [48]%N | None => None end; a_subslot := sub; a_slotop := None;
     a_repo := None; a_cat := [97]%N; a_pkg := [98]%N; a_ver := v; a_rev := None |}.
Definition weak (a : atomf) : atomf :=
  {| a_cpvstr := a_cpvstr a; a_op := a_op a; a_blocks := true; a_bstrong := false; a_negate := a_negate a;
     a_use_raw := a_use_raw a; a_slot := a_slot a; a_subslot := a_subslot a; a_slotop := a_slotop a;
     a_repo := a_repo a; a_cat := a_cat a; a_pkg := a_pkg a; a_ver := a_ver a; a_rev := a_rev a |}.
Definition ab : str := [97;47;98]%N.                                       (* "a/b" *)

(* !a/b == !!a/b, yet hashed differently and !a/b < !!a/b *)
Lemma atom_blocker_strength_refuted :
  let x := weak (mk_atom true [] ab None None None) in let y := mk_atom true [] ab None None None in
  atom_eq x y = true /\ atom_hash_key x <> atom_hash_key y /\ atom_lt x y = true
  /\ k_strength x y = true /\ cl_eq_hash (atom_obs x y) = false /\ cl_eq_unordered (atom_obs x y) = false.
Proof. vm_compute. repeat split; try reflexivity; discriminate. Qed.

(* a/b[x,y] == a/b[y,x], yet hashed differently *)
Lemma atom_use_order_refuted :
  let x := mk_atom false [] ab (Some [[120]; [121]]%N) None None in
  let y := mk_atom false [] ab (Some [[121]; [120]]%N) None None in
  atom_eq x y = true /\ atom_hash_key x <> atom_hash_key y /\ k_use_order x y = true
  /\ k_strength x y = false /\ cl_eq_hash (atom_obs x y) = false.
Proof. vm_compute. repeat split; try reflexivity; discriminate. Qed.

(* a/b:0/1 != a/b:0/2 and =a/b-1.0 != =a/b-1.00, yet neither < nor > *)
Lemma atom_cmp_blind_refuted :
  (let x := mk_atom false [] ab None (Some [49]%N) None in let y := mk_atom false [] ab None (Some [50]%N) None in
   atom_eq x y = false /\ atom_cmp x y = 0%Z /\ k_blind x y = true /\ cl_neq_strict (atom_obs x y) = false)
  /\ (let x := mk_atom false [61]%N [97;47;98;45;49;46;48]%N None None (Some [49;46;48]%N) in
      let y := mk_atom false [61]%N [97;47;98;45;49;46;48;48]%N None None (Some [49;46;48;48]%N) in
      atom_eq x y = false /\ atom_cmp x y = 0%Z /\ k_blind x y = true /\ cl_neq_strict (atom_obs x y) = false).
Proof. vm_compute. repeat split; reflexivity. Qed.

(* ================================================================== atom_cmp is a total preorder *)
Lemma good_ext {A} (c c' : A -> A -> Z) : (forall a b, c a b = c' a b) -> good c -> good c'.
Proof.
  intros E G. constructor; intros; rewrite <- ?E.
  - apply (g_range G). - apply (g_refl G). - apply (g_anti G).
  - rewrite <- E in H. apply (g_eq G); assumption.
  - rewrite <- E in H, H0. eapply (g_lt G); eassumption.
Qed.

Lemma good_neg {A} (c : A -> A -> Z) : good c -> good (fun a b => (- c a b)%Z).
Proof.
  intros G. constructor.
  - intros a b. destruct (g_range G a b) as [E|[E|E]]; rewrite E; auto.
  - intros a. rewrite (g_refl G). reflexivity.
  - intros a b. rewrite (g_anti G a b). reflexivity.
  - intros a b d H. assert (H' : c a b = 0%Z) by lia. rewrite (g_eq G a b d H'). reflexivity.
  - intros a b d H1 H2.
    assert (E1 : c b a = (-1)%Z) by (rewrite (g_anti G a b); lia).
    assert (E2 : c d b = (-1)%Z) by (rewrite (g_anti G b d); lia).
    pose proof (g_lt G d b a E2 E1) as E3. rewrite (g_anti G a d) in E3. lia.
Qed.

Lemma good_cmp_opt {A} (c : A -> A -> Z) : good c -> good (cmp_opt c).
Proof.
  intros G. constructor.
  - intros [x|] [y|]; cbn; auto. apply (g_range G).
  - intros [x|]; cbn; [apply (g_refl G)|reflexivity].
  - intros [x|] [y|]; cbn; try reflexivity. apply (g_anti G).
  - intros [x|] [y|] [z|]; cbn; intros H; try reflexivity; try discriminate. apply (g_eq G); assumption.
  - intros [x|] [y|] [z|]; cbn; intros H1 H2; try reflexivity; try discriminate. eapply (g_lt G); eassumption.
Qed.

Lemma good_cmp_bool : good cmp_bool.
Proof. apply (good_pull (fun b : bool => if b then 1%Z else 0%Z) _ good_cmpZ). Qed.

Lemma good_tuple_cmp : good tuple_cmp.
Proof. apply (good_ext (list_lex str_cmp)); [intros; symmetry; apply tuple_cmp_lex|apply good_list_lex, good_str_cmp]. Qed.

Definition akeyT : Type := (atomf * option vkey)%type.
Definition akcmp : akeyT -> akeyT -> Z :=
  thenc (fun x y => str_cmp (a_cat (fst x)) (a_cat (fst y)))
 (thenc (fun x y => str_cmp (a_pkg (fst x)) (a_pkg (fst y)))
 (thenc (fun x y => str_cmp (a_op (fst x)) (a_op (fst y)))
 (thenc (fun x y => cmp_opt kcmp (snd x) (snd y))
 (thenc (fun x y => (- cmp_bool (a_blocks (fst x)) (a_blocks (fst y)))%Z)
 (thenc (fun x y => cmp_bool (a_bstrong (fst x)) (a_bstrong (fst y)))
 (thenc (fun x y => cmp_bool (a_negate (fst x)) (a_negate (fst y)))
 (thenc (fun x y => str_cmp (slot_text (a_slot (fst x))) (slot_text (a_slot (fst y))))
 (thenc (fun x y => cmp_opt tuple_cmp (a_use (fst x)) (a_use (fst y)))
        (fun x y => cmp_opt str_cmp (a_repo (fst x)) (a_repo (fst y))))))))))).

Lemma good_akcmp : good akcmp.
Proof.
  unfold akcmp.
  apply good_thenc; [apply (good_pull (fun x : akeyT => a_cat (fst x)) _ good_str_cmp)|].
  apply good_thenc; [apply (good_pull (fun x : akeyT => a_pkg (fst x)) _ good_str_cmp)|].
  apply good_thenc; [apply (good_pull (fun x : akeyT => a_op (fst x)) _ good_str_cmp)|].
  apply good_thenc; [apply (good_pull (@snd atomf (option vkey)) _ (good_cmp_opt _ good_kcmp))|].
  apply good_thenc; [apply (good_pull (fun x : akeyT => a_blocks (fst x)) _ (good_neg _ good_cmp_bool))|].
  apply good_thenc; [apply (good_pull (fun x : akeyT => a_bstrong (fst x)) _ good_cmp_bool)|].
  apply good_thenc; [apply (good_pull (fun x : akeyT => a_negate (fst x)) _ good_cmp_bool)|].
  apply good_thenc; [apply (good_pull (fun x : akeyT => slot_text (a_slot (fst x))) _ good_str_cmp)|].
  apply good_thenc; [apply (good_pull (fun x : akeyT => a_use (fst x)) _ (good_cmp_opt _ good_tuple_cmp))|].
  apply (good_pull (fun x : akeyT => a_repo (fst x)) _ (good_cmp_opt _ good_str_cmp)).
Qed.

(* a parsed atom: an operator exactly when versioned (atom.__init__ enforces it), valid version *)
Definition atom_valid (a : atomf) : Prop :=
  (a_ver a = None <-> a_op a = []) /\ (forall v, a_ver a = Some v -> is_version v).

(* the version AST behind a valid atom *)
Definition ast_of (a : atomf) (va : option vast) : Prop :=
  match a_ver a, va with
  | None, None => a_op a = []
  | Some v, Some t => wf_vast t = true /\ print_vast t = v /\ a_op a <> []
  | _, _ => False
  end.
Definition akey (a : atomf) (va : option vast) : akeyT :=
  (a, option_map (fun t => (t, rev_val (a_rev a))) va).

Lemma atom_valid_ast a : atom_valid a -> exists va, ast_of a va.
Proof.
  intros [H1 H2]. unfold ast_of. destruct (a_ver a) as [v|] eqn:E.
  - destruct (H2 v eq_refl) as [t [W P]]. exists (Some t). repeat split; try assumption.
    intros O. apply H1 in O. discriminate.
  - exists None. apply H1. reflexivity.
Qed.

Lemma atom_cmp_akcmp a b va vb : ast_of a va -> ast_of b vb -> atom_cmp a b = akcmp (akey a va) (akey b vb).
Proof.
  intros Aa Ab. unfold atom_cmp. change cmp_chain with [0;1;2;3;4;5;6;7;8;9]%N.
  cbn [chain_cmp key_cmp]. unfold akcmp, thenc, akey. cbn [fst snd].
  destruct (Z.eqb (str_cmp (a_cat a) (a_cat b)) 0); [|reflexivity].
  destruct (Z.eqb (str_cmp (a_pkg a) (a_pkg b)) 0); [|reflexivity].
  destruct (Z.eqb_spec (str_cmp (a_op a) (a_op b)) 0) as [Eo|Eo]; [|reflexivity].
  apply str_cmp_eq in Eo.
  assert (V : atom_vcmp a b = cmp_opt kcmp (option_map (fun t => (t, rev_val (a_rev a))) va)
                                           (option_map (fun t => (t, rev_val (a_rev b))) vb)).
  { unfold atom_vcmp, ast_of in *.
    destruct (a_ver a) as [v1|], va as [t1|]; try contradiction;
    destruct (a_ver b) as [v2|], vb as [t2|]; try contradiction; cbn [option_map cmp_opt].
    - destruct Aa as (W1 & P1 & _), Ab as (W2 & P2 & _). rewrite <- P1, <- P2. apply ver_cmp_kcmp; assumption.
    - destruct Aa as (_ & _ & N1). rewrite Eo in N1. contradiction.
    - destruct Ab as (_ & _ & N2). rewrite <- Eo in N2. contradiction.
    - reflexivity. }
  rewrite V.
  destruct (Z.eqb_spec (cmp_opt str_cmp (a_repo a) (a_repo b)) 0) as [E|E]; [rewrite E|]; reflexivity.
Qed.

Definition atom_order_stmt : Prop :=
  forall a b c, atom_valid a -> atom_valid b -> atom_valid c ->
    (atom_cmp a b = (-1)%Z \/ atom_cmp a b = 0%Z \/ atom_cmp a b = 1%Z)
    /\ atom_cmp a a = 0%Z
    /\ atom_cmp b a = (- atom_cmp a b)%Z
    /\ ((atom_cmp a b <= 0)%Z -> (atom_cmp b c <= 0)%Z -> (atom_cmp a c <= 0)%Z)
    /\ (atom_cmp a b = 0%Z -> atom_cmp a c = atom_cmp b c)
    /\ atom_lt a b = atom_gt b a /\ atom_le a b = atom_ge b a
    /\ atom_le a b = negb (atom_gt a b) /\ atom_ge a b = negb (atom_lt a b).

Lemma atom_order_proof : atom_order_stmt.
Proof.
  intros a b c Va Vb Vc.
  destruct (atom_valid_ast a Va) as [va Aa], (atom_valid_ast b Vb) as [vb Ab], (atom_valid_ast c Vc) as [vc Ac].
  unfold atom_lt, atom_le, atom_gt, atom_ge.
  rewrite (atom_cmp_akcmp a b va vb), (atom_cmp_akcmp a a va va), (atom_cmp_akcmp b a vb va),
    (atom_cmp_akcmp b c vb vc), (atom_cmp_akcmp a c va vc) by assumption.
  pose proof good_akcmp as G.
  repeat split.
  - apply (g_range G). - apply (g_refl G). - apply (g_anti G).
  - apply (g_le_trans _ G). - apply (g_eq G).
  - rewrite (g_anti G (akey a va) (akey b vb)). destruct (akcmp (akey a va) (akey b vb)); reflexivity.
  - rewrite (g_anti G (akey a va) (akey b vb)). destruct (akcmp (akey a va) (akey b vb)); reflexivity.
  - destruct (akcmp (akey a va) (akey b vb)); reflexivity.
  - destruct (akcmp (akey a va) (akey b vb)); reflexivity.
Qed.

Example atom_order_example :
  atom_valid (mk_atom false [61]%N [97;47;98;45;49;46;48]%N None None (Some [49;46;48]%N))
  /\ atom_valid (mk_atom true [] ab None None None).
Proof.
  split; split; cbn; try (split; intros; discriminate); try (split; intros; reflexivity).
  - intros v H. injection H as <-.
    exists {| nums := [[49]%N; [48]%N]; letter := None; sufs := [] |}. split; reflexivity.
  - intros v H. discriminate.
Qed.
