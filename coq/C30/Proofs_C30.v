(* Proofs_C30.v — proofs of the C30 theorems (closed in Prop_C30.v). *)
From Coq Require Import List NArith ZArith Bool Arith Lia Permutation.
Import ListNotations.
From Verif Require Import Base.Val C18.Fs C18.FsLemmas C24.Model_C24 C24.Atomic.
From Verif Require Import C30.Model_C30 C30.Spec_C30.

Lemma opt_str_eqb_eq a b : opt_str_eqb a b = true <-> a = b.
Proof.
  destruct a, b; cbn; split; intro H; try discriminate; try reflexivity.
  - apply str_eqb_eq in H. now subst.
  - injection H as ->. apply str_eqb_refl.
Qed.
Lemma went_eqb_eq a b : went_eqb a b = true <-> a = b.
Proof.
  unfold went_eqb. rewrite !andb_true_iff, !str_eqb_eq, opt_str_eqb_eq.
  destruct a, b; cbn. split; [intros [[-> ->] ->]; reflexivity|intro H; injection H as -> -> ->; auto].
Qed.
Lemma wmem_In e W : wmem e W = true <-> In e W.
Proof.
  unfold wmem. rewrite existsb_exists. split.
  - intros (x & Hx & E). apply went_eqb_eq in E. now subst.
  - intro H. exists e. split; [exact H|now apply went_eqb_eq].
Qed.

Lemma set_add_spec e W : NoDup W ->
  NoDup (set_add e W) /\ forall x, In x (set_add e W) <-> (x = e \/ In x W).
Proof.
  intro Hn. unfold set_add. destruct (wmem e W) eqn:E.
  - apply wmem_In in E. split; [exact Hn|]. intro x. split; [now right|]. intros [->|H]; assumption.
  - assert (~ In e W) by (intro H; apply wmem_In in H; congruence).
    split.
    + apply (Permutation_NoDup (Permutation_cons_append _ _)). now constructor.
    + intro x. rewrite in_app_iff. cbn. intuition.
Qed.

Lemma set_remove_spec e W : NoDup W ->
  match set_remove e W with
  | Some W' => In e W /\ NoDup W' /\ forall x, In x W' <-> (In x W /\ x <> e)
  | None => ~ In e W
  end.
Proof.
  intro Hn. unfold set_remove. destruct (wmem e W) eqn:E.
  - apply wmem_In in E. split; [exact E|]. split; [now apply NoDup_filter|].
    intro x. rewrite filter_In, negb_true_iff. split.
    + intros [H1 H2]. split; [exact H1|]. intros ->.
      assert (went_eqb e e = true) by now apply went_eqb_eq. congruence.
    + intros [H1 H2]. split; [exact H1|]. destruct (went_eqb e x) eqn:E2; [|reflexivity].
      apply went_eqb_eq in E2. congruence.
  - intro H. apply wmem_In in H. congruence.
Qed.

(* the recorded entry prints as name or name:slot, for ANY slot string *)
Lemma target_text c p s : went_text (target c p s) = recorded_text c p s.
Proof.
  unfold went_text, target, recorded_text, nonzero_slot. cbn [wcat wpkg wslot].
  destruct s as [[|x r]|]; cbn [is_nil orb]; reflexivity.
Qed.

Theorem add_exact_proof : add_exact_stmt world_add.
Proof.
  intros c p s W Hn W'. subst W'. unfold world_add.
  destruct (set_add_spec (target c p s) W Hn) as [H1 H2]. split; [exact H1|]. split; [apply target_text|exact H2].
Qed.

Theorem remove_exact_proof : remove_exact_stmt.
Proof. intros c p s W Hn. unfold world_remove. now apply set_remove_spec. Qed.

(* the pinned per-character loop does not satisfy the statement *)
Theorem add_exact_pinned_refuted_proof : ~ add_exact_stmt world_add_pinned.
Proof.
  intro H. specialize (H [97%N] [98%N] (Some [49;50]%N) [] (NoDup_nil _)).
  destruct H as (_ & _ & H). specialize (H (target [97%N] [98%N] (Some [49;50]%N))).
  destruct H as [_ H]. specialize (H (or_introl eq_refl)). cbn in H.
  destruct H as [H|[H|[]]]; discriminate.
Qed.

(* ------------------------------------------------------------------ flush *)
Lemma wins_perm e l : Permutation (wins e l) (e :: l).
Proof.
  induction l as [|x l IH]; [reflexivity|]. cbn [wins].
  destruct (went_ltb e x); [reflexivity|]. rewrite IH. apply perm_swap.
Qed.
Lemma wsort_perm l : Permutation (wsort l) l.
Proof.
  induction l as [|x l IH]; [reflexivity|]. cbn [wsort fold_right]. fold (wsort l).
  rewrite wins_perm. now constructor.
Qed.
Theorem flush_exact_proof : flush_exact_stmt.
Proof. intro W. exists (wsort W). split; [reflexivity|apply wsort_perm]. Qed.

Lemma chunked_fuel_concat f c d : concat (chunked_fuel f c d) = d.
Proof.
  revert d; induction f as [|f IH]; intros [|x d]; cbn [chunked_fuel concat]; try reflexivity.
  - now rewrite app_nil_r.
  - rewrite IH. apply firstn_skipn.
Qed.
Lemma chunked_concat c d : concat (chunked c d) = d.
Proof.
  destruct c; cbn [chunked]; [destruct d; cbn; [reflexivity|now rewrite app_nil_r]|].
  apply chunked_fuel_concat.
Qed.

Lemma wtmp_ne : P_WTMP <> P_WORLD.
Proof. discriminate. Qed.

Theorem wflush_atomic_proof : wflush_atomic_stmt.
Proof.
  intros s mode gid c W k Hok sk. subst sk. unfold wflush_ops.
  destruct (atomic_ops_crash s P_WTMP P_WORLD mode None (Some gid) (chunked c (utf8 (flush_text W))) k
              wtmp_ne Hok) as [Hfr Hp].
  split; [exact Hfr|]. destruct Hp as [Hp|[Hp _]]; [now left|right].
  now rewrite chunked_concat in Hp.
Qed.

Theorem wflush_complete_proof : forall s mode gid c W s',
  tmp_ok s P_WTMP -> run_opt (wflush_ops s mode gid c W) s = Some s' ->
  is_file_with (utf8 (flush_text W)) mode (lookup s' P_WORLD) /\ lookup s' P_WTMP = None.
Proof.
  intros s mode gid c W s' Hok H. unfold wflush_ops in H.
  destruct (atomic_ops_complete _ _ _ _ _ _ _ _ wtmp_ne Hok H) as (H1 & H2 & _).
  rewrite chunked_concat in H1. now split.
Qed.

Theorem wflush_eio_proof : forall s mode gid c W k,
  tmp_ok s P_WTMP -> 1 <= k ->
  let sk := fault_state s P_WTMP (wflush_ops s mode gid c W) k true in
  (forall q, q <> P_WORLD -> q <> P_WTMP -> lookup sk q = lookup s q) /\
  (lookup sk P_WORLD = lookup s P_WORLD \/ is_file_with (utf8 (flush_text W)) mode (lookup sk P_WORLD)) /\
  lookup sk P_WTMP = None.
Proof.
  intros s mode gid c W k Hok Hk sk. subst sk. unfold wflush_ops.
  destruct (atomic_ops_eio s P_WTMP P_WORLD mode None (Some gid) (chunked c (utf8 (flush_text W))) k
              wtmp_ne Hok Hk) as (H1 & H2 & H3).
  rewrite chunked_concat in H2. auto.
Qed.

(* non-vacuity: slots of every shape are recorded as name:slot, "0" and the empty slot as name *)
Example target_examples :
  went_text (target [97%N] [98%N] (Some [49;46;50]%N)) = [97;47;98;58;49;46;50]%N /\      (* a/b:1.2 *)
  went_text (target [97%N] [98%N] (Some [49;48]%N)) = [97;47;98;58;49;48]%N /\            (* a/b:10  *)
  went_text (target [97%N] [98%N] (Some zero)) = [97;47;98]%N /\
  went_text (target [97%N] [98%N] None) = [97;47;98]%N /\
  world_add [97%N] [98%N] (Some [49;46;50]%N) [target [99%N] [100%N] None]
    = [target [99%N] [100%N] None; target [97%N] [98%N] (Some [49;46;50]%N)].
Proof. repeat split. Qed.
