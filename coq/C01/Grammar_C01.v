(* Grammar_C01.v — the valid versions of the theorems ([is_version]: printed well-formed ASTs) are
   exactly the strings the model of isvalid_version_re accepts ([valid_version_core]; the regex
   additionally tolerates one trailing newline, [valid_version]). *)
From Coq Require Import List NArith ZArith Bool Lia.
Import ListNotations.
From Verif Require Import Base.Val gen.Tables_C01 C01.Model_C01 C01.Spec_C01 C01.Order_C01 C01.Proofs_C01.

Fixpoint join_sep (c : N) (l : list str) : str :=
  match l with
  | [] => []
  | [x] => x
  | x :: l' => x ++ c :: join_sep c l'
  end.

Lemma split_nonempty c s : split_on c s <> [].
Proof.
  destruct s as [|x s]; cbn; [discriminate|].
  destruct (N.eqb x c); [discriminate|]. destruct (split_on c s); discriminate.
Qed.

Lemma split_join c s : join_sep c (split_on c s) = s.
Proof.
  induction s as [|x s IH]; [reflexivity|]. cbn [split_on].
  destruct (N.eqb_spec x c) as [->|Hx].
  - destruct (split_on c s) as [|h t] eqn:E; [exfalso; exact (split_nonempty c s E)|].
    change (join_sep c ([] :: h :: t)) with ([] ++ c :: join_sep c (h :: t)). rewrite IH. reflexivity.
  - destruct (split_on c s) as [|h t] eqn:E; [exfalso; exact (split_nonempty c s E)|].
    destruct t as [|h2 t2].
    + cbn in IH |- *. rewrite IH. reflexivity.
    + change (join_sep c ((x :: h) :: h2 :: t2)) with (x :: (h ++ c :: join_sep c (h2 :: t2))).
      change (join_sep c (h :: h2 :: t2)) with (h ++ c :: join_sep c (h2 :: t2)) in IH.
      rewrite IH. reflexivity.
Qed.

Lemma join_sep_cons c h l : join_sep c (h :: l) = h ++ concat (map (cons c) l).
Proof.
  revert h; induction l as [|x l IH]; intros h; [cbn; rewrite app_nil_r; reflexivity|].
  change (join_sep c (h :: x :: l)) with (h ++ c :: join_sep c (x :: l)). rewrite IH. reflexivity.
Qed.

Lemma join_dot_sep l : join_dot l = join_sep 46 l.
Proof. induction l as [|x [|y t] IH]; try reflexivity. cbn [join_dot join_sep] in *. rewrite IH. reflexivity. Qed.

Definition letter_str (l : option N) : str := match l with Some c => [c] | None => [] end.

(* ---- accepted => printed AST *)
Lemma valid_comps_ast l : valid_comps l = true ->
  exists ns lt, ns <> [] /\ forallb wf_digits ns = true
                /\ match lt with Some c => is_alpha c | None => true end = true
                /\ join_sep 46 l = join_dot ns ++ letter_str lt.
Proof.
  induction l as [|c l IH]; [discriminate|]. destruct l as [|c2 l2].
  - cbn [valid_comps]. intros H. apply andb_true_iff in H as [Hn H].
    destruct (all_digits c) eqn:D.
    + exists [c], None. repeat split; try discriminate.
      * cbn. unfold wf_digits. rewrite Hn, D. reflexivity.
      * cbn. rewrite app_nil_r. reflexivity.
    + cbn [orb] in H. apply andb_true_iff in H as [H H3]. apply andb_true_iff in H as [H1 H2].
      exists [removelast c], (Some (last c 0%N)). repeat split; try discriminate.
      * cbn. unfold wf_digits. rewrite H2, H3. reflexivity.
      * exact H1.
      * cbn. apply app_removelast_last. destruct c; [discriminate|discriminate].
  - intros H. change (valid_comps (c :: c2 :: l2)) with (negb (is_nil c) && all_digits c && valid_comps (c2 :: l2)) in H.
    apply andb_true_iff in H as [H H3]. apply andb_true_iff in H as [H1 H2].
    destruct (IH H3) as (ns & lt & Hne & Hd & Hl & Hj).
    exists (c :: ns), lt. repeat split; try discriminate; try assumption.
    + cbn. unfold wf_digits at 1. rewrite H1, H2, Hd. reflexivity.
    + change (join_sep 46 (c :: c2 :: l2)) with (c ++ 46%N :: join_sep 46 (c2 :: l2)). rewrite Hj.
      destruct ns as [|n1 ns']; [contradiction|].
      change (join_dot (c :: n1 :: ns')) with (c ++ 46%N :: join_dot (n1 :: ns')).
      rewrite <- app_assoc. reflexivity.
Qed.

Lemma strip_prefix_some p s d : strip_prefix p s = Some d -> s = p ++ d.
Proof.
  revert s; induction p as [|x p IH]; intros s H; cbn in H; [injection H as ->; reflexivity|].
  destruct s as [|y s]; [discriminate|]. destruct (N.eqb_spec x y) as [->|_]; [|discriminate].
  cbn. f_equal. apply IH; exact H.
Qed.

Lemma parse_suffix_in_some names s n d : parse_suffix_in names s = Some (n, d) ->
  In n names /\ s = n ++ d /\ all_digits d = true.
Proof.
  induction names as [|m names IH]; [discriminate|]. cbn [parse_suffix_in].
  destruct (strip_prefix m s) as [d'|] eqn:E.
  - destruct (all_digits d') eqn:D.
    + intros H; injection H as <- <-. repeat split; [left; reflexivity|apply strip_prefix_some; exact E|exact D].
    + intros H. destruct (IH H) as (H1 & H2 & H3). repeat split; [right|..]; assumption.
  - intros H. destruct (IH H) as (H1 & H2 & H3). repeat split; [right|..]; assumption.
Qed.

Lemma valid_suffix_ast s : valid_suffix s = true -> exists k d, all_digits d = true /\ s = kind_name k ++ d.
Proof.
  unfold valid_suffix. destruct (parse_suffix_in valid_suffix_names s) as [[n d]|] eqn:E; [|discriminate].
  intros _. apply parse_suffix_in_some in E as (Hin & Hs & Hd).
  change valid_suffix_names with [kind_name Pre; kind_name P; kind_name Beta; kind_name Alpha; kind_name Rc] in Hin.
  cbn [In] in Hin.
  destruct Hin as [<-|[<-|[<-|[<-|[<-|[]]]]]]; eexists _, d; split; try exact Hd; exact Hs.
Qed.

Lemma valid_suffixes_ast l : forallb valid_suffix l = true ->
  exists sl, forallb (fun s : skind * str => all_digits (snd s)) sl = true /\ map print_suffix sl = l.
Proof.
  induction l as [|s l IH]; intros H; [exists []; split; reflexivity|].
  cbn in H. apply andb_true_iff in H as [H1 H2].
  destruct (valid_suffix_ast s H1) as (k & d & Hd & ->). destruct (IH H2) as (sl & Hs & <-).
  exists ((k, d) :: sl). split; [cbn [forallb snd]; rewrite Hd, Hs; reflexivity|reflexivity].
Qed.

Lemma valid_core_is_version v : valid_version_core v = true -> is_version v.
Proof.
  unfold valid_version_core. destruct (split_on 95 v) as [|h sf] eqn:E; [discriminate|].
  intros H. apply andb_true_iff in H as [H1 H2].
  destruct (valid_comps_ast _ H1) as (ns & lt & Hne & Hd & Hl & Hj).
  destruct (valid_suffixes_ast _ H2) as (sl & Hs & Hm).
  exists {| nums := ns; letter := lt; sufs := sl |}. split.
  - unfold wf_vast. cbn [nums letter sufs]. rewrite Hd, Hl, Hs.
    destruct ns; [contradiction|reflexivity].
  - unfold print_vast. cbn [nums letter sufs].
    rewrite <- (split_join 95 v), E, join_sep_cons.
    rewrite <- (split_join 46 h), Hj, <- Hm, map_map. unfold letter_str. rewrite app_assoc. reflexivity.
Qed.

(* ---- printed AST => accepted *)
Lemma valid_suffix_print k d : all_digits d = true -> valid_suffix (kind_name k ++ d) = true.
Proof.
  intros H. unfold valid_suffix, valid_suffix_names.
  destruct k; cbn -[all_digits]; rewrite ?H; try reflexivity.
  destruct d as [|x d']; [reflexivity|].
  assert (Hx : is_digit x = true) by (cbn in H; apply andb_true_iff in H; tauto).
  apply is_digit_bounds in Hx.
  destruct x as [|q]; [lia|]. cbn -[all_digits].
  destruct (Pos.eqb_spec 114 q) as [E|_]; [subst q; lia|].
  cbn -[all_digits]. rewrite ?H. reflexivity.
Qed.

Lemma valid_comps_print ns lt :
  ns <> [] -> Forall (fun s => s <> [] /\ all_digits s = true) ns ->
  (forall c, lt = Some c -> is_alpha c = true) ->
  valid_comps (removelast ns ++ [last ns [] ++ letter_str lt]) = true.
Proof.
  induction ns as [|x t IH]; intros Hne F Hl; [contradiction|].
  inversion F as [|? ? [Hx1 Hx2] Ft]; subst.
  destruct t as [|y t'].
  - cbn [removelast last app valid_comps].
    assert (N1 : is_nil (x ++ letter_str lt) = false) by (destruct x; [contradiction|reflexivity]).
    rewrite N1. cbn [negb andb].
    destruct lt as [c|]; cbn [letter_str].
    + rewrite last_last, removelast_last, (Hl c eq_refl), Hx2.
      destruct x; [contradiction|]. cbn [is_nil negb andb]. apply orb_true_r.
    + rewrite app_nil_r, Hx2. reflexivity.
  - change (removelast (x :: y :: t')) with (x :: removelast (y :: t')).
    change (last (x :: y :: t') []) with (last (y :: t') []).
    cbn [app].
    assert (IH' := IH ltac:(discriminate) Ft Hl).
    destruct (removelast (y :: t') ++ [last (y :: t') [] ++ letter_str lt]) as [|z zs] eqn:E.
    + destruct (removelast (y :: t')); discriminate.
    + cbn [valid_comps]. rewrite Hx2. destruct x; [contradiction|]. cbn [is_nil negb andb]. exact IH'.
Qed.

Lemma is_version_valid_core v : is_version v -> valid_version_core v = true.
Proof.
  intros [a [W <-]]. apply wf_vast_wf in W. unfold valid_version_core.
  rewrite (print_vast_split a W). apply andb_true_iff. split.
  - unfold numpart. rewrite split_dot.
    + apply valid_comps_print; [exact (wf_ne a W)|exact (wf_nums a W)|exact (wf_letter a W)].
    + exact (wf_ne a W).
    + apply Forall_forall. intros s Hs. pose proof (wf_nums a W) as F. rewrite Forall_forall in F.
      destruct (F s Hs) as [_ Hd]. apply all_digits_notin; [exact Hd|reflexivity].
    + destruct (letter a) as [c|] eqn:E; [|intros []].
      intros [H|[]]. subst c. apply (wf_letter a W) in E. apply alpha_facts in E. lia.
  - apply forallb_forall. intros s Hs. apply in_map_iff in Hs as [[k d] [<- Hin]].
    pose proof (wf_sufs a W) as F. rewrite Forall_forall in F. apply (valid_suffix_print k d (F _ Hin)).
Qed.

Definition valid_version_iff_stmt : Prop :=
  forall v, valid_version_core v = true <-> is_version v.
Lemma valid_version_iff_proof : valid_version_iff_stmt.
Proof. intros v; split; [apply valid_core_is_version|apply is_version_valid_core]. Qed.
