(* Proofs_C34.v — lemmas and proofs for C34. *)
From Coq Require Import List NArith ZArith Bool Lia.
Import ListNotations.
From Verif Require Import Base.Val C34.Model_C34 C34.Spec_C34.
Local Open Scope N_scope.

Lemma slice_app (a s : str) : slice (a ++ s) s = a.
Proof.
  unfold slice. rewrite app_length.
  replace (length a + length s - length s)%nat with (length a) by lia.
  rewrite firstn_app, Nat.sub_diag, firstn_all. cbn. apply app_nil_r.
Qed.
