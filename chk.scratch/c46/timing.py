import time, sys
from harness import common
from harness.common import Check
import harness.c46 as m
chk=Check("C46","quick")
for name in ("build","check_assumptions","lint","coq_eval"):
    orig=getattr(chk,name)
    def wrap(*a,_o=orig,_n=name,**k):
        t=time.time(); r=_o(*a,**k); print(_n, a[0] if _n=="coq_eval" else "", round(time.time()-t,1), file=sys.stderr); return r
    setattr(chk,name,wrap)
t=time.time(); m.main(chk); print("main", round(time.time()-t,1), file=sys.stderr)
chk.finish()
