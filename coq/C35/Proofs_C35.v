(* Proofs_C35.v — proofs about the protocol LTS of Model_C35.

   The facts about the literal tables ([literals_agree_proof], [see_id], [tok_id], [reply_def]) are
   re-proved by computation against gen/Tables_protocol.v, i.e. against the literals of today's
   processor.py / ebd.py / ebuild-daemon*.bash: if the two sides stop agreeing this file stops
   compiling. *)
From Coq Require Import List NArith Bool Arith Lia.
Import ListNotations.
From Verif Require Import Base.Val C41.Lts gen.Tables_protocol C35.Model_C35 C35.Spec_C35.

(* ------------------------------------------------------------------ the table obligation *)
Lemma literals_agree_proof : tables_agree = true.
Proof. vm_compute. reflexivity. Qed.

Lemma see_id c : see c = c.
Proof. destruct c; vm_compute; reflexivity. Qed.
Lemma tok_id r : tok r = r.
Proof. destruct r; try destruct c; vm_compute; reflexivity. Qed.
Lemma reply_def c f : expects_reply c = true -> reply c f = if f then RAck c else RNak c.
Proof. destruct c; try discriminate; destruct f; intros _; vm_compute; reflexivity. Qed.

Lemma expected_replies_can_be_sent c : expects_reply c = true -> ack_ok c = true.
Proof. destruct c; try discriminate; intros _; vm_compute; reflexivity. Qed.
Lemma written_commands_are_dispatched c : c <> COther -> cmd_ok c = true.
Proof. destruct c; try congruence; intros _; vm_compute; reflexivity. Qed.
Lemma requests_are_handled r : req_ok r = true.
Proof. destruct r; try destruct c; vm_compute; reflexivity. Qed.

(* the daemon's reactions with the agreement predicates evaluated *)
Definition die_out (sub : bool) : option (sstate * list rep) :=
  if sub then Some (SMain, [RDying; RDead; RPhasesFail]) else Some (SDead, [RDying; RDead]).
Definition sreact' (s : sstate) (c : cmd) (fate : bool) : option (sstate * list rep) :=
  match s with
  | SInit0 => match c with CEbdQ => Some (SInit1, [RAck CEbdQ]) | _ => Some (SDead, []) end
  | SInit1 => match c with
              | CNoSandbox => Some (SMain, [RLine])
              | CSandboxLogQ => Some (SMain, [RLine; RLine])
              | _ => die_out false
              end
  | SMain => match c with
             | CProcess => Some (SSetup, [])
             | CShutdown => Some (SDead, [])
             | CPreload => Some (SMain, [if fate then RAck CPreload else RNak CPreload])
             | CClear => Some (SMain, [RAck CClear])
             | CSetMeta => Some (SMain, [RAck CSetMeta])
             | CGenMeta => Some (SRun KMeta, [])
             | CGenEnv => Some (SRun KEnv, [])
             | CAlive => Some (SMain, [RAck CAlive])
             | _ => die_out false
             end
  | SSetup => match c with
              | CStartEnv => if fate then Some (SSetup, [RAck CStartEnv])
                             else Some (SMain, [RNak CStartEnv; RPhasesFail])
              | CLogging => Some (SSetup, [RAck CLogging])
              | CSetSandbox => Some (SSetup, [])
              | CStartProc => Some (SRun KPhase, [])
              | CShutdown => Some (SMain, [RPhasesOk])
              | CAlive => Some (SSetup, [RAck CAlive])
              | _ => die_out true
              end
  | SInh1 k => match c with CPath | CTransfer => Some (SInh2 k, []) | _ => die_out true end
  | SInh2 k => Some (SRun k, [])
  | SRc1 => match c with
            | CEndRequest => Some (SRun KPhase, [])
            | CPath | CTransfer => Some (SRc2, [])
            | _ => Some (SMain, [RFailed; RDying; RDead; RPhasesFail])
            end
  | SRc2 => Some (SRc1, [RNext])
  | SIpcW => Some (SRun KPhase, [])
  | SSbx k => match c with CEndSbx => Some (SRun k, []) | _ => Some (SSbx k, []) end
  | SRun _ | SDead => None
  end.
Lemma sreact_eq s c f : sreact s c f = sreact' s c f.
Proof. destruct s; try destruct k; destruct c; destruct f; vm_compute; reflexivity. Qed.

Definition semit' (s : sstate) (e : emit) : option (sstate * list rep) :=
  match s, e with
  | SRun KMeta, EKey => Some (s, [RKey])
  | SRun KEnv, ERecvEnv => Some (s, [RRecvEnv])
  | SRun k, EInherit => Some (SInh1 k, [RReqInherit])
  | SRun KPhase, EBashrc => Some (SRc1, [RReqBashrcs])
  | SRun KPhase, EIpc => Some (SIpcW, [RIpc; RLine; RLine; RLine; RLine; RLine])
  | SRun k, ESbx => Some (SSbx k, [RReqSbx])
  | SRun _, EFinish ok => Some (SMain, [if ok then RPhasesOk else RPhasesFail])
  | SRun _, EDie => Some (SMain, [RDying; RDead; RPhasesFail])
  | _, _ => None
  end.
Lemma semit_eq s e : semit s e = semit' s e.
Proof. destruct s; try destruct k; destruct e; try destruct ok; vm_compute; reflexivity. Qed.

(* ------------------------------------------------------------------ unknown_is_error *)
Lemma unknown_is_error_daemon_proof :
  forall s c f s' out,
    sreact s c f = Some (s', out) -> listed s (see c) = false -> error_reaction s' out = true.
Proof.
  intros s c f s' out H. rewrite see_id. rewrite sreact_eq in H.
  destruct s; try destruct k; destruct c; destruct f; cbn in H; try discriminate;
    injection H as <- <-; intro L; try discriminate L; vm_compute; reflexivity.
Qed.

Lemma unknown_is_error_python_proof :
  forall h kt r ch, handled h r = false -> handle h kt r ch = (PExec Err, false).
Proof. intros h kt r ch. destruct r, h; cbn; intro H; try discriminate H; reflexivity. Qed.

(* a line python reads in the handler loop is taken by a handler only if it is listed; the
   interception of notices comes first *)
Lemma handler_read_unknown_proof :
  forall c h kt r ch c',
    py c = PHand h kt -> isnotice r = false -> handled h r = false ->
    stepf c (LR r ch) = Some c' -> py c' = PExec Err.
Proof.
  intros c h kt r ch c' Hp Hn Hh H. unfold stepf in H.
  destruct (d2p c) as [|[r' g] rest]; [discriminate|].
  destruct (rep_eqb r r'); [|discriminate]. rewrite Hp in H.
  unfold py_read in H. cbn [py] in H.
  destruct r; try discriminate Hn; cbn [py outs sh p2d d2p nxt set_py] in H;
    rewrite (unknown_is_error_python_proof h kt _ ch Hh) in H; injection H as <-; reflexivity.
Qed.

(* ------------------------------------------------------------------ drain *)
Lemma sreact_none s c f : sh_reads s = false -> sreact s c f = None.
Proof. rewrite sreact_eq. destruct s; cbn; intro H; try discriminate H; reflexivity. Qed.
Lemma sreact_some s c f : sh_reads s = true -> exists s' out, sreact s c f = Some (s', out).
Proof.
  rewrite sreact_eq. intro H.
  destruct s; try discriminate H; destruct c; destruct f; cbn; eauto.
Qed.

Lemma drain_stuck s q : sh_reads s = false -> drain s q = (s, [], q).
Proof.
  intro H. destruct q as [|[[c i] f] q]; [reflexivity|]. cbn. rewrite (sreact_none s c f H). reflexivity.
Qed.

Lemma drain_cons s c i f q s' out :
  sreact s c f = Some (s', out) ->
  drain s ((c, i, f) :: q) =
  (fst (fst (drain s' q)), tag i out ++ snd (fst (drain s' q)), snd (drain s' q)).
Proof. intro H. cbn. rewrite H. destruct (drain s' q) as [[a b] r]. reflexivity. Qed.

Lemma drain_snoc q : forall s x,
  drain s (q ++ [x]) =
  match snd (drain s q) with
  | [] => let '(c, i, f) := x in
          match sreact (fst (fst (drain s q))) c f with
          | Some (s2, out) => (s2, snd (fst (drain s q)) ++ tag i out, [])
          | None => (fst (fst (drain s q)), snd (fst (drain s q)), [x])
          end
  | r => (fst (fst (drain s q)), snd (fst (drain s q)), r ++ [x])
  end.
Proof.
  induction q as [|[[c i] f] q IH]; intros s [[cx ix] fx].
  - cbn. destruct (sreact s cx fx) as [[s2 out]|]; [rewrite app_nil_r|]; reflexivity.
  - cbn [app]. cbn [drain]. destruct (sreact s c f) as [[s' out]|] eqn:E.
    + rewrite (IH s' (cx, ix, fx)). destruct (drain s' q) as [[a b] r]. cbn.
      destruct r as [|r0 r].
      * destruct (sreact a cx fx) as [[s2 out2]|]; [rewrite app_assoc|]; reflexivity.
      * reflexivity.
    + cbn. reflexivity.
Qed.

(* a daemon read step does not change what python will see *)
Lemma view_shread c c' :
  stepf c LShRead = Some c' ->
  pipe c' = pipe c /\ drained c' = drained c /\ undrained c' = undrained c
  /\ py c' = py c /\ outs c' = outs c /\ nxt c' = nxt c.
Proof.
  unfold stepf. destruct (p2d c) as [|[[cm i] f] rest] eqn:Ep; [discriminate|].
  destruct (sreact (sh c) cm f) as [[s' out]|] eqn:E; [|discriminate].
  intro H. injection H as <-. unfold pipe, drained, undrained. cbn [sh p2d d2p py outs nxt].
  rewrite Ep. rewrite (drain_cons _ _ _ _ _ _ _ E). cbn [fst snd].
  rewrite app_assoc. repeat split; reflexivity.
Qed.

(* ------------------------------------------------------------------ typing of python's programs
   [okp p s u e]: program p can run when the daemon, once it has read everything in flight, is in
   state s and the not-yet-consumed part of the reply stream (beyond the answers to the
   outstanding expects) is u; e: _outstanding_expects is known to be empty. *)
Definition is_main (s : sstate) : bool := match s with SMain => true | _ => false end.
Definition is_dead (s : sstate) : bool := match s with SDead => true | _ => false end.
Definition null {A} (l : list A) : bool := match l with [] => true | _ => false end.
Definition reply_for (w r : rep) : bool :=
  match w with RAck k => rep_eqb r (RAck k) || rep_eqb r (RNak k) | _ => rep_eqb r w end.
Definition sync_only (w : rep) : bool :=
  match w with RAck CStartEnv | RAck CLogging | RAck CEbdQ | RNext => true | _ => false end.
Definition kmatch (h : hk) (k : rk) : bool :=
  match h, k with HPhase, KPhase | HMeta, KMeta | HEnv, KEnv => true | _, _ => false end.
Definition tagged (g : option nat) : bool := match g with Some _ => true | None => false end.

(* the handler loop facing stream u of a daemon that is (after reading everything) in state s *)
Fixpoint okh (h : hk) (s : sstate) (u : list rep) : bool :=
  match u with
  | [] => match s with SRun k => kmatch h k | _ => false end
  | r :: u' =>
      match r with
      | RKey => match h with HMeta => okh h s u' | _ => false end
      | RRecvEnv => match h with HEnv => okh h s u' | _ => false end
      | RPhasesOk => null u' && is_main s
      | RPhasesFail => null u' && is_main s
      | RReqInherit => null u' && match s with SInh1 k => kmatch h k | _ => false end
      | RReqBashrcs => null u' && match s, h with SRc1, HPhase => true | _, _ => false end
      | RIpc => match u', s, h with
                | [RLine; RLine; RLine; RLine; RLine], SIpcW, HPhase => true
                | _, _, _ => false
                end
      | RReqSbx => null u' && match s with SSbx k => kmatch h k | _ => false end
      | _ => false
      end
  end.

Fixpoint okp (p : prog) (s : sstate) (u : list (rep * option nat)) (e : bool) : bool :=
  match p with
  | Ret _ true | Fail => is_main s && null u
  | Ret _ false | Err | GoneExc => true
  | Wr c k =>
      null u && sh_reads s &&
      forallb (fun f => match sreact' s c f with
                        | Some (s', out) => existsb isnotice out || is_dead s' || okp k s' (tag 0 out) e
                        | None => false
                        end) [true; false]
  | Exp w async kok kbad =>
      match u with
      | (r, g) :: u' =>
          reply_for w r && tagged g &&
          (if async then okp kok s u' false
           else okp (if rep_eqb r w then kok else kbad) s u' true
                && (if sync_only w then e else okp kok s u' true && okp kbad s u' true))
      | [] => false
      end
  | Rd k => e && match u with _ :: u' => okp k s u' e | [] => false end
  | Cons kok kbad => okp kok s u true && okp kbad s u true
  | Handle h kt => okp kt SMain [] true && okh h s (map fst u)
  end.

(* okp looks at the tags of u only to see whether there is one *)
Definition same_shape (u v : list (rep * option nat)) : Prop :=
  Forall2 (fun x y => fst x = fst y /\ tagged (snd x) = tagged (snd y)) u v.
Lemma same_shape_refl u : same_shape u u.
Proof. induction u; constructor; auto. Qed.
Lemma same_shape_map_fst u v : same_shape u v -> map fst u = map fst v.
Proof. induction 1 as [|x y u v [H1 _] _ IH]; cbn; [reflexivity|]. rewrite H1, IH. reflexivity. Qed.
Lemma okp_shape p : forall s u v e, same_shape u v -> okp p s u e = okp p s v e.
Proof.
  induction p as [b a| | | |c k IH|w a kok IHok kbad IHbad|kok IHok kbad IHbad|k IH|h kt IH];
    intros s u v e H; cbn [okp].
  - destruct a; [|reflexivity]. destruct H; reflexivity.
  - destruct H; reflexivity.
  - reflexivity.
  - reflexivity.
  - destruct H; [reflexivity|]. reflexivity.
  - destruct H as [|[r g] [r' g'] u v [H1 H2] H]; [reflexivity|]. cbn in H1, H2. subst r'. rewrite H2.
    destruct a.
    + rewrite (IHok s u v false H). reflexivity.
    + destruct (rep_eqb r w); rewrite ?(IHok s u v true H), ?(IHbad s u v true H); reflexivity.
  - rewrite (IHok s u v true H), (IHbad s u v true H). reflexivity.
  - destruct H as [|x y u v _ H]; [reflexivity|]. rewrite (IH s u v e H). reflexivity.
  - rewrite (same_shape_map_fst u v H). reflexivity.
Qed.
Lemma tag_shape i j out : same_shape (tag i out) (tag j out).
Proof. induction out; constructor; cbn; auto. Qed.

Lemma okp_e_mono p : forall s u, okp p s u false = true -> okp p s u true = true.
Proof.
  induction p as [b a| | | |c k IH|w a kok IHok kbad IHbad|kok IHok kbad IHbad|k IH|h kt IH];
    intros s u H; cbn [okp] in *; try exact H.
  - apply andb_true_iff in H as [H1 H2]. rewrite H1. cbn [andb].
    cbn [forallb] in *. apply andb_true_iff in H2 as [Ha H2]. apply andb_true_iff in H2 as [Hb _].
    apply andb_true_iff; split; [|apply andb_true_iff; split; [|reflexivity]].
    + destruct (sreact' s c true) as [[s' out]|]; [|discriminate].
      apply orb_true_iff in Ha as [Ha|Ha]; [rewrite Ha; reflexivity|]. rewrite (IH _ _ Ha). apply orb_true_r.
    + destruct (sreact' s c false) as [[s' out]|]; [|discriminate].
      apply orb_true_iff in Hb as [Hb|Hb]; [rewrite Hb; reflexivity|]. rewrite (IH _ _ Hb). apply orb_true_r.
  - destruct u as [|[r g] u']; [discriminate|]. destruct a; [exact H|].
    destruct (sync_only w); [|exact H].
    rewrite andb_false_r in H. rewrite andb_false_r in H. discriminate.
  - discriminate H.
Qed.
Lemma okp_e p s u e : okp p s u false = true -> okp p s u e = true.
Proof. destruct e; [apply okp_e_mono | trivial]. Qed.

Lemma preload_ok n k : okp k SMain [] false = true -> okp (preload n k) SMain [] false = true.
Proof.
  intro H. induction n as [|n IH]; [exact H|].
  cbn. rewrite IH. reflexivity.
Qed.
Lemma depend_ok c h sm n e :
  (c = CGenMeta /\ h = HMeta) \/ (c = CGenEnv /\ h = HEnv) ->
  okp (depend_prog c h sm n) SMain [] e = true.
Proof.
  assert (P : okp (preload n (Done true)) SMain [] true = true)
    by (apply okp_e_mono, preload_ok; reflexivity).
  intros [[-> ->]|[-> ->]]; unfold depend_prog; destruct sm; cbn; rewrite P; reflexivity.
Qed.
Lemma prog_of_ok o e : okp (prog_of o) SMain [] e = true.
Proof.
  destruct o as [| | |n sync|sm n|sm n|lg|].
  - destruct e; reflexivity.
  - destruct e; reflexivity.
  - destruct e; reflexivity.
  - apply okp_e. cbn [prog_of]. apply preload_ok. destruct sync; reflexivity.
  - apply depend_ok; auto.
  - apply depend_ok; auto.
  - destruct lg, e; reflexivity.
  - destruct e; reflexivity.
Qed.
Lemma init_ok b : okp (init_prog b) SInit0 [] true = true.
Proof. destruct b; reflexivity. Qed.

Lemma rc_ok m h kt : h = HPhase -> okp kt SMain [] true = true -> okp (rc_prog m (Handle h kt)) SRc1 [] true = true.
Proof. intros -> H. induction m as [|m IH]; cbn; rewrite ?H, ?IH; reflexivity. Qed.
Lemma sbx_ok m h kt k : kmatch h k = true -> okp kt SMain [] true = true ->
  okp (sbx_prog m (Handle h kt)) (SSbx k) [] true = true.
Proof. intros K H. induction m as [|m IH]; cbn; rewrite ?H, ?K, ?IH; reflexivity. Qed.

(* ------------------------------------------------------------------ emissions of a running daemon *)
Lemma okh_emit h k em s' out : forall U,
  okh h (SRun k) U = true -> semit' (SRun k) em = Some (s', out) ->
  existsb isnotice out = false -> okh h s' (U ++ out) = true.
Proof.
  induction U as [|r U IH]; intros H E N.
  - cbn in H. destruct h, k; try discriminate H; destruct em as [| | | | | |ok|]; cbn in E; try discriminate E;
      injection E as <- <-; try destruct ok; try reflexivity; discriminate N.
  - cbn [okh] in H. cbn [app okh].
    destruct r; try discriminate H;
      try (destruct h; try discriminate H; apply IH; assumption);
      try (rewrite andb_false_r in H; discriminate H);
      try (apply andb_true_iff in H as [_ H]; discriminate H).
    destruct U as [|? [|? [|? [|? [|? [|]]]]]]; try discriminate H;
      repeat match goal with x : rep |- _ => destruct x; try discriminate H end.
Qed.

Lemma okp_emit p k em s' out : forall u e,
  okp p (SRun k) u e = true -> semit' (SRun k) em = Some (s', out) ->
  existsb isnotice out = false -> okp p s' (u ++ untag out) e = true.
Proof.
  induction p as [b a| | | |c q IH|w a kok IHok kbad IHbad|kok IHok kbad IHbad|q IH|h kt IH];
    intros u e H E N; cbn [okp] in *.
  - destruct a; [discriminate H|reflexivity].
  - discriminate H.
  - reflexivity.
  - reflexivity.
  - rewrite andb_false_r in H. discriminate H.
  - destruct u as [|[r g] u']; [discriminate|]. cbn [app].
    apply andb_true_iff in H as [H1 H2]. rewrite H1. cbn [andb].
    destruct a.
    + apply IHok; assumption.
    + apply andb_true_iff in H2 as [H2 H3]. apply andb_true_iff; split.
      * destruct (rep_eqb r w); [apply IHok | apply IHbad]; assumption.
      * destruct (sync_only w); [exact H3|].
        apply andb_true_iff in H3 as [H3 H4]. rewrite (IHok _ _ H3 E N), (IHbad _ _ H4 E N). reflexivity.
  - apply andb_true_iff in H as [H1 H2]. rewrite (IHok _ _ H1 E N), (IHbad _ _ H2 E N). reflexivity.
  - apply andb_true_iff in H as [H0 H]. rewrite H0. cbn [andb].
    destruct u as [|x u']; [discriminate|]. cbn [app]. apply IH; assumption.
  - apply andb_true_iff in H as [H1 H2]. rewrite H1. cbn [andb].
    unfold untag. rewrite map_app, map_map. cbn [fst]. rewrite map_id.
    eapply okh_emit; eassumption.
Qed.

(* ------------------------------------------------------------------ the invariant *)
Definition utags (n : nat) (u : list (rep * option nat)) : Prop :=
  Forall (fun x => snd x = None \/ snd x = Some (pred n)) u.

Definition okst (p : pstate) (o : list (nat * rep)) (R : list (rep * option nat)) (s : sstate)
           (u : list (rep * option nat)) : Prop :=
  match p with
  | PIdle => s = SMain /\ u = []
  | PExec q => exists e, okp q s u e = true /\ (e = true -> o = [])
  | PRead1 (i, w) kok kbad =>
      o = [] /\ exists x, R = [x] /\ okp (if rep_eqb (fst x) w then kok else kbad) s u true = true
  | PCons rem ok kok kbad => o = [] /\ rem <> [] /\ okp kok s u true = true /\ okp kbad s u true = true
  | PRd k => o = [] /\ okp (Rd k) s u true = true
  | PHand h kt => o = [] /\ okp kt SMain [] true = true /\ okh h s (map fst u) = true
  | PDie | PErr | PGone => False
  end.

Definition healthy (c : conf) : Prop :=
  undrained c = [] /\
  exists R u, pipe c = R ++ u /\ Forall2 answers (pend c) R /\ utags (nxt c) u
              /\ okst (py c) (outs c) R (drained c) u.

Definition Inv (c : conf) : Prop := disturbed c \/ healthy c.

(* die blocks are well bracketed in the channel, and python is in PDie exactly inside one *)
Fixpoint wbk (inside : bool) (l : list rep) : bool :=
  match l with
  | [] => negb inside
  | RDying :: l' => wbk true l'
  | RDead :: l' => inside && wbk false l'
  | _ :: l' => wbk inside l'
  end.
Definition is_pdie (p : pstate) : bool := match p with PDie => true | _ => false end.
Definition py_ended (p : pstate) : bool :=
  match p with PErr | PGone | PExec GoneExc | PExec Err => true | _ => false end.
Definition Wb (c : conf) : Prop :=
  py_ended (py c) = true \/ wbk (is_pdie (py c)) (map fst (d2p c)) = true.

Lemma rep_eqb_eq a b : rep_eqb a b = true <-> a = b.
Proof.
  split.
  - destruct a, b; cbn; try discriminate; try reflexivity;
      destruct c, c0; cbn; try discriminate; reflexivity.
  - intros <-. destruct a; try reflexivity; destruct c; reflexivity.
Qed.
Lemma cmd_eqb_eq a b : cmd_eqb a b = true <-> a = b.
Proof. split; [destruct a, b; cbn; try discriminate; reflexivity | intros <-; destruct a; reflexivity]. Qed.
