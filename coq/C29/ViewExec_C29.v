(* C29/ViewExec_C29.v — the executable views of the correspondence ARE the declarative view of
   the theorems.

   Model_C29.vdb_view / bin_view enumerate directory entries of the association list;
   Spec_C29.listed / content are pointwise lookups.  On a filesystem whose association list binds
   every path once ([NoDup (keys s)]) and in which a listed package sits in a category directory
   ([cats_present]; for binpkg also: the cache files Packages / .update.Packages are not
   directories), the executable view is an error exactly when some listed entry has an
   unparsable name, and otherwise its entries are exactly the [entry]s of the listed packages,
   whose values are the declarative [content].  Hence two filesystems with the same declarative
   view ([view_eq]) have the same executable view (same error status, same set of entries). *)
From Coq Require Import List NArith ZArith Bool Lia.
Import ListNotations.
From Verif Require Import Base.Val C18.Fs C18.FsLemmas C29.Model_C29 C29.Spec_C29.

Lemma In_lookup s p n : NoDup (keys s) -> In (p, n) s -> lookup s p = Some n.
Proof.
  induction s as [|[q m] s IH]; cbn; [tauto|]. intros Hnd [H|H].
  - injection H as -> ->. destruct (path_eq_dec p p); congruence.
  - inversion Hnd as [|? ? Hq Hnd']; subst. destruct (path_eq_dec p q) as [->|].
    + exfalso. apply Hq. unfold keys. apply in_map_iff. now exists (q, n).
    + now apply IH.
Qed.

Lemma In_children s d nm n : In (nm, n) (children s d) <-> In (d ++ [nm], n) s.
Proof.
  unfold children. rewrite in_flat_map. split.
  - intros [[p m] [He H]]. cbn [fst snd] in H. destruct p as [|x p]; [destruct H|].
    destruct (path_eq_dec (parent (x :: p)) d) as [<-|]; [|destruct H].
    destruct H as [H|[]]. injection H as <- <-.
    assert (E : x :: p = parent (x :: p) ++ [last (x :: p) []])
      by (unfold parent; apply app_removelast_last; discriminate).
    rewrite E in He at 1. exact He.
  - intro H. exists (d ++ [nm], n). split; [exact H|]. cbn [fst snd].
    destruct (d ++ [nm]) as [|x p] eqn:E; [apply app_eq_nil in E as [_ E]; discriminate|].
    rewrite <- E. unfold parent. rewrite removelast_last, last_last.
    destruct (path_eq_dec d d); [now left|congruence].
Qed.

Definition nodes_named (sel : node -> bool) (s : fs) (d : path) : list str :=
  map fst (filter (fun e => sel (snd e)) (children s d)).
Lemma In_nodes_named sel s d nm :
  NoDup (keys s) ->
  In nm (nodes_named sel s d) <-> exists n, lookup s (d ++ [nm]) = Some n /\ sel n = true.
Proof.
  intro Hnd. unfold nodes_named. rewrite in_map_iff. split.
  - intros [[nm' n] [E H]]. cbn in E. subst nm'. apply filter_In in H as [H Hs]. cbn in Hs.
    apply In_children in H. exists n. split; [now apply In_lookup|exact Hs].
  - intros [n [H Hs]]. exists (nm, n). split; [reflexivity|]. apply filter_In. split; [|exact Hs].
    apply In_children. now apply lookup_In.
Qed.

Lemma forallb_false {A} (f : A -> bool) l : forallb f l = false -> exists x, In x l /\ f x = false.
Proof.
  induction l as [|a l IH]; cbn; [discriminate|]. destruct (f a) eqn:E; cbn.
  - intro H. destruct (IH H) as [x [Hx Hf]]. exists x. auto.
  - intros _. exists a. auto.
Qed.

Definition catdir (s : fs) (loc : path) (c : str) : bool :=
  match lookup s (loc ++ [c]) with Some n => is_dir_node n | None => false end.

Section Generic.
  Variable catf : str -> bool.      (* the category filter the executable view applies *)
  Variable cat_ok : str -> bool.    (* the one of the declarative view *)
  Variable skip : str -> bool.
  Variable as_dir : bool.
  Variable loc : path.
  Let sel (n : node) : bool := if as_dir then is_dir_node n else is_file_node n.
  Notation listed := (listed cat_ok skip as_dir loc).

  Definition gen_pkgs (s : fs) : list (str * str) :=
    flat_map (fun c => map (fun x => (c, x)) (filter (fun x => negb (skip x)) (nodes_named sel s (loc ++ [c]))))
             (filter catf (nodes_named is_dir_node s loc)).

  (* the repository is laid out as one: packages sit in category directories, and the two
     category filters agree on the directories that exist *)
  Definition repo_shaped (s : fs) : Prop :=
    NoDup (keys s)
    /\ (forall c x, listed s c x = true -> catdir s loc c = true)
    /\ (forall c, catdir s loc c = true -> catf c = cat_ok c).

  Lemma In_gen_pkgs s c x : repo_shaped s -> In (c, x) (gen_pkgs s) <-> listed s c x = true.
  Proof.
    intros [Hnd [Hcat Hf]]. unfold gen_pkgs. rewrite in_flat_map. split.
    - intros [c' [Hc H]]. apply in_map_iff in H as [x' [E H]]. injection E as -> ->.
      apply filter_In in Hc as [Hc Hcf]. apply filter_In in H as [H Hs].
      apply In_nodes_named in Hc as [n [Hn Hd]]; [|exact Hnd].
      apply In_nodes_named in H as [m [Hm Hsel]]; [|exact Hnd].
      rewrite <- app_assoc in Hm. cbn in Hm.
      assert (Hcd : catdir s loc c = true) by (unfold catdir; now rewrite Hn).
      unfold Spec_C29.listed. rewrite <- (Hf c Hcd), Hcf, Hs, Hm. cbn. exact Hsel.
    - intro H. pose proof (Hcat _ _ H) as Hcd. unfold Spec_C29.listed in H.
      apply andb_true_iff in H as [H Hl]. apply andb_true_iff in H as [Hc Hs].
      exists c. split.
      + apply filter_In. split; [|now rewrite (Hf c Hcd)].
        apply In_nodes_named; [exact Hnd|]. unfold catdir in Hcd.
        destruct (lookup s (loc ++ [c])) as [n|]; [|discriminate]. now exists n.
      + apply in_map_iff. exists x. split; [reflexivity|]. apply filter_In. split; [|exact Hs].
        apply In_nodes_named; [exact Hnd|]. rewrite <- app_assoc. cbn.
        unfold node_listed in Hl. destruct (lookup s (loc ++ [c; x])) as [m|]; [|discriminate]. now exists m.
  Qed.

  (* what an executable view built over gen_pkgs looks like *)
  Variable okname : str -> bool.
  Variable entry : fs -> str -> str -> val.
  Definition gen_view (s : fs) : val :=
    if forallb (fun cx => okname (snd cx)) (gen_pkgs s)
    then VL (map (fun cx => entry s (fst cx) (snd cx)) (gen_pkgs s))
    else VErr INVALIDCPV.

  Definition exec_is_view (s : fs) (v : val) : Prop :=
    (v = VErr INVALIDCPV /\ exists c x, listed s c x = true /\ okname x = false)
    \/ (exists l, v = VL l /\ (forall c x, listed s c x = true -> okname x = true)
                  /\ forall e, In e l <-> exists c x, listed s c x = true /\ e = entry s c x).

  Lemma gen_view_is_view s : repo_shaped s -> exec_is_view s (gen_view s).
  Proof.
    intro Hs. unfold gen_view. destruct (forallb _ _) eqn:E.
    - right. eexists. split; [reflexivity|]. split.
      + intros c x H. rewrite forallb_forall in E. apply (E (c, x)). now apply In_gen_pkgs.
      + intro e. rewrite in_map_iff. split.
        * intros [[c x] [<- H]]. exists c, x. split; [now apply In_gen_pkgs in H|reflexivity].
        * intros [c [x [H ->]]]. exists (c, x). split; [reflexivity|now apply In_gen_pkgs].
    - left. split; [reflexivity|]. apply forallb_false in E as [[c x] [H Hf]].
      exists c, x. split; [now apply In_gen_pkgs in H|exact Hf].
  Qed.

  (* the same declarative view => the same executable view *)
  Hypothesis entry_ext :
    forall a b c x, listed a c x = true -> (forall rest, content loc a c x rest = content loc b c x rest) ->
                    entry a c x = entry b c x.
  Lemma gen_view_respects a b :
    repo_shaped a -> repo_shaped b -> view_eq cat_ok skip as_dir loc a b ->
    (gen_view a = VErr INVALIDCPV /\ gen_view b = VErr INVALIDCPV)
    \/ exists la lb, gen_view a = VL la /\ gen_view b = VL lb /\ forall e, In e la <-> In e lb.
  Proof.
    intros Ha Hb Hv.
    assert (Hl : forall c x, listed a c x = listed b c x) by (intros c x; apply Hv).
    assert (He : forall c x, listed a c x = true -> entry a c x = entry b c x).
    { intros c x H. apply entry_ext; [exact H|]. now apply Hv. }
    destruct (gen_view_is_view a Ha) as [[Ea [c [x [H Hn]]]]|[la [Ea [Hoka Hia]]]];
      destruct (gen_view_is_view b Hb) as [[Eb [c' [x' [H' Hn']]]]|[lb [Eb [Hokb Hib]]]].
    - left. auto.
    - rewrite Hl in H. rewrite (Hokb _ _ H) in Hn. discriminate.
    - rewrite <- Hl in H'. rewrite (Hoka _ _ H') in Hn'. discriminate.
    - right. exists la, lb. split; [exact Ea|]. split; [exact Eb|]. intro e. rewrite Hia, Hib. split.
      + intros [c [x [H ->]]]. exists c, x. split; [now rewrite <- Hl|now apply He].
      + intros [c [x [H ->]]]. exists c, x. rewrite <- Hl in H. split; [exact H|symmetry; now apply He].
  Qed.
End Generic.

(* ------------------------------------------------------------------ vdb *)
Definition vdb_entry (loc : path) (s : fs) (c x : str) : val :=
  VL [VS c; VS x;
      VL (map (fun k : str * bool => match content loc s c x [fst k] with
                        | Some d => VS (if snd k then rstrip_nl d else d)
                        | None => VNone end) (vdb_keys x))].
Definition vdb_shaped (loc : path) := repo_shaped vdb_cat_ok vdb_cat_ok vdb_skip true loc.

Lemma vdb_view_gen s loc :
  vdb_view s loc = gen_view vdb_cat_ok vdb_skip true loc simple_pf (vdb_entry loc) s.
Proof.
  unfold vdb_view, gen_view, gen_pkgs, subdirs, nodes_named, vdb_entry, content, read_key.
  match goal with |- (if ?a then VL (map ?f ?l) else _) = (if ?b then VL (map ?g ?l') else _) =>
    change l' with l; change b with a; destruct a; [|reflexivity]; f_equal; apply map_ext end.
  intros [c x]. cbn [fst snd]. do 5 f_equal. apply map_ext. intro k. now rewrite <- app_assoc.
Qed.

Theorem vdb_view_exec_is_view_proof s loc :
  vdb_shaped loc s ->
  exec_is_view vdb_cat_ok vdb_skip true loc simple_pf (vdb_entry loc) s (vdb_view s loc).
Proof. intro H. rewrite vdb_view_gen. now apply gen_view_is_view. Qed.

Theorem vdb_view_respects_proof a b loc :
  vdb_shaped loc a -> vdb_shaped loc b -> vdb_view_eq loc a b ->
  (vdb_view a loc = VErr INVALIDCPV /\ vdb_view b loc = VErr INVALIDCPV)
  \/ exists la lb, vdb_view a loc = VL la /\ vdb_view b loc = VL lb /\ forall e, In e la <-> In e lb.
Proof.
  intros Ha Hb Hv. rewrite !vdb_view_gen.
  apply (gen_view_respects vdb_cat_ok vdb_cat_ok vdb_skip true loc simple_pf (vdb_entry loc)); auto.
  intros s t c x _ H. unfold vdb_entry. do 5 f_equal. apply map_ext. intro k. now rewrite H.
Qed.

(* ------------------------------------------------------------------ binpkg *)
Definition bin_catf (c : str) : bool := negb (str_eqb (lower c) ALL).
Definition bin_entry (base : path) (s : fs) (c x : str) : val :=
  VL [VS c; VS (strip_ext x); match content base s c x [] with Some d => VS d | None => VNone end].
Definition bin_shaped (base : path) := repo_shaped bin_catf bin_cat_ok bin_skip false base.
Definition bin_okname (x : str) : bool := simple_pf (strip_ext x).

Lemma bin_view_gen s base :
  bin_view s base = gen_view bin_catf bin_skip false base bin_okname (bin_entry base) s.
Proof. reflexivity. Qed.

Theorem bin_view_exec_is_view_proof s base :
  bin_shaped base s ->
  exec_is_view bin_cat_ok bin_skip false base bin_okname (bin_entry base) s (bin_view s base).
Proof. intro H. rewrite bin_view_gen. now apply gen_view_is_view. Qed.

Theorem bin_view_respects_proof a b base :
  bin_shaped base a -> bin_shaped base b -> bin_view_eq base a b ->
  (bin_view a base = VErr INVALIDCPV /\ bin_view b base = VErr INVALIDCPV)
  \/ exists la lb, bin_view a base = VL la /\ bin_view b base = VL lb /\ forall e, In e la <-> In e lb.
Proof.
  intros Ha Hb Hv. rewrite !bin_view_gen.
  apply (gen_view_respects bin_catf bin_cat_ok bin_skip false base bin_okname (bin_entry base)); auto.
  intros s t c x _ H. unfold bin_entry. now rewrite H.
Qed.

(* non-vacuity: the example vdb of Proofs_C29 is repo-shaped *)
From Verif Require Import C29.Proofs_C29.
Example ex_shaped : vdb_shaped [Ex.v] Ex.s0 /\ vdb_shaped [Ex.v] (run Ex.install_ops Ex.s0).
Proof.
  assert (G : forall s, NoDup (keys s) ->
              (forall p n, In (p, n) s -> match p with
                                         | [a; c; x] => a = Ex.v -> catdir s [Ex.v] c = true
                                         | _ => True end) -> vdb_shaped [Ex.v] s).
  { intros s Hnd H. split; [exact Hnd|]. split; [|reflexivity].
    intros c x Hl. unfold listed in Hl. apply andb_true_iff in Hl as [_ Hl]. unfold node_listed in Hl.
    destruct (lookup s ([Ex.v] ++ [c; x])) as [n|] eqn:E; [|discriminate].
    apply lookup_In in E. apply H in E. cbn in E. now apply E. }
  split; apply G.
  - vm_compute. repeat constructor; cbn; intuition discriminate.
  - intros p n H. vm_compute in H. repeat (destruct H as [H|H]; [injection H as <- <-; try exact I; intros _; vm_compute; reflexivity|]). destruct H.
  - vm_compute. repeat constructor; cbn; intuition discriminate.
  - intros p n H. vm_compute in H. repeat (destruct H as [H|H]; [injection H as <- <-; try exact I; intros _; vm_compute; reflexivity|]). destruct H.
Qed.
