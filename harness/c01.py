"""Source-derived tables of C01 (DESIGN §3.1): literal data of ebuild/cpv.py and ebuild/restricts.py.

Fail closed: every literal is located by `ast`, checked against the exact shape the Gallina model
assumes, and translated; anything else raises TableError (reported as a broken tie).
"""

import ast
import re

from . import tables
from .common import cZ, clist, cstr
from .tables import TableError


def _regexp_arg(tree, name):
    """the string literal X in `name = regexp(X)`."""
    call = tables.find_assign(tree, name)
    if not (isinstance(call, ast.Call) and isinstance(call.func, ast.Name) and call.func.id == "regexp"
            and len(call.args) == 1 and not call.keywords):
        raise TableError(f"{name}: expected regexp(<literal>)")
    s = tables.literal(call.args[0])
    if not isinstance(s, str):
        raise TableError(f"{name}: pattern is not a string literal")
    return s


def _alternatives(alt: str, what: str):
    """expand `a|b(?:c)?|d` into the list of alternatives in regex priority order
    (x(?:y)? tries xy first, then x).  Only plain lower-case words are accepted."""
    out = []
    for a in alt.split("|"):
        m = re.fullmatch(r"([a-z]+)(?:\(\?:([a-z]+)\)\?)?", a)
        if not m:
            raise TableError(f"{what}: unrecognised alternative {a!r}")
        if m.group(2):
            out.append(m.group(1) + m.group(2))
        out.append(m.group(1))
    if len(set(out)) != len(out):
        raise TableError(f"{what}: duplicate alternative")
    return out


def gen_tables():
    t = tables.parse("ebuild/cpv.py")
    sv = tables.literal(tables.find_assign(t, "suffix_value"))
    if not (isinstance(sv, dict) and sv and all(isinstance(k, str) and type(v) is int for k, v in sv.items())):
        raise TableError("suffix_value: expected a {str: int} literal")
    sre = _regexp_arg(t, "suffix_regexp")
    m = re.fullmatch(r"\^\(([^()]*)\)\(\\d\*\)\$", sre)
    if not m:
        raise TableError(f"suffix_regexp: unexpected shape {sre!r}")
    sre_names = _alternatives(m.group(1), "suffix_regexp")
    vre = _regexp_arg(t, "isvalid_version_re")
    m = re.fullmatch(r"\^\(\?:\\d\+\)\(\?:\\\.\\d\+\)\*\[a-zA-Z\]\?\(\?:_\((.*)\)\\d\*\)\*\$", vre)
    if not m:
        raise TableError(f"isvalid_version_re: unexpected shape {vre!r}")
    vre_names = _alternatives(m.group(1), "isvalid_version_re")

    r = tables.parse("ebuild/restricts.py")
    ops = tables.literal(tables.find_assign(r, "_convert_op2str", cls="_VersionMatch"))
    if not (isinstance(ops, dict) and ops and all(
            isinstance(k, tuple) and all(type(i) is int for i in k) and isinstance(v, str) for k, v in ops.items())):
        raise TableError("_convert_op2str: expected a {tuple[int]: str} literal")
    # _convert_str2op must be the plain inversion of _convert_op2str
    inv = tables.find_assign(r, "_convert_str2op", cls="_VersionMatch")
    if ast.dump(inv) != ast.dump(ast.parse("{v: k for k, v in _convert_op2str.items()}", mode="eval").body):
        raise TableError("_convert_str2op is no longer the inversion of _convert_op2str")

    txt = tables.header("ebuild/cpv.py (suffix_value, suffix_regexp, isvalid_version_re) and "
                        "ebuild/restricts.py (_VersionMatch._convert_op2str)")
    txt += "\n(* cpv.suffix_value, in source order *)\n"
    txt += "Definition suffix_value : list (str * Z) :=\n  %s.\n" % clist(
        ["(%s, %s)" % (cstr(k), cZ(v)) for k, v in sv.items()], "str * Z")
    txt += "\n(* alternatives of cpv.suffix_regexp's first group, in regex priority order *)\n"
    txt += "Definition suffix_regexp_names : list str :=\n  %s.\n" % clist([cstr(n) for n in sre_names], "str")
    txt += "\n(* alternatives of the suffix group of cpv.isvalid_version_re, in regex priority order *)\n"
    txt += "Definition valid_suffix_names : list str :=\n  %s.\n" % clist([cstr(n) for n in vre_names], "str")
    txt += "\n(* restricts._VersionMatch._convert_op2str: result set -> operator text, in source order *)\n"
    txt += "Definition convert_op2str : list (list Z * str) :=\n  %s.\n" % clist(
        ["(%s, %s)" % (clist([cZ(i) for i in k], "Z"), cstr(v)) for k, v in ops.items()], "list Z * str")
    return {"Tables_C01.v": txt}


# =========================================================================================
# the check
# =========================================================================================
import itertools  # noqa: E402
import sys  # noqa: E402

from .common import Check, Err, cN, cbool, copt, cpair, impl_call  # noqa: E402

IMPORTS = ("From Coq Require Import List NArith ZArith Bool.\n"
           "From Verif Require Import Base.Val gen.Tables_C01 C01.Model_C01 C01.Spec_C01.")
ANCHORS = ["ebuild/cpv.py::ver_cmp", "ebuild/cpv.py::Revision", "ebuild/cpv.py::CPV.__eq__",
           "ebuild/cpv.py::CPV.__lt__", "ebuild/cpv.py::CPV.__le__", "ebuild/cpv.py::CPV.__gt__",
           "ebuild/cpv.py::CPV.__ge__", "ebuild/cpv.py::suffix_value", "ebuild/cpv.py::suffix_regexp",
           "ebuild/cpv.py::isvalid_version_re", "ebuild/restricts.py::_VersionMatch"]
KINDS = ("alpha", "beta", "pre", "rc", "p")
KIND_COQ = {"alpha": "Alpha", "beta": "Beta", "pre": "Pre", "rc": "Rc", "p": "P"}
RANK = {"alpha": 0, "beta": 1, "pre": 2, "rc": 3, "p": 5}
OPS = ("<", "<=", "=", ">=", ">", "~")
DIGITS = ("0", "00", "01", "010", "1", "10", "2", "9", "09", "090", "100", "12", "120", "7", "07", "070")


# ---------------------------------------------------------------- versions as ASTs
class V:
    """version AST: nums (digit strings), letter (str or None), sufs [(kind, digits)]"""
    __slots__ = ("nums", "letter", "sufs")

    def __init__(self, nums, letter=None, sufs=()):
        self.nums, self.letter, self.sufs = tuple(nums), letter, tuple(sufs)

    def text(self):
        return ".".join(self.nums) + (self.letter or "") + "".join(f"_{k}{d}" for k, d in self.sufs)

    def coq(self):
        return ("{| nums := %s; letter := %s; sufs := %s |}" % (
            clist([cstr(n) for n in self.nums], "str"),
            copt(self.letter, lambda c: cN(ord(c)), "N"),
            clist(["(%s, %s)" % (KIND_COQ[k], cstr(d)) for k, d in self.sufs], "skind * str")))

    def key(self):
        return (self.nums, self.letter, self.sufs)


def c_rev(r):
    return copt(r, cN, "N")


def sgn(x):
    return (x > 0) - (x < 0)


def py_pms_cmp(a: V, ra: int, b: V, rb: int) -> int:
    """the PMS algorithm, written independently of cpv.py (direct oracle for comparison B)."""
    c = sgn(int(a.nums[0]) - int(b.nums[0]))
    if c:
        return c
    for x, y in zip(a.nums[1:], b.nums[1:]):
        if x[0] == "0" or y[0] == "0":
            xs, ys = x.rstrip("0"), y.rstrip("0")
            c = (xs > ys) - (xs < ys)
        else:
            c = sgn(int(x) - int(y))
        if c:
            return c
    c = sgn(len(a.nums) - len(b.nums))
    if c:
        return c
    la, lb = (ord(a.letter) if a.letter else -1), (ord(b.letter) if b.letter else -1)
    if la != lb:
        return sgn(la - lb)
    for (k1, d1), (k2, d2) in zip(a.sufs, b.sufs):
        c = sgn(RANK[k1] - RANK[k2]) if k1 != k2 else sgn(int(d1 or "0") - int(d2 or "0"))
        if c:
            return c
    if len(a.sufs) > len(b.sufs):
        return 1 if a.sufs[len(b.sufs)][0] == "p" else -1
    if len(b.sufs) > len(a.sufs):
        return -1 if b.sufs[len(a.sufs)][0] == "p" else 1
    return sgn(ra - rb)


def py_op_holds(op: str, c: int) -> bool:
    return {"<": c < 0, "<=": c <= 0, "=": c == 0, ">=": c >= 0, ">": c > 0, "~": c == 0}[op]


# ---------------------------------------------------------------- generator
def gen_digits(rng, first=False):
    x = rng.random()
    if x < 0.70:
        return rng.choice(DIGITS)
    if x < 0.85:
        return str(rng.randrange(0, 2000))
    if x < 0.93:  # long runs (beyond 64 bits)
        return rng.choice(("", "0")) + "".join(rng.choice("0123456789") for _ in range(rng.randrange(18, 30)))
    return "0" * rng.randrange(1, 4) + str(rng.randrange(0, 50)) + "0" * rng.randrange(0, 3)


def gen_suffix(rng):
    return (rng.choice(KINDS), rng.choice(("", "", "0", "00", "1", "01", "2", "10", str(rng.randrange(0, 300)))))


def gen_version(rng) -> V:
    n = rng.choice((1, 1, 2, 2, 2, 3, 3, 4))
    nums = [gen_digits(rng, i == 0) for i in range(n)]
    letter = rng.choice("abzAZ") if rng.random() < 0.25 else None
    sufs = [gen_suffix(rng) for _ in range(rng.choice((0, 0, 0, 1, 1, 2, 3)))]
    return V(nums, letter, sufs)


def respell_digits(rng, d):
    return rng.choice((d + "0", "0" + d, d.rstrip("0") or "0", d.lstrip("0") or "0", str(int(d) + 1),
                       str(max(0, int(d) - 1)), d + "1", "0" + d + "0", d[:-1] or "1"))


def neighbour(rng, v: V) -> V:
    """a single edit of v"""
    nums, letter, sufs = list(v.nums), v.letter, list(v.sufs)
    what = rng.randrange(9)
    if what <= 2:
        i = rng.randrange(len(nums)) if what else 0
        nums[i] = respell_digits(rng, nums[i])
    elif what == 3:
        if len(nums) > 1 and rng.random() < 0.5:
            nums.pop()
        else:
            nums.append(rng.choice(("0", "00", "1", "01")))
    elif what == 4:
        letter = None if letter else rng.choice("abzAZ")
        if rng.random() < 0.3:
            letter = rng.choice("abzAZ")
    elif what == 5 and sufs:
        i = rng.randrange(len(sufs))
        k, d = sufs[i]
        sufs[i] = (rng.choice(KINDS), d) if rng.random() < 0.5 else (k, respell_digits(rng, d or "0") if rng.random() < 0.8 else "")
    elif what == 6 and sufs:
        sufs.pop(rng.randrange(len(sufs)))
    elif what in (5, 6, 7):
        sufs.insert(rng.randrange(len(sufs) + 1), gen_suffix(rng))
    else:
        pass  # identical text: only the revisions will differ
    return V(nums, letter, sufs)


def gen_rev(rng):
    return rng.choice((None, None, None, 0, 0, 1, 1, 2, 3, 10, rng.randrange(0, 40)))


POOL_TEXT = (
    "0 00 1 01 09 9 10 010 1.0 1.00 1.01 1.1 1.10 1.010 1.09 1.9 1.0.0 1.0.1 1.1.0 2 2.0 1a 1b 1.0a 1.0z 1.0A "
    "1_alpha 1_alpha0 1_alpha1 1_alpha01 1_beta 1_pre 1_rc 1_rc2 1_p 1_p0 1_p1 1_p1_alpha 1_p1_p 1_p1_beta2 "
    "1_alpha_p 1_alpha_alpha 1_rc_p1 1.0_p 1.0_alpha 1.0a_p1 1.0a_alpha 1.00a 1.2 1.02 1.020 1.002 1.20 "
    "123456789012345678901234567890 123456789012345678901234567891 1.123456789012345678901234567890 0.0 0.00"
).split()


def parse_text(s: str) -> V:
    """parse a pool version written by hand above (trusted to be valid)."""
    head, *sf = s.split("_")
    letter = None
    if head[-1].isalpha():
        head, letter = head[:-1], head[-1]
    sufs = []
    for x in sf:
        for k in ("alpha", "beta", "pre", "rc", "p"):
            if x.startswith(k):
                sufs.append((k, x[len(k):]))
                break
    return V(head.split("."), letter, sufs)


# ---------------------------------------------------------------- driving the implementation
def spell_rev(rng, r, allow_none=True):
    """a Python-level spelling of the revision value r (None = absent)."""
    from pkgcore.ebuild.cpv import Revision
    if r is None:
        c = rng.randrange(4)
        if c == 0 and allow_none:
            return None
        if c == 1:
            return 0
        return Revision("")
    c = rng.randrange(5)
    if c == 0:
        return r
    if c == 1:
        return Revision("0" * rng.randrange(1, 3) + str(r))
    return Revision(str(r))


def describe_rev(x):
    return None if x is None else (x if isinstance(x, int) else f"Revision({x.data!r})")


def main(chk: Check):
    from pkgcore.ebuild import cpv as cpvmod
    from pkgcore.ebuild import restricts

    rng = chk.rng
    chk.rule("versions generated as ASTs from the grammar of isvalid_version_re (biased digit runs 0/00/01/010/"
             "09/..., runs of 18-30 digits, 1-4 components, letter, 0-3 stacked suffixes, revisions None/r0/r00/"
             "rN in several Python spellings); pairs = (base, single-edit neighbour) 70% / independent 30%, plus "
             "ALL ordered pairs of a fixed pool and all triples of a sub-pool (order laws on the implementation); "
             "non-trivial = the two version texts differ; malformed stream = valid texts with one character "
             "edit, checked against isvalid_version_re")
    try:
        tables.regenerate(sys.modules[__name__])
    except TableError as e:
        chk.violation("table", {"what": "literal tables of cpv.py/restricts.py no longer have the shape the "
                                        "model assumes (fail-closed extraction)", "error": str(e)}, no_input=True)
    ok = chk.build(["C01/Prop_C01.vo"])
    if ok:
        chk.check_assumptions("C01/Prop_C01.v")
    chk.lint(["C01", "gen/Tables_C01.v"])
    chk.check_fingerprint(ANCHORS)

    prop_bad = []   # concrete property failures found by the Python oracle on the implementation

    def report_prop(what, inp):
        if len(prop_bad) < 200:
            prop_bad.append({"what": what, "input": inp})

    # ------------------------------------------------------------ stream vercmp
    pool = [parse_text(s) for s in POOL_TEXT]
    if chk.thorough:
        seen = {v.key() for v in pool}
        while len(pool) < 120:
            v = gen_version(rng) if rng.random() < 0.5 else neighbour(rng, rng.choice(pool))
            if v.key() not in seen:
                seen.add(v.key())
                pool.append(v)
    for v in pool:
        assert cpvmod.isvalid_version_re.match(v.text()), v.text()

    cases = []      # (a, ra, b, rb)

    def add_case(a, ra, b, rb):
        cases.append((a, ra, b, rb))

    # all ordered pairs of the pool, revisions absent (pure version order)
    for a in pool:
        for b in pool:
            add_case(a, None, b, None)
    n_pairs = len(cases)
    for corp in sorted((chk_corpus()).glob("*.json")) if chk_corpus().exists() else []:
        import json
        d = json.loads(corp.read_text())
        if d.get("stream") == "vercmp":
            add_case(parse_text(d["v1"]), d.get("r1"), parse_text(d["v2"]), d.get("r2"))
    for _ in range(chk.n(900, 8000)):
        a = gen_version(rng)
        b = neighbour(rng, a) if rng.random() < 0.7 else gen_version(rng)
        if rng.random() < 0.5:
            a, b = b, a
        ra = gen_rev(rng)
        rb = ra if rng.random() < 0.4 else gen_rev(rng)
        add_case(a, ra, b, rb)

    vc_cases = []
    results = {}
    full_pairs = chk.thorough
    for idx, (a, ra, b, rb) in enumerate(cases):
        ta, tb = a.text(), b.text()
        if idx < n_pairs:
            sa, sb = spell_rev(rng, None), spell_rev(rng, None)
        else:
            sa, sb = spell_rev(rng, ra), spell_rev(rng, rb)
        res = impl_call(lambda: cpvmod.ver_cmp(ta, sa, tb, sb))
        if isinstance(res, bool) or not isinstance(res, int):
            res = res if isinstance(res, Err) else Err("not-an-int")
        if idx >= n_pairs or full_pairs or (idx // len(pool)) <= (idx % len(pool)) or idx % 5 == 0:
            # quick tier: Coq sees the pairs (i <= j) and every fifth of the others; the Python
            # oracle below judges the implementation on ALL ordered pairs
            vc_cases.append((cpair(a.coq(), c_rev(ra), b.coq(), c_rev(rb)), res))
        if idx < n_pairs:
            results[(ta, tb)] = res
        if ta != tb:
            chk.nontrivial((ta, ra, tb, rb))
        want = py_pms_cmp(a, ra or 0, b, rb or 0)
        if res != want:
            report_prop("ver_cmp differs from the PMS algorithm",
                        {"v1": ta, "r1": describe_rev(sa), "v2": tb, "r2": describe_rev(sb),
                         "implementation": res, "pms": want})
        if idx % 977 == 0:
            chk.sample({"stream": "vercmp", "v1": ta, "r1": describe_rev(sa), "v2": tb, "r2": describe_rev(sb), "impl": res})
    chk.count("vercmp", len(cases))

    # ------------------------------------------------------------ order laws on the implementation
    texts = [v.text() for v in pool]
    n_law = 0
    for x in texts:
        if results[(x, x)] != 0:
            report_prop("ver_cmp(a, a) != 0", {"a": x, "implementation": results[(x, x)]})
        for y in texts:
            n_law += 1
            r1, r2 = results[(x, y)], results[(y, x)]
            if isinstance(r1, Err) or isinstance(r2, Err) or r1 != -r2:
                report_prop("ver_cmp(a, b) != -ver_cmp(b, a)", {"a": x, "b": y, "ab": r1, "ba": r2})
    tri = texts if chk.thorough else texts[:40]
    le = {(x, y) for x in tri for y in tri if not isinstance(results[(x, y)], Err) and results[(x, y)] <= 0}
    succ = {x: [y for y in tri if (x, y) in le] for x in tri}
    for x in tri:
        for y in succ[x]:
            for z in succ[y]:
                n_law += 1
                if (x, z) not in le:
                    report_prop("ver_cmp not transitive: a <= b, b <= c, but a > c", {"a": x, "b": y, "c": z})
    chk.count("order-laws", n_law)

    # ------------------------------------------------------------ stream match
    m_cases = []
    for i in range(chk.n(600, 6000)):
        a = gen_version(rng)
        p = a if rng.random() < 0.15 else (neighbour(rng, a) if rng.random() < 0.75 else gen_version(rng))
        ra, rp = gen_rev(rng), gen_rev(rng)
        if rng.random() < 0.4:
            rp = ra
        op = rng.randrange(6) if rng.random() < 0.97 else 6
        neg = rng.random() < 0.35
        opstr = OPS[op] if op < 6 else rng.choice(("==", "", "!=", "=*"))
        sa = spell_rev(rng, ra)
        ptext = "cat/pkg-" + p.text() + ("" if rp is None else "-r" + rng.choice(("", "0")) + str(rp))

        def run():
            pk = cpvmod.VersionedCPV(ptext)
            r = restricts.VersionMatch(opstr, a.text(), rev=sa, negate=neg).match(pk)
            return r if isinstance(r, bool) else Err("not-a-bool")
        res = impl_call(run)
        m_cases.append((cpair(cN(op), cbool(neg), a.coq(), c_rev(ra), p.coq(), c_rev(rp)), res))
        chk.nontrivial(("m", op, neg, a.text(), ra, p.text(), rp))
        if op < 6:
            c = py_pms_cmp(p, 0, a, 0) if opstr == "~" else py_pms_cmp(p, rp or 0, a, ra or 0)
            want = py_op_holds(opstr, c) != neg
            if res != want:
                report_prop("VersionMatch disagrees with the version order",
                            {"op": opstr, "negate": neg, "restriction_version": a.text(), "restriction_rev": describe_rev(sa),
                             "package": ptext, "implementation": res, "expected": want})
        elif not isinstance(res, Err):
            report_prop("VersionMatch accepted an invalid operator", {"op": opstr, "implementation": res})
        if i % 311 == 0:
            chk.sample({"stream": "match", "op": opstr, "negate": neg, "ver": a.text(), "rev": describe_rev(sa),
                        "pkg": ptext, "impl": res})
    chk.count("match", len(m_cases))

    # ------------------------------------------------------------ stream cpvops
    o_cases = []
    names = ("a", "b", "ab", "a-b", "B")
    for i in range(chk.n(300, 3000)):
        a = gen_version(rng)
        b = a if rng.random() < 0.1 else (neighbour(rng, a) if rng.random() < 0.7 else gen_version(rng))
        ra, rb = gen_rev(rng), gen_rev(rng)
        c1, p1 = rng.choice(names), rng.choice(names)
        c2 = c1 if rng.random() < 0.8 else rng.choice(names)
        p2 = p1 if rng.random() < 0.8 else rng.choice(names)

        def mk(c, p, v, r):
            return f"{c}/{p}-{v.text()}" + ("" if r is None else "-r" + rng.choice(("", "0")) + str(r))
        t1, t2 = mk(c1, p1, a, ra), mk(c2, p2, b, rb)

        def run():
            x, y = cpvmod.VersionedCPV(t1), cpvmod.VersionedCPV(t2)
            return [x == y, x != y, x < y, x <= y, x > y, x >= y]
        res = impl_call(run)
        term = "({| cat := %s; pkg := %s; ver := %s; rev := %s |}, {| cat := %s; pkg := %s; ver := %s; rev := %s |})" % (
            cstr(c1), cstr(p1), cstr(a.text()), c_rev(ra), cstr(c2), cstr(p2), cstr(b.text()), c_rev(rb))
        o_cases.append((term, res))
        chk.nontrivial(("o", t1, t2))
        # oracle: the operators are those of the order (category, package, PMS version order)
        k = sgn((c1 > c2) - (c1 < c2)) or sgn((p1 > p2) - (p1 < p2)) or py_pms_cmp(a, ra or 0, b, rb or 0)
        want = [k == 0, k != 0, k < 0, k <= 0, k > 0, k >= 0]
        if res != want:
            report_prop("CPV rich comparisons disagree with (category, package, version order)",
                        {"a": t1, "b": t2, "implementation[==,!=,<,<=,>,>=]": res, "expected": want})
    chk.count("cpvops", len(o_cases))

    # ------------------------------------------------------------ stream valid (malformed)
    v_cases = []
    alphabet = "0123456789._-abprecltAZ\n ~+"
    seen = set()
    for i in range(chk.n(500, 4000)):
        s = gen_version(rng).text()
        if i % 4:
            for _ in range(rng.choice((1, 1, 2))):
                k = rng.randrange(3)
                pos = rng.randrange(len(s) + 1)
                if k == 0:
                    s = s[:pos] + rng.choice(alphabet) + s[pos:]
                elif k == 1 and s:
                    pos = min(pos, len(s) - 1)
                    s = s[:pos] + s[pos + 1:]
                elif s:
                    pos = min(pos, len(s) - 1)
                    s = s[:pos] + rng.choice(alphabet) + s[pos + 1:]
        if s in seen:
            continue
        seen.add(s)
        res = impl_call(lambda: bool(cpvmod.isvalid_version_re.match(s)))
        v_cases.append((cstr(s), res))
        chk.nontrivial(("v", s))
    for s in ("", "1\n", "1\n\n", "1_", "1_p_", "1.", ".1", "1..2", "1a1", "1ab", "a", "1_pre1_p", "1_pr", "1_alph", "1_rc1a", "1.a"):
        v_cases.append((cstr(s), impl_call(lambda: bool(cpvmod.isvalid_version_re.match(s)))))
    chk.count("valid", len(v_cases))
    chk.sample({"stream": "valid", "text": v_cases[1][0], "impl": v_cases[1][1]})

    # ------------------------------------------------------------ evaluate model and spec inside Coq
    streams = [
        ("vercmp", "ast_case", vc_cases, ["mismatches run_vercmp_ast cases",
                                          "where_ (fun i r => negb (spec_vercmp_ok i r)) cases"]),
        ("match", "match_case", m_cases, ["mismatches run_match_ast cases",
                                          "where_ (fun i r => negb (spec_match_ok i r)) cases"]),
        ("cpvops", "cpv * cpv", o_cases, ["mismatches run_cpvops cases"]),
        ("valid", "str", v_cases, ["mismatches run_valid cases"]),
    ]
    spec_bad = []
    corr_bad = []
    for name, ty, cs, evals in streams:
        if not ok:
            break
        r = chk.coq_eval(name, IMPORTS, ty, cs, evals)
        if r is None:
            continue
        for i in r[0][:3]:
            corr_bad.append((name, cs[i]))
        if len(r) > 1:
            for i in r[1][:3]:
                spec_bad.append((name, cs[i]))
    # the printed text of the ASTs is what the implementation was run on
    if ok:
        pr = [(v.coq(), v.text()) for v in pool[:80]]
        r = chk.coq_eval("print", IMPORTS, "vast", pr, ["mismatches run_print cases"])
        if r is not None:
            for i in r[0][:3]:
                corr_bad.append(("print", pr[i]))

    for b in prop_bad[:5]:
        chk.violation("property", b)
    if not prop_bad:
        for name, c in spec_bad[:3]:
            chk.violation("property", {"what": f"Spec_C01 rejects the implementation's result on stream '{name}'",
                                       "input": c[0], "implementation": c[1]})
    for name, c in corr_bad[:4]:
        chk.violation("correspondence",
                      {"what": f"implementation and Model_C01 disagree on stream '{name}' (the theorems of "
                               "Prop_C01 — ver_cmp_is_pms, ver_cmp_total_preorder, version_match_agrees — no "
                               "longer speak about this code)",
                       "input": c[0], "implementation": c[1]},
                      no_input=not (prop_bad or spec_bad))


def chk_corpus():
    from .common import VERIF
    return VERIF / "corpus" / "C01"


def replay(chk, data):
    """re-run one recorded vercmp / match case on the implementation and the Python PMS oracle."""
    from pkgcore.ebuild import cpv as cpvmod
    from pkgcore.ebuild import restricts
    inp = (data.get("detail") or {}).get("input")
    if not isinstance(inp, dict):
        print("replay: no structured input recorded (correspondence/proof violation); see 'detail'")
        return

    def rv(x):
        if isinstance(x, str) and x.startswith("Revision("):
            return cpvmod.Revision(x[len("Revision('"):-2])
        return x
    if "v1" in inp:
        got = impl_call(lambda: cpvmod.ver_cmp(inp["v1"], rv(inp["r1"]), inp["v2"], rv(inp["r2"])))
        a, b = parse_text(inp["v1"]), parse_text(inp["v2"])

        def val(x):
            x = rv(x)
            return 0 if x is None else (x if isinstance(x, int) else int(x.data or 0))
        print("implementation:", got, " PMS:", py_pms_cmp(a, val(inp["r1"]), b, val(inp["r2"])))
    elif "op" in inp and "package" in inp:
        got = impl_call(lambda: restricts.VersionMatch(inp["op"], inp["restriction_version"], rev=rv(inp["restriction_rev"]),
                                                       negate=inp["negate"]).match(cpvmod.VersionedCPV(inp["package"])))
        print("implementation:", got, " expected:", inp.get("expected"))
    elif "a" in inp and "b" in inp and "c" not in inp:
        def run():
            x, y = cpvmod.VersionedCPV(inp["a"]), cpvmod.VersionedCPV(inp["b"])
            return [x == y, x != y, x < y, x <= y, x > y, x >= y]
        print("implementation [==,!=,<,<=,>,>=]:", impl_call(run) if "/" in inp["a"] else
              impl_call(lambda: (cpvmod.ver_cmp(inp["a"], None, inp["b"], None), cpvmod.ver_cmp(inp["b"], None, inp["a"], None))))
    else:
        print("replay: input", inp)
