(* Proofs_C16.v — sortedness, permutation, stability, uniqueness of stable sorting, the k-way merge,
   and the two strategy theorems; instantiated with C01's total-preorder theorem for CPVs. *)
From Coq Require Import List NArith ZArith Bool Permutation Lia.
Import ListNotations.
From Verif Require Import Base.Val C01.Model_C01 C01.Spec_C01 C01.Proofs_C01 C01.Grammar_C01 C16.Model_C16 C16.Spec_C16.

(* ================================================================== generic part *)
Section G.
  Context {A : Type}.
  Variable lt : A -> A -> bool.
  Variable dom : A -> Prop.
  Hypothesis PO : preorder_on lt dom.

  Notation ge := (ge lt).
  Notation desc := (desc lt).
  Notation eqvb := (eqvb lt).

  Lemma asym x y : dom x -> dom y -> lt x y = true -> lt y x = false.
  Proof. apply PO. Qed.
  Lemma trans x y z : dom x -> dom y -> dom z -> ge x y -> ge y z -> ge x z.
  Proof. apply PO. Qed.
  Lemma irrefl x : dom x -> lt x x = false.
  Proof. intro D. destruct (lt x x) eqn:E; [|reflexivity]. rewrite (asym x x D D E) in E. discriminate. Qed.
  Lemma eqvb_refl x : dom x -> eqvb x x = true.
  Proof. intro D. unfold Spec_C16.eqvb. rewrite irrefl by exact D. reflexivity. Qed.

  Lemma desc_perm_head x l l' : Forall (ge x) l -> Permutation l l' -> Forall (ge x) l'.
  Proof. intros F P. rewrite Forall_forall in *. intros y I. apply F. eapply Permutation_in; [symmetry; exact P | exact I]. Qed.

  (* ---- insertion sort *)
  Lemma insert_desc_perm x l : Permutation (insert_desc lt x l) (x :: l).
  Proof.
    induction l as [|y l IH]; cbn; [reflexivity|].
    destruct (lt x y); [|reflexivity].
    rewrite IH. apply perm_swap.
  Qed.
  Lemma sort_desc_perm l : Permutation (sort_desc lt l) l.
  Proof. induction l as [|x l IH]; cbn; [reflexivity|]. rewrite insert_desc_perm. constructor. exact IH. Qed.

  Lemma insert_desc_desc x l : dom x -> Forall dom l -> desc l -> desc (insert_desc lt x l).
  Proof.
    intros Dx. induction l as [|y l IH]; intros Dl S; cbn; [split; [constructor|exact I]|].
    inversion Dl as [|? ? Dy Dl']; subst. destruct S as [Fy S].
    destruct (lt x y) eqn:E.
    - cbn. split.
      + eapply desc_perm_head; [|symmetry; apply insert_desc_perm].
        constructor; [apply asym; assumption | exact Fy].
      + apply IH; assumption.
    - cbn. split; [|split; assumption].
      constructor; [exact E|].
      rewrite Forall_forall in *. intros z Iz. apply (trans x y z); auto.
  Qed.
  Lemma sort_desc_desc l : Forall dom l -> desc (sort_desc lt l).
  Proof.
    induction l as [|x l IH]; intro D; cbn; [exact I|].
    inversion D; subst. apply insert_desc_desc; auto.
    eapply Permutation_Forall; [symmetry; apply sort_desc_perm | assumption].
  Qed.

  (* stability *)
  Lemma insert_desc_filter_other x a l :
    eqvb x a = false -> filter (eqvb x) (insert_desc lt a l) = filter (eqvb x) l.
  Proof.
    intro E. induction l as [|y l IH]; cbn; [rewrite E; reflexivity|].
    destruct (lt a y); cbn; [rewrite IH; reflexivity | rewrite E; reflexivity].
  Qed.
  Lemma insert_desc_filter_same x a l :
    dom x -> dom a -> Forall dom l -> eqvb x a = true ->
    filter (eqvb x) (insert_desc lt a l) = a :: filter (eqvb x) l.
  Proof.
    intros Dx Da Dl E. induction l as [|y l IH]; cbn; [rewrite E; reflexivity|].
    inversion Dl; subst.
    destruct (lt a y) eqn:L; cbn; [|rewrite E; reflexivity].
    rewrite IH by assumption.
    (* a < y and x ~ a  ==> x < y, so y is not equivalent to x *)
    assert (X : eqvb x y = false).
    { unfold Spec_C16.eqvb in *. apply andb_true_iff in E as [E1 E2].
      apply negb_true_iff in E1, E2.
      destruct (lt x y) eqn:XY; [reflexivity|].
      (* ge a x (E2) and ge x y (XY) give ge a y, contradiction with L *)
      pose proof (trans a x y Da Dx H1 E2 XY) as T. unfold Spec_C16.ge in T. congruence. }
    rewrite X. reflexivity.
  Qed.
  Lemma sort_desc_stable l x : Forall dom l -> dom x -> filter (eqvb x) (sort_desc lt l) = filter (eqvb x) l.
  Proof.
    intros Dl Dx. induction l as [|a l IH]; [reflexivity|].
    change (sort_desc lt (a :: l)) with (insert_desc lt a (sort_desc lt l)). cbn [filter].
    inversion Dl; subst.
    assert (Ds : Forall dom (sort_desc lt l))
      by (eapply Permutation_Forall; [symmetry; apply sort_desc_perm | assumption]).
    destruct (eqvb x a) eqn:E.
    - rewrite insert_desc_filter_same by assumption. rewrite IH by assumption. reflexivity.
    - rewrite insert_desc_filter_other by assumption. apply IH; assumption.
  Qed.

  Theorem sort_desc_is_stable_sorter : stable_sorter lt dom (sort_desc lt).
  Proof.
    intros l D. split; [apply sort_desc_perm|]. split; [apply sort_desc_desc; exact D|].
    intros x Dx. apply sort_desc_stable; assumption.
  Qed.

  (* ---- a descending list is determined by its equivalence classes in order *)
  Lemma filter_In_head (p : A -> bool) l a r : filter p l = a :: r -> In a l /\ p a = true.
  Proof.
    intro H. assert (I : In a (filter p l)) by (rewrite H; left; reflexivity).
    apply filter_In in I. exact I.
  Qed.

  Lemma desc_classes_unique l1 : forall l2,
    Forall dom l1 -> Forall dom l2 -> desc l1 -> desc l2 ->
    (forall x, dom x -> filter (eqvb x) l1 = filter (eqvb x) l2) -> l1 = l2.
  Proof.
    induction l1 as [|a l1 IH]; intros l2 D1 D2 S1 S2 H.
    - destruct l2 as [|b l2]; [reflexivity|]. inversion D2; subst.
      specialize (H b H2). cbn in H. rewrite eqvb_refl in H by assumption. discriminate.
    - inversion D1 as [|? ? Da D1']; subst. destruct S1 as [Fa S1].
      pose proof (H a Da) as Ha. cbn in Ha. rewrite eqvb_refl in Ha by assumption.
      destruct l2 as [|b l2]; [discriminate|].
      inversion D2 as [|? ? Db D2']; subst. destruct S2 as [Fb S2].
      assert (Eab : b = a).
      { cbn in Ha. destruct (eqvb a b) eqn:E; [injection Ha; auto|].
        exfalso.
        (* a occurs in l2, so b >= a; b occurs in l1, so a >= b *)
        symmetry in Ha. apply filter_In_head in Ha as [Ia _].
        pose proof (H b Db) as Hb. cbn in Hb. rewrite eqvb_refl in Hb by assumption.
        assert (Eba : eqvb b a = false).
        { unfold Spec_C16.eqvb in *. rewrite andb_comm. exact E. }
        rewrite Eba in Hb. apply filter_In_head in Hb as [Ib _].
        rewrite Forall_forall in Fa, Fb.
        pose proof (Fa b Ib) as G1. pose proof (Fb a Ia) as G2.
        unfold Spec_C16.eqvb, Spec_C16.ge in *. rewrite G1, G2 in E. discriminate. }
      subst b. f_equal. apply IH; try assumption.
      intros x Dx. specialize (H x Dx). cbn in H.
      destruct (eqvb x a); [injection H; auto | exact H].
  Qed.

  Theorem stable_sort_unique s1 s2 :
    stable_sorter lt dom s1 -> stable_sorter lt dom s2 -> forall l, Forall dom l -> s1 l = s2 l.
  Proof.
    intros G1 G2 l D. destruct (G1 l D) as [P1 [S1 F1]]. destruct (G2 l D) as [P2 [S2 F2]].
    apply desc_classes_unique; try assumption.
    - eapply Permutation_Forall; [symmetry; exact P1 | exact D].
    - eapply Permutation_Forall; [symmetry; exact P2 | exact D].
    - intros x Dx. rewrite F1, F2 by assumption. reflexivity.
  Qed.
End G.

(* ================================================================== the k-way merge *)
Section M.
  Context {A : Type}.
  Variable lt : A -> A -> bool.
  Variable dom : A -> Prop.
  Hypothesis PO : preorder_on lt dom.

  Notation ge := (ge lt).
  Notation desc := (desc lt).
  Definition ltE (a b : entry (A:=A)) : bool := lt (fst a) (fst b).
  Definition domE (e : entry (A:=A)) : Prop := dom (fst e).
  Definition flat (e : entry (A:=A)) : list A := fst e :: snd e.
  Definition elems (l : list (entry (A:=A))) : list A := flat_map flat l.
  Definition entry_ok (e : entry (A:=A)) : Prop := Forall dom (flat e) /\ desc (flat e).

  Lemma PO_E : preorder_on ltE domE.
  Proof.
    destruct PO as [P1 P2]. split.
    - intros x y Dx Dy. apply P1; assumption.
    - intros x y z Dx Dy Dz. apply (P2 (fst x) (fst y) (fst z)); assumption.
  Qed.

  Lemma elems_perm l l' : Permutation l l' -> Permutation (elems l) (elems l').
  Proof.
    induction 1; unfold elems in *; cbn [flat_map].
    - reflexivity.
    - apply Permutation_app_head. assumption.
    - rewrite !app_assoc. apply Permutation_app_tail. apply Permutation_app_comm.
    - etransitivity; eassumption.
  Qed.

  Lemma domE_of_ok l : Forall entry_ok l -> Forall domE l.
  Proof.
    intro H. eapply Forall_impl; [|exact H]. intros e [D _]. inversion D; assumption.
  Qed.

  (* the head entry's head dominates everything *)
  Lemma tl_dominated h tl :
    dom h -> Forall entry_ok tl -> Forall (fun e => ge h (fst e)) tl -> Forall (ge h) (elems tl).
  Proof.
    intros Dh. induction tl as [|e tl IH]; intros OK F; [constructor|].
    inversion OK as [|? ? [De Se] OKtl]; subst. inversion F as [|? ? Ge F']; subst.
    unfold elems. cbn [flat_map]. apply Forall_app. split; [|apply IH; assumption].
    unfold flat in *. inversion De as [|? ? Dfe Dse]; subst. destruct Se as [Fe _].
    constructor; [exact Ge|].
    rewrite Forall_forall in *. intros z Iz.
    apply (trans lt dom PO h (fst e) z); auto.
  Qed.

  Lemma head_dominates h rest tl :
    Forall entry_ok ((h, rest) :: tl) -> Spec_C16.desc ltE ((h, rest) :: tl) ->
    Forall (ge h) (rest ++ elems tl).
  Proof.
    intros OK S. inversion OK as [|? ? [Dh Sh] OKtl]; subst. cbn in Dh, Sh.
    destruct S as [Fh _]. apply Forall_app. split; [apply Sh|].
    inversion Dh as [|? ? Dhh _]; subst.
    apply tl_dominated; assumption.
  Qed.

  Lemma desc_tail_entry y rest' (h : A) :
    entry_ok (h, y :: rest') -> entry_ok (y, rest').
  Proof.
    intros [D S]. cbn in *. inversion D; subst. destruct S as [_ S]. split; assumption.
  Qed.

  Variable sorter : list (entry (A:=A)) -> list (entry (A:=A)).
  Hypothesis SORT : stable_sorter ltE domE sorter.

  Lemma merge_loop_spec fuel : forall l,
    (length (elems l) <= fuel)%nat -> Forall entry_ok l -> Spec_C16.desc ltE l ->
    Permutation (merge_loop sorter fuel l) (elems l) /\ desc (merge_loop sorter fuel l).
  Proof.
    induction fuel as [|f IH]; intros l Len OK S.
    - destruct l as [|[h rest] tl]; cbn in *; [split; [reflexivity|exact I] | lia].
    - destruct l as [|[h rest] tl]; [cbn; split; [reflexivity|exact I]|].
      pose proof (head_dominates h rest tl OK S) as Dom.
      inversion OK as [|? ? OKh OKtl]; subst.
      cbn [merge_loop].
      destruct rest as [|y rest'].
      + (* the head stream is exhausted *)
        assert (Tail : forall X, Permutation X (elems tl) -> desc X ->
                 Permutation (h :: X) (elems ((h, []) :: tl)) /\ desc (h :: X)).
        { intros X PX SX. split; [cbn; constructor; exact PX|].
          cbn. split; [|exact SX]. eapply desc_perm_head; [exact Dom | cbn; symmetry; exact PX]. }
        destruct tl as [|[h2 r2] [|e3 tl3]].
        * apply Tail; [apply IH; [cbn; lia | constructor | exact I] |]. apply IH; [cbn; lia | constructor | exact I].
        * apply Tail; [cbn; rewrite app_nil_r; reflexivity|].
          inversion OKtl as [|? ? [_ S2] _]; subst. exact S2.
        * destruct S as [_ S]. cbn in Len.
          assert (L : (length (elems ((h2, r2) :: e3 :: tl3)) <= f)%nat) by (cbn; lia).
          destruct (IH _ L OKtl S) as [P1 S1]. apply Tail; assumption.
      + (* pull the next element of the head stream and re-sort *)
        set (l' := (y, rest') :: tl).
        assert (OK' : Forall entry_ok l') by (constructor; [eapply desc_tail_entry; exact OKh | exact OKtl]).
        destruct (SORT l' (domE_of_ok _ OK')) as [P [S' _]].
        assert (OKs : Forall entry_ok (sorter l')) by (eapply Permutation_Forall; [symmetry; exact P | exact OK']).
        assert (PE : Permutation (elems (sorter l')) (elems l')) by (apply elems_perm; exact P).
        assert (L : (length (elems (sorter l')) <= f)%nat).
        { rewrite (Permutation_length PE). cbn in Len |- *. lia. }
        destruct (IH _ L OKs S') as [P1 S1].
        split.
        * cbn. constructor. rewrite P1, PE. reflexivity.
        * cbn. split; [|exact S1].
          eapply desc_perm_head; [exact Dom|]. cbn. symmetry. rewrite P1, PE. reflexivity.
  Qed.

  Lemma elems_heads streams : elems (heads streams) = concat streams.
  Proof.
    induction streams as [|s ss IH]; [reflexivity|].
    destruct s as [|h r].
    - change (elems (heads ([] :: ss))) with (elems (heads ss)). rewrite IH. reflexivity.
    - change (elems (heads ((h :: r) :: ss))) with ((h :: r) ++ elems (heads ss)). rewrite IH. reflexivity.
  Qed.
  Lemma heads_ok streams :
    Forall (fun s => Forall dom s /\ desc s) streams -> Forall entry_ok (heads streams).
  Proof.
    induction 1 as [|s ss [D S] _ IH]; cbn; [constructor|].
    destruct s as [|h r]; cbn; [exact IH|]. constructor; [split; assumption | exact IH].
  Qed.

  Theorem iter_sort_spec streams :
    Forall (fun s => Forall dom s /\ desc s) streams ->
    Permutation (iter_sort_gen sorter streams) (concat streams) /\ desc (iter_sort_gen sorter streams).
  Proof.
    intro H. pose proof (heads_ok streams H) as OK. pose proof (elems_heads streams) as EH.
    unfold iter_sort_gen.
    assert (Gen : Permutation (merge_loop sorter (S (length (concat streams))) (sorter (heads streams))) (concat streams)
                  /\ desc (merge_loop sorter (S (length (concat streams))) (sorter (heads streams)))).
    { destruct (SORT _ (domE_of_ok _ OK)) as [P [S' _]].
      assert (PE := elems_perm _ _ P).
      destruct (merge_loop_spec (S (length (concat streams))) (sorter (heads streams))) as [P1 S1].
      - rewrite (Permutation_length PE), EH. lia.
      - eapply Permutation_Forall; [symmetry; exact P | exact OK].
      - exact S'.
      - split; [rewrite P1, PE, EH; reflexivity | exact S1]. }
    destruct (heads streams) as [|[h r] [|e2 l2]] eqn:E; try exact Gen.
    rewrite <- EH. cbn. rewrite app_nil_r. split; [reflexivity|].
    inversion OK as [|? ? [_ S] _]; subst. exact S.
  Qed.

  (* two stable sorters drive the merge identically *)
  Variable sorter2 : list (entry (A:=A)) -> list (entry (A:=A)).
  Hypothesis SORT2 : stable_sorter ltE domE sorter2.

  Lemma merge_loop_det fuel : forall l,
    Forall entry_ok l -> merge_loop sorter fuel l = merge_loop sorter2 fuel l.
  Proof.
    induction fuel as [|f IH]; intros l OK; [reflexivity|].
    destruct l as [|[h rest] tl]; [reflexivity|]. cbn [merge_loop].
    inversion OK as [|? ? OKh OKtl]; subst. f_equal.
    destruct rest as [|y rest'].
    - destruct tl as [|[h2 r2] [|e3 tl3]]; try reflexivity; apply IH; assumption.
    - set (l' := (y, rest') :: tl).
      assert (OK' : Forall entry_ok l') by (constructor; [eapply desc_tail_entry; exact OKh | exact OKtl]).
      rewrite <- (stable_sort_unique ltE domE PO_E sorter sorter2 SORT SORT2 l' (domE_of_ok _ OK')).
      apply IH. destruct (SORT l' (domE_of_ok _ OK')) as [P _].
      eapply Permutation_Forall; [symmetry; exact P | exact OK'].
  Qed.

  Theorem iter_sort_det streams :
    Forall (fun s => Forall dom s /\ desc s) streams ->
    iter_sort_gen sorter streams = iter_sort_gen sorter2 streams.
  Proof.
    intro H. pose proof (heads_ok streams H) as OK. unfold iter_sort_gen.
    pose proof (stable_sort_unique ltE domE PO_E sorter sorter2 SORT SORT2 _ (domE_of_ok _ OK)) as U.
    destruct (SORT _ (domE_of_ok _ OK)) as [P _].
    assert (OKs : Forall entry_ok (sorter (heads streams)))
      by (eapply Permutation_Forall; [symmetry; exact P | exact OK]).
    destruct (heads streams) as [|[h r] [|e2 l2]] eqn:E; try reflexivity;
      rewrite <- U; apply merge_loop_det; exact OKs.
  Qed.
End M.

(* ================================================================== candidates *)
Definition cdom (c : cand) : Prop := cpv_valid (cc c).
Definition ccmp (x y : cand) : Z := cpv_cmp (cc x) (cc y).

Lemma cvalid_cdom c : cvalid c -> cdom c.
Proof. unfold cvalid, cdom, cpv_valid. apply valid_version_iff_proof. Qed.

Lemma ccmp_facts x y z : cdom x -> cdom y -> cdom z ->
  (ccmp x y = (-1)%Z \/ ccmp x y = 0%Z \/ ccmp x y = 1%Z)
  /\ ccmp x x = 0%Z /\ ccmp y x = (- ccmp x y)%Z
  /\ ((ccmp x y <= 0)%Z -> (ccmp y z <= 0)%Z -> (ccmp x z <= 0)%Z)
  /\ (ccmp x y = 0%Z -> ccmp x z = ccmp y z).
Proof. intros. apply cpv_order_proof; assumption. Qed.

Lemma lt_pkg_ccmp x y : lt_pkg x y = Z.ltb (ccmp x y) 0.
Proof. unfold lt_pkg, ccmp. destruct (cpv_ops_proof (cc x) (cc y)) as [_ [_ [L _]]]. exact L. Qed.

Lemma pcmp_ccmp x y : cdom x -> cdom y -> pcmp x y = ccmp x y.
Proof.
  intros Dx Dy. unfold pcmp. destruct (cpv_ops_proof (cc x) (cc y)) as [_ [_ [L [_ [G _]]]]].
  rewrite L, G. destruct (ccmp_facts x y x Dx Dy Dx) as [R _]. unfold ccmp in R.
  unfold ccmp. destruct R as [R|[R|R]]; rewrite R; reflexivity.
Qed.

(* lt_highest, spelled out *)
Lemma lt_highest_spec x y : cdom x -> cdom y ->
  lt_highest x y = true <->
  ((ccmp x y < 0)%Z \/ (ccmp x y = 0%Z /\ clive x = false /\ clive y = true)).
Proof.
  intros Dx Dy. unfold lt_highest, f_highest. rewrite pcmp_ccmp by assumption. cbv zeta.
  destruct (Z.eqb_spec (ccmp x y) 0) as [E|E]; cbn.
  - rewrite E. destruct (clive x), (clive y); cbn; split; intro H; try discriminate; auto;
      try (destruct H as [H|[_ [H1 H2]]]; [lia | discriminate]).
  - rewrite Z.ltb_lt. split; [auto|]. intros [H|[H _]]; [exact H|contradiction].
Qed.

Lemma PO_highest : preorder_on lt_highest cdom.
Proof.
  split.
  - intros x y Dx Dy H. apply (lt_highest_spec x y Dx Dy) in H.
    destruct (lt_highest y x) eqn:E; [|reflexivity]. apply (lt_highest_spec y x Dy Dx) in E.
    destruct (ccmp_facts x y x Dx Dy Dx) as [_ [_ [An _]]].
    destruct H as [H|[H1 [H2 H3]]], E as [E|[E1 [E2 E3]]]; try lia; congruence.
  - intros x y z Dx Dy Dz Gxy Gyz. unfold Spec_C16.ge in *.
    destruct (lt_highest x z) eqn:E; [|reflexivity]. exfalso.
    apply (lt_highest_spec x z Dx Dz) in E.
    assert (Nxy : ~ ((ccmp x y < 0)%Z \/ (ccmp x y = 0%Z /\ clive x = false /\ clive y = true)))
      by (intro K; apply (lt_highest_spec x y Dx Dy) in K; congruence).
    assert (Nyz : ~ ((ccmp y z < 0)%Z \/ (ccmp y z = 0%Z /\ clive y = false /\ clive z = true)))
      by (intro K; apply (lt_highest_spec y z Dy Dz) in K; congruence).
    destruct (ccmp_facts x y z Dx Dy Dz) as [Rxy [_ [Axy [_ Ixy]]]].
    destruct (ccmp_facts z y x Dz Dy Dx) as [_ [_ [Azy [Tzyx Izy]]]].
    destruct (ccmp_facts x z y Dx Dz Dy) as [_ [_ [Axz [_ Ixz]]]].
    destruct (ccmp_facts y z x Dy Dz Dx) as [Ryz [_ [_ [_ Iyz]]]].
    assert (Cxy : (0 <= ccmp x y)%Z) by lia.
    assert (Cyz : (0 <= ccmp y z)%Z) by lia.
    assert (Cxz : (0 <= ccmp x z)%Z) by lia.
    destruct E as [E|[E1 [E2 E3]]]; [lia|].
    (* ccmp x z = 0: then x~y~z and the livefs flags chain *)
    assert (Exy : ccmp x y = 0%Z) by (specialize (Ixz E1); lia).
    assert (Eyz : ccmp y z = 0%Z) by (specialize (Ixy Exy); lia).
    destruct (clive y) eqn:Ly.
    + apply Nxy. right. auto.
    + apply Nyz. right. auto.
Qed.

Lemma PO_pkg : preorder_on lt_pkg cdom.
Proof.
  split.
  - intros x y Dx Dy H. rewrite lt_pkg_ccmp in *. destruct (ccmp_facts x y x Dx Dy Dx) as [_ [_ [An _]]].
    apply Z.ltb_lt in H. apply Z.ltb_ge. lia.
  - intros x y z Dx Dy Dz. unfold Spec_C16.ge. rewrite !lt_pkg_ccmp, !Z.ltb_ge.
    destruct (ccmp_facts z y x Dz Dy Dx) as [_ [_ [A1 [T _]]]].
    destruct (ccmp_facts x z y Dx Dz Dy) as [_ [_ [A2 _]]].
    destruct (ccmp_facts x y x Dx Dy Dx) as [_ [_ [A3 _]]]. lia.
Qed.

Lemma PO_on_head {B} (lt : cand -> cand -> bool) :
  preorder_on lt cdom -> preorder_on (on_head (B:=B) lt) (fun e => cdom (fst e)).
Proof.
  intros [P1 P2]. split.
  - intros x y. apply P1.
  - intros x y z. apply (P2 (fst x) (fst y) (fst z)).
Qed.

(* ---- highest_iter_sort is a stable sorter of [head, iterator] entries *)
Lemma highest_iter_sort_stable : stable_sorter (ltE lt_highest) (domE cdom) highest_iter_sort.
Proof.
  unfold highest_iter_sort. apply (sort_desc_is_stable_sorter (ltE lt_highest) (domE cdom)).
  apply PO_E. exact PO_highest.
Qed.

(* ---- the per-repository stream *)
Lemma desc_filter {A} (lt : A -> A -> bool) p l : desc lt l -> desc lt (filter p l).
Proof.
  induction l as [|x l IH]; intro S; [exact I|]. destruct S as [F S]. cbn.
  destruct (p x); [|apply IH; exact S]. cbn. split; [|apply IH; exact S].
  rewrite Forall_forall in *. intros y Iy. apply filter_In in Iy as [Iy _]. apply F; exact Iy.
Qed.
Lemma desc_map_fst {B} (lt : cand -> cand -> bool) (l : list (cand * B)) :
  desc (on_head lt) l -> desc lt (map fst l).
Proof.
  induction l as [|x l IH]; intro S; [exact I|]. destruct S as [F S]. cbn. split; [|apply IH; exact S].
  rewrite Forall_forall in *. intros y Iy. apply in_map_iff in Iy as [e [<- Ie]]. apply (F e Ie).
Qed.
Lemma desc_weaken {A} (lt1 lt2 : A -> A -> bool) (P : A -> Prop) l :
  (forall x y, P x -> P y -> ge lt1 x y -> ge lt2 x y) -> Forall P l -> desc lt1 l -> desc lt2 l.
Proof.
  intros W. induction l as [|x l IH]; intros Pl S; [exact I|]. inversion Pl; subst. destruct S as [F S].
  split; [|apply IH; assumption]. rewrite Forall_forall in *. intros y Iy. apply W; auto.
Qed.

Definition matching (r : repo) : list cand := map fst (filter snd (snd r)).

Lemma per_repo_perm r : Permutation (per_repo r) (matching r).
Proof.
  unfold per_repo, matching. apply Permutation_map.
  assert (G : forall (l l' : list (cand * bool)), Permutation l l' -> Permutation (filter snd l) (filter snd l')).
  { induction 1; cbn.
    - reflexivity.
    - destruct (snd x); [constructor|]; assumption.
    - destruct (snd x), (snd y); try reflexivity. apply perm_swap.
    - etransitivity; eassumption. }
  apply G. apply sort_desc_perm.
Qed.

Lemma per_repo_ok r : repo_ok r ->
  Forall (fun c => cdom c /\ clive c = fst r) (per_repo r) /\ desc lt_highest (per_repo r).
Proof.
  intro OK. unfold repo_ok in OK.
  assert (D : Forall (fun e : cand * bool => cdom (fst e)) (snd r)).
  { eapply Forall_impl; [|exact OK]. intros e [_ V]. apply cvalid_cdom; exact V. }
  assert (All : Forall (fun c => cdom c /\ clive c = fst r) (per_repo r)).
  { eapply Permutation_Forall; [symmetry; apply per_repo_perm|]. unfold matching.
    rewrite Forall_forall in *. intros c Ic. apply in_map_iff in Ic as [e [<- Ie]].
    apply filter_In in Ie as [Ie _]. destruct (OK e Ie) as [L V]. split; [apply cvalid_cdom; exact V | exact L]. }
  split; [exact All|].
  apply (desc_weaken lt_pkg lt_highest (fun c => cdom c /\ clive c = fst r)); [|exact All|].
  - intros x y [Dx Lx] [Dy Ly] G. unfold Spec_C16.ge in *.
    destruct (lt_highest x y) eqn:E; [|reflexivity]. apply (lt_highest_spec x y Dx Dy) in E.
    rewrite lt_pkg_ccmp in G. apply Z.ltb_ge in G.
    destruct E as [E|[_ [E1 E2]]]; [lia | congruence].
  - unfold per_repo. apply desc_map_fst, desc_filter.
    apply (sort_desc_desc (on_head lt_pkg) (fun e => cdom (fst e)) (PO_on_head lt_pkg PO_pkg)). exact D.
Qed.

Lemma streams_ok dbs : Forall repo_ok dbs ->
  Forall (fun s => Forall cdom s /\ desc lt_highest s) (map per_repo dbs).
Proof.
  intro H. apply Forall_map. eapply Forall_impl; [|exact H]. intros r OK.
  destruct (per_repo_ok r OK) as [A S]. split; [|exact S].
  eapply Forall_impl; [|exact A]. intros c [D _]. exact D.
Qed.

Lemma iter_sort_highest_spec streams :
  Forall (fun s => Forall cdom s /\ desc lt_highest s) streams ->
  Permutation (iter_sort_highest streams) (concat streams) /\ desc lt_highest (iter_sort_highest streams).
Proof.
  intro H. unfold iter_sort_highest.
  apply (iter_sort_spec lt_highest cdom PO_highest highest_iter_sort highest_iter_sort_stable). exact H.
Qed.

Lemma concat_per_repo_perm dbs : Permutation (concat (map per_repo dbs)) (offered dbs).
Proof.
  unfold offered. induction dbs as [|r dbs IH]; cbn; [reflexivity|].
  apply Permutation_app; [apply per_repo_perm | exact IH].
Qed.

Lemma filter_partition_perm {A} (p : A -> bool) l :
  Permutation (filter p l ++ filter (fun x => negb (p x)) l) l.
Proof.
  induction l as [|x l IH]; cbn; [reflexivity|]. destruct (p x); cbn.
  - constructor. exact IH.
  - symmetry. apply Permutation_cons_app. symmetry. exact IH.
Qed.

Lemma offered_perm dbs dbs' : Permutation dbs dbs' -> Permutation (offered dbs) (offered dbs').
Proof.
  unfold offered. induction 1; cbn [flat_map].
  - reflexivity.
  - apply Permutation_app_head. assumption.
  - rewrite !app_assoc. apply Permutation_app_tail, Permutation_app_comm.
  - etransitivity; eassumption.
Qed.

(* ================================================================== the strategy theorems *)
Theorem prefer_highest_sorted_proof : forall dbs, Forall repo_ok dbs ->
  Permutation (prefer_highest dbs) (offered dbs) /\ desc lt_highest (prefer_highest dbs).
Proof.
  intros dbs OK. unfold prefer_highest.
  assert (P : Permutation (livefs_first dbs) dbs) by apply filter_partition_perm.
  assert (OK' : Forall repo_ok (livefs_first dbs)) by (eapply Permutation_Forall; [symmetry; exact P | exact OK]).
  destruct (iter_sort_highest_spec _ (streams_ok _ OK')) as [P1 S1]. split; [|exact S1].
  rewrite P1, concat_per_repo_perm. apply offered_perm. exact P.
Qed.

Definition highest_first_stmt : Prop :=
  forall dbs h tl, Forall repo_ok dbs -> prefer_highest dbs = h :: tl ->
    In h (offered dbs) /\
    forall x, In x (offered dbs) ->
      (ccmp x h <= 0)%Z /\ (ccmp x h = 0%Z -> clive x = true -> clive h = true).
Theorem highest_first_proof : highest_first_stmt.
Proof.
  intros dbs h tl OK E. destruct (prefer_highest_sorted_proof dbs OK) as [P S]. rewrite E in P, S.
  assert (Dall : Forall cdom (offered dbs)).
  { unfold offered. rewrite Forall_forall. intros c Ic. apply in_flat_map in Ic as [r [Ir Ic]].
    apply in_map_iff in Ic as [e [<- Ie]]. apply filter_In in Ie as [Ie _].
    rewrite Forall_forall in OK. specialize (OK r Ir). unfold repo_ok in OK. rewrite Forall_forall in OK.
    apply cvalid_cdom, (OK e Ie). }
  assert (Ih : In h (offered dbs)) by (eapply Permutation_in; [exact P | left; reflexivity]).
  split; [exact Ih|]. intros x Ix.
  rewrite Forall_forall in Dall. pose proof (Dall h Ih) as Dh. pose proof (Dall x Ix) as Dx.
  assert (G : ge lt_highest h x).
  { symmetry in P. apply (Permutation_in _ P) in Ix. destruct Ix as [<-|Ix].
    - apply (irrefl lt_highest cdom PO_highest); exact Dh.
    - destruct S as [F _]. rewrite Forall_forall in F. apply F; exact Ix. }
  unfold Spec_C16.ge in G.
  assert (N : ~ ((ccmp h x < 0)%Z \/ (ccmp h x = 0%Z /\ clive h = false /\ clive x = true)))
    by (intro K; apply (lt_highest_spec h x Dh Dx) in K; congruence).
  destruct (ccmp_facts h x h Dh Dx Dh) as [_ [_ [A _]]].
  split; [lia|]. intros Z Lx. destruct (clive h) eqn:Lh; [reflexivity|]. exfalso. apply N. right.
  repeat split; [lia | exact Lx].
Qed.

Definition reuse_first_stmt : Prop :=
  forall dbs, Forall repo_ok dbs ->
    exists L N, prefer_reuse dbs = L ++ N
      /\ Forall (fun c => clive c = true) L /\ Forall (fun c => clive c = false) N
      /\ Permutation (L ++ N) (offered dbs)
      /\ desc lt_highest L /\ desc lt_highest N
      /\ ((exists x, In x (offered dbs) /\ clive x = true) ->
          exists h tl, prefer_reuse dbs = h :: tl /\ clive h = true).
Theorem reuse_first_proof : reuse_first_stmt.
Proof.
  intros dbs OK. unfold prefer_reuse.
  set (lv := filter (fun r : repo => fst r) dbs). set (nl := filter (fun r : repo => negb (fst r)) dbs).
  assert (OKl : Forall repo_ok lv) by (apply Forall_forall; intros r Ir; apply filter_In in Ir as [Ir _];
                                       rewrite Forall_forall in OK; auto).
  assert (OKn : Forall repo_ok nl) by (apply Forall_forall; intros r Ir; apply filter_In in Ir as [Ir _];
                                       rewrite Forall_forall in OK; auto).
  destruct (iter_sort_highest_spec _ (streams_ok _ OKl)) as [Pl Sl].
  destruct (iter_sort_highest_spec _ (streams_ok _ OKn)) as [Pn Sn].
  assert (Fl : Forall (fun c => clive c = true) (iter_sort_highest (map per_repo lv))).
  { eapply Permutation_Forall; [symmetry; exact Pl|]. rewrite Forall_forall. intros c Ic.
    apply in_concat in Ic as [s [Is Ic]]. apply in_map_iff in Is as [r [<- Ir]].
    rewrite Forall_forall in OKl. destruct (per_repo_ok r (OKl r Ir)) as [A _].
    rewrite Forall_forall in A. destruct (A c Ic) as [_ L]. apply filter_In in Ir as [_ T]. congruence. }
  assert (Fn : Forall (fun c => clive c = false) (iter_sort_highest (map per_repo nl))).
  { eapply Permutation_Forall; [symmetry; exact Pn|]. rewrite Forall_forall. intros c Ic.
    apply in_concat in Ic as [s [Is Ic]]. apply in_map_iff in Is as [r [<- Ir]].
    rewrite Forall_forall in OKn. destruct (per_repo_ok r (OKn r Ir)) as [A _].
    rewrite Forall_forall in A. destruct (A c Ic) as [_ L]. apply filter_In in Ir as [_ T].
    apply negb_true_iff in T. congruence. }
  assert (PP : Permutation (iter_sort_highest (map per_repo lv) ++ iter_sort_highest (map per_repo nl)) (offered dbs)).
  { rewrite Pl, Pn, !concat_per_repo_perm.
    transitivity (offered (lv ++ nl)).
    - unfold offered. rewrite flat_map_app. reflexivity.
    - apply offered_perm. apply filter_partition_perm. }
  exists (iter_sort_highest (map per_repo lv)), (iter_sort_highest (map per_repo nl)).
  repeat split; try assumption.
  intros [x [Ix Lx]].
  destruct (iter_sort_highest (map per_repo lv)) as [|h tl] eqn:E.
  - exfalso. cbn in PP. symmetry in PP. apply (Permutation_in _ PP) in Ix.
    rewrite Forall_forall in Fn. rewrite (Fn x Ix) in Lx. discriminate.
  - exists h, (tl ++ iter_sort_highest (map per_repo nl)). split; [|inversion Fl; assumption].
    change (iter_sort_highest (map per_repo lv) ++ iter_sort_highest (map per_repo nl)
            = h :: tl ++ iter_sort_highest (map per_repo nl)).
    rewrite E. reflexivity.
Qed.

(* the merged stream does not depend on which stable sorting algorithm list.sort is *)
Definition merge_deterministic_stmt : Prop :=
  forall (s1 s2 : list (cand * list cand) -> list (cand * list cand)) streams,
    stable_sorter (ltE lt_highest) (domE cdom) s1 -> stable_sorter (ltE lt_highest) (domE cdom) s2 ->
    Forall (fun s => Forall cdom s /\ desc lt_highest s) streams ->
    iter_sort_gen s1 streams = iter_sort_gen s2 streams.
Theorem merge_deterministic_proof : merge_deterministic_stmt.
Proof.
  intros s1 s2 streams G1 G2 H.
  exact (iter_sort_det lt_highest cdom PO_highest s1 G1 s2 G2 streams H).
Qed.

(* ---- non-vacuity: two repositories, an installed 1.0 and source 1.0 / 2.0 / 0.9 *)
Definition s_a : str := [97]%N.
Definition v10 : str := [49;46;48]%N.  Definition v20 : str := [50;46;48]%N.  Definition v09 : str := [48;46;57]%N.
Definition ex_dbs : list repo :=
  [ (false, [(mkc s_a s_a v10 None false 1, true); (mkc s_a s_a v20 None false 2, true); (mkc s_a s_a v09 None false 3, true)]);
    (true,  [(mkc s_a s_a v10 None true 4, true)]) ].
Example ex_dbs_ok : Forall repo_ok ex_dbs.
Proof. repeat constructor. Qed.
Example ex_highest : map ctag (prefer_highest ex_dbs) = [2;4;1;3]%N.
Proof. vm_compute. reflexivity. Qed.
Example ex_reuse : map ctag (prefer_reuse ex_dbs) = [4;2;1;3]%N.
Proof. vm_compute. reflexivity. Qed.
