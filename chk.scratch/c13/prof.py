import time, random, tempfile, shutil, logging, os
logging.disable(logging.CRITICAL)
from harness import c13
rng=random.Random(5)
ws=[c13.gen_world(rng) for _ in range(40)]
root=tempfile.mkdtemp()
t=time.time()
for k,w in enumerate(ws):
    d=os.path.join(root,"w%d"%k); c13.run_impl(w,d); shutil.rmtree(d)
print("impl per world", (time.time()-t)/40)
import cProfile, pstats
pr=cProfile.Profile(); pr.enable()
for k,w in enumerate(ws[:15]):
    d=os.path.join(root,"w%d"%k); c13.run_impl(w,d); shutil.rmtree(d)
pr.disable(); pstats.Stats(pr).sort_stats("cumulative").print_stats(25)
