import os, sys, random, shutil, tempfile
sys.path.insert(0, "/verif")
from harness import c32
print(c32.bash_read_replies([(True,"doins","0"),(True,"doins","1\x07boom bang"),(False,"doins","2\x07x\x07y"),(True,"best_version","0\x07cat/a-1.0"),
   (True,"doins","256\x07sig"),(True,"doins","-1\x07neg"),(True,"doins","1\x07"),(True,"doins","0\x07"),(True,"doins","1\x07\x07z"),(True,"x","1\x07back\\slash\\"),(True,"x","1\x07  sp  "), (True,"x","0\x07a\x00b")]))
top=tempfile.mkdtemp(prefix="c32d_")
w=c32.World(None, top+"/w", [("usr/a","d")], [("real",)], [])
oracle = c32.ExtOracle(w.plan, w.ebd_ipc.spawn.spawn_get_output)
calls=[("doins",True,"--dest=/usr",["b","c"]),("doins",True,"--dest=/usr",["a"]),("dodoc",True,"--dest=/usr '--insoptions=-m u=zzz'",["b"]),("best_version",True,"",["cat/a"]),("has_version",True,"",["cat/b"]),("doins",False,"--dest=/usr",["nope"]),("doins",True,"",["b"])]
saved=w.ebd_ipc.spawn.spawn_get_output; w.ebd_ipc.spawn.spawn_get_output=oracle
try:
    print(c32.bash_roundtrip(w, calls))
finally:
    w.ebd_ipc.spawn.spawn_get_output=saved
shutil.rmtree(top)
