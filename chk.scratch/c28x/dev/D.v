From Coq Require Import List NArith ZArith Bool Lia Permutation.
Import ListNotations.
From Verif Require Import Base.Val C18.Fs C18.FsLemmas C28.Model_C28 C28.Spec_C28 C28.Proofs_C28.
From Scratch Require Import C.
Open Scope N_scope.

(* ================================================================ tokens and lines *)
Definition nospace (t : str) : bool := forallb (fun c => negb (is_space c)) t.
Lemma name_ok_spec t : name_ok t = true <-> t <> [] /\ nospace t = true.
Proof.
  destruct t as [|c t]; cbn.
  - split; [discriminate|intros [H _]; congruence].
  - split; [intro H; split; [discriminate|exact H]|intros [_ H]; exact H].
Qed.

Lemma sw_tok t : forall cur rest, nospace t = true ->
  split_ws_aux cur (t ++ rest) = split_ws_aux (rev t ++ cur) rest.
Proof.
  induction t as [|c t IH]; intros cur rest H; [reflexivity|].
  cbn in H. apply andb_true_iff in H as [Hc Ht]. apply negb_true_iff in Hc.
  cbn [app split_ws_aux rev]. rewrite Hc, IH by exact Ht. now rewrite <- app_assoc.
Qed.

Definition jtail (l : list str) : str := concat (map (cons 32) l).

Lemma jtail_cons t r : jtail (t :: r) = 32 :: t ++ jtail r.
Proof. reflexivity. Qed.

Lemma sw_tail toks : forall cur, cur <> [] -> Forall (fun t => name_ok t = true) toks ->
  split_ws_aux cur (jtail toks) = rev cur :: toks.
Proof.
  induction toks as [|t r IH]; intros cur Hc Hall.
  - unfold jtail. cbn [map concat split_ws_aux]. destruct cur; [congruence|reflexivity].
  - inversion Hall as [|? ? Ht Hr]; subst. apply name_ok_spec in Ht as [Hne Hns].
    rewrite jtail_cons.
    cbn [split_ws_aux]. replace (is_space 32) with true by reflexivity.
    destruct cur as [|c0 cur]; [congruence|].
    rewrite sw_tok by exact Hns. rewrite app_nil_r, IH; [now rewrite rev_involutive| |exact Hr].
    intro E. apply (f_equal (@rev N)) in E. rewrite rev_involutive in E. cbn in E. congruence.
Qed.

Lemma split_line t0 toks : name_ok t0 = true -> Forall (fun t => name_ok t = true) toks ->
  split_ws (t0 ++ jtail toks) = t0 :: toks.
Proof.
  intros H0 Hall. apply name_ok_spec in H0 as [Hne Hns]. unfold split_ws.
  rewrite sw_tok by exact Hns. rewrite app_nil_r, sw_tail; [now rewrite rev_involutive| |exact Hall].
  intro E. apply (f_equal (@rev N)) in E. rewrite rev_involutive in E. cbn in E. congruence.
Qed.

Definition not_nl (c : N) : bool := negb ((c =? 10) || (c =? 13)).
Lemma lines_line l : forall cur rest, forallb not_nl l = true ->
  lines_aux cur (l ++ 10 :: rest) = (rev cur ++ l) :: lines_aux [] rest.
Proof.
  induction l as [|c l IH]; intros cur rest H.
  - cbn. now rewrite app_nil_r.
  - cbn in H. apply andb_true_iff in H as [Hc Hl]. unfold not_nl in Hc. apply negb_true_iff in Hc.
    cbn [app lines_aux]. rewrite Hc, IH by exact Hl. cbn [rev]. now rewrite <- app_assoc.
Qed.

Lemma nospace_not_nl c : is_space c = false -> not_nl c = true.
Proof.
  intro H. unfold not_nl. destruct (N.eqb_spec c 10) as [->|_]; [discriminate H|].
  destruct (N.eqb_spec c 13) as [->|_]; [discriminate H|]. reflexivity.
Qed.
Lemma tok_no_nl t : nospace t = true -> forallb not_nl t = true.
Proof.
  unfold nospace. rewrite !forallb_forall. intros H c Hc. apply nospace_not_nl.
  specialize (H c Hc). now apply negb_true_iff in H.
Qed.
Lemma jtail_no_nl toks : Forall (fun t => name_ok t = true) toks -> forallb not_nl (jtail toks) = true.
Proof.
  induction 1 as [|t r Ht _ IH]; [reflexivity|].
  rewrite jtail_cons. cbn [forallb].
  rewrite forallb_app, IH. apply name_ok_spec in Ht as [_ Ht]. now rewrite (tok_no_nl _ Ht).
Qed.

(* ================================================================ one line *)
Definition chf_toks (l : chks) : list str :=
  flat_map (fun e => match chf_width (fst e) with
                     | Some w => [upper (fst e); rjust0 w (hex (snd e))]
                     | None => [] end) l.
Definition kn (e : str * N) : Prop := known (fst e) = true.

Lemma jtail_app a b : jtail (a ++ b) = jtail a ++ jtail b.
Proof. unfold jtail. now rewrite map_app, concat_app. Qed.

Lemma render_chfs_ok l : Forall kn l -> render_chfs l = Ok (jtail (chf_toks l)).
Proof.
  induction 1 as [|[c v] r Hk _ IH]; [reflexivity|].
  unfold kn, known in Hk. cbn [fst] in Hk. cbn [render_chfs chf_toks flat_map fst snd].
  destruct (chf_width c) as [w|]; [|discriminate]. rewrite IH. fold (chf_toks r).
  cbn [app]. rewrite !jtail_cons. reflexivity.
Qed.

Definition chf_fact (e : str * nat) : bool :=
  name_ok (upper (fst e)) && str_eqb (lower (upper (fst e))) (fst e) && negb (str_eqb (fst e) SIZE).
Lemma table_facts : forallb chf_fact chf_table = true.
Proof. vm_compute. reflexivity. Qed.
Lemma assoc_in {B} k (l : list (str * B)) v : assoc k l = Some v -> In (k, v) l.
Proof.
  induction l as [|[k' v'] l IH]; cbn; [discriminate|].
  destruct (str_eqb k k') eqn:E; intro H.
  - apply str_eqb_eq in E. subst. injection H as ->. now left.
  - right. now apply IH.
Qed.
Lemma known_facts c w : chf_width c = Some w ->
  name_ok (upper c) = true /\ lower (upper c) = c /\ str_eqb c SIZE = false.
Proof.
  intro H. apply assoc_in in H. pose proof table_facts as F. rewrite forallb_forall in F.
  specialize (F _ H). unfold chf_fact in F. cbn [fst] in F.
  apply andb_true_iff in F as [F F3]. apply andb_true_iff in F as [F1 F2].
  apply str_eqb_eq in F2. apply negb_true_iff in F3. auto.
Qed.

Lemma name_ok_digits b ds : (b = 10 \/ b = 16) -> ds <> [] -> Forall (fun d => d < b) ds ->
  name_ok (map digit_char ds) = true.
Proof.
  intros Hb Hne Hall. apply name_ok_spec. split; [destruct ds; [congruence|discriminate]|].
  pose proof (digit_chars_facts b ds Hb Hall) as F. unfold nospace. apply forallb_forall.
  intros c Hc. rewrite Forall_forall in F. destruct (F c Hc) as (_ & _ & _ & _ & Hs). now rewrite Hs.
Qed.

Lemma name_ok_rjust w n : name_ok (rjust0 w (hex n)) = true.
Proof.
  destruct (hex_digits_ok n) as (Hne & Hlt & _). rewrite rjust_as_digits.
  apply (name_ok_digits 16); [now right| |].
  - destruct (repeat 0 (w - length (hex n))); cbn; [exact Hne|discriminate].
  - apply Forall_app. split; [|exact Hlt]. apply Forall_forall. intros x Hx. apply repeat_spec in Hx. lia.
Qed.

Lemma name_ok_dec n : name_ok (dec n) = true.
Proof.
  unfold dec, to_base. destruct (N.eqb_spec n 0) as [->|Hn]; [reflexivity|].
  apply (name_ok_digits 10); [now left| |].
  - intro E. apply (f_equal (@rev N)) in E. rewrite rev_involutive in E. cbn in E.
    eapply digits_lsb_nonempty; [exact Hn| |exact E].
    destruct n as [|p]; [congruence|]. cbn. pose proof (Pos2Nat.is_pos (Pos.size p)). lia.
  - apply Forall_rev. apply digits_lsb_lt. lia.
Qed.

Lemma chf_toks_ok l : Forall kn l -> Forall (fun t => name_ok t = true) (chf_toks l).
Proof.
  induction 1 as [|[c v] r Hk _ IH]; [constructor|].
  unfold kn, known in Hk. cbn [fst] in Hk. cbn [chf_toks flat_map fst snd].
  destruct (chf_width c) as [w|] eqn:E; [|discriminate].
  destruct (known_facts c w E) as (H1 & _ & _).
  cbn [app]. constructor; [exact H1|]. constructor; [apply name_ok_rjust|exact IH].
Qed.

Lemma chf_toks_even l : Forall kn l -> Nat.even (length (chf_toks l)) = true.
Proof.
  induction 1 as [|[c v] r Hk _ IH]; [reflexivity|].
  unfold kn, known in Hk. cbn [fst] in Hk. cbn [chf_toks flat_map fst snd].
  destruct (chf_width c) as [w|]; [|discriminate]. cbn [app length]. exact IH.
Qed.

Definition zc (e : str * N) : str * Z := (fst e, Z.of_N (snd e)).

Lemma conv_pairs_ok l : forall acc, Forall kn l -> NoDup (map fst l) ->
  (forall c, In c (map fst l) -> ~ In c (map fst acc)) ->
  conv_pairs (chf_toks l) acc = Some (acc ++ map zc l).
Proof.
  induction l as [|[c v] r IH]; intros acc Hk Hnd Hfresh.
  - cbn. now rewrite app_nil_r.
  - inversion Hk as [|? ? Hc Hr]; subst. unfold kn, known in Hc. cbn [fst] in Hc.
    cbn [chf_toks flat_map fst snd]. destruct (chf_width c) as [w|] eqn:E; [|discriminate].
    destruct (known_facts c w E) as (_ & H2 & H3). fold (chf_toks r).
    cbn [app conv_pairs]. rewrite H2, H3, py_int_hex.
    cbn [map] in Hnd. inversion Hnd as [|? ? Hn Hnr]; subst.
    rewrite dset_fresh by (apply Hfresh; now left).
    rewrite IH; [|exact Hr|exact Hnr|].
    + rewrite <- app_assoc. reflexivity.
    + intros c' Hc' Hin. rewrite map_app in Hin. apply in_app_or in Hin as [Hin|Hin].
      * eapply Hfresh; [right; exact Hc'|exact Hin].
      * cbn in Hin. destruct Hin as [<-|[]]. exact (Hn Hc').
Qed.

(* facts about one entry drawn from chks_ok *)
Lemma mem_In x l : mem x l = true <-> In x l.
Proof.
  unfold mem. rewrite existsb_exists. split.
  - intros [y [Hy E]]. apply str_eqb_eq in E. now subst.
  - intro H. exists x. split; [exact H|apply str_eqb_refl].
Qed.
Lemma nodupb_NoDup l : nodupb l = true -> NoDup l.
Proof.
  induction l as [|x r IH]; cbn; intro H; constructor.
  - apply andb_true_iff in H as [H _]. apply negb_true_iff in H. intro Hin. apply mem_In in Hin. congruence.
  - apply andb_true_iff in H as [_ H]. now apply IH.
Qed.

Lemma insert_perm {A} (key : A -> str) x l : Permutation (insert key x l) (x :: l).
Proof.
  induction l as [|y l IH]; cbn; [reflexivity|].
  destruct (str_leb (key x) (key y)); [reflexivity|].
  rewrite IH. apply perm_swap.
Qed.
Lemma sort_by_permutation {A} (key : A -> str) l : Permutation (sort_by key l) l.
Proof. induction l as [|x l IH]; cbn; [reflexivity|]. rewrite insert_perm. now constructor. Qed.

Definition sorted_chfs (ck : chks) : chks := sort_by fst (filter not_size ck).
Lemma sorted_chfs_facts ck : chks_ok ck = true ->
  (exists sz, assoc SIZE ck = Some sz) /\ Forall kn (sorted_chfs ck) /\ NoDup (map fst (sorted_chfs ck)) /\
  (forall c, In c (map fst (sorted_chfs ck)) -> c <> SIZE).
Proof.
  unfold chks_ok. intro H. apply andb_true_iff in H as [H H3]. apply andb_true_iff in H as [H1 H2].
  assert (Hperm : Permutation (sorted_chfs ck) (filter not_size ck)) by apply sort_by_permutation.
  split; [|split; [|split]].
  - unfold has_key in H1. destruct (assoc SIZE ck) as [sz|]; [eauto|discriminate].
  - eapply Permutation_Forall; [symmetry; exact Hperm|]. apply Forall_forall. intros e He.
    apply filter_In in He as [He Hs]. rewrite forallb_forall in H2. specialize (H2 e He).
    unfold not_size in Hs. apply negb_true_iff in Hs. rewrite Hs in H2. exact H2.
  - eapply Permutation_NoDup; [symmetry; apply Permutation_map; exact Hperm|].
    apply nodupb_NoDup in H3. clear -H3. induction ck as [|e ck IH]; cbn; [constructor|].
    cbn in H3. inversion H3 as [|? ? Hn Hr]; subst. destruct (not_size e); [|now apply IH].
    cbn. constructor; [|now apply IH]. intro Hin. apply Hn. apply in_map_iff in Hin as [e' [E He']].
    apply filter_In in He' as [He' _]. rewrite <- E. now apply in_map.
  - intros c Hc. apply in_map_iff in Hc as [e [<- He]]. eapply Permutation_in in He; [|exact Hperm].
    apply filter_In in He as [_ Hs]. unfold not_size in Hs. apply negb_true_iff in Hs.
    intro E. rewrite E, str_eqb_refl in Hs. discriminate.
Qed.

Definition line_toks (name : str) (ck : chks) : list str :=
  name :: dec (size_of ck) :: chf_toks (sorted_chfs ck).

Lemma manifest_line_ok ty name ck : chks_ok ck = true ->
  manifest_line ty name ck = Ok ((upper ty ++ jtail (line_toks name ck)) ++ [10]).
Proof.
  intro H. destruct (sorted_chfs_facts ck H) as ([sz Hsz] & Hk & _ & _).
  unfold manifest_line, line_toks, size_of. rewrite Hsz. fold (sorted_chfs ck).
  rewrite (render_chfs_ok _ Hk). f_equal.
  rewrite !jtail_cons. repeat (rewrite <- ?app_assoc; cbn [app]; try reflexivity).
Qed.

Lemma has_key_app {B} n (d : list (str * B)) k v : has_key n (d ++ [(k, v)]) = has_key n d || str_eqb n k.
Proof.
  unfold has_key. induction d as [|[k' v'] d IH]; cbn.
  - destruct (str_eqb n k); reflexivity.
  - destruct (str_eqb n k'); [reflexivity|exact IH].
Qed.

Lemma parse_entry_ok d ty name ck : name_ok name = true -> chks_ok ck = true -> has_key name d = false ->
  parse_entry d (ty :: line_toks name ck) = Some (d ++ [(name, canon_chks ck)]).
Proof.
  intros Hn Hc Hfresh. destruct (sorted_chfs_facts ck Hc) as (_ & Hk & Hnd & Hns).
  unfold line_toks, parse_entry. rewrite (chf_toks_even _ Hk), Hfresh, py_int_dec.
  rewrite conv_pairs_ok; [reflexivity|exact Hk|exact Hnd|].
  intros c Hin [E|[]]. cbn in E. exact (Hns c Hin (eq_sym E)).
Qed.

(* ================================================================ one section *)
Record sel := Sel { s_ty : str; s_get : pm -> list pentry; s_set : pm -> list pentry -> pm }.
Definition sel_ok (S : sel) : Prop :=
  (forall m toks, parse_line m (s_ty S :: toks)
                  = option_map (s_set S m) (parse_entry (s_get S m) (s_ty S :: toks))) /\
  (forall m d, s_get S (s_set S m d) = d) /\
  (forall m d d', s_set S (s_set S m d) d' = s_set S m d') /\
  (forall m, s_set S m (s_get S m) = m) /\
  upper (s_ty S) = s_ty S /\ name_ok (s_ty S) = true.

Definition sel_dist := Sel T_DIST p_dist (fun m d => Pm d (p_aux m) (p_ebuild m) (p_misc m)).
Definition sel_aux := Sel T_AUX p_aux (fun m d => Pm (p_dist m) d (p_ebuild m) (p_misc m)).
Definition sel_ebuild := Sel T_EBUILD p_ebuild (fun m d => Pm (p_dist m) (p_aux m) d (p_misc m)).
Definition sel_misc := Sel T_MISC p_misc (fun m d => Pm (p_dist m) (p_aux m) (p_ebuild m) d).

Ltac sel_tac := repeat split; try reflexivity; try (intros [? ? ? ?]; reflexivity).
Lemma sel_dist_ok : sel_ok sel_dist. Proof. sel_tac. Qed.
Lemma sel_aux_ok : sel_ok sel_aux. Proof. sel_tac. Qed.
Lemma sel_ebuild_ok : sel_ok sel_ebuild. Proof. sel_tac. Qed.
Lemma sel_misc_ok : sel_ok sel_misc. Proof. sel_tac. Qed.

Definition efact (e : entry) : Prop := name_ok (fst e) = true /\ chks_ok (snd e) = true.
Definition canon_e (e : entry) : pentry := (fst e, canon_chks (snd e)).

Lemma section_parse (S : sel) (Hok : sel_ok S) : forall L,
  Forall efact L -> NoDup (map fst L) ->
  exists t, concat_res (map (fun e => manifest_line (s_ty S) (fst e) (snd e)) L) = Ok t /\
    forall rest m, (forall n, In n (map fst L) -> has_key n (s_get S m) = false) ->
      parse_lines m (lines_aux [] (t ++ rest))
      = parse_lines (s_set S m (s_get S m ++ map canon_e L)) (lines_aux [] rest).
Proof.
  destruct Hok as (Hpl & Hgs & Hss & Hsg & Hup & Hty).
  induction L as [|[name ck] L IH]; intros Hall Hnd.
  - exists []. split; [reflexivity|]. intros rest m _. cbn [map app]. now rewrite app_nil_r, Hsg.
  - inversion Hall as [|? ? [Hn Hc] Hr]; subst. cbn [fst snd] in Hn, Hc.
    cbn [map] in Hnd. inversion Hnd as [|? ? Hnin Hndr]; subst.
    destruct (IH Hr Hndr) as (t' & Ht' & Hparse).
    cbn [map concat_res fst snd]. rewrite (manifest_line_ok _ _ _ Hc), Ht', Hup.
    eexists. split; [reflexivity|]. intros rest m Hfresh.
    assert (Htoks : Forall (fun t => name_ok t = true) (line_toks name ck)).
    { destruct (sorted_chfs_facts ck Hc) as (_ & Hk & _ & _).
      unfold line_toks. constructor; [exact Hn|]. constructor; [apply name_ok_dec|now apply chf_toks_ok]. }
    assert (Hshape : forall (A t1 r1 : str), ((A ++ [10]) ++ t1) ++ r1 = A ++ 10 :: (t1 ++ r1))
      by (intros; rewrite <- !app_assoc; reflexivity).
    rewrite Hshape.
    rewrite lines_line.
    2:{ rewrite forallb_app, (jtail_no_nl _ Htoks). apply name_ok_spec in Hty as [_ Hty].
        now rewrite (tok_no_nl _ Hty). }
    cbn [rev app parse_lines]. rewrite (split_line _ _ Hty Htoks), Hpl.
    rewrite parse_entry_ok; [|exact Hn|exact Hc|apply Hfresh; now left].
    cbn [option_map]. rewrite Hparse.
    + rewrite Hgs, Hss, <- app_assoc. reflexivity.
    + intros n Hin. rewrite Hgs, has_key_app, (Hfresh n (or_intror Hin)). cbn [orb].
      destruct (str_eqb n name) eqn:E; [|reflexivity]. apply str_eqb_eq in E. subst. contradiction.
Qed.
