"""C43 — config section inheritance resolves to the nearest definition (DESIGN §6 C43).

Streams
  collapse   random inheritance forests over 2-6 section names spread over 1-3 config sources
             (later sources override, self-inherits continue in the earlier source), ~35% with one
             injected defect (cycle, missing target, impossible self-inherit, diamond, inherit-only)
               impl ConfigManager.collapse_named_section  vs  Model_C43.collapse          (A)
               impl result vs Spec_C43 level order (in Coq) and a direct level-order reference (B)
Keys are typed: w, x str; y bool; z list.  The value code 0 stands for the FALSY value of the key's type
("" / False / []), codes 1..99 for truthy ones ("07" / True / ["07"]); ~30% of the settings are falsy, so
"nearer falsy, farther truthy" definitions of one key are common.  Sections without a class are built at
random as HardCodedConfigSection (typed python values) or ConfigSectionFromStringDict ("no"/"yes", "", "07").
"""

import re
import signal

from .common import Check, Err, Raw, impl_call
from .c42 import cres, cs

IMPORTS = ("From Coq Require Import List NArith ZArith Bool.\n"
           "From Verif Require Import Base.Val C42.Model_C42 C43.Model_C43 C43.Spec_C43.")
ANCHORS = ["config/central.py::ConfigManager._get_inherited_sections",
           "config/central.py::ConfigManager.collapse_section",
           "config/central.py::ConfigManager.collapse_named_section",
           "config/central.py::ConfigManager._integrate_config_source",
           "config/central.py::ConfigManager._render_config_stack",
           "config/central.py::_ConfigStack"]
NAMES = "abcdef"
KEYS = "wxyz"


# --------------------------------------------------------------------------- generator
class Sec:
    __slots__ = ("inh", "cls", "ionly", "kv", "flavor")

    def __init__(self):
        self.inh, self.cls, self.ionly, self.kv = None, None, None, {}
        self.flavor = "h"        # "h" HardCodedConfigSection, "s" ConfigSectionFromStringDict (driver only)

    def text(self, name):
        return "%s,%s,%s%s,%s" % (
            name, "-" if self.inh is None else "".join(self.inh),
            "-" if self.cls is None else str(self.cls),
            "-" if self.ionly is None else ("t" if self.ionly else "f"),
            "".join(k + "%02d" % v for k, v in self.kv.items()))


def gen_env(rng, big=False):
    """-> (env: list of {name: Sec}, defect kind or None)"""
    ns = rng.randint(1, 3)
    names = rng.sample(NAMES, rng.randint(2, 6 if big else 5))
    env = [dict() for _ in range(ns)]
    val = [0]

    def newsec():
        s = Sec()
        for k in KEYS:
            if rng.random() < 0.45:
                if rng.random() < 0.3:
                    s.kv[k] = 0                      # the falsy value of the key's type
                elif k == "y":
                    s.kv[k] = 1                      # bool: True
                else:
                    val[0] = val[0] % 99 + 1         # 1..99
                    s.kv[k] = val[0]
        return s

    where = {}
    for n in names:
        srcs = sorted(rng.sample(range(ns), rng.randint(1, min(ns, 3 if rng.random() < 0.3 else 2))))
        where[n] = srcs
        for si in srcs:
            env[si][n] = newsec()
    claimed = set()
    edges = []
    for idx, n in enumerate(names):
        levels = list(reversed(where[n]))          # latest source first = top of the stack
        reachable = True
        for li, si in enumerate(levels):
            s = env[si][n]
            inh = []
            cands = [m for m in names[idx + 1:] if m not in claimed]
            rng.shuffle(cands)
            for m in cands[: rng.choice((0, 1, 1, 2, 3))]:
                if reachable:
                    claimed.add(m)
                    edges.append((n, si, m))
                    inh.append(m)
            self_inh = li + 1 < len(levels) and rng.random() < 0.6
            if self_inh:
                inh.insert(rng.randint(0, len(inh)), n)
                if rng.random() < 0.1:
                    inh.insert(rng.randint(0, len(inh)), n)      # self-inherit twice
            reachable = reachable and self_inh
            s.inh = inh if (inh or rng.random() < 0.5) else None
            if rng.random() < (0.65 if li == 0 else 0.3):
                s.cls = rng.randint(0, 1)
            if rng.random() < 0.08:
                s.ionly = rng.random() < 0.5
    defect = None
    if rng.random() < 0.35:
        defect = rng.choice(("cycle", "cycle", "missing", "missing", "badself", "diamond", "ionly"))
        n = rng.choice(names)
        si = rng.choice(where[n])
        s = env[si][n]
        inh = list(s.inh or [])
        if defect == "cycle" and edges:
            p, psi, c = rng.choice(edges)
            tgt = rng.choice([p, names[0]])
            s = env[where[c][-1]][c]
            inh = list(s.inh or [])
            inh.insert(rng.randint(0, len(inh)), tgt)
            s.inh = inh
        elif defect == "missing":
            inh.insert(rng.randint(0, len(inh)), rng.choice("xy"))
            s.inh = inh
        elif defect == "badself":
            s = env[where[n][0]][n]                  # bottom of the stack
            inh = list(s.inh or [])
            inh.insert(rng.randint(0, len(inh)), n)
            s.inh = inh
        elif defect == "diamond" and claimed:
            inh.insert(rng.randint(0, len(inh)), rng.choice(sorted(claimed)))
            s.inh = inh
        elif defect == "ionly":
            env[where[n][-1]][n].ionly = True
    for src in env:
        for sec in src.values():
            if sec.cls is None and rng.random() < 0.4:
                sec.flavor = "s"
    return env, defect


def case_text(env, query):
    return "|".join(";".join(s.text(n) for n, s in src.items()) for src in env) + "@" + "".join(query)


# --------------------------------------------------------------------------- implementation driver
def canon_value(k, v):
    """rendered value -> two characters: "00" = the falsy value of the key's type, else the code"""
    if k == "y":
        return {False: "00", True: "01"}.get(v, "?b") if isinstance(v, bool) else "?b"
    if k == "z":
        if isinstance(v, (list, tuple)) and all(isinstance(i, str) and len(i) == 2 for i in v) and len(v) <= 1:
            return v[0] if v else "00"
        return "?l"
    if isinstance(v, str) and len(v) in (0, 2):
        return v or "00"
    return "?s"


class Impl:
    def __init__(self):
        from pkgcore.config import basics, central, errors
        from pkgcore.config.hint import configurable

        @configurable(types={"y": "bool", "z": "list"}, allow_unknowns=True, typename="c0")
        def cls0(**kw):
            return kw

        @configurable(types={"y": "bool", "z": "list"}, allow_unknowns=True, typename="c1")
        def cls1(**kw):
            return kw

        self.classes = (cls0, cls1)
        self.basics, self.central, self.errors = basics, central, errors

    def manager(self, env):
        srcs = []
        for src in env:
            d = {}
            for n, s in src.items():
                sd = {}
                if s.flavor == "s" and s.cls is None:
                    if s.inh is not None:
                        sd["inherit"] = " ".join(s.inh)
                    if s.ionly is not None:
                        sd["inherit-only"] = "true" if s.ionly else "false"
                    for k, v in s.kv.items():
                        sd[k] = ({"y": "yes" if v else "no"}.get(k, "%02d" % v if v else ""))
                    d[n] = self.basics.ConfigSectionFromStringDict(sd)
                    continue
                if s.inh is not None:
                    sd["inherit"] = list(s.inh)
                if s.cls is not None:
                    sd["class"] = self.classes[s.cls]
                if s.ionly is not None:
                    sd["inherit-only"] = s.ionly
                for k, v in s.kv.items():
                    sd[k] = bool(v) if k == "y" else (["%02d" % v] if v else []) if k == "z" else ("%02d" % v if v else "")
                d[n] = self.basics.HardCodedConfigSection(sd)
            srcs.append(d)
        return self.central.ConfigManager(srcs)

    def collapse(self, mgr, name):
        """-> canonical text: 'c<cls><vals>' or 'E<kind>[name]'"""
        def alarm(*_):
            raise TimeoutError("collapse did not terminate")
        old = signal.signal(signal.SIGALRM, alarm)
        signal.alarm(10)
        try:
            c = mgr.collapse_named_section(name)
            cls = self.classes.index(c.type.callable) if c.type.callable in self.classes else 9
            extra = sorted(set(c.config) - set(KEYS))
            return "c%d" % cls + "".join(canon_value(k, c.config[k]) if k in c.config else "--" for k in KEYS) \
                   + ("+" + ",".join(extra) if extra else "")
        except self.errors.ConfigurationError as e:
            msgs = []
            while e is not None:
                msgs.append(str(e))
                e = e.__cause__
            last = msgs[-1]
            for pat, code in ((r"Self-inherit '(.)' cannot be found", "Es"), (r"Inherit '(.)' is recursive", "Er"),
                              (r"Inherit target '(.)' cannot be found", "Em")):
                m = re.fullmatch(pat, last)
                if m:
                    return code + m.group(1)
            for pat, code in ((r"no section called '.'", "En"), (r"cannot collapse inherit-only section", "Ei"),
                              (r"no class specified", "Ec")):
                if re.fullmatch(pat, last):
                    return code
            return "E?" + last[:60]
        except TimeoutError:
            return "T"
        except RecursionError:
            return "R"
        except MemoryError:
            return "M"
        finally:
            signal.alarm(0)
            signal.signal(signal.SIGALRM, old)


# --------------------------------------------------------------------------- direct reference (B, Python)
def reference(env, name):
    """The statement, directly: level order over the inheritance tree, nearest definition wins.
    -> 'ok:<text>' | 'error' (cycle / missing target / no such section / inherit-only / no class)
       | 'diamond' (a name inherited twice without a cycle: outside the property's quantifier)"""
    def stack(n):
        return [src[n] for src in reversed(env) if n in src]
    st = stack(name)
    if not st or st[0].ionly is True:
        return "error"
    level = [(name, st, (name,))]
    order, seen, diamond = [], {name}, False
    while level:
        order += level
        nxt = []
        for n, stk, anc in level:
            for i in (stk[0].inh or []):
                if i == n:
                    if len(stk) == 1:
                        return "error"
                    nxt.append((n, stk[1:], anc))
                else:
                    if i in anc:
                        return "error"
                    tgt = stack(i)
                    if not tgt:
                        return "error"
                    if i in seen:
                        diamond = True
                    seen.add(i)
                    nxt.append((i, tgt, anc + (i,)))
        level = nxt
    if diamond:
        return "diamond"
    cls = next((s[0].cls for _, s, _ in order if s[0].cls is not None), None)
    if cls is None:
        return "error"
    out = "c%d" % cls
    shadow = False
    for k in KEYS:
        defs = [s[0].kv[k] for _, s, _ in order if k in s[0].kv]
        # the NEAREST definition wins whatever its value (0 = the falsy value of the key's type)
        out += "--" if not defs else "%02d" % defs[0]
        if defs and defs[0] == 0 and any(defs[1:]):
            shadow = True
    return "ok:" + out, len(order), shadow


def main(chk: Check):
    chk.rule("inheritance forests over 2-6 names in 1-3 config sources: every name has at most one parent, "
             "sections of the same name in earlier sources are reached by self-inherit, inherit lists shuffled; "
             "~35% of the environments get one defect (back edge = cycle, missing target, self-inherit at the "
             "bottom of a stack, second parent = diamond, inherit-only top section); every name plus an absent "
             "one is collapsed; keys are typed (str, str, bool, list) and ~30% of the settings carry the falsy "
             "value of their type; non-trivial = a collapse whose level order has >= 3 sections or in which a "
             "falsy nearest definition shadows a truthy farther one, or a reported cycle/missing target")
    ok = chk.build(["C43/Prop_C43.vo"])
    if ok:
        chk.check_assumptions("C43/Prop_C43.v")
    chk.lint(["C43"])
    chk.check_fingerprint(ANCHORS)

    impl = Impl()
    rng = chk.rng
    cases, py_bad, diamonds, shadows = [], [], 0, 0
    kinds = {}
    from .common import VERIF
    import json
    corpus = [json.loads(p.read_text()) for p in sorted((VERIF / "corpus" / "C43").glob("*.json"))]
    n_env = chk.n(260, 4000)
    for i in range(len(corpus) + n_env):
        if i < len(corpus):
            env = []
            for src in corpus[i]["env"]:
                d = {}
                for n, f in src.items():
                    s = Sec()
                    s.inh, s.cls, s.ionly, s.kv = f["inh"], f["cls"], f["ionly"], dict(f["kv"])
                    s.flavor = f.get("flavor", "h")
                    d[n] = s
                env.append(d)
            defect = "corpus"
        else:
            env, defect = gen_env(rng, big=(i % 4 == 0))
        present = sorted({n for src in env for n in src})
        query = present + ["g"]
        mgr = impl_call(lambda: impl.manager(env))
        if isinstance(mgr, Err):
            res = ["X" + mgr.kind] * len(query)
        else:
            res = [impl.collapse(mgr, n) for n in query]
        txt = case_text(env, query)
        cases.append((cs(txt), "|".join(res), txt))
        for n, r in zip(query, res):
            ref = reference(env, n)
            kinds[r[:2] if r[0] == "E" else r[0]] = kinds.get(r[:2] if r[0] == "E" else r[0], 0) + 1
            if ref == "diamond":
                diamonds += 1
                continue
            if ref == "error":
                good = r.startswith("E") and not r.startswith("E?")
                if r[:2] in ("Er", "Em", "Es"):
                    chk.nontrivial((txt, n))
            else:
                good = r == ref[0][3:]
                if good and (ref[1] >= 3 or ref[2]):
                    chk.nontrivial((txt, n))
                if ref[2]:
                    shadows += 1
            if not good:
                py_bad.append({"env": [{n_: {"inh": s.inh, "cls": s.cls, "ionly": s.ionly, "kv": s.kv, "flavor": s.flavor}
                                        for n_, s in src.items()} for src in env],
                               "collapse": n, "implementation": r,
                               "reference": ref if isinstance(ref, str) else ref[0], "case_text": txt})
    chk.count("collapse", sum(len(c[1].split("|")) for c in cases))
    chk.note(f"{diamonds} collapses met a diamond (a name inherited twice without a cycle; reported as "
             "'recursive' by the code); outside the property's tree-shaped/cyclic quantifier, not compared with the reference")
    chk.cov["result_kinds"] = kinds
    chk.cov["falsy_nearest_shadows_truthy_farther"] = shadows
    for c in cases[:: max(1, len(cases) // 3)][:3]:
        chk.sample({"case": c[2], "impl": c[1]})

    a_bad, b_bad = [], []
    if ok:
        r = chk.coq_eval("collapse", IMPORTS, "bstr", [(c[0], Raw(cres(c[1]))) for c in cases],
                         ["mismatches run_collapse cases",
                          "where_ (fun i r => negb (spec_collapse_ok i r)) cases"], shard=150)
        if r is not None:
            a_bad = [cases[i] for i in r[0]]
            b_bad = [cases[i] for i in r[1]]

    for b in py_bad[:3]:
        chk.violation("property", {"what": "collapsed section differs from the nearest definition in level order "
                                           "(value codes: 00 = the falsy value of the key's type: '' / False / []; "
                                           "or a cycle / missing target was not reported)", "input": b})
    if b_bad and not py_bad:
        for c in b_bad[:3]:
            chk.violation("property", {"what": "Spec_C43 (level order, nearest definition) rejects the implementation's result",
                                       "input": {"case_text": c[2]}, "implementation": c[1]})
    for c in a_bad[:3]:
        chk.violation("correspondence",
                      {"what": "implementation and Model_C43 disagree (theorems of Prop_C43 no longer speak about this code)",
                       "input": {"case_text": c[2]}, "implementation": c[1]},
                      no_input=not (py_bad or b_bad))


def replay(chk, data):
    inp = data.get("detail", {}).get("input", {})
    txt = inp.get("case_text")
    if not txt:
        print("no replayable input in this record")
        return
    envt, query = txt.split("@")
    env = []
    for st in envt.split("|"):
        d = {}
        for sec in filter(None, st.split(";")):
            n, inh, ci, kvs = sec.split(",")
            s = Sec()
            s.inh = None if inh == "-" else list(inh)
            s.cls = None if ci[0] == "-" else int(ci[0])
            s.ionly = {"-": None, "t": True, "f": False}[ci[1]]
            s.kv = {kvs[i]: int(kvs[i + 1:i + 3]) for i in range(0, len(kvs), 3)}
            d[n] = s
        env.append(d)
    impl = Impl()
    mgr = impl.manager(env)
    res = [impl.collapse(mgr, n) for n in query]
    print("implementation:", res)
    print("reference     :", [reference(env, n) for n in query])
    r = chk.coq_eval("replay", IMPORTS, "bstr", [(cs(txt), Raw(cres("|".join(res))))],
                     ["mismatches run_collapse cases", "where_ (fun i r => negb (spec_collapse_ok i r)) cases"])
    print("model agrees with implementation:", r is not None and not r[0])
    print("spec accepts implementation     :", r is not None and not r[1])
