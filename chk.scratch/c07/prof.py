import sys, time, shutil, subprocess, glob, os
from harness.common import Check
import harness.c07 as m
chk = Check("C07", "quick")
import shutil as sh
orig = sh.rmtree
m.main(chk)
print(chk.cov.get("phase_s"))
d = "/verif/chk.scratch/c07/cases"
shutil.rmtree(d, ignore_errors=True)
shutil.copytree(chk.scratch, d)
for f in sorted(glob.glob(d + "/cases_*.v")):
    t = time.time()
    r = subprocess.run(["coqc", "-R", "/verif/coq", "Verif", "-Q", d, "Cases", f], capture_output=True, text=True, cwd=d)
    print(os.path.basename(f), os.path.getsize(f), round(time.time() - t, 1), r.returncode)
