(* Missing_C25.v — contentsSet.add_missing_directories adds exactly the missing ancestors.
   The list-level facts about the ascending loop are C22's (coq/C22/Proofs_C22.v: missing_dirs_inv,
   missing_core), transported to the C25 entry type through a structure-forgetting map [conv];
   the path functions of the two developments are the same terms (equal by reflexivity). *)
From Coq Require Import List NArith ZArith Bool Arith Lia Permutation.
Import ListNotations.
From Verif Require Import Base.Val C25.Path_C25 C25.Model_C25 C25.Spec_C25 C25.SpecExt_C25 C25.Proofs_C25.
From Verif Require C22.Model_C22 C22.Spec_C22 C22.Proofs_C22.
Module M22 := Verif.C22.Model_C22.
Module S22 := Verif.C22.Spec_C22.
Module P22 := Verif.C22.Proofs_C22.

Lemma normpath_eq : M22.normpath = normpath. Proof. reflexivity. Qed.
Lemma dirname_eq : M22.dirname = dirname. Proof. reflexivity. Qed.
Lemma sdedupe_eq : M22.sdedupe = sdedupe. Proof. reflexivity. Qed.
Lemma smem_eq : M22.smem = smem. Proof. reflexivity. Qed.

Definition conv (e : entry) : M22.entry :=
  {| M22.eloc := loc e; M22.ekind := kind_id (knd e); M22.etag := 0%N |}.

Lemma dhas_conv k d : M22.dhas k (map conv d) = dhas k d.
Proof. unfold M22.dhas, dhas. induction d as [|e r IH]; cbn; [reflexivity|]. rewrite IH. reflexivity. Qed.

Lemma ascend_conv fuel : forall d t m, M22.ascend fuel (map conv d) t m = ascend fuel d t m.
Proof.
  induction fuel as [|f IH]; intros d t m; cbn [M22.ascend ascend]; [reflexivity|].
  rewrite dhas_conv, smem_eq, normpath_eq, dirname_eq.
  destruct (smem t m || dhas (normpath t) d); [reflexivity|apply IH].
Qed.

Lemma walk_conv d l : forall m,
  P22.walk (map conv d) l m = fold_left (fun m x => ascend (S (S (length x))) d (dirname x) m) l m.
Proof.
  unfold P22.walk. induction l as [|x r IH]; intros m; cbn [fold_left]; [reflexivity|].
  rewrite ascend_conv, dirname_eq. apply IH.
Qed.

Lemma m0_conv d :
  M22.sdedupe (filter (fun x => negb (M22.dhas (M22.normpath x) (map conv d)))
                      (map (fun e => M22.dirname (M22.eloc e)) (map conv d)))
  = sdedupe (filter (fun x => negb (dhas (normpath x) d)) (map (fun e => dirname (loc e)) d)).
Proof.
  rewrite sdedupe_eq, map_map. f_equal. apply filter_ext. intros x. rewrite dhas_conv. reflexivity.
Qed.

Lemma missing_dirs_conv d : M22.missing_dirs (map conv d) = missing_dirs d.
Proof.
  unfold M22.missing_dirs, missing_dirs. rewrite m0_conv.
  change (fold_left (fun m x => M22.ascend (S (S (length x))) (map conv d) (M22.dirname x) m))
    with (P22.walk (map conv d)).
  rewrite walk_conv. reflexivity.
Qed.

Lemma anc_from22 p a : S22.ancestor p a -> ancestor p a.
Proof. induction 1; [apply anc_parent|apply anc_up; assumption]. Qed.
Lemma anc_to22 p a : ancestor p a -> S22.ancestor p a.
Proof. induction 1; [apply S22.anc_parent|apply S22.anc_up; assumption]. Qed.

Definition normal_locs (d : dict) : Prop := forall e, In e d -> normpath (loc e) = loc e.

Lemma wf_conv d : NoDup (map loc d) -> normal_locs d -> S22.wf_dict (map conv d).
Proof.
  intros ND HN. split.
  - rewrite map_map. exact ND.
  - apply Forall_forall. intros e' He'. apply in_map_iff in He' as (e & <- & He).
    unfold S22.wf_entry. cbn. apply HN. exact He.
Qed.

(* soundness: whatever is found missing is an absent proper ancestor other than "/" *)
Lemma missing_sound_list d x : In x (missing_dirs d) ->
  x <> [SL] /\ dhas (normpath x) d = false /\ exists e, In e d /\ ancestor (loc e) x.
Proof.
  intros Hx. destruct (P22.missing_dirs_inv (map conv d)) as [Hinv Hroot].
  rewrite missing_dirs_conv in Hinv, Hroot. unfold P22.minv in Hinv. rewrite Forall_forall in Hinv.
  destruct (Hinv x Hx) as (H1 & e' & He' & Ha). rewrite dhas_conv in H1.
  apply in_map_iff in He' as (e & <- & He). split; [|split].
  - intros ->. apply Hroot. exact Hx.
  - exact H1.
  - exists e. split; [exact He|]. apply anc_from22. exact Ha.
Qed.

(* completeness: every proper ancestor other than "/" is found missing or is there already *)
Lemma missing_complete_list d : NoDup (map loc d) -> normal_locs d ->
  forall e a, In e d -> ancestor (loc e) a -> a <> [SL] ->
  In a (missing_dirs d) \/ dhas (normpath a) d = true.
Proof.
  intros ND HN e a He Ha Hroot.
  pose proof (P22.missing_core (map conv d) (wf_conv d ND HN) (conv e) a (in_map conv d e He)
                (anc_to22 _ _ Ha)) as C.
  rewrite m0_conv, walk_conv in C. destruct C as [C|C].
  - left. unfold missing_dirs. apply filter_In. split; [exact C|].
    apply negb_true_iff. apply str_eqb_false. exact Hroot.
  - right. rewrite dhas_conv in C. exact C.
Qed.

(* ------------------------------------------------------------------ dict facts *)
Lemma in_dset x e d : In x (dset e d) -> x = e \/ In x d.
Proof.
  induction d as [|y r IH]; cbn; [intros [<-|[]]; auto|].
  destruct (str_eqb (loc y) (loc e)); cbn; intros [<-|H]; auto. destruct (IH H); auto.
Qed.
Lemma in_dupdate l : forall d x, In x (dupdate d l) -> In x d \/ In x l.
Proof.
  induction l as [|e r IH]; intros d x H; cbn in *; [auto|].
  destruct (IH _ _ H) as [H1|H1]; [|auto]. destruct (in_dset _ _ _ H1); subst; auto.
Qed.
Lemma keys_dset e d k : In k (map loc (dset e d)) <-> k = loc e \/ In k (map loc d).
Proof.
  induction d as [|y r IH]; cbn; [intuition|].
  destruct (str_eqb (loc y) (loc e)) eqn:E; cbn.
  - apply str_eqb_eq in E. rewrite E. intuition.
  - rewrite IH. intuition.
Qed.
Lemma keys_dupdate l : forall d k, In k (map loc (dupdate d l)) <-> In k (map loc d) \/ In k (map loc l).
Proof.
  induction l as [|e r IH]; intros d k; cbn; [intuition|].
  change (fold_left (fun acc e0 => dset e0 acc) r (dset e d)) with (dupdate (dset e d) r).
  rewrite IH, keys_dset. intuition.
Qed.
Lemma nodup_dset e d : NoDup (map loc d) -> NoDup (map loc (dset e d)).
Proof.
  induction d as [|y r IH]; cbn; intros H; [repeat constructor; auto|].
  inversion H as [|? ? Hy Hr]; subst. destruct (str_eqb (loc y) (loc e)) eqn:E; cbn.
  - apply str_eqb_eq in E. rewrite <- E. constructor; assumption.
  - constructor; [|auto]. rewrite keys_dset. intros [K|K]; [|auto].
    apply str_eqb_neq in E. congruence.
Qed.
Lemma nodup_dupdate l : forall d, NoDup (map loc d) -> NoDup (map loc (dupdate d l)).
Proof. induction l as [|e r IH]; intros d H; cbn; [exact H|]. apply IH. apply nodup_dset. exact H. Qed.
Lemma stay_dset x e d : In x d -> loc e <> loc x -> In x (dset e d).
Proof.
  induction d as [|y r IH]; cbn; [tauto|]. intros [->|H] N.
  - rewrite str_eqb_false by congruence. left. reflexivity.
  - destruct (str_eqb (loc y) (loc e)); [right; exact H|right; auto].
Qed.
Lemma stay_dupdate l : forall d x, In x d -> (forall y, In y l -> loc y <> loc x) -> In x (dupdate d l).
Proof.
  induction l as [|e r IH]; intros d x H N; cbn; [exact H|]. apply IH.
  - apply stay_dset; [exact H|apply N; left; reflexivity].
  - intros y Hy. apply N. right. exact Hy.
Qed.

(* ------------------------------------------------------------------ add_missing_directories, exactly *)
Lemma add_missing_exact d : NoDup (map loc d) -> normal_locs d ->
  NoDup (map loc (add_missing d))
  /\ (forall e, In e d -> In e (add_missing d))
  /\ (forall e', In e' (add_missing d) ->
        In e' d \/ exists x, e' = new_dir x /\ x <> [SL] /\ ~ In (normpath x) (map loc d)
                             /\ exists e, In e d /\ ancestor (loc e) x)
  /\ (forall e a, In e d -> ancestor (loc e) a -> a <> [SL] -> In (normpath a) (map loc (add_missing d))).
Proof.
  intros ND HN. unfold add_missing. split; [|split; [|split]].
  - apply nodup_dupdate. exact ND.
  - intros e He. apply stay_dupdate; [exact He|]. intros y Hy E.
    apply in_map_iff in Hy as (x & <- & Hx). destruct (missing_sound_list d x Hx) as (_ & H & _).
    cbn in E. assert (dhas (normpath x) d = true) by (apply dhas_in; rewrite E; apply in_map; exact He).
    congruence.
  - intros e' H. destruct (in_dupdate _ _ _ H) as [H1|H1]; [left; exact H1|right].
    apply in_map_iff in H1 as (x & <- & Hx). destruct (missing_sound_list d x Hx) as (R & A & B).
    exists x. repeat split; auto. intro K. apply dhas_in in K. congruence.
  - intros e a He Ha Hr. apply keys_dupdate.
    destruct (missing_complete_list d ND HN e a He Ha Hr) as [M|M].
    + right. rewrite map_map. cbn. apply in_map_iff. exists a. split; [reflexivity|exact M].
    + left. apply dhas_in. exact M.
Qed.
