(* Grammar_C03.v — acceptance by the model of atom.__init__ versus the PMS grammar recogniser.
   Soundness (accepted => grammatical) outside the recorded classes, stage by stage:
   USE block, repo, slot, blocker, operator, cpv. *)
From Coq Require Import List NArith ZArith Bool Arith Lia.
Import ListNotations.
From Verif Require Import Base.Val gen.Tables_eapi gen.Tables_C03 C03.Model_C03 C03.Spec_C03
  C03.Proofs_C03 C03.Version_C03 C03.UseDep_C03.
Local Open Scope N_scope.

Definition no_upper (v : str) : bool := forallb (fun c => negb (s_upper c)) v.

(* ---------------------------------------------------------------- split_last *)
Lemma split_last_spec c s p q : split_last c s = Some (p, q) -> s = p ++ c :: q /\ ~ In c q.
Proof.
  revert p q; induction s as [|x t IH]; intros p q; cbn; [discriminate|].
  destruct (split_last c t) as [[p' q']|] eqn:E.
  - intros H; injection H as <- <-. destruct (IH _ _ eq_refl) as [-> Hq]. split; [reflexivity | exact Hq].
  - destruct (N.eqb_spec x c) as [->|]; [|discriminate]. intros H; injection H as <- <-.
    split; [reflexivity|]. clear IH. revert E. induction t as [|y t IH]; [intros _ []|].
    cbn. destruct (split_last c t) as [[? ?]|]; [discriminate|].
    destruct (N.eqb_spec y c); [discriminate|]. intros _ [H|H]; [congruence | now apply IH].
Qed.

Lemma split_last_none c s : ~ In c s -> split_last c s = None.
Proof.
  induction s as [|x t IH]; intros Hn; cbn; [reflexivity|].
  rewrite IH by (intros H; apply Hn; now right).
  destruct (N.eqb_spec x c) as [->|]; [exfalso; apply Hn; now left | reflexivity].
Qed.

Lemma split_last_app c p q : ~ In c q -> split_last c (p ++ c :: q) = Some (p, q).
Proof.
  intros Hq. induction p as [|x p IH]; cbn.
  - rewrite (split_last_none _ _ Hq). now rewrite N.eqb_refl.
  - now rewrite IH.
Qed.

Lemma hyphen_cuts_in p q : In (p, q) (hyphen_cuts (p ++ 45 :: q)).
Proof.
  induction p as [|x p IH]; cbn [app hyphen_cuts].
  - rewrite N.eqb_refl. now left.
  - apply in_or_app. right. apply in_map_iff. exists (p, q). split; [reflexivity | exact IH].
Qed.

Lemma hyphen_cuts_spec s p q : In (p, q) (hyphen_cuts s) -> s = p ++ 45 :: q.
Proof.
  revert p; induction s as [|x t IH]; intros p; cbn [hyphen_cuts]; [intros []|].
  intros H. apply in_app_or in H as [H|H].
  - destruct (N.eqb_spec x 45) as [->|]; [|destruct H]. destruct H as [H|[]]. now injection H as <- <-.
  - apply in_map_iff in H as ([p' q'] & E & Hin). cbn [fst snd] in E. injection E as <- <-.
    now rewrite (IH _ Hin).
Qed.

Lemma in_removelast {A} (x : A) l : In x (removelast l) -> In x l.
Proof.
  induction l as [|a l IH]; [intros []|]. cbn [removelast]. destruct l as [|b l']; [intros []|].
  intros [->|H]; [now left | right; now apply IH].
Qed.

(* ---------------------------------------------------------------- characters a version cannot contain *)
Definition ver_foreign (c : N) : bool :=
  negb (is_digit c) && negb (c =? c_dot) && negb (c =? c_us) && negb (in_ranges ver_letter_class c)
  && forallb (fun n => negb (existsb (N.eqb c) n)) suffix_names && negb (c =? c_nl).

Section Foreign.
  Variable c : N.
  Hypothesis Hc : ver_foreign c = true.

  Let Hc_digit : is_digit c = false.
  Proof. unfold ver_foreign in Hc. repeat (apply andb_true_iff in Hc as [Hc ?]). now apply negb_true_iff. Qed.
  Let Hc_dot : c <> c_dot.
  Proof. unfold ver_foreign in Hc. repeat (apply andb_true_iff in Hc as [Hc ?]).
         match goal with H : negb (c =? c_dot) = true |- _ => apply negb_true_iff, N.eqb_neq in H; exact H end. Qed.
  Let Hc_us : c <> c_us.
  Proof. unfold ver_foreign in Hc. repeat (apply andb_true_iff in Hc as [Hc ?]).
         match goal with H : negb (c =? c_us) = true |- _ => apply negb_true_iff, N.eqb_neq in H; exact H end. Qed.
  Let Hc_nl : c <> c_nl.
  Proof. unfold ver_foreign in Hc. repeat (apply andb_true_iff in Hc as [Hc ?]).
         match goal with H : negb (c =? c_nl) = true |- _ => apply negb_true_iff, N.eqb_neq in H; exact H end. Qed.
  Let Hc_letter : in_ranges ver_letter_class c = false.
  Proof. unfold ver_foreign in Hc. repeat (apply andb_true_iff in Hc as [Hc ?]).
         match goal with H : negb (in_ranges _ c) = true |- _ => now apply negb_true_iff in H end. Qed.
  Let Hc_names : forall n, In n suffix_names -> ~ In c n.
  Proof.
    unfold ver_foreign in Hc. repeat (apply andb_true_iff in Hc as [Hc ?]).
    match goal with H : forallb _ suffix_names = true |- _ => rename H into Hn end.
    intros n Hin Hcn. rewrite forallb_forall in Hn. specialize (Hn _ Hin). apply negb_true_iff in Hn.
    assert (existsb (N.eqb c) n = true) by (apply existsb_exists; exists c; split; [exact Hcn | apply N.eqb_refl]).
    congruence.
  Qed.

  Lemma ver_full_foreign v : ver_full v = true -> ~ In c v.
  Proof.
    unfold ver_full. destruct (ver_nums _ v) as [r|] eqn:En; [|discriminate]. intros Hs.
    apply nums_sound in En as (comps & Hne & Hall & Hv & Hr).
    intros Hin. rewrite Hv in Hin. apply in_app_or in Hin as [Hin|Hin].
    - exact (join_digits_no c comps Hc_digit Hc_dot Hall Hin).
    - assert (Hr' : In c (ver_letter r)).
      { unfold ver_letter. destruct r as [|x t]; [exact Hin|].
        destruct (in_ranges ver_letter_class x) eqn:Ex; [|exact Hin].
        destruct Hin as [->|Hin]; [congruence | exact Hin]. }
      clear Hin. revert Hr' Hs. generalize (ver_letter r) as w. generalize (length v) as fuel.
      induction fuel as [|f IH]; intros w Hin; destruct w as [|x t]; cbn [ver_sufs];
        try (destruct Hin; fail); try discriminate.
      destruct (N.eqb_spec x c_us) as [->|]; [|discriminate].
      destruct (strip_any suffix_names t) as [r2|] eqn:E; [|discriminate].
      apply strip_any_spec in E as (n & Hn & ->). intros H.
      destruct Hin as [Hin|Hin]; [congruence|].
      apply in_app_or in Hin as [Hin|Hin]; [exact (Hc_names _ Hn Hin)|].
      rewrite (take_drop is_digit r2) in Hin. apply in_app_or in Hin as [Hin|Hin].
      + exact (digits_no c _ Hc_digit (take_wh_all is_digit r2) Hin).
      + exact (IH _ Hin H).
  Qed.

  Lemma m_version_foreign v : m_version v = true -> ~ In c v.
  Proof.
    unfold m_version. intros H. pose proof (ver_full_foreign _ H) as Hs.
    destruct (strip_nl_cases v) as [E|E]; rewrite E; [exact Hs|].
    intros Hin. apply in_app_or in Hin as [Hin|[Hin|[]]]; [exact (Hs Hin) | congruence].
  Qed.
End Foreign.

(* ---------------------------------------------------------------- package names *)
Lemma pkg_chunk_chars ch : ~ In c_nl ch -> pkg_chunk_ok ch = true -> forallb s_pkg_char ch = true.
Proof.
  intros Hn. unfold pkg_chunk_ok, m_pkg_chunk_re, re_plus. rewrite (strip_nl_id _ Hn).
  destruct ch as [|x t]; [reflexivity|]. cbn [is_nil orb]. unfold all_in. intros H.
  apply forallb_forall. intros y Hy. rewrite forallb_forall in H. specialize (H _ Hy).
  rewrite cls_pkg in H. now apply andb_true_iff in H as [H _].
Qed.

Lemma rev_is_pms r : isvalid_rev r = pms_revision r.
Proof.
  unfold isvalid_rev, pms_revision, digits1, nonempty. destruct r as [|c t]; [reflexivity|].
  change c_r with 114. destruct (c =? 114); [|reflexivity]. cbn [andb]. destruct t; reflexivity.
Qed.

Lemma name_sound name :
  ~ In c_nl name -> valid_pkg_name (split_on c_dash name) = true -> pms_pkg_name name = true.
Proof.
  intros Hn H. apply pkg_name_boundary_proof in H as ((x & t & Hname & Hxd & Hxp) & Hall & Hnv & Hnr).
  unfold pms_pkg_name. apply andb_true_iff. split; [apply andb_true_iff; split|].
  - apply forallb_forall. intros y Hy. rewrite <- (join_split_on c_dash name) in Hy.
    apply in_join in Hy as [->|(ch & Hch & Hy)]; [reflexivity|].
    rewrite forallb_forall in Hall. specialize (Hall _ Hch).
    assert (Hnc : ~ In c_nl ch) by (intros Hin; apply Hn; exact (split_on_chars _ _ _ _ Hch Hin)).
    pose proof (pkg_chunk_chars _ Hnc Hall) as Hc. rewrite forallb_forall in Hc. now apply Hc.
  - rewrite Hname. unfold first_not. cbn [existsb]. rewrite orb_false_r.
    apply negb_true_iff, orb_false_iff. split; apply N.eqb_neq; assumption.
  - apply negb_true_iff. destruct (existsb _ _) eqn:E; [|reflexivity]. exfalso.
    apply existsb_exists in E as ([p suf] & Hin & Hv). cbn [snd] in Hv.
    apply hyphen_cuts_spec in Hin. unfold pms_version_rev in Hv.
    change 45 with c_dash in *.
    destruct (split_first c_dash suf) as [[v r]|] eqn:Es.
    + apply split_first_spec in Es as [-> _]. apply andb_true_iff in Hv as [Hv Hr].
      apply Hnr. exists p, v, r. split; [exact Hin|]. split.
      * now apply (proj2 version_agree_proof).
      * now rewrite rev_is_pms.
    + apply Hnv. exists p, suf. split; [exact Hin | now apply (proj2 version_agree_proof)].
Qed.

(* ---------------------------------------------------------------- the shape of an accepted cpv *)
Definition cpv_shape (vd : bool) (s : str) (c : cpv_rec) : Prop :=
  exists cat pkgver,
    s = cat ++ c_slash :: pkgver /\ ~ In c_slash pkgver /\ m_category cat = true /\
    if vd then
      exists name v, valid_pkg_name (split_on c_dash name) = true /\ m_version v = true /\ c_ver c = Some v
                     /\ ((pkgver = name ++ c_dash :: v /\ c_rev c = Some [])
                         \/ (exists r, pkgver = name ++ c_dash :: v ++ c_dash :: r /\ isvalid_rev r = true
                                       /\ nonempty_opt (c_rev c) = true))
    else valid_pkg_name (split_on c_dash pkgver) = true.

Lemma cpv_structure vd s c : parse_cpv vd s = Some c -> cpv_shape vd s c.
Proof.
  unfold parse_cpv. destruct (split_last c_slash s) as [[cat pkgver]|] eqn:Esl; [|discriminate].
  apply split_last_spec in Esl as [-> Hsl].
  destruct (m_category cat) eqn:Ec; cbn [negb]; [|discriminate].
  pose proof (join_split_on c_dash pkgver) as Hj.
  assert (Hnosep : forall x, In x (split_on c_dash pkgver) -> ~ In c_dash x) by (intros x; apply split_on_no_sep).
  destruct vd.
  - destruct (split_on c_dash pkgver) as [|c0 [|c1 rest]] eqn:Ech; [discriminate | discriminate|].
    set (chunks := c0 :: c1 :: rest) in *.
    assert (Hsn : chunks = removelast chunks ++ [last chunks []]) by (apply list_snoc; discriminate).
    assert (Hrl : removelast chunks <> []) by (unfold chunks; cbn; destruct rest; discriminate).
    assert (Hpk : forall pk, pk <> [] -> (forall x, In x pk -> In x chunks) ->
                             valid_pkg_name pk = true -> valid_pkg_name (split_on c_dash (join c_dash pk)) = true).
    { intros pk Hne Hsub Hv. rewrite split_on_join; [exact Hv | exact Hne|].
      intros x Hx. apply Hnosep, Hsub, Hx. }
    destruct (isvalid_rev (last chunks [])) eqn:Er.
    + destruct (length chunks <? 3)%nat eqn:El; [discriminate|]. apply Nat.ltb_ge in El.
      set (rc := removelast chunks) in *.
      destruct (m_version (last rc [])) eqn:Ev; cbn [negb]; [|discriminate].
      destruct (valid_pkg_name (removelast rc)) eqn:Ep; [|discriminate].
      intros H; injection H as <-.
      assert (Hsn2 : rc = removelast rc ++ [last rc []]) by (apply list_snoc; exact Hrl).
      assert (Hrl2 : removelast rc <> []).
      { intros E0. rewrite E0 in Hsn2. rewrite Hsn2 in Hsn. rewrite Hsn in El. cbn in El. lia. }
      exists cat, pkgver. split; [reflexivity|]. split; [exact Hsl|]. split; [exact Ec|].
      exists (join c_dash (removelast rc)), (last rc []). split; [|split; [exact Ev | split; [reflexivity|]]].
      * apply Hpk; [exact Hrl2 | | exact Ep].
        intros x Hx. apply in_removelast. fold rc. now apply in_removelast.
      * right. exists (last chunks []). split; [|split; [exact Er|]].
        -- rewrite <- Hj. rewrite Hsn at 1. rewrite (join_snoc _ _ _ Hrl). fold rc.
           rewrite Hsn2 at 1. rewrite (join_snoc _ _ _ Hrl2). now rewrite <- app_assoc.
        -- change (nonempty_opt (Some (tl (last chunks []))) = true).
           unfold isvalid_rev in Er. destruct (last chunks []) as [|x t]; [discriminate|].
           cbn [tl]. destruct t; [|reflexivity]. cbn in Er. now rewrite andb_false_r in Er.
    + destruct (m_version (last chunks [])) eqn:Ev; cbn [negb]; [|discriminate].
      destruct (valid_pkg_name (removelast chunks)) eqn:Ep; [|discriminate].
      intros H; injection H as <-.
      exists cat, pkgver. split; [reflexivity|]. split; [exact Hsl|]. split; [exact Ec|].
      exists (join c_dash (removelast chunks)), (last chunks []).
      split; [|split; [exact Ev | split; [reflexivity|]]].
      * apply Hpk; [exact Hrl | | exact Ep]. intros x Hx. now apply in_removelast.
      * left. split; [|reflexivity]. rewrite <- Hj. rewrite Hsn at 1. now apply join_snoc.
  - destruct (valid_pkg_name (split_on c_dash pkgver)) eqn:Ep; [|discriminate].
    intros _. exists cat, pkgver. split; [reflexivity|]. split; [exact Hsl|]. split; [exact Ec | exact Ep].
Qed.

Lemma cat_sound cat : ~ In c_nl cat -> m_category cat = true -> pms_category cat = true /\ ~ In c_slash cat.
Proof.
  intros Hn H. rewrite (proj1 charsets_agree_proof _ Hn) in H. split; [exact H|].
  unfold pms_category in H. apply andb_true_iff in H as [H _]. intros Hin.
  rewrite forallb_forall in H. specialize (H _ Hin). vm_compute in H. discriminate.
Qed.

Lemma cpv_unversioned_sound s c :
  ~ In c_nl s -> parse_cpv false s = Some c -> pms_unversioned s = true.
Proof.
  intros Hn H. apply cpv_structure in H as (cat & pkgver & -> & Hsl & Hc & Hp).
  destruct (cat_sound cat (not_in_app_l _ _ _ Hn) Hc) as [Hcat Hcs].
  unfold pms_unversioned. change 47 with c_slash. rewrite (split_first_app _ _ _ Hcs), Hcat. cbn [andb].
  apply name_sound; [|exact Hp]. intros Hin. apply Hn, in_or_app. right. now right.
Qed.

Lemma cpv_versioned_sound s c :
  ~ In c_nl s -> parse_cpv true s = Some c ->
  (forall v, c_ver c = Some v -> no_upper v = true) ->
  pms_versioned true s = true /\ (nonempty_opt (c_rev c) = false -> pms_versioned false s = true).
Proof.
  intros Hn H Hup. apply cpv_structure in H as (cat & pkgver & -> & Hsl & Hc & name & v & Hp & Hv & Ever & Hshape).
  destruct (cat_sound cat (not_in_app_l _ _ _ Hn) Hc) as [Hcat Hcs].
  assert (Hnp : ~ In c_nl pkgver) by (intros Hin; apply Hn, in_or_app; right; now right).
  unfold pms_versioned. change 47 with c_slash. rewrite (split_first_app _ _ _ Hcs), Hcat. cbn [andb].
  specialize (Hup _ Ever).
  assert (Hvd : ~ In c_dash v) by now apply m_version_no_dash.
  destruct Hshape as [[-> Erev] | (r & -> & Hr & Erev)].
  - assert (Hnn : ~ In c_nl name) by exact (not_in_app_l _ _ _ Hnp).
    assert (Hnv : ~ In c_nl v) by (intros Hin; apply Hnp, in_or_app; right; now right).
    assert (Hpv : pms_version_rev v = true).
    { unfold pms_version_rev. change 45 with c_dash.
      rewrite (proj2 (split_first_none c_dash v) Hvd).
      now rewrite <- (proj1 version_agree_proof v Hnv Hup). }
    assert (Hhr : has_revision v = false).
    { unfold has_revision. change 45 with c_dash. now rewrite (proj2 (split_first_none c_dash v) Hvd). }
    assert (Hw : forall b, existsb (fun pq => pms_pkg_name (fst pq) && pms_version_rev (snd pq)
                                             && (b || negb (has_revision (snd pq))))
                                  (hyphen_cuts (name ++ c_dash :: v)) = true).
    { intros b. apply existsb_exists. exists (name, v). split; [apply hyphen_cuts_in|].
      cbn [fst snd]. rewrite (name_sound _ Hnn Hp), Hpv, Hhr. cbn. now rewrite orb_true_r. }
    split; [apply Hw | intros _; apply Hw].
  - assert (Hnn : ~ In c_nl name) by exact (not_in_app_l _ _ _ Hnp).
    assert (Hnv : ~ In c_nl v).
    { intros Hin. apply Hnp, in_or_app. right. right. apply in_or_app. now left. }
    split; [|rewrite Erev; discriminate].
    apply existsb_exists. exists (name, v ++ c_dash :: r). split; [apply hyphen_cuts_in|].
    cbn [fst snd]. rewrite (name_sound _ Hnn Hp). cbn [andb orb]. rewrite andb_true_r.
    unfold pms_version_rev. change 45 with c_dash. rewrite (split_first_app _ _ _ Hvd).
    rewrite <- (proj1 version_agree_proof v Hnv Hup), Hv. cbn [andb]. now rewrite <- rev_is_pms.
Qed.

(* ---------------------------------------------------------------- "::" search *)
Lemma sd_none s : ~ In c_colon s -> split_dcolon s = None.
Proof.
  induction s as [|x t IH]; intros Hn; cbn [split_dcolon]; [reflexivity|].
  destruct t as [|y t']; [reflexivity|].
  destruct (N.eqb_spec x c_colon) as [->|]; [exfalso; apply Hn; now left|]. cbn [andb].
  rewrite IH; [reflexivity | intros H; apply Hn; now right].
Qed.

Lemma sd_cons x y t :
  split_dcolon (x :: y :: t)
  = if (x =? c_colon) && (y =? c_colon) then Some ([], t)
    else match split_dcolon (y :: t) with Some (p, q) => Some (x :: p, q) | None => None end.
Proof. reflexivity. Qed.

Lemma sd_app l x :
  ~ In c_colon l ->
  split_dcolon (l ++ x) = match split_dcolon x with Some (a, b) => Some (l ++ a, b) | None => None end.
Proof.
  induction l as [|y l IH]; intros Hn; cbn [app].
  - destruct (split_dcolon x) as [[a b]|]; reflexivity.
  - assert (Hy : (y =? c_colon) = false) by (apply N.eqb_neq; intros ->; apply Hn; now left).
    assert (Hl : ~ In c_colon l) by (intros H; apply Hn; now right).
    destruct (l ++ x) as [|z t'] eqn:E.
    + destruct l; [|discriminate]. cbn in E. subst x. reflexivity.
    + rewrite sd_cons, Hy. cbn [andb]. rewrite (IH Hl).
      destruct (split_dcolon x) as [[a b]|]; reflexivity.
Qed.

(* ---------------------------------------------------------------- slot stage *)
Lemma features_sub_slot e f : features_of e = Some f -> f_subslot f = true -> f_slot f = true.
Proof.
  destruct e as [n|]; cbn [features_of].
  - destruct (n <=? pms_newest_eapi); [|discriminate]. intros H; injection H as <-. cbn.
    intros H. apply N.leb_le in H. apply N.leb_le. lia.
  - intros H; injection H as <-. reflexivity.
Qed.

Lemma chunk_sound c : slot_chunk_ok c = true -> hd 0 c <> c_plus -> pms_slot_name c = true.
Proof.
  intros H Hp. rewrite (proj2 (proj2 (proj2 charsets_agree_proof))) in H.
  apply orb_true_iff in H as [H|H]; [exact H|]. destruct c as [|x t]; [discriminate|].
  apply andb_true_iff in H as [H _]. apply N.eqb_eq in H. cbn in Hp. congruence.
Qed.

Lemma spec_slot_body s : s <> [] -> slot_strip_eq s = snd (slot_op_split s).
Proof.
  intros Hne. unfold slot_strip_eq, slot_op_split.
  destruct (lastc s) as [l|] eqn:El; [|destruct s; [congruence | discriminate]].
  apply lastc_some in El. rewrite El at 1. rewrite rev_app_distr. cbn [rev app].
  change 61 with c_eq. destruct (l =? c_eq); [cbn [snd]; now rewrite rev_involutive | reflexivity].
Qed.

Definition clean_slot (o : option str) : Prop := forall x, o = Some x -> hd 0 x <> c_plus.

Lemma slot_body_sound g f slot ro p :
  slot_body g slot ro = Some p ->
  g_sub_slotting g = f_subslot f -> g_slot_deps g = f_slot f -> (f_subslot f = true -> f_slot f = true) ->
  clean_slot (sp_slot p) -> clean_slot (sp_sub p) ->
  pms_slot_spec f slot = true.
Proof.
  unfold slot_body. destruct slot as [|c t]; [discriminate|]. intros H G5 G1 Hss.
  unfold pms_slot_spec. rewrite <- G5, <- G1. rewrite <- G5, <- G1 in Hss.
  destruct (g_sub_slotting g).
  - rewrite (Hss eq_refl). cbn [andb].
    destruct ((c =? c_star) || (c =? c_eq)) eqn:E.
    + destruct t; cbn [is_nil negb] in H; [|discriminate]. intros _ _.
      apply orb_true_iff. right. apply orb_true_iff. left.
      apply orb_true_iff in E as [E|E]; apply N.eqb_eq in E; subst c; reflexivity.
    + rewrite (spec_slot_body (c :: t)) by discriminate.
      revert H. set (so := slot_op_split (c :: t)). change 47 with c_slash.
      destruct (split_first c_slash (snd so)) as [[a b]|] eqn:Es.
      * destruct (slot_chunk_ok a) eqn:Ha; [|discriminate]. destruct (slot_chunk_ok b) eqn:Hb; [|discriminate].
        cbn [andb]. intros H; injection H as <-. cbn [sp_slot sp_sub]. intros C1 C2.
        rewrite (chunk_sound _ Ha (C1 _ eq_refl)), (chunk_sound _ Hb (C2 _ eq_refl)).
        cbn [andb]. now rewrite !orb_true_r.
      * destruct (slot_chunk_ok (snd so)) eqn:Ha; [|discriminate].
        intros H; injection H as <-. cbn [sp_slot sp_sub]. intros C1 _.
        rewrite (chunk_sound _ Ha (C1 _ eq_refl)). now rewrite !orb_true_r.
  - destruct (g_slot_deps g); cbn [negb] in H; [|discriminate].
    destruct (slot_chunk_ok (c :: t)) eqn:Ha; [|discriminate].
    injection H as <-. cbn [sp_slot sp_sub]. intros C1 _.
    now rewrite (chunk_sound _ Ha (C1 _ eq_refl)).
Qed.
