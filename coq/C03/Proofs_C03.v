(* Proofs_C03.v — lemmas and proofs for C03. *)
From Coq Require Import List NArith ZArith Bool Arith Lia.
Import ListNotations.
From Verif Require Import Base.Val gen.Tables_eapi gen.Tables_C03 C03.Model_C03 C03.Spec_C03.
Local Open Scope N_scope.

(* ================================================================ the gate table *)
(* the regenerated EAPI gate table realises the PMS feature matrix (re-checked on every build) *)
Definition gates_match (e : option N) : bool :=
  match gates_of e, features_of e with
  | Some g, Some f =>
      Bool.eqb (g_slot_deps g) (f_slot f) && Bool.eqb (g_use_deps g) (f_use f)
      && Bool.eqb (g_strong_blockers g) (f_strong f) && Bool.eqb (g_use_defaults g) (f_defaults f)
      && Bool.eqb (g_sub_slotting g) (f_subslot f)
  | None, None => true
  | _, _ => false
  end.

Lemma eapi_gate_table_is_pms_matrix_proof :
  forallb gates_match (None :: map Some (map fst eapi_options)) = true
  /\ map fst eapi_options = [0;1;2;3;4;5;6;7;8;9].
Proof. split; vm_compute; reflexivity. Qed.

(* ================================================================ string lemmas *)
Lemma split_first_spec c s p q :
  split_first c s = Some (p, q) -> s = p ++ c :: q /\ ~ In c p.
Proof.
  revert p q; induction s as [|x t IH]; intros p q H; cbn in H; [discriminate|].
  destruct (N.eqb_spec x c) as [->|Hne].
  - injection H as <- <-. split; [reflexivity | intros []].
  - destruct (split_first c t) as [[p' q']|] eqn:E; [|discriminate].
    injection H as <- <-. destruct (IH _ _ eq_refl) as [-> Hn].
    split; [reflexivity|]. intros [Hx|Hx]; [congruence | exact (Hn Hx)].
Qed.

Lemma split_first_app c p q :
  ~ In c p -> split_first c (p ++ c :: q) = Some (p, q).
Proof.
  induction p as [|x p IH]; intros Hn; cbn.
  - now rewrite N.eqb_refl.
  - destruct (N.eqb_spec x c) as [->|Hne]; [exfalso; apply Hn; now left|].
    rewrite IH; [reflexivity | intros Hx; apply Hn; now right].
Qed.

Lemma split_first_none c s : split_first c s = None <-> ~ In c s.
Proof.
  induction s as [|x t IH]; cbn; [tauto|].
  destruct (N.eqb_spec x c) as [->|Hne].
  - split; [discriminate | intros H; exfalso; apply H; now left].
  - destruct (split_first c t) as [[p q]|] eqn:E.
    + split; [discriminate|]. intros H. exfalso.
      assert (Hn : ~ In c t) by (intros Hx; apply H; now right).
      apply IH in Hn. discriminate.
    + split; [|reflexivity]. intros _ [Hx|Hx]; [congruence|].
      destruct IH as [IH1 _]. exact (IH1 eq_refl Hx).
Qed.

Lemma split_on_nonnil c s : split_on c s <> [].
Proof.
  destruct s as [|x t]; cbn; [discriminate|].
  destruct (x =? c); [discriminate|]. destruct (split_on c t); discriminate.
Qed.

Lemma split_on_no_sep c s x : In x (split_on c s) -> ~ In c x.
Proof.
  revert x; induction s as [|y t IH]; intros x; cbn.
  - intros [<-|[]] [].
  - destruct (N.eqb_spec y c) as [->|Hne].
    + intros [<-|Hx]; [intros [] | now apply IH].
    + destruct (split_on c t) as [|h r] eqn:E.
      * intros [<-|[]] [Hc|[]]. congruence.
      * intros [<-|Hx].
        -- intros [Hc|Hc]; [congruence|]. apply (IH h); [now left | exact Hc].
        -- apply IH. now right.
Qed.

Lemma join_split_on c s : join c (split_on c s) = s.
Proof.
  induction s as [|y t IH]; cbn; [reflexivity|].
  destruct (N.eqb_spec y c) as [->|Hne].
  - pose proof (split_on_nonnil c t) as Hn.
    destruct (split_on c t) as [|h r] eqn:E; [congruence|].
    cbn [join app]. cbn [join] in IH. now rewrite IH.
  - destruct (split_on c t) as [|h r] eqn:E; [exfalso; exact (split_on_nonnil c t E)|].
    destruct r as [|h2 r2]; cbn [join] in *; cbn; now rewrite <- IH.
Qed.

Lemma split_on_app_sep c a t :
  ~ In c a -> split_on c (a ++ c :: t) = a :: split_on c t.
Proof.
  induction a as [|x a IH]; intros Hn; cbn.
  - now rewrite N.eqb_refl.
  - destruct (N.eqb_spec x c) as [->|Hne]; [exfalso; apply Hn; now left|].
    rewrite IH; [reflexivity | intros Hx; apply Hn; now right].
Qed.

Lemma split_on_nosep c a : ~ In c a -> split_on c a = [a].
Proof.
  induction a as [|x a IH]; intros Hn; cbn; [reflexivity|].
  destruct (N.eqb_spec x c) as [->|Hne]; [exfalso; apply Hn; now left|].
  rewrite IH; [reflexivity | intros Hx; apply Hn; now right].
Qed.

Lemma split_on_join c l :
  l <> [] -> (forall x, In x l -> ~ In c x) -> split_on c (join c l) = l.
Proof.
  induction l as [|a r IH]; intros Hne Hall; [congruence|].
  destruct r as [|b r'].
  - cbn [join]. apply split_on_nosep. apply Hall. now left.
  - change (join c (a :: b :: r')) with (a ++ c :: join c (b :: r')).
    rewrite split_on_app_sep by (apply Hall; now left).
    f_equal. apply IH; [discriminate|]. intros x Hx. apply Hall. now right.
Qed.

Lemma in_join c l y : In y (join c l) -> y = c \/ exists x, In x l /\ In y x.
Proof.
  induction l as [|a r IH]; cbn [join]; [intros []|].
  destruct r as [|b r'].
  - intros H. right. exists a. split; [now left | exact H].
  - intros H. apply in_app_or in H as [H|[H|H]].
    + right. exists a. split; [now left | exact H].
    + now left.
    + destruct (IH H) as [->|[x [Hx Hy]]]; [now left|].
      right. exists x. split; [now right | exact Hy].
Qed.

(* ---- sorting *)
Lemma str_leb_total a b : str_leb a b = false -> str_leb b a = true.
Proof.
  revert b; induction a as [|x a IH]; intros [|y b]; cbn; try discriminate; try reflexivity.
  destruct (N.ltb_spec x y) as [H1|H1]; [discriminate|].
  destruct (N.ltb_spec y x) as [H2|H2]; [reflexivity|].
  intros H. destruct (N.ltb_spec y x); [lia|]. destruct (N.ltb_spec x y); [lia|]. now apply IH.
Qed.

Fixpoint sorted (l : list str) : Prop :=
  match l with
  | [] => True
  | x :: r => match r with [] => True | y :: _ => str_leb x y = true end /\ sorted r
  end.

Lemma insert_sorted_in x l y : In y (insert_sorted x l) <-> y = x \/ In y l.
Proof.
  induction l as [|z r IH]; cbn.
  - split; [intros [<-|[]]; now left | intros [->|[]]; now left].
  - destruct (str_leb x z); cbn.
    + split; [intros [<-|H]; [now left | now right] | intros [->|H]; [now left | now right]].
    + rewrite IH. split.
      * intros [<-|[->|H]]; [right; now left | now left | right; now right].
      * intros [->|[<-|H]]; [right; now left | now left | right; now right].
Qed.

Lemma sort_in l y : In y (sort_strs l) <-> In y l.
Proof.
  induction l as [|x r IH]; cbn; [tauto|].
  rewrite insert_sorted_in, IH. split; intros [H|H]; auto.
Qed.

Lemma insert_sorted_sorted x l : sorted l -> sorted (insert_sorted x l).
Proof.
  induction l as [|z r IH]; intros Hs; cbn; [auto|].
  destruct (str_leb x z) eqn:E.
  - cbn. split; [exact E | exact Hs].
  - destruct Hs as [Hz Hr]. specialize (IH Hr).
    cbn. split; [|exact IH].
    destruct r as [|w r']; cbn.
    + now apply str_leb_total.
    + destruct (str_leb x w); [now apply str_leb_total | exact Hz].
Qed.

Lemma sort_sorted l : sorted (sort_strs l).
Proof. induction l as [|x r IH]; cbn; [exact I | now apply insert_sorted_sorted]. Qed.

Lemma sort_of_sorted l : sorted l -> sort_strs l = l.
Proof.
  induction l as [|x r IH]; intros Hs; [reflexivity|].
  change (sort_strs (x :: r)) with (insert_sorted x (sort_strs r)).
  destruct Hs as [Hx Hr]. rewrite (IH Hr).
  destruct r as [|y r']; cbn; [reflexivity|]. now rewrite Hx.
Qed.

Lemma sort_idem l : sort_strs (sort_strs l) = sort_strs l.
Proof. apply sort_of_sorted, sort_sorted. Qed.

Lemma sort_nonnil l : l <> [] -> sort_strs l <> [].
Proof.
  destruct l as [|x r]; [congruence|]. intros _ H.
  assert (Hin : In x (sort_strs (x :: r))) by (apply sort_in; now left).
  rewrite H in Hin. exact Hin.
Qed.

(* ---- last / removelast *)
Lemma removelast_last_eq (s : str) : s <> [] -> s = removelast s ++ [last s 0].
Proof. apply app_removelast_last. Qed.

Lemma lastc_some s l : lastc s = Some l -> s = removelast s ++ [l].
Proof.
  destruct s as [|x t]; [discriminate|]. unfold lastc. intros H.
  assert (E : last (x :: t) 0 = l) by congruence. rewrite <- E.
  apply (app_removelast_last 0). discriminate.
Qed.

Lemma split_dcolon_spec s a r :
  split_dcolon s = Some (a, r) -> s = a ++ c_colon :: c_colon :: r.
Proof.
  revert a r; induction s as [|x t IH]; intros a r H; cbn in H; [discriminate|].
  destruct t as [|y t']; [discriminate|].
  destruct ((x =? c_colon) && (y =? c_colon)) eqn:E.
  - injection H as <- <-. apply andb_true_iff in E as [E1 E2].
    apply N.eqb_eq in E1, E2. now subst.
  - destruct (split_dcolon (y :: t')) as [[p q]|] eqn:E2; [|discriminate].
    injection H as <- <-. now rewrite (IH _ _ eq_refl).
Qed.

(* ================================================================ print . parse *)
Definition canon (s : str) : str :=
  match split_first c_lbr s with
  | Some (pre, post) =>
      pre ++ c_lbr :: join c_comma (sort_strs (split_on c_comma (removelast post))) ++ [c_rbr]
  | None => s
  end.

Lemma stage_op_print b st a2 b' st' op cpv :
  stage_op b st a2 = R3 b' st' op cpv ->
  b' = b /\ st' = st /\
  a2 = (if str_eqb op [c_eq; c_star] then c_eq :: cpv ++ [c_star] else op ++ cpv).
Proof.
  unfold stage_op. destruct a2 as [|d t2]; [discriminate|].
  destruct (N.eqb_spec d c_lt) as [->|Hlt]; cbn [orb].
  { destruct t2 as [|e t3]; [intros H; injection H as <- <- <- <-; repeat split|].
    destruct (N.eqb_spec e c_eq) as [->|He]; intros H; injection H as <- <- <- <-; repeat split. }
  destruct (N.eqb_spec d c_gt) as [->|Hgt]; cbn [orb].
  { destruct t2 as [|e t3]; [intros H; injection H as <- <- <- <-; repeat split|].
    destruct (N.eqb_spec e c_eq) as [->|He]; intros H; injection H as <- <- <- <-; repeat split. }
  destruct (N.eqb_spec d c_eq) as [->|Heq].
  { destruct (lastc (c_eq :: t2)) as [l|] eqn:El.
    - destruct (N.eqb_spec l c_star) as [->|Hs]; intros H; injection H as <- <- <- <-; repeat split.
      apply lastc_some in El. destruct t2 as [|y t']; [cbn in El; discriminate|].
      change (removelast (c_eq :: y :: t')) with (c_eq :: removelast (y :: t')) in El.
      exact El.
    - intros H; injection H as <- <- <- <-; repeat split. }
  destruct (N.eqb_spec d c_tilde) as [->|Ht].
  { intros H; injection H as <- <- <- <-; repeat split. }
  intros H; injection H as <- <- <- <-; repeat split.
Qed.

Lemma stage_prefix_print g l b st op cpv :
  stage_prefix g l = R3 b st op cpv -> l = p_head b st op cpv.
Proof.
  unfold stage_prefix, p_head. destruct l as [|c t]; [discriminate|].
  destruct (N.eqb_spec c c_bang) as [->|Hb].
  - destruct t as [|d t']; cbn [andb].
    + cbn. discriminate.
    + destruct (N.eqb_spec d c_bang) as [->|Hd].
      * cbn [andb negb]. destruct (g_strong_blockers g); cbn [negb]; [|discriminate].
        cbn [tl]. intros H. apply stage_op_print in H as (-> & -> & ->). reflexivity.
      * cbn [andb]. intros H. apply stage_op_print in H as (-> & -> & ->). reflexivity.
  - cbn [andb]. intros H. apply stage_op_print in H as (-> & -> & ->). reflexivity.
Qed.

Lemma slot_chunk_nonempty c : slot_chunk_ok c = true -> nonempty_opt (Some c) = true.
Proof. destruct c; [discriminate | reflexivity]. Qed.

Lemma p_slot_some a sub op :
  slot_chunk_ok a = true ->
  p_slot (Some a) sub op =
  c_colon :: a ++ (if nonempty_opt sub then c_slash :: opt_str sub else [])
    ++ (match op with Some o => if str_eqb o [c_eq] then o else [] | None => [] end).
Proof. intros H. unfold p_slot. now rewrite (slot_chunk_nonempty _ H). Qed.

Lemma slot_body_print g slot ro p :
  slot_body g slot ro = Some p ->
  p_slot (sp_slot p) (sp_sub p) (sp_op p) = c_colon :: slot /\ sp_repo p = ro.
Proof.
  unfold slot_body. destruct slot as [|c t]; [discriminate|].
  destruct (g_sub_slotting g).
  - destruct ((c =? c_star) || (c =? c_eq)) eqn:E.
    + destruct t; cbn [is_nil negb]; [|discriminate].
      intros H; injection H as <-. cbn. split; reflexivity.
    + assert (Hso : forall (o : option str) (body : str),
                 (match o with Some x => x = [c_eq] | None => True end) ->
                 c :: t = body ++ opt_str o ->
                 match split_first c_slash body with
                 | Some (a, b) =>
                     if slot_chunk_ok a && slot_chunk_ok b
                     then Some {| sp_slot := Some a; sp_sub := Some b; sp_op := o; sp_repo := ro |}
                     else None
                 | None =>
                     if slot_chunk_ok body
                     then Some {| sp_slot := Some body; sp_sub := None; sp_op := o; sp_repo := ro |}
                     else None
                 end = Some p ->
                 p_slot (sp_slot p) (sp_sub p) (sp_op p) = c_colon :: c :: t /\ sp_repo p = ro).
      { intros o body Ho Hb.
        destruct (split_first c_slash body) as [[a b]|] eqn:Es.
        - apply split_first_spec in Es as [-> _].
          destruct (slot_chunk_ok a) eqn:Ha; [|discriminate].
          destruct (slot_chunk_ok b) eqn:Hb'; [|discriminate].
          cbn [andb]. intros H; injection H as <-. cbn [sp_slot sp_sub sp_op sp_repo].
          split; [|reflexivity]. rewrite (p_slot_some _ _ _ Ha), (slot_chunk_nonempty _ Hb').
          rewrite Hb. cbn [opt_str]. rewrite <- !app_assoc. cbn [app].
          destruct o as [x|]; [subst x; reflexivity | reflexivity].
        - destruct (slot_chunk_ok body) eqn:Ha; [|discriminate].
          intros H; injection H as <-. cbn [sp_slot sp_sub sp_op sp_repo].
          split; [|reflexivity]. rewrite (p_slot_some _ _ _ Ha). cbn [nonempty_opt app].
          rewrite Hb. destruct o as [x|]; [subst x; reflexivity | reflexivity]. }
      unfold slot_op_split. destruct (lastc (c :: t)) as [l|] eqn:El.
      * destruct (N.eqb_spec l c_eq) as [->|Hl]; cbn [fst snd].
        -- apply Hso; [reflexivity|]. now apply lastc_some.
        -- apply Hso; [exact I|]. cbn [opt_str]. now rewrite app_nil_r.
      * cbn [fst snd]. apply Hso; [exact I|]. cbn [opt_str]. now rewrite app_nil_r.
  - destruct (g_slot_deps g); cbn [negb]; [|discriminate].
    destruct (slot_chunk_ok (c :: t)) eqn:Ha; [|discriminate].
    intros H; injection H as <-. cbn [sp_slot sp_sub sp_op sp_repo].
    split; [|reflexivity]. rewrite (p_slot_some _ _ _ Ha). cbn. now rewrite app_nil_r.
Qed.

Lemma stage_slot_print g rgt p :
  stage_slot g rgt = Some p ->
  p_slot (sp_slot p) (sp_sub p) (sp_op p) ++ p_repo (sp_repo p) = c_colon :: rgt.
Proof.
  unfold stage_slot.
  destruct (split_dcolon (c_colon :: rgt)) as [[a r]|] eqn:Ed; cbn [fst snd].
  - pose proof (split_dcolon_spec _ _ _ Ed) as Es.
    destruct (repo_ok (Some r)) eqn:Er; cbn [negb]; [|discriminate].
    destruct r as [|rc rt]; [discriminate|].
    destruct a as [|a0 a']; cbn [tl].
    + intros H; injection H as <-. cbn [sp_slot sp_sub sp_op sp_repo]. cbn. cbn in Es. congruence.
    + cbn in Es. injection Es as <- Es. destruct a' as [|c t].
      * exfalso. subst rgt. cbn in Ed. discriminate.
      * intros H. apply slot_body_print in H as [H1 H2]. rewrite H1, H2. subst rgt. reflexivity.
  - cbn [repo_ok negb tl]. destruct rgt as [|c t]; [discriminate|].
    intros H. apply slot_body_print in H as [H1 H2]. rewrite H1, H2. cbn. now rewrite app_nil_r.
Qed.

Lemma split_on_chars c s x y : In x (split_on c s) -> In y x -> In y s.
Proof.
  revert x; induction s as [|z t IH]; intros x; cbn.
  - intros [<-|[]] [].
  - destruct (N.eqb_spec z c) as [->|Hne].
    + intros [<-|Hx]; [intros [] | intros Hy; right; now apply (IH x)].
    + destruct (split_on c t) as [|h r] eqn:E.
      * intros [<-|[]] [<-|[]]. now left.
      * intros [<-|Hx].
        -- intros [<-|Hy]; [now left | right; apply (IH h); [now left | exact Hy]].
        -- intros Hy. right. apply (IH x); [now right | exact Hy].
Qed.

Lemma stage_use_facts g s body use colon :
  s <> [] ->
  stage_use g s = Some (body, use, colon) ->
  canon s = body ++ p_use use
  /\ canon s <> []
  /\ match colon with Some (l, r) => body = l ++ c_colon :: r | None => True end
  /\ stage_use g (canon s) = Some (body, use, colon).
Proof.
  intros Hne. unfold stage_use, canon.
  destruct (split_first c_lbr s) as [[pre post]|] eqn:E1.
  - destruct (split_first c_rbr post) as [[u tail]|] eqn:E2; [|discriminate].
    destruct tail as [|? ?]; cbn [is_nil negb]; [|discriminate].
    destruct (forallb (valid_use_dep (g_use_defaults g)) (sort_strs (split_on c_comma u))) eqn:Ev;
      [|discriminate].
    intros H; injection H as <- <- <-.
    apply split_first_spec in E1 as [-> Hpre]. apply split_first_spec in E2 as [-> Hu].
    rewrite removelast_last.
    set (us := sort_strs (split_on c_comma u)) in *.
    assert (Hus : us <> []) by (apply sort_nonnil, split_on_nonnil).
    assert (Hj : ~ In c_rbr (join c_comma us)).
    { intros Hin. apply in_join in Hin as [Hc|[x [Hx Hy]]]; [discriminate|].
      unfold us in Hx. apply (proj1 (sort_in _ _)) in Hx. apply Hu. exact (split_on_chars _ _ _ _ Hx Hy). }
    assert (Hsj : sort_strs (split_on c_comma (join c_comma us)) = us).
    { rewrite split_on_join; [apply sort_idem | exact Hus |].
      intros x Hx. unfold us in Hx. apply (proj1 (sort_in _ _)) in Hx. exact (split_on_no_sep _ _ _ Hx). }
    repeat split.
    + destruct us as [|u0 ur] eqn:Eus; [congruence|]. reflexivity.
    + destruct pre; discriminate.
    + destruct (split_first c_colon pre) as [[l r]|] eqn:E3; [|exact I].
      now apply split_first_spec in E3 as [-> _].
    + rewrite (split_first_app c_lbr pre _ Hpre).
      rewrite (split_first_app c_rbr _ [] Hj). cbn [is_nil negb].
      rewrite Hsj, Ev. reflexivity.
  - intros H; injection H as <- <- <-. cbn [p_use]. rewrite app_nil_r.
    repeat split; [exact Hne | | ].
    + destruct (split_first c_colon (removelast s)) as [[p q]|] eqn:E3; [|exact I].
      apply split_first_spec in E3 as [E3 _].
      rewrite (removelast_last_eq s Hne) at 1. rewrite E3. now rewrite <- app_assoc.
    + rewrite E1. reflexivity.
Qed.

Lemma parse_rest_print e n g body use colon a :
  match colon with Some (l, r) => body = l ++ c_colon :: r | None => True end ->
  parse_rest e n g (body, use, colon) = Ok a ->
  print_atom a = body ++ p_use use.
Proof.
  intros Hcol. unfold parse_rest.
  assert (Hmain : forall lft p,
     lft ++ p_slot (sp_slot p) (sp_sub p) (sp_op p) ++ p_repo (sp_repo p) = body ->
     match stage_prefix g lft with
     | R3Malformed => Malformed
     | R3 blocks strong op cpvstr =>
         if is_some (sp_slot p) && negb (g_slot_deps g) then Malformed
         else if is_some use && negb (g_use_deps g) then Malformed
         else if is_some e && is_some (sp_repo p) then Malformed
         else
           match parse_cpv (negb (is_nil op)) cpvstr with
           | None => Malformed
           | Some c =>
               if str_eqb op [c_tilde] && nonempty_opt (c_rev c) then Malformed
               else Ok {| a_cpvstr := cpvstr; a_cat := c_cat c; a_pkg := c_pkg c;
                          a_ver := c_ver c; a_rev := c_rev c; a_op := op;
                          a_blocks := blocks; a_strong := strong;
                          a_slot := sp_slot p; a_subslot := sp_sub p; a_slotop := sp_op p;
                          a_use := use; a_repo := sp_repo p; a_negate := n;
                          a_transitive := match use with
                                          | Some u => existsb is_transitive_dep u
                                          | None => false
                                          end |}
           end
     end = Ok a -> print_atom a = body ++ p_use use).
  { intros lft p Hb.
    destruct (stage_prefix g lft) as [b st op cpv|] eqn:Ep; try discriminate.
    destruct (is_some (sp_slot p) && negb (g_slot_deps g)); [discriminate|].
    destruct (is_some use && negb (g_use_deps g)); [discriminate|].
    destruct (is_some e && is_some (sp_repo p)); [discriminate|].
    destruct (parse_cpv (negb (is_nil op)) cpv) as [c|]; [|discriminate].
    destruct (str_eqb op [c_tilde] && nonempty_opt (c_rev c)); [discriminate|].
    intros H; injection H as <-. unfold print_atom.
    cbn [a_blocks a_strong a_op a_cpvstr a_slot a_subslot a_slotop a_repo a_use].
    rewrite <- (stage_prefix_print _ _ _ _ _ _ Ep). rewrite <- Hb.
    now rewrite <- !app_assoc. }
  destruct colon as [[l r]|].
  - destruct (stage_slot g r) as [p|] eqn:Es; [|discriminate].
    apply Hmain. rewrite (stage_slot_print _ _ _ Es). now symmetry.
  - apply Hmain. cbn. now rewrite app_nil_r.
Qed.

(* every accepted atom renders to text that parses back to the very same record *)
Lemma print_parse_roundtrip_proof :
  forall e n s a, parse_atom e n s = Ok a -> parse_atom e n (print_atom a) = Ok a.
Proof.
  intros e n s a. unfold parse_atom at 1.
  destruct s as [|x t] eqn:Es; [discriminate|]. rewrite <- Es.
  assert (Hne : s <> []) by (rewrite Es; discriminate).
  destruct (gates_of e) as [g|] eqn:Eg; [|discriminate].
  destruct (stage_use g s) as [[[body use] colon]|] eqn:Eu; [|discriminate].
  intros Hr.
  destruct (stage_use_facts _ _ _ _ _ Hne Eu) as (Hc & Hcn & Hcol & Hu).
  rewrite (parse_rest_print _ _ _ _ _ _ _ Hcol Hr), <- Hc.
  unfold parse_atom. rewrite Eg, Hu.
  destruct (canon s); [congruence | exact Hr].
Qed.

(* the rendered text is the input with its USE dependencies sorted *)
Lemma print_is_canon_proof :
  forall e n s a, parse_atom e n s = Ok a -> print_atom a = canon s.
Proof.
  intros e n s a. unfold parse_atom.
  destruct s as [|x t] eqn:Es; [discriminate|]. rewrite <- Es.
  assert (Hne : s <> []) by (rewrite Es; discriminate).
  destruct (gates_of e) as [g|] eqn:Eg; [|discriminate].
  destruct (stage_use g s) as [[[body use] colon]|] eqn:Eu; [|discriminate].
  intros Hr.
  destruct (stage_use_facts _ _ _ _ _ Hne Eu) as (Hc & Hcn & Hcol & Hu).
  now rewrite (parse_rest_print _ _ _ _ _ _ _ Hcol Hr), <- Hc.
Qed.

(* non-vacuity: concrete atoms that are accepted, what they render to, and that the hypothesis of the
   round-trip theorem is met by atoms using every feature *)
Example ex_parse_full :   (* !!>=dev-libs/foo-bar-1.2b_rc3-r4:2/3=[-x,b(+)?,a] under EAPI 5 *)
  exists a, parse_atom (Some 5) false [33;33;62;61;100;101;118;45;108;105;98;115;47;102;111;111;45;98;97;114;45;49;46;50;98;95;114;99;51;45;114;52;58;50;47;51;61;91;45;120;44;98;40;43;41;63;44;97;93] = Ok a
            /\ print_atom a = [33;33;62;61;100;101;118;45;108;105;98;115;47;102;111;111;45;98;97;114;45;49;46;50;98;95;114;99;51;45;114;52;58;50;47;51;61;91;45;120;44;97;44;98;40;43;41;63;93]      (* USE deps come back sorted *)
            /\ a_pkg a = [102;111;111;45;98;97;114] /\ a_ver a = Some [49;46;50;98;95;114;99;51] /\ a_rev a = Some [52]
            /\ a_slot a = Some [50] /\ a_subslot a = Some [51] /\ a_slotop a = Some [61]
            /\ a_strong a = true /\ a_transitive a = true.
Proof. eexists. vm_compute. repeat split; reflexivity. Qed.

Example ex_parse_repo :   (* =a/b-1*::gentoo with no EAPI; rejected under every numbered EAPI *)
  is_ok (parse_atom None false [61;97;47;98;45;49;42;58;58;103;101;110;116;111;111]) = true
  /\ forallb (fun e => negb (is_ok (parse_atom (Some e) false [61;97;47;98;45;49;42;58;58;103;101;110;116;111;111]))) [0;1;2;3;4;5;6;7;8;9] = true.
Proof. split; vm_compute; reflexivity. Qed.

(* ================================================================ character classes *)
Ltac bool_arith :=
  apply eq_true_iff_eq;
  repeat rewrite ?orb_false_r, ?orb_true_iff, ?andb_true_iff, ?negb_true_iff, ?orb_false_iff,
                 ?N.leb_le, ?N.eqb_eq, ?N.eqb_neq;
  lia.

Lemma cls_cat_first c :
  in_ranges cat_first_class c = s_cat_char c && negb ((c =? 45) || (c =? 46) || (c =? 43)).
Proof. unfold in_ranges, cat_first_class, s_cat_char, s_alnum, s_digit, s_lower, s_upper. cbn [existsb fst snd]. bool_arith. Qed.
Lemma cls_cat_rest c : in_ranges cat_rest_class c = s_cat_char c.
Proof. unfold in_ranges, cat_rest_class, s_cat_char, s_alnum, s_digit, s_lower, s_upper. cbn [existsb fst snd]. bool_arith. Qed.
Lemma cls_pkg c : in_ranges pkg_class c = s_pkg_char c && negb (c =? 45).
Proof. unfold in_ranges, pkg_class, s_pkg_char, s_alnum, s_digit, s_lower, s_upper. cbn [existsb fst snd]. bool_arith. Qed.
Lemma cls_use_first c : in_ranges use_first_class c = s_alnum c.
Proof. unfold in_ranges, use_first_class, s_alnum, s_digit, s_lower, s_upper. cbn [existsb fst snd]. bool_arith. Qed.
Lemma cls_use_rest c : in_ranges use_rest_class c = s_use_char c.
Proof. unfold in_ranges, use_rest_class, s_use_char, s_alnum, s_digit, s_lower, s_upper. cbn [existsb fst snd]. bool_arith. Qed.
Lemma cls_slot c : in_ranges slot_class c = s_slot_char c.
Proof. unfold in_ranges, slot_class, s_slot_char, s_cat_char, s_alnum, s_digit, s_lower, s_upper. cbn [existsb fst snd]. bool_arith. Qed.
Lemma cls_repo c : in_ranges repo_class c = s_repo_char c.
Proof. unfold in_ranges, repo_class, s_repo_char, s_alnum, s_digit, s_lower, s_upper. cbn [existsb fst snd]. bool_arith. Qed.
Lemma cls_ver_letter c : in_ranges ver_letter_class c = s_lower c || s_upper c.
Proof. unfold in_ranges, ver_letter_class, s_lower, s_upper. cbn [existsb fst snd]. bool_arith. Qed.
Lemma cls_digit c : is_digit c = s_digit c.
Proof. reflexivity. Qed.

Lemma strip_nl_id s : ~ In c_nl s -> strip_nl s = s.
Proof.
  induction s as [|x t IH]; intros Hn; [reflexivity|].
  cbn [strip_nl]. destruct t as [|y t'].
  - destruct (N.eqb_spec x c_nl) as [->|]; [exfalso; apply Hn; now left | reflexivity].
  - f_equal. apply IH. intros H. apply Hn. now right.
Qed.

Lemma forallb_ext_in {A} (f g : A -> bool) l : (forall x, f x = g x) -> forallb f l = forallb g l.
Proof. intros H. induction l as [|x r IH]; cbn; [reflexivity | now rewrite H, IH]. Qed.

(* category / USE flag / repository id / slot name recognisers of the code = the PMS classes,
   for text without a newline; a slot name additionally may begin with "+" in the code *)
Lemma charsets_agree_proof :
  (forall s, ~ In c_nl s -> m_category s = pms_category s)
  /\ (forall s, ~ In c_nl s -> m_use_flag s = pms_use_flag s)
  /\ (forall s, repo_ok (Some s) = pms_repo_name s)
  /\ (forall s, slot_chunk_ok s = (pms_slot_name s
                                   || match s with c :: _ => (c =? c_plus) && forallb s_slot_char s | [] => false end)).
Proof.
  repeat split.
  - intros s Hn. unfold m_category, re_first_rest, pms_category, first_not. rewrite (strip_nl_id _ Hn).
    destruct s as [|x t]; [reflexivity|]. cbn [forallb existsb].
    unfold all_in. rewrite cls_cat_first, (forallb_ext_in _ _ t cls_cat_rest).
    destruct (s_cat_char x), (forallb s_cat_char t), (x =? 45), (x =? 46), (x =? 43); reflexivity.
  - intros s Hn. unfold m_use_flag, re_first_rest, pms_use_flag. rewrite (strip_nl_id _ Hn).
    destruct s as [|x t]; [reflexivity|]. cbn [forallb].
    unfold all_in. rewrite cls_use_first, (forallb_ext_in _ _ t cls_use_rest).
    assert (H : s_alnum x = true -> s_use_char x = true) by (unfold s_use_char; intros ->; reflexivity).
    destruct (s_alnum x) eqn:E; [rewrite (H eq_refl); cbn; now rewrite andb_true_r|].
    cbn. now rewrite andb_false_r.
  - intros s. unfold repo_ok, pms_repo_name, first_not. destruct s as [|x t]; [reflexivity|].
    unfold all_in. rewrite (forallb_ext_in _ _ (x :: t) cls_repo). cbn [existsb]. rewrite orb_false_r.
    unfold c_dash. now rewrite andb_comm.
  - intros s. unfold slot_chunk_ok, pms_slot_name, first_not. destruct s as [|x t]; [reflexivity|].
    unfold all_in. rewrite (forallb_ext_in _ _ (x :: t) cls_slot). cbn [existsb]. rewrite orb_false_r.
    unfold c_dash, c_dot, c_plus.
    destruct (forallb s_slot_char (x :: t)); [|now rewrite !andb_false_r].
    rewrite !andb_true_r, !andb_true_l.
    destruct (N.eqb_spec x 45) as [->|H1]; [reflexivity|].
    destruct (N.eqb_spec x 46) as [->|H2]; [reflexivity|].
    destruct (N.eqb_spec x 43) as [->|H3]; reflexivity.
Qed.

(* ================================================================ EAPI gating of accepted atoms *)
Lemma lookup_eapi_in e l o : lookup_eapi e l = Some o -> In e (map fst l).
Proof.
  induction l as [|[k v] r IH]; cbn; [discriminate|].
  destruct (N.eqb_spec k e) as [->|]; [now left | intros H; right; now apply IH].
Qed.

Definition gates_feat (g : gates) (f : features) : Prop :=
  g_slot_deps g = f_slot f /\ g_use_deps g = f_use f /\ g_strong_blockers g = f_strong f
  /\ g_use_defaults g = f_defaults f /\ g_sub_slotting g = f_subslot f.

Lemma gates_features e g :
  gates_of e = Some g ->
  exists f, features_of e = Some f /\ gates_feat g f /\ f_repo f = negb (is_some e).
Proof.
  destruct e as [k|]; cbn [gates_of].
  - intros H. assert (Hin : In k [0;1;2;3;4;5;6;7;8;9]).
    { rewrite <- (proj2 eapi_gate_table_is_pms_matrix_proof). unfold gates_of_num in H.
      destruct (lookup_eapi k eapi_options) eqn:E; [|discriminate]. exact (lookup_eapi_in _ _ _ E). }
    cbn in Hin.
    repeat (destruct Hin as [<-|Hin];
            [vm_compute in H; injection H as <-; eexists; split; [vm_compute; reflexivity|];
             split; [repeat split|reflexivity] |]).
    destruct Hin.
  - intros H. vm_compute in H. injection H as <-. eexists. split; [reflexivity|].
    split; [repeat split|reflexivity].
Qed.

Lemma stage_op_flags b st a2 b' st' op cpv : stage_op b st a2 = R3 b' st' op cpv -> b' = b /\ st' = st.
Proof. intros H. apply stage_op_print in H. tauto. Qed.

Lemma stage_prefix_strong g l b op cpv :
  stage_prefix g l = R3 b true op cpv -> g_strong_blockers g = true.
Proof.
  unfold stage_prefix. destruct l as [|c t]; [discriminate|].
  set (strong := (c =? c_bang) && _).
  destruct strong eqn:Es.
  - destruct (g_strong_blockers g); [reflexivity | discriminate].
  - cbn [andb]. intros H. apply stage_op_flags in H as [_ H]. discriminate.
Qed.

Lemma slot_body_sub g slot ro p :
  slot_body g slot ro = Some p ->
  is_some (sp_sub p) || is_some (sp_op p) = true -> g_sub_slotting g = true.
Proof.
  unfold slot_body. destruct slot as [|c t]; [discriminate|].
  destruct (g_sub_slotting g); [reflexivity|].
  destruct (g_slot_deps g); cbn [negb]; [|discriminate].
  destruct (slot_chunk_ok (c :: t)); [|discriminate].
  intros H; injection H as <-. cbn. discriminate.
Qed.

Lemma stage_slot_sub g rgt p :
  stage_slot g rgt = Some p ->
  is_some (sp_sub p) || is_some (sp_op p) = true -> g_sub_slotting g = true.
Proof.
  unfold stage_slot. destruct (negb (repo_ok _)); [discriminate|].
  destruct (tl _) as [|c t] eqn:Et.
  - destruct (snd _); [|discriminate]. intros H; injection H as <-. cbn. discriminate.
  - apply slot_body_sub.
Qed.

Lemma strip_nl_cases s : s = strip_nl s \/ s = strip_nl s ++ [c_nl].
Proof.
  induction s as [|x t IH]; [now left|]. cbn [strip_nl]. destruct t as [|y t'].
  - destruct (N.eqb_spec x c_nl) as [->|]; [right; reflexivity | now left].
  - destruct IH as [IH|IH]; [left | right]; cbn [app]; now rewrite <- IH.
Qed.

Lemma m_use_flag_no_rpar z : m_use_flag z = true -> ~ In c_rpar z.
Proof.
  unfold m_use_flag, re_first_rest. intros H Hin.
  assert (Hin' : In c_rpar (strip_nl z)).
  { destruct (strip_nl_cases z) as [E|E]; rewrite E in Hin; [exact Hin|].
    apply in_app_or in Hin as [Hin|[Hin|[]]]; [exact Hin | discriminate]. }
  destruct (strip_nl z) as [|x t]; [discriminate|].
  apply andb_true_iff in H as [H1 H2].
  destruct Hin' as [->|Hin']; [vm_compute in H1; discriminate|].
  unfold all_in in H2. rewrite forallb_forall in H2. specialize (H2 _ Hin'). vm_compute in H2. discriminate.
Qed.

Lemma valid_use_dep_no_default x : valid_use_dep false x = true -> ~ In c_rpar x.
Proof.
  unfold valid_use_dep. destruct (lastc x) as [l|] eqn:El; [|discriminate].
  apply lastc_some in El.
  assert (Hz : forall z, match lastc z with
                         | Some l2 => if (l2 =? c_rpar) && negb false then false
                                      else negb (is_nil (if (l2 =? c_rpar) && ends_default z then drop_last3 z else z))
                                           && m_use_flag (if (l2 =? c_rpar) && ends_default z then drop_last3 z else z)
                         | None => false
                         end = true -> ~ In c_rpar z).
  { intros z. destruct (lastc z) as [l2|]; [|discriminate]. cbn [negb]. rewrite andb_true_r.
    destruct (l2 =? c_rpar); [discriminate|]. cbn [andb]. intros H. apply andb_true_iff in H as [_ H].
    now apply m_use_flag_no_rpar. }
  destruct ((l =? c_eq) || (l =? c_qm)) eqn:Ek.
  - assert (Hl : l <> c_rpar).
    { intros ->. vm_compute in Ek. discriminate. }
    destruct (removelast x) as [|c t] eqn:Er; [discriminate|].
    rewrite El. intros H Hin.
    apply in_app_or in Hin as [Hin|[Hin|[]]]; [|congruence].
    destruct (N.eqb_spec c c_bang) as [->|Hc].
    + destruct t as [|d t']; [discriminate|]. destruct (d =? c_dash); [discriminate|].
      apply Hz in H. destruct Hin as [Hin|Hin]; [discriminate | exact (H Hin)].
    + destruct (c =? c_dash); [discriminate|]. apply Hz in H. exact (H Hin).
  - destruct x as [|c t]; [discriminate|].
    destruct (N.eqb_spec c c_dash) as [->|Hc]; intros H Hin; apply Hz in H.
    + destruct Hin as [Hin|Hin]; [discriminate | exact (H Hin)].
    + exact (H Hin).
Qed.

(* every accepted atom uses only the features its EAPI has (the PMS feature matrix) *)
Lemma gating_sound_proof :
  forall e n s a, parse_atom e n s = Ok a ->
  exists f, features_of e = Some f
    /\ (a_strong a = true -> f_strong f = true)
    /\ (is_some (a_slot a) = true -> f_slot f = true)
    /\ (is_some (a_subslot a) || is_some (a_slotop a) = true -> f_subslot f = true)
    /\ (is_some (a_use a) = true -> f_use f = true)
    /\ (forall u x, a_use a = Some u -> In x u -> In c_rpar x -> f_defaults f = true)
    /\ (is_some (a_repo a) = true -> e = None).
Proof.
  intros e n s a. unfold parse_atom. destruct s as [|x0 t0] eqn:Es; [discriminate|]. rewrite <- Es. clear Es.
  destruct (gates_of e) as [g|] eqn:Eg; [|discriminate].
  destruct (gates_features _ _ Eg) as (f & Hf & (G1 & G2 & G3 & G4 & G5) & Hrepo).
  destruct (stage_use g s) as [[[body use] colon]|] eqn:Eu; [|discriminate].
  unfold parse_rest.
  set (sp := match colon with Some (lft, rgt) => _ | None => _ end).
  destruct sp as [[lft p]|] eqn:Esp; [|discriminate].
  assert (Hsub : is_some (sp_sub p) || is_some (sp_op p) = true -> g_sub_slotting g = true).
  { unfold sp in Esp. destruct colon as [[l r]|].
    - destruct (stage_slot g r) as [p'|] eqn:E2; [|discriminate]. injection Esp as <- <-.
      exact (stage_slot_sub _ _ _ E2).
    - injection Esp as <- <-. cbn. discriminate. }
  destruct (stage_prefix g lft) as [b st op cpv|] eqn:Ep; try discriminate.
  destruct (is_some (sp_slot p) && negb (g_slot_deps g)) eqn:E1; [discriminate|].
  destruct (is_some use && negb (g_use_deps g)) eqn:E2; [discriminate|].
  destruct (is_some e && is_some (sp_repo p)) eqn:E3; [discriminate|].
  destruct (parse_cpv _ cpv) as [c|]; [|discriminate].
  destruct (str_eqb op [c_tilde] && nonempty_opt (c_rev c)); [discriminate|].
  intros H; injection H as <-. exists f. split; [exact Hf|].
  cbn [a_strong a_slot a_subslot a_slotop a_use a_repo].
  repeat split.
  - intros ->. rewrite <- G3. exact (stage_prefix_strong _ _ _ _ _ Ep).
  - intros Hs. rewrite Hs in E1. rewrite <- G1. destruct (g_slot_deps g); [reflexivity | discriminate].
  - intros Hs. rewrite <- G5. exact (Hsub Hs).
  - intros Hs. rewrite Hs in E2. rewrite <- G2. destruct (g_use_deps g); [reflexivity | discriminate].
  - intros u x -> Hx Hr. rewrite <- G4. destruct (g_use_defaults g) eqn:Ed; [reflexivity|]. exfalso.
    unfold stage_use in Eu. destruct (split_first c_lbr s) as [[pre post]|]; [|discriminate].
    destruct (split_first c_rbr post) as [[uu tail]|]; [|discriminate].
    destruct (negb (is_nil tail)); [discriminate|].
    destruct (forallb _ _) eqn:Ev; [|discriminate]. injection Eu as _ Eu _. subst u.
    rewrite forallb_forall in Ev. specialize (Ev _ Hx). rewrite Ed in Ev.
    exact (valid_use_dep_no_default _ Ev Hr).
  - intros Hs. rewrite Hs, andb_true_r in E3. destruct e; [discriminate | reflexivity].
Qed.

(* ================================================================ versions contain no hyphen *)
Fixpoint take_wh (p : N -> bool) (s : str) : str :=
  match s with [] => [] | x :: t => if p x then x :: take_wh p t else [] end.

Lemma take_drop p s : s = take_wh p s ++ drop_while p s.
Proof. induction s as [|x t IH]; cbn; [reflexivity|]. destruct (p x); cbn; [now rewrite <- IH | reflexivity]. Qed.
Lemma take_wh_all p s : forallb p (take_wh p s) = true.
Proof. induction s as [|x t IH]; cbn; [reflexivity|]. destruct (p x) eqn:E; cbn; [now rewrite E, IH | reflexivity]. Qed.

Lemma digits_no_dash s : forallb is_digit s = true -> ~ In c_dash s.
Proof.
  intros H Hin. rewrite forallb_forall in H. specialize (H _ Hin). vm_compute in H. discriminate.
Qed.

Lemma strip_prefix_spec p s r : strip_prefix p s = Some r -> s = p ++ r.
Proof.
  revert s; induction p as [|a p IH]; intros s; cbn.
  - intros H; now injection H as <-.
  - destruct s as [|b s']; [discriminate|]. destruct (N.eqb_spec a b) as [->|]; [|discriminate].
    intros H. now rewrite (IH _ H).
Qed.
Lemma strip_any_spec names s r : strip_any names s = Some r -> exists n, In n names /\ s = n ++ r.
Proof.
  induction names as [|n rest IH]; cbn; [discriminate|].
  destruct (strip_prefix n s) as [t|] eqn:E.
  - intros H; injection H as <-. exists n. split; [now left | now apply strip_prefix_spec].
  - intros H. destruct (IH H) as (m & Hm & Hs). exists m. split; [now right | exact Hs].
Qed.

Lemma suffix_names_no_dash n : In n suffix_names -> ~ In c_dash n.
Proof.
  intros Hn Hd.
  assert (H : forallb (fun m => negb (existsb (N.eqb c_dash) m)) suffix_names = true) by (vm_compute; reflexivity).
  rewrite forallb_forall in H. specialize (H _ Hn). apply negb_true_iff in H.
  assert (existsb (N.eqb c_dash) n = true) by (apply existsb_exists; exists c_dash; split; [exact Hd | apply N.eqb_refl]).
  congruence.
Qed.

Lemma ver_nums_no_dash fuel s r :
  ver_nums fuel s = Some r -> exists p, s = p ++ r /\ ~ In c_dash p.
Proof.
  revert s r; induction fuel as [|f IH]; intros s r; cbn [ver_nums]; [discriminate|].
  destruct s as [|x t]; [discriminate|].
  destruct (is_digit x) eqn:Ex; [|discriminate].
  pose proof (take_drop is_digit (x :: t)) as Htd.
  pose proof (digits_no_dash _ (take_wh_all is_digit (x :: t))) as Hnd.
  destruct (drop_while is_digit (x :: t)) as [|d r'] eqn:Ed.
  - intros H; injection H as <-. exists (x :: t). split; [now rewrite app_nil_r|].
    rewrite Htd, app_nil_r. exact Hnd.
  - destruct (N.eqb_spec d c_dot) as [->|Hd].
    + intros H. destruct (IH _ _ H) as (p & -> & Hp).
      exists (take_wh is_digit (x :: t) ++ c_dot :: p). split.
      * rewrite Htd at 1. now rewrite <- app_assoc.
      * intros Hin. apply in_app_or in Hin as [Hin|[Hin|Hin]]; [exact (Hnd Hin) | discriminate | exact (Hp Hin)].
    + intros H; injection H as <-. exists (take_wh is_digit (x :: t)). split; [exact Htd | exact Hnd].
Qed.

Lemma ver_sufs_no_dash fuel s : ver_sufs fuel s = true -> ~ In c_dash s.
Proof.
  revert s; induction fuel as [|f IH]; intros s; destruct s as [|c t]; cbn [ver_sufs];
    [intros _ [] | discriminate | intros _ [] | ].
  destruct (N.eqb_spec c c_us) as [->|]; [|discriminate].
  destruct (strip_any suffix_names t) as [r|] eqn:E; [|discriminate].
  apply strip_any_spec in E as (n & Hn & ->).
  intros H. specialize (IH _ H).
  pose proof (take_drop is_digit r) as Htd.
  pose proof (digits_no_dash _ (take_wh_all is_digit r)) as Hnd.
  intros [Hin|Hin]; [discriminate|].
  apply in_app_or in Hin as [Hin|Hin]; [exact (suffix_names_no_dash _ Hn Hin)|].
  rewrite Htd in Hin. apply in_app_or in Hin as [Hin|Hin]; [exact (Hnd Hin) | exact (IH Hin)].
Qed.

Lemma m_version_no_dash v : m_version v = true -> ~ In c_dash v.
Proof.
  unfold m_version, ver_full. intros H.
  assert (Hs : ~ In c_dash (strip_nl v)).
  { destruct (ver_nums _ (strip_nl v)) as [r|] eqn:En; [|discriminate].
    apply ver_nums_no_dash in En as (p & Ep & Hp). apply ver_sufs_no_dash in H.
    rewrite Ep. intros Hin. apply in_app_or in Hin as [Hin|Hin]; [exact (Hp Hin)|].
    apply H. unfold ver_letter. destruct r as [|c t]; [exact Hin|].
    destruct (in_ranges ver_letter_class c) eqn:Ec; [|exact Hin].
    destruct Hin as [->|Hin]; [vm_compute in Ec; discriminate | exact Hin]. }
  destruct (strip_nl_cases v) as [E|E]; rewrite E; [exact Hs|].
  intros Hin. apply in_app_or in Hin as [Hin|[Hin|[]]]; [exact (Hs Hin) | discriminate].
Qed.

Lemma isvalid_rev_no_dash r : isvalid_rev r = true -> ~ In c_dash r.
Proof.
  unfold isvalid_rev. destruct r as [|c t]; [discriminate|].
  intros H. apply andb_true_iff in H as [H H2]. apply andb_true_iff in H as [H1 _].
  apply N.eqb_eq in H1. subst c. intros [Hin|Hin]; [discriminate | exact (digits_no_dash _ H2 Hin)].
Qed.

(* ================================================================ the package-name boundary *)
Lemma split_on_app c p q : split_on c (p ++ c :: q) = split_on c p ++ split_on c q.
Proof.
  induction p as [|x p IH]; cbn [app split_on].
  - now rewrite N.eqb_refl.
  - destruct (N.eqb_spec x c) as [->|Hne]; [now rewrite IH|].
    rewrite IH. pose proof (split_on_nonnil c p) as Hn.
    destruct (split_on c p) as [|h r]; [congruence | reflexivity].
Qed.

Lemma last_snoc {A} (l : list A) x d : last (l ++ [x]) d = x.
Proof. apply last_last. Qed.

Lemma join_snoc c a l : a <> [] -> join c (a ++ [l]) = join c a ++ c :: l.
Proof.
  induction a as [|x r IH]; intros Hne; [congruence|].
  destruct r as [|y r'].
  - reflexivity.
  - change (join c ((x :: y :: r') ++ [l])) with (x ++ c :: join c ((y :: r') ++ [l])).
    rewrite IH by discriminate.
    change (join c (x :: y :: r')) with (x ++ c :: join c (y :: r')).
    now rewrite <- app_assoc.
Qed.

Lemma list_snoc {A} (l : list A) d : l <> [] -> l = removelast l ++ [last l d].
Proof. apply app_removelast_last. Qed.

Lemma split_single c s x : split_on c s = [x] -> s = x /\ ~ In c s.
Proof.
  intros H. pose proof (join_split_on c s) as Hj. rewrite H in Hj. cbn in Hj. subst x.
  split; [reflexivity|]. apply (split_on_no_sep c s). rewrite H. now left.
Qed.

Definition suffix_version_like (name : str) : Prop :=
  exists p v, name = p ++ c_dash :: v /\ m_version v = true.
Definition suffix_version_rev_like (name : str) : Prop :=
  exists p v r, name = p ++ c_dash :: v ++ c_dash :: r /\ m_version v = true /\ isvalid_rev r = true.

(* isvalid_pkg_name on the "-"-chunks of a name is exactly: a legal first character, legal chunks,
   and the name does not END in "-<version>" nor in "-<version>-r<digits>" *)
Lemma pkg_name_boundary_proof :
  forall name,
    valid_pkg_name (split_on c_dash name) = true
    <-> (exists x t, name = x :: t /\ x <> c_dash /\ x <> c_plus)
        /\ forallb pkg_chunk_ok (split_on c_dash name) = true
        /\ ~ suffix_version_like name
        /\ ~ suffix_version_rev_like name.
Proof.
  intros name.
  pose proof (join_split_on c_dash name) as Hjoin.
  pose proof (split_on_nonnil c_dash name) as Hnn.
  assert (Hlast : forall p v, ~ In c_dash v -> split_on c_dash (p ++ c_dash :: v) = split_on c_dash p ++ [v]).
  { intros p v Hv. now rewrite split_on_app, (split_on_nosep _ _ Hv). }
  split.
  - (* the code's rule implies the boundary statement *)
    unfold valid_pkg_name. destruct (split_on c_dash name) as [|c0 rest] eqn:Ech; [congruence|].
    destruct c0 as [|x c0']; [discriminate|].
    destruct (N.eqb_spec x c_plus) as [|Hplus]; [discriminate|].
    destruct (forallb pkg_chunk_ok _) eqn:Eall; cbn [negb]; [|discriminate].
    assert (Hx : x <> c_dash).
    { intros ->. apply (split_on_no_sep c_dash name (c_dash :: c0')); [rewrite Ech; now left | now left]. }
    assert (Hhead : exists x' t, name = x' :: t /\ x' <> c_dash /\ x' <> c_plus).
    { rewrite <- Hjoin. destruct rest as [|r0 rs]; cbn [join]; [exists x, c0'; auto|].
      exists x, (c0' ++ c_dash :: join c_dash (r0 :: rs)). auto. }
    destruct rest as [|r0 rs].
    + intros _. apply split_single in Ech as [_ Hnd].
      repeat split; [exact Hhead | | ].
      * intros (p & v & -> & _). apply Hnd, in_or_app. right. now left.
      * intros (p & v & r & -> & _). apply Hnd, in_or_app. right. now left.
    + match goal with |- context [m_version (last ?l [])] => set (chunks := l) in * end.
      destruct (m_version (last chunks [])) eqn:Ev; [discriminate|].
      intros Hrev. repeat split; [exact Hhead | | ].
      * intros (p & v & -> & Hv). rewrite (Hlast _ _ (m_version_no_dash _ Hv)) in Ech.
        rewrite <- Ech, last_snoc in Ev. congruence.
      * intros (p & v & r & -> & Hv & Hr).
        pose proof (m_version_no_dash _ Hv) as Hvd. pose proof (isvalid_rev_no_dash _ Hr) as Hrd.
        replace (p ++ c_dash :: v ++ c_dash :: r) with ((p ++ c_dash :: v) ++ c_dash :: r) in Ech
          by now rewrite <- app_assoc.
        rewrite (Hlast _ _ Hrd), (Hlast _ _ Hvd) in Ech.
        rewrite <- Ech in Hrev.
        rewrite last_snoc, Hr, removelast_last, last_snoc, Hv, andb_true_r in Hrev.
        rewrite !app_length in Hrev. cbn [length] in Hrev.
        pose proof (split_on_nonnil c_dash p) as Hp.
        destruct (Nat.leb_spec 3 (length (split_on c_dash p) + 1 + 1)) as [_|Hlt]; [cbn in Hrev; discriminate|].
        destruct (split_on c_dash p) as [|? ?]; [congruence|]. cbn [length] in Hlt. lia.
  - (* the boundary statement implies the code's rule *)
    intros ((x & t & Hname & Hxd & Hxp) & Hall & Hnv & Hnr).
    unfold valid_pkg_name. destruct (split_on c_dash name) as [|c0 rest] eqn:Ech; [congruence|].
    assert (Hc0 : exists c0', c0 = x :: c0').
    { rewrite Hname in Ech. cbn [split_on] in Ech. revert Ech. destruct (N.eqb_spec x c_dash) as [|_]; [congruence|].
      destruct (split_on c_dash t) as [|h r]; intros Ech; injection Ech as <- _; eauto. }
    destruct Hc0 as (c0' & ->).
    destruct (N.eqb_spec x c_plus) as [|_]; [congruence|].
    rewrite Hall. cbn [negb].
    destruct rest as [|r0 rs]; [reflexivity|].
    match goal with |- context [m_version (last ?l [])] => set (chunks := l) in * end.
    assert (Hsn : chunks = removelast chunks ++ [last chunks []]) by (apply list_snoc; discriminate).
    assert (Hrl : removelast chunks <> []) by (unfold chunks; cbn; destruct rs; discriminate).
    assert (Hn1 : name = join c_dash (removelast chunks) ++ c_dash :: last chunks []).
    { rewrite <- Hjoin, Hsn at 1. now apply join_snoc. }
    destruct (m_version (last chunks [])) eqn:Ev.
    { exfalso. apply Hnv. eexists _, _. split; [exact Hn1 | exact Ev]. }
    destruct ((3 <=? length chunks)%nat && isvalid_rev (last chunks [])) eqn:E3; [|reflexivity].
    apply andb_true_iff in E3 as [E3 Er]. apply Nat.leb_le in E3.
    destruct (m_version (last (removelast chunks) [])) eqn:Ev2; [|reflexivity].
    exfalso. apply Hnr.
    set (rc := removelast chunks) in *.
    assert (Hsn2 : rc = removelast rc ++ [last rc []]) by (apply list_snoc; exact Hrl).
    assert (Hrl2 : removelast rc <> []).
    { intros E0. rewrite E0 in Hsn2. rewrite Hsn2 in Hsn. rewrite Hsn in E3. cbn in E3. lia. }
    eexists (join c_dash (removelast rc)), _, _. split; [|split; [exact Ev2 | exact Er]].
    rewrite Hn1. rewrite Hsn2 at 1. rewrite (join_snoc _ _ _ Hrl2). now rewrite <- app_assoc.
Qed.

Example ex_names :   (* foo-r1, foo-1ab, 9base are names;  foo-1, foo-1-r1, foo-1a, foo-1_p are not *)
  map (fun s => valid_pkg_name (split_on c_dash s))
      [ [102;111;111;45;114;49]; [102;111;111;45;49;97;98]; [57;98;97;115;101];
        [102;111;111;45;49]; [102;111;111;45;49;45;114;49]; [102;111;111;45;49;97]; [102;111;111;45;49;95;112] ]
  = [true; true; true; false; false; false; false].
Proof. vm_compute. reflexivity. Qed.

(* ================================================================ acceptance vs the PMS grammar *)
(* The property's first sentence, at full strength, for the EAPIs the spec knows (0..9, none): *)
Definition accept_iff_grammar_statement : Prop :=
  forall e s, features_of e <> None -> is_ok (parse_atom e false s) = pms_atom_b e s.
(* ... and every rejection is a MalformedAtom: *)
Definition reject_is_malformed_statement : Prop :=
  forall e s, features_of e <> None -> is_ok (parse_atom e false s) = false -> parse_atom e false s = Malformed.

(* The first is FALSE of the faithful model (and of the code: the witnesses are replayed by the
   harness); the second holds since the repair 3aa9a5c. *)
Lemma accept_iff_grammar_refuted_proof : ~ accept_iff_grammar_statement.
Proof.
  intros H. specialize (H None [97;47;98;10]). vm_compute in H.
  assert (E : true = false) by (apply H; discriminate). discriminate.
Qed.

Lemma features_gates e : features_of e <> None -> gates_of e <> None.
Proof.
  destruct e as [k|]; cbn [features_of gates_of]; [|intros _; vm_compute; discriminate].
  unfold pms_newest_eapi. destruct (N.leb_spec k 9) as [Hle|]; [|congruence]. intros _.
  assert (Hin : In k [0;1;2;3;4;5;6;7;8;9]) by (cbn; lia).
  cbn in Hin. repeat (destruct Hin as [<-|Hin]; [vm_compute; discriminate|]). destruct Hin.
Qed.

(* since /repo 3aa9a5c: every rejection is a MalformedAtom *)
Lemma reject_is_malformed_proof : reject_is_malformed_statement.
Proof.
  intros e s Hf Hno. pose proof (features_gates _ Hf) as Hg.
  unfold parse_atom in *. destruct s as [|x t]; [reflexivity|].
  destruct (gates_of e) as [g|]; [|congruence].
  destruct (stage_use g (x :: t)) as [st|]; [|reflexivity].
  destruct (parse_rest e false g st) as [a| |] eqn:E; [discriminate | reflexivity | exfalso].
  unfold parse_rest in E. destruct st as [[body use] colon].
  destruct (match colon with Some (lft, rgt) => _ | None => _ end) as [[lft p]|]; [|discriminate].
  destruct (stage_prefix g lft); [|discriminate].
  destruct (_ && _); [discriminate|]. destruct (_ && _); [discriminate|]. destruct (_ && _); [discriminate|].
  destruct (parse_cpv _ _); [|discriminate]. destruct (_ && _); discriminate.
Qed.

(* one witness per known class of disagreement (harness classifiers of the same names) *)
Example ex_trailing_newline :      (* "a/b\n", "=a/b-1\n" accepted *)
  is_ok (parse_atom None false [97;47;98;10]) = true /\ pms_atom_b None [97;47;98;10] = false
  /\ is_ok (parse_atom (Some 7) false [61;97;47;98;45;49;10]) = true /\ pms_atom_b (Some 7) [61;97;47;98;45;49;10] = false.
Proof. vm_compute. repeat split; reflexivity. Qed.
Example ex_upper_version_letter :  (* "=a/b-1A" accepted; the PMS-valid name "a/b-1A" rejected *)
  is_ok (parse_atom (Some 5) false [61;97;47;98;45;49;65]) = true /\ pms_atom_b (Some 5) [61;97;47;98;45;49;65] = false
  /\ is_ok (parse_atom (Some 5) false [97;47;98;45;49;65]) = false /\ pms_atom_b (Some 5) [97;47;98;45;49;65] = true.
Proof. vm_compute. repeat split; reflexivity. Qed.
Example ex_slot_leading_plus :     (* "a/b:+0" accepted under EAPI 1 *)
  is_ok (parse_atom (Some 1) false [97;47;98;58;43;48]) = true /\ pms_atom_b (Some 1) [97;47;98;58;43;48] = false.
Proof. vm_compute. repeat split; reflexivity. Qed.
(* the spots the DESIGN flagged, replayed: "!!" under EAPI 0/1 is refused with MalformedAtom, "=...*"
   with a revision is accepted and round-trips, a ":" in last position is simply not a slot separator *)
Example ex_design_spots :
  parse_atom (Some 1) false [33;33;97;47;98] = Malformed
  /\ is_ok (parse_atom (Some 2) false [33;33;97;47;98]) = true
  /\ is_ok (parse_atom (Some 0) false [61;97;47;98;45;49;45;114;49;42]) = true /\ pms_atom_b (Some 0) [61;97;47;98;45;49;45;114;49;42] = true
  /\ parse_atom None false [97;47;98;58] = Malformed /\ pms_atom_b None [97;47;98;58] = false
  /\ parse_atom None false [97;47;98;91;120;93;58;48] = Malformed /\ pms_atom_b None [97;47;98;91;120;93;58;48] = false.
Proof. vm_compute. repeat split; reflexivity. Qed.
