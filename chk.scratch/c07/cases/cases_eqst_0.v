From Coq Require Import List NArith ZArith Bool.
From Verif Require Import Base.Val C06.Restr C07.Model_C07 C07.Spec_C07.
Import ListNotations.

Definition cases : list ((cfg * restr * restr) * val) := 
[
  (({| udc_keyed := false |}, (RExact [97]%N false false true), (RExact [97]%N false false false)),
   (VL [(VB false); (VB false)]));
  (({| udc_keyed := false |}, (RExact [97]%N false false true), (RExact [97]%N false false true)),
   (VL [(VB true); (VB true)]));
  (({| udc_keyed := false |}, (RGlob [102;111]%N true false true true), (RGlob [102;111]%N true false true false)),
   (VL [(VB false); (VB false)]));
  (({| udc_keyed := false |}, (RGlob [102;111]%N true false true true), (RGlob [102;111]%N true false true true)),
   (VL [(VB true); (VB true)]));
  (({| udc_keyed := false |}, (RAttr 4%N false [[99;97;116;101;103;111;114;121]%N] (RExact [97]%N true true true)), (RAttr 0%N false [[99;97;116;101;103;111;114;121]%N] (RExact [97]%N true true true))),
   (VL [(VB false); (VB false)]));
  (({| udc_keyed := false |}, (RAttr 6%N true [[114;101;112;111]%N; [114;101;112;111;95;105;100]%N] (RExact [103;101;110;116;111;111]%N true false true)), (RAttr 0%N true [[114;101;112;111]%N; [114;101;112;111;95;105;100]%N] (RExact [103;101;110;116;111;111]%N true false true))),
   (VL [(VB false); (VB false)]));
  (({| udc_keyed := false |}, (RExact [68;101;118;45;76;105;98;115]%N true false true), (RExact [97;98]%N false false false)),
   (VL [(VB false); (VB false)]));
  (({| udc_keyed := false |}, (RExact [68;101;118;45;76;105;98;115]%N true false true), (RExact [97;98]%N false false true)),
   (VL [(VB false); (VB false)]));
  (({| udc_keyed := false |}, (RRegex [97;98]%N false true false true), (RExact [98]%N true false false)),
   (VL [(VB false); (VB false)]));
  (({| udc_keyed := false |}, (RRegex [97;98]%N false true false true), (RExact [98]%N true false true)),
   (VL [(VB false); (VB false)]));
  (({| udc_keyed := false |}, (RExact [98]%N true false true), (RGlob [98]%N true false false false)),
   (VL [(VB false); (VB false)]));
  (({| udc_keyed := false |}, (RExact [98]%N true false true), (RGlob [98]%N true false false true)),
   (VL [(VB false); (VB false)]));
  (({| udc_keyed := false |}, (RRegex [49]%N true false false true), (RRegex [49]%N true true false false)),
   (VL [(VB false); (VB false)]));
  (({| udc_keyed := false |}, (RRegex [49]%N true false false true), (RRegex [49]%N true true false true)),
   (VL [(VB false); (VB false)]));
  (({| udc_keyed := false |}, (RAttr 6%N false [[114;101;112;111]%N; [114;101;112;111;95;105;100]%N] (RExact [103;101;110;116;111;111]%N true false true)), (RAttr 0%N false [[114;101;112;111]%N; [114;101;112;111;95;105;100]%N] (RExact [103;101;110;116;111;111]%N true false true))),
   (VL [(VB false); (VB false)]));
  (({| udc_keyed := false |}, (RExact [49]%N true false true), (RExact [49]%N true true false)),
   (VL [(VB false); (VB false)]));
  (({| udc_keyed := false |}, (RExact [49]%N true false true), (RExact [49]%N true true true)),
   (VL [(VB false); (VB false)]));
  (({| udc_keyed := false |}, (RExact [100;101;118;45;108;105;98;115]%N true false true), (RExact [100;101;118;45;108;105;98;115]%N true false false)),
   (VL [(VB false); (VB false)]));
  (({| udc_keyed := false |}, (RExact [100;101;118;45;108;105;98;115]%N true false true), (RExact [100;101;118;45;108;105;98;115]%N true false true)),
   (VL [(VB true); (VB true)]));
  (({| udc_keyed := false |}, (RRegex [65]%N false true true true), (RRegex [65]%N false true true false)),
   (VL [(VB false); (VB false)]));
  (({| udc_keyed := false |}, (RRegex [65]%N false true true true), (RRegex [65]%N false true true true)),
   (VL [(VB true); (VB true)]));
  (({| udc_keyed := false |}, (RGlob [97]%N true true true true), (RGlob [97]%N false true true false)),
   (VL [(VB false); (VB false)]));
  (({| udc_keyed := false |}, (RGlob [97]%N true true true true), (RGlob [97]%N false true true true)),
   (VL [(VB false); (VB false)]));
  (({| udc_keyed := false |}, (RExact [97]%N false false true), (RExact [97]%N false true false)),
   (VL [(VB false); (VB false)]));
  (({| udc_keyed := false |}, (RExact [97]%N false false true), (RExact [97]%N false true true)),
   (VL [(VB false); (VB false)]));
  (({| udc_keyed := false |}, (RGlob (@nil N) false true true true), (RGlob (@nil N) false true true false)),
   (VL [(VB false); (VB false)]));
  (({| udc_keyed := false |}, (RGlob (@nil N) false true true true), (RGlob (@nil N) false true true true)),
   (VL [(VB true); (VB true)]));
  (({| udc_keyed := false |}, (RAttr 4%N false [[99;97;116;101;103;111;114;121]%N] (RExact [100;101;118;45;108;105;98;115]%N true false true)), (RNegate 12%N (RMulti 9%N false [[[105;117;115;101;95;115;116;114;105;112;112;101;100]%N]; [[117;115;101]%N]] (RNode KAnd 1%N false [(RUdc false [[122]%N] true); (RUdc false [[121]%N] false)])))),
   (VL [(VB false); (VB false)]));
  (({| udc_keyed := false |}, (RGlob [100;101;118]%N true false true true), (RGlob [100;101;118]%N false false true false)),
   (VL [(VB false); (VB false)]));
  (({| udc_keyed := false |}, (RGlob [100;101;118]%N true false true true), (RGlob [100;101;118]%N false false true true)),
   (VL [(VB false); (VB false)]));
  (({| udc_keyed := false |}, (RExact [102;111;111]%N false false true), (RExact [102;111;111]%N false false false)),
   (VL [(VB false); (VB false)]));
  (({| udc_keyed := false |}, (RExact [102;111;111]%N false false true), (RExact [102;111;111]%N false false true)),
   (VL [(VB true); (VB true)]));
  (({| udc_keyed := false |}, (RAttr 2%N false [[115;108;111;116]%N] (RExact [48]%N true false true)), (RAttr 2%N false [[115;108;111;116]%N] (RExact [48]%N true false false))),
   (VL [(VB false); (VB false)]));
  (({| udc_keyed := false |}, (RAttr 2%N false [[115;108;111;116]%N] (RExact [48]%N true false true)), (RAttr 2%N false [[115;108;111;116]%N] (RExact [48]%N true false true))),
   (VL [(VB true); (VB true)]));
  (({| udc_keyed := false |}, (RRegex [65]%N true false true true), (RRegex [65]%N true true true false)),
   (VL [(VB false); (VB false)]));
  (({| udc_keyed := false |}, (RRegex [65]%N true false true true), (RRegex [65]%N true true true true)),
   (VL [(VB false); (VB false)]));
  (({| udc_keyed := false |}, (RExact [100;101;118;45;108;105;98;115]%N true false true), (RExact [100;101;118;45;108;105;98;115]%N true false false)),
   (VL [(VB false); (VB false)]));
  (({| udc_keyed := false |}, (RExact [100;101;118;45;108;105;98;115]%N true false true), (RExact [100;101;118;45;108;105;98;115]%N true false true)),
   (VL [(VB true); (VB true)]));
  (({| udc_keyed := false |}, (RGlob [49;46;48]%N false true false true), (RGlob [49;46;48]%N false true false false)),
   (VL [(VB false); (VB false)]));
  (({| udc_keyed := false |}, (RGlob [49;46;48]%N false true false true), (RGlob [49;46;48]%N false true false true)),
   (VL [(VB true); (VB true)]));
  (({| udc_keyed := false |}, (RExact [102;111;111]%N false true true), (RExact [102;111;111]%N false false false)),
   (VL [(VB false); (VB false)]));
  (({| udc_keyed := false |}, (RExact [102;111;111]%N false true true), (RExact [102;111;111]%N false false true)),
   (VL [(VB false); (VB false)]));
  (({| udc_keyed := false |}, (RGlob [70;79]%N true false false true), (RGlob [70;79]%N true false false false)),
   (VL [(VB false); (VB false)]));
  (({| udc_keyed := false |}, (RGlob [70;79]%N true false false true), (RGlob [70;79]%N true false false true)),
   (VL [(VB true); (VB true)]));
  (({| udc_keyed := false |}, (RRegex [65]%N false true true true), (RRegex [65]%N false true false false)),
   (VL [(VB false); (VB false)]));
  (({| udc_keyed := false |}, (RRegex [65]%N false true true true), (RRegex [65]%N false true false true)),
   (VL [(VB false); (VB false)]));
  (({| udc_keyed := false |}, (RExact [68;101;118;45;76;105;98;115]%N true false true), (RExact [100;69;118;45;76;73;98;83]%N true false false)),
   (VL [(VB false); (VB false)]));
  (({| udc_keyed := false |}, (RExact [68;101;118;45;76;105;98;115]%N true false true), (RExact [100;69;118;45;76;73;98;83]%N true false true)),
   (VL [(VB false); (VB false)]));
  (({| udc_keyed := false |}, (RGlob [102;111]%N true false true true), (RGlob [102;111]%N true false true false)),
   (VL [(VB false); (VB false)]));
  (({| udc_keyed := false |}, (RGlob [102;111]%N true false true true), (RGlob [102;111]%N true false true true)),
   (VL [(VB true); (VB true)]));
  (({| udc_keyed := false |}, (RRegex [102;111]%N true true true true), (RRegex [102;111]%N true false true false)),
   (VL [(VB false); (VB false)]));
  (({| udc_keyed := false |}, (RRegex [102;111]%N true true true true), (RRegex [102;111]%N true false true true)),
   (VL [(VB false); (VB false)]));
  (({| udc_keyed := false |}, (RExact [49]%N true false true), (RExact [49]%N true false false)),
   (VL [(VB false); (VB false)]));
  (({| udc_keyed := false |}, (RExact [49]%N true false true), (RExact [49]%N true false true)),
   (VL [(VB true); (VB true)]));
  (({| udc_keyed := false |}, (RExact [100;101;118;45;108;105;98;115]%N false false true), (RGlob [100;101;118;45;108;105;98;115]%N true false true false)),
   (VL [(VB false); (VB false)]));
  (({| udc_keyed := false |}, (RExact [100;101;118;45;108;105;98;115]%N false false true), (RGlob [100;101;118;45;108;105;98;115]%N true false true true)),
   (VL [(VB false); (VB false)]));
  (({| udc_keyed := false |}, (RAttr 2%N false [[115;108;111;116]%N] (RExact [50;46;49]%N true false true)), (RAttr 0%N false [[115;108;111;116]%N] (RExact [50;46;49]%N true false true))),
   (VL [(VB false); (VB false)]));
  (({| udc_keyed := false |}, (RExact [102;111;111]%N false false true), (RExact [102;111;111]%N true false false)),
   (VL [(VB false); (VB false)]));
  (({| udc_keyed := false |}, (RExact [102;111;111]%N false false true), (RExact [102;111;111]%N true false true)),
   (VL [(VB false); (VB false)]));
  (({| udc_keyed := false |}, (RExact [68;101;118;45;76;105;98;115]%N true false true), (RExact [100;69;86;45;108;73;66;115]%N true false false)),
   (VL [(VB false); (VB false)]));
  (({| udc_keyed := false |}, (RExact [68;101;118;45;76;105;98;115]%N true false true), (RExact [100;69;86;45;108;73;66;115]%N true false true)),
   (VL [(VB false); (VB false)]));
  (({| udc_keyed := false |}, (RExact [70;79;79]%N true true true), (RGlob [70;79;79]%N true true false false)),
   (VL [(VB false); (VB false)]));
  (({| udc_keyed := false |}, (RExact [70;79;79]%N true true true), (RGlob [70;79;79]%N true true false true)),
   (VL [(VB false); (VB false)]));
  (({| udc_keyed := false |}, (RExact [97]%N false true true), (RExact [48]%N false false false)),
   (VL [(VB false); (VB false)]));
  (({| udc_keyed := false |}, (RExact [97]%N false true true), (RExact [48]%N false false true)),
   (VL [(VB false); (VB false)]));
  (({| udc_keyed := false |}, (RAttr 7%N false [[117;115;101]%N] (RNode KAnd 1%N false [(RCont [[122]%N] true true); (RCont [[119]%N] true false)])), (RAttr 2%N false [[115;108;111;116]%N] (RExact [49]%N true false true))),
   (VL [(VB false); (VB false)]));
  (({| udc_keyed := false |}, (RAttr 5%N false [[112;97;99;107;97;103;101]%N] (RExact [102;111;111]%N true true true)), (RAttr 5%N false [[112;97;99;107;97;103;101]%N] (RExact [102;111;111]%N true false false))),
   (VL [(VB false); (VB false)]));
  (({| udc_keyed := false |}, (RAttr 5%N false [[112;97;99;107;97;103;101]%N] (RExact [102;111;111]%N true true true)), (RAttr 5%N false [[112;97;99;107;97;103;101]%N] (RExact [102;111;111]%N true false true))),
   (VL [(VB false); (VB false)]));
  (({| udc_keyed := false |}, (RAttr 2%N false [[115;108;111;116]%N] (RExact [50;46;49]%N true false true)), (RAttr 2%N false [[115;108;111;116]%N] (RExact [50;46;49]%N true false false))),
   (VL [(VB false); (VB false)]));
  (({| udc_keyed := false |}, (RAttr 2%N false [[115;108;111;116]%N] (RExact [50;46;49]%N true false true)), (RAttr 2%N false [[115;108;111;116]%N] (RExact [50;46;49]%N true false true))),
   (VL [(VB true); (VB true)]));
  (({| udc_keyed := false |}, (RAttr 2%N true [[115;108;111;116]%N] (RExact [50;46;49]%N true false true)), (RAttr 2%N false [[115;108;111;116]%N] (RExact [50;46;49]%N true false false))),
   (VL [(VB false); (VB false)]));
  (({| udc_keyed := false |}, (RAttr 2%N true [[115;108;111;116]%N] (RExact [50;46;49]%N true false true)), (RAttr 2%N false [[115;108;111;116]%N] (RExact [50;46;49]%N true false true))),
   (VL [(VB false); (VB false)]));
  (({| udc_keyed := false |}, (RAttr 5%N false [[112;97;99;107;97;103;101]%N] (RExact [98]%N true true true)), (RAttr 0%N true [[112;97;99;107;97;103;101]%N] (RExact [98]%N true false true))),
   (VL [(VB false); (VB false)]));
  (({| udc_keyed := false |}, (RGlob [102;111]%N true false true true), (RGlob [102;111]%N true false true false)),
   (VL [(VB false); (VB false)]));
  (({| udc_keyed := false |}, (RGlob [102;111]%N true false true true), (RGlob [102;111]%N true false true true)),
   (VL [(VB true); (VB true)]));
  (({| udc_keyed := false |}, (RExact [68;101;118;45;76;105;98;115]%N true false true), (RExact [68;101;86;45;76;105;66;83]%N true false false)),
   (VL [(VB false); (VB false)]));
  (({| udc_keyed := false |}, (RExact [68;101;118;45;76;105;98;115]%N true false true), (RExact [68;101;86;45;76;105;66;83]%N true false true)),
   (VL [(VB false); (VB false)]));
  (({| udc_keyed := false |}, (RAttr 6%N true [[114;101;112;111]%N; [114;101;112;111;95;105;100]%N] (RExact [111;116;104;101;114]%N true false true)), (RAttr 6%N true [[114;101;112;111]%N; [114;101;112;111;95;105;100]%N] (RExact [111;116;104;101;114]%N true false false))),
   (VL [(VB false); (VB false)]));
  (({| udc_keyed := false |}, (RAttr 6%N true [[114;101;112;111]%N; [114;101;112;111;95;105;100]%N] (RExact [111;116;104;101;114]%N true false true)), (RAttr 6%N true [[114;101;112;111]%N; [114;101;112;111;95;105;100]%N] (RExact [111;116;104;101;114]%N true false true))),
   (VL [(VB true); (VB true)]));
  (({| udc_keyed := false |}, (RExact [100;101;118;45;108;105;98;115]%N false false true), (RExact [100;101;118;45;108;105;98;115]%N false false false)),
   (VL [(VB false); (VB false)]));
  (({| udc_keyed := false |}, (RExact [100;101;118;45;108;105;98;115]%N false false true), (RExact [100;101;118;45;108;105;98;115]%N false false true)),
   (VL [(VB true); (VB true)]));
  (({| udc_keyed := false |}, (RGlob [49;46;48]%N false true false true), (RGlob [49;46;48]%N false false false false)),
   (VL [(VB false); (VB false)]));
  (({| udc_keyed := false |}, (RGlob [49;46;48]%N false true false true), (RGlob [49;46;48]%N false false false true)),
   (VL [(VB false); (VB false)]));
  (({| udc_keyed := false |}, (RExact [98]%N false true true), (RExact [98]%N true true false)),
   (VL [(VB false); (VB false)]));
  (({| udc_keyed := false |}, (RExact [98]%N false true true), (RExact [98]%N true true true)),
   (VL [(VB false); (VB false)]));
  (({| udc_keyed := false |}, (RRegex [97;98]%N false false false true), (RRegex [97;98]%N false true false false)),
   (VL [(VB false); (VB false)]));
  (({| udc_keyed := false |}, (RRegex [97;98]%N false false false true), (RRegex [97;98]%N false true false true)),
   (VL [(VB false); (VB false)]));
  (({| udc_keyed := false |}, (RExact [100;101;118;45;108;105;98;115]%N true false true), (RGlob [68;69;118;45;76;105;66;115]%N true false false false)),
   (VL [(VB false); (VB false)]));
  (({| udc_keyed := false |}, (RExact [100;101;118;45;108;105;98;115]%N true false true), (RGlob [68;69;118;45;76;105;66;115]%N true false false true)),
   (VL [(VB false); (VB false)]));
  (({| udc_keyed := false |}, (RGlob [97]%N true false true true), (RGlob [97]%N true false true false)),
   (VL [(VB false); (VB false)]));
  (({| udc_keyed := false |}, (RGlob [97]%N true false true true), (RGlob [97]%N true false true true)),
   (VL [(VB true); (VB true)]));
  (({| udc_keyed := false |}, (RAttr 2%N false [[115;108;111;116]%N] (RExact [48]%N true false true)), (RAttr 2%N true [[115;108;111;116]%N] (RExact [48]%N true false false))),
   (VL [(VB false); (VB false)]));
  (({| udc_keyed := false |}, (RAttr 2%N false [[115;108;111;116]%N] (RExact [48]%N true false true)), (RAttr 2%N true [[115;108;111;116]%N] (RExact [48]%N true false true))),
   (VL [(VB false); (VB false)]));
  (({| udc_keyed := false |}, (RExact [98]%N true true true), (RExact [66]%N true true false)),
   (VL [(VB false); (VB false)]));
  (({| udc_keyed := false |}, (RExact [98]%N true true true), (RExact [66]%N true true true)),
   (VL [(VB false); (VB false)]));
  (({| udc_keyed := false |}, (RAttr 6%N false [[114;101;112;111]%N; [114;101;112;111;95;105;100]%N] (RExact [111;116;104;101;114]%N true false true)), (RAttr 6%N false [[114;101;112;111]%N; [114;101;112;111;95;105;100]%N] (RExact [111;116;104;101;114]%N true false false))),
   (VL [(VB false); (VB false)]));
  (({| udc_keyed := false |}, (RAttr 6%N false [[114;101;112;111]%N; [114;101;112;111;95;105;100]%N] (RExact [111;116;104;101;114]%N true false true)), (RAttr 6%N false [[114;101;112;111]%N; [114;101;112;111;95;105;100]%N] (RExact [111;116;104;101;114]%N true false true))),
   (VL [(VB true); (VB true)]));
  (({| udc_keyed := false |}, (RExact [102;111;111]%N true false true), (RGlob [102;111;111]%N true true false false)),
   (VL [(VB false); (VB false)]));
  (({| udc_keyed := false |}, (RExact [102;111;111]%N true false true), (RGlob [102;111;111]%N true true false true)),
   (VL [(VB false); (VB false)]));
  (({| udc_keyed := false |}, (RGlob [49;46;48]%N true true false true), (RExact [97]%N true true false)),
   (VL [(VB false); (VB false)]));
  (({| udc_keyed := false |}, (RGlob [49;46;48]%N true true false true), (RExact [97]%N true true true)),
   (VL [(VB false); (VB false)]));
  (({| udc_keyed := false |}, (RGlob [97]%N true false true true), (RGlob [97]%N true true true false)),
   (VL [(VB false); (VB false)]));
  (({| udc_keyed := false |}, (RGlob [97]%N true false true true), (RGlob [97]%N true true true true)),
   (VL [(VB false); (VB false)]));
  (({| udc_keyed := false |}, (RAlways 16%N true), (RAttr 4%N false [[99;97;116;101;103;111;114;121]%N] (RExact [100;101;118;45;108;105;98;115]%N true false true))),
   (VL [(VB false); (VB false)]));
  (({| udc_keyed := false |}, (RGlob [68;101;118]%N true false false true), (RGlob [68;101;118]%N true false false false)),
   (VL [(VB false); (VB false)]));
  (({| udc_keyed := false |}, (RGlob [68;101;118]%N true false false true), (RGlob [68;101;118]%N true false false true)),
   (VL [(VB true); (VB true)]));
  (({| udc_keyed := false |}, (RRegex [70;79]%N false false false true), (RRegex [70;79]%N false false true false)),
   (VL [(VB false); (VB false)]));
  (({| udc_keyed := false |}, (RRegex [70;79]%N false false false true), (RRegex [70;79]%N false false true true)),
   (VL [(VB false); (VB false)]));
  (({| udc_keyed := false |}, (RExact [100;101;118;45;108;105;98;115]%N false true true), (RExact [100;101;118;45;108;105;98;115]%N false true false)),
   (VL [(VB false); (VB false)]));
  (({| udc_keyed := false |}, (RExact [100;101;118;45;108;105;98;115]%N false true true), (RExact [100;101;118;45;108;105;98;115]%N false true true)),
   (VL [(VB true); (VB true)]));
  (({| udc_keyed := false |}, (RExact [102;111;111]%N false true true), (RExact [70;79;79]%N true true false)),
   (VL [(VB false); (VB false)]));
  (({| udc_keyed := false |}, (RExact [102;111;111]%N false true true), (RExact [70;79;79]%N true true true)),
   (VL [(VB false); (VB false)]));
  (({| udc_keyed := false |}, (RExact [100;101;118;45;108;105;98;115]%N false false true), (RExact [100;101;118;45;108;105;98;115]%N false true false)),
   (VL [(VB false); (VB false)]));
  (({| udc_keyed := false |}, (RExact [100;101;118;45;108;105;98;115]%N false false true), (RExact [100;101;118;45;108;105;98;115]%N false true true)),
   (VL [(VB false); (VB false)]));
  (({| udc_keyed := false |}, (RExact [49]%N true false true), (RExact [49]%N true true false)),
   (VL [(VB false); (VB false)]));
  (({| udc_keyed := false |}, (RExact [49]%N true false true), (RExact [49]%N true true true)),
   (VL [(VB false); (VB false)]));
  (({| udc_keyed := false |}, (RAttr 3%N false [[115;117;98;115;108;111;116]%N] (RExact [50]%N true false true)), (RAttr 0%N false [[115;117;98;115;108;111;116]%N] (RExact [50]%N true false true))),
   (VL [(VB false); (VB false)]));
  (({| udc_keyed := false |}, (RAttr 3%N false [[115;117;98;115;108;111;116]%N] (RExact [50]%N true false true)), (RAttr 0%N false [[115;117;98;115;108;111;116]%N] (RExact [50]%N true false true))),
   (VL [(VB false); (VB false)]));
  (({| udc_keyed := false |}, (RExact [98]%N true false true), (RExact [98]%N false false false)),
   (VL [(VB false); (VB false)]));
  (({| udc_keyed := false |}, (RExact [98]%N true false true), (RExact [98]%N false false true)),
   (VL [(VB false); (VB false)]));
  (({| udc_keyed := false |}, (RAttr 2%N true [[115;108;111;116]%N] (RExact [49]%N true false true)), (RAttr 2%N true [[115;108;111;116]%N] (RExact [49]%N true false false))),
   (VL [(VB false); (VB false)]));
  (({| udc_keyed := false |}, (RAttr 2%N true [[115;108;111;116]%N] (RExact [49]%N true false true)), (RAttr 2%N true [[115;108;111;116]%N] (RExact [49]%N true false true))),
   (VL [(VB true); (VB true)]));
  (({| udc_keyed := false |}, (RAttr 4%N false [[99;97;116;101;103;111;114;121]%N] (RExact [65]%N true true true)), (RAttr 4%N false [[99;97;116;101;103;111;114;121]%N] (RExact [65]%N true true false))),
   (VL [(VB false); (VB false)]));
  (({| udc_keyed := false |}, (RAttr 4%N false [[99;97;116;101;103;111;114;121]%N] (RExact [65]%N true true true)), (RAttr 4%N false [[99;97;116;101;103;111;114;121]%N] (RExact [65]%N true true true))),
   (VL [(VB true); (VB true)]));
  (({| udc_keyed := false |}, (RAttr 2%N false [[115;108;111;116]%N] (RExact [50;46;49]%N true false true)), (RAttr 2%N false [[115;108;111;116]%N] (RExact [50;46;49]%N true false false))),
   (VL [(VB false); (VB false)]));
  (({| udc_keyed := false |}, (RAttr 2%N false [[115;108;111;116]%N] (RExact [50;46;49]%N true false true)), (RAttr 2%N false [[115;108;111;116]%N] (RExact [50;46;49]%N true false true))),
   (VL [(VB true); (VB true)]));
  (({| udc_keyed := false |}, (RGlob [49]%N true false false true), (RGlob [49]%N true false false false)),
   (VL [(VB false); (VB false)]));
  (({| udc_keyed := false |}, (RGlob [49]%N true false false true), (RGlob [49]%N true false false true)),
   (VL [(VB true); (VB true)]));
  (({| udc_keyed := false |}, (RRegex [98;97;114]%N true false false true), (RRegex [97]%N false false false false)),
   (VL [(VB false); (VB false)]));
  (({| udc_keyed := false |}, (RRegex [98;97;114]%N true false false true), (RRegex [97]%N false false false true)),
   (VL [(VB false); (VB false)]));
  (({| udc_keyed := false |}, (RAttr 6%N false [[114;101;112;111]%N; [114;101;112;111;95;105;100]%N] (RExact [111;116;104;101;114]%N true false true)), (RAttr 6%N false [[114;101;112;111]%N; [114;101;112;111;95;105;100]%N] (RExact [111;116;104;101;114]%N true false false))),
   (VL [(VB false); (VB false)]));
  (({| udc_keyed := false |}, (RAttr 6%N false [[114;101;112;111]%N; [114;101;112;111;95;105;100]%N] (RExact [111;116;104;101;114]%N true false true)), (RAttr 6%N false [[114;101;112;111]%N; [114;101;112;111;95;105;100]%N] (RExact [111;116;104;101;114]%N true false true))),
   (VL [(VB true); (VB true)]));
  (({| udc_keyed := false |}, (RExact [68;101;118;45;76;105;98;115]%N true false true), (RGlob [68;101;118;45;76;105;98;115]%N true true false false)),
   (VL [(VB false); (VB false)]));
  (({| udc_keyed := false |}, (RExact [68;101;118;45;76;105;98;115]%N true false true), (RGlob [68;101;118;45;76;105;98;115]%N true true false true)),
   (VL [(VB false); (VB false)]));
  (({| udc_keyed := false |}, (RAttr 4%N false [[99;97;116;101;103;111;114;121]%N] (RExact [65]%N true false true)), (RAttr 4%N false [[99;97;116;101;103;111;114;121]%N] (RExact [65]%N true true false))),
   (VL [(VB false); (VB false)]));
  (({| udc_keyed := false |}, (RAttr 4%N false [[99;97;116;101;103;111;114;121]%N] (RExact [65]%N true false true)), (RAttr 4%N false [[99;97;116;101;103;111;114;121]%N] (RExact [65]%N true true true))),
   (VL [(VB false); (VB false)]));
  (({| udc_keyed := false |}, (RRegex [68;101;118]%N false true true true), (RRegex [68;101;118]%N false true false false)),
   (VL [(VB false); (VB false)]));
  (({| udc_keyed := false |}, (RRegex [68;101;118]%N false true true true), (RRegex [68;101;118]%N false true false true)),
   (VL [(VB false); (VB false)]));
  (({| udc_keyed := false |}, (RExact [100;101;118;45;108;105;98;115]%N false false true), (RExact [100;101;118;45;108;105;98;115]%N false true false)),
   (VL [(VB false); (VB false)]));
  (({| udc_keyed := false |}, (RExact [100;101;118;45;108;105;98;115]%N false false true), (RExact [100;101;118;45;108;105;98;115]%N false true true)),
   (VL [(VB false); (VB false)]));
  (({| udc_keyed := false |}, (RGlob [97]%N true true true true), (RGlob [97]%N true true true false)),
   (VL [(VB false); (VB false)]));
  (({| udc_keyed := false |}, (RGlob [97]%N true true true true), (RGlob [97]%N true true true true)),
   (VL [(VB true); (VB true)]));
  (({| udc_keyed := false |}, (RAttr 6%N false [[114;101;112;111]%N; [114;101;112;111;95;105;100]%N] (RExact [111;116;104;101;114]%N true false true)), (RAttr 6%N true [[114;101;112;111]%N; [114;101;112;111;95;105;100]%N] (RExact [111;116;104;101;114]%N true false false))),
   (VL [(VB false); (VB false)]));
  (({| udc_keyed := false |}, (RAttr 6%N false [[114;101;112;111]%N; [114;101;112;111;95;105;100]%N] (RExact [111;116;104;101;114]%N true false true)), (RAttr 6%N true [[114;101;112;111]%N; [114;101;112;111;95;105;100]%N] (RExact [111;116;104;101;114]%N true false true))),
   (VL [(VB false); (VB false)]));
  (({| udc_keyed := false |}, (RExact [102;111;111]%N false true true), (RExact [102;111;111]%N false true false)),
   (VL [(VB false); (VB false)]));
  (({| udc_keyed := false |}, (RExact [102;111;111]%N false true true), (RExact [102;111;111]%N false true true)),
   (VL [(VB true); (VB true)]));
  (({| udc_keyed := false |}, (RAttr 2%N false [[115;108;111;116]%N] (RExact [50;46;49]%N true false true)), (RAttr 0%N false [[115;108;111;116]%N] (RExact [50;46;49]%N true false true))),
   (VL [(VB false); (VB false)]));
  (({| udc_keyed := false |}, (RGlob [97]%N false false false true), (RGlob [97]%N false false true false)),
   (VL [(VB false); (VB false)]));
  (({| udc_keyed := false |}, (RGlob [97]%N false false false true), (RGlob [97]%N false false true true)),
   (VL [(VB false); (VB false)]));
  (({| udc_keyed := false |}, (RExact [49]%N true false true), (RGlob [49]%N true false false false)),
   (VL [(VB false); (VB false)]));
  (({| udc_keyed := false |}, (RExact [49]%N true false true), (RGlob [49]%N true false false true)),
   (VL [(VB false); (VB false)]));
  (({| udc_keyed := false |}, (RGlob [100;101;118]%N true false false true), (RGlob [100;101;118]%N true false false false)),
   (VL [(VB false); (VB false)]));
  (({| udc_keyed := false |}, (RGlob [100;101;118]%N true false false true), (RGlob [100;101;118]%N true false false true)),
   (VL [(VB true); (VB true)]));
  (({| udc_keyed := false |}, (RAttr 0%N true [[115;108;111;116]%N] (RNode KAnd 1%N false [(RExact [48]%N true true true); (RExact [97;98]%N true false true)])), (RAttr 5%N false [[112;97;99;107;97;103;101]%N] (RExact [98]%N true false true))),
   (VL [(VB false); (VB false)]));
  (({| udc_keyed := false |}, (RExact [97;98]%N true false true), (RExact [65;66]%N true false false)),
   (VL [(VB false); (VB false)]));
  (({| udc_keyed := false |}, (RExact [97;98]%N true false true), (RExact [65;66]%N true false true)),
   (VL [(VB false); (VB false)]));
  (({| udc_keyed := false |}, (RGlob [97]%N false true true true), (RGlob [97]%N false true true false)),
   (VL [(VB false); (VB false)]));
  (({| udc_keyed := false |}, (RGlob [97]%N false true true true), (RGlob [97]%N false true true true)),
   (VL [(VB true); (VB true)]));
  (({| udc_keyed := false |}, (RGlob [100;101;118]%N true false true true), (RExact [102;111;111]%N false false false)),
   (VL [(VB false); (VB false)]));
  (({| udc_keyed := false |}, (RGlob [100;101;118]%N true false true true), (RExact [102;111;111]%N false false true)),
   (VL [(VB false); (VB false)]));
  (({| udc_keyed := false |}, (RExact [97]%N false false true), (RExact [97]%N false true false)),
   (VL [(VB false); (VB false)]));
  (({| udc_keyed := false |}, (RExact [97]%N false false true), (RExact [97]%N false true true)),
   (VL [(VB false); (VB false)]));
  (({| udc_keyed := false |}, (RExact [100;101;118;45;108;105;98;115]%N true false true), (RExact [100;101;118;45;108;105;98;115]%N true false false)),
   (VL [(VB false); (VB false)]));
  (({| udc_keyed := false |}, (RExact [100;101;118;45;108;105;98;115]%N true false true), (RExact [100;101;118;45;108;105;98;115]%N true false true)),
   (VL [(VB true); (VB true)]));
  (({| udc_keyed := false |}, (RAttr 3%N false [[115;117;98;115;108;111;116]%N] (RExact [50]%N true false true)), (RNode KOr 2%N false (@nil (restr)))),
   (VL [(VB false); (VB false)]));
  (({| udc_keyed := false |}, (RRegex [65;98]%N false true true true), (RGlob [68;101;118]%N true false false false)),
   (VL [(VB false); (VB false)]));
  (({| udc_keyed := false |}, (RRegex [65;98]%N false true true true), (RGlob [68;101;118]%N true false false true)),
   (VL [(VB false); (VB false)]));
  (({| udc_keyed := false |}, (RExact [65]%N true false true), (RExact [65]%N true true false)),
   (VL [(VB false); (VB false)]));
  (({| udc_keyed := false |}, (RExact [65]%N true false true), (RExact [65]%N true true true)),
   (VL [(VB false); (VB false)]));
  (({| udc_keyed := false |}, (RRegex [97]%N false false false true), (RRegex [97]%N false false false false)),
   (VL [(VB false); (VB false)]));
  (({| udc_keyed := false |}, (RRegex [97]%N false false false true), (RRegex [97]%N false false false true)),
   (VL [(VB true); (VB true)]));
  (({| udc_keyed := false |}, (RAttr 2%N false [[115;108;111;116]%N] (RExact [48]%N true false true)), (RAttr 0%N false [[115;108;111;116]%N] (RExact [48]%N true false true))),
   (VL [(VB false); (VB false)]));
  (({| udc_keyed := false |}, (RExact [65]%N true true true), (RExact [97]%N true true false)),
   (VL [(VB false); (VB false)]));
  (({| udc_keyed := false |}, (RExact [65]%N true true true), (RExact [97]%N true true true)),
   (VL [(VB false); (VB false)]));
  (({| udc_keyed := false |}, (RAttr 6%N true [[114;101;112;111]%N; [114;101;112;111;95;105;100]%N] (RExact [111;116;104;101;114]%N true false true)), (RAttr 0%N true [[114;101;112;111]%N; [114;101;112;111;95;105;100]%N] (RExact [111;116;104;101;114]%N true false true))),
   (VL [(VB false); (VB false)]));
  (({| udc_keyed := false |}, (RExact [102;111;111]%N false false true), (RGlob [102;111;111]%N true false true false)),
   (VL [(VB false); (VB false)]));
  (({| udc_keyed := false |}, (RExact [102;111;111]%N false false true), (RGlob [102;111;111]%N true false true true)),
   (VL [(VB false); (VB false)]));
  (({| udc_keyed := false |}, (RAttr 2%N false [[115;108;111;116]%N] (RExact [48]%N true false true)), (RAttr 0%N true [[115;108;111;116]%N] (RExact [48]%N true false true))),
   (VL [(VB false); (VB false)]));
  (({| udc_keyed := false |}, (RExact [70;79;79]%N true false true), (RGlob [70;79;79]%N true false false false)),
   (VL [(VB false); (VB false)]));
  (({| udc_keyed := false |}, (RExact [70;79;79]%N true false true), (RGlob [70;79;79]%N true false false true)),
   (VL [(VB false); (VB false)]));
  (({| udc_keyed := false |}, (RExact [98]%N true false true), (RExact [98]%N false false false)),
   (VL [(VB false); (VB false)]));
  (({| udc_keyed := false |}, (RExact [98]%N true false true), (RExact [98]%N false false true)),
   (VL [(VB false); (VB false)]));
  (({| udc_keyed := false |}, (RAttr 5%N false [[112;97;99;107;97;103;101]%N] (RExact [102;111;111]%N true true true)), (RAttr 5%N false [[112;97;99;107;97;103;101]%N] (RExact [102;111;111]%N true true false))),
   (VL [(VB false); (VB false)]));
  (({| udc_keyed := false |}, (RAttr 5%N false [[112;97;99;107;97;103;101]%N] (RExact [102;111;111]%N true true true)), (RAttr 5%N false [[112;97;99;107;97;103;101]%N] (RExact [102;111;111]%N true true true))),
   (VL [(VB true); (VB true)]));
  (({| udc_keyed := false |}, (RGlob [70;79]%N true false false true), (RGlob [102;111]%N true false true false)),
   (VL [(VB false); (VB false)]));
  (({| udc_keyed := false |}, (RGlob [70;79]%N true false false true), (RGlob [102;111]%N true false true true)),
   (VL [(VB false); (VB false)]));
  (({| udc_keyed := false |}, (RAttr 1%N true [[102;117;108;108;118;101;114]%N] (RVer false [49;46;48;95;114;99;49]%N (Some 1%N) true [(-1)%Z])), (RAttr 4%N false [[99;97;116;101;103;111;114;121]%N] (RExact [100;101;118;45;108;105;98;115]%N true false true))),
   (VL [(VB false); (VB false)]));
  (({| udc_keyed := false |}, (RGlob [98;97;114]%N true false false true), (RGlob [98;97;114]%N true false false false)),
   (VL [(VB false); (VB false)]));
  (({| udc_keyed := false |}, (RGlob [98;97;114]%N true false false true), (RGlob [98;97;114]%N true false false true)),
   (VL [(VB true); (VB true)]));
  (({| udc_keyed := false |}, (RRegex [70;79]%N false false false true), (RRegex [70;79]%N false false false false)),
   (VL [(VB false); (VB false)]));
  (({| udc_keyed := false |}, (RRegex [70;79]%N false false false true), (RRegex [70;79]%N false false false true)),
   (VL [(VB true); (VB true)]));
  (({| udc_keyed := false |}, (RRegex [49;46;48]%N true true false true), (RRegex [49;46;48]%N true false false false)),
   (VL [(VB false); (VB false)]));
  (({| udc_keyed := false |}, (RRegex [49;46;48]%N true true false true), (RRegex [49;46;48]%N true false false true)),
   (VL [(VB false); (VB false)]));
  (({| udc_keyed := false |}, (RExact [97;98]%N false false true), (RExact [97;98]%N false false false)),
   (VL [(VB false); (VB false)]));
  (({| udc_keyed := false |}, (RExact [97;98]%N false false true), (RExact [97;98]%N false false true)),
   (VL [(VB true); (VB true)]));
  (({| udc_keyed := false |}, (RExact [100;101;118;45;108;105;98;115]%N false true true), (RGlob [100;101;118;45;108;105;98;115]%N true true true false)),
   (VL [(VB false); (VB false)]));
  (({| udc_keyed := false |}, (RExact [100;101;118;45;108;105;98;115]%N false true true), (RGlob [100;101;118;45;108;105;98;115]%N true true true true)),
   (VL [(VB false); (VB false)]));
  (({| udc_keyed := false |}, (RRegex [65]%N false false false true), (RRegex [65]%N false false true false)),
   (VL [(VB false); (VB false)]));
  (({| udc_keyed := false |}, (RRegex [65]%N false false false true), (RRegex [65]%N false false true true)),
   (VL [(VB false); (VB false)]));
  (({| udc_keyed := false |}, (RExact [102;111;111]%N false false true), (RExact [102;111;111]%N true false false)),
   (VL [(VB false); (VB false)]));
  (({| udc_keyed := false |}, (RExact [102;111;111]%N false false true), (RExact [102;111;111]%N true false true)),
   (VL [(VB false); (VB false)]));
  (({| udc_keyed := false |}, (RRegex [65]%N false false false true), (RRegex [65]%N true false false false)),
   (VL [(VB false); (VB false)]));
  (({| udc_keyed := false |}, (RRegex [65]%N false false false true), (RRegex [65]%N true false false true)),
   (VL [(VB false); (VB false)]));
  (({| udc_keyed := false |}, (RExact [100;101;118;45;108;105;98;115]%N true false true), (RExact [100;101;118;45;108;105;98;115]%N true true false)),
   (VL [(VB false); (VB false)]));
  (({| udc_keyed := false |}, (RExact [100;101;118;45;108;105;98;115]%N true false true), (RExact [100;101;118;45;108;105;98;115]%N true true true)),
   (VL [(VB false); (VB false)]));
  (({| udc_keyed := false |}, (RAttr 3%N false [[115;117;98;115;108;111;116]%N] (RExact [48]%N true false true)), (RAttr 3%N true [[115;117;98;115;108;111;116]%N] (RExact [48]%N true false false))),
   (VL [(VB false); (VB false)]));
  (({| udc_keyed := false |}, (RAttr 3%N false [[115;117;98;115;108;111;116]%N] (RExact [48]%N true false true)), (RAttr 3%N true [[115;117;98;115;108;111;116]%N] (RExact [48]%N true false true))),
   (VL [(VB false); (VB false)]));
  (({| udc_keyed := false |}, (RRegex [97;98]%N true false true true), (RGlob [100;101;118]%N true false false false)),
   (VL [(VB false); (VB false)]));
  (({| udc_keyed := false |}, (RRegex [97;98]%N true false true true), (RGlob [100;101;118]%N true false false true)),
   (VL [(VB false); (VB false)]));
  (({| udc_keyed := false |}, (RAttr 3%N false [[115;117;98;115;108;111;116]%N] (RExact [50]%N true false true)), (RAttr 3%N false [[115;117;98;115;108;111;116]%N] (RExact [50]%N true false false))),
   (VL [(VB false); (VB false)]));
  (({| udc_keyed := false |}, (RAttr 3%N false [[115;117;98;115;108;111;116]%N] (RExact [50]%N true false true)), (RAttr 3%N false [[115;117;98;115;108;111;116]%N] (RExact [50]%N true false true))),
   (VL [(VB true); (VB true)]));
  (({| udc_keyed := false |}, (RExact [65;98]%N true false true), (RGlob [65;98]%N true false false false)),
   (VL [(VB false); (VB false)]));
  (({| udc_keyed := false |}, (RExact [65;98]%N true false true), (RGlob [65;98]%N true false false true)),
   (VL [(VB false); (VB false)]));
  (({| udc_keyed := false |}, (RRegex [70;79]%N false true false true), (RRegex [97;98]%N false true true false)),
   (VL [(VB false); (VB false)]));
  (({| udc_keyed := false |}, (RRegex [70;79]%N false true false true), (RRegex [97;98]%N false true true true)),
   (VL [(VB false); (VB false)]));
  (({| udc_keyed := false |}, (RGlob [49;46;48]%N true true false true), (RGlob [49;46;48]%N true true true false)),
   (VL [(VB false); (VB false)]));
  (({| udc_keyed := false |}, (RGlob [49;46;48]%N true true false true), (RGlob [49;46;48]%N true true true true)),
   (VL [(VB false); (VB false)]));
  (({| udc_keyed := false |}, (RAttr 3%N false [[115;117;98;115;108;111;116]%N] (RExact [50]%N true false true)), (RAttr 0%N false [[115;117;98;115;108;111;116]%N] (RExact [50]%N true false true))),
   (VL [(VB false); (VB false)]));
  (({| udc_keyed := false |}, (RAttr 5%N false [[112;97;99;107;97;103;101]%N] (RExact [102;111;111]%N true true true)), (RAttr 5%N false [[112;97;99;107;97;103;101]%N] (RExact [102;111;111]%N true false false))),
   (VL [(VB false); (VB false)]));
  (({| udc_keyed := false |}, (RAttr 5%N false [[112;97;99;107;97;103;101]%N] (RExact [102;111;111]%N true true true)), (RAttr 5%N false [[112;97;99;107;97;103;101]%N] (RExact [102;111;111]%N true false true))),
   (VL [(VB false); (VB false)]));
  (({| udc_keyed := false |}, (RGlob [102;111]%N false false true true), (RGlob [102;111]%N false false true false)),
   (VL [(VB false); (VB false)]));
  (({| udc_keyed := false |}, (RGlob [102;111]%N false false true true), (RGlob [102;111]%N false false true true)),
   (VL [(VB true); (VB true)]));
  (({| udc_keyed := false |}, (RAttr 0%N true [[117;115;101]%N] (RCont [[119]%N] true false)), (RAttr 2%N true [[115;108;111;116]%N] (RExact [48]%N true false true))),
   (VL [(VB false); (VB false)]));
  (({| udc_keyed := false |}, (RGlob [97]%N true false true true), (RGlob [97]%N true false true false)),
   (VL [(VB false); (VB false)]));
  (({| udc_keyed := false |}, (RGlob [97]%N true false true true), (RGlob [97]%N true false true true)),
   (VL [(VB true); (VB true)]));
  (({| udc_keyed := false |}, (RAttr 6%N false [[114;101;112;111]%N; [114;101;112;111;95;105;100]%N] (RExact [103;101;110;116;111;111]%N true false true)), (RAttr 0%N false [[114;101;112;111]%N; [114;101;112;111;95;105;100]%N] (RExact [103;101;110;116;111;111]%N true false true))),
   (VL [(VB false); (VB false)]));
  (({| udc_keyed := false |}, (RExact [97]%N true false true), (RExact [97]%N true true false)),
   (VL [(VB false); (VB false)]));
  (({| udc_keyed := false |}, (RExact [97]%N true false true), (RExact [97]%N true true true)),
   (VL [(VB false); (VB false)]));
  (({| udc_keyed := false |}, (RGlob [49]%N true true false true), (RGlob [49]%N true false true false)),
   (VL [(VB false); (VB false)]));
  (({| udc_keyed := false |}, (RGlob [49]%N true true false true), (RGlob [49]%N true false true true)),
   (VL [(VB false); (VB false)]));
  (({| udc_keyed := false |}, (RGlob [97]%N true false true true), (RGlob [65]%N true false false false)),
   (VL [(VB false); (VB false)]));
  (({| udc_keyed := false |}, (RGlob [97]%N true false true true), (RGlob [65]%N true false false true)),
   (VL [(VB false); (VB false)]));
  (({| udc_keyed := false |}, (RAttr 2%N true [[115;108;111;116]%N] (RExact [50;46;49]%N true false true)), (RAttr 2%N true [[115;108;111;116]%N] (RExact [50;46;49]%N true false false))),
   (VL [(VB false); (VB false)]));
  (({| udc_keyed := false |}, (RAttr 2%N true [[115;108;111;116]%N] (RExact [50;46;49]%N true false true)), (RAttr 2%N true [[115;108;111;116]%N] (RExact [50;46;49]%N true false true))),
   (VL [(VB true); (VB true)]));
  (({| udc_keyed := false |}, (RRegex [100;101;118]%N false true false true), (RRegex [100;101;118]%N false true false false)),
   (VL [(VB false); (VB false)]));
  (({| udc_keyed := false |}, (RRegex [100;101;118]%N false true false true), (RRegex [100;101;118]%N false true false true)),
   (VL [(VB true); (VB true)]));
  (({| udc_keyed := false |}, (RGlob [49;46;48]%N false true true true), (RGlob [49;46;48]%N false true true false)),
   (VL [(VB false); (VB false)]));
  (({| udc_keyed := false |}, (RGlob [49;46;48]%N false true true true), (RGlob [49;46;48]%N false true true true)),
   (VL [(VB true); (VB true)]));
  (({| udc_keyed := false |}, (RGlob [49;46;48]%N true false false true), (RGlob [49;46;48]%N true false true false)),
   (VL [(VB false); (VB false)]));
  (({| udc_keyed := false |}, (RGlob [49;46;48]%N true false false true), (RGlob [49;46;48]%N true false true true)),
   (VL [(VB false); (VB false)]));
  (({| udc_keyed := false |}, (RGlob [97]%N true true true true), (RGlob [65]%N true false false false)),
   (VL [(VB false); (VB false)]));
  (({| udc_keyed := false |}, (RGlob [97]%N true true true true), (RGlob [65]%N true false false true)),
   (VL [(VB false); (VB false)]));
  (({| udc_keyed := false |}, (RGlob [49;46;48]%N true false true true), (RGlob [49;46;48]%N true true true false)),
   (VL [(VB false); (VB false)]));
  (({| udc_keyed := false |}, (RGlob [49;46;48]%N true false true true), (RGlob [49;46;48]%N true true true true)),
   (VL [(VB false); (VB false)]));
  (({| udc_keyed := false |}, (RGlob [49;46;48]%N true false true true), (RGlob [49;46;48]%N true true true false)),
   (VL [(VB false); (VB false)]));
  (({| udc_keyed := false |}, (RGlob [49;46;48]%N true false true true), (RGlob [49;46;48]%N true true true true)),
   (VL [(VB false); (VB false)]))
].
Eval vm_compute in (mismatches run_eq cases).
