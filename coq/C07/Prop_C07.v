(* Prop_C07.v — the property theorems of C07 and nothing else. *)
From Coq Require Import List NArith ZArith Bool.
Import ListNotations.
From Verif Require Import Base.Val C01.Model_C01 C06.Restr C07.Model_C07 C07.Spec_C07 C07.Proofs_C07.

(* restrictions that compare equal match the same subjects (every subject, every regex engine) —
   outside the class "a _UseDepDefaultContainment is compared while if_missing is not part of its identity",
   which is empty once fixes/C04-usedep-default-identity.patch is applied (udc_keyed c = true) *)
Theorem eq_implies_same_match : forall c a b,
  parsed_alike a b -> known c false a b = false -> r_eq c a b = true -> same_matches a b.
Proof. exact eq_implies_same_match_proof. Qed.
Print Assumptions eq_implies_same_match.

(* ... and have equal hash keys — outside that class and the class "two atoms with different original text" *)
Theorem eq_implies_same_hash_key : forall c a b,
  known c true a b = false -> r_eq c a b = true -> hk_eq c a b = true.
Proof. exact eq_implies_same_hash_key_proof. Qed.
Print Assumptions eq_implies_same_hash_key.

Theorem eq_interchangeable_partial : forall c a b,
  parsed_alike a b -> known c true a b = false -> known c false a b = false ->
  r_eq c a b = true -> interchangeable c a b.
Proof. exact eq_interchangeable_partial_proof. Qed.
Print Assumptions eq_interchangeable_partial.

(* with if_missing in _UseDepDefaultContainment's identity (the state of /repo since 9f837da) the class
   excluded by eq_implies_same_match is empty: equal restrictions always match alike *)
Theorem known_match_empty_when_keyed : forall c, udc_keyed c = true -> forall a b, known c false a b = false.
Proof. exact known_match_empty_when_keyed_proof. Qed.
Print Assumptions known_match_empty_when_keyed.

(* a restriction-keyed cache returns, for a key found by ==, the value the memoised query has for THAT key *)
Theorem cache_sound_partial : forall c (V : Type) (compute : restr -> V) m k v,
  respects_matching V compute -> filled_by V compute m ->
  (forall k' v', In (k', v') m -> parsed_alike k' k /\ known c false k' k = false) ->
  lookup c V k m = Some v -> v = compute k.
Proof. exact cache_sound_partial_proof. Qed.
Print Assumptions cache_sound_partial.

(* the unrestricted statement is false of the faithful model: *)
Theorem full_statement_refuted_atom_text : forall c, ~ C07_full_statement c.
Proof. exact full_statement_refuted_atom_text_proof. Qed.
Print Assumptions full_statement_refuted_atom_text.

Theorem full_statement_refuted_udc : ~ C07_full_statement cfg_pinned.
Proof. exact full_statement_refuted_udc_proof. Qed.
Print Assumptions full_statement_refuted_udc.

(* the pinned (unrepaired) _VersionMatch and DepSet.__hash__ *)
Theorem versionmatch_orig_refuted :
  (ver_eq_orig true [49%N] None false [0%Z] true [49%N] None true [0%Z] = true
   /\ ver_match true [49%N] None false [0%Z] pk1 <> ver_match true [49%N] None true [0%Z] pk1)
  /\ (ver_eq_orig false [49%N] None true [(-1)%Z] false [49%N] None false [0%Z; 1%Z] = true
      /\ ver_hk_orig false [49%N] None true [(-1)%Z] false [49%N] None false [0%Z; 1%Z] = false).
Proof. exact versionmatch_orig_refuted_proof. Qed.
Print Assumptions versionmatch_orig_refuted.

Theorem depset_orig_refuted : forall c,
  r_eq c (RDepSet [at1; at2]) (RDepSet [at2; at1]) = true
  /\ depset_hk_orig c [at1; at2] [at2; at1] = false
  /\ r_eq c (RDepSet [at1; at1]) (RDepSet [at1]) = true
  /\ depset_hk_orig c [at1; at1] [at1] = false.
Proof. exact depset_orig_refuted_proof. Qed.
Print Assumptions depset_orig_refuted.
