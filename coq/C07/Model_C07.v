(* Model_C07.v — executable model of equality, hash keys and matching of pkgcore restrictions.

   Transcribed from
     snakeoil.klass.GenericEquality.__eq__                 (attribute-list equality, `self is value` shortcut)
     restrictions/values.py   _HashedGenericEquality (the `_hash` slot is the FIRST compared attribute),
                              StrExactMatch, StrGlobMatch, StrRegex, ContainmentMatch  (+ match)
     ebuild/restricts.py      _VersionMatch.__eq__/__hash__/_convert_ops/match  (REPAIRED behaviour,
                              fixes/C07-versionmatch-eq-hash.patch; the pinned behaviour is [ver_eq_orig]/[ver_hk_orig]),
                              _UseDepDefaultContainment (+ match), VersionMatch, SlotDep, ... UseDepDefault,
                              _parse_nontransitive_use
     restrictions/packages.py PackageRestriction / PackageRestrictionMulti / Conditional __eq__/__hash__/match
     restrictions/boolean.py  base.__eq__/__hash__  (class, negate, type, restrictions)
     restrictions/restriction.py  AlwaysBool, Negate (identity equality)
     ebuild/atom.py           atom equality (__attr_comparison__), hash (text), restrictions, match
     ebuild/conditionals.py   DepSet.__eq__ (set based) / __hash__ (REPAIRED: fixes/C07-depset-hash.patch;
                              pinned behaviour is [depset_hk_orig])

   Hash VALUES are an arbitrary function of the hash KEY (the tuple handed to hash()); the model decides
   "the two hash keys are equal" ([cmpr cfg true a b]); [cmpr cfg false a b] is `a == b`.
   No proofs here. *)
From Coq Require Import List NArith ZArith Bool.
Import ListNotations.
From Verif Require Import Base.Val gen.Tables_C01 C01.Model_C01 C06.Restr.

(* ------------------------------------------------------------------ strings, sets of strings *)
Definition lower_c (c : N) : N := if (65 <=? c)%N && (c <=? 90)%N then (c + 32)%N else c.
Definition lower (s : str) : str := map lower_c s.
Fixpoint startswith (p s : str) : bool :=
  match p, s with
  | [], _ => true
  | x :: p', y :: s' => N.eqb x y && startswith p' s'
  | _ :: _, [] => false
  end.
Definition endswith (p s : str) : bool := startswith (List.rev p) (List.rev s).
Fixpoint is_substr (p s : str) : bool :=       (* `p in s` *)
  match s with
  | [] => startswith p []
  | _ :: s' => startswith p s || is_substr p s'
  end.

Definition smem (x : str) (l : list str) : bool := existsb (str_eqb x) l.
Definition subset (a b : list str) : bool := forallb (fun x => smem x b) a.
Definition set_eqb (a b : list str) : bool := subset a b && subset b a.     (* frozenset == frozenset *)
Definition inter (a b : list str) : list str := filter (fun x => smem x b) a.
Definition nonempty {A} (l : list A) : bool := match l with [] => false | _ => true end.

Fixpoint lstr_eqb (a b : list str) : bool :=
  match a, b with
  | [], [] => true
  | x :: a', y :: b' => str_eqb x y && lstr_eqb a' b'
  | _, _ => false
  end.
Fixpoint llstr_eqb (a b : list (list str)) : bool :=
  match a, b with
  | [], [] => true
  | x :: a', y :: b' => lstr_eqb x y && llstr_eqb a' b'
  | _, _ => false
  end.
Definition opt_eqb {A} (e : A -> A -> bool) (a b : option A) : bool :=
  match a, b with
  | None, None => true
  | Some x, Some y => e x y
  | _, _ => false
  end.

(* ------------------------------------------------------------------ what is matched *)
Inductive aval := AStr (s : str) | ASet (l : list str).
(* a package: attribute path (the `_attr_split` list) -> value; version/revision as _VersionMatch reads them *)
Record pk := { pattrs : list (list str * aval); pver : option str; prev : option N }.
Inductive subj := SVal (a : aval) | SMulti (l : list aval) | SPkg (p : pk).

Fixpoint pull (l : list (list str * aval)) (k : list str) : option aval :=   (* None = klass.sentinel *)
  match l with
  | [] => None
  | (k', v) :: l' => if lstr_eqb k k' then Some v else pull l' k
  end.
Fixpoint pull_all (l : list (list str * aval)) (ks : list (list str)) : option (list aval) :=
  match ks with
  | [] => Some []
  | k :: ks' => match pull l k with
                | None => None
                | Some v => match pull_all l ks' with Some vs => Some (v :: vs) | None => None end
                end
  end.

(* ------------------------------------------------------------------ restriction objects *)
(* the attributes atom.__eq__ reads, the original text (hashed), and what CPV parsing derives from cpvstr *)
Record atomrec := {
  a_text : str; a_cpvstr : str; a_op : str; a_blocks : bool; a_strong : bool; a_negate_vers : bool;
  a_use : option (list str); a_slot : option str; a_subslot : option str; a_slotop : option str;
  a_repo : option str;
  a_cat : str; a_pkg : str; a_fullver : option str; a_ver : option str; a_rev : option N }.

(* class ids of PackageRestriction and its subclasses (the `__class__` entry of __attr_comparison__):
   0 PackageRestriction 1 VersionMatch 2 SlotDep 3 SubSlotDep 4 CategoryDep 5 PackageDep 6 RepositoryDep
   7 StaticUseDep 8 PackageRestrictionMulti 9 UseDepDefault.   node type ids: 0 None 1 "values" 2 "package" *)
Inductive restr :=
| RExact (exact : str) (cs neg : bool) (h : bool)                 (* h: the `_hash` slot is set *)
| RGlob (glob : str) (prefix neg ci : bool) (h : bool)
| RRegex (regex : str) (neg ci ismatch : bool) (h : bool)
| RCont (vals : list str) (all neg : bool)                        (* `_hash` is set by __init__ *)
| RUdc (ifm : bool) (vals : list str) (neg : bool)                (* _UseDepDefaultContainment, all = True *)
| RVer (droprev : bool) (ver : str) (rv : option N) (neg : bool) (vals : list Z)   (* _VersionMatch *)
| RAlways (oid : N) (b : bool)                                    (* AlwaysBool: identity equality *)
| RNegate (oid : N) (r : restr)                                   (* Negate: identity equality *)
| RNode (k : kind) (ty : N) (neg : bool) (cs : list restr)        (* boolean.* nodes *)
| RAttr (cls : N) (neg : bool) (attr : list str) (r : restr)      (* PackageRestriction & single-attr subclasses *)
| RMulti (cls : N) (neg : bool) (attrs : list (list str)) (r : restr)
| RCond (neg : bool) (attr : list str) (r : restr) (payload : list restr)   (* packages.Conditional *)
| RAtom (a : atomrec)
| RDepSet (cs : list restr).

(* which source state is running (decided by the harness from one witness replay, see harness/c07.py):
   udc_keyed = _UseDepDefaultContainment compares/hashes `if_missing` (fixes/C04-usedep-default-identity.patch) *)
Record cfg := { udc_keyed : bool }.

(* ------------------------------------------------------------------ _VersionMatch *)
Definition complement_ops (vals : list Z) : list Z :=           (* tuple(sorted({-1,0,1}.difference(vals))) *)
  filter (fun z => negb (memZ z vals)) [(-1)%Z; 0%Z; 1%Z].
Definition convert_ops (neg : bool) (vals : list Z) : list Z :=   (* repaired: no droprev special case *)
  if neg then complement_ops vals else vals.
Definition convert_ops_orig (droprev neg : bool) (vals : list Z) : list Z :=
  if neg then (if droprev then vals else complement_ops vals) else vals.
Definition optN_eqb := opt_eqb N.eqb.

Definition ver_eq (d1 : bool) v1 r1 n1 vals1 (d2 : bool) v2 r2 n2 vals2 : bool :=
  Bool.eqb d1 d2 && str_eqb v1 v2 && optN_eqb r1 r2
  && list_Z_eqb (convert_ops n1 vals1) (convert_ops n2 vals2).
Definition ver_hk := ver_eq.     (* repaired __hash__: hash((droprev, ver, rev, _convert_ops(self))) *)
(* pinned tree *)
Definition ver_eq_orig (d1 : bool) v1 r1 n1 vals1 (d2 : bool) v2 r2 n2 vals2 : bool :=
  Bool.eqb d1 d2 && str_eqb v1 v2 && optN_eqb r1 r2
  && list_Z_eqb (convert_ops_orig d1 n1 vals1) (convert_ops_orig d2 n2 vals2).
Definition ver_hk_orig (d1 : bool) (v1 : str) (r1 : option N) (n1 : bool) vals1
                       (d2 : bool) (v2 : str) (r2 : option N) (n2 : bool) vals2 : bool :=
  Bool.eqb d1 d2 && str_eqb v1 v2 && optN_eqb r1 r2 && Bool.eqb n1 n2 && list_Z_eqb vals1 vals2.

Definition ver_match (droprev : bool) (v : str) (r : option N) (neg : bool) (vals : list Z) (p : pk) : bool :=
  match pver p with
  | None => false
  | Some pv =>
      let '(r1, r2) := if droprev then (None, None) else (r, prev p) in
      xorb (memZ (ver_cmp pv r2 v r1) vals) neg
  end.

(* _VersionMatch(operator, ver, rev, negate): None = InvalidVersion *)
Definition vm_of_text (t : str) : option (bool * list Z) :=
  if str_eqb t [126%N] then Some (true, [0%Z])
  else match str2op t convert_op2str None with Some vals => Some (false, vals) | None => None end.

(* ------------------------------------------------------------------ constructors (glue) *)
Definition s_package : str := [112;97;99;107;97;103;101]%N.
Definition s_category : str := [99;97;116;101;103;111;114;121]%N.
Definition s_fullver : str := [102;117;108;108;118;101;114]%N.
Definition s_slot : str := [115;108;111;116]%N.
Definition s_subslot : str := [115;117;98;115;108;111;116]%N.
Definition s_repo : str := [114;101;112;111]%N.
Definition s_repo_id : str := [114;101;112;111;95;105;100]%N.
Definition s_use : str := [117;115;101]%N.
Definition s_iuse_stripped : str := [105;117;115;101;95;115;116;114;105;112;112;101;100]%N.

Definition mk_exact (e : str) (cs neg h : bool) : restr := RExact (if cs then e else lower e) cs neg h.
Definition mk_glob (g : str) (cs prefix neg h : bool) : restr :=
  RGlob (if cs then g else lower g) prefix neg (negb cs) h.
Definition mk_regex (re : str) (cs ismatch neg h : bool) : restr := RRegex re neg (negb cs) ismatch h.
Definition mk_versionmatch (op : str) (v : str) (r : option N) (neg : bool) : option restr :=
  match vm_of_text op with
  | Some (d, vals) => Some (RAttr 1 neg [s_fullver] (RVer d v r neg vals))
  | None => None
  end.
Definition mk_slotdep (s : str) (neg h : bool) := RAttr 2 neg [s_slot] (mk_exact s true false h).
Definition mk_subslotdep (s : str) (neg h : bool) := RAttr 3 neg [s_subslot] (mk_exact s true false h).
Definition mk_categorydep (s : str) (neg h : bool) := RAttr 4 false [s_category] (mk_exact s true neg h).
Definition mk_packagedep (s : str) (neg h : bool) := RAttr 5 false [s_package] (mk_exact s true neg h).
Definition mk_repositorydep (s : str) (neg h : bool) := RAttr 6 neg [s_repo; s_repo_id] (mk_exact s true false h).
Definition always_true_oid : N := 1%N.       (* values.AlwaysTrue, a module level singleton *)
Definition use_payload (mk : list str -> bool -> restr) (false_use true_use : list str) : restr :=
  match nonempty false_use, nonempty true_use with
  | true, true => RNode KAnd 1 false [mk false_use true; mk true_use false]
  | true, false => mk false_use true
  | false, true => mk true_use false
  | false, false => RAlways always_true_oid true
  end.
Definition mk_staticusedep (false_use true_use : list str) : restr :=
  RAttr 7 false [s_use] (use_payload (fun v n => RCont v true n) false_use true_use).
Definition mk_usedepdefault (ifm : bool) (false_use true_use : list str) : restr :=
  RMulti 9 false [[s_iuse_stripped]; [s_use]] (use_payload (fun v n => RUdc ifm v n) false_use true_use).

(* restricts._parse_nontransitive_use *)
Definition parse_use_token (t : str) : N * bool * str :=      (* (0 normal|1 default off|2 default on, negative?, flag) *)
  let '(trg, t1) :=
    match List.rev t with
    | 41%N :: c :: _ :: rest => ((if N.eqb c 43 then 2%N else 1%N), List.rev rest)
    | _ => (0%N, t)
    end in
  match t1 with
  | 45%N :: f => (trg, true, f)
  | _ => (trg, false, t1)
  end.
Definition use_pick (trg : N) (negative : bool) (toks : list (N * bool * str)) : list str :=
  flat_map (fun x => let '(g, n, f) := x in if N.eqb g trg && Bool.eqb n negative then [f] else []) toks.
Definition parse_nontransitive_use (use : list str) : list restr :=
  let toks := map parse_use_token use in
  let grp g := (use_pick g true toks, use_pick g false toks) in
  let '(nf, nt) := grp 0%N in
  let '(ff, ft) := grp 1%N in
  let '(of, ot) := grp 2%N in
  (if nonempty nf || nonempty nt then [mk_staticusedep nf nt] else [])
  ++ (if nonempty ff || nonempty ft then [mk_usedepdefault false ff ft] else [])
  ++ (if nonempty of || nonempty ot then [mk_usedepdefault true of ot] else []).

(* atom.restrictions *)
Definition s_eqstar : str := [61;42]%N.
Definition atom_restrictions (a : atomrec) : list restr :=
  (match a_repo a with Some r => [mk_repositorydep r false false] | None => [] end)
  ++ [mk_packagedep (a_pkg a) false false; mk_categorydep (a_cat a) false false]
  ++ (match a_fullver a with
      | None => []
      | Some fv =>
          if str_eqb (a_op a) s_eqstar then [RAttr 0 false [s_fullver] (mk_glob fv true true false true)]
          else match mk_versionmatch (a_op a) (match a_ver a with Some v => v | None => [] end)
                                     (a_rev a) (a_negate_vers a) with
               | Some r => [r]
               | None => []
               end
      end)
  ++ (match a_slot a with
      | None => []
      | Some s => mk_slotdep s false false
                  :: match a_subslot a with Some ss => [mk_subslotdep ss false false] | None => [] end
      end)
  ++ (match a_use a with Some u => parse_nontransitive_use u | None => [] end).

(* ------------------------------------------------------------------ match *)
Definition rx_t := str -> bool -> bool -> str -> bool.    (* regex, IGNORECASE?, re.match? , value *)
(* the regex engine restricted to literal patterns (what the correspondence generates) *)
Definition rx_lit : rx_t := fun re ci ismatch s =>
  let p := if ci then lower re else re in
  let v := if ci then lower s else s in
  if ismatch then startswith p v else is_substr p v.

Definition cont_match (vals : list str) (all neg : bool) (s : subj) : bool :=
  match s with
  | SVal (AStr v) => xorb (existsb (fun f => is_substr f v) vals) neg
  | SVal (ASet l) => if all then xorb (subset vals l) neg else xorb (existsb (fun f => smem f l) vals) neg
  | SMulti l =>      (* a list of pulled attribute values: only its string items can equal a flag *)
      let items := flat_map (fun a => match a with AStr v => [v] | ASet _ => [] end) l in
      if all then xorb (subset vals items) neg else xorb (existsb (fun f => smem f items) vals) neg
  | SPkg _ => false
  end.
Definition udc_match (ifm : bool) (vals : list str) (neg : bool) (s : subj) : bool :=
  match s with
  | SMulti [ASet iuse; ASet use] =>
      if subset vals iuse then xorb (subset vals use) neg
      else if Bool.eqb ifm neg then false
      else let red := inter vals iuse in
           if nonempty red then xorb (subset red use) neg else true
  | _ => false
  end.

Section Match.
  Variable rx : rx_t.
  Variable am : atomrec -> subj -> bool.      (* how atoms match (tied below) *)

  Fixpoint rmatch_core (r : restr) (s : subj) {struct r} : bool :=
    match r with
    | RExact e cs neg _ =>
        match s with SVal (AStr v) => xorb (str_eqb e (if cs then v else lower v)) neg | _ => false end
    | RGlob g prefix neg ci _ =>
        match s with
        | SVal (AStr v) => let v := if ci then lower v else v in
                           xorb (if prefix then startswith g v else endswith g v) neg
        | _ => false
        end
    | RRegex re neg ci ism _ =>
        match s with SVal (AStr v) => xorb (rx re ci ism v) neg | _ => false end
    | RCont vals all neg => cont_match vals all neg s
    | RUdc ifm vals neg => udc_match ifm vals neg s
    | RVer d v r neg vals => match s with SPkg p => ver_match d v r neg vals p | _ => false end
    | RAlways _ b => b
    | RNegate _ r' => negb (rmatch_core r' s)
    | RNode k _ neg cs => node_match k neg (map (fun c => rmatch_core c s) cs)
    | RAttr cls neg attr r' =>
        match s with
        | SPkg p =>
            if N.eqb cls 1 then rmatch_core r' s          (* VersionMatch.match: self.restriction.match(pk) *)
            else match pull (pattrs p) attr with
                 | None => neg
                 | Some v => xorb (rmatch_core r' (SVal v)) neg
                 end
        | _ => false
        end
    | RMulti _ neg attrs r' =>
        match s with
        | SPkg p => match pull_all (pattrs p) attrs with
                    | None => neg
                    | Some vs => xorb (rmatch_core r' (SMulti vs)) neg
                    end
        | _ => false
        end
    | RCond neg attr r' _ =>
        match s with
        | SPkg p => match pull (pattrs p) attr with
                    | None => neg
                    | Some v => xorb (rmatch_core r' (SVal v)) neg
                    end
        | _ => false
        end
    | RAtom a => am a s
    | RDepSet _ => false                        (* DepSet.match raises NotImplementedError *)
    end.
End Match.

Definition atom_match (rx : rx_t) (a : atomrec) (s : subj) : bool :=
  and_loop false (map (fun c => rmatch_core rx (fun _ _ => false) c s) (atom_restrictions a)).
Definition rmatch (rx : rx_t) : restr -> subj -> bool := rmatch_core rx (atom_match rx).

(* ------------------------------------------------------------------ __eq__ (hm = false) and hash-key equality (hm = true) *)
Definition optstr_eqb := opt_eqb str_eqb.
Definition kind_eqb (a b : kind) : bool :=
  match a, b with
  | KAnd, KAnd | KOr, KOr | KJustOne, KJustOne | KAtMostOne, KAtMostOne | KAtom, KAtom => true
  | _, _ => false
  end.

(* atom.__attr_comparison__ = (cpvstr, op, blocks, negate_vers, use, slot, subslot, slot_operator, repo_id) *)
Definition atom_eq (a b : atomrec) : bool :=
  str_eqb (a_cpvstr a) (a_cpvstr b) && str_eqb (a_op a) (a_op b) && Bool.eqb (a_blocks a) (a_blocks b)
  && Bool.eqb (a_negate_vers a) (a_negate_vers b) && opt_eqb lstr_eqb (a_use a) (a_use b)
  && optstr_eqb (a_slot a) (a_slot b) && optstr_eqb (a_subslot a) (a_subslot b)
  && optstr_eqb (a_slotop a) (a_slotop b) && optstr_eqb (a_repo a) (a_repo b).
Definition atom_hk (a b : atomrec) : bool := str_eqb (a_text a) (a_text b).     (* hash(orig_atom) *)

Section All2.
  Context {A : Type}.
  Variable f : A -> A -> bool.
  Fixpoint list_all2 (l1 l2 : list A) {struct l1} : bool :=
    match l1, l2 with
    | [], [] => true
    | x :: l1', y :: l2' => f x y && list_all2 l1' l2'
    | _, _ => false
    end.
  Fixpoint any2 (l1 l2 : list A) {struct l1} : bool :=
    match l1, l2 with
    | x :: l1', y :: l2' => f x y || any2 l1' l2'
    | _, _ => false
    end.
End All2.

Section Cmp.
  Variable c : cfg.

  Fixpoint cmpr (hm : bool) (a b : restr) {struct a} : bool :=
    match a, b with
    | RExact e1 c1 n1 h1, RExact e2 c2 n2 h2 =>
        (hm || Bool.eqb h1 h2) && str_eqb e1 e2 && Bool.eqb c1 c2 && Bool.eqb n1 n2
    | RGlob g1 p1 n1 i1 h1, RGlob g2 p2 n2 i2 h2 =>
        (hm || Bool.eqb h1 h2) && str_eqb g1 g2 && Bool.eqb p1 p2 && Bool.eqb n1 n2 && Bool.eqb i1 i2
    | RRegex g1 n1 i1 m1 h1, RRegex g2 n2 i2 m2 h2 =>
        (hm || Bool.eqb h1 h2) && str_eqb g1 g2 && Bool.eqb n1 n2 && Bool.eqb i1 i2 && Bool.eqb m1 m2
    | RCont v1 a1 n1, RCont v2 a2 n2 => set_eqb v1 v2 && Bool.eqb a1 a2 && Bool.eqb n1 n2
    | RUdc f1 v1 n1, RUdc f2 v2 n2 =>
        set_eqb v1 v2 && Bool.eqb n1 n2 && (negb (udc_keyed c) || Bool.eqb f1 f2)
    | RCont v1 a1 n1, RUdc _ v2 n2 | RUdc _ v2 n2, RCont v1 a1 n1 =>
        (* same attribute names (_hash, vals, all, negate); the repaired class adds if_missing / another _hash *)
        negb (udc_keyed c) && set_eqb v1 v2 && a1 && Bool.eqb n1 n2
    | RVer d1 v1 r1 n1 l1, RVer d2 v2 r2 n2 l2 => ver_eq d1 v1 r1 n1 l1 d2 v2 r2 n2 l2
    (* identity equality: `a is b`; the same object has the same content, so on well-formed inputs (equal
       ids only for one and the same object) comparing the content as well changes nothing *)
    | RAlways o1 b1, RAlways o2 b2 => N.eqb o1 o2 && Bool.eqb b1 b2
    | RNegate o1 r1, RNegate o2 r2 => N.eqb o1 o2 && cmpr hm r1 r2
    | RNode k1 t1 n1 cs1, RNode k2 t2 n2 cs2 =>
        kind_eqb k1 k2 && N.eqb t1 t2 && Bool.eqb n1 n2
        && list_all2 (fun x y => cmpr hm x y) cs1 cs2
    | RAttr k1 n1 at1 r1, RAttr k2 n2 at2 r2 =>
        (hm || N.eqb k1 k2) && Bool.eqb n1 n2 && lstr_eqb at1 at2 && cmpr hm r1 r2
    | RMulti k1 n1 at1 r1, RMulti k2 n2 at2 r2 =>
        (hm || N.eqb k1 k2) && Bool.eqb n1 n2 && llstr_eqb at1 at2 && cmpr hm r1 r2
    | RCond n1 at1 r1 p1, RCond n2 at2 r2 p2 =>
        Bool.eqb n1 n2 && lstr_eqb at1 at2 && cmpr hm r1 r2
        && list_all2 (fun x y => cmpr hm x y) p1 p2
    | RAtom x, RAtom y => if hm then atom_hk x y else atom_eq x y
    | RDepSet cs1, RDepSet cs2 =>
        (* set(self.restrictions) == set(other.restrictions): membership = same hash and == ;
           repaired hash: hash(frozenset(self.restrictions)) *)
        let inn (x y : restr) := if hm then cmpr true x y else cmpr true x y && cmpr false x y in
        forallb (fun x => existsb (fun y => inn x y) cs2) cs1
        && forallb (fun y => existsb (fun x => inn x y) cs1) cs2
    | _, _ => false
    end.
End Cmp.

Definition r_eq (c : cfg) := cmpr c false.
Definition hk_eq (c : cfg) := cmpr c true.

(* pinned DepSet.__hash__ = boolean.base.__hash__: (class, negate, type, restrictions) as an ordered tuple *)
Definition depset_hk_orig (c : cfg) (cs1 cs2 : list restr) : bool := list_all2 (hk_eq c) cs1 cs2.

(* ------------------------------------------------------------------ known classes (decidable) *)
(* K_udc: a _UseDepDefaultContainment is compared while if_missing is not part of its identity
   K_text: two atoms with different original text are compared (hash only) *)
Section Known.
  Variable c : cfg.
  Variable hm : bool.     (* true: classes that break hash equality; false: classes that break matching *)

  Definition is_udcish (r : restr) : bool :=
    match r with RUdc _ _ _ => true | _ => false end.

  Fixpoint known (a b : restr) {struct a} : bool :=
    match a, b with
    | RUdc _ _ _, RUdc _ _ _ | RUdc _ _ _, RCont _ _ _ | RCont _ _ _, RUdc _ _ _ => negb (udc_keyed c)
    | RNode _ _ _ cs1, RNode _ _ _ cs2 =>
        any2 (fun x y => known x y) cs1 cs2
    | RNegate _ r1, RNegate _ r2 => known r1 r2
    | RAttr _ _ _ r1, RAttr _ _ _ r2 => known r1 r2
    | RMulti _ _ _ r1, RMulti _ _ _ r2 => known r1 r2
    | RCond _ _ r1 p1, RCond _ _ r2 p2 =>
        known r1 r2
        || any2 (fun x y => known x y) p1 p2
    | RAtom x, RAtom y =>
        hm && negb (str_eqb (a_text x) (a_text y))
    | RDepSet cs1, RDepSet cs2 =>
        existsb (fun x => existsb (fun y => known x y) cs2) cs1
    | _, _ => false
    end.
End Known.

(* ------------------------------------------------------------------ encoders for the harness *)
Definition VBs (l : list bool) : val := VL (map VB l).

(* one pair against one universe: [a==b; b==a; hash(a)==hash(b); matches of a; matches of b].
   Hash VALUES are the implementation's business: equal keys must give equal hashes (that is what the
   theorems need), while two different keys may collide — so where the keys differ the implementation's
   own answer [impl_heq] is echoed and never counts as a disagreement. *)
Definition run_pair (univ : N -> list subj) (i : cfg * restr * restr * N * bool) : val :=
  let '(c, a, b, u, impl_heq) := i in
  VL [VB (r_eq c a b); VB (r_eq c b a); VB (if hk_eq c a b then true else impl_heq);
      VBs (map (rmatch rx_lit a) (univ u)); VBs (map (rmatch rx_lit b) (univ u))].

(* the same pair in another hashed state: [a==b; b==a] *)
Definition run_eq (i : cfg * restr * restr) : val :=
  let '(c, a, b) := i in VL [VB (r_eq c a b); VB (r_eq c b a)].
