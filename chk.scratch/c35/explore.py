import os, sys, tempfile, signal, ast, shutil
tmp = tempfile.mkdtemp(prefix="c35x_")
trace = os.path.join(tmp, "trace")
os.environ["PKGCORE_VERIF_TRACE"] = trace
from pkgcore.pytest.plugin import EbuildRepo
from pkgcore.ebuild import processor as P
from pkgcore.ebuild.atom import atom

def mark(s):
    with open(trace, "a") as f: f.write(f"C - {s!r}\n")

r = EbuildRepo(os.path.join(tmp, "repo"), repo_id="verif")
for e in ("foo", "bar"):
    with open(os.path.join(tmp, "repo", "eclass", e + ".eclass"), "w") as f:
        f.write(f"# {e}\n{e}_x() {{ :; }}\n" + ("inherit bar\n" if e == "foo" else ""))
r.create_ebuild("cat/a-1", data="inherit foo\n")
r.create_ebuild("cat/b-1", data="")
r.create_ebuild("cat/c-1", data="die 'boom at global scope'\n")
r.create_ebuild("cat/d-1", data="inherit nonexistent\n")
r.sync()
devnull = open(os.devnull, "w")
def newp():
    return P.EbuildProcessor(False, False, fd_pipes={1: devnull.fileno(), 2: devnull.fileno()})
ebp = newp()
def pk(n): return max(r.itermatch(atom("cat/" + n)))
def call(name, f):
    mark("CALL " + name)
    try:
        v = f(); mark(f"RET {v!r}"[:100])
    except BaseException as e:
        mark(f"EXC {type(e).__name__}: {e}"[:200])
ebp.allow_eclass_caching()
call("get_keys a", lambda: ebp.get_keys(pk("a"), r.eclass_cache))
call("get_keys b", lambda: ebp.get_keys(pk("b"), r.eclass_cache))
call("get_keys a", lambda: ebp.get_keys(pk("a"), r.eclass_cache))
call("env b", lambda: len(ebp.get_ebuild_environment(pk("b"), r.eclass_cache)))
call("clear", lambda: ebp.clear_preloaded_eclasses())
print("pid after clear", ebp.pid)
if ebp.pid is None: ebp = newp()
call("get_keys c", lambda: ebp.get_keys(pk("c"), r.eclass_cache))
print("pid after die", ebp.pid)
if ebp.pid is None: ebp = newp()
call("get_keys d", lambda: ebp.get_keys(pk("d"), r.eclass_cache))
print("pid after d", ebp.pid)
if ebp.pid is None: ebp = newp()
def unknown():
    ebp.write("frobnicate now")
    return ebp.expect("whatever")
call("unknown", unknown)
print("pid after unknown", ebp.pid)
if ebp.pid is None: ebp = newp()
# run_phase with failing env
T = os.path.join(tmp, "T"); os.makedirs(T)
def badenv():
    return ebp.run_phase("setup", {"A-B": "x", "T": T}, tmpdir=None)
signal.signal(signal.SIGALRM, lambda *a: (_ for _ in ()).throw(TimeoutError("alarm")))
call("run_phase badenv", badenv)
def probe():
    signal.alarm(20)
    try:
        return ebp.is_responsive
    finally:
        signal.alarm(0)
call("is_responsive", probe)
call("is_responsive", probe)
try:
    ebp.shutdown_processor(force=True)
except Exception as e: print(e)
for l in open(trace):
    l = l.rstrip("\n")
    print(l[:160])
shutil.rmtree(tmp)
