(* Model_C01.v — executable model of version comparison in pkgcore:
     cpv.ver_cmp                      src/pkgcore/ebuild/cpv.py:125
     CPV.__eq__/__lt__/__le__/...     src/pkgcore/ebuild/cpv.py:358
     restricts._VersionMatch.match    src/pkgcore/ebuild/restricts.py:89
     cpv.isvalid_version_re           src/pkgcore/ebuild/cpv.py:19
   transcribed over strings (list N of code points).  No proofs here.

   STABLE INTERFACE (other properties import it):
     ver_cmp       (v1 : str) (r1 : option N) (v2 : str) (r2 : option N) : Z      -1 / 0 / 1
     version_match (op : N) (negate : bool) (v : str) (r : option N) (pv : str) (pr : option N) : bool
                   op ids 0:"<" 1:"<=" 2:"=" 3:">=" 4:">" 5:"~";  (v,r) the restriction's, (pv,pr) the package's
     valid_version (v : str) : bool

   Revisions: [None] = absent (Python None, Revision(""), int 0 all behave alike), [Some n] = the
   revision's integer value (Revision("07") is Some 7).  This is the behaviour of the REPAIRED
   ver_cmp (fixes/C01-first-component.patch, fixes/C01-none-revision.patch):
     * the first numeric component always compares as an integer        (flag [fixfirst]);
     * a Python None revision compares as 0 against a Revision object.
   [ver_cmp_orig] is the pinned tree's behaviour for the first component (used by the _refuted
   witness only).  Literal tables come from gen/Tables_C01.v, regenerated from /repo every run. *)
From Coq Require Import List NArith ZArith Bool.
Import ListNotations.
From Verif Require Import Base.Val gen.Tables_C01.

(* ------------------------------------------------------------------ characters and strings *)
Definition is_digit (c : N) : bool := (48 <=? c)%N && (c <=? 57)%N.
Definition is_alpha (c : N) : bool :=            (* str.isalpha() on the ASCII range *)
  ((65 <=? c)%N && (c <=? 90)%N) || ((97 <=? c)%N && (c <=? 122)%N).
Definition all_digits (s : str) : bool := forallb is_digit s.
Definition is_nil {A} (l : list A) : bool := match l with [] => true | _ => false end.

Definition sgn (c : comparison) : Z := match c with Lt => (-1)%Z | Eq => 0%Z | Gt => 1%Z end.
Definition cmpN (a b : N) : Z := sgn (N.compare a b).     (* snakeoil cmp on ints *)
Definition cmpZ (a b : Z) : Z := sgn (Z.compare a b).
Definition cmp_len (a b : nat) : Z := sgn (Nat.compare a b).

(* Python str comparison: lexicographic on code points, a proper prefix is smaller *)
Fixpoint str_cmp (a b : str) : Z :=
  match a, b with
  | [], [] => 0%Z
  | [], _ :: _ => (-1)%Z
  | _ :: _, [] => 1%Z
  | x :: a', y :: b' => match N.compare x y with Lt => (-1)%Z | Gt => 1%Z | Eq => str_cmp a' b' end
  end.

(* s.split(c): always at least one piece *)
Fixpoint split_on (c : N) (s : str) : list str :=
  match s with
  | [] => [[]]
  | x :: s' =>
      if N.eqb x c then [] :: split_on c s'
      else match split_on c s' with
           | h :: t => (x :: h) :: t
           | [] => [[x]]
           end
  end.

(* int(s) for a digit string *)
Fixpoint int_acc (acc : N) (s : str) : N :=
  match s with [] => acc | c :: t => int_acc (10 * acc + (c - 48))%N t end.
Definition int_of (s : str) : N := int_acc 0 s.

(* s.rstrip("0") *)
Fixpoint rstrip0 (s : str) : str :=
  match s with
  | [] => []
  | c :: t => match rstrip0 t with
              | [] => if N.eqb c 48 then [] else [c]
              | t' => c :: t'
              end
  end.

Fixpoint strip_prefix (p s : str) : option str :=
  match p, s with
  | [], _ => Some s
  | x :: p', y :: s' => if N.eqb x y then strip_prefix p' s' else None
  | _ :: _, [] => None
  end.

(* ------------------------------------------------------------------ numeric components *)
Definition lead0 (s : str) : bool := match s with c :: _ => N.eqb c 48 | [] => false end.

(* one step of the component loop (cpv.py:159-178); [first] = this is component 0 and the
   repaired rule applies *)
Definition comp_cmp (first : bool) (a b : str) : Z :=
  if str_eqb a b then 0%Z
  else if first || (negb (lead0 a) && negb (lead0 b)) then cmpN (int_of a) (int_of b)
  else str_cmp (rstrip0 a) (rstrip0 b).

Fixpoint comps_cmp (first : bool) (l1 l2 : list str) : Z :=     (* zip loop *)
  match l1, l2 with
  | a :: t1, b :: t2 => let c := comp_cmp first a b in
                        if Z.eqb c 0 then comps_cmp false t1 t2 else c
  | _, _ => 0%Z
  end.

(* cpv.py:146-152: pull a trailing letter off the last component; -1 = none *)
Definition pull_letter (ps : list str) : list str * Z :=
  let l := last ps [] in
  let ch := last l 0%N in
  if negb (is_nil l) && is_alpha ch then (removelast ps ++ [removelast l], Z.of_N ch)
  else (ps, (-1)%Z).

(* cpv.py:138-188; 0 = the dotted parts are equal, go on with the suffixes *)
Definition num_cmp (fixfirst : bool) (p1 p2 : str) : Z :=
  if str_eqb p1 p2 then 0%Z else
  let '(c1, l1) := pull_letter (split_on 46 p1) in
  let '(c2, l2) := pull_letter (split_on 46 p2) in
  let c := comps_cmp fixfirst c1 c2 in
  if negb (Z.eqb c 0) then c else
  let c := cmp_len (length c1) (length c2) in
  if negb (Z.eqb c 0) then c else
  if Z.eqb l1 l2 then 0%Z else cmpZ l1 l2.

(* ------------------------------------------------------------------ suffixes *)
Fixpoint assoc_str {B} (k : str) (l : list (str * B)) : option B :=
  match l with
  | [] => None
  | (k', v) :: l' => if str_eqb k k' then Some v else assoc_str k l'
  end.

(* suffix_regexp.match(s): first alternative that is a prefix with only digits after it *)
Fixpoint parse_suffix_in (names : list str) (s : str) : option (str * str) :=
  match names with
  | [] => None
  | n :: names' =>
      match strip_prefix n s with
      | Some d => if all_digits d then Some (n, d) else parse_suffix_in names' s
      | None => parse_suffix_in names' s
      end
  end.
Definition parse_suffix (s : str) : str * str :=
  match parse_suffix_in suffix_regexp_names s with Some x => x | None => ([], []) end.
Definition suffix_val (name : str) : Z :=
  match assoc_str name suffix_value with Some v => v | None => 0%Z end.
Definition suffix_num (digits : str) : N := int_of (48%N :: digits).     (* int("0" + digits) *)

(* cpv.py:200-235; Some c = `return c`, None = loop finished *)
Fixpoint suf_loop (l1 l2 : list str) : option Z :=
  match l1, l2 with
  | [], [] => None
  | [], s2 :: _ =>
      let '(n, d) := parse_suffix s2 in
      let v := suffix_val n in
      if negb (Z.eqb v 0) then Some (cmpZ 0 v) else Some (cmpN 0 (suffix_num d))
  | s1 :: _, [] =>
      let '(n, d) := parse_suffix s1 in
      let v := suffix_val n in
      if negb (Z.eqb v 0) then Some (cmpZ v 0) else Some (cmpN (suffix_num d) 0)
  | s1 :: t1, s2 :: t2 =>
      if str_eqb s1 s2 then suf_loop t1 t2 else
      let '(n1, d1) := parse_suffix s1 in
      let '(n2, d2) := parse_suffix s2 in
      let c := cmpZ (suffix_val n1) (suffix_val n2) in
      if negb (Z.eqb c 0) then Some c else
      let c := cmpN (suffix_num d1) (suffix_num d2) in
      if negb (Z.eqb c 0) then Some c else suf_loop t1 t2
  end.

(* ------------------------------------------------------------------ revisions *)
Definition rev_val (r : option N) : N := match r with Some n => n | None => 0%N end.
Definition rev_cmp (r1 r2 : option N) : Z := cmpN (rev_val r1) (rev_val r2).

(* ------------------------------------------------------------------ ver_cmp *)
Definition ver_cmp_gen (fixfirst : bool) (v1 : str) (r1 : option N) (v2 : str) (r2 : option N) : Z :=
  if str_eqb v1 v2 then rev_cmp r1 r2 else
  let parts1 := split_on 95 v1 in
  let parts2 := split_on 95 v2 in
  let c := num_cmp fixfirst (hd [] parts1) (hd [] parts2) in
  if negb (Z.eqb c 0) then c else
  match suf_loop (tl parts1) (tl parts2) with
  | Some c => c
  | None => rev_cmp r1 r2
  end.

Definition ver_cmp := ver_cmp_gen true.        (* repaired behaviour *)
Definition ver_cmp_orig := ver_cmp_gen false.  (* pinned tree: first component like the others *)

(* ------------------------------------------------------------------ _VersionMatch *)
Definition op_text (op : N) : str :=
  match op with
  | 0 => [60] | 1 => [60; 61] | 2 => [61] | 3 => [62; 61] | 4 => [62] | 5 => [126] | _ => []
  end%N.
Fixpoint list_Z_eqb (a b : list Z) : bool :=
  match a, b with
  | [], [] => true
  | x :: a', y :: b' => Z.eqb x y && list_Z_eqb a' b'
  | _, _ => false
  end.
(* _convert_str2op[text]: inversion of the generated table (a dict comprehension: last key wins) *)
Fixpoint str2op (text : str) (tbl : list (list Z * str)) (acc : option (list Z)) : option (list Z) :=
  match tbl with
  | [] => acc
  | (vals, t) :: tbl' => str2op text tbl' (if str_eqb t text then Some vals else acc)
  end.
(* (droprev, vals); None = InvalidVersion("invalid operator") *)
Definition op_vals (op : N) : option (bool * list Z) :=
  if N.eqb op 5 then Some (true, [0%Z])
  else match str2op (op_text op) convert_op2str None with
       | Some vals => Some (false, vals)
       | None => None
       end.
Definition memZ (z : Z) (l : list Z) : bool := existsb (Z.eqb z) l.

Definition version_match (op : N) (negate : bool) (v : str) (r : option N) (pv : str) (pr : option N) : bool :=
  match op_vals op with
  | None => false
  | Some (droprev, vals) =>
      let '(r1, r2) := if droprev then (None, None) else (r, pr) in
      xorb (memZ (ver_cmp pv r2 v r1) vals) negate
  end.

(* ------------------------------------------------------------------ isvalid_version_re *)
Fixpoint valid_comps (l : list str) : bool :=       (* \d+(\.\d+)*[a-zA-Z]? after split on "." *)
  match l with
  | [] => false
  | [c] => negb (is_nil c) &&
           (all_digits c || (is_alpha (last c 0%N) && negb (is_nil (removelast c)) && all_digits (removelast c)))
  | c :: l' => negb (is_nil c) && all_digits c && valid_comps l'
  end.
Definition valid_suffix (s : str) : bool :=
  match parse_suffix_in valid_suffix_names s with Some _ => true | None => false end.
Definition valid_version_core (v : str) : bool :=
  match split_on 95 v with
  | [] => false
  | h :: sufs => valid_comps (split_on 46 h) && forallb valid_suffix sufs
  end.
(* Python's `$` also matches just before one trailing newline *)
Definition valid_version (v : str) : bool :=
  valid_version_core v
  || (negb (is_nil v) && N.eqb (last v 0%N) 10 && valid_version_core (removelast v)).

(* ------------------------------------------------------------------ CPV rich comparisons *)
Record cpv := { cat : str; pkg : str; ver : str; rev : option N }.
Definition cpv_vcmp (a b : cpv) : Z := ver_cmp (ver a) (rev a) (ver b) (rev b).
Definition same_key (a b : cpv) : bool := str_eqb (cat a) (cat b) && str_eqb (pkg a) (pkg b).
Definition cpv_eq (a b : cpv) : bool := same_key a b && Z.eqb (cpv_vcmp a b) 0.
Definition cpv_ne (a b : cpv) : bool := negb (cpv_eq a b).
Definition cpv_rich (vtest ptest : Z -> bool) (a b : cpv) : bool :=
  if str_eqb (cat a) (cat b) then
    if str_eqb (pkg a) (pkg b) then vtest (cpv_vcmp a b)
    else ptest (str_cmp (pkg a) (pkg b))
  else ptest (str_cmp (cat a) (cat b)).
Definition cpv_lt := cpv_rich (fun c => Z.ltb c 0) (fun c => Z.ltb c 0).
Definition cpv_le := cpv_rich (fun c => Z.leb c 0) (fun c => Z.ltb c 0).   (* sic: `<` on names *)
Definition cpv_gt := cpv_rich (fun c => Z.gtb c 0) (fun c => Z.gtb c 0).
Definition cpv_ge := cpv_rich (fun c => Z.geb c 0) (fun c => Z.gtb c 0).

(* ------------------------------------------------------------------ encoders for the harness *)
Definition run_vercmp (i : str * option N * str * option N) : val :=
  let '(v1, r1, v2, r2) := i in VZ (ver_cmp v1 r1 v2 r2).
Definition run_vercmp_orig (i : str * option N * str * option N) : val :=
  let '(v1, r1, v2, r2) := i in VZ (ver_cmp_orig v1 r1 v2 r2).
Definition invalid_operator : val :=
  VErr [73;110;118;97;108;105;100;86;101;114;115;105;111;110]%N.   (* "InvalidVersion" *)
Definition run_match (i : N * bool * str * option N * str * option N) : val :=
  let '(op, neg, v, r, pv, pr) := i in
  match op_vals op with
  | None => invalid_operator
  | Some _ => VB (version_match op neg v r pv pr)
  end.
Definition run_valid (v : str) : val := VB (valid_version v).
Definition run_cpvops (i : cpv * cpv) : val :=
  let '(a, b) := i in
  VL [VB (cpv_eq a b); VB (cpv_ne a b); VB (cpv_lt a b); VB (cpv_le a b); VB (cpv_gt a b); VB (cpv_ge a b)].
