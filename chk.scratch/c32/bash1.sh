# usage: bash1.sh  (reads replies from fd 3 = file)
source /repo/data/lib/pkgcore/ebd/ebuild-daemon-lib.bash
die() { echo "DIE: $*"; exit 99; }
eerror() { echo "EERROR: $*"; }
PKGCORE_EBD_READ_FD=3
PKGCORE_EBD_WRITE_FD=4
PKGCORE_NONFATAL=true
EBUILD_PHASE=install
for i in 1 2 3; do
  out=$(__ebd_ipc_cmd doins "--dest=/usr" a "b c")
  echo "call $i rc=$? out=[$out]"
done
