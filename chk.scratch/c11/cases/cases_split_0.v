From Coq Require Import List NArith ZArith Bool.
From Verif Require Import Base.Val C11.Model_C11 C11.Spec_C11 C11.Class_C11.
Import ListNotations.
Open Scope N_scope.
Definition cases : list ((list tok) * val) := 
[
  ([(TPos 12); TStar; TStar; (TPos 10); (TNeg 12)],
   (VL [(VL [(VZ 2%Z)]); (VL [(VZ 0%Z); (VZ 10%Z)]); (VL [(VZ 1%Z); (VZ 12%Z)])]));
  ([(TNeg 10); TStar; (THdr 1); (TPos 12); TStar],
   (VL [(VL [(VZ 2%Z)]); (VL [(VZ 3%Z); (VZ 1%Z)])]));
  ([TStar; TStar; (TNeg 12); (TNeg 12); TBad],
   VNone);
  ([(THdr 2); (TPos 11); TStar; (THdr 1); (THdr 1)],
   (VL [(VL [(VZ 3%Z); (VZ 2%Z)])]));
  ([(TPos 12); (TPos 11); (TNeg 12); (TPos 10); TStar],
   (VL [(VL [(VZ 2%Z)])]));
  ([TBad; (TPos 11); TStar],
   VNone);
  ([(TPos 11); (TPos 10); (TPos 10); (TPos 11); (TPos 12); (TNeg 12); (TPos 11); (TPos 12)],
   (VL [(VL [(VZ 0%Z); (VZ 11%Z)]); (VL [(VZ 0%Z); (VZ 10%Z)]); (VL [(VZ 0%Z); (VZ 10%Z)]); (VL [(VZ 0%Z); (VZ 11%Z)]); (VL [(VZ 0%Z); (VZ 12%Z)]); (VL [(VZ 1%Z); (VZ 12%Z)]); (VL [(VZ 0%Z); (VZ 11%Z)]); (VL [(VZ 0%Z); (VZ 12%Z)])]));
  ([TStar; (TNeg 12)],
   (VL [(VL [(VZ 2%Z)]); (VL [(VZ 1%Z); (VZ 12%Z)])]));
  ([(TPos 12)],
   (VL [(VL [(VZ 0%Z); (VZ 12%Z)])]));
  ([(TPos 12)],
   (VL [(VL [(VZ 0%Z); (VZ 12%Z)])]));
  ([(TNeg 12)],
   (VL [(VL [(VZ 1%Z); (VZ 12%Z)])]));
  ([(TPos 12); TStar; (TPos 12); (TPos 12); (TPos 12); (THdr 2); (TPos 11); (TNeg 10)],
   (VL [(VL [(VZ 2%Z)]); (VL [(VZ 0%Z); (VZ 12%Z)]); (VL [(VZ 0%Z); (VZ 12%Z)]); (VL [(VZ 0%Z); (VZ 12%Z)]); (VL [(VZ 0%Z); (VZ 201%Z)]); (VL [(VZ 1%Z); (VZ 200%Z)])]));
  ([(TPos 10); (TNeg 11); TBad; (TPos 10)],
   VNone);
  ([(TPos 12); (TNeg 10); (TNeg 10)],
   (VL [(VL [(VZ 0%Z); (VZ 12%Z)]); (VL [(VZ 1%Z); (VZ 10%Z)]); (VL [(VZ 1%Z); (VZ 10%Z)])]));
  ([(TPos 10); (THdr 1); TStar; (THdr 1); (TPos 10)],
   (VL [(VL [(VZ 0%Z); (VZ 10%Z)]); (VL [(VZ 3%Z); (VZ 1%Z)]); (VL [(VZ 0%Z); (VZ 100%Z)])]));
  ([(TPos 10); (TNeg 10); TBad; (TPos 10); (THdr 1); (THdr 1); (THdr 2); TStar],
   VNone);
  ([(TPos 11); (TPos 12)],
   (VL [(VL [(VZ 0%Z); (VZ 11%Z)]); (VL [(VZ 0%Z); (VZ 12%Z)])]));
  ([(TNeg 10); (TPos 12); (TPos 10); (TPos 11); TStar; (TNeg 12)],
   (VL [(VL [(VZ 2%Z)]); (VL [(VZ 1%Z); (VZ 12%Z)])]));
  ([(THdr 2); TStar; TStar; (TPos 10)],
   (VL [(VL [(VZ 3%Z); (VZ 2%Z)]); (VL [(VZ 3%Z); (VZ 2%Z)]); (VL [(VZ 0%Z); (VZ 200%Z)])]));
  ([(TPos 11)],
   (VL [(VL [(VZ 0%Z); (VZ 11%Z)])]));
  ([(TPos 11); (TPos 11); (TPos 10); (TPos 10); (TPos 11); (TNeg 12)],
   (VL [(VL [(VZ 0%Z); (VZ 11%Z)]); (VL [(VZ 0%Z); (VZ 11%Z)]); (VL [(VZ 0%Z); (VZ 10%Z)]); (VL [(VZ 0%Z); (VZ 10%Z)]); (VL [(VZ 0%Z); (VZ 11%Z)]); (VL [(VZ 1%Z); (VZ 12%Z)])]));
  ([(TPos 12); (TNeg 10); (TPos 11); (THdr 2); (TPos 11)],
   (VL [(VL [(VZ 0%Z); (VZ 12%Z)]); (VL [(VZ 1%Z); (VZ 10%Z)]); (VL [(VZ 0%Z); (VZ 11%Z)]); (VL [(VZ 0%Z); (VZ 201%Z)])]));
  ([TStar; (THdr 1); (TPos 12)],
   (VL [(VL [(VZ 2%Z)]); (VL [(VZ 0%Z); (VZ 102%Z)])]));
  ([(TNeg 10)],
   (VL [(VL [(VZ 1%Z); (VZ 10%Z)])]));
  ([TBad; (THdr 1); (TNeg 12); (TPos 10)],
   VNone);
  ([(TNeg 10); (TPos 11); (TNeg 10); (TPos 11)],
   (VL [(VL [(VZ 1%Z); (VZ 10%Z)]); (VL [(VZ 0%Z); (VZ 11%Z)]); (VL [(VZ 1%Z); (VZ 10%Z)]); (VL [(VZ 0%Z); (VZ 11%Z)])]));
  ([(THdr 1); (TPos 10); TBad],
   VNone);
  ([(TPos 12); (THdr 1); (TPos 12); TStar; (TNeg 12); (THdr 2)],
   (VL [(VL [(VZ 0%Z); (VZ 12%Z)]); (VL [(VZ 3%Z); (VZ 1%Z)]); (VL [(VZ 1%Z); (VZ 102%Z)])]));
  ([(TNeg 10)],
   (VL [(VL [(VZ 1%Z); (VZ 10%Z)])]));
  ([(TNeg 12); TStar; TStar; (TPos 11); (TPos 12)],
   (VL [(VL [(VZ 2%Z)]); (VL [(VZ 0%Z); (VZ 11%Z)]); (VL [(VZ 0%Z); (VZ 12%Z)])]));
  ([(TPos 10); (TPos 12); TBad; (TPos 10); TBad; (TNeg 11); (TPos 12); (TNeg 11)],
   VNone);
  ([(THdr 2); (TPos 12); (TPos 12)],
   (VL [(VL [(VZ 0%Z); (VZ 202%Z)]); (VL [(VZ 0%Z); (VZ 202%Z)])]));
  ([(TPos 10)],
   (VL [(VL [(VZ 0%Z); (VZ 10%Z)])]));
  ([(TPos 12); (TNeg 11); (TPos 10); (TPos 12); (TPos 12)],
   (VL [(VL [(VZ 0%Z); (VZ 12%Z)]); (VL [(VZ 1%Z); (VZ 11%Z)]); (VL [(VZ 0%Z); (VZ 10%Z)]); (VL [(VZ 0%Z); (VZ 12%Z)]); (VL [(VZ 0%Z); (VZ 12%Z)])]));
  ([(THdr 1)],
   (VL (@nil (val))));
  ([(TPos 11); (TNeg 11); TBad; (THdr 2); TStar; (TPos 11); (TNeg 12); TStar],
   VNone);
  ([(TPos 12); (TNeg 10); (TNeg 11); TStar; (THdr 1)],
   (VL [(VL [(VZ 2%Z)])]));
  ([(TNeg 12)],
   (VL [(VL [(VZ 1%Z); (VZ 12%Z)])]));
  ([(TPos 11); TStar; (TNeg 10); (TNeg 10); (TPos 12); TBad],
   VNone);
  ([(TPos 10); (TNeg 12); (TNeg 12); (THdr 2); (TPos 12)],
   (VL [(VL [(VZ 0%Z); (VZ 10%Z)]); (VL [(VZ 1%Z); (VZ 12%Z)]); (VL [(VZ 1%Z); (VZ 12%Z)]); (VL [(VZ 0%Z); (VZ 202%Z)])]));
  ([(THdr 2); (TNeg 12); TBad],
   VNone);
  ([(THdr 2); (THdr 1); (THdr 2); TStar; (TPos 10); TStar],
   (VL [(VL [(VZ 3%Z); (VZ 2%Z)]); (VL [(VZ 3%Z); (VZ 2%Z)])]));
  ([TStar; (TNeg 12); TStar; TStar],
   (VL [(VL [(VZ 2%Z)])]));
  ([(TNeg 12); (TPos 10); (TNeg 11)],
   (VL [(VL [(VZ 1%Z); (VZ 12%Z)]); (VL [(VZ 0%Z); (VZ 10%Z)]); (VL [(VZ 1%Z); (VZ 11%Z)])]));
  ([(TPos 10); (THdr 2)],
   (VL [(VL [(VZ 0%Z); (VZ 10%Z)])]));
  ([(TPos 12); (TPos 11); (TNeg 12); (TNeg 11); (THdr 2); TStar; (TPos 11); (TPos 11)],
   (VL [(VL [(VZ 0%Z); (VZ 12%Z)]); (VL [(VZ 0%Z); (VZ 11%Z)]); (VL [(VZ 1%Z); (VZ 12%Z)]); (VL [(VZ 1%Z); (VZ 11%Z)]); (VL [(VZ 3%Z); (VZ 2%Z)]); (VL [(VZ 0%Z); (VZ 201%Z)]); (VL [(VZ 0%Z); (VZ 201%Z)])]));
  ([(TNeg 12); TStar; (TPos 11); (TPos 10)],
   (VL [(VL [(VZ 2%Z)]); (VL [(VZ 0%Z); (VZ 11%Z)]); (VL [(VZ 0%Z); (VZ 10%Z)])]));
  ([(TPos 10); (TNeg 10); TStar; (TPos 10); (TNeg 12); (TNeg 10)],
   (VL [(VL [(VZ 2%Z)]); (VL [(VZ 0%Z); (VZ 10%Z)]); (VL [(VZ 1%Z); (VZ 12%Z)]); (VL [(VZ 1%Z); (VZ 10%Z)])]));
  ([(TPos 12); (TNeg 12)],
   (VL [(VL [(VZ 0%Z); (VZ 12%Z)]); (VL [(VZ 1%Z); (VZ 12%Z)])]));
  ([(TPos 10); (TPos 12); (TNeg 10); TBad; (TNeg 10); (TPos 11); (TPos 11); (TPos 10)],
   VNone);
  ([(TPos 10); (TPos 12); (TNeg 11); (TNeg 12); (TNeg 12)],
   (VL [(VL [(VZ 0%Z); (VZ 10%Z)]); (VL [(VZ 0%Z); (VZ 12%Z)]); (VL [(VZ 1%Z); (VZ 11%Z)]); (VL [(VZ 1%Z); (VZ 12%Z)]); (VL [(VZ 1%Z); (VZ 12%Z)])]));
  ([(TPos 10)],
   (VL [(VL [(VZ 0%Z); (VZ 10%Z)])]));
  ([(TPos 11); TStar; (TPos 11); (TNeg 11); (TPos 11); (TNeg 11); (TPos 11); (TPos 11)],
   (VL [(VL [(VZ 2%Z)]); (VL [(VZ 0%Z); (VZ 11%Z)]); (VL [(VZ 1%Z); (VZ 11%Z)]); (VL [(VZ 0%Z); (VZ 11%Z)]); (VL [(VZ 1%Z); (VZ 11%Z)]); (VL [(VZ 0%Z); (VZ 11%Z)]); (VL [(VZ 0%Z); (VZ 11%Z)])]));
  ([(TNeg 12); TStar; (THdr 2); (TPos 10); (TNeg 11)],
   (VL [(VL [(VZ 2%Z)]); (VL [(VZ 0%Z); (VZ 200%Z)]); (VL [(VZ 1%Z); (VZ 201%Z)])]));
  ([TBad; (TPos 11); (TPos 12)],
   VNone);
  ([(THdr 1); (TPos 11); (TPos 12)],
   (VL [(VL [(VZ 0%Z); (VZ 101%Z)]); (VL [(VZ 0%Z); (VZ 102%Z)])]));
  ([(THdr 2); (TPos 10); (TNeg 10)],
   (VL [(VL [(VZ 0%Z); (VZ 200%Z)]); (VL [(VZ 1%Z); (VZ 200%Z)])]));
  ([(TNeg 10); (TPos 12); (TPos 12)],
   (VL [(VL [(VZ 1%Z); (VZ 10%Z)]); (VL [(VZ 0%Z); (VZ 12%Z)]); (VL [(VZ 0%Z); (VZ 12%Z)])]));
  ([(THdr 1); (TNeg 11); (TNeg 11); TStar; (TPos 12); (TPos 11)],
   (VL [(VL [(VZ 3%Z); (VZ 1%Z)]); (VL [(VZ 0%Z); (VZ 102%Z)]); (VL [(VZ 0%Z); (VZ 101%Z)])]));
  ([(TPos 11); (THdr 2); (TPos 12)],
   (VL [(VL [(VZ 0%Z); (VZ 11%Z)]); (VL [(VZ 0%Z); (VZ 202%Z)])]));
  ([(THdr 2); (TNeg 11)],
   (VL [(VL [(VZ 1%Z); (VZ 201%Z)])]));
  ([(TPos 12); (THdr 1); (THdr 1); (TPos 12); (TPos 11); (THdr 1); (TPos 12); (TNeg 11)],
   (VL [(VL [(VZ 0%Z); (VZ 12%Z)]); (VL [(VZ 0%Z); (VZ 102%Z)]); (VL [(VZ 0%Z); (VZ 101%Z)]); (VL [(VZ 0%Z); (VZ 102%Z)]); (VL [(VZ 1%Z); (VZ 101%Z)])]));
  ([(TPos 10); (THdr 2); TBad; (THdr 2); (THdr 2)],
   VNone);
  ([(TPos 11); (TNeg 10); (TPos 12); (TPos 12); (TPos 12); (TPos 11); (TPos 12); (THdr 2)],
   (VL [(VL [(VZ 0%Z); (VZ 11%Z)]); (VL [(VZ 1%Z); (VZ 10%Z)]); (VL [(VZ 0%Z); (VZ 12%Z)]); (VL [(VZ 0%Z); (VZ 12%Z)]); (VL [(VZ 0%Z); (VZ 12%Z)]); (VL [(VZ 0%Z); (VZ 11%Z)]); (VL [(VZ 0%Z); (VZ 12%Z)])]));
  ([TStar; (TNeg 11); (TNeg 10)],
   (VL [(VL [(VZ 2%Z)]); (VL [(VZ 1%Z); (VZ 11%Z)]); (VL [(VZ 1%Z); (VZ 10%Z)])]));
  ([(TNeg 10); (TPos 12); TStar; (TPos 12); (TPos 10); TStar; TStar; TStar],
   (VL [(VL [(VZ 2%Z)])]));
  ([(TNeg 11); (TPos 11); TStar; (TPos 10); (TNeg 11)],
   (VL [(VL [(VZ 2%Z)]); (VL [(VZ 0%Z); (VZ 10%Z)]); (VL [(VZ 1%Z); (VZ 11%Z)])]));
  ([(TNeg 10); (TNeg 11); (TPos 11); (TPos 10); (TPos 11)],
   (VL [(VL [(VZ 1%Z); (VZ 10%Z)]); (VL [(VZ 1%Z); (VZ 11%Z)]); (VL [(VZ 0%Z); (VZ 11%Z)]); (VL [(VZ 0%Z); (VZ 10%Z)]); (VL [(VZ 0%Z); (VZ 11%Z)])]));
  ([(TNeg 11); (TNeg 10)],
   (VL [(VL [(VZ 1%Z); (VZ 11%Z)]); (VL [(VZ 1%Z); (VZ 10%Z)])]));
  ([(TNeg 10)],
   (VL [(VL [(VZ 1%Z); (VZ 10%Z)])]));
  ([(TPos 10); (THdr 2); (TPos 11); (TPos 12); TBad; (TNeg 11)],
   VNone);
  ([(TNeg 11); (TPos 12); (THdr 2); (TPos 11); (TPos 10); (TNeg 11); (THdr 1); (TPos 10)],
   (VL [(VL [(VZ 1%Z); (VZ 11%Z)]); (VL [(VZ 0%Z); (VZ 12%Z)]); (VL [(VZ 0%Z); (VZ 201%Z)]); (VL [(VZ 0%Z); (VZ 200%Z)]); (VL [(VZ 1%Z); (VZ 201%Z)]); (VL [(VZ 0%Z); (VZ 100%Z)])]));
  ([(TPos 11); (TPos 10); (THdr 2); TBad; (TNeg 10); (TNeg 12); (TNeg 10); (THdr 2)],
   VNone);
  ([(TPos 12)],
   (VL [(VL [(VZ 0%Z); (VZ 12%Z)])]));
  ([(TNeg 11)],
   (VL [(VL [(VZ 1%Z); (VZ 11%Z)])]));
  ([(TPos 10); (TPos 11); (TNeg 12)],
   (VL [(VL [(VZ 0%Z); (VZ 10%Z)]); (VL [(VZ 0%Z); (VZ 11%Z)]); (VL [(VZ 1%Z); (VZ 12%Z)])]));
  ([(TPos 12); (TPos 12); (TPos 11); (THdr 1); TBad; (TPos 12); (TPos 12); (TPos 10)],
   VNone);
  ([(TPos 12); (THdr 2)],
   (VL [(VL [(VZ 0%Z); (VZ 12%Z)])]));
  ([(THdr 1)],
   (VL (@nil (val))));
  ([TStar; (TNeg 10)],
   (VL [(VL [(VZ 2%Z)]); (VL [(VZ 1%Z); (VZ 10%Z)])]));
  ([(TPos 12); (THdr 1); (TNeg 11); (TPos 11)],
   (VL [(VL [(VZ 0%Z); (VZ 12%Z)]); (VL [(VZ 1%Z); (VZ 101%Z)]); (VL [(VZ 0%Z); (VZ 101%Z)])]));
  ([(TNeg 11); (THdr 2); (TPos 12); (THdr 2); (TPos 10)],
   (VL [(VL [(VZ 1%Z); (VZ 11%Z)]); (VL [(VZ 0%Z); (VZ 202%Z)]); (VL [(VZ 0%Z); (VZ 200%Z)])]));
  ([TStar],
   (VL [(VL [(VZ 2%Z)])]));
  ([(TPos 10); (TNeg 10); (TPos 11); TStar],
   (VL [(VL [(VZ 2%Z)])]));
  ([(TNeg 10); TStar; (TPos 11); TStar; (TNeg 10); (TPos 12)],
   (VL [(VL [(VZ 2%Z)]); (VL [(VZ 1%Z); (VZ 10%Z)]); (VL [(VZ 0%Z); (VZ 12%Z)])]));
  ([(TPos 11); (THdr 2)],
   (VL [(VL [(VZ 0%Z); (VZ 11%Z)])]));
  ([(TNeg 10); (TNeg 11); (TPos 11); (TPos 12)],
   (VL [(VL [(VZ 1%Z); (VZ 10%Z)]); (VL [(VZ 1%Z); (VZ 11%Z)]); (VL [(VZ 0%Z); (VZ 11%Z)]); (VL [(VZ 0%Z); (VZ 12%Z)])]));
  ([(TPos 12); (THdr 2); (TNeg 10); (TPos 12); (TPos 11); (TPos 10); (TPos 11); (TPos 10)],
   (VL [(VL [(VZ 0%Z); (VZ 12%Z)]); (VL [(VZ 1%Z); (VZ 200%Z)]); (VL [(VZ 0%Z); (VZ 202%Z)]); (VL [(VZ 0%Z); (VZ 201%Z)]); (VL [(VZ 0%Z); (VZ 200%Z)]); (VL [(VZ 0%Z); (VZ 201%Z)]); (VL [(VZ 0%Z); (VZ 200%Z)])]));
  ([(TNeg 12); (TPos 11); (TPos 10); (TNeg 12); TStar; (TPos 12); (TPos 12); (TNeg 11)],
   (VL [(VL [(VZ 2%Z)]); (VL [(VZ 0%Z); (VZ 12%Z)]); (VL [(VZ 0%Z); (VZ 12%Z)]); (VL [(VZ 1%Z); (VZ 11%Z)])]));
  ([TStar; (TPos 12); (THdr 1)],
   (VL [(VL [(VZ 2%Z)]); (VL [(VZ 0%Z); (VZ 12%Z)])]));
  ([(THdr 2); TBad; TStar; (TNeg 11)],
   VNone);
  ([TStar; (TPos 11)],
   (VL [(VL [(VZ 2%Z)]); (VL [(VZ 0%Z); (VZ 11%Z)])]));
  ([(TNeg 11); (THdr 2); TStar; (TNeg 11)],
   (VL [(VL [(VZ 1%Z); (VZ 11%Z)]); (VL [(VZ 3%Z); (VZ 2%Z)]); (VL [(VZ 1%Z); (VZ 201%Z)])]));
  ([(TPos 11)],
   (VL [(VL [(VZ 0%Z); (VZ 11%Z)])]));
  ([TStar; (THdr 2); (TPos 12); TStar; (TNeg 11); (TPos 10)],
   (VL [(VL [(VZ 2%Z)]); (VL [(VZ 3%Z); (VZ 2%Z)]); (VL [(VZ 1%Z); (VZ 201%Z)]); (VL [(VZ 0%Z); (VZ 200%Z)])]));
  ([TStar; (TNeg 10); (TNeg 10); (THdr 1)],
   (VL [(VL [(VZ 2%Z)]); (VL [(VZ 1%Z); (VZ 10%Z)]); (VL [(VZ 1%Z); (VZ 10%Z)])]));
  ([(TPos 10)],
   (VL [(VL [(VZ 0%Z); (VZ 10%Z)])]));
  ([(TNeg 11); (TNeg 10); (TNeg 10); (TPos 11)],
   (VL [(VL [(VZ 1%Z); (VZ 11%Z)]); (VL [(VZ 1%Z); (VZ 10%Z)]); (VL [(VZ 1%Z); (VZ 10%Z)]); (VL [(VZ 0%Z); (VZ 11%Z)])]));
  ([(TPos 10); TStar; (TPos 11); (TPos 12)],
   (VL [(VL [(VZ 2%Z)]); (VL [(VZ 0%Z); (VZ 11%Z)]); (VL [(VZ 0%Z); (VZ 12%Z)])]));
  ([TStar; (THdr 2); TStar; (TNeg 12)],
   (VL [(VL [(VZ 2%Z)]); (VL [(VZ 3%Z); (VZ 2%Z)]); (VL [(VZ 1%Z); (VZ 202%Z)])]));
  ([TBad; (TNeg 10); (TPos 10); (TNeg 11)],
   VNone);
  ([TBad],
   VNone);
  ([(TPos 11); (TNeg 12)],
   (VL [(VL [(VZ 0%Z); (VZ 11%Z)]); (VL [(VZ 1%Z); (VZ 12%Z)])]));
  ([(THdr 1); (TPos 12); (TNeg 12); TStar; (TPos 11); (TNeg 11); TStar; (TPos 11)],
   (VL [(VL [(VZ 3%Z); (VZ 1%Z)]); (VL [(VZ 3%Z); (VZ 1%Z)]); (VL [(VZ 0%Z); (VZ 101%Z)])]));
  ([(TPos 12); (TPos 10); (TPos 12)],
   (VL [(VL [(VZ 0%Z); (VZ 12%Z)]); (VL [(VZ 0%Z); (VZ 10%Z)]); (VL [(VZ 0%Z); (VZ 12%Z)])]));
  ([(TNeg 10); (TPos 12); (TNeg 10); (TPos 12); (TNeg 11); TStar; (TPos 12); (TNeg 10)],
   (VL [(VL [(VZ 2%Z)]); (VL [(VZ 0%Z); (VZ 12%Z)]); (VL [(VZ 1%Z); (VZ 10%Z)])]));
  ([(TPos 10); (TPos 12)],
   (VL [(VL [(VZ 0%Z); (VZ 10%Z)]); (VL [(VZ 0%Z); (VZ 12%Z)])]));
  ([TStar; (TNeg 12); (TPos 11); (TPos 12); (TNeg 12)],
   (VL [(VL [(VZ 2%Z)]); (VL [(VZ 1%Z); (VZ 12%Z)]); (VL [(VZ 0%Z); (VZ 11%Z)]); (VL [(VZ 0%Z); (VZ 12%Z)]); (VL [(VZ 1%Z); (VZ 12%Z)])]));
  ([TStar],
   (VL [(VL [(VZ 2%Z)])]));
  ([(TNeg 11); TStar; (TNeg 12); TBad; TStar; (TPos 12)],
   VNone);
  ([(TPos 12); (TPos 10)],
   (VL [(VL [(VZ 0%Z); (VZ 12%Z)]); (VL [(VZ 0%Z); (VZ 10%Z)])]));
  ([(TNeg 10)],
   (VL [(VL [(VZ 1%Z); (VZ 10%Z)])]));
  ([(THdr 1)],
   (VL (@nil (val))));
  ([(TNeg 11)],
   (VL [(VL [(VZ 1%Z); (VZ 11%Z)])]));
  ([(TNeg 11); (TPos 11); TBad; (TNeg 10); (TPos 10); (THdr 2); (TNeg 12); (TNeg 10)],
   VNone);
  ([(TNeg 10); TBad; (TNeg 11); (THdr 2); (TNeg 11); (TNeg 12)],
   VNone);
  ([(TPos 12); (TPos 12); (TNeg 10); (TPos 10); (TPos 12); (TPos 12); (TPos 12); TBad],
   VNone);
  ([(THdr 2); (TPos 10); (TPos 10); (TPos 11); (TPos 11)],
   (VL [(VL [(VZ 0%Z); (VZ 200%Z)]); (VL [(VZ 0%Z); (VZ 200%Z)]); (VL [(VZ 0%Z); (VZ 201%Z)]); (VL [(VZ 0%Z); (VZ 201%Z)])]));
  ([(TPos 12); (TNeg 12); (THdr 1); (THdr 1); TStar; (THdr 1); TStar; TStar],
   (VL [(VL [(VZ 0%Z); (VZ 12%Z)]); (VL [(VZ 1%Z); (VZ 12%Z)]); (VL [(VZ 3%Z); (VZ 1%Z)]); (VL [(VZ 3%Z); (VZ 1%Z)]); (VL [(VZ 3%Z); (VZ 1%Z)])]));
  ([(TPos 10); (TPos 10)],
   (VL [(VL [(VZ 0%Z); (VZ 10%Z)]); (VL [(VZ 0%Z); (VZ 10%Z)])]));
  ([TStar; (TPos 11); (TNeg 12)],
   (VL [(VL [(VZ 2%Z)]); (VL [(VZ 0%Z); (VZ 11%Z)]); (VL [(VZ 1%Z); (VZ 12%Z)])]));
  ([(TNeg 12)],
   (VL [(VL [(VZ 1%Z); (VZ 12%Z)])]));
  ([(TNeg 11)],
   (VL [(VL [(VZ 1%Z); (VZ 11%Z)])]));
  ([(THdr 2)],
   (VL (@nil (val))));
  ([TBad; (TNeg 11); (THdr 1); (TPos 10); (TPos 10)],
   VNone);
  ([(TPos 12); TStar; (TPos 12); (THdr 1); (TPos 11)],
   (VL [(VL [(VZ 2%Z)]); (VL [(VZ 0%Z); (VZ 12%Z)]); (VL [(VZ 0%Z); (VZ 101%Z)])]));
  ([(TPos 12); TStar; (TPos 10)],
   (VL [(VL [(VZ 2%Z)]); (VL [(VZ 0%Z); (VZ 10%Z)])]));
  ([(TPos 11); (TNeg 10); TBad; TBad; (THdr 1); (TPos 10); TBad; (THdr 2)],
   VNone);
  ([TStar; (TNeg 12); (THdr 1); (TPos 11); (TPos 12); (THdr 1)],
   (VL [(VL [(VZ 2%Z)]); (VL [(VZ 1%Z); (VZ 12%Z)]); (VL [(VZ 0%Z); (VZ 101%Z)]); (VL [(VZ 0%Z); (VZ 102%Z)])]));
  ([(TPos 12); TStar; (THdr 1); (TPos 12); (TNeg 11); (TPos 10)],
   (VL [(VL [(VZ 2%Z)]); (VL [(VZ 0%Z); (VZ 102%Z)]); (VL [(VZ 1%Z); (VZ 101%Z)]); (VL [(VZ 0%Z); (VZ 100%Z)])]));
  ([(TNeg 12); (TPos 12); (THdr 1)],
   (VL [(VL [(VZ 1%Z); (VZ 12%Z)]); (VL [(VZ 0%Z); (VZ 12%Z)])]));
  ([(TNeg 10); TStar; (TPos 10)],
   (VL [(VL [(VZ 2%Z)]); (VL [(VZ 0%Z); (VZ 10%Z)])]));
  ([(TPos 10); (THdr 1); (TPos 11); (TPos 12)],
   (VL [(VL [(VZ 0%Z); (VZ 10%Z)]); (VL [(VZ 0%Z); (VZ 101%Z)]); (VL [(VZ 0%Z); (VZ 102%Z)])]));
  ([(TNeg 11); (TPos 10)],
   (VL [(VL [(VZ 1%Z); (VZ 11%Z)]); (VL [(VZ 0%Z); (VZ 10%Z)])]));
  ([(TPos 10); (THdr 2)],
   (VL [(VL [(VZ 0%Z); (VZ 10%Z)])]));
  ([(THdr 1); (TNeg 11); (TNeg 11); (TNeg 11); (TPos 10); (TPos 10)],
   (VL [(VL [(VZ 1%Z); (VZ 101%Z)]); (VL [(VZ 1%Z); (VZ 101%Z)]); (VL [(VZ 1%Z); (VZ 101%Z)]); (VL [(VZ 0%Z); (VZ 100%Z)]); (VL [(VZ 0%Z); (VZ 100%Z)])]));
  ([(TPos 10); (THdr 1); (TPos 10); (TPos 10); TStar; (TNeg 12)],
   (VL [(VL [(VZ 0%Z); (VZ 10%Z)]); (VL [(VZ 3%Z); (VZ 1%Z)]); (VL [(VZ 1%Z); (VZ 102%Z)])]));
  ([TStar; (THdr 1); (TPos 10); (TNeg 11)],
   (VL [(VL [(VZ 2%Z)]); (VL [(VZ 0%Z); (VZ 100%Z)]); (VL [(VZ 1%Z); (VZ 101%Z)])]));
  ([(TPos 11); (TPos 11); (THdr 1)],
   (VL [(VL [(VZ 0%Z); (VZ 11%Z)]); (VL [(VZ 0%Z); (VZ 11%Z)])]));
  ([TStar; (TPos 11); (TPos 12); (TNeg 12); (TPos 12); (TPos 10); (TNeg 12); (THdr 1)],
   (VL [(VL [(VZ 2%Z)]); (VL [(VZ 0%Z); (VZ 11%Z)]); (VL [(VZ 0%Z); (VZ 12%Z)]); (VL [(VZ 1%Z); (VZ 12%Z)]); (VL [(VZ 0%Z); (VZ 12%Z)]); (VL [(VZ 0%Z); (VZ 10%Z)]); (VL [(VZ 1%Z); (VZ 12%Z)])]));
  ([(THdr 1); (THdr 1); TStar; (TNeg 10); (TPos 10)],
   (VL [(VL [(VZ 3%Z); (VZ 1%Z)]); (VL [(VZ 1%Z); (VZ 100%Z)]); (VL [(VZ 0%Z); (VZ 100%Z)])]));
  ([(TNeg 11); (TPos 11); (THdr 1); (TNeg 12); (TPos 11)],
   (VL [(VL [(VZ 1%Z); (VZ 11%Z)]); (VL [(VZ 0%Z); (VZ 11%Z)]); (VL [(VZ 1%Z); (VZ 102%Z)]); (VL [(VZ 0%Z); (VZ 101%Z)])]));
  ([(TPos 11); TBad; (TPos 12); (TNeg 10); (THdr 2)],
   VNone);
  ([(TNeg 10); (TPos 12); (THdr 2)],
   (VL [(VL [(VZ 1%Z); (VZ 10%Z)]); (VL [(VZ 0%Z); (VZ 12%Z)])]));
  ([(TPos 12); (THdr 1); (TPos 12); (TNeg 10); (TNeg 10); TBad],
   VNone);
  ([TStar; (TPos 10)],
   (VL [(VL [(VZ 2%Z)]); (VL [(VZ 0%Z); (VZ 10%Z)])]));
  ([(TPos 12); (THdr 2); (TNeg 12); (TPos 11); (TPos 12)],
   (VL [(VL [(VZ 0%Z); (VZ 12%Z)]); (VL [(VZ 1%Z); (VZ 202%Z)]); (VL [(VZ 0%Z); (VZ 201%Z)]); (VL [(VZ 0%Z); (VZ 202%Z)])]));
  ([(TNeg 11); (TNeg 10); (TNeg 10)],
   (VL [(VL [(VZ 1%Z); (VZ 11%Z)]); (VL [(VZ 1%Z); (VZ 10%Z)]); (VL [(VZ 1%Z); (VZ 10%Z)])]));
  ([TStar; (TPos 10); (TPos 11)],
   (VL [(VL [(VZ 2%Z)]); (VL [(VZ 0%Z); (VZ 10%Z)]); (VL [(VZ 0%Z); (VZ 11%Z)])]));
  ([(TPos 12); (TPos 12); (THdr 1); (TPos 10); (TPos 11); (TPos 10)],
   (VL [(VL [(VZ 0%Z); (VZ 12%Z)]); (VL [(VZ 0%Z); (VZ 12%Z)]); (VL [(VZ 0%Z); (VZ 100%Z)]); (VL [(VZ 0%Z); (VZ 101%Z)]); (VL [(VZ 0%Z); (VZ 100%Z)])]));
  ([(THdr 1); (TPos 10); (TPos 12); (TPos 11)],
   (VL [(VL [(VZ 0%Z); (VZ 100%Z)]); (VL [(VZ 0%Z); (VZ 102%Z)]); (VL [(VZ 0%Z); (VZ 101%Z)])]));
  ([(TPos 11); (TPos 11); TStar; (THdr 2)],
   (VL [(VL [(VZ 2%Z)])]));
  ([TStar],
   (VL [(VL [(VZ 2%Z)])]));
  ([(TNeg 12)],
   (VL [(VL [(VZ 1%Z); (VZ 12%Z)])]));
  ([(TNeg 12); TStar; (TNeg 10); (TPos 11); (THdr 1)],
   (VL [(VL [(VZ 2%Z)]); (VL [(VZ 1%Z); (VZ 10%Z)]); (VL [(VZ 0%Z); (VZ 11%Z)])]));
  ([(TPos 11); TStar],
   (VL [(VL [(VZ 2%Z)])]));
  ([TStar; (TNeg 10); (TNeg 12); (TPos 12); (TNeg 11); (TNeg 10); (TPos 11); (TNeg 10)],
   (VL [(VL [(VZ 2%Z)]); (VL [(VZ 1%Z); (VZ 10%Z)]); (VL [(VZ 1%Z); (VZ 12%Z)]); (VL [(VZ 0%Z); (VZ 12%Z)]); (VL [(VZ 1%Z); (VZ 11%Z)]); (VL [(VZ 1%Z); (VZ 10%Z)]); (VL [(VZ 0%Z); (VZ 11%Z)]); (VL [(VZ 1%Z); (VZ 10%Z)])]));
  ([TStar; (THdr 1); (TPos 11); (TNeg 10); (TNeg 11)],
   (VL [(VL [(VZ 2%Z)]); (VL [(VZ 0%Z); (VZ 101%Z)]); (VL [(VZ 1%Z); (VZ 100%Z)]); (VL [(VZ 1%Z); (VZ 101%Z)])]));
  ([TStar; (TPos 12); TBad; (TNeg 11); (TPos 10)],
   VNone);
  ([(THdr 1); (TPos 12); (TPos 10); (TPos 10); (TNeg 10); (TPos 12); (TPos 10); TBad],
   VNone);
  ([(TNeg 11); (TPos 10)],
   (VL [(VL [(VZ 1%Z); (VZ 11%Z)]); (VL [(VZ 0%Z); (VZ 10%Z)])]));
  ([(THdr 2); (TPos 10); (TPos 12)],
   (VL [(VL [(VZ 0%Z); (VZ 200%Z)]); (VL [(VZ 0%Z); (VZ 202%Z)])]));
  ([(TPos 12); (THdr 2); (TPos 11); (THdr 2); (TNeg 10); (TPos 11); (TPos 12); (TPos 10)],
   (VL [(VL [(VZ 0%Z); (VZ 12%Z)]); (VL [(VZ 0%Z); (VZ 201%Z)]); (VL [(VZ 1%Z); (VZ 200%Z)]); (VL [(VZ 0%Z); (VZ 201%Z)]); (VL [(VZ 0%Z); (VZ 202%Z)]); (VL [(VZ 0%Z); (VZ 200%Z)])]));
  ([(TPos 10); (TNeg 10); (TNeg 12); (TPos 12)],
   (VL [(VL [(VZ 0%Z); (VZ 10%Z)]); (VL [(VZ 1%Z); (VZ 10%Z)]); (VL [(VZ 1%Z); (VZ 12%Z)]); (VL [(VZ 0%Z); (VZ 12%Z)])]));
  ([(TPos 10); (TPos 11)],
   (VL [(VL [(VZ 0%Z); (VZ 10%Z)]); (VL [(VZ 0%Z); (VZ 11%Z)])]));
  ([(THdr 1); (TPos 11); (TPos 10); (TNeg 12); (TPos 10)],
   (VL [(VL [(VZ 0%Z); (VZ 101%Z)]); (VL [(VZ 0%Z); (VZ 100%Z)]); (VL [(VZ 1%Z); (VZ 102%Z)]); (VL [(VZ 0%Z); (VZ 100%Z)])]));
  ([(TPos 10); (TNeg 10); (TPos 12); (THdr 2); (TPos 10); TStar; (TPos 10); (TPos 10)],
   (VL [(VL [(VZ 0%Z); (VZ 10%Z)]); (VL [(VZ 1%Z); (VZ 10%Z)]); (VL [(VZ 0%Z); (VZ 12%Z)]); (VL [(VZ 3%Z); (VZ 2%Z)]); (VL [(VZ 0%Z); (VZ 200%Z)]); (VL [(VZ 0%Z); (VZ 200%Z)])]));
  ([(TPos 10)],
   (VL [(VL [(VZ 0%Z); (VZ 10%Z)])]));
  ([(THdr 2); TStar],
   (VL [(VL [(VZ 3%Z); (VZ 2%Z)])]));
  ([(TPos 11); TBad; (TPos 10)],
   VNone);
  ([(TNeg 12); (TPos 11); (TNeg 11)],
   (VL [(VL [(VZ 1%Z); (VZ 12%Z)]); (VL [(VZ 0%Z); (VZ 11%Z)]); (VL [(VZ 1%Z); (VZ 11%Z)])]));
  ([(TPos 10); (TPos 12); (TPos 10); (TNeg 10); (TPos 12)],
   (VL [(VL [(VZ 0%Z); (VZ 10%Z)]); (VL [(VZ 0%Z); (VZ 12%Z)]); (VL [(VZ 0%Z); (VZ 10%Z)]); (VL [(VZ 1%Z); (VZ 10%Z)]); (VL [(VZ 0%Z); (VZ 12%Z)])]));
  ([(TPos 12); (TNeg 12); (TPos 11); TStar; (TPos 12); (TPos 10); (TPos 11); (TPos 12)],
   (VL [(VL [(VZ 2%Z)]); (VL [(VZ 0%Z); (VZ 12%Z)]); (VL [(VZ 0%Z); (VZ 10%Z)]); (VL [(VZ 0%Z); (VZ 11%Z)]); (VL [(VZ 0%Z); (VZ 12%Z)])]));
  ([(THdr 2); (TPos 11); (TPos 10); (TPos 11); (TPos 11)],
   (VL [(VL [(VZ 0%Z); (VZ 201%Z)]); (VL [(VZ 0%Z); (VZ 200%Z)]); (VL [(VZ 0%Z); (VZ 201%Z)]); (VL [(VZ 0%Z); (VZ 201%Z)])]));
  ([(TPos 12); (TPos 12); (TPos 11)],
   (VL [(VL [(VZ 0%Z); (VZ 12%Z)]); (VL [(VZ 0%Z); (VZ 12%Z)]); (VL [(VZ 0%Z); (VZ 11%Z)])]));
  ([(TPos 11); TStar; (TNeg 12); TStar],
   (VL [(VL [(VZ 2%Z)])]));
  ([(TNeg 12); (TNeg 11); (TPos 12); TStar],
   (VL [(VL [(VZ 2%Z)])]));
  ([(TNeg 11); (TNeg 11); (TPos 10); (TPos 10); (TPos 11); (TPos 10); TBad; TStar],
   VNone);
  ([(TPos 11); TStar; (TNeg 11)],
   (VL [(VL [(VZ 2%Z)]); (VL [(VZ 1%Z); (VZ 11%Z)])]));
  ([(TPos 11); (TNeg 10); (TPos 10); TStar],
   (VL [(VL [(VZ 2%Z)])]));
  ([(TPos 11); (TNeg 10); (TPos 12); (TNeg 12); TStar],
   (VL [(VL [(VZ 2%Z)])]));
  ([(TPos 10)],
   (VL [(VL [(VZ 0%Z); (VZ 10%Z)])]));
  ([(TPos 10); (THdr 1); (TPos 11); (TPos 12); (THdr 1)],
   (VL [(VL [(VZ 0%Z); (VZ 10%Z)]); (VL [(VZ 0%Z); (VZ 101%Z)]); (VL [(VZ 0%Z); (VZ 102%Z)])]));
  ([(THdr 2); (TNeg 11)],
   (VL [(VL [(VZ 1%Z); (VZ 201%Z)])]));
  ([(TNeg 11); (TPos 10); TStar; (TNeg 10); (TPos 12); (TPos 12)],
   (VL [(VL [(VZ 2%Z)]); (VL [(VZ 1%Z); (VZ 10%Z)]); (VL [(VZ 0%Z); (VZ 12%Z)]); (VL [(VZ 0%Z); (VZ 12%Z)])]));
  ([(TNeg 11); (TNeg 11); (TPos 11); (TNeg 10); (TPos 11); TStar],
   (VL [(VL [(VZ 2%Z)])]));
  ([(TPos 12); (TPos 11)],
   (VL [(VL [(VZ 0%Z); (VZ 12%Z)]); (VL [(VZ 0%Z); (VZ 11%Z)])]));
  ([(TNeg 10)],
   (VL [(VL [(VZ 1%Z); (VZ 10%Z)])]));
  ([(TNeg 12)],
   (VL [(VL [(VZ 1%Z); (VZ 12%Z)])]));
  ([(TNeg 10); (TPos 11); (TNeg 10); (TPos 12)],
   (VL [(VL [(VZ 1%Z); (VZ 10%Z)]); (VL [(VZ 0%Z); (VZ 11%Z)]); (VL [(VZ 1%Z); (VZ 10%Z)]); (VL [(VZ 0%Z); (VZ 12%Z)])]));
  ([(TPos 10); TStar; (TPos 10); (TPos 11)],
   (VL [(VL [(VZ 2%Z)]); (VL [(VZ 0%Z); (VZ 10%Z)]); (VL [(VZ 0%Z); (VZ 11%Z)])]));
  ([(TNeg 11); (TPos 12); (TNeg 11); (TNeg 12); (TPos 10)],
   (VL [(VL [(VZ 1%Z); (VZ 11%Z)]); (VL [(VZ 0%Z); (VZ 12%Z)]); (VL [(VZ 1%Z); (VZ 11%Z)]); (VL [(VZ 1%Z); (VZ 12%Z)]); (VL [(VZ 0%Z); (VZ 10%Z)])]));
  ([(THdr 2)],
   (VL (@nil (val))));
  ([(TPos 11); (TNeg 12)],
   (VL [(VL [(VZ 0%Z); (VZ 11%Z)]); (VL [(VZ 1%Z); (VZ 12%Z)])]));
  ([TStar],
   (VL [(VL [(VZ 2%Z)])]));
  ([TStar; (TNeg 11); (TNeg 10)],
   (VL [(VL [(VZ 2%Z)]); (VL [(VZ 1%Z); (VZ 11%Z)]); (VL [(VZ 1%Z); (VZ 10%Z)])]));
  ([(TPos 12); (TPos 10); (TNeg 12)],
   (VL [(VL [(VZ 0%Z); (VZ 12%Z)]); (VL [(VZ 0%Z); (VZ 10%Z)]); (VL [(VZ 1%Z); (VZ 12%Z)])]));
  ([(TPos 11); TStar; TStar; (TNeg 12); (TNeg 11)],
   (VL [(VL [(VZ 2%Z)]); (VL [(VZ 1%Z); (VZ 12%Z)]); (VL [(VZ 1%Z); (VZ 11%Z)])]));
  ([(TNeg 12)],
   (VL [(VL [(VZ 1%Z); (VZ 12%Z)])]));
  ([(THdr 1); (TPos 11)],
   (VL [(VL [(VZ 0%Z); (VZ 101%Z)])]));
  ([TStar; (TNeg 11); (TPos 12); (TPos 11); (THdr 2); (THdr 2); (TPos 12); (TPos 10)],
   (VL [(VL [(VZ 2%Z)]); (VL [(VZ 1%Z); (VZ 11%Z)]); (VL [(VZ 0%Z); (VZ 12%Z)]); (VL [(VZ 0%Z); (VZ 11%Z)]); (VL [(VZ 0%Z); (VZ 202%Z)]); (VL [(VZ 0%Z); (VZ 200%Z)])]));
  ([(TNeg 12); (THdr 1); TStar; (TNeg 11); (TPos 10)],
   (VL [(VL [(VZ 1%Z); (VZ 12%Z)]); (VL [(VZ 3%Z); (VZ 1%Z)]); (VL [(VZ 1%Z); (VZ 101%Z)]); (VL [(VZ 0%Z); (VZ 100%Z)])]));
  ([(TPos 10); (TNeg 10); (THdr 1)],
   (VL [(VL [(VZ 0%Z); (VZ 10%Z)]); (VL [(VZ 1%Z); (VZ 10%Z)])]));
  ([(TNeg 11); (TPos 12); (THdr 2); TStar; (TNeg 12); (THdr 2)],
   (VL [(VL [(VZ 1%Z); (VZ 11%Z)]); (VL [(VZ 0%Z); (VZ 12%Z)]); (VL [(VZ 3%Z); (VZ 2%Z)]); (VL [(VZ 1%Z); (VZ 202%Z)])]));
  ([(TNeg 12)],
   (VL [(VL [(VZ 1%Z); (VZ 12%Z)])]));
  ([(TNeg 11); (TNeg 12)],
   (VL [(VL [(VZ 1%Z); (VZ 11%Z)]); (VL [(VZ 1%Z); (VZ 12%Z)])]));
  ([(TPos 10); (TNeg 11); (TPos 10); (TNeg 11); TBad; (TPos 11); (TPos 12); (THdr 2)],
   VNone);
  ([(TPos 12); (TPos 12)],
   (VL [(VL [(VZ 0%Z); (VZ 12%Z)]); (VL [(VZ 0%Z); (VZ 12%Z)])]));
  ([(TPos 12); TStar; (TPos 10)],
   (VL [(VL [(VZ 2%Z)]); (VL [(VZ 0%Z); (VZ 10%Z)])]));
  ([(TPos 11); (TPos 12); (TPos 11); (TPos 12)],
   (VL [(VL [(VZ 0%Z); (VZ 11%Z)]); (VL [(VZ 0%Z); (VZ 12%Z)]); (VL [(VZ 0%Z); (VZ 11%Z)]); (VL [(VZ 0%Z); (VZ 12%Z)])]));
  ([(TPos 12); TStar; (TNeg 12)],
   (VL [(VL [(VZ 2%Z)]); (VL [(VZ 1%Z); (VZ 12%Z)])]));
  ([(TPos 12); (TPos 12); TStar; (TPos 11); TStar],
   (VL [(VL [(VZ 2%Z)])]));
  ([(TPos 11); (TPos 10); (TPos 11); (TPos 11); (THdr 1); (TPos 10)],
   (VL [(VL [(VZ 0%Z); (VZ 11%Z)]); (VL [(VZ 0%Z); (VZ 10%Z)]); (VL [(VZ 0%Z); (VZ 11%Z)]); (VL [(VZ 0%Z); (VZ 11%Z)]); (VL [(VZ 0%Z); (VZ 100%Z)])]));
  ([(THdr 1)],
   (VL (@nil (val))));
  ([(TNeg 12)],
   (VL [(VL [(VZ 1%Z); (VZ 12%Z)])]));
  ([(TPos 12); (THdr 2); (TNeg 11); (THdr 2); (TPos 12)],
   (VL [(VL [(VZ 0%Z); (VZ 12%Z)]); (VL [(VZ 1%Z); (VZ 201%Z)]); (VL [(VZ 0%Z); (VZ 202%Z)])]));
  ([(TPos 12); (TPos 11); TBad],
   VNone);
  ([(THdr 2); (THdr 2); (THdr 1); (TPos 10); (TPos 10); (TNeg 12)],
   (VL [(VL [(VZ 0%Z); (VZ 100%Z)]); (VL [(VZ 0%Z); (VZ 100%Z)]); (VL [(VZ 1%Z); (VZ 102%Z)])]));
  ([(THdr 2); (THdr 1); (TNeg 11); (TPos 12); (TPos 10)],
   (VL [(VL [(VZ 1%Z); (VZ 101%Z)]); (VL [(VZ 0%Z); (VZ 102%Z)]); (VL [(VZ 0%Z); (VZ 100%Z)])]));
  ([(TPos 11); TStar; (TNeg 12); (TPos 12); (TNeg 11); TStar],
   (VL [(VL [(VZ 2%Z)])]));
  ([(TPos 10); (THdr 2); TStar; (TPos 11); TStar; (TPos 12)],
   (VL [(VL [(VZ 0%Z); (VZ 10%Z)]); (VL [(VZ 3%Z); (VZ 2%Z)]); (VL [(VZ 3%Z); (VZ 2%Z)]); (VL [(VZ 0%Z); (VZ 202%Z)])]));
  ([TStar; (TPos 11); (TPos 11); (TPos 10); (TPos 12)],
   (VL [(VL [(VZ 2%Z)]); (VL [(VZ 0%Z); (VZ 11%Z)]); (VL [(VZ 0%Z); (VZ 11%Z)]); (VL [(VZ 0%Z); (VZ 10%Z)]); (VL [(VZ 0%Z); (VZ 12%Z)])]));
  ([TStar],
   (VL [(VL [(VZ 2%Z)])]));
  ([TBad; (TPos 12); (TPos 11); (THdr 1); (THdr 2); TStar],
   VNone);
  ([(THdr 1)],
   (VL (@nil (val))));
  ([(TPos 10); (TPos 10); (TNeg 10); (THdr 2); (TPos 12); (TNeg 12); (THdr 2); (THdr 1)],
   (VL [(VL [(VZ 0%Z); (VZ 10%Z)]); (VL [(VZ 0%Z); (VZ 10%Z)]); (VL [(VZ 1%Z); (VZ 10%Z)]); (VL [(VZ 0%Z); (VZ 202%Z)]); (VL [(VZ 1%Z); (VZ 202%Z)])]));
  ([(TPos 12); TBad],
   VNone);
  ([(TNeg 12); (TPos 12); (TPos 10); (THdr 2)],
   (VL [(VL [(VZ 1%Z); (VZ 12%Z)]); (VL [(VZ 0%Z); (VZ 12%Z)]); (VL [(VZ 0%Z); (VZ 10%Z)])]));
  ([(TPos 12)],
   (VL [(VL [(VZ 0%Z); (VZ 12%Z)])]));
  ([TStar; (TPos 11); (TPos 11)],
   (VL [(VL [(VZ 2%Z)]); (VL [(VZ 0%Z); (VZ 11%Z)]); (VL [(VZ 0%Z); (VZ 11%Z)])]));
  ([(TPos 10); (TPos 10)],
   (VL [(VL [(VZ 0%Z); (VZ 10%Z)]); (VL [(VZ 0%Z); (VZ 10%Z)])]));
  ([(TNeg 12); (THdr 1); (TNeg 11); (TNeg 11); (THdr 1); TStar],
   (VL [(VL [(VZ 1%Z); (VZ 12%Z)]); (VL [(VZ 1%Z); (VZ 101%Z)]); (VL [(VZ 1%Z); (VZ 101%Z)]); (VL [(VZ 3%Z); (VZ 1%Z)])]));
  ([(TPos 11); (TNeg 10)],
   (VL [(VL [(VZ 0%Z); (VZ 11%Z)]); (VL [(VZ 1%Z); (VZ 10%Z)])]));
  ([(THdr 1); (THdr 1); TStar; (TPos 12)],
   (VL [(VL [(VZ 3%Z); (VZ 1%Z)]); (VL [(VZ 0%Z); (VZ 102%Z)])]));
  ([TStar; (THdr 1)],
   (VL [(VL [(VZ 2%Z)])]));
  ([(THdr 1); TStar; (TPos 12)],
   (VL [(VL [(VZ 3%Z); (VZ 1%Z)]); (VL [(VZ 0%Z); (VZ 102%Z)])]));
  ([(THdr 1); (THdr 2); (TNeg 11); (TPos 11); (TPos 10)],
   (VL [(VL [(VZ 1%Z); (VZ 201%Z)]); (VL [(VZ 0%Z); (VZ 201%Z)]); (VL [(VZ 0%Z); (VZ 200%Z)])]));
  ([(TPos 12); (TPos 12); (TNeg 11); (TNeg 12)],
   (VL [(VL [(VZ 0%Z); (VZ 12%Z)]); (VL [(VZ 0%Z); (VZ 12%Z)]); (VL [(VZ 1%Z); (VZ 11%Z)]); (VL [(VZ 1%Z); (VZ 12%Z)])]));
  ([TStar; (TPos 11); (TPos 12); (TPos 11); (TPos 10)],
   (VL [(VL [(VZ 2%Z)]); (VL [(VZ 0%Z); (VZ 11%Z)]); (VL [(VZ 0%Z); (VZ 12%Z)]); (VL [(VZ 0%Z); (VZ 11%Z)]); (VL [(VZ 0%Z); (VZ 10%Z)])]));
  ([TBad; TStar; (TPos 11); (TPos 12); (TPos 10); (TNeg 11); (TPos 11); (TNeg 12)],
   VNone);
  ([(TNeg 10); (TNeg 12); (TNeg 12); (TPos 11); (TNeg 11); (TPos 12); (THdr 1); (TNeg 10)],
   (VL [(VL [(VZ 1%Z); (VZ 10%Z)]); (VL [(VZ 1%Z); (VZ 12%Z)]); (VL [(VZ 1%Z); (VZ 12%Z)]); (VL [(VZ 0%Z); (VZ 11%Z)]); (VL [(VZ 1%Z); (VZ 11%Z)]); (VL [(VZ 0%Z); (VZ 12%Z)]); (VL [(VZ 1%Z); (VZ 100%Z)])]));
  ([(THdr 1); (TNeg 10); (THdr 2); TBad; (TPos 10); (THdr 2); (TPos 10); TBad],
   VNone);
  ([(THdr 2); (TPos 12); (TPos 10); (TNeg 10)],
   (VL [(VL [(VZ 0%Z); (VZ 202%Z)]); (VL [(VZ 0%Z); (VZ 200%Z)]); (VL [(VZ 1%Z); (VZ 200%Z)])]));
  ([TStar; (TNeg 10); (TNeg 11)],
   (VL [(VL [(VZ 2%Z)]); (VL [(VZ 1%Z); (VZ 10%Z)]); (VL [(VZ 1%Z); (VZ 11%Z)])]));
  ([(TPos 12); (THdr 2); TBad; (TPos 12); TStar],
   VNone);
  ([(TPos 11); (THdr 1)],
   (VL [(VL [(VZ 0%Z); (VZ 11%Z)])]));
  ([(TNeg 10); (TPos 12); TStar],
   (VL [(VL [(VZ 2%Z)])]));
  ([(TPos 12); (TPos 12); (THdr 2); (TPos 10); TStar; TBad],
   VNone);
  ([(TPos 12); (TPos 11); (TPos 10)],
   (VL [(VL [(VZ 0%Z); (VZ 12%Z)]); (VL [(VZ 0%Z); (VZ 11%Z)]); (VL [(VZ 0%Z); (VZ 10%Z)])]));
  ([(TNeg 10); TStar; (TNeg 10); (TNeg 12)],
   (VL [(VL [(VZ 2%Z)]); (VL [(VZ 1%Z); (VZ 10%Z)]); (VL [(VZ 1%Z); (VZ 12%Z)])]));
  ([(TPos 11); (TNeg 11)],
   (VL [(VL [(VZ 0%Z); (VZ 11%Z)]); (VL [(VZ 1%Z); (VZ 11%Z)])]));
  ([(TNeg 11)],
   (VL [(VL [(VZ 1%Z); (VZ 11%Z)])]));
  ([(TPos 11); TBad; (TPos 12); (TPos 12)],
   VNone);
  ([(TPos 10); (TPos 11); (TPos 12); TBad; (TNeg 12); (TNeg 11); (TPos 11); (TNeg 12)],
   VNone);
  ([TStar; (THdr 1); (TPos 11)],
   (VL [(VL [(VZ 2%Z)]); (VL [(VZ 0%Z); (VZ 101%Z)])]));
  ([TBad; (TPos 12)],
   VNone);
  ([(TPos 12)],
   (VL [(VL [(VZ 0%Z); (VZ 12%Z)])]));
  ([(TPos 12); (TPos 11); TStar; (TPos 10)],
   (VL [(VL [(VZ 2%Z)]); (VL [(VZ 0%Z); (VZ 10%Z)])]));
  ([(TPos 12); (TPos 11); TStar; (TPos 11); (TPos 11); (TNeg 11); (TPos 11); (TPos 12)],
   (VL [(VL [(VZ 2%Z)]); (VL [(VZ 0%Z); (VZ 11%Z)]); (VL [(VZ 0%Z); (VZ 11%Z)]); (VL [(VZ 1%Z); (VZ 11%Z)]); (VL [(VZ 0%Z); (VZ 11%Z)]); (VL [(VZ 0%Z); (VZ 12%Z)])]));
  ([(TNeg 10); (TNeg 12)],
   (VL [(VL [(VZ 1%Z); (VZ 10%Z)]); (VL [(VZ 1%Z); (VZ 12%Z)])]));
  ([TStar; TStar; (TNeg 11); (THdr 2)],
   (VL [(VL [(VZ 2%Z)]); (VL [(VZ 1%Z); (VZ 11%Z)])]));
  ([(TNeg 11); TStar; (TPos 10); (TPos 11)],
   (VL [(VL [(VZ 2%Z)]); (VL [(VZ 0%Z); (VZ 10%Z)]); (VL [(VZ 0%Z); (VZ 11%Z)])]));
  ([TStar; (TNeg 10); (TPos 11)],
   (VL [(VL [(VZ 2%Z)]); (VL [(VZ 1%Z); (VZ 10%Z)]); (VL [(VZ 0%Z); (VZ 11%Z)])]));
  ([(TPos 10); (TPos 12); (TPos 10); (TNeg 12)],
   (VL [(VL [(VZ 0%Z); (VZ 10%Z)]); (VL [(VZ 0%Z); (VZ 12%Z)]); (VL [(VZ 0%Z); (VZ 10%Z)]); (VL [(VZ 1%Z); (VZ 12%Z)])]));
  ([(TPos 11); TStar],
   (VL [(VL [(VZ 2%Z)])]));
  ([(TPos 11); (THdr 2); (TNeg 12)],
   (VL [(VL [(VZ 0%Z); (VZ 11%Z)]); (VL [(VZ 1%Z); (VZ 202%Z)])]));
  ([(TNeg 10); (TPos 10)],
   (VL [(VL [(VZ 1%Z); (VZ 10%Z)]); (VL [(VZ 0%Z); (VZ 10%Z)])]));
  ([(TPos 11); (THdr 2); (TPos 11); (THdr 1); (TPos 10)],
   (VL [(VL [(VZ 0%Z); (VZ 11%Z)]); (VL [(VZ 0%Z); (VZ 201%Z)]); (VL [(VZ 0%Z); (VZ 100%Z)])]));
  ([(THdr 2); (TPos 12); (TNeg 12); (TNeg 11); (TPos 10)],
   (VL [(VL [(VZ 0%Z); (VZ 202%Z)]); (VL [(VZ 1%Z); (VZ 202%Z)]); (VL [(VZ 1%Z); (VZ 201%Z)]); (VL [(VZ 0%Z); (VZ 200%Z)])]));
  ([(TNeg 10); (TPos 11); (THdr 1); (TPos 10); (THdr 1)],
   (VL [(VL [(VZ 1%Z); (VZ 10%Z)]); (VL [(VZ 0%Z); (VZ 11%Z)]); (VL [(VZ 0%Z); (VZ 100%Z)])]));
  ([(TPos 10); (THdr 1); (TPos 11)],
   (VL [(VL [(VZ 0%Z); (VZ 10%Z)]); (VL [(VZ 0%Z); (VZ 101%Z)])]));
  ([(THdr 2); (TNeg 11); (TPos 10); (TPos 12); TStar; (TPos 11)],
   (VL [(VL [(VZ 3%Z); (VZ 2%Z)]); (VL [(VZ 0%Z); (VZ 201%Z)])]));
  ([(TPos 11); TStar; (TPos 10); (TPos 10); (TPos 11); (TPos 11)],
   (VL [(VL [(VZ 2%Z)]); (VL [(VZ 0%Z); (VZ 10%Z)]); (VL [(VZ 0%Z); (VZ 10%Z)]); (VL [(VZ 0%Z); (VZ 11%Z)]); (VL [(VZ 0%Z); (VZ 11%Z)])]));
  ([(TPos 11); (TNeg 11); TStar; (TNeg 11); (THdr 1); TStar; (TPos 12); (TNeg 12)],
   (VL [(VL [(VZ 2%Z)]); (VL [(VZ 1%Z); (VZ 11%Z)]); (VL [(VZ 3%Z); (VZ 1%Z)]); (VL [(VZ 0%Z); (VZ 102%Z)]); (VL [(VZ 1%Z); (VZ 102%Z)])]));
  ([TStar; TBad; (TNeg 12); (TPos 10); (TNeg 12); TStar],
   VNone);
  ([TStar; (THdr 2); (TPos 12); (TPos 10); (TPos 12); (TNeg 10)],
   (VL [(VL [(VZ 2%Z)]); (VL [(VZ 0%Z); (VZ 202%Z)]); (VL [(VZ 0%Z); (VZ 200%Z)]); (VL [(VZ 0%Z); (VZ 202%Z)]); (VL [(VZ 1%Z); (VZ 200%Z)])]));
  ([(TNeg 12); (TPos 12); (TPos 11); (TPos 10); (TPos 12)],
   (VL [(VL [(VZ 1%Z); (VZ 12%Z)]); (VL [(VZ 0%Z); (VZ 12%Z)]); (VL [(VZ 0%Z); (VZ 11%Z)]); (VL [(VZ 0%Z); (VZ 10%Z)]); (VL [(VZ 0%Z); (VZ 12%Z)])]));
  ([(TNeg 10); (TPos 12); (TPos 12); TStar; (THdr 2)],
   (VL [(VL [(VZ 2%Z)])]));
  ([(THdr 1); (THdr 1); (TNeg 12); (TPos 12)],
   (VL [(VL [(VZ 1%Z); (VZ 102%Z)]); (VL [(VZ 0%Z); (VZ 102%Z)])]));
  ([TStar; (THdr 1); (TPos 10)],
   (VL [(VL [(VZ 2%Z)]); (VL [(VZ 0%Z); (VZ 100%Z)])]));
  ([(THdr 2); (THdr 1); (TPos 10); (TNeg 12)],
   (VL [(VL [(VZ 0%Z); (VZ 100%Z)]); (VL [(VZ 1%Z); (VZ 102%Z)])]));
  ([TStar; (TPos 12)],
   (VL [(VL [(VZ 2%Z)]); (VL [(VZ 0%Z); (VZ 12%Z)])]));
  ([(THdr 1); (THdr 2); (TNeg 10); (TPos 11); TBad],
   VNone);
  ([(TPos 11); (TNeg 10); (THdr 1); (TPos 10)],
   (VL [(VL [(VZ 0%Z); (VZ 11%Z)]); (VL [(VZ 1%Z); (VZ 10%Z)]); (VL [(VZ 0%Z); (VZ 100%Z)])]));
  ([(TPos 10); (THdr 2); (TPos 12); (TPos 11); (TPos 11); TStar; (TPos 10); (TPos 10)],
   (VL [(VL [(VZ 0%Z); (VZ 10%Z)]); (VL [(VZ 3%Z); (VZ 2%Z)]); (VL [(VZ 0%Z); (VZ 200%Z)]); (VL [(VZ 0%Z); (VZ 200%Z)])]));
  ([(TPos 10); (THdr 2); (THdr 2); (TNeg 10); (THdr 1); (TNeg 11); (TNeg 10); (TPos 10)],
   (VL [(VL [(VZ 0%Z); (VZ 10%Z)]); (VL [(VZ 1%Z); (VZ 200%Z)]); (VL [(VZ 1%Z); (VZ 101%Z)]); (VL [(VZ 1%Z); (VZ 100%Z)]); (VL [(VZ 0%Z); (VZ 100%Z)])]));
  ([(TPos 11); (TNeg 12)],
   (VL [(VL [(VZ 0%Z); (VZ 11%Z)]); (VL [(VZ 1%Z); (VZ 12%Z)])]));
  ([(TPos 11)],
   (VL [(VL [(VZ 0%Z); (VZ 11%Z)])]));
  ([(TPos 12)],
   (VL [(VL [(VZ 0%Z); (VZ 12%Z)])]));
  ([(THdr 2); (TPos 12); (TNeg 10); (TNeg 10); (TNeg 10)],
   (VL [(VL [(VZ 0%Z); (VZ 202%Z)]); (VL [(VZ 1%Z); (VZ 200%Z)]); (VL [(VZ 1%Z); (VZ 200%Z)]); (VL [(VZ 1%Z); (VZ 200%Z)])]));
  ([(TNeg 11); (THdr 2); (TPos 10); (TPos 11)],
   (VL [(VL [(VZ 1%Z); (VZ 11%Z)]); (VL [(VZ 0%Z); (VZ 200%Z)]); (VL [(VZ 0%Z); (VZ 201%Z)])]));
  ([(TPos 11)],
   (VL [(VL [(VZ 0%Z); (VZ 11%Z)])]));
  ([(TNeg 11); (THdr 2); (TPos 10)],
   (VL [(VL [(VZ 1%Z); (VZ 11%Z)]); (VL [(VZ 0%Z); (VZ 200%Z)])]));
  ([(TNeg 12); (TPos 11)],
   (VL [(VL [(VZ 1%Z); (VZ 12%Z)]); (VL [(VZ 0%Z); (VZ 11%Z)])]));
  ([(TPos 10); (TPos 11); (TPos 10); (TNeg 10); TStar; (THdr 2); (TNeg 12); (TNeg 10)],
   (VL [(VL [(VZ 2%Z)]); (VL [(VZ 1%Z); (VZ 202%Z)]); (VL [(VZ 1%Z); (VZ 200%Z)])]));
  ([(TPos 11); (TPos 10); (TPos 11); (THdr 2); (TPos 12); (TPos 12)],
   (VL [(VL [(VZ 0%Z); (VZ 11%Z)]); (VL [(VZ 0%Z); (VZ 10%Z)]); (VL [(VZ 0%Z); (VZ 11%Z)]); (VL [(VZ 0%Z); (VZ 202%Z)]); (VL [(VZ 0%Z); (VZ 202%Z)])]));
  ([(THdr 2); (TPos 12); (TPos 12); (TNeg 12); TStar],
   (VL [(VL [(VZ 3%Z); (VZ 2%Z)])]));
  ([(TPos 10); (TNeg 11); (TNeg 10); (TPos 12)],
   (VL [(VL [(VZ 0%Z); (VZ 10%Z)]); (VL [(VZ 1%Z); (VZ 11%Z)]); (VL [(VZ 1%Z); (VZ 10%Z)]); (VL [(VZ 0%Z); (VZ 12%Z)])]));
  ([(THdr 1); (TPos 10); (TPos 11)],
   (VL [(VL [(VZ 0%Z); (VZ 100%Z)]); (VL [(VZ 0%Z); (VZ 101%Z)])]));
  ([(TPos 11); (THdr 2); (TPos 10)],
   (VL [(VL [(VZ 0%Z); (VZ 11%Z)]); (VL [(VZ 0%Z); (VZ 200%Z)])]))
].
Eval vm_compute in (mismatches run_split cases).
Eval vm_compute in (where_ (fun i r => negb (spec_split_ok i r)) cases).
