import pymodel as M
def is_wild(t): return t == '*' or t.endswith('_*')
def clears(w, f): return w == '*' or (w.endswith('_*') and f.startswith(w[:-2]))
def spec(c): return c[0][0] in 'GV'
def class_a(prog, pkg):
    E = [c for c in M.entries(prog) if M.applies(c[0], pkg)]
    for j, cj in enumerate(E):
        ws = [t for t in cj[1] if is_wild(t)]
        if not ws: continue
        for ci in E[:j]:
            if any(clears(w, f) for w in ws for f in ci[2]): return True
        if spec(cj):
            for ci in E[j+1:]:
                if not spec(ci) and any(clears(w, f) for w in ws for f in ci[2]): return True
    return False
def class_c(prog, pkg):
    E = [c for c in M.entries(prog) if M.applies(c[0], pkg)]
    S = [c for c in E if spec(c)]
    L = [c for c in E if not spec(c)]
    for j, cj in enumerate(S):
        for cl in S[j+1:]:
            for f in set(cj[1]) | set(cj[2]):
                if (f in cj[1] and f in cl[2]) or (f in cj[2] and f in cl[1]):
                    if any(f in c[1] or f in c[2] for c in L): return True
    return False
# stale analysis: returns (keys, stale_keys, cloned, stale_seed, hazard_keys)
def analyse(prog):
    t = prog[0]
    if t == 'new': return (set(), set(), False, False, set())
    if t == 'add':
        keys, st, cl, ss, hz = analyse(prog[1]); c = prog[2]
        if c[0][0] in 'AG':
            if not c[1] and not c[2]: return (keys, st, cl, ss, hz)
            return (keys, set(keys), cl, cl, hz)
        k = c[0][1]
        if k in st or (k not in keys and ss): hz = hz | {k}
        return (keys | {k}, st, cl, ss, hz)
    if t == 'merge':
        keys, st, cl, ss, hz = analyse(prog[1]); qk, qs, qc, qss, qh = analyse(prog[2])
        hasg = any(c[0][0] in 'AG' and (c[1] or c[2]) for c in M.entries(prog[2]))
        nk = keys | qk
        if ss: hz = hz | (qk - keys)
        if hasg: return (nk, set(nk), cl, cl, hz | qh)
        return (nk, st | (qk if ss else set()), cl, ss, hz | qh)
    if t == 'freeze': return analyse(prog[1])
    if t == 'clone':
        keys, st, cl, ss, hz = analyse(prog[1])
        return (keys, st, True, False, hz)
    if t == 'opt':
        keys, st, cl, ss, hz = analyse(prog[1])
        return (keys, set(keys), cl, cl, hz)
def class_b(prog, pkg):
    return pkg[0] in analyse(prog)[4]
