(* Prop_C45.v — the property theorems of C45 and nothing else. *)
From Coq Require Import List NArith ZArith Bool.
Import ListNotations.
From Verif Require Import Base.Val C01.Model_C01 C04.Model_C04 C44.Model_C44 C45.Model_C45 C45.Spec_C45 C45.Proofs_C45.

(* the operator table regenerated from glsa.py is the GLSA one *)
Theorem op_translate_is_glsa : op_translate_stmt.
Proof. exact op_translate_is_glsa_proof. Qed.
Print Assumptions op_translate_is_glsa.
