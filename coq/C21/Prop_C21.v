(* C21 — property theorems (statements only; proofs are in Proofs_C21.v).

   [prot] / [ign] are ARBITRARY predicates on offset-relative locations (the theorems hold for every
   CONFIG_PROTECT / CONFIG_PROTECT_MASK / COLLISION_IGNORE configuration, every offset, every live
   tree and every package); the model instantiates them with protect_filter / ignore_filter.
   pkg_ok: the incoming package has one entry per location and ships no ._cfg… names.
   locs_wf: every location splits into dirname/basename and joins back (true of normalised paths).
   A regular file is File (content, attrs): attrs = mode.uid.gid, so "= Some (File d)" also fixes mode and owner. *)
From Coq Require Import List NArith ZArith Bool.
Import ListNotations.
From Verif Require Import Base.Val C22.Model_C22 C21.Model_C21 C21.Spec_C21 C21.Proofs_C21.

(* A live regular file under CONFIG_PROTECT (not masked, not ignored) whose content differs from the
   incoming entry is not a location of the contents set handed to the merge, and is unchanged by it. *)
Theorem never_overwritten :
  forall (prot ign : str -> bool) (off : str) (fs inst : pmap) (P : str) (d : fdata) (n : node),
    pkg_ok inst ->
    protected_file prot ign off fs P d ->
    incoming_differs inst P d n ->
    ~ In P (map fst (pre_merge prot ign off fs inst)) /\
    pm_get P (merge_fs fs (pre_merge prot ign off fs inst)) = Some (File d).
Proof. exact never_overwritten_proof. Qed.
Print Assumptions never_overwritten.

(* The incoming entry is renamed to ._cfgNNNN_<name> beside the protected file, NNNN being the number
   of an identical pending update if there is one, else non-negative and above every existing number
   of a pending update of that name; the renamed entry is in the set handed to the merge. *)
Theorem written_beside_with_numbering_rule :
  forall (prot ign : str -> bool) (off : str) (fs inst : pmap) (P : str) (d : fdata) (n : node),
    pkg_ok inst -> locs_wf inst = true ->
    protected_file prot ign off fs P d ->
    incoming_differs inst P d n ->
    let c := cfg_count fs P n in
    let dest := pjoin (dirname P) (cfg_name c (basename P)) in
    numbering_rule fs (dirname P) (basename P) n c /\
    In ((dest, n), (P, n)) (renames prot ign off fs inst) /\
    pm_get dest (pre_merge prot ign off fs inst) = Some n.
Proof. exact written_beside2_proof. Qed.
Print Assumptions written_beside_with_numbering_rule.

(* "Reusing the number" of an identical pending update means the destination IS that pending file:
   a name the scan accepts ("._cfg" + four ASCII digits + "_" + name) is exactly the name generated for
   its number, so no other pending update is touched. *)
Theorem reuse_targets_identical_file :
  forall (fs : pmap) (dir fname : str) (c : Z) (x : str) (content : node),
    pending_update fs dir fname c x content ->
    pjoin dir (cfg_name c fname) = pjoin dir x /\ content = live_at fs (pjoin dir (cfg_name c fname)).
Proof. exact reuse_targets_identical_file_proof. Qed.
Print Assumptions reuse_targets_identical_file.

(* ... and after the merge the tree holds the incoming content under that name. *)
Theorem incoming_content_beside :
  forall (prot ign : str -> bool) (off : str) (fs inst : pmap) (P : str) (d : fdata) (n : node),
    pkg_ok inst -> locs_wf inst = true ->
    protected_file prot ign off fs P d ->
    incoming_differs inst P d n ->
    n <> Dir ->
    pm_get (pjoin (dirname P) (cfg_name (cfg_count fs P n) (basename P)))
           (merge_fs fs (pre_merge prot ign off fs inst)) = Some n.
Proof. exact incoming_content_beside2_proof. Qed.
Print Assumptions incoming_content_beside.

(* The recorded contents (the install set after post_merge) keep the real name and not the ._cfg one. *)
Theorem recorded_keeps_real_name :
  forall (prot ign : str -> bool) (off : str) (fs inst : pmap) (P : str) (d : fdata) (n : node),
    pkg_ok inst -> locs_wf inst = true ->
    protected_file prot ign off fs P d ->
    incoming_differs inst P d n ->
    let recorded := post_merge prot ign off fs inst (pre_merge prot ign off fs inst) in
    pm_get P recorded = Some n /\
    pm_get (pjoin (dirname P) (cfg_name (cfg_count fs P n) (basename P))) recorded = None.
Proof. exact recorded_keeps_real_name2_proof. Qed.
Print Assumptions recorded_keeps_real_name.

(* Unmerging (uninstall, or the unmerge half of a replace) never removes a protected file whose
   content differs from what the package recorded. *)
Theorem uninstall_keeps_modified :
  forall (prot ign : str -> bool) (off : str) (fs recorded inst : pmap) (P : str) (d : fdata),
    protected_file prot ign off fs P d ->
    differs_from_recorded recorded P d ->
    pm_get P (unmerge_fs fs (uninstall_set prot ign off fs recorded inst)) = Some (File d).
Proof. exact uninstall_keeps_modified_proof. Qed.
Print Assumptions uninstall_keeps_modified.

(* The same two facts stated about Model_C21.run — the function the correspondence compares with the
   real MergeEngine on every run — with the filters built from env.d, the extras and the live tree. *)
Theorem run_install_never_overwrites :
  forall (i : input) (P : str) (d : fdata) (n : node),
    i_mode i = 0%N ->
    pkg_ok (inst_of i) ->
    protected_file (protI_of i) (ign_of i (i_fs i)) (i_off i) (i_fs i) P d ->
    incoming_differs (inst_of i) P d n ->
    pm_get P (o_fs (run i)) = Some (File d).
Proof. exact run_install_never_overwrites_proof. Qed.
Print Assumptions run_install_never_overwrites.

Theorem run_uninstall_keeps_modified :
  forall (i : input) (P : str) (d : fdata),
    i_mode i = 2%N ->
    protected_file (protU_of i) (ign_of i (i_fs i)) (i_off i) (i_fs i) P d ->
    differs_from_recorded (with_off (i_off i) (i_old i)) P d ->
    pm_get P (o_fs (run i)) = Some (File d).
Proof. exact run_uninstall_keeps_modified_proof. Qed.
Print Assumptions run_uninstall_keeps_modified.

(* replace mode: neither the merge half nor the unmerge half touches a protected file that differs
   from the incoming one ... *)
Theorem run_replace_never_overwrites :
  forall (i : input) (P : str) (d : fdata) (n : node),
    i_mode i = 1%N ->
    pkg_ok (inst_of i) -> locs_wf (inst_of i) = true ->
    protected_file (protI_of i) (ign_of i (i_fs i)) (i_off i) (i_fs i) P d ->
    incoming_differs (inst_of i) P d n ->
    pm_get P (o_fs (run i)) = Some (File d).
Proof. exact run_replace_never_overwrites2_proof. Qed.
Print Assumptions run_replace_never_overwrites.

(* ... and the unmerge half keeps a protected file (of the tree as the merge half left it) that
   differs from what the old package recorded. *)
Theorem run_replace_keeps_modified :
  forall (i : input) (P : str) (d : fdata),
    i_mode i = 1%N ->
    o_blocked (run i) = false ->
    let fs1 := merge_fs (i_fs i) (pre_merge (protI_of i) (ign_of i (i_fs i)) (i_off i) (i_fs i) (inst_of i)) in
    protected_file (protU_of i) (ign_of i fs1) (i_off i) fs1 P d ->
    differs_from_recorded (with_off (i_off i) (i_old i)) P d ->
    pm_get P (o_fs (run i)) = Some (File d).
Proof. exact run_replace_keeps_modified_proof. Qed.
Print Assumptions run_replace_keeps_modified.

(* The renamed locations of one merge are pairwise distinct (no ._cfg entry shadows another). *)
Theorem newlocs_distinct_from_pkg_ok :
  forall (prot ign : str -> bool) (off : str) (fs inst : pmap),
    pkg_ok inst -> locs_wf inst = true -> newlocs_distinct prot ign off fs inst.
Proof. exact newlocs_distinct_proof. Qed.
Print Assumptions newlocs_distinct_from_pkg_ok.

(* The ._cfgNNNN_ file is created in the SAME directory as the protected file, under the generated
   name, and the merged tree holds it with the incoming entry's content AND mode/owner. *)
Theorem cfg_file_same_directory_incoming_attrs :
  forall (prot ign : str -> bool) (off : str) (fs inst : pmap) (P : str) (d : fdata) (content attrs : str),
    pkg_ok inst -> locs_wf inst = true ->
    protected_file prot ign off fs P d ->
    incoming_differs inst P d (File (content, attrs)) ->
    let dest := new_loc fs P (File (content, attrs)) in
    dirname dest = dirname P /\
    basename dest = cfg_name (cfg_count fs P (File (content, attrs))) (basename P) /\
    pm_get dest (merge_fs fs (pre_merge prot ign off fs inst)) = Some (File (content, attrs)).
Proof. exact cfg_file_same_directory_incoming_attrs_proof. Qed.
Print Assumptions cfg_file_same_directory_incoming_attrs.

(* ---- the filters themselves, for ALL paths ---- *)
(* CONFIG_PROTECT minus CONFIG_PROTECT_MASK: p is protected iff it lies strictly below (normpath of)
   some entry of CONFIG_PROTECT ∪ extras ∪ {/etc} and below no entry of CONFIG_PROTECT_MASK ∪ extras;
   "below x" = rstrip "/" (normpath x) ++ "/" ++ anything, i.e. a prefix on a component boundary. *)
Theorem protect_filter_spec :
  forall (e : list envfile) (xp xm : list str) (p : str),
    protect_filter e xp xm p = true <->
    (exists x, In x (protect_entries e xp) /\ below_dir x p) /\
    ~ (exists x, In x (mask_entries e xm) /\ below_dir x p).
Proof. exact protect_filter_spec_proof. Qed.
Print Assumptions protect_filter_spec.

(* neither the directory itself nor a sibling sharing the characters (/etc, /etcx/foo) is below it *)
Theorem below_dir_boundary :
  forall (x rest : str) (c : N),
    ~ below_dir x (rstrip_sl (normpath x)) /\
    (c <> SL -> ~ below_dir x (rstrip_sl (normpath x) ++ c :: rest)) /\
    below_dir x (rstrip_sl (normpath x) ++ SL :: rest).
Proof. exact below_dir_boundary_proof. Qed.
Print Assumptions below_dir_boundary.

(* the entries env.d contributes for an incremental key: the words (split on whitespace, or on ":"
   when the key is declared COLON_SEPARATED) of its value in every accepted env.d file *)
Theorem env_words :
  forall (e : list envfile) (k w : str), In w (collapsed true k e) <-> env_word e k w.
Proof. exact env_words_proof. Qed.
Print Assumptions env_words.

(* COLLISION_IGNORE: the matcher is exactly shell-pattern matching of the WHOLE path ... *)
Theorem fnmatch_spec : forall pat s : str, fnmatch pat s = true <-> glob_pat pat s.
Proof. exact fnmatch_spec_proof. Qed.
Print Assumptions fnmatch_spec.

(* ... applied to every entry (env.d, extras, the two built-in .keep patterns), a live directory d
   standing for the pattern d/STAR *)
Theorem ignore_filter_spec :
  forall (e : list envfile) (xi : list str) (off : str) (fs : pmap) (p : str),
    ignore_filter e xi off fs p = true <->
    exists x, In x (ignore_entries e xi) /\ glob_pat (ignore_entry_pat off fs x) p.
Proof. exact ignore_filter_spec_proof. Qed.
Print Assumptions ignore_filter_spec.

(* an entry without * ? [ ignores exactly that path (a full match: /etc/q does not cover /usr/etc/q) *)
Theorem literal_pattern :
  forall l s : str, forallb plain l = true -> (fnmatch l s = true <-> s = l).
Proof. exact literal_pattern_proof. Qed.
Print Assumptions literal_pattern.

(* a directory entry d, rewritten to d/*, ignores exactly the paths below d, at any depth *)
Theorem directory_pattern :
  forall l s : str, forallb plain l = true ->
    (fnmatch (l ++ slash_star) s = true <-> exists rest, s = l ++ SL :: rest).
Proof. exact directory_pattern_proof. Qed.
Print Assumptions directory_pattern.

(* the built-in */.keep and */.keep_* ignore exactly the paths ending in /.keep, or containing /.keep_ *)
Theorem keep_patterns :
  forall s : str,
    (fnmatch keep1 s = true <-> exists pre, s = pre ++ [47; 46; 107; 101; 101; 112]%N) /\
    (fnmatch keep2 s = true <-> exists pre suf, s = pre ++ [47; 46; 107; 101; 101; 112; 95]%N ++ suf).
Proof. exact keep_patterns_proof. Qed.
Print Assumptions keep_patterns.
