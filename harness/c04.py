"""C04 — an atom matches a package exactly as PMS dependency semantics say (DESIGN §6 C04).

Streams
  usetok  restricts._parse_nontransitive_use((tok,))    impl vs Model_C04.parse_use_token
  restr   the structure of atom(...).restrictions        impl vs Model_C04.atom_restrictions
          + Spec_C04.wf_atom on every parsed atom
  match   atom.match(FakePkg)                            impl vs Model_C04.atom_match   (A)
                                                         impl vs Spec_C04.pms_match     (B, in Coq)
          grid  = all pairs of an atom pool x a package pool (bounded universe)
          rand  = random atoms against random packages
          near  = for every versioned atom, packages whose version is a textual neighbour of
                  the atom's version (prefix extensions, respelt revisions)
Atoms enter the model as records of the attributes read off the real parsed `atom` object.
Property failures (B) are classified by the Python predicates cls_glob / cls_use_nand, which are
themselves cross-checked against the Coq classes Spec_C04.known_glob / known_use_nand on
every case.
"""

import sys

from . import tables
from .common import Check, Err, Raw, cN, cbool, clist, cnat, copt, cpair, cstr, cval, impl_call
from .tables import TableError

IMPORTS = ("From Coq Require Import List NArith ZArith Bool.\n"
           "From Verif Require Import Base.Val C01.Model_C01 C04.Model_C04 C04.Spec_C04 C04.Negate_C04.")
ANCHORS = ["ebuild/atom.py::atom.restrictions", "ebuild/restricts.py", "restrictions/values.py::StrGlobMatch",
           "restrictions/values.py::StrExactMatch", "restrictions/values.py::ContainmentMatch.match",
           "restrictions/packages.py::PackageRestriction.match", "restrictions/boolean.py::AndRestriction.match"]

OPS = ["<", "<=", "=", ">=", ">", "~", "=*", ""]
OPID = {o: i for i, o in enumerate(OPS)}

CATS = ["a", "c"]
NAMES = ["b", "d"]
# first components never carry a leading zero followed by digits (the one spelling class where
# the pinned ver_cmp and C01's repaired model differ; that is C01's business, not C04's)
VERSIONS = ["1", "10", "1.0", "1.00", "1.01", "1.1", "1.10", "1.0.1", "1a", "1b", "1.1a", "1_p", "1_p1",
            "1_p10", "1_pre", "1_pre1", "1_alpha", "1_alpha1", "1_beta", "1_rc1", "1_p1_alpha", "2", "0",
            "0.1", "12", "1.2_alpha_p1"]
REVS = ["", "", "", "-r0", "-r1", "-r01", "-r2", "-r10", "-r12"]
SLOTS = ["0", "1", "1.2"]
SUBSLOTS = ["0", "1", "2"]
REPOS = ["gentoo", "other"]
FLAGS = ["x", "y", "z", "q"]          # q is never in IUSE of pool packages
# flag names with the other legal characters, chosen so that one is a prefix of another and so
# that the name ends in the characters of a default marker ("+", "-", ")" cannot occur): a parser
# that cuts the name at the wrong place (rstrip, partition, regex) lands on another flag of the pool
ODD_FLAGS = ["x+", "x-", "x++", "y_", "y-+", "z@", "X9"]
PKG_FLAGS = ["x", "y", "z", "x+", "x-", "x++", "y_", "y-+", "z@", "X9"]


# --------------------------------------------------------------------------- records
def rev_of(r):
    """Revision object / None -> None | int, as Model_C01 expects."""
    if r is None:
        return None
    d = getattr(r, "data", r)
    if d == "" or d is None:
        return None
    return int(d)


def atom_fields(a):
    """Read the parsed attributes off a real atom object."""
    return {
        "cat": a.category, "pkg": a.package, "op": OPID[a.op], "ver": a.version or "",
        "rev": rev_of(a.revision), "fullver": a.fullver,
        "slot": a.slot, "subslot": a.subslot, "slotop": a.slot_operator, "repo": a.repo_id,
        "use": None if a.use is None else list(a.use),
        "blocks": bool(a.blocks), "strong": bool(a.blocks_strongly), "negate_vers": bool(a.negate_vers),
    }


def c_atom(f):
    # positional Build_atom: coqc parses it several times faster than the {| .. |} form
    return ("(Build_atom %s %s %s %s %s %s %s %s %s %s %s %s %s %s)"
            % (cstr(f["cat"]), cstr(f["pkg"]), cN(f["op"]), cstr(f["ver"]), copt(f["rev"], cN, "N"),
               copt(f["fullver"], cstr, "str"), copt(f["slot"], cstr, "str"), copt(f["subslot"], cstr, "str"),
               copt(f["slotop"], cstr, "str"), copt(f["repo"], cstr, "str"),
               copt(f["use"], lambda u: clist([cstr(t) for t in u], "str"), "list str"),
               cbool(f["blocks"]), cbool(f["strong"]), cbool(f["negate_vers"])))


def pkg_fields(p):
    return {"cat": p.category, "pkg": p.package, "ver": p.version, "rev": rev_of(p.revision),
            "fullver": p.fullver, "slot": p.slot, "subslot": p.subslot, "repo": p.repo.repo_id,
            "use": sorted(p.use), "iuse": sorted(p.iuse_stripped)}


def c_pkg(f):
    return ("(Build_package %s %s %s %s %s %s %s %s %s %s)"
            % (cstr(f["cat"]), cstr(f["pkg"]), cstr(f["ver"]), copt(f["rev"], cN, "N"), cstr(f["fullver"]),
               cstr(f["slot"]), cstr(f["subslot"]), cstr(f["repo"]),
               clist([cstr(t) for t in f["use"]], "str"), clist([cstr(t) for t in f["iuse"]], "str")))


def compile_pools(chk, name, imports, defs):
    """Write the atom/package pools as a module in the scratch directory and compile it once;
    the cases files then only index into it (`A 3%nat`).  Returns the import line or None."""
    import subprocess
    from .common import COQ, COQC_TIMEOUT
    f = chk.scratch / f"{name}.v"
    f.write_text(imports + "\nImport ListNotations.\n" + defs)
    r = subprocess.run(["timeout", str(COQC_TIMEOUT), "coqc", "-R", str(COQ), "Verif", "-Q", str(chk.scratch), "Cases", str(f)],
                       capture_output=True, text=True, cwd=chk.scratch)
    if r.returncode != 0:
        chk.violation("correspondence", {"what": f"pool module {name} does not compile", "stderr": r.stderr[-2000:]}, True)
        return None
    return f"From Cases Require Import {name}."


# --------------------------------------------------------------------------- generators
def gen_use(rng, maxn=3, flags=FLAGS):
    n = rng.choice([1, 1, 2, 2, 3][:maxn + 2])
    toks = []
    if flags is FLAGS and rng.random() < 0.4:
        flags = FLAGS + ODD_FLAGS
    for f in rng.sample(flags, min(n, len(flags))):
        toks.append(rng.choice(["", "", "-", "-"]) + f + rng.choice(["", "", "(+)", "(-)"]))
    return toks


def gen_atom_text(rng, key=None, versions=VERSIONS, p_attr=0.5):
    cat, name = key or (rng.choice(CATS), rng.choice(NAMES))
    op = rng.choice(OPS)
    s = f"{cat}/{name}"
    if op:
        v = rng.choice(versions)
        r = "" if op == "~" else rng.choice(REVS)
        s = (("=" if op == "=*" else op) + s + "-" + v + r + ("*" if op == "=*" else ""))
    s = rng.choice(["", "", "", "!", "!!"]) + s
    if rng.random() < p_attr:
        k = rng.random()
        if k < 0.15:
            s += ":" + rng.choice(["*", "="])
        else:
            s += ":" + rng.choice(SLOTS)
            if rng.random() < 0.5:
                s += "/" + rng.choice(SUBSLOTS)
            if rng.random() < 0.2:
                s += "="
    if rng.random() < p_attr * 0.6:
        s += "::" + rng.choice(REPOS)
    if rng.random() < p_attr:
        s += "[" + ",".join(gen_use(rng)) + "]"
    return s


def gen_pkg_args(rng, key=None, versions=VERSIONS):
    cat, name = key or (rng.choice(CATS), rng.choice(NAMES))
    v = rng.choice(versions) + rng.choice(REVS)
    slot = rng.choice(SLOTS)
    subslot = rng.choice([None, None] + SUBSLOTS)
    pool = ("x", "y", "z") if rng.random() < 0.5 else PKG_FLAGS
    iuse = [f for f in pool if rng.random() < (0.6 if len(pool) == 3 else 0.45)]
    use = [f for f in iuse if rng.random() < 0.5]
    if rng.random() < 0.1:
        use.append("q")                      # enabled although not in IUSE
    iuse_sp = [rng.choice(["", "", "+", "-"]) + f for f in iuse]
    return (f"{cat}/{name}-{v}", slot, subslot, tuple(iuse_sp), tuple(use), rng.choice(REPOS))


def mk_pkg(args):
    from pkgcore.test.misc import FakePkg, FakeRepo
    cpv, slot, subslot, iuse, use, repo = args
    return FakePkg(cpv, eapi="7", slot=slot, subslot=subslot, iuse=iuse, use=use, repo=FakeRepo(repo_id=repo))


def neighbours(rng, a):
    """package versions textually close to the atom's version"""
    fv = a.fullver
    v = a.version
    out = [fv, v]
    for ext in ("0", "1", ".0", ".1", "a", "_p", "_p1", "_pre", "_alpha", "re", "1-r1", "-r1", "-r10", "0-r1"):
        out.append(fv + ext)
        out.append(v + ext)
    if "-r" in fv:
        base, _, r = fv.rpartition("-r")
        out += [f"{base}-r0{r}", f"{base}-r{r}0", f"{base}-r{int(r)}", base]
    else:
        out += [fv + "-r0", fv + "-r00"]
    if len(v) > 1:
        out.append(v[:-1])
    return out


# --------------------------------------------------------------------------- classifier predicates
def _cls(c):
    return 0 if c.isdigit() else (1 if c.isalpha() and c.isascii() else 2)


def cls_glob(af, pf):
    """K1: `=*` whose text is a string prefix of the package's fullver that does not end at a
    component boundary: the next character continues the last written component (digit after
    digit, letter after letter)."""
    if af["op"] != 6:
        return False
    g, s = af["fullver"], pf["fullver"]
    if not s.startswith(g) or len(s) == len(g):
        return False
    a, b = _cls(g[-1]), _cls(s[len(g)])
    return a == b and a != 2


def _parse_tok(t):
    d = None
    if t.endswith(")"):
        d = t[-2] == "+"
        t = t[:-3]
    if t.startswith("-"):
        return d, False, t[1:]
    return d, True, t


def cls_use_nand(af, pf):
    """K2: within one group of negative USE deps (no default / (-) / (+)) at least one of the
    flags the group looks at is enabled and at least one is not: the implementation accepts the
    package although a flag that had to be off is on."""
    if af["use"] is None:
        return False
    use, iuse = set(pf["use"]), set(pf["iuse"])
    groups = {None: [], False: [], True: []}
    for t in af["use"]:
        d, s, f = _parse_tok(t)
        if not s:
            groups[d].append(f)

    def mixed(fs):
        return any(f in use for f in fs) and any(f not in use for f in fs)
    if mixed(groups[None]):
        return True
    if mixed([f for f in groups[False] if f in iuse]):
        return True
    return all(f in iuse for f in groups[True]) and mixed(groups[True])


# --------------------------------------------------------------------------- canonicalising restrictions
def canon_restrictions(a):
    from pkgcore.ebuild import restricts
    from pkgcore.restrictions import boolean, packages, values
    order = [_parse_tok(t)[2] for t in (a.use or ())]

    def flags(cm):
        return sorted(cm.vals, key=lambda f: order.index(f) if f in order else 99)

    def split(v):
        """value restriction of a USE dep -> (false_flags, true_flags) or None"""
        if v is values.AlwaysTrue:
            return [], []
        parts = list(v.restrictions) if isinstance(v, boolean.AndRestriction) else [v]
        f, t = [], []
        for cm in parts:
            if not isinstance(cm, values.ContainmentMatch) or not cm.all:
                return None
            if cm.negate:
                f += flags(cm)
            else:
                t += flags(cm)
        return f, t

    out = []
    for r in a.restrictions:
        k = type(r).__name__
        v = getattr(r, "restriction", None)
        if getattr(r, "negate", False) and k != "VersionMatch":
            out.append(["negated", k])
        elif k == "RepositoryDep" and r.attr == "repo.repo_id" and isinstance(v, values.StrExactMatch) and not v.negate:
            out.append([0, v.exact])
        elif k == "PackageDep" and r.attr == "package" and not v.negate:
            out.append([1, v.exact])
        elif k == "CategoryDep" and r.attr == "category" and not v.negate:
            out.append([2, v.exact])
        elif k == "VersionMatch" and r.attr == "fullver":
            op = 5 if v.droprev else {(-1,): 0, (-1, 0): 1, (0,): 2, (0, 1): 3, (1,): 4}.get(tuple(v.vals), 99)
            out.append([3, op, v.ver, rev_of(v.rev), bool(v.negate)])
        elif (k == "PackageRestriction" and r.attr == "fullver" and isinstance(v, values.StrGlobMatch)
              and v.prefix and not v.negate and v.flags == 0):
            out.append([4, v.glob])
        elif k == "SlotDep" and r.attr == "slot" and not v.negate:
            out.append([5, v.exact])
        elif k == "SubSlotDep" and r.attr == "subslot" and not v.negate:
            out.append([6, v.exact])
        elif k == "StaticUseDep" and r.attr == "use" and split(v) is not None:
            out.append([7] + list(split(v)))
        elif k == "UseDepDefault" and tuple(r.attrs) == ("iuse_stripped", "use") and split(v) is not None:
            parts = list(v.restrictions) if isinstance(v, boolean.AndRestriction) else [v]
            ifm = {bool(c.if_missing) for c in parts if hasattr(c, "if_missing")}
            out.append([8, ifm.pop() if len(ifm) == 1 else "mixed-if_missing"] + list(split(v)))
        else:
            out.append(["unknown", k, repr(r)[:80]])
    # the order of the restrictions inside the AND is a performance choice of the code (see the
    # comment in atom.restrictions): compare as a set, in the model's order (= by kind id)
    out.sort(key=lambda x: (99, 0) if not isinstance(x[0], int) else (x[0], int(x[1] is True) if x[0] == 8 else 0))
    return out


# --------------------------------------------------------------------------- main
def load_corpus():
    """corpus/C04/*.json: {"atoms": [text...], "packages": [[cpv, slot, subslot, iuse, use, repo]...]}"""
    import json
    from .common import VERIF
    atoms, pkgs = [], []
    for f in sorted((VERIF / "corpus" / "C04").glob("*.json")):
        d = json.loads(f.read_text())
        atoms += d.get("atoms", [])
        pkgs += [(c, sl, ss, tuple(iu), tuple(u), r) for c, sl, ss, iu, u, r in d.get("packages", [])]
    return atoms, pkgs


def py_usedep(tok, iuse, use):
    """the statement, for one USE dep token, directly in Python"""
    d, s, f = _parse_tok(tok)
    state = (f in use) if (f in iuse or d is None) else d
    return state == s


def probe_token(tok, impl_parse):
    """a USE-dep token the implementation reads differently from the model: look for a package on
    which the real atom a/b[tok] answers differently from the statement.  Packages range over the
    flag as written and the flag the implementation extracted."""
    import itertools
    fl = {_parse_tok(tok)[2]}
    if isinstance(impl_parse, list) and len(impl_parse) == 3 and isinstance(impl_parse[2], str):
        fl.add(impl_parse[2])
    fl = sorted(f for f in fl if f)
    a = parse_plain(f"a/b[{tok}]")
    if a is None:
        return None
    for k in range(len(fl) + 1):
        for iuse in itertools.combinations(fl, k):
            for j in range(len(iuse) + 1):
                for use in itertools.combinations(iuse, j):
                    p = mk_pkg(("a/b-1", "0", None, iuse, use, "gentoo"))
                    got = impl_call(lambda: bool(a.match(p)))
                    want = py_usedep(tok, set(iuse), set(use))
                    if got != want:
                        return {"atom": f"a/b[{tok}]", "package": pkg_fields(p), "implementation_match": got,
                                "spec": f"the USE dep holds: {want}"}
    return None


def parse_plain(s, neg=False):
    """atom(s) through the real parser; None unless it is a plain (non-transitive) atom"""
    from pkgcore.ebuild.atom import atom
    try:
        a = atom(s, negate_vers=neg)
    except Exception:  # noqa: BLE001  (rejected text: C03's subject)
        return None
    return a if type(a) is atom else None


def build_atoms(chk, texts, negate_some=True):
    """-> [(text, negate_vers, fields)].  The atom OBJECTS are not kept: restriction objects are
    instance-cached in the implementation, so every atom is re-parsed and used in isolation."""
    out, seen = [], set()
    for s in texts:
        neg = negate_some and chk.rng.random() < 0.08
        if (s, neg) in seen:
            continue
        seen.add((s, neg))
        a = parse_plain(s, neg)
        if a is not None:
            out.append((s, neg, atom_fields(a)))
        del a
    return out


def two_sided(toks):
    """{group kind: (frozenset(neg flags), frozenset(pos flags))} for the groups with both signs"""
    g = {None: (set(), set()), False: (set(), set()), True: (set(), set())}
    for t in toks or ():
        d, s, f = _parse_tok(t)
        g[d][1 if s else 0].add(f)
    return {d: (frozenset(n), frozenset(p)) for d, (n, p) in g.items() if n and p}


def cls_alias(alive_use, use):
    """K3: the atom has a USE group with both signs whose (negative flags, positive flags) also
    occur, under a different default kind, in an atom that is alive at the same time."""
    a, b = two_sided(alive_use), two_sided(use)
    return any(sa == sb and da != db for da, sa in a.items() for db, sb in b.items())


def main(chk: Check):
    from pkgcore.ebuild import restricts

    rng = chk.rng
    chk.rule("atoms are generated as text (2 categories x 2 names, 8 operators, 26 versions x 6 revision "
             "spellings, slot/sub-slot/slot-operator, repo, 1-3 USE deps with sign and (+)/(-) default, "
             "blocker prefixes), parsed by the real atom() and read back as attribute records; packages are "
             "FakePkg objects over the same universe with every USE/IUSE state over 3 flags. grid = all "
             "pairs of an atom pool x a package pool; near = packages whose version is a textual neighbour "
             "of the atom's; rand = independent; alias = the same atom matched while another atom is alive. "
             "non-trivial = category and name equal (else every answer is False)")
    try:
        from . import c01
        tables.regenerate(c01)
    except TableError as e:
        chk.violation("table", {"what": f"table regeneration failed closed: {e}"}, no_input=True)
    except Exception as e:  # noqa: BLE001
        chk.note(f"C01 tables not regenerated by this run: {e!r}")
    ok = chk.build(["C04/Prop_C04.vo"])
    if ok:
        chk.check_assumptions("C04/Prop_C04.v")
    chk.lint(["C04"])
    chk.check_fingerprint(ANCHORS)

    # ---- usetok stream
    tok_cases, tok_texts = [], []
    for f in ("x", "ab", "a-b", "x_y", "a+", "a-", "a++", "a--", "a+-", "a_", "a@", "A9"):
        for sign in ("", "-"):
            for d in ("", "(+)", "(-)"):
                tok = sign + f + d

                def run(tok=tok):
                    (r,) = restricts._parse_nontransitive_use((tok,))
                    return canon_one_use(r)
                tok_cases.append((cstr(tok), impl_call(run)))
                tok_texts.append(tok)
    chk.count("usetok", len(tok_cases))

    # ---- atoms
    main_key = ("a", "b")
    texts = []
    n_atoms = chk.n(80, 400)
    while len(texts) < n_atoms:
        texts.append(gen_atom_text(rng, key=main_key if rng.random() < 0.85 else None))
    # a fixed core that must always be present
    core = ["a/b", "=a/b-1*", "=a/b-1.0*", "=a/b-1_p*", "=a/b-1-r1*", "=a/b-1a*", "~a/b-1", "=a/b-1-r0", "<a/b-1.1",
            "<=a/b-1-r1", ">a/b-1", ">=a/b-1_p1", "!a/b", "!!=a/b-1*", "a/b:0", "a/b:0/1", "a/b:0=", "a/b:*",
            "a/b::gentoo", "a/b:1::other", "a/b[x]", "a/b[-x]", "a/b[x(+)]", "a/b[x(-)]", "a/b[-x(+)]", "a/b[-x(-)]",
            "a/b[q(+)]", "a/b[q(-)]", "a/b[-q(+)]", "a/b[-q(-)]", "a/b[-x,-y]", "a/b[-x(-),-q(-)]",
            "a/b[-x(+),-y(+)]", "a/b[x,y]", "a/b[x(+),q(+)]", "a/b[x,-y,z(+)]", "a/b[-y(+),x(+)]", "a/b[-y(-),x(-)]",
            "a/b[-y,x]", "c/d", "=c/d-1*"]
    corpus_atoms, corpus_pkgs = load_corpus()
    core = corpus_atoms + core                      # corpus first
    atoms = build_atoms(chk, core, negate_some=False)
    n_core = len(atoms)
    atoms += build_atoms(chk, texts)

    # ---- packages
    pk_args = [("a/b-10", "0", None, ("x", "y"), ("x",), "gentoo"),
               ("a/b-1", "0", "1", ("x", "y", "z"), ("x",), "gentoo"),
               ("a/b-1.0-r1", "1", None, (), (), "other"),
               ("a/b-1_pre1", "0", None, ("+x", "-y"), ("x", "y"), "gentoo"),
               ("a/b-1-r02", "0", None, ("x",), (), "gentoo"),
               ("a/b-1", "0", None, ("y",), (), "gentoo")]
    pk_args = corpus_pkgs + pk_args
    n_pk = len(corpus_pkgs) + chk.n(30, 60)
    while len(pk_args) < n_pk:
        pk_args.append(gen_pkg_args(rng, key=main_key if rng.random() < 0.85 else None))
    pkgs = []
    for args in pk_args:
        p = mk_pkg(args)
        pkgs.append((p, pkg_fields(p)))
    n_grid_pk = len(pkgs)

    # ---- which packages each atom meets: {atom index: [(pkg index, stream)]}
    plan = {i: [] for i in range(len(atoms))}
    grid_atoms = list(range(len(atoms)))
    if not (chk.thorough):
        grid_atoms = grid_atoms[:n_core] + rng.sample(grid_atoms[n_core:], min(30, len(grid_atoms) - n_core))
    for i in grid_atoms:
        plan[i] += [(j, "grid") for j in range(n_grid_pk)]
    extra_pk = {}
    for i, (s, neg, f) in enumerate(atoms):       # near: neighbours of each versioned atom's version
        if f["op"] == 7:
            continue
        a = parse_plain(s, neg)
        nb = neighbours(rng, a)
        del a
        for v in rng.sample(nb, min(len(nb), chk.n(4, 16))):
            args = (f"{f['cat']}/{f['pkg']}-{v}", rng.choice(SLOTS), rng.choice([None] + SUBSLOTS),
                    ("x", "y", "z"), tuple(x for x in ("x", "y", "z") if rng.random() < 0.5), rng.choice(REPOS))
            if args[0] not in extra_pk:
                try:
                    p = mk_pkg(args)
                except Exception:  # noqa: BLE001  (not a valid version: skip)
                    extra_pk[args[0]] = None
                    continue
                pkgs.append((p, pkg_fields(p)))
                extra_pk[args[0]] = len(pkgs) - 1
            if extra_pk[args[0]] is not None:
                plan[i].append((extra_pk[args[0]], "near"))
    for _ in range(chk.n(400, 4000)):
        plan[rng.randrange(len(atoms))].append((rng.randrange(n_grid_pk), "rand"))

    # ---- run the implementation, one atom alive at a time
    restr_cases, cases, meta = [], [], []
    for i, (s, neg, af) in enumerate(atoms):
        a = parse_plain(s, neg)
        restr_cases.append((c_atom(af), impl_call(lambda a=a: canon_restrictions(a))))
        for j, stream in plan[i]:
            p, pf = pkgs[j]
            res = impl_call(lambda: bool(a.match(p)))
            cases.append((f"(A {i}%nat, P {j}%nat)", res))
            meta.append((i, j, stream))
            chk.count("match/" + stream)
            if af["cat"] == pf["cat"] and af["pkg"] == pf["pkg"]:
                chk.nontrivial((i, j))
        del a
    chk.count("restr", len(restr_cases))
    chk.sample({"stream": "restr", "atom": atoms[1][0], "fields": atoms[1][2], "impl": restr_cases[1][1]})
    for k in (0, len(cases) // 3, 2 * len(cases) // 3, len(cases) - 1):
        i, j, stream = meta[k]
        chk.sample({"stream": "match/" + stream, "atom": atoms[i][0], "pkg": pkgs[j][1], "impl": cases[k][1]})

    # ---- alias stream: the answer must not depend on which other atoms are alive
    alias_bad = []
    scen = [("a/b[-y(-),x(-)]", "a/b[-y(+),x(+)]"), ("a/b[-y,x]", "a/b[-y(+),x(+)]"), ("a/b[-y(-),x(-)]", "a/b[-y,x]"),
            ("a/b[-y(+),x(+)]", "a/b[-y(-),x(-)]"), ("a/b[x]", "a/b[x(+)]"), ("a/b[-x(+)]", "a/b[-x(-)]")]
    kinds = ["", "(+)", "(-)"]
    for _ in range(chk.n(40, 300)):
        fl = rng.sample(["x", "y", "z", "q"], rng.choice([2, 2, 3]))
        signs = [rng.choice(["", "-"]) for _ in fl]
        k1, k2 = rng.sample(kinds, 2)
        scen.append(("a/b[" + ",".join(sg + f + k1 for sg, f in zip(signs, fl)) + "]",
                     "a/b[" + ",".join(sg + f + k2 for sg, f in zip(signs, fl)) + "]"))
    probe = [j for j in range(n_grid_pk) if pkgs[j][1]["cat"] == "a" and pkgs[j][1]["pkg"] == "b"][:12]
    for t1, t2 in scen:
        a2 = parse_plain(t2)
        iso = [impl_call(lambda: bool(a2.match(pkgs[j][0]))) for j in probe]
        use2 = list(a2.use)
        del a2
        a1 = parse_plain(t1)
        _ = a1.restrictions
        a2 = parse_plain(t2)
        shared = [impl_call(lambda: bool(a2.match(pkgs[j][0]))) for j in probe]
        use1 = list(a1.use)
        del a1, a2
        chk.count("alias", len(probe))
        for j, x, y in zip(probe, iso, shared):
            if x != y:
                alias_bad.append({"alive": t1, "atom": t2, "package": pkgs[j][1], "isolated_match": x,
                                  "match_with_other_alive": y, "_k": cls_alias(use1, use2)})
                break
    seen_alias = 0
    for ex in alias_bad:
        k = ex.pop("_k")
        if k and chk.known_finding("usedep-cache-alias", ex):
            continue
        if seen_alias < 3:
            chk.violation("property", {"what": "atom.match(pkg) depends on which other atoms are alive (the answer is "
                                               "not a function of atom and package)", "input": ex})
        seen_alias += 1

    preamble = ("Definition AS : list atom := %s.\nDefinition PS : list package := %s.\n"
                "Definition A n := nth n AS (%s).\nDefinition P n := nth n PS (%s).\n"
                % (clist([c_atom(f) for _, _, f in atoms], "atom"), clist([c_pkg(f) for _, f in pkgs], "package"),
                   c_atom(atoms[0][2]), c_pkg(pkgs[0][1])))

    if not ok:
        return
    # ---- Coq side
    r = chk.coq_eval("usetok", IMPORTS, "str", tok_cases, ["mismatches run_usetok cases"])
    if r is not None:
        for k in r[0][:3]:
            ex = impl_call(lambda: probe_token(tok_texts[k], tok_cases[k][1]))
            if isinstance(ex, dict):
                chk.violation("property", {"what": "a USE dependency is evaluated on another flag / default than the one "
                                                   "written (atom.match differs from the statement)", "input": ex})
            chk.violation("correspondence", {"what": "USE dep token parse: implementation and Model_C04.parse_use_token disagree",
                                             "input": tok_texts[k], "implementation": tok_cases[k][1]},
                          no_input=not isinstance(ex, dict))
    r = chk.coq_eval("restr", IMPORTS, "atom", restr_cases,
                     ["mismatches run_restr cases", "where_ atom_illformed cases"])
    restr_bad = []
    if r is not None:
        restr_bad = r[0]
        for k in r[1][:3]:
            chk.violation("correspondence", {"what": "a parsed atom violates Spec_C04.wf_atom (premise of the theorems)",
                                             "input": atoms[k][0], "fields": atoms[k][2]}, no_input=True)
    pools = compile_pools(chk, "Pools_C04", IMPORTS, preamble)
    r = None
    if pools:
        r = chk.coq_eval("match", IMPORTS + "\n" + pools, "atom * package", cases,
                         ["mismatches run_amatch cases", "where_ spec_match_bad_nv cases",
                          "where_ in_known_glob cases", "where_ in_known_nand cases"], shard=500)
    prop_fail = bool(seen_alias)
    if r is not None:
        a_bad, b_bad, k1, k2 = r
        k1, k2 = set(k1), set(k2)
        # the Python classifiers must be the Coq classes
        for k, (i, j, stream) in enumerate(meta):
            py1, py2 = cls_glob(atoms[i][2], pkgs[j][1]), cls_use_nand(atoms[i][2], pkgs[j][1])
            if py1 != (k in k1) or py2 != (k in k2):
                chk.violation("correspondence", {"what": "harness classifier and Coq known class disagree",
                                                 "atom": atoms[i][0], "pkg": pkgs[j][1],
                                                 "python": [py1, py2], "coq": [k in k1, k in k2]}, no_input=True)
                break
        seen_new = 0
        for k in b_bad:
            i, j, stream = meta[k]
            ex = {"atom": atoms[i][0], "package": pkgs[j][1], "implementation_match": cases[k][1],
                  "spec": "pms_match says %s" % (not cases[k][1] if isinstance(cases[k][1], bool) else "a boolean")}
            if cls_glob(atoms[i][2], pkgs[j][1]) and chk.known_finding("glob-string-prefix", ex):
                continue
            if cls_use_nand(atoms[i][2], pkgs[j][1]) and chk.known_finding("use-negative-group-nand", ex):
                continue
            prop_fail = True
            if seen_new < 3:
                chk.violation("property", {"what": "atom.match(pkg) differs from PMS matching (Spec_C04.pms_match) "
                                                   "outside the known classes", "input": ex})
            seen_new += 1
        chk.note(f"(B) spec disagreements: {len(b_bad)} (all inside known classes: {seen_new == 0}); "
                 f"cases in class glob: {len(k1)}, in class use-nand: {len(k2)}")
        for k in a_bad[:3]:
            i, j, stream = meta[k]
            chk.violation("correspondence",
                          {"what": "atom.match(pkg) and Model_C04.atom_match disagree (theorems of Prop_C04 no "
                                   "longer speak about this code)", "atom": atoms[i][0], "atom_fields": atoms[i][2],
                           "package": pkgs[j][1], "implementation": cases[k][1]}, no_input=not prop_fail)
    for k in restr_bad[:3]:
        chk.violation("correspondence", {"what": "atom.restrictions and Model_C04.atom_restrictions disagree",
                                         "input": atoms[k][0], "fields": atoms[k][2],
                                         "implementation": restr_cases[k][1]}, no_input=not prop_fail)


def canon_one_use(r):
    """a single-token USE restriction -> [default, sign, flag] as run_usetok encodes it"""
    from pkgcore.restrictions import values
    k = type(r).__name__
    v = r.restriction
    if not isinstance(v, values.ContainmentMatch) or len(v.vals) != 1:
        return ["unexpected", repr(r)[:80]]
    d = None if k == "StaticUseDep" else bool(v.if_missing)
    return [d, not v.negate, next(iter(v.vals))]


def replay(chk, data):
    from pkgcore.ebuild.atom import atom
    d = data.get("detail", {})
    inp = d.get("input", d)
    s = inp.get("atom")
    pf = inp.get("package") or inp.get("pkg")
    if not s or not pf:
        print("nothing to replay")
        return
    a = atom(s)
    rv = "" if pf["rev"] is None else f"-r{pf['rev']}"
    p = mk_pkg((f"{pf['cat']}/{pf['pkg']}-{pf['fullver']}", pf["slot"], pf["subslot"], tuple(pf["iuse"]),
                tuple(pf["use"]), pf["repo"]))
    print("implementation: atom(%r).match(%s) = %r" % (s, p.cpvstr, a.match(p)))
    print("classes: glob=%s use-nand=%s" % (cls_glob(atom_fields(a), pkg_fields(p)),
                                            cls_use_nand(atom_fields(a), pkg_fields(p))))
