(* Proofs_C08.v — proofs about Model_C08 against Spec_C08. *)
From Coq Require Import List NArith ZArith Bool Sorting.Sorted Sorting.Permutation.
Import ListNotations.
From Verif Require Import Base.Val C06.Restr C06.RestrInd C06.Model_C06 C06.Proofs_C06
  C08.Ord_C08 C08.Model_C08 C08.Spec_C08.

Lemma mem_str_In s l : mem_str s l = true <-> In s l.
Proof.
  unfold mem_str. rewrite existsb_exists. split.
  - intros [x [Hin He]]. apply str_eqb_eq in He. now subst.
  - intros H. exists s. split; [assumption|apply str_eqb_refl].
Qed.
Lemma dedup_In s l : In s (dedup l) <-> In s l.
Proof.
  induction l as [|x l IH]; cbn; [tauto|].
  destruct (mem_str x l) eqn:E.
  - rewrite IH. apply mem_str_In in E. split; [auto|]. intros [<-|H]; auto.
  - cbn. rewrite IH. tauto.
Qed.
Lemma dedup_NoDup_proof l : NoDup (dedup l).
Proof.
  induction l as [|x l IH]; cbn; [constructor|].
  destruct (mem_str x l) eqn:E; [assumption|].
  constructor; [|assumption]. rewrite dedup_In. intros H. apply mem_str_In in H. congruence.
Qed.
