(* C32 — every IPC helper request gets exactly one truthful reply.  MODEL (no proofs).

   Transcribes (pkgcore @ /repo, WITH the repairs fixes/C33-install-fallback-status.patch [`if ret:`],
   fixes/C33-per-call-parser-defaults.patch, fixes/C32-single-line-reply.patch [_single_line],
   fixes/C32-helper-state-reset.patch [helpers are stateless across requests] and, for the bash
   side, fixes/C32-read-array-raw.patch [`read -r`]):

     processor.py  EbuildProcessor.generic_handler / readlines / write   -> [session]
     ebd_ipc.py    IpcCommand.__call__ (five reads, shlex, NUL split, chdir, exception mapping),
                   _encode_ret/_single_line, IpcError.ret                -> [ipc_call], [encode_*]
     ebd.py        run_generic_phase `except IpcError: ebd.write(e.ret)` -> the CFatal/CInternal arms
     ebd_ipc.py    _InstallWrapper.{parse_args,parse_install_options,run,_install,_install_cmd,
                   _install_dirs,_install_dirs_cmd}, Doins/Dodoc/Dodir, _AlterFiles, Has_Version /
                   Best_Version (domain = oracle table), Eapply (patch(1) = oracle)  -> [body]
     ebuild-daemon-lib.bash  __ebd_ipc_cmd / __ebd_read_array / __ipc_exit -> [bash_request],
                   [bash_read_array], [bash_ipc_exit]

   Strings are byte lists (the correspondence streams are ASCII).  The external commands
   (install(1), patch(1)) are an ORACLE: the list [w_ans] of (exit status, stderr lines) answers,
   universally quantified in the theorems; what a call that answered 0 did to the image is the
   Section variable [ext_effect] of Proofs_C32 (instantiated here by [install_effect]). *)
From Coq Require Import List NArith ZArith Bool Ascii String.
From Coq Require Strings.Byte.
From Verif Require Import Base.Val.
Import ListNotations.
Local Open Scope N_scope.

(* ------------------------------------------------------------------ strings *)
Definition lit (s : String.string) : str := map N_of_ascii (list_ascii_of_string s).
Definition NL : N := 10.
Definition BEL : N := 7.
Definition is_nil {A} (l : list A) : bool := match l with [] => true | _ => false end.

Fixpoint split_on (sep : N) (s : str) : list str :=        (* python s.split(chr(sep)) *)
  match s with
  | [] => [[]]
  | c :: r => if N.eqb c sep then [] :: split_on sep r
              else match split_on sep r with
                   | p :: ps => (c :: p) :: ps
                   | [] => [[c]]
                   end
  end.
Fixpoint join_on (sep : str) (l : list str) : str :=
  match l with
  | [] => []
  | [x] => x
  | x :: r => x ++ sep ++ join_on sep r
  end.
Definition nonempty (l : list str) : list str := filter (fun p => negb (is_nil p)) l.

(* IpcCommand._single_line (repair C32-single-line-reply): " ".join(filter(None, s.split("\n"))) *)
Definition single_line (s : str) : str := join_on [32] (nonempty (split_on NL s)).

Fixpoint digits_fuel (f : nat) (n : N) (acc : str) : str :=
  match f with
  | O => acc
  | S f' => let acc' := (48 + n mod 10) :: acc in
            if n <? 10 then acc' else digits_fuel f' (n / 10) acc'
  end.
Definition dec_N (n : N) : str := digits_fuel (S (N.size_nat n)) n [].
Definition dec_Z (z : Z) : str :=
  match z with Zneg p => 45 :: dec_N (Npos p) | _ => dec_N (Z.to_N z) end.

(* str.strip() on ASCII text *)
Definition is_space (c : N) : bool := ((9 <=? c) && (c <=? 13)) || ((28 <=? c) && (c <=? 32)).
Fixpoint lstrip_by (p : N -> bool) (s : str) : str :=
  match s with c :: r => if p c then lstrip_by p r else s | [] => [] end.
Definition strip_by (p : N -> bool) (s : str) : str := rev (lstrip_by p (rev (lstrip_by p s))).
Definition strip (s : str) : str := strip_by is_space s.
Definition lstrip_sl (s : str) : str := lstrip_by (N.eqb 47) s.

Definition startswith (p s : str) : bool := str_eqb (firstn (List.length p) s) p.
Definition drop (p s : str) : str := skipn (List.length p) s.

(* s.partition(" ") -> (head, tail) *)
Fixpoint partition_sp (s : str) : str * str :=
  match s with
  | [] => ([], [])
  | c :: r => if N.eqb c 32 then ([], r) else let '(a, b) := partition_sp r in (c :: a, b)
  end.

(* readline(): up to and including the first "\n" (or to EOF) *)
Fixpoint take_line (s : str) : str * str :=
  match s with
  | [] => ([], [])
  | c :: r => if N.eqb c NL then ([], r) else let '(a, b) := take_line r in (c :: a, b)
  end.

(* repr() of an ASCII str *)
Definition hexd (n : N) : N := if n <? 10 then 48 + n else 87 + n.
Definition repr_char (q c : N) : str :=
  if N.eqb c 92 then [92; 92]
  else if N.eqb c q then [92; q]
  else if N.eqb c 9 then [92; 116]
  else if N.eqb c 10 then [92; 110]
  else if N.eqb c 13 then [92; 114]
  else if (c <? 32) || N.eqb c 127 then [92; 120; hexd (c / 16); hexd (c mod 16)]
  else [c].
Definition mem_N (c : N) (s : str) : bool := existsb (N.eqb c) s.
Definition py_repr (s : str) : str :=
  let q := if mem_N 39 s && negb (mem_N 34 s) then 34 else 39 in
  q :: flat_map (repr_char q) s ++ [q].

(* shlex.split(s): posix, whitespace_split, no comments *)
Inductive shst := SSp | SW | SQ1 | SQ2 | SEscW | SEscQ2.
Definition is_shws (c : N) : bool := N.eqb c 32 || N.eqb c 9 || N.eqb c 13 || N.eqb c 10.
Fixpoint shlex_go (s : str) (st : shst) (tok : str) (quoted : bool) (out : list str)
  : option (list str) :=
  match s with
  | [] => match st with
          | SSp => Some (rev out)
          | SW => if negb (is_nil tok) || quoted then Some (rev (rev tok :: out)) else Some (rev out)
          | _ => None                       (* ValueError: no closing quotation / no escaped char *)
          end
  | c :: r =>
      match st with
      | SSp => if is_shws c then shlex_go r SSp [] false out
               else if N.eqb c 92 then shlex_go r SEscW tok quoted out
               else if N.eqb c 39 then shlex_go r SQ1 tok true out
               else if N.eqb c 34 then shlex_go r SQ2 tok true out
               else shlex_go r SW (c :: tok) quoted out
      | SW => if is_shws c then
                (if negb (is_nil tok) || quoted then shlex_go r SSp [] false (rev tok :: out)
                 else shlex_go r SSp [] false out)
              else if N.eqb c 92 then shlex_go r SEscW tok quoted out
              else if N.eqb c 39 then shlex_go r SQ1 tok true out
              else if N.eqb c 34 then shlex_go r SQ2 tok true out
              else shlex_go r SW (c :: tok) quoted out
      | SQ1 => if N.eqb c 39 then shlex_go r SW tok quoted out else shlex_go r SQ1 (c :: tok) quoted out
      | SQ2 => if N.eqb c 34 then shlex_go r SW tok quoted out
               else if N.eqb c 92 then shlex_go r SEscQ2 tok quoted out
               else shlex_go r SQ2 (c :: tok) quoted out
      | SEscW => shlex_go r SW (c :: tok) quoted out
      | SEscQ2 => if N.eqb c 92 || N.eqb c 34 then shlex_go r SQ2 (c :: tok) quoted out
                  else shlex_go r SQ2 (c :: 92 :: tok) quoted out
      end
  end.
Definition shlex_split (s : str) : option (list str) := shlex_go s SSp [] false [].

(* ------------------------------------------------------------------ reply encoding *)
(* what IpcCommand.run returned / how parse_args+run ended *)
Inductive hres :=
| HNone                              (* run returned None *)
| HInt (z : Z)                       (* has_version: 0 / 1 *)
| HStr (s : str)                     (* best_version *)
| HCmdErr (code : Z) (msg : str)     (* IpcCommandError(msg, code) *)
| HOther                             (* any other exception *)
| HUnmodelled.                       (* outside the modelled input space; never generated *)

(* str(_encode_ret(...)) *)
Definition encode_none : str := [48].
Definition encode_val (payload : str) : str := 48 :: BEL :: single_line payload.
Definition encode_err (code : Z) (msg : str) : str := dec_Z code ++ BEL :: single_line msg.
(* the encoding before repair C32-single-line-reply, kept for the refutation witness *)
Definition encode_err_raw (code : Z) (msg : str) : str := dec_Z code ++ BEL :: msg.

(* how one request ended on the python side *)
Inductive call_end :=
| CReplied (data : str)     (* __call__ wrote the reply itself; the daemon goes on *)
| CFatal (data : str)       (* IpcCommandError escaped; run_generic_phase wrote e.ret; build fails *)
| CInternal (data : str)    (* IpcInternalError; run_generic_phase wrote e.ret, kills the daemon *)
| CCrash.                   (* another exception (shlex ValueError, chdir OSError): nothing written *)

Definition split_args (l : str) : list str :=
  let a := strip_by (N.eqb 0) (strip l) in
  if is_nil a then [] else split_on 0 a.

Section Generic.
  Variable W : Type.
  (* parse_args + run of the addressed helper: options, args, nonfatal?, world *)
  Variable body : list str -> list str -> W -> hres * W.
  Variable cwd_ok : str -> bool.       (* os.chdir(cwd) works *)

  (* IpcCommand.__call__ + the except arm of run_generic_phase; [rest] is the down channel after
     the command line; returns the end, the unread rest and the new world *)
  Definition ipc_call (rest : str) (w : W) : call_end * str * W :=
    let '(l1, r1) := take_line rest in
    let '(l2, r2) := take_line r1 in
    let '(l3, r3) := take_line r2 in
    let '(l4, r4) := take_line r3 in
    let nonfatal := str_eqb (strip l1) (lit "true") in
    match shlex_split (strip l4) with
    | None => (CCrash, r4, w)
    | Some options =>
        let '(l5, r5) := take_line r4 in
        let args := split_args l5 in
        if negb (cwd_ok (strip l2)) then (CCrash, r5, w)
        else
          let '(res, w') := body options args w in
          match res with
          | HNone => (CReplied encode_none, r5, w')
          | HInt z => (CReplied (encode_val (dec_Z z)), r5, w')
          | HStr s => (CReplied (encode_val s), r5, w')
          | HCmdErr code msg =>
              if nonfatal then (CReplied (encode_err code msg), r5, w')
              else (CFatal (encode_err code msg), r5, w')
          | HOther => (CInternal (encode_err 1 (lit "internal failure")), r5, w')
          | HUnmodelled => (CCrash, r5, w')
          end
    end.
End Generic.

(* ------------------------------------------------------------------ the world of the concrete helpers *)
(* entries of the cwd: regular file / directory with the names of the regular files directly in it
   (such a file is listed in [w_src] a second time under "dir/name") *)
Inductive skind := SFile (cid : N) | SDir (kids : list str).
Inductive node := NDir (mode : N) | NFile (cid mode : N).
Definition path := list str.                               (* components below ED *)
Definition image := list (path * node).

Fixpoint path_eqb (a b : path) : bool :=
  match a, b with
  | [], [] => true
  | x :: a', y :: b' => str_eqb x y && path_eqb a' b'
  | _, _ => false
  end.
Fixpoint img_get (k : path) (i : image) : option node :=
  match i with
  | [] => None
  | (k', v) :: r => if path_eqb k k' then Some v else img_get k r
  end.
Fixpoint img_set (k : path) (v : node) (i : image) : image :=
  match i with
  | [] => [(k, v)]
  | (k', v') :: r => if path_eqb k k' then (k, v) :: r else (k', v') :: img_set k v r
  end.
Fixpoint img_del (k : path) (i : image) : image :=
  match i with
  | [] => []
  | (k', v) :: r => if path_eqb k k' then r else (k', v) :: img_del k r
  end.
Definition comps (p : str) : path := nonempty (split_on 47 p).

Record world := {
  w_src : list (str * skind);        (* names in the cwd *)
  w_img : image;
  w_ans : list (Z * list str);       (* oracle: answers of the external commands, in call order *)
  w_faults : list (N * N * str);     (* injected OSErrors: primitive kind, errno, basename *)
  w_atoms : list (str * option str)  (* domain oracle: valid atoms and their best installed version *)
}.
Definition set_img (w : world) (i : image) : world :=
  {| w_src := w_src w; w_img := i; w_ans := w_ans w; w_faults := w_faults w; w_atoms := w_atoms w |}.
Definition set_ans (w : world) (a : list (Z * list str)) : world :=
  {| w_src := w_src w; w_img := w_img w; w_ans := a; w_faults := w_faults w; w_atoms := w_atoms w |}.

Fixpoint assoc {A} (k : str) (l : list (str * A)) : option A :=
  match l with
  | [] => None
  | (k', v) :: r => if str_eqb k k' then Some v else assoc k r
  end.

Definition strerror (e : N) : str :=
  if N.eqb e 2 then lit "No such file or directory"
  else if N.eqb e 5 then lit "Input/output error"
  else if N.eqb e 13 then lit "Permission denied"
  else if N.eqb e 17 then lit "File exists"
  else if N.eqb e 20 then lit "Not a directory"
  else if N.eqb e 21 then lit "Is a directory"
  else if N.eqb e 28 then lit "No space left on device"
  else lit "Unknown error".

(* primitive kinds for fault injection *)
Definition K_MAKEDIRS : N := 0.
Definition K_STAT : N := 1.
Definition K_UNLINK : N := 2.
Definition K_COPY : N := 3.
Definition K_CHMOD : N := 4.
Fixpoint fault_of (k : N) (b : str) (fs : list (N * N * str)) : option N :=
  match fs with
  | [] => None
  | (k', e, b') :: r => if N.eqb k k' && str_eqb b b' then Some e else fault_of k b r
  end.
Definition basename (p : str) : str := last (split_on 47 p) [].

(* os.path.join(a, b) *)
Definition pjoin (a b : str) : str :=
  if startswith [47] b then b
  else if is_nil a || N.eqb (last a 0) 47 then a ++ b
  else a ++ 47 :: b.

(* os.makedirs(ED-relative components, exist_ok=True): errno on failure *)
Fixpoint mk_prefixes (pre rest : path) (i : image) : image + N :=
  match rest with
  | [] => inl i
  | c :: r =>
      let p := pre ++ [c] in
      match img_get p i with
      | Some (NDir _) => mk_prefixes p r i
      | Some (NFile _ _) => inr (if is_nil r then 17 else 20)
      | None => mk_prefixes p r (img_set p (NDir 493) i)
      end
  end.
Definition makedirs (w : world) (rel : str) : world + N :=
  match fault_of K_MAKEDIRS (basename rel) (w_faults w) with
  | Some e => inr e
  | None => match mk_prefixes [] (comps rel) (w_img w) with
            | inl i => inl (set_img w i)
            | inr e => inr e
            end
  end.
Definition chmod_dir (w : world) (rel : str) (mode : N) : world + N :=
  match fault_of K_CHMOD (basename rel) (w_faults w) with
  | Some e => inr e
  | None => inl (set_img w (img_set (comps rel) (NDir mode) (w_img w)))
  end.

(* ------------------------------------------------------------------ option parsing *)
Record iopts := { o_dest : str; o_ins : option str; o_dir : option str; o_unknown : list str }.
Definition P_DEST := lit "--dest=".
Definition P_INS := lit "--insoptions=".
Definition P_DIR := lit "--diroptions=".
Fixpoint parse_options (ts : list str) (o : iopts) : iopts :=
  match ts with
  | [] => o
  | t :: r =>
      parse_options r
        (if startswith P_DEST t then
           {| o_dest := drop P_DEST t; o_ins := o_ins o; o_dir := o_dir o; o_unknown := o_unknown o |}
         else if startswith P_INS t then
           {| o_dest := o_dest o; o_ins := Some (drop P_INS t); o_dir := o_dir o; o_unknown := o_unknown o |}
         else if startswith P_DIR t then
           {| o_dest := o_dest o; o_ins := o_ins o; o_dir := Some (drop P_DIR t); o_unknown := o_unknown o |}
         else
           {| o_dest := o_dest o; o_ins := o_ins o; o_dir := o_dir o; o_unknown := o_unknown o ++ [t] |})
  end.

(* _parse_install_options: words of --insoptions / --diroptions *)
Inductive imode :=
| INone                                  (* no options: empty Namespace, attributes untouched *)
| IMode (mode : N)                       (* handled: chmod to mode (default 0755) *)
| IFallback (words : list str)           (* unknown option / non-octal mode: install(1) *)
| IBad.                                  (* -o/-g or malformed: outside the modelled space *)
(* int(s, 8) for plain digit strings (int() strips surrounding whitespace) *)
Definition is_octal (s : str) : bool :=
  let t := strip s in negb (is_nil t) && forallb (fun c => (48 <=? c) && (c <=? 55)) t.
Definition octal (s : str) : N := fold_left (fun a c => a * 8 + (c - 48)) (strip s) 0.
Definition P_M := lit "-m".
Definition P_MODE := lit "--mode=".
(* result: Some (Some mode) handled, Some None fallback, None outside the model *)
Fixpoint scan_words (ws : list str) (mode : N) (fb : bool) (fuel : nat) : option (option N) :=
  match fuel with
  | O => None
  | S f =>
      match ws with
      | [] => Some (if fb then None else Some mode)
      | t :: r =>
          if str_eqb t (lit "-p") then scan_words r mode fb f
          else if str_eqb t P_M then
            match r with
            | v :: r' => if is_octal v then scan_words r' (octal v) fb f else scan_words r' mode true f
            | [] => None
            end
          else if startswith P_MODE t then
            (let v := drop P_MODE t in
             if is_octal v then scan_words r (octal v) fb f else scan_words r mode true f)
          else if startswith (lit "-o") t || startswith (lit "-g") t
                  || startswith (lit "--g") t || startswith (lit "--o") t
                  || startswith (lit "--m") t || startswith (lit "--p") t then None   (* -o/-g, abbreviations *)
          else if startswith P_M t then
            (let v := drop P_M t in
             if is_octal v then scan_words r (octal v) fb f else scan_words r mode true f)
          else scan_words r mode true f
      end
  end.
Definition install_mode (s : option str) (default : str) : imode :=
  match shlex_split (match s with Some v => v | None => default end) with
  | None => IBad
  | Some [] => INone
  | Some ws => match scan_words ws 493 false (S (List.length ws)) with
               | None => IBad
               | Some (Some m) => IMode m
               | Some None => IFallback ws
               end
  end.

(* ------------------------------------------------------------------ helper classes *)
Inductive hkind :=
| KInstall (has_r : bool) (dir_is_error : bool) (ins_default : str)   (* doins doexe dodoc doinfo dolib.* *)
| KDodir
| KAlter                     (* docompress dostrip *)
| KHasVersion | KBestVersion
| KEapply
| KKeepdir (stub : str)      (* keepdir: dodir + an empty file <stub> in every directory *)
| KEnv.                      (* NOT a pkgcore helper: the ebuild itself changing the image between two
                                helper calls (harness pseudo-helper "c32env": rmtree/mkfile/mkdir PATH) *)

Definition err1 (m : str) : hres := HCmdErr 1 m.
Definition E (s : String.string) : str := lit s.

(* external install(1)/patch(1): next oracle answer *)
Definition ask (w : world) : (Z * list str) * world :=
  match w_ans w with
  | a :: r => (a, set_ans w r)
  | [] => ((0%Z, []), w)
  end.
(* "\n".join(output) where every stderr line (readlines) still carries its "\n" *)
Definition join_output (ls : list str) : str := join_on [NL] (map (fun l => l ++ [NL]) ls).

Record cfg := { c_ed : str;               (* op.ED, no trailing slash *)
                c_cwd : str;              (* the directory holding w_src *)
                c_helpers : list (str * hkind) }.

Section Bodies.
  Variable ed : str.
  (* what install(1) does to the image when it exits 0 — instantiated by [install_effect] *)
  Variable ext_effect : list str -> image -> image.

  Definition abs_of (rel : str) : str := pjoin ed rel.   (* the path string python builds *)

  (* _install_dirs *)
  Fixpoint install_dirs_int (rels : list str) (dm : imode) (w : world) : option hres * world :=
    match rels with
    | [] => (None, w)
    | d :: r =>
        match makedirs w d with
        | inr e => (Some (err1 (E "failed creating dir: " ++ py_repr (abs_of d) ++ E ": " ++ strerror e)), w)
        | inl w1 =>
            match dm with
            | IMode m =>
                match chmod_dir w1 d m with
                | inr e => (Some (err1 (E "failed setting file attributes: " ++ py_repr (abs_of d)
                                        ++ E ": " ++ strerror e)), w1)
                | inl w2 => install_dirs_int r dm w2
                end
            | _ => install_dirs_int r dm w1
            end
        end
    end.
  (* _install_dirs_cmd *)
  Definition install_dirs_ext (rels : list str) (words : list str) (w : world) : option hres * world :=
    let argv := [E "install"; E "-d"] ++ words ++ map abs_of rels in
    let '((st, out), w1) := ask w in
    if Z.eqb st 0 then (None, set_img w1 (ext_effect argv (w_img w1)))
    else (Some (HCmdErr st (join_output out)), w1).
  Definition install_dirs (rels : list str) (dm : imode) (w : world) : option hres * world :=
    match dm with
    | IFallback ws => install_dirs_ext rels ws w
    | _ => install_dirs_int rels dm w
    end.

  (* _install: (source name, ED-relative destination) *)
  Fixpoint install_int (fs : list (str * str)) (im : imode) (w : world) : option hres * world :=
    match fs with
    | [] => (None, w)
    | (s, d) :: r =>
        let b := basename d in
        match fault_of K_STAT (basename s) (w_faults w), assoc s (w_src w) with
        | Some e, _ => (Some (err1 (E "cannot stat " ++ py_repr s ++ E ": " ++ strerror e)), w)
        | None, None => (Some (err1 (E "cannot stat " ++ py_repr s ++ E ": " ++ strerror 2)), w)
        | None, Some k =>
            let unl := match fault_of K_UNLINK b (w_faults w), img_get (comps d) (w_img w) with
                       | Some e, _ => Some e
                       | None, Some (NDir _) => Some 21
                       | None, _ => None
                       end in
            match unl with
            | Some e => (Some (err1 (E "failed removing file: " ++ py_repr (abs_of d) ++ E ": " ++ strerror e)), w)
            | None =>
                let w0 := set_img w (img_del (comps d) (w_img w)) in
                let cp := match fault_of K_COPY b (w_faults w), k with
                          | Some e, _ => inr e
                          | None, SDir _ => inr 21             (* shutil.copyfile(directory) *)
                          | None, SFile cid => inl cid
                          end in
                match cp with
                | inr e => (Some (err1 (E "failed copying file: " ++ py_repr s ++ E " to "
                                        ++ py_repr (abs_of d) ++ E ": " ++ strerror e)), w0)
                | inl cid =>
                    let w1 := set_img w (img_set (comps d) (NFile cid 420) (w_img w)) in
                    match im with
                    | IMode m =>
                        match fault_of K_CHMOD b (w_faults w) with
                        | Some e => (Some (err1 (E "failed setting file attributes: " ++ py_repr (abs_of d)
                                                 ++ E ": " ++ strerror e)), w1)
                        | None => install_int r im (set_img w (img_set (comps d) (NFile cid m) (w_img w)))
                        end
                    | _ => install_int r im w1
                    end
                end
            end
        end
    end.

  (* sorted(files, key=dest) then groupby(dest): stable insertion sort on the destination string *)
  Fixpoint str_leb (a b : str) : bool :=
    match a, b with
    | [], _ => true
    | _ :: _, [] => false
    | x :: a', y :: b' => if x <? y then true else if y <? x then false else str_leb a' b'
    end.
  Fixpoint insert_by (x : str * str) (l : list (str * str)) : list (str * str) :=
    match l with
    | [] => [x]
    | y :: r => if str_leb (snd y) (snd x) then y :: insert_by x r else x :: l
    end.
  Definition sort_by_dest (l : list (str * str)) : list (str * str) := fold_right insert_by [] (rev l).
  Fixpoint group_by_dest (l : list (str * str)) : list (str * list str) :=
    match l with
    | [] => []
    | (s, d) :: r =>
        match group_by_dest r with
        | (d', ss) :: gs => if str_eqb d d' then (d, s :: ss) :: gs else (d, [s]) :: (d', ss) :: gs
        | [] => [(d, [s])]
        end
    end.
  (* _install_cmd *)
  Fixpoint install_ext_groups (gs : list (str * list str)) (words : list str) (w : world)
    : option hres * world :=
    match gs with
    | [] => (None, w)
    | (d, ss) :: r =>
        let argv := [E "install"] ++ words ++ ss ++ [abs_of d] in
        let '((st, out), w1) := ask w in
        if Z.eqb st 0 then install_ext_groups r words (set_img w1 (ext_effect argv (w_img w1)))
        else (Some (HCmdErr st (join_output out)), w1)
    end.
  Definition install_files (fs : list (str * str)) (im : imode) (w : world) : option hres * world :=
    match im with
    | IFallback ws => install_ext_groups (group_by_dest (sort_by_dest fs)) ws w
    | _ => install_int fs im w
    end.

  Definition is_dir_src (w : world) (n : str) : bool :=
    match fault_of K_STAT n (w_faults w), assoc n (w_src w) with
    | None, Some (SDir _) => true
    | _, _ => false
    end.
  Definition exists_src (w : world) (n : str) : bool :=
    match assoc n (w_src w) with Some _ => true | None => false end.

  Definition then_ (a : option hres * world) (k : world -> option hres * world) : option hres * world :=
    match a with
    | (Some e, w) => (Some e, w)
    | (None, w) => k w
    end.
  Definition finish (a : option hres * world) : hres * world :=
    match a with (Some e, w) => (e, w) | (None, w) => (HNone, w) end.

  Definition unknown_options (u : list str) : hres :=
    err1 (E "unknown options: " ++ join_on (E ", ") (map py_repr u)).
  Definition missing_arg (n : str) : hres := err1 (E "the following arguments are required: " ++ n).

  Definition R_FLAG := E "-r".
  Definition is_r (a : str) : bool := str_eqb R_FLAG a.
  Fixpoint drop_leading_r (args : list str) : list str :=
    match args with a :: r => if is_r a then drop_leading_r r else args | [] => [] end.
  Fixpoint take_until_r (args : list str) : list str * list str :=
    match args with
    | [] => ([], [])
    | a :: r => if is_r a then ([], args) else let '(c, m) := take_until_r r in (a :: c, m)
    end.
  (* parse_known_optionals + parse_known_args over  [-r] targets+ : (recursive, targets, extras) *)
  Definition split_targets (has_r : bool) (args : list str) : bool * list str * list str :=
    if has_r then
      let '(chunk, rem) := take_until_r (drop_leading_r args) in
      (existsb is_r args, chunk, filter (fun a => negb (is_r a)) rem)
    else (false, args, []).
  Definition kids_of (w : world) (d : str) : list str :=
    match assoc d (w_src w) with Some (SDir ks) => ks | _ => [] end.
  (* _install_from_dirs for one directory argument (one level: the directory and its regular files),
     through the installers CURRENTLY selected (fallback or not) *)
  Definition install_tree (dest : str) (im dm : imode) (d : str) (w : world) : option hres * world :=
    then_ (install_dirs [pjoin dest d] dm w)
          (fun w1 => match kids_of w1 d with
                     | [] => (None, w1)
                     | ks => install_files (map (fun f => (pjoin d f, pjoin (pjoin dest d) f)) ks) im w1
                     end).

  (* _InstallWrapper.run + _install_targets of Doins / Dodoc *)
  Definition install_run (has_r dir_is_error recursive : bool) (targets : list str) (dest : str)
             (im dm : imode) (w : world) : hres * world :=
    if existsb (fun t => mem_N 47 t) targets then (HUnmodelled, w) else
    match makedirs w dest with
    | inr e => (err1 (E "failed creating dir: " ++ py_repr (abs_of dest) ++ E ": " ++ strerror e), w)
    | inl w1 =>
        let dirs := if has_r then filter (is_dir_src w1) targets else [] in
        let files := if has_r then filter (fun t => negb (is_dir_src w1 t)) targets else targets in
        let under n := pjoin dest n in
        if dir_is_error && negb (is_nil dirs) && negb recursive then
          (err1 (py_repr (hd [] dirs) ++ E " is a directory, missing -r option?"), w1)
        else
          finish
            (then_ (if recursive
                    then fold_left (fun acc d => then_ acc (install_tree dest im dm d)) dirs (None, w1)
                    else (None, w1))
                   (install_files (map (fun f => (f, under f)) files) im))
    end.

  (* _InstallWrapper / Doins / Dodoc: parse_args, parse_install_options, run *)
  Definition body_install (has_r dir_is_error : bool) (ins_default : str)
             (options args : list str) (w : world) : hres * world :=
    let o := parse_options options {| o_dest := [47]; o_ins := None; o_dir := None; o_unknown := [] |} in
    if negb (is_nil (o_unknown o)) then (unknown_options (o_unknown o), w) else
    let '(recursive, targets, extras) := split_targets has_r args in
    if is_nil targets then (missing_arg (E "targets"), w) else
    match find (fun t => negb (exists_src w t)) targets with
    | Some t => (err1 (E "argument targets: nonexistent path: " ++ py_repr t), w)
    | None =>
        if negb (is_nil extras) then
          (err1 (E "unknown arguments: " ++ join_on (E ", ") (map py_repr extras)), w) else
        match install_mode (o_ins o) ins_default, install_mode (o_dir o) [] with
        | IBad, _ | _, IBad => (HUnmodelled, w)
        | im, dm => install_run has_r dir_is_error recursive targets (lstrip_sl (o_dest o)) im dm w
        end
    end.

  (* Dodir *)
  Definition body_dodir (options args : list str) (w : world) : hres * world :=
    let o := parse_options options {| o_dest := [47]; o_ins := None; o_dir := None; o_unknown := [] |} in
    if negb (is_nil (o_unknown o)) then (unknown_options (o_unknown o), w) else
    if is_nil args then (missing_arg (E "targets"), w) else
    match install_mode (o_ins o) [], install_mode (o_dir o) (E "-m0755") with
    | IBad, _ | _, IBad => (HUnmodelled, w)
    | _, dm =>
        let dest := lstrip_sl (o_dest o) in
        finish (install_dirs (map (fun d => pjoin dest (lstrip_sl d)) args) dm w)
    end.

  (* _AlterFiles: no option parser; -x flag; targets nargs="+" *)
  Definition body_alter (options args : list str) (w : world) : hres * world :=
    let targets := filter (fun a => negb (str_eqb (E "-x") a)) args in
    if is_nil targets then (missing_arg (E "targets"), w) else (HNone, w).

  (* Has_Version / Best_Version over the domain oracle *)
  Definition body_query (best : bool) (options args : list str) (w : world) : hres * world :=
    match args with
    | [] => (missing_arg (E "atom"), w)
    | [a] =>
        match assoc a (w_atoms w) with
        | None => (HUnmodelled, w)
        | Some v =>
            if best then (HStr (match v with Some s => s | None => [] end), w)
            else (HInt (match v with Some _ => 0 | None => 1 end), w)
        end
    | a :: rest => (err1 (E "unknown arguments: " ++ join_on (E ", ") (map py_repr rest)), w)
    end.

  (* Eapply over plain patch files; patch(1) is the oracle *)
  Fixpoint eapply_run (ps : list str) (w : world) : hres * world :=
    match ps with
    | [] => (HNone, w)
    | p :: r =>
        let '((st, out), w1) := ask w in
        if Z.eqb st 0 then eapply_run r w1
        else match out with
             | [] => (HOther, w1)                     (* output[0] -> IndexError *)
             | l :: _ => (HCmdErr st (E "applying " ++ py_repr (basename p) ++ E " failed: " ++ l ++ [NL]), w1)
             end
    end.
  Definition body_eapply (options args : list str) (w : world) : hres * world :=
    if existsb (fun a => startswith [45] a) args then (HUnmodelled, w) else
    if is_nil args then (missing_arg (E "targets"), w) else
    match find (fun t => negb (exists_src w t)) args with
    | Some t => (err1 (E "argument targets: nonexistent path: " ++ py_repr t), w)
    | None => if existsb (is_dir_src w) args then (HUnmodelled, w) else eapply_run args w
    end.

  (* Keepdir.run: Dodir.run, then open(ED/<x>/<stub>, "w").close() for every target - the stub path
     ignores --dest, and an OSError there is not caught (-> internal failure) *)
  Fixpoint keep_stubs (stub : str) (xs : list str) (w : world) : hres * world :=
    match xs with
    | [] => (HNone, w)
    | x :: r =>
        let dir := comps (lstrip_sl x) in
        let ok := match dir with
                  | [] => true
                  | _ => match img_get dir (w_img w) with Some (NDir _) => true | _ => false end
                  end in
        if negb ok then (HOther, w) else
        match img_get (dir ++ [stub]) (w_img w) with
        | Some (NDir _) => (HOther, w)
        | Some (NFile _ m) => keep_stubs stub r (set_img w (img_set (dir ++ [stub]) (NFile 0 m) (w_img w)))
        | None => keep_stubs stub r (set_img w (img_set (dir ++ [stub]) (NFile 0 420) (w_img w)))
        end
    end.
  Definition body_keepdir (stub : str) (options args : list str) (w : world) : hres * world :=
    match body_dodir options args w with
    | (HNone, w1) => keep_stubs stub args w1
    | r => r
    end.

  (* the environment pseudo-helper *)
  Fixpoint is_prefix (p k : path) : bool :=
    match p, k with
    | [], _ => true
    | x :: p', y :: k' => str_eqb x y && is_prefix p' k'
    | _ :: _, [] => false
    end.
  Definition img_rmtree (p : path) (i : image) : image := filter (fun kv => negb (is_prefix p (fst kv))) i.
  (* mkdir/mkfile are no-ops when a regular file sits on the way *)
  Definition env_put (k : path) (v : node) (w : world) : hres * world :=
    match mk_prefixes [] (removelast k) (img_rmtree k (w_img w)) with
    | inl i' => (HNone, set_img w (img_set k v i'))
    | inr _ => (HNone, w)
    end.
  Definition body_env (options args : list str) (w : world) : hres * world :=
    match args with
    | [op; p] =>
        let k := comps p in
        if is_nil k then (HUnmodelled, w)
        else if str_eqb op (E "rmtree") then (HNone, set_img w (img_rmtree k (w_img w)))
        else if str_eqb op (E "mkdir") then
          match img_get k (w_img w) with
          | Some (NDir _) => (HNone, w)                 (* an existing directory is left alone *)
          | _ => env_put k (NDir 493) w
          end
        else (HUnmodelled, w)
    | [op; p; c] =>
        let k := comps p in
        if is_nil k || negb (str_eqb op (E "mkfile")) then (HUnmodelled, w)
        else env_put k (NFile (fold_left (fun a ch => a * 10 + (ch - 48)) c 0) 420) w
    | [] | [_] => (HOther, w)      (* args[0] / args[1]: IndexError in the pseudo-helper (a stream cut
                                     after the request header) -> "internal failure" *)
    | _ => (HUnmodelled, w)
    end.

  Definition body (k : hkind) : list str -> list str -> world -> hres * world :=
    match k with
    | KInstall r de d => body_install r de d
    | KDodir => body_dodir
    | KAlter => body_alter
    | KHasVersion => body_query false
    | KBestVersion => body_query true
    | KEapply => body_eapply
    | KKeepdir stub => body_keepdir stub
    | KEnv => body_env
    end.
End Bodies.

(* ------------------------------------------------------------------ install(1) exiting 0 *)
(* argv = install [-d] words... operands...; mode from the LAST -m word (octal, or one of the
   symbolic modes the generator uses), default 0755 *)
Definition sym_mode (v : str) : option N :=
  if is_octal v then Some (octal v)
  else if str_eqb v (lit "u=rwx,go=rx") then Some 493
  else if str_eqb v (lit "u=rw,go=r") then Some 420
  else if str_eqb v (lit "a=r") then Some 292
  else None.
Fixpoint ext_mode (ws : list str) (m : N) : N :=
  match ws with
  | [] => m
  | t :: r =>
      if str_eqb t P_M then
        match r with v :: r' => ext_mode r' (match sym_mode v with Some x => x | None => m end) | [] => m end
      else if startswith P_M t then ext_mode r (match sym_mode (drop P_M t) with Some x => x | None => m end)
      else ext_mode r m
  end.
Definition rel_of (ed p : str) : path := comps (drop ed p).
Definition is_operand (t : str) : bool := negb (startswith [45] t).
Fixpoint drop_opt_values (ws : list str) : list str :=     (* operands: skip "-m" VALUE pairs *)
  match ws with
  | [] => []
  | t :: r => if str_eqb t P_M then match r with _ :: r' => drop_opt_values r' | [] => [] end
              else if is_operand t then t :: drop_opt_values r else drop_opt_values r
  end.
Definition mkdirs_img (p : path) (i : image) : image :=
  match mk_prefixes [] p i with inl i' => i' | inr _ => i end.
Definition install_effect (ed : str) (src : list (str * skind)) (argv : list str) (i : image) : image :=
  let ws := tl argv in
  let m := ext_mode ws 493 in
  let ops := drop_opt_values ws in
  if existsb (str_eqb (lit "-d")) ws then
    fold_left (fun acc d => img_set (rel_of ed d) (NDir m) (mkdirs_img (rel_of ed d) acc)) ops i
  else
    let dest := last ops [] in
    fold_left (fun acc s => match assoc s src with
                            | Some (SFile cid) =>
                                match img_get (rel_of ed dest) acc with
                                | Some (NDir _) =>      (* install(1): DEST is a directory -> DEST/SOURCE *)
                                    img_set (rel_of ed dest ++ [basename s]) (NFile cid m) acc
                                | _ => img_set (rel_of ed dest) (NFile cid m) acc
                                end
                            | _ => acc
                            end) (removelast ops) i.

(* ------------------------------------------------------------------ the daemon loop *)
Inductive send :=
| SFinished          (* "phases succeeded" *)
| SPhaseFailed       (* "phases failed ..."  -> ProcessorError *)
| SFatal | SInternal | SCrash
| SUnhandled         (* unknown command *)
| SEmpty.            (* empty command line / EOF -> InternalError *)

Definition body_of (c : cfg) (src : list (str * skind)) (k : hkind) :=
  body (c_ed c) (install_effect (c_ed c) src) k.

Fixpoint session (fuel : nat) (c : cfg) (down : str) (w : world) (wire : str) : str * str * send * world :=
  match fuel with
  | O => (wire, down, SCrash, w)
  | S f =>
      let '(l, rest) := take_line down in
      let '(cmd, argstr) := partition_sp (strip l) in
      if is_nil cmd then (wire, rest, SEmpty, w)
      else if str_eqb cmd (lit "phases") then
        (wire, rest, if str_eqb (fst (partition_sp argstr)) (lit "succeeded") then SFinished else SPhaseFailed, w)
      else
        match assoc cmd (c_helpers c) with
        | None => (wire, rest, SUnhandled, w)
        | Some k =>
            if negb (is_nil argstr) then (wire, rest, SCrash, w)    (* __call__(ebd, extra) -> TypeError *)
            else
              match ipc_call world (body_of c (w_src w) k) (str_eqb (c_cwd c)) rest w with
              | (CReplied d, rest', w') => session f c rest' w' (wire ++ d ++ [NL])
              | (CFatal d, rest', w') => (wire ++ d ++ [NL], rest', SFatal, w')
              | (CInternal d, rest', w') => (wire ++ d ++ [NL], rest', SInternal, w')
              | (CCrash, rest', w') => (wire, rest', SCrash, w')
              end
        end
  end.
Definition run_daemon (c : cfg) (down : str) (w : world) : str * str * send * world :=
  session (S (List.length down)) c down w [].

(* ------------------------------------------------------------------ bash side *)
(* __ebd_ipc_cmd: the six lines of a request (arguments free of "\n"; see newline_in_request) *)
Definition bash_request (cmd : str) (nonfatal : bool) (pwd phase opts : str) (args : list str) : str :=
  cmd ++ [NL] ++ (if nonfatal then lit "true" else lit "false") ++ [NL] ++ pwd ++ [NL] ++ phase ++ [NL]
      ++ opts ++ [NL]
      ++ (match args with [] => [0] | _ => flat_map (fun a => a ++ [0]) args end) ++ [NL].

(* IFS=$'\a' read -r -a ret: one line, split on BEL; a final empty field is dropped; NULs vanish *)
Definition drop_last_empty (l : list str) : list str :=
  match rev l with
  | [] :: r => rev r
  | _ => l
  end.
Definition bash_fields (line : str) : list str :=
  drop_last_empty (split_on BEL (filter (fun c => negb (N.eqb c 0)) line)).
(* -> Some (fields, rest) / None on EOF without a full line (read fails -> die "coms error") *)
Definition bash_read_array (up : str) : option (list str * str) :=
  if mem_N NL up then let '(l, r) := take_line up in Some (bash_fields l, r) else None.

(* __ipc_exit outside helper scripts: (exit status text, stdout text, died?) *)
Definition bash_ipc_exit (cmd : str) (nonfatal : bool) (fields : list str) : str * str * bool :=
  let ret := hd [] fields in
  let rest := join_on [32] (tl fields) in
  if str_eqb ret [48] then ([48], rest, false)
  else
    let m := cmd ++ lit ": exitcode " ++ ret ++ (if is_nil rest then [] else lit ": " ++ rest) in
    (ret, m, negb nonfatal).

(* ------------------------------------------------------------------ decoding of the cases files *)
Inductive bstr := BS (l : list Byte.byte).
Definition bs_parse (l : list Byte.byte) : bstr := BS l.
Definition bs_print (b : bstr) : list Byte.byte := match b with BS l => l end.
Declare Scope bs_scope.
Delimit Scope bs_scope with bs.
String Notation bstr bs_parse bs_print : bs_scope.
Definition s2l (b : bstr) : str := match b with BS l => map Byte.to_N l end.

(* "\hh" escapes (two lower-case hex digits) *)
Definition unhex (c : N) : N := if c <? 58 then c - 48 else c - 87.
Fixpoint unesc (s : str) : str :=
  match s with
  | 92 :: a :: b :: r => (unhex a * 16 + unhex b) :: unesc r
  | c :: r => c :: unesc r
  | [] => []
  end.
Definition VT (s : bstr) : val := VS (unesc (s2l s)).
Definition fields (sep : N) (s : str) : list str := if is_nil s then [] else split_on sep s.
Definition num (s : str) : N := fold_left (fun a c => a * 10 + (c - 48)) s 0.
Definition znum (s : str) : Z :=
  match s with 45 :: r => Z.opp (Z.of_N (num r)) | _ => Z.of_N (num s) end.

(* helper classes by code *)
Definition hkind_of (code : str) : hkind :=
  match code with
  | [105] => KInstall false false []                      (* i  doexe/dolib/... *)
  | [114] => KInstall true false []                       (* r  doins *)
  | [100] => KInstall true true (lit "-m0644")            (* d  dodoc *)
  | [110] => KInstall false false (lit "-m0644")          (* n  doinfo *)
  | [68] => KDodir                                        (* D *)
  | [65] => KAlter                                        (* A *)
  | [72] => KHasVersion                                   (* H *)
  | [66] => KBestVersion                                  (* B *)
  | [75] => KKeepdir (lit ".keep_cat_pn-0")               (* K  (the harness' package is cat/pn-1.0:0) *)
  | [86] => KEnv                                          (* V *)
  | _ => KEapply                                          (* E *)
  end.
Definition dec_node (s : str) : node :=
  match s with
  | 100 :: m => NDir (num m)
  | 102 :: r => match split_on 44 r with [c; m] => NFile (num c) (num m) | _ => NDir 0 end
  | _ => NDir 0
  end.
Definition dec_pair {A} (f : str -> A) (s : str) : str * A :=
  match split_on 61 s with
  | [k; v] => (unesc k, f v)
  | _ => ([], f [])
  end.
Definition dec_src (s : str) : skind :=          (* "f<cid>" | "d" | "d:kid,kid" *)
  match s with
  | 100 :: 58 :: r => SDir (map unesc (split_on 44 r))
  | 100 :: _ => SDir []
  | _ => SFile (num (tl s))
  end.
Definition dec_ans (s : str) : Z * list str :=
  match split_on 44 s with
  | st :: ls => (znum st, map unesc ls)
  | [] => (0%Z, [])
  end.
Definition dec_fault (s : str) : N * N * str :=
  match split_on 44 s with
  | [k; e; b] => (num k, num e, unesc b)
  | _ => (99, 0, [])
  end.
Definition dec_atom (s : str) : option str := match s with 43 :: r => Some (unesc r) | _ => None end.

(* one session case:  ed @ cwd @ helpers @ src @ img @ answers @ faults @ atoms @ down @ cmpimg
   lists are ";"-separated, pairs "k=v"; every free text is \hh-escaped; cmpimg = "f" when a REAL
   external command failed (it may have done part of its work): the final image is then not compared *)
Definition cmp_image (b : bstr) : bool :=
  match rev (split_on 64 (s2l b)) with [102] :: _ => false | _ => true end.
Definition dec_session (b : bstr) : cfg * world * str :=
  match split_on 64 (s2l b) with
  | [ed; cwd; hs; src; img; ans; fl; at_; down; _] =>
      ({| c_ed := unesc ed; c_cwd := unesc cwd;
          c_helpers := map (dec_pair hkind_of) (fields 59 hs) |},
       {| w_src := map (dec_pair dec_src) (fields 59 src);
          w_img := map (fun s => let '(k, v) := dec_pair dec_node s in (comps k, v)) (fields 59 img);
          w_ans := map dec_ans (fields 59 ans);
          w_faults := map dec_fault (fields 59 fl);
          w_atoms := map (dec_pair dec_atom) (fields 59 at_) |},
       unesc down)
  | _ => ({| c_ed := []; c_cwd := []; c_helpers := [] |},
          {| w_src := []; w_img := []; w_ans := []; w_faults := []; w_atoms := [] |}, [])
  end.

(* image rendered as text, sorted by path: "a/b=f3,420;a=d493" *)
Definition show_node (n : node) : str :=
  match n with
  | NDir m => 100 :: dec_N m
  | NFile c m => 102 :: dec_N c ++ 44 :: dec_N m
  end.
Fixpoint insert_str (x : str) (l : list str) : list str :=
  match l with
  | [] => [x]
  | y :: r => if str_leb y x then y :: insert_str x r else x :: l
  end.
Definition show_image (i : image) : str :=
  join_on [59] (fold_right insert_str []
                  (map (fun kv => join_on [47] (fst kv) ++ 61 :: show_node (snd kv)) i)).
Definition show_send (s : send) : str :=
  match s with
  | SFinished => lit "finished" | SPhaseFailed => lit "phasefailed" | SFatal => lit "fatal"
  | SInternal => lit "internal" | SCrash => lit "crash" | SUnhandled => lit "unhandled"
  | SEmpty => lit "empty"
  end.

(* stream "sess": -> [wire; bytes consumed; how it ended; final image; oracle answers left] *)
Definition run_session (b : bstr) : val :=
  let '(c, w, down) := dec_session b in
  let '(wire, rest, e, w') := run_daemon c down w in
  VL [VS wire; VZ (Z.of_nat (List.length down - List.length rest)); VS (show_send e);
      VS (if cmp_image b then show_image (w_img w') else []);
      VZ (Z.of_nat (List.length (w_ans w')))].

(* stream "shlex" *)
Definition run_shlex (b : bstr) : val :=
  match shlex_split (unesc (s2l b)) with
  | None => VErr (lit "ValueError")
  | Some l => VL (map VS l)
  end.
(* stream "enc": kind @ code @ payload *)
Definition run_enc (b : bstr) : val :=
  match split_on 64 (s2l b) with
  | [[110]; _; _] => VS encode_none
  | [[105]; c; _] => VS (encode_val (dec_Z (znum c)))
  | [[115]; _; p] => VS (encode_val (unesc p))
  | [_; c; p] => VS (encode_err (znum c) (unesc p))
  | _ => VNone
  end.
(* stream "repr" *)
Definition run_repr (b : bstr) : val := VS (py_repr (unesc (s2l b))).
(* what `return ${ret}` makes of the status text: modulo 256; no text -> status of the previous
   command (eerror: 0); not a number -> 2 *)
Definition is_dig (c : N) : bool := (48 <=? c) && (c <=? 57).
Definition exit_status (st : str) : str :=
  match st with
  | [] => [48]
  | 45 :: (_ :: _) as r =>
      if forallb is_dig r then dec_N ((256 - num r mod 256) mod 256) else [50]
  | _ => if forallb is_dig st then dec_N (num st mod 256) else [50]
  end.
(* stream "bashrd": nonfatal(t/f) @ cmd @ reply line (without "\n") -> [exit status | "die"; text] *)
Definition run_bashrd (b : bstr) : val :=
  match split_on 64 (s2l b) with
  | [nf; cmd; line] =>
      let '(st, out, died) := bash_ipc_exit (unesc cmd) (str_eqb nf [116]) (bash_fields (unesc line)) in
      VL [VS (if died then lit "die" else exit_status st); VS out]
  | _ => VNone
  end.
(* stream "bashrq": nonfatal @ cmd @ pwd @ phase @ opts @ args(";"-separated) -> request bytes *)
Definition run_bashrq (b : bstr) : val :=
  match split_on 64 (s2l b) with
  | [nf; cmd; pwd; ph; opts; args] =>
      VS (bash_request (unesc cmd) (str_eqb nf [116]) (unesc pwd) (unesc ph) (unesc opts)
                       (map unesc (fields 59 args)))
  | _ => VNone
  end.
