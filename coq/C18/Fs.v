(* C18/Fs.v — the abstract filesystem shared by the filesystem / crash-consistency
   properties (C18 C19 C20 C21 C25 C27-C30 C47).  Owner: C18.  Definitions only; the
   reusable lemmas (lookup algebra, per-op frame, [atomic_replace]) are in C18/FsLemmas.v.

   ============================== INTERFACE (stable) ==============================
   From Verif Require Import Base.Val C18.Fs.            (then C18.FsLemmas for lemmas)

   path  := list str            components below the root; [] is the root directory,
                                which always exists, is a directory and is not stored.
   node  := File data mode uid gid mtime ino | Dir mode uid gid mtime
          | Sym target uid gid mtime | Fifo mode uid gid mtime | Dev mode uid gid mtime rdev
            data : list N (bytes), mode/uid/gid/ino/rdev : N, mtime : Z, target : str.
            Files with the same [ino] are hard links of one inode: every op that writes
            data or metadata through one name rewrites all names of that inode.
   NOW   := (-1)%Z              the mtime of anything created/written by an op (the harness
                                canonicalises every mtime >= start-of-run to -1).
   ME    := 0%N                 uid and gid of created nodes: the model is normalised so that
                                the calling process has euid = egid = 0 (harness swaps ids).
   fs    := list (path * node)  association list, first binding wins; no functions-as-maps.
   lookup s p : option node     set_node s p n / remove s p (all bindings of p) / isdir s p

   op    := Mkdir p mode | Create p mode (O_CREAT|O_EXCL, empty file) | Append p bytes
          | Pwrite p off bytes (overwrite at offset, extends) | Truncate p (to 0)
          | Rename src dst | Unlink p | Rmdir p | Link src dst | Symlink target p
          | Mkfifo p mode | Mknod p mode rdev | Chmod p mode
          | Chown p (uid gid : option N) (lchown; None = -1 = keep) | Utime p t
   apply_op : fs -> op -> option fs     None = the call fails (errno), fs unchanged
   run      : list op -> fs -> fs       executes until the first failing op (an exception
                                        aborts the caller); returns the state reached
   run_opt  : list op -> fs -> option fs   None iff some op failed
   crash states: [run (firstn k ops) s] for every k (k >= length ops is the final state);
     [crash_states ops s] lists them.  An EIO at op k is the same state as a crash before
     op k (the failing call changes nothing) followed by the caller's cleanup ops.
   byte-granular writes: [appends p chunks := map (Append p) chunks]; [bytes p d] is the
     per-byte chunking; FsLemmas.run_appends: the run of any chunking of d equals one
     Append of d, and firstn k of the per-byte chunking appends exactly [firstn k d].

   Path semantics are LITERAL: every non-final component must be bound to a [Dir] node and
   the final component is never followed.  Symlinked directories are handled by the caller,
   which resolves paths (C18/Model_C18.v [resolve]) before emitting ops, exactly like the
   harness canonicalises the traced syscall paths (realpath of the dirname).  [Chmod] and
   [Utime] on a [Sym] node fail here (the real calls would follow the link).

   Not modelled (kernel semantics; the properties using this file are labelled partial for
   them): permissions/EACCES/EPERM, EXDEV and mount points, setgid-directory gid
   inheritance, sticky bits, chown clearing set-uid/set-gid bits, the implicit mtime/ctime update of the PARENT directory when an
   entry is created/removed/renamed, nlink counts, open file descriptors surviving unlink,
   page-cache loss and reordering on a real power cut (each completed op is durable).
   ================================================================================ *)
From Coq Require Import List NArith ZArith Bool.
Import ListNotations.
From Verif Require Import Base.Val.

Definition path := list str.

Definition path_eq_dec (a b : path) : {a = b} + {a <> b} :=
  list_eq_dec (list_eq_dec N.eq_dec) a b.

Inductive node : Type :=
| File (data : list N) (mode uid gid : N) (mtime : Z) (ino : N)
| Dir (mode uid gid : N) (mtime : Z)
| Sym (target : str) (uid gid : N) (mtime : Z)
| Fifo (mode uid gid : N) (mtime : Z)
| Dev (mode uid gid : N) (mtime : Z) (rdev : N).

Definition NOW : Z := (-1)%Z.
Definition ME : N := 0%N.

Definition fs := list (path * node).

Fixpoint lookup (s : fs) (p : path) : option node :=
  match s with
  | [] => None
  | (q, n) :: r => if path_eq_dec p q then Some n else lookup r p
  end.

Fixpoint set_node (s : fs) (p : path) (n : node) : fs :=
  match s with
  | [] => [(p, n)]
  | (q, m) :: r => if path_eq_dec p q then (p, n) :: r else (q, m) :: set_node r p n
  end.

Fixpoint remove (s : fs) (p : path) : fs :=
  match s with
  | [] => []
  | (q, m) :: r => if path_eq_dec p q then remove r p else (q, m) :: remove r p
  end.

Definition map_nodes (f : node -> node) (s : fs) : fs := map (fun e => (fst e, f (snd e))) s.

Definition is_dir_node (n : node) : bool := match n with Dir _ _ _ _ => true | _ => false end.
Definition is_sym_node (n : node) : bool := match n with Sym _ _ _ _ => true | _ => false end.
Definition is_file_node (n : node) : bool := match n with File _ _ _ _ _ _ => true | _ => false end.
Definition ino_of (n : node) : option N := match n with File _ _ _ _ _ i => Some i | _ => None end.

Definition isdir (s : fs) (p : path) : bool :=
  match p with
  | [] => true
  | _ => match lookup s p with Some n => is_dir_node n | None => false end
  end.

Definition parent (p : path) : path := removelast p.

(* a new entry may be created at p: p is not the root, is unbound, its parent is a directory *)
Definition can_create (s : fs) (p : path) : bool :=
  match p with
  | [] => false
  | _ => match lookup s p with Some _ => false | None => isdir s (parent p) end
  end.

Fixpoint is_prefix (a q : path) : bool :=
  match a, q with
  | [], _ => true
  | x :: a', y :: q' => if list_eq_dec N.eq_dec x y then is_prefix a' q' else false
  | _ :: _, [] => false
  end.
Definition strict_prefix (a q : path) : bool :=
  is_prefix a q && negb (if path_eq_dec a q then true else false).
Definition has_child (s : fs) (p : path) : bool :=
  existsb (fun e => strict_prefix p (fst e)) s.

Definition fresh_ino (s : fs) : N :=
  (fold_right (fun e acc => match ino_of (snd e) with Some i => N.max i acc | None => acc end) 0 s + 1)%N.

(* apply f to every name of inode i *)
Definition on_ino (i : N) (f : node -> node) (s : fs) : fs :=
  map_nodes (fun n => match ino_of n with
                      | Some j => if N.eqb j i then f n else n
                      | None => n end) s.

(* apply f to the node at p; a File is updated through its inode (all hard links) *)
Definition update (s : fs) (p : path) (f : node -> node) : option fs :=
  match lookup s p with
  | None => None
  | Some n => match ino_of n with
              | Some i => Some (on_ino i f s)
              | None => Some (set_node s p (f n))
              end
  end.

Definition set_mode (m : N) (n : node) : node :=
  match n with
  | File d _ u g t i => File d m u g t i
  | Dir _ u g t => Dir m u g t
  | Sym tg u g t => Sym tg u g t
  | Fifo _ u g t => Fifo m u g t
  | Dev _ u g t r => Dev m u g t r
  end.
Definition set_owner (ou og : option N) (n : node) : node :=
  let pick o old := match o with Some v => v | None => old end in
  match n with
  | File d m u g t i => File d m (pick ou u) (pick og g) t i
  | Dir m u g t => Dir m (pick ou u) (pick og g) t
  | Sym tg u g t => Sym tg (pick ou u) (pick og g) t
  | Fifo m u g t => Fifo m (pick ou u) (pick og g) t
  | Dev m u g t r => Dev m (pick ou u) (pick og g) t r
  end.
Definition set_mtime (t : Z) (n : node) : node :=
  match n with
  | File d m u g _ i => File d m u g t i
  | Dir m u g _ => Dir m u g t
  | Sym tg u g _ => Sym tg u g t
  | Fifo m u g _ => Fifo m u g t
  | Dev m u g _ r => Dev m u g t r
  end.
Definition append_data (d : list N) (n : node) : node :=
  match n with File d0 m u g _ i => File (d0 ++ d) m u g NOW i | _ => n end.
Definition pwrite_data (off : nat) (d : list N) (n : node) : node :=
  match n with
  | File d0 m u g _ i => File (firstn off d0 ++ d ++ skipn (off + length d) d0) m u g NOW i
  | _ => n
  end.
Definition truncate_data (n : node) : node :=
  match n with File _ m u g _ i => File [] m u g NOW i | _ => n end.

Inductive op : Type :=
| Mkdir (p : path) (mode : N)
| Create (p : path) (mode : N)
| Append (p : path) (d : list N)
| Pwrite (p : path) (off : nat) (d : list N)
| Truncate (p : path)
| Rename (src dst : path)
| Unlink (p : path)
| Rmdir (p : path)
| Link (src dst : path)
| Symlink (target : str) (p : path)
| Mkfifo (p : path) (mode : N)
| Mknod (p : path) (mode rdev : N)
| Chmod (p : path) (mode : N)
| Chown (p : path) (uid gid : option N)
| Utime (p : path) (t : Z).

(* rename of a directory: every binding below src moves below dst *)
Definition rebase (src dst q : path) : path :=
  if is_prefix src q then dst ++ skipn (length src) q else q.
Definition rename_dir (s : fs) (src dst : path) : fs :=
  map (fun e => (rebase src dst (fst e), snd e)) (remove s dst).

Definition apply_op (s : fs) (o : op) : option fs :=
  match o with
  | Mkdir p m => if can_create s p then Some (set_node s p (Dir m ME ME NOW)) else None
  | Create p m => if can_create s p then Some (set_node s p (File [] m ME ME NOW (fresh_ino s))) else None
  | Symlink t p => if can_create s p then Some (set_node s p (Sym t ME ME NOW)) else None
  | Mkfifo p m => if can_create s p then Some (set_node s p (Fifo m ME ME NOW)) else None
  | Mknod p m r => if can_create s p then Some (set_node s p (Dev m ME ME NOW r)) else None
  | Append p d =>
      match lookup s p with
      | Some (File _ _ _ _ _ _) => update s p (append_data d)
      | _ => None end
  | Pwrite p off d =>
      match lookup s p with
      | Some (File d0 _ _ _ _ _) => if Nat.leb off (length d0) then update s p (pwrite_data off d) else None
      | _ => None end
  | Truncate p =>
      match lookup s p with
      | Some (File _ _ _ _ _ _) => update s p truncate_data
      | _ => None end
  | Unlink p =>
      match lookup s p with
      | Some n => if is_dir_node n then None else Some (remove s p)
      | None => None end
  | Rmdir p =>
      match lookup s p with
      | Some n => if is_dir_node n && negb (has_child s p) then Some (remove s p) else None
      | None => None end
  | Link a b =>
      match lookup s a with
      | Some n => if is_file_node n && can_create s b then Some (set_node s b n) else None
      | None => None end
  | Rename a b =>
      match lookup s a, b with
      | None, _ | _, [] => None
      | Some n, _ =>
          if path_eq_dec a b then Some s
          else if negb (isdir s (parent b)) then None
          else if is_dir_node n then
            (* directory: dst absent or an empty directory, and not inside src *)
            if is_prefix a b then None
            else match lookup s b with
                 | None => Some (rename_dir s a b)
                 | Some m => if is_dir_node m && negb (has_child s b)
                             then Some (rename_dir s a b) else None
                 end
          else
            match lookup s b with
            | None => Some (set_node (remove s a) b n)
            | Some m =>
                if is_dir_node m then None
                else match ino_of n, ino_of m with
                     | Some i, Some j =>
                         (* two names of one inode: rename(2) does nothing and succeeds *)
                         if N.eqb i j then Some s else Some (set_node (remove s a) b n)
                     | _, _ => Some (set_node (remove s a) b n)
                     end
            end
      end
  | Chmod p m =>
      match lookup s p with
      | Some n => if is_sym_node n then None else update s p (set_mode m)
      | None => None end
  | Chown p u g => update s p (set_owner u g)
  | Utime p t =>
      match lookup s p with
      | Some n => if is_sym_node n then None else update s p (set_mtime t)
      | None => None end
  end.

Fixpoint run (ops : list op) (s : fs) : fs :=
  match ops with
  | [] => s
  | o :: r => match apply_op s o with Some s' => run r s' | None => s end
  end.

Fixpoint run_opt (ops : list op) (s : fs) : option fs :=
  match ops with
  | [] => Some s
  | o :: r => match apply_op s o with Some s' => run_opt r s' | None => None end
  end.

Definition crash_states (ops : list op) (s : fs) : list fs :=
  map (fun k => run (firstn k ops) s) (seq 0 (S (length ops))).

Definition appends (p : path) (chunks : list (list N)) : list op := map (Append p) chunks.
Definition bytes (p : path) (d : list N) : list op := appends p (map (fun b => [b]) d).

(* the paths an op names (Rename/Link name two) *)
Definition op_paths (o : op) : list path :=
  match o with
  | Mkdir p _ | Create p _ | Append p _ | Pwrite p _ _ | Truncate p | Unlink p | Rmdir p
  | Symlink _ p | Mkfifo p _ | Mknod p _ _ | Chmod p _ | Chown p _ _ | Utime p _ => [p]
  | Rename a b | Link a b => [a; b]
  end.

(* the staged atomic replacement of p through a temporary sibling *)
Definition perm_on (tmp : path) (o : op) : Prop :=
  match o with
  | Chmod q _ | Chown q _ _ | Utime q _ => q = tmp
  | _ => False
  end.
Definition replace_ops (tmp p : path) (mode : N) (chunks : list (list N)) (perms : list op) : list op :=
  Create tmp mode :: appends tmp chunks ++ perms ++ [Rename tmp p].

(* -------- a decidable snapshot comparison for the harness: [real] is the observed
   filesystem (each path once); the model state must bind exactly the same paths to the
   same nodes, inode numbers compared as a partition (same-ino iff same-ino); a real
   directory mtime of BUMPED (-2) matches any model mtime. *)
(* the harness reports the mtime of a directory in which an entry was created/removed/
   renamed during the run (observed mtime >= start of run, not set by utime afterwards) as
   BUMPED; the model does not track this implicit update, so BUMPED matches any mtime *)
Definition BUMPED : Z := (-2)%Z.
Definition node_eqb_noino (a b : node) : bool :=
  match a, b with
  | File d m u g t _, File d' m' u' g' t' _ =>
      str_eqb d d' && N.eqb m m' && N.eqb u u' && N.eqb g g' && Z.eqb t t'
  | Dir m u g t, Dir m' u' g' t' =>
      N.eqb m m' && N.eqb u u' && N.eqb g g' && (Z.eqb t t' || Z.eqb t' BUMPED)
  | Sym tg u g t, Sym tg' u' g' t' => str_eqb tg tg' && N.eqb u u' && N.eqb g g' && Z.eqb t t'
  | Fifo m u g t, Fifo m' u' g' t' => N.eqb m m' && N.eqb u u' && N.eqb g g' && Z.eqb t t'
  | Dev m u g t r, Dev m' u' g' t' r' =>
      N.eqb m m' && N.eqb u u' && N.eqb g g' && Z.eqb t t' && N.eqb r r'
  | _, _ => false
  end.
Definition keys (s : fs) : list path := map fst s.
Definition same_ino_rel (a b : fs) : bool :=
  forallb (fun e1 =>
    forallb (fun e2 =>
      match ino_of (snd e1), ino_of (snd e2), lookup b (fst e1), lookup b (fst e2) with
      | Some i, Some j, Some n1, Some n2 =>
          match ino_of n1, ino_of n2 with
          | Some i', Some j' => Bool.eqb (N.eqb i j) (N.eqb i' j')
          | _, _ => false
          end
      | _, _, _, _ => true
      end) a) a.
Definition fs_eqb (model real : fs) : bool :=
  forallb (fun e => match lookup real (fst e) with
                    | Some n => node_eqb_noino (snd e) n | None => false end) model
  && forallb (fun e => match lookup model (fst e) with Some _ => true | None => false end) real
  && Nat.eqb (length model) (length real)
  && same_ino_rel model real.
