(* Spec_C47.v — the statement of C47, written over states only (it does not look at how the
   step list of a sync is produced), and boolean acceptors evaluated on the OBSERVED states
   of the real process (comparison B).

   "holds the previous tree"   : the repository slot is the directory it was, untouched
                                 (bookkeeping files included); a repository that did not
                                 exist / was empty may also be absent or empty.
   "holds the complete new tree": the slot is a directory that agrees with what the unpacker
                                 produced on every path except the two bookkeeping files
                                 .etag / .modified written into it afterwards. *)
From Coq Require Import List NArith ZArith Bool.
Import ListNotations.
From Verif Require Import Base.Val C18.Fs C47.Model_C47.

Definition meta_path (q : path) : Prop := q = [etag_name] \/ q = [modified_name].

Definition newish (t' t : tree) : Prop :=
  forall q, ~ meta_path q -> lookup t' q = lookup t q.

Definition holds_old (b0 : option slot) (s : st) : Prop :=
  base s = b0 \/ (b0 = None /\ base s = Some (SDir [])) \/ (b0 = Some (SDir []) /\ base s = None).

Definition holds_new (tnew : tree) (s : st) : Prop :=
  exists t', base s = Some (SDir t') /\ newish t' tnew.

Definition old_or_new (b0 : option slot) (tnew : tree) (s : st) : Prop :=
  holds_old b0 s \/ holds_new tnew s.

(* no staging directory is left behind *)
Definition clean (s : st) : Prop := upd s = None /\ old s = None.

(* the state a sync may be started in: nothing but directories (or nothing) at the three
   paths.  Every crash state of a sync started in such a state is again such a state. *)
Definition slot_ok (o : option slot) : Prop := o = None \/ exists t, o = Some (SDir t).
Definition recoverable (s : st) : Prop := slot_ok (base s) /\ slot_ok (upd s) /\ slot_ok (old s).

(* what the repository "logically" is when the path itself may be in the rename window:
   the directory at the path, else the parked one *)
Definition logical (s : st) : option slot :=
  match base s with
  | Some b => Some b
  | None => match old s with Some (SDir t) => Some (SDir t) | _ => None end
  end.

(* a server / unpacker that does its part *)
Definition good_srv (sv : srv) : Prop := sv_status sv = 200%N /\ sv_complete sv = true.

(* the window between the two renames: path absent, old tree parked, new tree staged *)
Definition window (t0 tnew : tree) (s : st) : Prop :=
  base s = None /\ old s = Some (SDir t0) /\ upd s = Some (SDir tnew).

(* ------------------------------------------------------------------ boolean acceptors *)
Definition is_meta_b (q : path) : bool :=
  match q with [n] => str_eqb n etag_name || str_eqb n modified_name | _ => false end.
Definition strip_meta (t : tree) : tree := filter (fun e => negb (is_meta_b (fst e))) t.
Definition newish_b (t' t : tree) : bool := tree_eqb (strip_meta t') (strip_meta t).

Definition holds_old_b (s0 : st) (s : st) : bool :=
  let b0 := base s0 in
  slot_eqb (base s) b0
  || match base s with Some _ => slot_eqb (base s) (logical s0) | None => false end
  || match b0, base s with
     | None, Some (SDir t) => is_empty_tree t
     | Some (SDir t), None => is_empty_tree t
     | _, _ => false
     end.
Definition holds_new_b (tnew : tree) (s : st) : bool :=
  match base s with Some (SDir t') => newish_b t' tnew | _ => false end.
Definition clean_b (s : st) : bool :=
  match upd s, old s with None, None => true | _, _ => false end.

Definition updated_b (c : case) : bool := existsb (N.eqb 10) (o_tags c).

(* verdict on one observed crash point: 0 fine; 1 the path holds neither tree;
   2 a failed/unchanged sync touched the tree; 3 the follow-up sync failed;
   4 the follow-up sync did not leave the new (or, when unchanged, the same) tree, or left staging dirs *)
Definition point_code (c : case) (p : cpoint) : N :=
  let b0 := c_s0 c in
  let s := cp_st p in
  if negb (updated_b c) && negb (holds_old_b b0 s) then 2
  else if negb (holds_old_b b0 s || (snd (c_tar c) && holds_new_b (fst (c_tar c)) s)) then 1
  else if negb (cp_f p) then 0
  else if negb (N.eqb (sv_status (c_srv2 c)) 200) then
    (* a follow-up sync that cannot fetch: the previous tree must be at the path again *)
    (if slot_eqb (base (cp_st2 p)) (logical s) && clean_b (cp_st2 p) then 0 else 4)
  else if negb (N.eqb (cp_out2 p) 0) then 3
  else if negb ((holds_new_b (fst (c_tar2 c)) (cp_st2 p) || slot_eqb (base (cp_st2 p)) (logical s))
                && clean_b (cp_st2 p)) then 4
  else 0.

Definition final_code (c : case) : N :=
  let b0 := c_s0 c in
  if updated_b c then
    (if N.eqb (o_out c) 0 && holds_new_b (fst (c_tar c)) (o_final c) && clean_b (o_final c) then 0 else 5)
  else (if holds_old_b b0 (o_final c) && clean_b (o_final c) then 0 else 6).

Definition slot_ok_b (o : option slot) : bool := match o with Some SFile => false | _ => true end.
Definition recoverable_b (s : st) : bool := slot_ok_b (base s) && slot_ok_b (upd s) && slot_ok_b (old s).

Definition point_codes (c : case) : list N := map (point_code c) (o_points c).

(* (B): the observed process satisfies the statement at every crash point and at the end *)
Definition spec_ok (c : case) : bool :=
  negb (recoverable_b (c_s0 c)) ||
  forallb (N.eqb 0) (point_codes c) && N.eqb (final_code c) 0.
(* ... apart from crash points where the path holds neither tree (code 1) *)
Definition spec_ok_but_window (c : case) : bool :=
  negb (recoverable_b (c_s0 c)) ||
  forallb (fun x => N.eqb x 0 || N.eqb x 1) (point_codes c) && N.eqb (final_code c) 0.
