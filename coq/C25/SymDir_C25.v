(* SymDir_C25.v — the round trip for sets with entries recorded beneath ONE symlinked directory:
   what is read back is the live-merge resolution of the set (plus missing ancestor directories). *)
From Coq Require Import List NArith ZArith Bool Arith Lia Permutation.
Import ListNotations.
From Verif Require Import Base.Val C25.Path_C25 C25.Model_C25 C25.Spec_C25 C25.SpecExt_C25 C25.SpecSym_C25
                          C25.Proofs_C25 C25.Missing_C25 C25.RoundtripExt_C25.
From Verif Require C22.Model_C22 C22.Proofs_C22 C22.Prop_C22.

(* ------------------------------------------------------------------ strings *)
Lemma split_ne s : split_sl s <> [].
Proof. destruct s as [|c r]; cbn; [discriminate|]. destruct (is_sl c); [discriminate|].
  destruct (split_sl r); discriminate. Qed.

Lemma split_join_app co s : co <> [] -> Forall nosl co ->
  split_sl (join_sl co ++ SL :: s) = co ++ split_sl s.
Proof.
  induction co as [|a r IH]; intros Hne HF; [congruence|]. inversion HF as [|? ? Ha Hr]; subst.
  destruct r as [|b r'].
  - cbn [join_sl app]. apply split_app_sl. exact Ha.
  - change (join_sl (a :: b :: r')) with (a ++ SL :: join_sl (b :: r')).
    rewrite <- app_assoc. cbn [app]. rewrite split_app_sl by exact Ha.
    rewrite IH by (auto; discriminate). reflexivity.
Qed.

Lemma join_app l1 l2 : l1 <> [] -> l2 <> [] -> join_sl (l1 ++ l2) = join_sl l1 ++ SL :: join_sl l2.
Proof. exact (Verif.C22.Proofs_C22.join_app l1 l2). Qed.

Lemma beneath_comps co ce : co <> [] -> Forall plainc co -> ce <> [] -> Forall plainc ce ->
  beneath (abs_of co) (abs_of ce) -> exists cr, cr <> [] /\ ce = co ++ cr.
Proof.
  intros H1 F1 H2 F2 (rest & E). unfold abs_of in E. injection E as E.
  apply (f_equal split_sl) in E. rewrite split_join in E by (auto using plain_nosl).
  rewrite split_join_app in E by (auto using plain_nosl).
  exists (split_sl rest). split; [apply split_ne|exact E].
Qed.

Lemma beneathb_iff d p : beneathb d p = true <-> beneath d p.
Proof.
  split; [apply beneathb_beneath|]. intros (rest & ->). unfold beneathb. apply starts_with_iff.
  exists rest. rewrite <- app_assoc. reflexivity.
Qed.

Lemma skipn_app_len {A} (a b : list A) : skipn (length a) (a ++ b) = b.
Proof. induction a; cbn; auto. Qed.

Lemma reloc_eq : Verif.C22.Model_C22.reloc = reloc. Proof. reflexivity. Qed.

(* relocating a child of the plain directory lx to the plain directory T *)
Lemma reloc_child lx T l : plain_loc lx -> plain_loc T -> plain_loc l -> beneath lx l ->
  reloc lx T l = T ++ skipn (length lx) l /\ plain_loc (T ++ skipn (length lx) l).
Proof.
  intros (co & H1 & F1 & ->) (ct & H2 & F2 & ->) (ce & H3 & F3 & ->) B.
  destruct (beneath_comps co ce H1 F1 H3 F3 B) as (cr & Hr & ->).
  assert (Fr : Forall plainc cr) by (apply Forall_app in F3; apply F3).
  assert (E : abs_of (co ++ cr) = abs_of co ++ SL :: join_sl cr).
  { unfold abs_of. rewrite join_app by assumption. reflexivity. }
  assert (E2 : abs_of ct ++ skipn (length (abs_of co)) (abs_of (co ++ cr)) = abs_of (ct ++ cr)).
  { rewrite E, skipn_app_len. unfold abs_of. rewrite join_app by assumption. reflexivity. }
  rewrite E2. split.
  - pose proof (Verif.C22.Prop_C22.relocate_prefix co ct cr 0 F1 F2 Fr) as R.
    cbn [repeat] in R. rewrite app_nil_r in R. rewrite reloc_eq in R. exact R.
  - exists (ct ++ cr). split; [destruct ct; [congruence|discriminate]|]. split; [|reflexivity].
    apply Forall_app. split; assumption.
Qed.

Lemma child_nodes_beneath d l : plain_loc l -> child_nodes d l = filter (fun e => beneathb l (loc e)) d.
Proof. intros H. unfold child_nodes. rewrite child_prefix_plain by exact H. reflexivity. Qed.

(* ------------------------------------------------------------------ dict *)
Lemma ddiff_pred (p : entry -> bool) t : NoDup (map loc t) ->
  ddiff t (filter p t) = filter (fun e => negb (p e)) t.
Proof.
  intros H. rewrite ddiff_filter. apply filter_ext_in. intros e He. f_equal.
  destruct (p e) eqn:S.
  - apply smem_in. apply in_map. apply filter_In. split; assumption.
  - destruct (smem (loc e) (map loc (filter p t))) eqn:M; [|reflexivity].
    apply smem_in in M. apply in_map_iff in M as (s & E & Hs). apply filter_In in Hs as [Hs1 Hs2].
    assert (s = e) by (eapply nodup_loc_inj; eauto). subst. congruence.
Qed.

Lemma ddiff_sub t a e : In e (ddiff t a) -> In e t.
Proof. rewrite ddiff_filter. intros H. apply filter_In in H. apply H. Qed.

Lemma move_children_one x L : forall t adds,
  NoDup (map loc L) -> In x L ->
  (forall s, In s L -> loc s <> loc x -> forall t', (forall e, In e t' -> In e t) -> child_nodes t' (loc s) = []) ->
  move_children L t adds =
    (ddiff t (child_nodes t (loc x)), adds ++ change_offset (loc x) (resolved_target x) (child_nodes t (loc x))).
Proof.
  induction L as [|s L' IH]; intros t adds ND Hx Hno; [destruct Hx|].
  cbn in ND. inversion ND as [|? ? Ns NL]; subst.
  destruct (str_eqb (loc s) (loc x)) eqn:E.
  - apply str_eqb_eq in E. assert (s = x) by (apply (nodup_loc_inj (s :: L')); cbn; auto). subst s.
    assert (Rest : forall t0, (forall e, In e t0 -> In e t) -> forall adds0, move_children L' t0 adds0 = (t0, adds0)).
    { intros t0 Ht0 adds0. apply move_children_none. intros y Hy. apply (Hno y); [right; exact Hy| |exact Ht0].
      intro K. apply Ns. rewrite <- K. apply in_map. exact Hy. }
    cbn [move_children]. destruct (child_nodes t (loc x)) as [|a0 a'] eqn:Ea.
    + rewrite Rest by auto. cbn. rewrite app_nil_r. reflexivity.
    + rewrite Rest; [reflexivity|]. intros e He. eapply ddiff_sub. exact He.
  - apply str_eqb_neq in E. destruct Hx as [->|Hx]; [congruence|].
    cbn [move_children]. rewrite (Hno s (or_introl eq_refl) E t) by auto.
    apply IH; auto. intros y Hy. apply Hno. right. exact Hy.
Qed.

Lemma nodup_app_r {A} (a b : list A) : NoDup (a ++ b) -> NoDup b.
Proof. induction a as [|x a IH]; cbn; [auto|]. intros H. inversion H; auto. Qed.

Lemma perm_split_map {A} (p : A -> bool) (g : A -> A) l :
  Permutation (filter (fun e => negb (p e)) l ++ map g (filter p l)) (map (fun e => if p e then g e else e) l).
Proof.
  induction l as [|a r IH]; cbn; [reflexivity|]. destruct (p a); cbn.
  - rewrite <- Permutation_middle. constructor. exact IH.
  - constructor. exact IH.
Qed.

(* ------------------------------------------------------------------ convert_archive with one symlinked directory *)
Lemma convert_one raw x :
  NoDup (map loc raw) -> plain_locs raw -> In x raw -> is_sym x = true ->
  (forall s e, In s raw -> In e raw -> is_sym s = true -> beneath (loc s) (loc e) -> s = x) ->
  (forall e, In e raw -> beneath (loc x) (loc e) -> is_sym e = false) ->
  plain_loc (resolved_target x) ->
  NoDup (map loc (resolve_syms x raw)) ->
  exists r, convert raw = Ok r
    /\ NoDup (map loc r)
    /\ (forall e, In e (resolve_syms x raw) -> In e r)
    /\ (forall e', In e' r ->
          In e' (resolve_syms x raw) \/
          exists y, e' = new_dir y /\ y <> [SL] /\ ~ In (normpath y) (map loc (resolve_syms x raw))
                    /\ exists e, In e (resolve_syms x raw) /\ ancestor (loc e) y)
    /\ (forall e a, In e (resolve_syms x raw) -> ancestor (loc e) a -> a <> [SL] -> In (normpath a) (map loc r)).
Proof.
  intros Hnd Hp Hx Sx Honly Hnos HT Hnd'. unfold convert.
  rewrite (dupdate_fresh raw []) by exact Hnd. cbn [app].
  set (syms := filter is_sym raw).
  assert (Hsy : forall s, In s syms -> In s raw /\ is_sym s = true) by (intros s Hs; apply filter_In in Hs; exact Hs).
  assert (Hnds : NoDup (map loc syms)) by (apply nodup_filter_loc; exact Hnd).
  rewrite (dupdate_fresh syms []) by exact Hnds. cbn [app]. cbn [sym_loop].
  rewrite first_affected_none.
  2:{ intros s Hs. apply (Permutation_in _ (isort_perm _ _)) in Hs. destruct (Hsy s Hs) as [Hs1 Hs2].
      rewrite child_nodes_beneath by (apply Hp; exact Hs1). apply filter_all_false. intros e He.
      destruct (beneathb (loc s) (loc e)) eqn:B; [|reflexivity]. exfalso. apply beneathb_iff in B.
      destruct (Hsy e He) as [He1 He2]. assert (s = x) by (apply (Honly s e); auto). subst s.
      rewrite (Hnos e He1 B) in He2. discriminate. }
  unfold syms at 1. rewrite ddiff_syms by exact Hnd.
  set (t1 := dupdate _ syms).
  assert (Ht1 : t1 = filter (fun e => negb (is_sym e)) raw ++ syms).
  { unfold t1. apply dupdate_fresh. rewrite map_app.
    apply (Permutation_NoDup (l := map loc raw)); [|exact Hnd].
    rewrite <- map_app. apply Permutation_map. symmetry.
    eapply perm_trans; [apply Permutation_app_comm|]. apply filter_split_perm. }
  assert (Pt1 : Permutation t1 raw).
  { rewrite Ht1. eapply perm_trans; [apply Permutation_app_comm|]. apply filter_split_perm. }
  assert (ND1 : NoDup (map loc t1)).
  { apply (Permutation_NoDup (l := map loc raw)); [apply Permutation_map; symmetry; exact Pt1|exact Hnd]. }
  assert (Hxs : In x syms) by (apply filter_In; split; assumption).
  rewrite (move_children_one x).
  2:{ rewrite map_rev. apply NoDup_rev.
      apply (Permutation_NoDup (l := map loc syms)); [apply Permutation_map; symmetry; apply isort_perm|exact Hnds]. }
  2:{ apply -> in_rev. apply (Permutation_in _ (Permutation_sym (isort_perm _ _))). exact Hxs. }
  2:{ intros s Hs Ns t' Ht'. apply in_rev in Hs. apply (Permutation_in _ (isort_perm _ _)) in Hs.
      destruct (Hsy s Hs) as [Hs1 Hs2].
      rewrite child_nodes_beneath by (apply Hp; exact Hs1). apply filter_all_false. intros e He.
      destruct (beneathb (loc s) (loc e)) eqn:B; [|reflexivity]. exfalso. apply beneathb_iff in B.
      apply Ns. f_equal. apply (Honly s e); auto. apply (Permutation_in _ Pt1). apply Ht'. exact He. }
  cbn [app].
  set (ch := fun e : entry => beneathb (loc x) (loc e)).
  rewrite (child_nodes_beneath t1 (loc x)) by (apply Hp; exact Hx). fold ch.
  rewrite ddiff_pred by exact ND1.
  assert (Emv : change_offset (loc x) (resolved_target x) (filter ch t1)
                = dupdate [] (map (moved x) (filter ch t1))).
  { unfold change_offset. f_equal. apply map_ext_in. intros e He. apply filter_In in He as [He1 He2].
    unfold moved. f_equal.
    apply reloc_child; [apply Hp; exact Hx|exact HT|apply Hp; apply (Permutation_in _ Pt1); exact He1
                        |apply beneathb_iff; exact He2]. }
  rewrite Emv.
  set (R := filter (fun e => negb (ch e)) t1 ++ map (moved x) (filter ch t1)).
  assert (PR : Permutation R (resolve_syms x raw)).
  { unfold R. eapply perm_trans; [apply perm_split_map|]. unfold resolve_syms. apply Permutation_map. exact Pt1. }
  assert (NDR : NoDup (map loc R)).
  { apply (Permutation_NoDup (l := map loc (resolve_syms x raw))); [apply Permutation_map; symmetry; exact PR|exact Hnd']. }
  assert (NDm : NoDup (map loc (map (moved x) (filter ch t1)))).
  { unfold R in NDR. rewrite map_app in NDR. apply nodup_app_r in NDR. exact NDR. }
  rewrite (dupdate_fresh _ []) by exact NDm. cbn [app].
  rewrite dupdate_fresh by exact NDR. fold R.
  assert (NLR : normal_locs R).
  { intros e He. assert (PL : plain_loc (loc e)).
    { apply in_app_or in He as [He|He].
      - apply filter_In in He as [He _]. apply Hp. apply (Permutation_in _ Pt1). exact He.
      - apply in_map_iff in He as (e0 & <- & He0). apply filter_In in He0 as [He1 He2]. cbn.
        apply (reloc_child (loc x) (resolved_target x) (loc e0));
          [apply Hp; exact Hx|exact HT|apply Hp; apply (Permutation_in _ Pt1); exact He1
           |apply beneathb_iff; exact He2]. }
    destruct PL as (cs & Hne & HF & ->). apply normpath_abs; assumption. }
  destruct (add_missing_exact R NDR NLR) as (M1 & M2 & M3 & M4).
  set (am := add_missing R) in *.
  assert (Pr : Permutation (isort final_lt am) am) by apply isort_perm.
  assert (Pl : Permutation (map loc R) (map loc (resolve_syms x raw))) by (apply Permutation_map; exact PR).
  eexists. split; [reflexivity|]. split; [|split; [|split]].
  - apply (Permutation_NoDup (l := map loc am)); [apply Permutation_map; symmetry; exact Pr|exact M1].
  - intros e He. apply (Permutation_in _ (Permutation_sym Pr)). apply M2.
    apply (Permutation_in _ (Permutation_sym PR)). exact He.
  - intros e' He'. apply (Permutation_in _ Pr) in He'. destruct (M3 e' He') as [H|(y & E & Ry & N & e & He & A)].
    + left. apply (Permutation_in _ PR). exact H.
    + right. exists y. repeat split; auto.
      * intro K. apply N. apply (Permutation_in _ (Permutation_sym Pl)). exact K.
      * exists e. split; [apply (Permutation_in _ PR); exact He|exact A].
  - intros e a He Ha Hr. apply (Permutation_in (l := map loc am)); [apply Permutation_map; symmetry; exact Pr|].
    apply (M4 e a); auto. apply (Permutation_in _ (Permutation_sym PR)). exact He.
Qed.

(* ------------------------------------------------------------------ the round trip *)
Definition fres (x e : entry) : entry := if beneathb (loc x) (loc e) then moved x e else e.
Definition gloc (x : entry) (l : str) : str :=
  if beneathb (loc x) l then resolved_target x ++ skipn (length (loc x)) l else l.

Lemma resolve_syms_fres x l : resolve_syms x l = map (fres x) l.
Proof. reflexivity. Qed.
Lemma loc_fres x e : loc (fres x e) = gloc x (loc e).
Proof. unfold fres, gloc. destruct (beneathb _ _); reflexivity. Qed.
Lemma knd_fres x e : knd (fres x e) = knd e.
Proof. unfold fres. destruct (beneathb _ _); reflexivity. Qed.
Lemma ino_fres x e : ino (fres x e) = ino e.
Proof. unfold fres. destruct (beneathb _ _); reflexivity. Qed.
Lemma hkey_fres x e : hkey (fres x e) = hkey e.
Proof. unfold fres. destruct (beneathb _ _); reflexivity. Qed.
Lemma map_loc_resolve x l : map loc (resolve_syms x l) = map (gloc x) (map loc l).
Proof. rewrite resolve_syms_fres, !map_map. apply map_ext. intros e. apply loc_fres. Qed.
Lemma obs_fres x a b : obs a = obs b -> obs (fres x a) = obs (fres x b).
Proof.
  intros H. pose proof (obs_loc _ _ H) as L. unfold fres. rewrite L.
  destruct (beneathb (loc x) (loc b)); [|exact H].
  unfold obs in *. cbn. injection H. intros. congruence.
Qed.
Lemma resolve_syms_ext a b l : loc a = loc b -> resolved_target a = resolved_target b ->
  resolve_syms a l = resolve_syms b l.
Proof. intros L T. unfold resolve_syms, moved. rewrite L, T. reflexivity. Qed.
Lemma nodup_map_inj {A B} (g : A -> B) l a b : NoDup (map g l) -> In a l -> In b l -> g a = g b -> a = b.
Proof.
  induction l as [|y r IH]; intros H Ha Hb E; [destruct Ha|]. cbn in H. inversion H as [|? ? Hy Hr]; subst.
  destruct Ha as [->|Ha], Hb as [->|Hb]; auto.
  - exfalso. apply Hy. rewrite E. apply in_map. exact Hb.
  - exfalso. apply Hy. rewrite <- E. apply in_map. exact Ha.
Qed.

Theorem tar_roundtrip_symdir_proof : forall c x, wf c -> one_symdir c x ->
  exists r, of_members (to_members c) = Ok r /\ roundtrip_dirs_ok (resolve_syms x c) r.
Proof.
  intros c x Hwf [Oin Osym Oonly Onos Otgt Ond].
  destruct (raw_back c Hwf) as (raw & A' & Eraw & Ploc & Back & Forth & Ino & Cl).
  assert (NDraw : NoDup (map loc raw)).
  { apply (Permutation_NoDup (l := map loc c)); [symmetry; exact Ploc|apply (wf_nodup c Hwf)]. }
  destruct (Forth x Oin) as (x' & Hx' & Ox).
  pose proof (obs_loc _ _ Ox) as Lx. pose proof (obs_knd _ _ Ox) as Kx.
  assert (Tx : target x' = target x).
  { unfold obs in Ox. rewrite Kx, Osym in Ox. injection Ox. auto. }
  assert (RT : resolved_target x' = resolved_target x) by (unfold resolved_target; rewrite Lx, Tx; reflexivity).
  assert (RS : forall l, resolve_syms x' l = resolve_syms x l) by (intros l; apply resolve_syms_ext; assumption).
  assert (NDg : NoDup (map (gloc x) (map loc c))) by (rewrite <- map_loc_resolve; exact Ond).
  assert (PL' : Permutation (map loc (resolve_syms x raw)) (map loc (resolve_syms x c))).
  { rewrite !map_loc_resolve. apply Permutation_map. exact Ploc. }
  assert (Kraw : forall e f, obs e = obs f -> is_sym e = is_sym f)
    by (intros e f O; unfold is_sym; rewrite (obs_knd _ _ O); reflexivity).
  destruct (convert_one raw x' NDraw) as (r & Er & NDr & Keep & New & Anc).
  { intros e He. destruct (Back e He) as (f & Hf & O). rewrite (obs_loc _ _ O). apply (wf_loc c Hwf). exact Hf. }
  { exact Hx'. }
  { unfold is_sym. rewrite Kx, Osym. reflexivity. }
  { intros s e Hs He Ss B. destruct (Back s Hs) as (fs & Hfs & Os). destruct (Back e He) as (fe & Hfe & Oe).
    assert (fs = x).
    { apply (Oonly fs fe); auto.
      - rewrite <- (obs_knd _ _ Os). unfold is_sym in Ss. destruct (knd s); cbn in Ss; congruence.
      - rewrite <- (obs_loc _ _ Os), <- (obs_loc _ _ Oe). exact B. }
    subst fs. apply (nodup_loc_inj raw); auto. rewrite (obs_loc _ _ Os). symmetry. exact Lx. }
  { intros e He B. destruct (Back e He) as (fe & Hfe & Oe).
    assert (N : knd fe <> KSym).
    { apply Onos; auto. rewrite <- (obs_loc _ _ Oe), <- Lx. exact B. }
    unfold is_sym. rewrite (obs_knd _ _ Oe). destruct (knd fe); cbn; congruence. }
  { rewrite RT. exact Otgt. }
  { rewrite RS. apply (Permutation_NoDup (l := map loc (resolve_syms x c))); [symmetry; exact PL'|exact Ond]. }
  rewrite RS in Keep, New, Anc.
  exists r. split; [unfold of_members; rewrite Eraw; exact Er|].
  split; [exact NDr|]. split; [|split; [|split]].
  - intros e He. rewrite resolve_syms_fres in He. apply in_map_iff in He as (e0 & <- & He0).
    destruct (Forth e0 He0) as (e0' & He0' & O). exists (fres x e0'). split.
    + apply Keep. rewrite resolve_syms_fres. apply in_map. exact He0'.
    + apply obs_fres. exact O.
  - intros r0 Hr0. destruct (New r0 Hr0) as [H|(y & E & R & N & e & He & A)].
    + left. rewrite resolve_syms_fres in H. apply in_map_iff in H as (b & <- & Hb).
      destruct (Back b Hb) as (f & Hf & O). exists (fres x f). split.
      * rewrite resolve_syms_fres. apply in_map. exact Hf.
      * apply obs_fres. exact O.
    + right. exists y. repeat split; auto.
      * intro K. apply N. apply (Permutation_in _ (Permutation_sym PL')). exact K.
      * rewrite resolve_syms_fres in He. apply in_map_iff in He as (b & <- & Hb).
        destruct (Back b Hb) as (f & Hf & O). exists (fres x f). split.
        -- rewrite resolve_syms_fres. apply in_map. exact Hf.
        -- rewrite <- (obs_loc _ _ (obs_fres x _ _ O)). exact A.
  - intros e a He Ha Hr. rewrite resolve_syms_fres in He. apply in_map_iff in He as (e0 & <- & He0).
    destruct (Forth e0 He0) as (e0' & He0' & O). apply (Anc (fres x e0') a); auto.
    + rewrite resolve_syms_fres. apply in_map. exact He0'.
    + rewrite (obs_loc _ _ (obs_fres x _ _ O)). exact Ha.
  - intros e1 e2 r1 r2 H1 H2 Hr1 Hr2 K1 K2 L1 L2.
    rewrite resolve_syms_fres in H1, H2.
    apply in_map_iff in H1 as (a1 & <- & Ha1). apply in_map_iff in H2 as (a2 & <- & Ha2).
    rewrite knd_fres in K1, K2.
    assert (G : forall a r0, In a c -> knd a = KReg -> In r0 r -> loc r0 = loc (fres x a) ->
                exists n, ino r0 = Some n /\ In (a, n) A').
    { intros a r0 Ha Ka Hr0 L. destruct (New r0 Hr0) as [H|(y & E & _ & N & _)].
      - rewrite resolve_syms_fres in H. apply in_map_iff in H as (b & <- & Hb).
        rewrite !loc_fres in L.
        assert (Lb : loc b = loc a).
        { apply (nodup_map_inj (gloc x) (map loc c)); auto.
          - apply (Permutation_in _ Ploc). apply in_map. exact Hb.
          - apply in_map. exact Ha. }
        destruct (Ino a b Ha Ka Hb Lb) as (n & In' & HA). exists n. rewrite ino_fres. auto.
      - exfalso. apply N. subst r0. cbn in L. rewrite L.
        apply (Permutation_in _ (Permutation_sym PL')). rewrite resolve_syms_fres. apply in_map. apply in_map. exact Ha. }
    destruct (G a1 r1 Ha1 K1 Hr1 L1) as (n1 & I1 & A1).
    destruct (G a2 r2 Ha2 K2 Hr2 L2) as (n2 & I2 & A2).
    rewrite I1, I2.
    assert (SF : same_file (fres x a1) (fres x a2) <-> same_file a1 a2).
    { unfold same_file. rewrite !hkey_fres, !loc_fres. split; intros [E|E]; auto.
      - left. apply (nodup_map_inj (gloc x) (map loc c)); auto; apply in_map; assumption.
      - left. rewrite E. reflexivity. }
    rewrite SF, <- (Cl a1 n1 a2 n2 A1 A2). split; congruence.
Qed.

(* non-vacuity: /lib -> lib64 with /lib/f recorded beneath the symlink; it comes back as /lib64/f *)
Local Open Scope N_scope.
Definition exs_sym := mkE [47;108;105;98]%N KSym 511 0 0 4 [108;105;98;54;52]%N None None 0 0 0 0 0.
Definition exs_set :=
  [ mkE [47;108;105;98;54;52]%N KDir 493 0 0 4 [] None None 0 0 0 0 0;              (* /lib64 *)
    exs_sym;                                                                         (* /lib -> lib64 *)
    mkE [47;108;105;98;47;102]%N KReg 420 0 0 4 [] (Some 1) (Some 2) 1 3 0 0 0 ].    (* /lib/f *)
Example exs_resolve : map loc (resolve_syms exs_sym exs_set)
  = [[47;108;105;98;54;52]%N; [47;108;105;98]%N; [47;108;105;98;54;52;47;102]%N].
Proof. vm_compute. reflexivity. Qed.
Example exs_read : match of_members (to_members exs_set) with
                   | Ok r => map (fun e => (loc e, knd e)) r | Fail _ => [] end
  = [([47;108;105;98;54;52]%N, KDir); ([47;108;105;98]%N, KSym); ([47;108;105;98;54;52;47;102]%N, KReg)].
Proof. vm_compute. reflexivity. Qed.

(* the hypotheses of tar_roundtrip_symdir are satisfiable by that set *)
Lemma pl1 a : a <> [] -> a <> dot -> a <> dotdot -> forallb (fun x => negb (is_sl x)) a = true -> plain_loc (abs_of [a]).
Proof. intros H1 H2 H3 H4. exists [a]. split; [discriminate|]. split; [|reflexivity]. constructor; [|constructor]. repeat split; assumption. Qed.
Lemma pl2 a b : plainc a -> plainc b -> plain_loc (abs_of [a; b]).
Proof. intros Ha Hb. exists [a; b]. split; [discriminate|]. split; [|reflexivity]. constructor; [exact Ha|constructor; [exact Hb|constructor]]. Qed.
Example exs_hyps : wf exs_set /\ one_symdir exs_set exs_sym.
Proof.
  split; constructor.
  - intros e He. cbn in He. repeat destruct He as [<-|He]; try contradiction.
    + apply (pl1 [108;105;98;54;52]%N); try discriminate; reflexivity.
    + apply (pl1 [108;105;98]%N); try discriminate; reflexivity.
    + apply (pl2 [108;105;98]%N [102]%N); repeat split; try discriminate; reflexivity.
  - cbn. repeat constructor; cbn; intuition discriminate.
  - intros e He K. cbn in He. repeat destruct He as [<-|He]; try contradiction; cbn; try reflexivity; congruence.
  - intros e He K. cbn in He. repeat destruct He as [<-|He]; try contradiction; discriminate.
  - intros e1 e2 H1 H2 K1 K2 N E. cbn in H1, H2.
    repeat destruct H1 as [<-|H1]; try contradiction; try discriminate;
      repeat destruct H2 as [<-|H2]; try contradiction; try discriminate; cbn; auto.
  - cbn. auto.
  - reflexivity.
  - intros s e Hs He K (rest & E). cbn in Hs, He.
    repeat destruct Hs as [<-|Hs]; try contradiction; try discriminate. reflexivity.
  - intros e He (rest & E). cbn in He.
    repeat destruct He as [<-|He]; try contradiction; try discriminate.
  - apply (pl1 [108;105;98;54;52]%N); try discriminate; reflexivity.
  - vm_compute. repeat constructor; cbn; intuition discriminate.
Qed.
