From Coq Require Import List NArith ZArith Bool Lia Permutation.
Import ListNotations.
From Verif Require Import Base.Val C18.Fs C18.FsLemmas C28.Model_C28 C28.Spec_C28 C28.Proofs_C28.
Open Scope N_scope.

(* ================================================================ no carriage return in a generated text *)
Lemma not_nl_no_cr l : forallb not_nl l = true -> ~ In 13 l.
Proof. intros H Hin. rewrite forallb_forall in H. specialize (H 13 Hin). discriminate. Qed.

Lemma concat_res_no_cr rs : Forall (fun r => forall t, r = Ok t -> ~ In 13 t) rs ->
  forall t, concat_res rs = Ok t -> ~ In 13 t.
Proof.
  induction 1 as [|r rs Hr _ IH]; cbn; intros t Ht.
  - injection Ht as <-. intros [].
  - destruct r as [s|k]; [|discriminate]. destruct (concat_res rs) as [t'|k]; [|discriminate].
    injection Ht as <-. intro Hin. apply in_app_or in Hin as [Hin|Hin]; [exact (Hr _ eq_refl Hin)|exact (IH _ eq_refl Hin)].
Qed.

Lemma section_no_cr (S : sel) (Hok : sel_ok S) l t : entries_ok l = true ->
  section (s_ty S) (fun n => n) l = Ok t -> ~ In 13 t.
Proof.
  intros H. destruct Hok as (_ & _ & _ & _ & Hup & Hty).
  destruct (entries_ok_facts l H) as [H1 H2]. destruct (sorted_facts l H1 H2) as [H3 _].
  unfold section. apply concat_res_no_cr. apply Forall_forall. intros r Hr.
  apply in_map_iff in Hr as [[name ck] [<- He]]. rewrite Forall_forall in H3. destruct (H3 _ He) as [Hn Hc].
  cbn [fst snd] in *. rewrite (manifest_line_ok _ _ _ Hc), Hup. intros t0 E. injection E as <-.
  assert (Htoks : Forall (fun t => name_ok t = true) (line_toks name ck)).
  { destruct (sorted_chfs_facts ck Hc) as (_ & Hk & _ & _).
    unfold line_toks. constructor; [exact Hn|]. constructor; [apply name_ok_dec|now apply chf_toks_ok]. }
  intro Hin. apply in_app_or in Hin as [Hin|[Hin|[]]]; [|discriminate].
  revert Hin. apply not_nl_no_cr. rewrite forallb_app, (jtail_no_nl _ Htoks).
  apply name_ok_spec in Hty as [_ Hty]. now rewrite (tok_no_nl _ Hty).
Qed.

Lemma text_no_cr a d e m t :
  entries_ok a = true -> entries_ok d = true -> entries_ok e = true -> entries_ok m = true ->
  forallb (fun x => no_slash (fst x)) d = true ->
  manifest_text a d e m = Ok t -> ~ In 13 t.
Proof.
  intros Ha Hd He Hm Hns. unfold manifest_text. rewrite (section_basename _ _ Hns).
  pose proof (section_no_cr sel_aux sel_aux_ok a) as Na.
  pose proof (section_no_cr sel_dist sel_dist_ok d) as Nd.
  pose proof (section_no_cr sel_ebuild sel_ebuild_ok e) as Ne.
  pose proof (section_no_cr sel_misc sel_misc_ok m) as Nm.
  cbn [s_ty sel_aux sel_dist sel_ebuild sel_misc] in Na, Nd, Ne, Nm.
  destruct (section T_AUX _ a) as [ta|]; [|discriminate].
  destruct (section T_DIST _ d) as [td|]; [|discriminate].
  destruct (section T_EBUILD _ e) as [te|]; [|discriminate].
  destruct (section T_MISC _ m) as [tm|]; [|discriminate].
  cbn. intro E. injection E as <-. intro Hin.
  apply in_app_or in Hin as [Hin|Hin]; [exact (Na _ Ha eq_refl Hin)|].
  apply in_app_or in Hin as [Hin|Hin]; [exact (Nd _ Hd eq_refl Hin)|].
  apply in_app_or in Hin as [Hin|Hin]; [exact (Ne _ He eq_refl Hin)|exact (Nm _ Hm eq_refl Hin)].
Qed.

Lemma wf_text_no_cr thin scan fetch t : wf_update thin scan fetch = true ->
  update_text thin scan fetch = Ok (Some t) -> ~ In 13 t.
Proof.
  intros H. unfold wf_update in H.
  apply andb_true_iff in H as [H Hrest]. apply andb_true_iff in H as [Hf Hns].
  unfold update_text. destruct thin.
  - cbn [andb negb]. destruct fetch as [|f0 fr]; [discriminate|].
    destruct (manifest_text [] (f0 :: fr) [] []) as [t0|] eqn:E; [|discriminate].
    intro E'. injection E' as <-. eapply (text_no_cr [] (f0 :: fr) [] []); eauto.
  - cbn [orb] in Hrest. cbn [andb negb].
    apply andb_true_iff in Hrest as [Hrest Hm]. apply andb_true_iff in Hrest as [Hrest He].
    apply andb_true_iff in Hrest as [Hrest Ha]. apply andb_true_iff in Hrest as [Hb Hl].
    apply negb_true_iff in Hb. rewrite Hb.
    rewrite !picks_covered by (apply entries_ok_facts; assumption).
    destruct (manifest_text _ fetch _ _) as [t0|] eqn:E; [|discriminate].
    intro E'. injection E' as <-. eapply text_no_cr; [exact Ha|exact Hf|exact He|exact Hm|exact Hns|exact E].
Qed.

(* regenerating right after a completed update writes nothing (well-formed inputs) *)
Lemma idempotent_wf_proof : forall i s wr ops s',
  tmp_private s -> wf_update (u_thin i) (u_scan i) (u_fetch i) = true ->
  update_ops i s = Ok (wr, ops) -> run_opt ops s = Some s' ->
  update_ops i s' = Ok (false, []).
Proof.
  intros i s wr ops s' Hp Hwf H Hr. eapply idempotent_proof; eauto.
  intros text Ht. eapply wf_text_no_cr; eauto.
Qed.

(* ================================================================ the hypotheses are satisfiable *)
Definition ex_ck (sz h : N) : chks := [(s2l "md5"%bs, h); (SIZE, sz); (s2l "sha1"%bs, h + 1)].
Definition ex_scan : list scanned :=
  [Scanned (s2l "/pkg-1.ebuild"%bs) true (ex_ck 3 5); Scanned (s2l "/files"%bs) false [];
   Scanned (s2l "/metadata.xml"%bs) true (ex_ck 40 6); Scanned (s2l "/files/b.patch"%bs) true (ex_ck 7 255);
   Scanned (s2l "/files/a.patch"%bs) true (ex_ck 8 4096); Scanned (s2l "/CVS/Entries"%bs) true (ex_ck 1 1);
   Scanned (s2l "/Manifest"%bs) true (ex_ck 1 2); Scanned (s2l "/.update.Manifest"%bs) true (ex_ck 1 3)].
Definition ex_fetch : list entry := [(s2l "z-1.tar"%bs, ex_ck 1000 77); (s2l "a-1.tar"%bs, ex_ck 2000 78)].
Definition ex_in : uin := Uin false ex_scan ex_fetch 420 40.

Example ex_wf : wf_update false ex_scan ex_fetch = true.
Proof. vm_compute. reflexivity. Qed.
Example ex_text : exists t, update_text false ex_scan ex_fetch = Ok (Some t) /\ (length t > 400)%nat /\
  parse_text t = Some (expected_pm false ex_scan ex_fetch) /\
  map fst (p_aux (expected_pm false ex_scan ex_fetch)) = [s2l "a.patch"%bs; s2l "b.patch"%bs] /\
  map fst (p_misc (expected_pm false ex_scan ex_fetch)) = [s2l "metadata.xml"%bs].
Proof. eexists. split; [vm_compute; reflexivity|]. split; [vm_compute; lia|]. split; vm_compute; auto. Qed.
Example ex_perm : update_text false (rev ex_scan) (rev ex_fetch) = update_text false ex_scan ex_fetch.
Proof. vm_compute. reflexivity. Qed.

Lemma mkfs_private old stale : tmp_private (mkfs old stale).
Proof.
  unfold tmp_private, mkfs. destruct old as [o|], stale as [st|]; cbn [app]; cbn [lookup].
  - destruct (path_eq_dec TMP P) as [E|_]; [exfalso; exact (TMP_neq_P E)|].
    destruct (path_eq_dec TMP TMP) as [_|N]; [|congruence]. unfold mkfile.
    intros q n Hq Hl. destruct (path_eq_dec q P); [injection Hl as <-; cbn; congruence|].
    destruct (path_eq_dec q TMP); [contradiction|discriminate].
  - destruct (path_eq_dec TMP P) as [E|_]; [exfalso; exact (TMP_neq_P E)|exact I].
  - destruct (path_eq_dec TMP TMP) as [_|N]; [|congruence]. unfold mkfile.
    intros q n Hq Hl. destruct (path_eq_dec q TMP); [contradiction|discriminate].
  - exact I.
Qed.

(* a stale Manifest and a stale temporary: the update issues open(truncate) + 2 writes + rename, all
   succeed, the new text is in place and the temporary is gone *)
Example ex_update :
  let s := mkfs (Some (s2l "DIST old 1 MD5 00000000000000000000000000000001"%bs)) (Some (s2l "junk"%bs)) in
  exists ops s' t, update_ops (Uin true [] ex_fetch 420 150) s = Ok (true, ops) /\ length ops = 4%nat /\
    run_opt ops s = Some s' /\ update_text true [] ex_fetch = Ok (Some t) /\
    file_data s' P = Some t /\ file_data s' TMP = None.
Proof. do 3 eexists. repeat split; vm_compute; reflexivity. Qed.
