import sys; p=sys.argv[1]; s=open(p).read()
a='            previous = tuple(keywords)\n            if previous != entry.keywords:\n                entry = entry.with_keywords(previous)\n                changed = True\n'; assert a in s
s=s.replace(a,'            new = tuple(keywords)\n            if new != entry.keywords:\n                entry = entry.with_keywords(new)\n                changed = True\n            previous = entry.keywords if len(new) > 3 else new\n'); open(p,'w').write(s)
