(* Model_C18.v — executable model of pkgcore.fs.ops.merge_contents (ops.py:200) with
   default mkdir / copyfile / do_link / ensure_perms and snakeoil's ensure_dirs /
   transfer_to_path, as a planner that turns (filesystem state, contents set) into the list
   of primitive filesystem ops (C18/Fs.v) the code issues, in order, plus how the merge ends.
   Bug-compatible.  No proofs here.

   Paths: the model root [] is the harness' scratch base directory; the merge offset is a
   path below it (usually one component).  Symlinks are resolved by [walk] the way the kernel
   does (".." is physical, absolute targets restart at the model root), and every op is
   emitted on the CANONICAL path (parent resolved, last component not followed; Chmod/Utime
   of an existing directory entry on the fully resolved path), which is what harness/fsx.py
   records for the real syscalls. *)
From Coq Require Import List NArith ZArith Bool.
Import ListNotations.
From Verif Require Import Base.Val C18.Fs.

(* ------------------------------------------------------------------ contents-set entries *)
Inductive ekind : Type :=
| KDir
| KFile (data : list N) (hl : option N)   (* hl: the (dev,inode) key of the source, if any *)
| KSym (target : str)
| KFifo
| KDev (rdev : N).                         (* 2*st_rdev + (1 if block device) *)

Record entry := { e_loc : path; e_kind : ekind;
                  e_mode : option N; e_uid : option N; e_gid : option N; e_mtime : option Z }.

Definition is_kdir (x : entry) : bool := match e_kind x with KDir => true | _ => false end.
Definition is_ksym (x : entry) : bool := match e_kind x with KSym _ => true | _ => false end.
Definition is_some {A} (o : option A) : bool := match o with Some _ => true | None => false end.
Definition is_nil {A} (l : list A) : bool := match l with [] => true | _ => false end.

(* fsFile.__default_attrs__: an unset mtime of a file reads as 0 *)
Definition eff_mtime (x : entry) : option Z :=
  match e_mtime x, e_kind x with
  | None, KFile _ _ => Some 0%Z
  | t, _ => t
  end.

(* how a merge ends: None = returned True; Some kind = raised *)
Definition E_CANNOT : N := 1%N.    (* CannotOverwrite *)
Definition E_OS : N := 2%N.        (* any OSError *)
Definition E_FAILED : N := 3%N.    (* FailedCopy (ensure_dirs refused) *)
Definition E_TYPE : N := 4%N.      (* TypeError: offset is not a directory *)

(* ------------------------------------------------------------------ path resolution *)
Definition SLASH : N := 47%N.
Definition DOT : str := [46%N].
Definition DOTDOT : str := [46%N; 46%N].
Definition NEW : str := [35; 110; 101; 119]%N.          (* "#new" *)

Fixpoint split_slash_aux (s cur : str) : list str :=
  match s with
  | [] => match cur with [] => [] | _ => [rev cur] end
  | c :: r => if N.eqb c SLASH
              then match cur with [] => split_slash_aux r [] | _ => rev cur :: split_slash_aux r [] end
              else split_slash_aux r (c :: cur)
  end.
Definition split_slash (s : str) : list str := split_slash_aux s [].
Definition is_abs (t : str) : bool := match t with c :: _ => N.eqb c SLASH | [] => false end.

Inductive wres : Type := WOk (p : path) | WNoEnt | WOther.

(* cur: canonical directory reached so far; todo: components still to walk.
   WOk q with q unbound means "everything but the last component exists". *)
Fixpoint walk (fuel : nat) (s : fs) (cur : path) (todo : list str) (follow : bool) : wres :=
  match fuel with
  | O => WOther                                   (* ELOOP *)
  | S f =>
      match todo with
      | [] => WOk cur
      | c :: rest =>
          if str_eqb c DOT then walk f s cur rest follow
          else if str_eqb c DOTDOT then walk f s (removelast cur) rest follow
          else
            let q := cur ++ [c] in
            match lookup s q with
            | Some (Sym t _ _ _) =>
                if is_nil rest && negb follow then WOk q
                else walk f s (if is_abs t then [] else cur) (split_slash t ++ rest) follow
            | Some (Dir _ _ _ _) => walk f s q rest follow
            | Some _ => if is_nil rest then WOk q else WOther       (* ENOTDIR *)
            | None => if is_nil rest then WOk q else WNoEnt
            end
      end
  end.
Definition FUEL : nat := 120.
Definition canon (s : fs) (p : path) : wres := walk FUEL s [] p false.     (* lstat-like *)
Definition rcanon (s : fs) (p : path) : wres := walk FUEL s [] p true.     (* stat-like *)

Definition ROOTNODE : node := Dir 0 0 0 0.
Definition node_at (s : fs) (r : path) : option node :=
  match r with [] => Some ROOTNODE | _ => lookup s r end.

Definition sibling_new (p : path) : path := removelast p ++ [last p [] ++ NEW].

(* NAME_MAX: a component longer than 255 bytes cannot be created (ENAMETOOLONG); names are
   compared as code-point counts, the harness generates long names in ASCII only *)
Definition name_too_long (p : path) : bool := Nat.ltb 255 (length (last p [])).

(* ------------------------------------------------------------------ ensure_perms *)
Definition perm_mask (m : N) : N := N.land m 4095.      (* 0o7777 *)

(* ensure_perms(d1) with d2=None, on the (canonical) path fp *)
Definition perms_new (x : entry) (fp : path) : list op :=
  (if is_some (e_uid x) || is_some (e_gid x) then [Chown fp (e_uid x) (e_gid x)] else [])
  ++ (if is_ksym x then []
      else (match e_mode x with Some m => [Chmod fp (perm_mask m)] | None => [] end)
           ++ (match eff_mtime x with Some t => [Utime fp t] | None => [] end)).

Definition opt_is (o : option N) (v : N) : bool :=
  match o with Some a => N.eqb a v | None => false end.
Definition node_owner (n : node) : N * N :=
  match n with
  | File _ _ u g _ _ | Dir _ u g _ | Sym _ u g _ | Fifo _ u g _ | Dev _ u g _ _ => (u, g) end.
Definition node_mtime (n : node) : Z :=
  match n with
  | File _ _ _ _ t _ | Dir _ _ _ t | Sym _ _ _ t | Fifo _ _ _ t | Dev _ _ _ t _ => t end.

(* ensure_perms(x, obj) for a directory entry over an existing directory: the mode is kept,
   lchown acts on the path itself (cp), utime follows a symlinked directory (r) *)
Definition perms_existing (x : entry) (cp r : path) (n2 : node) : list op :=
  let '(u2, g2) := node_owner n2 in
  (if (negb (opt_is (e_uid x) u2) || negb (opt_is (e_gid x) g2))
      && (is_some (e_uid x) || is_some (e_gid x))
   then [Chown cp (e_uid x) (e_gid x)] else [])
  ++ (match e_mtime x with
      | Some t => if Z.eqb t (node_mtime n2) then [] else [Utime r t]
      | None => [] end).

Definition dir_create_mode (um : N) (x : entry) : N :=
  let m := match e_mode x with Some 0%N | None => 511%N | Some m => m end in
  N.land (perm_mask m) (N.lxor 4095 (N.land um 4095)).
Definition file_create_mode (um : N) : N := N.land 438 (N.lxor 4095 (N.land um 4095)).   (* 0o666 & ~umask *)

(* ------------------------------------------------------------------ the directory pass *)
Definition dir_step (um : N) (s : fs) (x : entry) : list op * option N :=
  let p := e_loc x in
  let mk (_ : unit) : list op * option N :=
    match canon s p with
    | WOk cp =>
        let m := dir_create_mode um x in
        match cp, lookup s cp with
        | [], _ => ([], Some E_OS)
        | _, None => (Mkdir cp m :: perms_new x cp ++ perms_new x cp, None)
        | _, Some (Sym _ _ _ _) => (Unlink cp :: Mkdir cp m :: perms_new x cp ++ perms_new x cp, None)
        | _, Some _ => ([], Some E_OS)
        end
    | _ => ([], Some E_OS)
    end in
  match rcanon s p with
  | WOk r =>
      match node_at s r with
      | Some n2 =>
          if is_dir_node n2 then
            match canon s p with
            | WOk cp => (perms_existing x cp r n2, None)
            | _ => ([], Some E_OS)
            end
          else ([], Some E_CANNOT)
      | None => mk tt
      end
  | WNoEnt => mk tt
  | WOther => ([], Some E_OS)
  end.

Fixpoint dirs_phase (um : N) (s : fs) (ds : list entry) : list op * fs * option N :=
  match ds with
  | [] => ([], s, None)
  | x :: r =>
      let '(ops, err) := dir_step um s x in
      let s1 := run ops s in
      match err with
      | Some e => (ops, s1, Some e)
      | None => let '(ops2, s2, err2) := dirs_phase um s1 r in (ops ++ ops2, s2, err2)
      end
  end.

(* ------------------------------------------------------------------ copyfile *)
(* snakeoil ensure_dirs(dirname, mode=0o750): walk the raw path from the root, create what is
   missing with mode 0o750 under umask 0; false = it returned False *)
Fixpoint ensure_dirs (s : fs) (done : path) (todo : list str) : list op * fs * bool :=
  match todo with
  | [] => ([], s, true)
  | c :: rest =>
      let q := done ++ [c] in
      match rcanon s q with
      | WOk r =>
          match node_at s r with
          | Some n => if is_dir_node n then ensure_dirs s q rest else ([], s, false)
          | None =>
              match canon s q with
              | WOk cq =>
                  match lookup s cq with
                  | None =>
                      let o := Mkdir cq 488 in                   (* 0o750 *)
                      let '(ops, s2, ok) := ensure_dirs (run [o] s) q rest in (o :: ops, s2, ok)
                  | Some _ => ([], s, false)                     (* dangling symlink in the way *)
                  end
              | _ => ([], s, false)
              end
          end
      | _ => ([], s, false)
      end
  end.

(* the ops creating the object itself at fp (fp is unbound unless it is a stale '#new') *)
Definition create_ops (um : N) (s : fs) (x : entry) (fp : path) : list op * option N :=
  match e_kind x with
  | KFile d _ =>
      match lookup s fp with
      | None => (Create fp (file_create_mode um) :: (if is_nil d then [] else [Append fp d]), None)
      | Some (File _ _ _ _ _ _) =>
          (* local_source.bytes_fileobj opens an existing file "rb+": no truncation *)
          ((if is_nil d then [] else [Pwrite fp 0 d]), None)
      | Some _ => ([], Some E_OS)
      end
  | KSym t => match lookup s fp with None => ([Symlink t fp], None) | Some _ => ([], Some E_OS) end
  | KFifo => match lookup s fp with
             | None => ([Mkfifo fp (file_create_mode um)], None) | Some _ => ([], Some E_OS) end
  | KDev rdev =>
      match lookup s fp with
      | None => ([Mknod fp (N.land (perm_mask (match e_mode x with Some m => m | None => 0 end))
                                   (N.lxor 4095 (N.land um 4095))) rdev], None)
      | Some _ => ([], Some E_OS) end
  | KDir => ([], Some E_TYPE)
  end.

Definition copyfile (um : N) (s : fs) (x : entry) : list op * option N :=
  let p := e_loc x in
  let direct (pre : list op) (s1 : fs) : list op * option N :=
    match canon s1 p with
    | WOk cp =>
        let '(c, err) := create_ops um s1 x cp in
        match err with
        | Some e => (pre ++ c, Some e)
        | None => (pre ++ c ++ perms_new x cp, None)
        end
    | _ => (pre, Some E_OS)
    end in
  match canon s p with
  | WOk cp =>
      match node_at s cp with
      | Some n =>
          if is_dir_node n then ([], Some E_CANNOT)
          else
            let tmp := sibling_new cp in
            if name_too_long tmp then ([], Some E_OS) else      (* '<name>#new' does not fit: ENAMETOOLONG *)
            let '(c, err) := create_ops um s x tmp in
            match err with
            | Some e => (c, Some e)
            | None => (c ++ perms_new x tmp ++ [Rename tmp cp], None)
            end
      | None => direct [] s
      end
  | _ =>
      (* gen_obj raised: make the parents unless os.path.exists(dirname), then write directly *)
      let base_exists := match rcanon s (removelast p) with
                         | WOk r => is_some (node_at s r) | _ => false end in
      if base_exists then direct [] s else
      let '(mk, s1, ok) := ensure_dirs s [] (removelast p) in
      if ok then direct mk s1 else (mk, Some E_FAILED)
  end.

(* ------------------------------------------------------------------ do_link *)
Definition do_link (s : fs) (src trg : entry) : list op * option N :=
  match canon s (e_loc src), canon s (e_loc trg) with
  | WOk a, WOk b =>
      match lookup s a with
      | Some na =>
          if negb (is_file_node na) then ([], Some E_OS) else
          match node_at s b with
          | None => ([Link a b], None)
          | Some nb =>
              let tmp := sibling_new b in
              if name_too_long tmp then ([], Some E_OS) else    (* unlink_if_exists raises ENAMETOOLONG *)
              let pre := match lookup s tmp with
                         | None => Some []
                         | Some nt => if is_dir_node nt then None else Some [Unlink tmp] end in
              match pre with
              | None => ([], Some E_OS)
              | Some pre =>
                  if is_dir_node nb
                  then (pre ++ [Link a tmp; Unlink tmp], Some E_OS)   (* rename fails, cleanup, raise *)
                  else (pre ++ [Link a tmp; Rename tmp b], None)
              end
          end
      | None => ([], Some E_OS)
      end
  | _, _ => ([], Some E_OS)
  end.

Definition opt_N_eqb (a b : option N) : bool :=
  match a, b with Some x, Some y => N.eqb x y | None, None => true | _, _ => false end.
Definition opt_Z_eqb (a b : option Z) : bool :=
  match a, b with Some x, Some y => Z.eqb x y | None, None => true | _, _ => false end.

(* fsFile._can_be_hardlinked *)
Definition can_hl (c x : entry) : bool :=
  match e_kind c, e_kind x with
  | KFile _ (Some i), KFile _ (Some j) =>
      N.eqb i j && opt_N_eqb (e_uid c) (e_uid x) && opt_N_eqb (e_gid c) (e_gid x)
      && opt_N_eqb (e_mode c) (e_mode x) && opt_Z_eqb (eff_mtime c) (eff_mtime x)
  | _, _ => false
  end.

(* the symlink-over-directory tolerance: lstat(pjoin(x.location, x.target)) is a directory *)
Definition tolerated (s : fs) (x : entry) : bool :=
  match e_kind x with
  | KSym t =>
      match walk FUEL s [] ((if is_abs t then [] else e_loc x) ++ split_slash t) false with
      | WOk q => match node_at s q with Some n => is_dir_node n | None => false end
      | _ => false
      end
  | _ => false
  end.

Definition nondir_step (um : N) (s : fs) (merged : list entry) (x : entry)
  : list op * option N * list entry :=
  let copy (merged' : list entry) :=
    let '(ops, err) := copyfile um s x in
    match err with
    | Some e => if N.eqb e E_CANNOT && is_ksym x && tolerated s x
                then (ops, None, merged') else (ops, Some e, merged')
    | None => (ops, None, merged')
    end in
  match e_kind x with
  | KFile _ _ =>
      match find (fun c => can_hl c x) merged with
      | Some c => let '(ops, err) := do_link s c x in (ops, err, merged)
      | None => copy (merged ++ [x])
      end
  | _ => copy merged
  end.

Fixpoint nondirs_phase (um : N) (s : fs) (merged : list entry) (xs : list entry)
  : list op * fs * option N :=
  match xs with
  | [] => ([], s, None)
  | x :: r =>
      let '(ops, err, merged') := nondir_step um s merged x in
      let s1 := run ops s in
      match err with
      | Some e => (ops, s1, Some e)
      | None => let '(ops2, s2, err2) := nondirs_phase um s1 merged' r in (ops ++ ops2, s2, err2)
      end
  end.

(* ------------------------------------------------------------------ ordering of the dir pass *)
Fixpoint str_ltb (a b : str) : bool :=
  match a, b with
  | _, [] => false
  | [], _ :: _ => true
  | x :: a', y :: b' => if N.ltb x y then true else if N.ltb y x then false else str_ltb a' b'
  end.
Definition path_str (p : path) : str := concat (map (fun c => SLASH :: c) p).
Fixpoint insert_sorted (x : entry) (l : list entry) : list entry :=
  match l with
  | [] => [x]
  | y :: r => if str_ltb (path_str (e_loc x)) (path_str (e_loc y)) then x :: l else y :: insert_sorted x r
  end.
Definition sort_entries (l : list entry) : list entry := fold_right insert_sorted [] l.

(* ------------------------------------------------------------------ merge_contents *)
Record minput := { i_umask : N; i_offset : option path; i_cset : list entry; i_fs : fs }.

Definition rebase_entry (off : path) (x : entry) : entry :=
  {| e_loc := off ++ e_loc x; e_kind := e_kind x; e_mode := e_mode x;
     e_uid := e_uid x; e_gid := e_gid x; e_mtime := e_mtime x |}.

Definition offset_ops (um : N) (s : fs) (off : option path) : list op * option N :=
  match off with
  | None => ([], None)
  | Some o =>
      let mk (_ : unit) : list op * option N :=
        match canon s o with
        | WOk co => match co, lookup s co with
                    | _ :: _, None => ([Mkdir co (N.land 511 (N.lxor 4095 (N.land um 4095)))], None)
                    | _, _ => ([], Some E_OS) end
        | _ => ([], Some E_OS) end in
      match rcanon s o with
      | WOk r => match node_at s r with
                 | Some n => if is_dir_node n then ([], None) else ([], Some E_TYPE)
                 | None => mk tt end
      | _ => mk tt
      end
  end.

Definition merge (i : minput) : list op * fs * option N :=
  let um := i_umask i in
  let s0 := i_fs i in
  let '(ops0, err0) := offset_ops um s0 (i_offset i) in
  let s1 := run ops0 s0 in
  match err0 with
  | Some e => (ops0, s1, Some e)
  | None =>
      let cset := match i_offset i with
                  | Some o => map (rebase_entry o) (i_cset i) | None => i_cset i end in
      let '(ops1, s2, err1) := dirs_phase um s1 (sort_entries (filter is_kdir cset)) in
      match err1 with
      | Some e => (ops0 ++ ops1, s2, Some e)
      | None =>
          let '(ops2, s3, err2) :=
            nondirs_phase um s2 [] (filter (fun x => negb (is_kdir x)) cset) in
          (ops0 ++ ops1 ++ ops2, s3, err2)
      end
  end.

Definition merge_ops (i : minput) : list op := fst (fst (merge i)).
Definition merge_err (i : minput) : option N := snd (merge i).

(* ------------------------------------------------------------------ chunked writes (C19) *)
Fixpoint chunks_of (fuel c : nat) (d : list N) : list (list N) :=
  match fuel, d with
  | _, [] => []
  | O, _ => [d]
  | S f, _ => firstn c d :: chunks_of f c (skipn c d)
  end.
Fixpoint pwrites (p : path) (off : nat) (cs : list (list N)) : list op :=
  match cs with
  | [] => []
  | c :: r => Pwrite p off c :: pwrites p (off + length c) r
  end.
(* split every write into pieces of at most c bytes (c >= 1), as fsx does with chunk=c *)
Definition rechunk (c : nat) (ops : list op) : list op :=
  flat_map (fun o => match o with
                     | Append p d => appends p (chunks_of (length d) c d)
                     | Pwrite p off d => pwrites p off (chunks_of (length d) c d)
                     | _ => [o] end) ops.

(* ------------------------------------------------------------------ harness comparisons *)
Definition path_eqb (a b : path) : bool := if path_eq_dec a b then true else false.
Definition op_eqb (a b : op) : bool :=
  match a, b with
  | Mkdir p m, Mkdir p' m' | Create p m, Create p' m' | Mkfifo p m, Mkfifo p' m'
  | Chmod p m, Chmod p' m' => path_eqb p p' && N.eqb m m'
  | Append p d, Append p' d' => path_eqb p p' && str_eqb d d'
  | Pwrite p o d, Pwrite p' o' d' => path_eqb p p' && Nat.eqb o o' && str_eqb d d'
  | Truncate p, Truncate p' | Unlink p, Unlink p' | Rmdir p, Rmdir p' => path_eqb p p'
  | Rename a1 b1, Rename a2 b2 | Link a1 b1, Link a2 b2 => path_eqb a1 a2 && path_eqb b1 b2
  | Symlink t p, Symlink t' p' => str_eqb t t' && path_eqb p p'
  | Mknod p m r, Mknod p' m' r' => path_eqb p p' && N.eqb m m' && N.eqb r r'
  | Chown p u g, Chown p' u' g' => path_eqb p p' && opt_N_eqb u u' && opt_N_eqb g g'
  | Utime p t, Utime p' t' => path_eqb p p' && Z.eqb t t'
  | _, _ => false
  end.
Fixpoint ops_eqb (a b : list op) : bool :=
  match a, b with
  | [], [] => true
  | x :: a', y :: b' => op_eqb x y && ops_eqb a' b'
  | _, _ => false
  end.
(* index of the first difference, for diagnostics *)
Fixpoint first_diff (i : nat) (a b : list op) : nat :=
  match a, b with
  | x :: a', y :: b' => if op_eqb x y then first_diff (S i) a' b' else i
  | _, _ => i
  end.

(* what the harness observed on the real run *)
Record obs := { o_ops : list op; o_err : option N; o_snap : fs }.

Definition trace_ok (c : minput * obs) : bool := ops_eqb (merge_ops (fst c)) (o_ops (snd c)).
Definition err_ok (c : minput * obs) : bool := opt_N_eqb (merge_err (fst c)) (o_err (snd c)).
Definition snap_ok (c : minput * obs) : bool :=
  fs_eqb (snd (fst (merge (fst c)))) (o_snap (snd c)).
(* the planner's ops all succeed on the model filesystem, i.e. final state = run of the ops *)
Definition plan_ok (c : minput * obs) : bool :=
  match run_opt (merge_ops (fst c)) (i_fs (fst c)) with
  | Some s => fs_eqb s (snd (fst (merge (fst c)))) && fs_eqb (snd (fst (merge (fst c)))) s
  | None => false end.

Definition run_merge (c : minput * obs) : val :=
  VL [VB (trace_ok c); VB (err_ok c); VB (snap_ok c); VB (plan_ok c)].
Definition all_ok : val := VL [VB true; VB true; VB true; VB true].

(* ------------------------------------------------------------------ C19: crash / EIO points *)
(* an OSError injected at a rename (not performed): every caller lets it propagate, except
   do_link, which removes its '#new' link when the rename fails.  [eio] is set by the harness
   only when the faulted call is a rename; k = number of successful calls before it. *)
Definition eio_cleanup (ops : list op) (k : nat) : list op :=
  match k with
  | O => []
  | S j => match nth_error ops j, nth_error ops k with
           | Some (Link _ t), Some (Rename t' _) => if path_eqb t t' then [Unlink t] else []
           | Some (Link _ t), Some (Unlink t') =>
               (* the rename that fails anyway (target is a directory) was the faulted call *)
               if path_eqb t t' then [Unlink t] else []
           | _, _ => [] end
  end.
Definition fault_state (i : minput) (chunk k : nat) (eio : bool) : fs :=
  let ops := rechunk chunk (merge_ops i) in
  run (firstn k ops ++ (if eio then eio_cleanup ops k else [])) (i_fs i).

(* one merge case with all its fault points: the real run (writes split into [chunk]-byte
   calls) was cut before its k-th successful mutating call (crash), or that call failed with
   EIO; the observed tree must be the model's state *)
Record fobs := { f_chunk : nat; f_points : list (nat * bool * fs) }.
Definition fault_bad (c : minput * fobs) : list nat :=
  let i := fst c in
  let ops := rechunk (f_chunk (snd c)) (merge_ops i) in
  flat_map (fun pt : nat * bool * fs =>
    let '(k, eio, snap) := pt in
    let st := run (firstn k ops ++ (if eio then eio_cleanup ops k else [])) (i_fs i) in
    if fs_eqb st snap then [] else [k]) (f_points (snd c)).
Definition run_faults (c : minput * fobs) : val := VL (map (fun k => VZ (Z.of_nat k)) (fault_bad c)).
