(* Prop_C05.v — the property theorems of C05 and nothing else. *)
From Coq Require Import List NArith ZArith Bool.
Import ListNotations.
From Verif Require Import Base.Val C01.Model_C01 C01.Spec_C01 C04.Model_C04 C04.Spec_C04
  C05.Model_C05 C05.Spec_C05 C05.Proofs_C05 C05.Cells_C05 C05.Witness_C05.

(* 1. whether two atoms intersect does not depend on argument order: for EVERY version comparison
   (the only thing used: "compares equal" is symmetric on the two versions when both atoms are `=`)
   and all atoms with a known operator, whatever their slot/sub-slot/repo/USE constraints *)
Theorem intersects_sym : forall vc a b,
  (a_op a = 2%N -> a_op b = 2%N -> zero_sym_at vc a b) -> (a_op a <= 7)%N -> (a_op b <= 7)%N ->
  intersects vc a b = intersects vc b a.
Proof. exact intersects_sym_proof. Qed.
Print Assumptions intersects_sym.

(* ... in particular for C01's ver_cmp on valid version texts (premise discharged by C01's theorem) *)
Theorem intersects_sym_ver_cmp : forall a b,
  (a_op a = 2%N -> is_version (a_ver a)) -> (a_op b = 2%N -> is_version (a_ver b)) ->
  (a_op a <= 7)%N -> (a_op b <= 7)%N ->
  intersects ver_cmp a b = intersects ver_cmp b a.
Proof. exact intersects_sym_ver_cmp_proof. Qed.
Print Assumptions intersects_sym_ver_cmp.

(* 2. completeness, judged against the model's own matching: proved for the 36 cells
   {unversioned,<,<=,=,>=,>}^2 (any slot/sub-slot/repo constraints, USE deps on at most one side),
   for every comparison obeying the order laws of C01's ver_cmp_total_preorder *)
Theorem intersects_complete_partial : forall a b p,
  wf_atom a = true -> wf_atom b = true -> a_negate_vers a = false -> a_negate_vers b = false ->
  ordered_or_unversioned a -> ordered_or_unversioned b ->
  (a_use a = None \/ a_use b = None) ->
  (a_op a <> 7%N -> is_version (a_ver a)) -> (a_op b <> 7%N -> is_version (a_ver b)) -> is_version (p_ver p) ->
  atom_match ver_cmp a p = true -> atom_match ver_cmp b p = true ->
  intersects ver_cmp a b = true.
Proof. exact intersects_complete_partial_ver_cmp_proof. Qed.
Print Assumptions intersects_complete_partial.

(* 2b. completeness for the remaining cells outside the recorded classes, USE deps on BOTH sides:
   cells {unversioned,<,<=,=,>=,>,~}^2 (two `~` atoms: same version text), glob/glob, `=`/glob and `~`/glob
   with the package spelt like the `=` / `~` atom ([cell_premise]); USE tokens of the parser's
   shape and the package outside C04's class use-negative-group-nand for both atoms.
   Not covered: a ranged operator against a glob. *)
Theorem intersects_complete_cells : forall a b p,
  wf5 a = true -> wf5 b = true -> a_negate_vers a = false -> a_negate_vers b = false ->
  (forall t toks, a_use a = Some toks -> In t toks -> valid_tok t) ->
  (forall t toks, a_use b = Some toks -> In t toks -> valid_tok t) ->
  known_use_nand a p = false -> known_use_nand b p = false ->
  cell_premise is_version a b p ->
  atom_match ver_cmp a p = true -> atom_match ver_cmp b p = true ->
  intersects ver_cmp a b = true.
Proof. exact intersects_complete_cells_ver_cmp_proof. Qed.
Print Assumptions intersects_complete_cells.

(* ... and the full completeness statement is false of the faithful model:
   ~a/b-1.0 and ~a/b-1.00 both match a/b-1.0 and are reported as disjoint *)
Theorem complete_refuted :
  atom_match ver_cmp tilde_10 pkg_10 = true /\ atom_match ver_cmp tilde_100 pkg_10 = true
  /\ intersects ver_cmp tilde_10 tilde_100 = false
  /\ ~ complete_stmt ver_cmp.
Proof. exact complete_refuted_proof. Qed.
Print Assumptions complete_refuted.

(* 3. witnessed-ness is false of the faithful model: >a/b-1 and <a/b-1-r1 are reported as
   intersecting and NO package record matches both (nothing lies between consecutive revisions) *)
Theorem witnessed_refuted :
  intersects ver_cmp gt_1 lt_1r1 = true
  /\ (forall p, ~ (atom_match ver_cmp gt_1 p = true /\ atom_match ver_cmp lt_1r1 p = true))
  /\ ~ witnessed_stmt ver_cmp.
Proof. exact witnessed_refuted_proof. Qed.
Print Assumptions witnessed_refuted.

(* 3b. witnessed-ness, constructively, outside the recorded unwitnessed classes: [witness a b] is
   built from the two atoms (one of: an atom's own version, its next revision, its version with
   _alpha appended; the slot/sub-slot/repository either atom asks for; every mentioned flag in
   IUSE, the positively required ones enabled) and both atoms match it.  [wit_premise] excludes
   adjacent revisions (>V-rN against <V-r(N+1)) and a glob with a revision against `~`, and asks,
   for a ranged operator against a glob, that the glob's own version lies in the range (the two
   heuristic branches of the code are not proved); [use_consistent]: no flag required on and off. *)
Theorem intersects_witnessed_partial : forall a b,
  wf_atom a = true -> wf_atom b = true -> a_negate_vers a = false -> a_negate_vers b = false ->
  (a_op a <> 7%N -> is_version (a_ver a)) -> (a_op b <> 7%N -> is_version (a_ver b)) ->
  wit_premise a b -> use_consistent a b = true ->
  intersects ver_cmp a b = true ->
  atom_match ver_cmp a (witness a b) = true /\ atom_match ver_cmp b (witness a b) = true.
Proof. exact intersects_witnessed_partial_proof. Qed.
Print Assumptions intersects_witnessed_partial.

(* the perturbations behind the witness: v_alpha is below v; the next revision is above *)
Theorem version_perturbations : forall v r s,
  ver_cmp (v ++ s_alpha) r v s = (-1)%Z /\ ver_cmp v (Some (rev_val s + 1)%N) v s = 1%Z
  /\ (is_version v -> is_version (v ++ s_alpha)).
Proof. exact version_perturbations_proof. Qed.
Print Assumptions version_perturbations.

Theorem no_version_between_revisions : forall v ra rb pv pr,
  rev_val rb = (rev_val ra + 1)%N ->
  vmatch ver_cmp 4 false v ra pv pr = true -> vmatch ver_cmp 0 false v rb pv pr = true -> False.
Proof. exact Proofs_C05.no_version_between_revisions. Qed.
Print Assumptions no_version_between_revisions.
