(* Prop_C25.v — the property theorems of C25 and nothing else. *)
From Coq Require Import List NArith ZArith Bool Permutation.
Import ListNotations.
From Verif Require Import Base.Val C25.Path_C25 C25.Model_C25 C25.Spec_C25 C25.Proofs_C25.

(* an archive without members reads as the empty set *)
Theorem empty_archive : of_members [] = Ok [].
Proof. exact empty_archive_proof. Qed.
Print Assumptions empty_archive.
