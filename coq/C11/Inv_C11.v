(* Inv_C11.v — the invariant relating a ChunkedDataDict state to the history of its program,
   for one package, outside the finding classes.  Lemmas only; used by Proofs_C11.v. *)
From Coq Require Import List NArith ZArith Bool Lia.
Import ListNotations.
From Verif Require Import Base.Val C11.Model_C11 C11.Spec_C11 C11.Sem_C11 C11.Class_C11.
Open Scope N_scope.
Arguments expand_globals : simpl never.
Arguments build : simpl never.
Arguments reappend : simpl never.
Arguments seedlist : simpl never.
Arguments merge_keys : simpl never.
Arguments merge_globals : simpl never.

(* ------------------------------------------------------------------ association lists *)
Lemma dget_dset d k v k' : dget (dset d k v) k' = if k =? k' then Some v else dget d k'.
Proof.
  induction d as [|[k0 l0] d IH]; cbn [dset dget].
  - reflexivity.
  - destruct (k0 =? k) eqn:E; cbn [dget].
    + apply N.eqb_eq in E. subst k0. destruct (k =? k'); reflexivity.
    + rewrite IH. destruct (k0 =? k') eqn:E2; [|reflexivity].
      apply N.eqb_eq in E2. subst k0. rewrite N.eqb_sym, E. reflexivity.
Qed.
Lemma dget_map (g : N -> list chunk -> list chunk) d k :
  dget (map (fun kl => (fst kl, g (fst kl) (snd kl))) d) k = option_map (g k) (dget d k).
Proof.
  induction d as [|[k0 l0] d IH]; [reflexivity|]. cbn [map dget fst snd].
  destruct (k0 =? k) eqn:E; [|exact IH]. apply N.eqb_eq in E. subst. reflexivity.
Qed.
Lemma keys_map (g : N -> list chunk -> list chunk) d :
  map fst (map (fun kl => (fst kl, g (fst kl) (snd kl))) d) = map fst d.
Proof. rewrite map_map. reflexivity. Qed.
Lemma dget_none_keys d k : dget d k = None <-> ~ In k (map fst d).
Proof.
  induction d as [|[k0 l0] d IH]; cbn [dget map fst In]; [tauto|].
  destruct (k0 =? k) eqn:E.
  - apply N.eqb_eq in E. subst. split; [discriminate | tauto].
  - apply N.eqb_neq in E. rewrite IH. tauto.
Qed.
Lemma keys_dset d k v x : In x (map fst (dset d k v)) <-> x = k \/ In x (map fst d).
Proof.
  induction d as [|[k0 l0] d IH]; cbn [dset map fst In]; [intuition|].
  destruct (k0 =? k) eqn:E; cbn [map fst In].
  - apply N.eqb_eq in E. subst. intuition.
  - rewrite IH. intuition.
Qed.
Lemma nodup_dset d k v : NoDup (map fst d) -> NoDup (map fst (dset d k v)).
Proof.
  induction d as [|[k0 l0] d IH]; cbn [dset map fst]; intro H.
  - constructor; [intros []|constructor].
  - inversion H; subst. destruct (k0 =? k) eqn:E; cbn [map fst].
    + apply N.eqb_eq in E. subst. constructor; assumption.
    + constructor; [|apply IH; assumption].
      rewrite keys_dset. apply N.eqb_neq in E. intros [->|Hi]; [congruence | contradiction].
Qed.

(* ------------------------------------------------------------------ chunk equality, reappend *)
Lemma list_eqb_refl l : list_eqb l l = true.
Proof. induction l; cbn; [reflexivity|]. rewrite N.eqb_refl. exact IHl. Qed.
Lemma chunk_eqb_refl c : chunk_eqb c c = true.
Proof.
  unfold chunk_eqb. rewrite !list_eqb_refl, !andb_true_r.
  destruct (sc c); cbn; rewrite ?N.eqb_refl; reflexivity.
Qed.
Lemma memc_in c l : In c l -> memc c l = true.
Proof. intro H. unfold memc. apply existsb_exists. exists c. split; [exact H | apply chunk_eqb_refl]. Qed.
Lemma memc_app c a b : memc c (a ++ b) = memc c a || memc c b.
Proof. unfold memc. apply existsb_app. Qed.
Lemma reappend_id g : forall l, (forall x, In x g -> memc x l = true) -> reappend g l = l.
Proof.
  unfold reappend. induction g as [|x g IH]; intros l H; [reflexivity|].
  cbn [fold_left]. rewrite (H x (or_introl eq_refl)). apply IH. intros y Hy. apply H. right. exact Hy.
Qed.

(* ------------------------------------------------------------------ the staleness analysis *)
Lemma stale_sub pr : incl (s_stale (stale pr)) (s_keys (stale pr)).
Proof.
  induction pr as [|pr IH ch|pr IH q IHq|pr IH|pr IH u|pr IH]; cbn [stale].
  - intros x [].
  - destruct (atomkey ch); [|destruct (empty_chunk ch); [exact IH | cbn; apply incl_refl]].
    cbn. intros x Hx. right. apply IH. exact Hx.
  - destruct (has_globals (entries_of q)); cbn; [apply incl_refl|].
    intros x Hx. apply in_app_iff in Hx as [Hx|Hx]; apply in_app_iff.
    + left. apply IH. exact Hx.
    + destruct (s_ss (stale pr)); [right; exact Hx | destruct Hx].
  - exact IH.
  - destruct (s_fr (stale pr) && negb u); [exact IH | exact IH].
  - cbn. apply incl_refl.
Qed.

Lemma NNPP_keys (k : N) (l : list N) : ~ ~ In k l -> In k l.
Proof. intro H. destruct (in_dec N.eq_dec k l); [assumption | contradiction]. Qed.

(* ------------------------------------------------------------------ merge *)
Lemma dget_fold_merge seedl : forall (E : list (N * list chunk)) acc k, NoDup (map fst E) ->
  dget (fold_left (fun (acc : list (N * list chunk)) (kl : N * list chunk) =>
                     dset acc (fst kl) ((match dget acc (fst kl) with Some l => l | None => seedl end) ++ snd kl))
                  E acc) k
  = match dget E k with
    | Some lq => Some ((match dget acc k with Some l => l | None => seedl end) ++ lq)
    | None => dget acc k
    end.
Proof.
  induction E as [|[k1 l1] E IH]; intros acc k Hn; [reflexivity|].
  cbn [map fst] in Hn. inversion Hn as [|? ? Hk Hn']; subst.
  cbn [fold_left fst snd dget]. rewrite (IH _ k Hn'). rewrite dget_dset.
  destruct (k1 =? k) eqn:E1.
  - apply N.eqb_eq in E1. subst k1. apply dget_none_keys in Hk. rewrite Hk. reflexivity.
  - reflexivity.
Qed.
Lemma nodup_fold_merge seedl : forall (E : list (N * list chunk)) acc, NoDup (map fst acc) ->
  NoDup (map fst (fold_left (fun (acc : list (N * list chunk)) (kl : N * list chunk) =>
                     dset acc (fst kl) ((match dget acc (fst kl) with Some l => l | None => seedl end) ++ snd kl))
                  E acc)).
Proof.
  induction E as [|[k1 l1] E IH]; intros acc Hn; [exact Hn|].
  cbn [fold_left]. apply IH. apply nodup_dset. exact Hn.
Qed.
Lemma merge_globals_map q d1 :
  merge_globals q d1 =
  map (fun kl : N * list chunk => (fst kl, (fun (k : N) (l : list chunk) => match dget (dict q) k with Some _ => l | None => l ++ glob q end) (fst kl) (snd kl))) d1.
Proof.
  unfold merge_globals. apply map_ext. intros [k l]. cbn [fst snd]. destruct (dget (dict q) k); reflexivity.
Qed.
Lemma dget_merge_globals q d1 k :
  dget (merge_globals q d1) k =
  option_map (fun l => match dget (dict q) k with Some _ => l | None => l ++ glob q end) (dget d1 k).
Proof.
  unfold merge_globals. induction d1 as [|[k0 l0] d1 IH]; [reflexivity|]. cbn [map fst snd].
  destruct (dget (dict q) k0) eqn:E0; cbn [dget fst snd]; destruct (k0 =? k) eqn:Ek; try exact IH.
  - apply N.eqb_eq in Ek. subst. rewrite E0. reflexivity.
  - apply N.eqb_eq in Ek. subst. rewrite E0. reflexivity.
Qed.
Lemma keys_merge_globals q d1 : map fst (merge_globals q d1) = map fst d1.
Proof.
  unfold merge_globals. induction d1 as [|[k0 l0] d1 IH]; [reflexivity|]. cbn [map fst snd].
  rewrite IH. destruct (dget (dict q) k0); reflexivity.
Qed.
Lemma in_keys_dget d k : In k (map fst d) <-> dget d k <> None.
Proof.
  split.
  - intros H E. apply dget_none_keys in E. contradiction.
  - intro H. apply NNPP_keys. intro Hn. apply dget_none_keys in Hn. contradiction.
Qed.
Lemma orelse_not_none_r a b : b <> None -> orelse a b <> None.
Proof. destruct a; cbn; [discriminate | tauto]. Qed.
Lemma orelse_not_none_l a b : a <> None -> orelse a b <> None.
Proof. destruct a; cbn; [discriminate | tauto]. Qed.

Section Inv.
  Variable Hall : list chunk.
  Variable p : pkg.
  Hypothesis A1 : forall e, In e Hall -> applies (sc e) p = true -> good e = true.
  Hypothesis A2 : forall x, sneg Hall p x = true -> spos Hall p x = true -> False.

  Definition list_ok (l : list chunk) : Prop :=
    (forall c, In c l -> lockable c = true -> applies (sc c) p = true) /\
    (forall c, In c l -> applies (sc c) p = true -> good c = true) /\
    (forall c, In c l -> lockable c = false -> applies (sc c) p = true ->
       (forall x, In x (neg c) -> sneg Hall p x = true) /\ (forall x, In x (pos c) -> spos Hall p x = true)).

  Lemma list_ok_nil : list_ok [].
  Proof. unfold list_ok. split; [|split]; intros c []. Qed.
  Lemma list_ok_app a b : list_ok a -> list_ok b -> list_ok (a ++ b).
  Proof.
    intros [A [B B']] [C [D D']].
    split; [|split]; intros c Hc; apply in_app_iff in Hc as [Hc|Hc]; eauto.
  Qed.
  Lemma list_ok_seq l : list_ok l -> seq_ok p l /\ sign_ok p l.
  Proof.
    intros [H1 [H2 H3]]. split; [split; assumption|].
    intros c1 c2 x I1 I2 L1 L2 P1 P2 N1 N2.
    apply (A2 x); [apply (H3 c1 I1 L1 P1); exact N1 | apply (H3 c2 I2 L2 P2); exact N2].
  Qed.
  Lemma entry_ok e : In e Hall -> (lockable e = true -> applies (sc e) p = true) -> list_ok [e].
  Proof.
    intros Hi Hl. split; [|split]; intros c [<-|[]]; auto; intros Hlk Ha; split; intros x Hx.
    - unfold sneg. apply existsb_exists. exists e. rewrite Hlk, Ha. cbn. split; [exact Hi | apply mem_In; exact Hx].
    - unfold spos. apply existsb_exists. exists e. rewrite Hlk, Ha. cbn. split; [exact Hi | apply mem_In; exact Hx].
  Qed.

  Lemma build_ok l r : list_ok l -> applies r p = true -> lockable (mkc r [] []) = true -> list_ok (build l r).
  Proof.
    intros Hok Hr Hlr. destruct (list_ok_seq l Hok) as [Hseq _]. destruct Hok as [H1 [H2 H3]].
    assert (Hm : forall x, x = merged r (fst (pass1 l)) -> good x = true).
    { intros x ->. unfold good. rewrite (merged_nowild p l r Hseq). cbn [andb].
      unfold disjoint_c, merged. cbn [neg pos]. apply forallb_forall. intros f Hf. apply mem_In in Hf.
      pose proof (merged_mem (fun b => b) _ f (pass1_nodup l)) as Hp. cbn beta in Hp. rewrite Hp in Hf.
      rewrite (merged_mem negb _ f (pass1_nodup l)).
      destruct (lk_get (fst (pass1 l)) f) as [[|]|]; try discriminate. reflexivity. }
    split; [|split]; intros x Hx; apply build_in in Hx as [Hx|[[Hx _]|[c [Hc [Hl [Hs [Hn Hp]]]]]]].
    - apply H1. exact Hx.
    - subst x. intros _. exact Hr.
    - unfold lockable in *. rewrite Hs. intro E. rewrite E in Hl. discriminate.
    - apply H2. exact Hx.
    - intros _. apply Hm. exact Hx.
    - rewrite Hs. intro Ha. destruct x as [sx nx px]. cbn [sc neg pos] in *. subst sx.
      apply (good_sub c); [apply H2; assumption | exact Hn | exact Hp].
    - apply H3. exact Hx.
    - subst x. unfold lockable in *. cbn [merged sc] in *. intro E. rewrite E in Hlr. discriminate.
    - unfold lockable in *. rewrite Hs. intros Hlx Ha.
      destruct (H3 c Hc Hl Ha) as [Q1 Q2]. split; intros y Hy; [apply Q1, Hn, Hy | apply Q2, Hp, Hy].
  Qed.

  Lemma build_effl' l r f : list_ok l -> applies r p = true -> effl (build l r) p f = effl l p f.
  Proof. intros Hok Hr. destruct (list_ok_seq l Hok). apply build_effl; assumption. Qed.

  Lemma expand_ok g new : list_ok g -> list_ok new -> list_ok (expand_globals g new).
  Proof.
    intros Hg Hn. unfold expand_globals. destruct new as [|c new']; [rewrite app_nil_r; exact Hg|].
    destruct (scope_eqb (sc c) KAll); [|apply list_ok_app; assumption].
    apply build_ok; [apply list_ok_app; assumption | reflexivity | reflexivity].
  Qed.
  Lemma expand_effl g new f : list_ok g -> list_ok new ->
    effl (expand_globals g new) p f = effl (g ++ new) p f.
  Proof.
    intros Hg Hn. unfold expand_globals. destruct new as [|c new']; [reflexivity|].
    destruct (scope_eqb (sc c) KAll); [|reflexivity].
    apply build_effl'; [apply list_ok_app; assumption | reflexivity].
  Qed.

  (* ---------------------------------------------------------------- the invariant *)
  Record Inv (pr : prog) (d : cdd) : Prop := {
    i_fr : frozen d = s_fr (stale pr);
    i_keys : forall k, In k (map fst (dict d)) <-> In k (s_keys (stale pr));
    i_nd : NoDup (map fst (dict d));
    i_cl : s_cl (stale pr) = false -> seed d = None;
    i_G : forall f, effl (glob d) p f = effl (filter globalish (entries_of pr)) p f;
    i_K : forall l, dget (dict d) (fst p) = Some l -> forall f, effl l p f = effl (entries_of pr) p f;
    i_N : dget (dict d) (fst p) = None -> forall e, In e (entries_of pr) -> atomkey e <> Some (fst p);
    i_okG : list_ok (glob d);
    i_okK : forall l, dget (dict d) (fst p) = Some l -> list_ok l;
    i_F : forall l, dget (dict d) (fst p) = Some l -> ~ In (fst p) (s_stale (stale pr)) ->
          forall x, In x (glob d) -> memc x l = true;
    i_Fs : s_ss (stale pr) = false -> seedlist d = glob d;
    i_D : forall l, dget (dict d) (fst p) = Some l ->
          forall f, effl (glob d) p f <> None -> effl l p f <> None;
    i_hasg : has_globals (entries_of pr) = false -> glob d = []
  }.

  Lemma atomkey_globalish c : atomkey c = None <-> globalish c = true.
  Proof. unfold atomkey, globalish. destruct (sc c); split; intro; congruence. Qed.
  Lemma atomkey_applies c k : atomkey c = Some k -> applies (sc c) p = true -> k = fst p.
  Proof.
    unfold atomkey. destruct (sc c) as [| |k0|k0 v0]; try discriminate; intro E; injection E as <-; cbn.
    - intro H. apply N.eqb_eq in H. exact H.
    - intro H. apply andb_true_iff in H as [H _]. apply N.eqb_eq in H. exact H.
  Qed.
  Lemma atomkey_lockable c k : atomkey c = Some k -> lockable c = true -> sc c = KSimple k.
  Proof. unfold atomkey, lockable. destruct (sc c); try discriminate; intros E _; congruence. Qed.
  Lemma globalish_lockable c : globalish c = true -> lockable c = true -> applies (sc c) p = true.
  Proof. unfold globalish, lockable. destruct (sc c); try discriminate; reflexivity. Qed.

  Lemma effl_snoc l c f : effl (l ++ [c]) p f = orelse (if applies (sc c) p then eff_chunk c f else None) (effl l p f).
  Proof. rewrite effl_app. cbn [effl orelse]. reflexivity. Qed.

  Lemma effl_no_atom H f : (forall e, In e H -> atomkey e <> Some (fst p)) ->
    effl H p f = effl (filter globalish H) p f.
  Proof.
    induction H as [|e H IH]; intro Hn; [reflexivity|]. cbn [filter effl].
    assert (IH' := IH (fun e' He' => Hn e' (or_intror He'))).
    destruct (globalish e) eqn:Eg; cbn [effl]; rewrite IH'; [reflexivity|].
    destruct (applies (sc e) p) eqn:Ea; [|rewrite orelse_none_r; reflexivity].
    exfalso. destruct (atomkey e) as [k|] eqn:Ek.
    - apply (Hn e (or_introl eq_refl)). rewrite Ek. f_equal. exact (atomkey_applies e k Ek Ea).
    - apply atomkey_globalish in Ek. congruence.
  Qed.

  Lemma has_globals_app a b : has_globals (a ++ b) = has_globals a || has_globals b.
  Proof. unfold has_globals. apply existsb_app. Qed.

  Lemma inv_new : Inv PNew empty_cdd.
  Proof.
    constructor; cbn; try tauto; try discriminate; try reflexivity; try (intros; exact list_ok_nil);
      try constructor.
  Qed.

  Lemma inv_add_global pr d c d' :
    Inv pr d -> In c Hall -> globalish c = true -> add_global d c = Some d' -> Inv (PAdd pr c) d'.
  Proof.
    intros I Hc Hg Ha. pose proof (proj2 (atomkey_globalish c) Hg) as Hk.
    unfold add_global in Ha. destruct (empty_chunk c) eqn:Ee.
    - (* an empty entry: nothing happens, and it means nothing *)
      injection Ha as <-.
      assert (E1 : forall f, effl (entries_of pr ++ [c]) p f = effl (entries_of pr) p f).
      { intro f. rewrite effl_snoc, (eff_empty _ _ Ee). destruct (applies (sc c) p); reflexivity. }
      destruct I. constructor; cbn [stale entries_of]; rewrite ?Hk, ?Ee; auto.
      + intro f. rewrite filter_app. cbn [filter]. rewrite Hg, effl_snoc, (eff_empty _ _ Ee).
        rewrite i_G0. destruct (applies (sc c) p); reflexivity.
      + intros l Hl f. rewrite E1. apply i_K0. exact Hl.
      + intros Hn e He. apply in_app_iff in He as [He|[<-|[]]]; [apply i_N0; assumption | congruence].
      + rewrite has_globals_app. intro H. apply orb_false_iff in H as [H _]. apply i_hasg0. exact H.
    - destruct (frozen d) eqn:Ef; [discriminate|]. destruct (tup d) eqn:Et; [|discriminate].
      cbn [is_nil negb] in Ha. injection Ha as <-.
      assert (Hokc : list_ok [c]) by (apply entry_ok; [exact Hc | apply globalish_lockable; exact Hg]).
      destruct I. constructor; cbn [stale entries_of glob dict frozen seed]; rewrite ?Hk, ?Ee; cbn [s_fr s_keys s_stale s_cl s_ss s_hz].
      + congruence.
      + intro k. rewrite (keys_map (fun _ l => l ++ [c])). apply i_keys0.
      + rewrite (keys_map (fun _ l => l ++ [c])). exact i_nd0.
      + exact i_cl0.
      + intro f. rewrite expand_effl by assumption. rewrite filter_app. cbn [filter]. rewrite Hg.
        rewrite !effl_snoc, i_G0. reflexivity.
      + intros l. rewrite (dget_map (fun _ l => l ++ [c])). destruct (dget (dict d) (fst p)) as [l0|] eqn:E0; [|discriminate].
        cbn [option_map]. intro H. injection H as <-. intro f. rewrite !effl_snoc, (i_K0 l0 eq_refl). reflexivity.
      + rewrite (dget_map (fun _ l => l ++ [c])). destruct (dget (dict d) (fst p)) eqn:E0; [discriminate|].
        intros _ e He. apply in_app_iff in He as [He|[<-|[]]]; [apply i_N0; auto | congruence].
      + apply expand_ok; assumption.
      + intros l. rewrite (dget_map (fun _ l => l ++ [c])). destruct (dget (dict d) (fst p)) as [l0|] eqn:E0; [|discriminate].
        cbn [option_map]. intro H. injection H as <-. apply list_ok_app; [apply i_okK0; reflexivity | exact Hokc].
      + intros l. rewrite (dget_map (fun _ l => l ++ [c])). destruct (dget (dict d) (fst p)) as [l0|] eqn:E0; [|discriminate].
        intros _ Hst. exfalso. apply Hst. apply i_keys0. apply NNPP_keys. intro Hn. apply dget_none_keys in Hn. congruence.
      + intro Hcl. unfold seedlist. cbn [seed glob]. rewrite (i_cl0 Hcl). reflexivity.
      + intros l. rewrite (dget_map (fun _ l => l ++ [c])). destruct (dget (dict d) (fst p)) as [l0|] eqn:E0; [|discriminate].
        cbn [option_map]. intro H. injection H as <-. intros f. rewrite expand_effl by assumption.
        rewrite !effl_snoc. destruct (if applies (sc c) p then eff_chunk c f else None); cbn [orelse]; [discriminate|].
        apply i_D0. reflexivity.
      + rewrite has_globals_app. unfold has_globals at 2. cbn [existsb]. rewrite Hg, Ee. cbn. rewrite orb_true_r. discriminate.
  Qed.

  Lemma dget_some_keys d k l : dget d k = Some l -> In k (map fst d).
  Proof. intro H. apply NNPP_keys. intro Hn. apply dget_none_keys in Hn. congruence. Qed.

  Lemma inv_add_key pr d c k d' :
    Inv pr d -> In c Hall -> atomkey c = Some k -> add_key d k c = Some d' ->
    ~ In (fst p) (s_hz (stale (PAdd pr c))) -> Inv (PAdd pr c) d'.
  Proof.
    intros I Hc Hk Ha Hhz.
    assert (Hng : globalish c = false).
    { destruct (globalish c) eqn:E; [|reflexivity]. apply atomkey_globalish in E. congruence. }
    unfold add_key in Ha. destruct (frozen d) eqn:Ef; [discriminate|].
    destruct (mem k (tup d)); [discriminate|]. injection Ha as <-.
    cbn [stale] in Hhz. rewrite Hk in Hhz. cbn [s_hz] in Hhz.
    assert (Hfilt : filter globalish (entries_of pr ++ [c]) = filter globalish (entries_of pr)).
    { rewrite filter_app. cbn [filter]. rewrite Hng. apply app_nil_r. }
    destruct (N.eq_dec k (fst p)) as [->|Hne].
    - (* the entry is for the key of p *)
      assert (Hcond : mem (fst p) (s_stale (stale pr)) = false /\
                      (mem (fst p) (s_keys (stale pr)) = true \/ s_ss (stale pr) = false)).
      { destruct (mem (fst p) (s_stale (stale pr))) eqn:E1; cbn [orb] in Hhz.
        - exfalso. apply Hhz. left. reflexivity.
        - split; [reflexivity|]. destruct (mem (fst p) (s_keys (stale pr))); [left; reflexivity|].
          cbn [negb andb] in Hhz. destruct (s_ss (stale pr)); [|right; reflexivity].
          exfalso. apply Hhz. left. reflexivity. }
      destruct Hcond as [Hst Hnew]. apply mem_false in Hst.
      assert (Hokc : list_ok [c]).
      { apply entry_ok; [exact Hc|]. intro Hl. rewrite (atomkey_lockable c _ Hk Hl). cbn. apply N.eqb_refl. }
      (* the new list of the key *)
      assert (Hlist : exists l0, reappend (glob d) (dget_default d (fst p)) = l0 /\
                 list_ok l0 /\ (forall f, effl l0 p f = effl (entries_of pr) p f) /\
                 (forall x, In x (glob d) -> memc x l0 = true) /\
                 (forall f, effl (glob d) p f <> None -> effl l0 p f <> None)).
      { destruct I. unfold dget_default. destruct (dget (dict d) (fst p)) as [l|] eqn:E0.
        - exists l. rewrite reappend_id by (apply (i_F0 l eq_refl Hst)).
          split; [reflexivity|]. split; [apply i_okK0; reflexivity|]. split; [apply i_K0; reflexivity|].
          split; [apply (i_F0 l eq_refl Hst) | apply i_D0; reflexivity].
        - assert (Hss : s_ss (stale pr) = false).
          { destruct Hnew as [Hm|Hs]; [|exact Hs]. exfalso. apply mem_In in Hm. apply i_keys0 in Hm.
            apply dget_none_keys in E0. contradiction. }
          rewrite (i_Fs0 Hss). exists (glob d). rewrite reappend_id by (intros x Hx; apply memc_in; exact Hx).
          split; [reflexivity|]. split; [exact i_okG0|].
          split; [intro f; rewrite i_G0; symmetry; apply effl_no_atom; apply i_N0; reflexivity|].
          split; [intros x Hx; apply memc_in; exact Hx | tauto]. }
      destruct Hlist as [l0 [El0 [Hok0 [HK0 [HF0 HD0]]]]]. rewrite El0.
      destruct I. constructor; cbn [stale entries_of glob dict frozen seed]; rewrite ?Hk; cbn [s_fr s_keys s_stale s_cl s_ss s_hz].
      + congruence.
      + intro x. rewrite keys_dset. cbn [In]. rewrite i_keys0. intuition.
      + apply nodup_dset. exact i_nd0.
      + exact i_cl0.
      + intro f. rewrite Hfilt. apply i_G0.
      + intros l. rewrite dget_dset, N.eqb_refl. intro H. injection H as <-. intro f.
        rewrite !effl_snoc, HK0. reflexivity.
      + rewrite dget_dset, N.eqb_refl. discriminate.
      + exact i_okG0.
      + intros l. rewrite dget_dset, N.eqb_refl. intro H. injection H as <-. apply list_ok_app; assumption.
      + intros l. rewrite dget_dset, N.eqb_refl. intro H. injection H as <-. intros _ x Hx.
        rewrite memc_app, (HF0 x Hx). reflexivity.
      + exact i_Fs0.
      + intros l. rewrite dget_dset, N.eqb_refl. intro H. injection H as <-. intros f Hf.
        rewrite effl_snoc. destruct (if applies (sc c) p then eff_chunk c f else None); cbn [orelse]; [discriminate|].
        apply HD0. exact Hf.
      + rewrite has_globals_app. unfold has_globals at 2. cbn [existsb]. rewrite Hng. cbn [andb orb].
        rewrite orb_false_r. exact i_hasg0.
    - (* an entry for another key: invisible for p *)
      assert (Hna : applies (sc c) p = false).
      { destruct (applies (sc c) p) eqn:E; [|reflexivity]. exfalso. apply Hne. exact (atomkey_applies c k Hk E). }
      assert (E1 : forall f, effl (entries_of pr ++ [c]) p f = effl (entries_of pr) p f).
      { intro f. rewrite effl_snoc, Hna. reflexivity. }
      assert (Hd : dget (dset (dict d) k (reappend (glob d) (dget_default d k) ++ [c])) (fst p) = dget (dict d) (fst p)).
      { rewrite dget_dset. destruct (k =? fst p) eqn:E; [|reflexivity]. apply N.eqb_eq in E. contradiction. }
      destruct I. constructor; cbn [stale entries_of glob dict frozen seed]; rewrite ?Hk, ?Hd; cbn [s_fr s_keys s_stale s_cl s_ss s_hz]; auto; try congruence.
      + intro x. rewrite keys_dset. cbn [In]. rewrite i_keys0. intuition.
      + apply nodup_dset. exact i_nd0.
      + intros l Hl f. rewrite E1. apply i_K0. exact Hl.
      + intros Hn e He. apply in_app_iff in He as [He|[<-|[]]]; [apply i_N0; assumption|].
        rewrite Hk. intro E. injection E as E. contradiction.
      + rewrite has_globals_app. unfold has_globals at 2. cbn [existsb]. rewrite Hng. cbn [andb orb].
        rewrite orb_false_r. exact i_hasg0.
  Qed.

  Lemma inv_transfer pr pr' d :
    entries_of pr' = entries_of pr -> stale pr' = stale pr -> Inv pr d -> Inv pr' d.
  Proof. intros H1 H2 I. destruct I. constructor; rewrite ?H1, ?H2; assumption. Qed.

  Lemma inv_freeze pr d : Inv pr d -> Inv (PFreeze pr) (freeze d).
  Proof.
    intro I. destruct I. constructor; cbn [stale entries_of freeze glob dict frozen seed s_fr s_keys s_stale s_cl s_ss s_hz]; auto.
  Qed.

  Lemma inv_clone pr d u : Inv pr d -> Inv (PClone pr u) (clone d u).
  Proof.
    intro I. unfold clone. destruct (frozen d && negb u) eqn:Ec.
    - apply (inv_transfer pr); [reflexivity | | exact I].
      cbn [stale]. rewrite <- (i_fr _ _ I), Ec. reflexivity.
    - assert (Hs : stale (PClone pr u) =
                   mkst (s_keys (stale pr)) (s_stale (stale pr)) true false (s_hz (stale pr)) false).
      { cbn [stale]. rewrite <- (i_fr _ _ I), Ec. reflexivity. }
      destruct I. constructor; rewrite ?Hs; cbn [entries_of glob dict frozen seed s_fr s_keys s_stale s_cl s_ss s_hz]; auto.
      + intro k. rewrite (keys_map (fun _ l => glob d ++ l)). apply i_keys0.
      + rewrite (keys_map (fun _ l => glob d ++ l)). exact i_nd0.
      + discriminate.
      + intros l. rewrite (dget_map (fun _ l => glob d ++ l)). destruct (dget (dict d) (fst p)) as [l0|] eqn:E0; [|discriminate].
        cbn [option_map]. intro H. injection H as <-. intro f. rewrite effl_app, <- (i_K0 l0 eq_refl).
        destruct (effl l0 p f) eqn:El; [reflexivity|]. cbn [orelse].
        destruct (effl (glob d) p f) eqn:Eg; [|reflexivity]. exfalso.
        apply (i_D0 l0 eq_refl f); [rewrite Eg; discriminate | exact El].
      + rewrite (dget_map (fun _ l => glob d ++ l)). destruct (dget (dict d) (fst p)) eqn:E0; [discriminate|].
        intros _. apply i_N0. reflexivity.
      + intros l. rewrite (dget_map (fun _ l => glob d ++ l)). destruct (dget (dict d) (fst p)) as [l0|] eqn:E0; [|discriminate].
        cbn [option_map]. intro H. injection H as <-. apply list_ok_app; [exact i_okG0 | apply i_okK0; reflexivity].
      + intros l. rewrite (dget_map (fun _ l => glob d ++ l)). destruct (dget (dict d) (fst p)) as [l0|] eqn:E0; [|discriminate].
        cbn [option_map]. intro H. injection H as <-. intros _ x Hx. rewrite memc_app, (memc_in x _ Hx). reflexivity.
      + intros l. rewrite (dget_map (fun _ l => glob d ++ l)). destruct (dget (dict d) (fst p)) as [l0|] eqn:E0; [|discriminate].
        cbn [option_map]. intro H. injection H as <-. intros f Hf. rewrite effl_app.
        destruct (effl l0 p f) eqn:El; [discriminate|]. exfalso. exact (i_D0 l0 eq_refl f Hf El).
  Qed.

  Lemma inv_opt pr d : Inv pr d -> Inv (POpt pr) (optimize d).
  Proof.
    intro I. destruct I. unfold optimize.
    assert (Hap : applies (KSimple (fst p)) p = true) by (cbn; apply N.eqb_refl).
    constructor; cbn [stale entries_of glob dict frozen seed s_fr s_keys s_stale s_cl s_ss s_hz]; auto.
    - intro k. rewrite (keys_map (fun k l => build l (KSimple k))). apply i_keys0.
    - rewrite (keys_map (fun k l => build l (KSimple k))). exact i_nd0.
    - intro f. rewrite build_effl' by (auto; reflexivity). apply i_G0.
    - intros l. rewrite (dget_map (fun k l => build l (KSimple k))). destruct (dget (dict d) (fst p)) as [l0|] eqn:E0; [|discriminate].
      cbn [option_map]. intro H. injection H as <-. intro f. rewrite build_effl' by auto. apply i_K0. reflexivity.
    - rewrite (dget_map (fun k l => build l (KSimple k))). destruct (dget (dict d) (fst p)) eqn:E0; [discriminate|].
      intros _. apply i_N0. reflexivity.
    - apply build_ok; auto.
    - intros l. rewrite (dget_map (fun k l => build l (KSimple k))). destruct (dget (dict d) (fst p)) as [l0|] eqn:E0; [|discriminate].
      cbn [option_map]. intro H. injection H as <-. apply build_ok; auto.
    - intros l. rewrite (dget_map (fun k l => build l (KSimple k))). destruct (dget (dict d) (fst p)) as [l0|] eqn:E0; [|discriminate].
      intros _ Hst. exfalso. apply Hst. apply i_keys0. apply (dget_some_keys _ _ _ E0).
    - intro Hcl. unfold seedlist. cbn [seed glob]. rewrite (i_cl0 Hcl). reflexivity.
    - intros l. rewrite (dget_map (fun k l => build l (KSimple k))). destruct (dget (dict d) (fst p)) as [l0|] eqn:E0; [|discriminate].
      cbn [option_map]. intro H. injection H as <-. intros f. rewrite !build_effl' by (auto; reflexivity).
      apply i_D0. reflexivity.
    - intro H. rewrite (i_hasg0 H). reflexivity.
  Qed.

  Lemma inv_merge pr q d e d' :
    Inv pr d -> Inv q e -> merge d e = Some d' ->
    ~ In (fst p) (s_hz (stale (PMerge pr q))) -> Inv (PMerge pr q) d'.
  Proof.
    intros I J Hm Hhz.
    (* the shape of the result *)
    assert (Hshape : frozen d' = frozen d /\ seed d' = seed d /\
              ((glob e = [] /\ glob d' = glob d /\ dict d' = merge_keys d e) \/
               (glob e <> [] /\ glob d' = expand_globals (glob d) (glob e) /\
                dict d' = merge_globals e (merge_keys d e)))).
    { unfold merge in Hm. destruct (is_nil (dict e) && is_nil (glob e)) eqn:Et.
      - injection Hm as <-. apply andb_true_iff in Et as [E1 E2].
        destruct (dict e) eqn:Ede; [|discriminate]. destruct (glob e) eqn:Ege; [|discriminate].
        split; [reflexivity|]. split; [reflexivity|]. left. split; [reflexivity|]. split; [reflexivity|].
        unfold merge_keys. rewrite Ede. reflexivity.
      - destruct (merge_refused d e) eqn:Er; [discriminate|].
        unfold merge_refused in Er. apply orb_false_iff in Er as [Er _]. apply orb_false_iff in Er as [Er _].
        destruct (is_nil (glob e)) eqn:Eg; injection Hm as <-; cbn [frozen seed glob dict].
        + split; [congruence|]. split; [reflexivity|]. left. destruct (glob e); [|discriminate]. auto.
        + split; [congruence|]. split; [reflexivity|]. right. destruct (glob e); [discriminate|].
          split; [discriminate | auto]. }
    destruct Hshape as [Hfr [Hseed Hsh]].
    set (k := fst p) in *.
    (* the list of p's key after the merge *)
    assert (Hlist : dget (dict d') k =
              match dget (dict e) k, dget (dict d) k with
              | Some lq, Some l => Some (l ++ lq)
              | Some lq, None => Some (seedlist d ++ lq)
              | None, Some l => Some (l ++ glob e)
              | None, None => None
              end).
    { assert (Hmk : dget (merge_keys d e) k =
                match dget (dict e) k with
                | Some lq => Some ((match dget (dict d) k with Some l => l | None => seedlist d end) ++ lq)
                | None => dget (dict d) k end).
      { unfold merge_keys. apply dget_fold_merge. exact (i_nd _ _ J). }
      destruct Hsh as [[Hge [_ Hd]]|[_ [_ Hd]]]; rewrite Hd.
      - rewrite Hmk, Hge. destruct (dget (dict e) k); destruct (dget (dict d) k); try reflexivity.
        rewrite app_nil_r. reflexivity.
      - rewrite dget_merge_globals, Hmk.
        destruct (dget (dict e) k) eqn:E1; destruct (dget (dict d) k); cbn [option_map]; rewrite ?E1; reflexivity. }
    assert (Hglob : (forall f, effl (glob d') p f = effl (glob d ++ glob e) p f) /\ list_ok (glob d')).
    { destruct Hsh as [[Hge [Hg _]]|[_ [Hg _]]]; rewrite Hg.
      - rewrite Hge, app_nil_r. split; [reflexivity | exact (i_okG _ _ I)].
      - split; [intro f; apply expand_effl | apply expand_ok]; first [exact (i_okG _ _ I) | exact (i_okG _ _ J)]. }
    destruct Hglob as [HgE HgOk].
    (* when p's key comes only from the merged dict, the seed is not stale *)
    assert (Hss : forall lq, dget (dict e) k = Some lq -> dget (dict d) k = None -> seedlist d = glob d).
    { intros lq H1 H2. apply (i_Fs _ _ I). destruct (s_ss (stale pr)) eqn:Ess; [|reflexivity]. exfalso.
      apply Hhz. cbn [stale]. rewrite Ess.
      assert (Hin : In k (s_hz (stale pr) ++ s_hz (stale q) ++
                          filter (fun k0 => negb (mem k0 (s_keys (stale pr)))) (s_keys (stale q)))).
      { apply in_app_iff. right. apply in_app_iff. right. apply filter_In. split.
        - apply (i_keys _ _ J). apply (dget_some_keys _ _ _ H1).
        - apply negb_true_iff. apply mem_false. intro Hi. apply (i_keys _ _ I) in Hi.
          apply dget_none_keys in H2. contradiction. }
      destruct (has_globals (entries_of q)); exact Hin. }
    assert (HeffQ : dget (dict e) k = None -> forall f, effl (entries_of q) p f = effl (glob e) p f).
    { intros H f. rewrite (i_G _ _ J). apply effl_no_atom. apply (i_N _ _ J). exact H. }
    assert (HeffP : dget (dict d) k = None -> forall f, effl (entries_of pr) p f = effl (glob d) p f).
    { intros H f. rewrite (i_G _ _ I). apply effl_no_atom. apply (i_N _ _ I). exact H. }
    assert (Hkeys' : forall x, In x (map fst (dict d')) <-> In x (s_keys (stale pr) ++ s_keys (stale q))).
    { intro x. rewrite in_app_iff, <- (i_keys _ _ I x), <- (i_keys _ _ J x), !in_keys_dget.
      assert (Hx : dget (dict d') x <> None <-> dget (dict d) x <> None \/ dget (dict e) x <> None).
      { assert (Hmk : dget (merge_keys d e) x =
                  match dget (dict e) x with
                  | Some lq => Some ((match dget (dict d) x with Some l => l | None => seedlist d end) ++ lq)
                  | None => dget (dict d) x end).
        { unfold merge_keys. apply dget_fold_merge. exact (i_nd _ _ J). }
        destruct Hsh as [[_ [_ Hd]]|[_ [_ Hd]]]; rewrite Hd.
        - rewrite Hmk. destruct (dget (dict e) x); destruct (dget (dict d) x); split; intro H; try tauto;
            try (left; discriminate); try (right; discriminate); try discriminate; destruct H; tauto.
        - rewrite dget_merge_globals, Hmk.
          destruct (dget (dict e) x); destruct (dget (dict d) x); cbn [option_map]; split; intro H; try tauto;
            try (left; discriminate); try (right; discriminate); try discriminate; destruct H; tauto. }
      exact Hx. }
    assert (Hnd' : NoDup (map fst (dict d'))).
    { destruct Hsh as [[_ [_ Hd]]|[_ [_ Hd]]]; rewrite Hd.
      - unfold merge_keys. apply nodup_fold_merge. exact (i_nd _ _ I).
      - rewrite keys_merge_globals. unfold merge_keys. apply nodup_fold_merge. exact (i_nd _ _ I). }
    assert (Hent : entries_of (PMerge pr q) = entries_of pr ++ entries_of q) by reflexivity.
    assert (Heff : forall f, effl (entries_of pr ++ entries_of q) p f =
                             orelse (effl (entries_of q) p f) (effl (entries_of pr) p f)).
    { intro f. apply effl_app. }
    (* semantic fields first *)
    assert (HK : forall l, dget (dict d') k = Some l ->
              (forall f, effl l p f = effl (entries_of pr ++ entries_of q) p f) /\ list_ok l /\
              (forall f, effl (glob d') p f <> None -> effl l p f <> None)).
    { intros l Hl. rewrite Hlist in Hl.
      destruct (dget (dict e) k) as [lq|] eqn:E1; destruct (dget (dict d) k) as [l0|] eqn:E0;
        try discriminate; injection Hl as <-.
      - split; [|split].
        + intro f. rewrite Heff, effl_app, (i_K _ _ J lq E1), (i_K _ _ I l0 E0). reflexivity.
        + apply list_ok_app; [exact (i_okK _ _ I l0 E0) | exact (i_okK _ _ J lq E1)].
        + intros f. rewrite HgE, !effl_app.
          destruct (effl (glob e) p f) eqn:Ege.
          * intros _. apply orelse_not_none_l. apply (i_D _ _ J lq E1). rewrite Ege. discriminate.
          * cbn [orelse]. intro H. apply orelse_not_none_r. apply (i_D _ _ I l0 E0). exact H.
      - rewrite (Hss lq eq_refl eq_refl). split; [|split].
        + intro f. rewrite Heff, effl_app, (i_K _ _ J lq E1), (HeffP eq_refl). reflexivity.
        + apply list_ok_app; [exact (i_okG _ _ I) | exact (i_okK _ _ J lq E1)].
        + intros f. rewrite HgE, !effl_app.
          destruct (effl (glob e) p f) eqn:Ege.
          * intros _. apply orelse_not_none_l. apply (i_D _ _ J lq E1). rewrite Ege. discriminate.
          * cbn [orelse]. intro H. apply orelse_not_none_r. exact H.
      - split; [|split].
        + intro f. rewrite Heff, effl_app, (HeffQ eq_refl), (i_K _ _ I l0 E0). reflexivity.
        + apply list_ok_app; [exact (i_okK _ _ I l0 E0) | exact (i_okG _ _ J)].
        + intros f. rewrite HgE, !effl_app.
          destruct (effl (glob e) p f) eqn:Ege; cbn [orelse]; [discriminate|].
          intro H. apply (i_D _ _ I l0 E0). exact H. }
    assert (HG : forall f, effl (glob d') p f = effl (filter globalish (entries_of pr ++ entries_of q)) p f).
    { intro f. rewrite HgE, filter_app, !effl_app, (i_G _ _ I), (i_G _ _ J). reflexivity. }
    assert (HN : dget (dict d') k = None -> forall x, In x (entries_of pr ++ entries_of q) -> atomkey x <> Some k).
    { rewrite Hlist. destruct (dget (dict e) k) eqn:E1; destruct (dget (dict d) k) eqn:E0; try discriminate.
      intros _ x Hx. apply in_app_iff in Hx as [Hx|Hx]; [apply (i_N _ _ I); auto | apply (i_N _ _ J); auto]. }
    assert (Hhg : has_globals (entries_of pr ++ entries_of q) = false -> glob d' = []).
    { rewrite has_globals_app. intro H. apply orb_false_iff in H as [H1 H2].
      pose proof (i_hasg _ _ I H1) as G1. pose proof (i_hasg _ _ J H2) as G2.
      destruct Hsh as [[_ [Hg _]]|[Hne _]]; [congruence | contradiction]. }
    (* the staleness fields *)
    assert (HF : forall l, dget (dict d') k = Some l -> ~ In k (s_stale (stale (PMerge pr q))) ->
              forall x, In x (glob d') -> memc x l = true).
    { intros l Hl Hst. cbn [stale] in Hst.
      destruct (has_globals (entries_of q)) eqn:Ehg; cbn [s_stale] in Hst.
      - exfalso. apply Hst. apply Hkeys'. apply (dget_some_keys _ _ _ Hl).
      - pose proof (i_hasg _ _ J Ehg) as Ge.
        assert (Gd : glob d' = glob d) by (destruct Hsh as [[_ [Hg _]]|[Hne _]]; [exact Hg | contradiction]).
        rewrite Gd. assert (Hst1 : ~ In k (s_stale (stale pr))) by (intro H; apply Hst; apply in_app_iff; left; exact H).
        rewrite Hlist in Hl.
        destruct (dget (dict e) k) as [lq|] eqn:E1; destruct (dget (dict d) k) as [l0|] eqn:E0;
          try discriminate; injection Hl as <-; intros x Hx; rewrite memc_app.
        + rewrite (i_F _ _ I l0 E0 Hst1 x Hx). reflexivity.
        + rewrite (Hss lq eq_refl eq_refl), (memc_in x _ Hx). reflexivity.
        + rewrite (i_F _ _ I l0 E0 Hst1 x Hx). reflexivity. }
    assert (HFs : s_ss (stale (PMerge pr q)) = false -> seedlist d' = glob d').
    { cbn [stale]. destruct (has_globals (entries_of q)) eqn:Ehg; cbn [s_ss]; intro H.
      - unfold seedlist. rewrite Hseed, (i_cl _ _ I H). reflexivity.
      - pose proof (i_hasg _ _ J Ehg) as Ge.
        assert (Gd : glob d' = glob d) by (destruct Hsh as [[_ [Hg _]]|[Hne _]]; [exact Hg | contradiction]).
        pose proof (i_Fs _ _ I H) as Hs. unfold seedlist in *. rewrite Hseed, Gd. exact Hs. }
    constructor; rewrite ?Hent.
    - rewrite Hfr, (i_fr _ _ I). cbn [stale]. destruct (has_globals (entries_of q)); reflexivity.
    - intro x. rewrite Hkeys'. cbn [stale]. destruct (has_globals (entries_of q)); reflexivity.
    - exact Hnd'.
    - rewrite Hseed. cbn [stale]. destruct (has_globals (entries_of q)); cbn [s_cl]; exact (i_cl _ _ I).
    - exact HG.
    - intros l Hl. apply (HK l Hl).
    - exact HN.
    - exact HgOk.
    - intros l Hl. apply (HK l Hl).
    - exact HF.
    - exact HFs.
    - intros l Hl. apply (HK l Hl).
    - exact Hhg.
  Qed.
End Inv.
