(* SpecSym_C25.v — statement for sets with entries recorded beneath ONE symlinked directory.
   Written without looking at the algorithm of tar.py. *)
From Coq Require Import List NArith ZArith Bool Arith Permutation.
Import ListNotations.
From Verif Require Import Base.Val C25.Path_C25 C25.Model_C25 C25.Spec_C25 C25.SpecExt_C25.

(* where a live merge puts an entry recorded beneath the symlink x: the symlink's name is replaced by
   the directory it resolves to ([resolved_target]: the target itself when absolute, else taken
   relative to the symlink's own directory) *)
Definition moved (x e : entry) : entry :=
  with_loc e (resolved_target x ++ skipn (length (loc x)) (loc e)).
Definition resolve_syms (x : entry) (c : list entry) : list entry :=
  map (fun e => if beneathb (loc x) (loc e) then moved x e else e) c.

(* x is the one symlink of c that has entries beneath it, none of them a symlink; it resolves to a
   plain absolute path; resolving makes no two entries collide.  (Outside the recorded class
   symdir-chain this one hop is the whole live-merge resolution.) *)
Record one_symdir (c : list entry) (x : entry) : Prop := {
  os_in : In x c;
  os_sym : knd x = KSym;
  os_only : forall s e, In s c -> In e c -> knd s = KSym -> beneath (loc s) (loc e) -> s = x;
  os_nosym : forall e, In e c -> beneath (loc x) (loc e) -> knd e <> KSym;
  os_target : plain_loc (resolved_target x);
  os_nodup : NoDup (map loc (resolve_syms x c))
}.
