"""C42 — package move updates follow move chains in file order (DESIGN §6 C42).

Streams
  atom     the atom classification the line parser relies on      impl atom() vs Model_C42.parse_atom
  updates  random quarter-named update files (shuffled on disk)   impl read_updates() mapping vs
  malformed  same, ~40% malformed lines                             Model_C42.read_updates      (A)
  eapi8    EAPI 8 naming (any name not starting with '.')           Spec_C42.chain_spec (B, in Coq)
                                                                    + a sequential Python reference (B)
"""

import itertools
import logging
import os
import re

from .common import Check, Err, Raw, cbool, clist, cpair, cval, impl_call, shrink_list

IMPORTS = ("From Coq Require Import List NArith ZArith Bool.\n"
           "From Verif Require Import Base.Val C42.Model_C42 C42.Spec_C42.")
ANCHORS = ["ebuild/pkg_updates.py::_scan_directory", "ebuild/pkg_updates.py::read_updates",
           "ebuild/pkg_updates.py::_process_updates"]
TY = "bstr"

CATS = ("a", "b")
PNS = ("p", "q", "r", "s")
SLOTS = ("0", "1", "2", "stable")
VERS = ("1", "2.0", "1.2.3")
OPS = ("=", ">=", "<=", "<", ">", "~")
BAD_ATOMS = ("ap", "a/", "/p", "a//p", "a/p:", "a/p:0:1", "=a/p", "a/p-1", "=a/p-1.", "=a/p-.1",
             "=a/p-1..2", "a/p:-x", "a/p-1:0", "=", "a/p/q", "~a/p", "a/p--1", "a/:0", ">=", "a/p:0/")
BAD_LINES = ("", "   ", "\t", "move a/p", "move a/p a/q a/r", "move", "slotmove a/p 0", "slotmove a/p 0 1 2",
             "slotmove", "frob a/p a/q", "Move a/p a/q", "moves a/p a/q", "move =a/p-1 a/q", "move a/p =a/q-1",
             "move ~a/p-2.0 >=a/q-1", "slotmove a/p:0 0 1", "slotmove a/q:stable 0 1", "move ap a/q",
             "move a/p a/", "move a/p-1 a/q", "move a/p a/q:", "slotmove a/p: 0 1", "slotmove a/p 0:1 2",
             "slotmove a/p 0 -x", "slotmove =a/p 0 1", "slotmove a/p - 1", "slotmove a/p-1 0 1",
             "slotmove ap 0 1", "slotmove a/p 0 1:2", "% move a/p a/q", "move  ", "slotmove a/p 0 :")
JUNK_NAMES = ("frobnicate", "5Q-2020", "0Q-2020", "1Q-202", "1Q-20201", "1q-2020", "1Q_2020", "Q1-2020",
              ".1Q-2020", "1Q-2020~", "11Q-2020", "1Q-20a0")


def all_keys():
    return [f"{c}/{p}" for c in CATS for p in PNS]


# --------------------------------------------------------------------------- generator
class Gen:
    def __init__(self, rng):
        self.rng = rng

    def ws(self, line, p=0.08):
        r = self.rng
        if r.random() < p:
            k = r.randrange(5)
            if k == 0:
                line = " " + line
            elif k == 1:
                line = line + " "
            elif k == 2:
                line = line.replace(" ", "  ", 1)
            elif k == 3:
                line = line.replace(" ", "\t")
            else:
                line = "\t" + line + " \t"
        return line

    def slotmove(self, k):
        r = self.rng
        a = k
        if r.random() < 0.15:
            a = r.choice(OPS) + k + "-" + r.choice(VERS)
        return f"slotmove {a} {r.choice(SLOTS)} {r.choice(SLOTS)}"

    def events(self, pool, n, malformed):
        """A list of lines built from scenario fragments over the small name pool `pool`."""
        r = self.rng
        out = []
        while len(out) < n:
            if malformed and r.random() < 0.4:
                x = r.random()
                if x < 0.7:
                    out.append(r.choice(BAD_LINES))
                elif x < 0.85:
                    out.append(f"move {r.choice(BAD_ATOMS)} {r.choice(pool)}")
                else:
                    out.append(f"slotmove {r.choice(BAD_ATOMS)} 0 1")
                continue
            s = r.random()
            if s < 0.30:            # a chain k1 -> k2 -> ... with slotmoves of the current name in between
                ks = r.sample(pool, min(len(pool), r.randint(2, 4)))
                for a, b in zip(ks, ks[1:]):
                    if r.random() < 0.5:
                        out.append(self.slotmove(a))
                    out.append(f"move {a} {b}")
                if r.random() < 0.7:
                    out.append(self.slotmove(ks[-1]))
            elif s < 0.42:          # a cycle a -> b -> a, then commands on a
                a, b = r.sample(pool, 2)
                out += [f"move {a} {b}", f"move {b} {a}", self.slotmove(r.choice((a, b)))]
                if r.random() < 0.5:
                    out.append(f"move {a} {r.choice(pool)}")
            elif s < 0.52:          # a name that was moved away is reused as a target
                a, b, c = (r.sample(pool, 3) if len(pool) >= 3 else (pool * 3)[:3])
                out += [f"move {b} {c}", f"move {a} {b}", self.slotmove(b)]
            elif s < 0.60:          # redundant repeat of an earlier line
                if out:
                    out.append(r.choice(out))
            elif s < 0.64:          # self move
                a = r.choice(pool)
                out += [f"move {a} {a}", self.slotmove(a)]
            elif s < 0.70:          # slotted source of a move is accepted by the code
                out.append(f"move {r.choice(pool)}:{r.choice(SLOTS)} {r.choice(pool)}")
            elif s < 0.85:
                out.append(f"move {r.choice(pool)} {r.choice(pool)}")
            else:
                out.append(self.slotmove(r.choice(pool)))
        return [self.ws(l) if l.strip() else l for l in out[: n + 3]]

    def case(self, malformed=False, eapi8=False, big=False):
        r = self.rng
        pool = r.sample(all_keys(), r.randint(2, 5))
        n = r.randint(3, 22 if big else 14)
        lines = self.events(pool, n, malformed)
        if eapi8:
            names = r.sample(["2021.1", "a", "Zz", "1Q-2020", "4Q-2019", "10", "9", "upd-b", "B"], r.randint(1, 4))
            names.sort()
        else:
            qs = r.sample([(y, q) for y in (2019, 2020, 2021) for q in (1, 2, 3, 4)], r.randint(1, 5))
            qs.sort()
            names = [f"{q}Q-{y}" for y, q in qs]
        # split the chronological event list over the files (some files may stay empty)
        cuts = sorted(r.randint(0, len(lines)) for _ in range(len(names) - 1))
        chunks = [lines[i:j] for i, j in zip([0] + cuts, cuts + [len(lines)])]
        files = list(zip(names, chunks))
        for _ in range(r.choice((0, 0, 1, 2))):      # incorrectly named files whose content would matter
            jn = r.choice(JUNK_NAMES if not eapi8 else (".hidden", ".1Q-2020", "."+names[0]))
            if jn not in [f[0] for f in files]:
                files.append((jn, self.events(pool, r.randint(1, 3), False)))
        r.shuffle(files)                              # creation order on disk
        return eapi8, files, sorted(set(pool) | set(re.findall(r"[a-z]+/[a-z]+", " ".join(lines))) & set(all_keys()))


# --------------------------------------------------------------------------- implementation driver
def canon_cmds(cmds):
    out = []
    for c in cmds:
        out.append([0 if c[0] == "move" else 1 if c[0] == "slotmove" else 9, str(c[1]), str(c[2])])
    return out


class Impl:
    def __init__(self, chk):
        from pkgcore.ebuild import pkg_updates
        from pkgcore.ebuild.eapi import get_eapi
        self.mod = pkg_updates
        self.e7, self.e8 = get_eapi("7"), get_eapi("8")
        self.root = chk.scratch / "updates"
        self.root.mkdir(exist_ok=True)
        self.n = 0

    def run(self, case):
        """-> (recorded result for the queried names | Err, files as listed by the directory, extra)"""
        eapi8, files, keys = case
        d = self.root / f"u{self.n}"
        self.n += 1
        d.mkdir()
        for name, lines in files:
            (d / name).write_text("".join(l + "\n" for l in lines))
        listed = [f for f in os.listdir(d)]
        byname = dict(files)
        listed_files = [(n, byname[n]) for n in listed]
        extra = []

        def go():
            m = self.mod.read_updates(str(d), self.e8 if eapi8 else self.e7)
            for k, v in m.items():
                if k not in keys or not v:
                    extra.append(k)
            return [canon_cmds(m.get(k, [])) for k in keys]

        res = impl_call(go)
        for name, _ in files:
            (d / name).unlink()
        d.rmdir()
        return res, listed_files, extra


# --------------------------------------------------------------------------- sequential reference (B, Python)
def ref_ops(lines):
    """Classify every line with the real atom(): ('move', skey, tkey, cmd) / ('slot', skey, cmd) / None."""
    from pkgcore.ebuild.atom import atom
    from pkgcore.ebuild.errors import MalformedAtom
    ops = []
    for raw in lines:
        t = raw.split()
        op = None
        try:
            if t and t[0] == "move" and len(t) == 3:
                s, g = atom(t[1]), atom(t[2])
                if s.fullver is None and g.fullver is None:
                    op = ("move", s.key, g.key, [0, str(s), str(g)])
            elif t and t[0] == "slotmove" and len(t) == 4:
                s = atom(t[1])
                if s.slot is None:
                    ss = atom(f"{s}:{t[2]}")
                    atom(f"{s.key}:{t[3]}")
                    op = ("slot", s.key, [1, str(ss), t[3]])
        except MalformedAtom:
            op = None
        ops.append(op)
    return ops


def ref_order(eapi8, files):
    keyed = []
    for name, lines in files:
        if eapi8:
            if name and not name.startswith("."):
                keyed.append((name, lines))
        else:
            m = re.fullmatch(r"([1-4])Q-([0-9]{4})", name)
            if m:
                keyed.append(((int(m.group(2)), int(m.group(1))), lines))
    keyed.sort(key=lambda x: x[0])
    return [l for _, ls in keyed for l in ls]


def py_reference(case):
    eapi8, files, keys = case
    ops = ref_ops(ref_order(eapi8, files))
    res = []
    for k in keys:
        cur, out = k, []
        for op in ops:
            if op is None:
                continue
            if op[0] == "move" and op[1] == cur:
                out.append(op[3])
                cur = op[2]
            elif op[0] == "slot" and op[1] == cur:
                out.append(op[2])
        res.append(out)
    return res


def cs(s):
    """ASCII text -> Coq string literal (parsed far faster than a list of N numerals)."""
    assert all(c == "\t" or 32 <= ord(c) < 127 for c in s), s
    return '"' + s.replace('"', '""') + '"%bs'


def cres(x):
    """recorded result -> val term with strings as `VT "..."`"""
    if isinstance(x, Err) or x is None or isinstance(x, (bool, int)):
        return cval(x)
    if isinstance(x, str):
        return "(VT " + cs(x) + ")"
    return "(VL " + clist([cres(i) for i in x], "val") + ")"


def c_case(eapi8, listed_files, keys):
    """one string literal: E @ name;line;line|name;line @ key;key   (see Model_C42.dec_case)"""
    txt = ("8" if eapi8 else "7") + "@" + "|".join(";".join([n] + list(ls)) for n, ls in listed_files) \
          + "@" + ";".join(keys)
    assert txt.count("@") == 2
    return cs(txt)


def show_mapping(res):
    """the recorded mapping rendered exactly like Model_C42.show_mapping"""
    if isinstance(res, Err):
        return res
    return "|".join(";".join(f"{c[0]} {c[1]} {c[2]}" for c in cmds) for cmds in res)


def nontrivial_key(case, ref):
    """non-trivial: some queried name reports a command whose source is another name (a chain was followed)"""
    _, _, keys = case
    for k, cmds in zip(keys, ref):
        for c in cmds:
            if not re.fullmatch(r"[=<>~]*" + re.escape(k) + r"(-[0-9.]+)?(:.*)?", c[1]):
                return True
    return False


def shrink_case(impl, case):
    """Remove lines / files while implementation and sequential reference still disagree."""
    eapi8, files, keys = case

    def fails_files(fs):
        c = (eapi8, fs, keys)
        r = impl.run(c)[0]
        return isinstance(r, Err) or r != py_reference(c)

    files = shrink_list(files, fails_files, 1)
    flat = [(i, l) for i, (_, ls) in enumerate(files) for l in ls]

    def rebuild(fl):
        return [(n, [l for j, l in fl if j == i]) for i, (n, _) in enumerate(files)]

    flat = shrink_list(flat, lambda fl: fails_files(rebuild(fl)), 1)
    files = rebuild(flat)
    return eapi8, files, keys


def main(chk: Check):
    logging.disable(logging.CRITICAL)
    from pkgcore.ebuild.atom import atom

    chk.rule("update directories with 1-5 quarter-named files (years 2019-2021, created in shuffled order, "
             "plus incorrectly named files) holding 3-22 lines over 2-5 package names built from fragments: "
             "move chains with slotmoves in between, cycles a->b->a, reuse of a moved-away name as a target, "
             "redundant repeats, self moves, versioned/slotted atoms, whitespace variants; a separate stream "
             "with ~40% malformed lines; an EAPI 8 stream; non-trivial = some name reports a command whose "
             "source is a different name (a chain was followed)")
    ok = chk.build(["C42/Prop_C42.vo"])
    if ok:
        chk.check_assumptions("C42/Prop_C42.v")
    chk.lint(["C42"])
    chk.check_fingerprint(ANCHORS)

    # ---- atom stream: the classification parse_line relies on, over the model's token grammar
    toks = []
    for k in ("a/p", "b/q", "ab/pq"):
        for o in ("",) + OPS:
            for v in (None,) + VERS + ("1.", "..", ".1"):
                for s in (None, "0", "stable", "", "-x", "0:1"):
                    toks.append(o + k + ("" if v is None else "-" + v) + ("" if s is None else ":" + s))
    toks += list(BAD_ATOMS)
    if not (chk.thorough or chk.fingerprint_changed):
        toks = chk.rng.sample(toks, 250) + list(BAD_ATOMS)

    def cls(t):
        a = atom(t)
        if str(a) != t:
            return ["str differs", str(a)]
        return [a.key, a.fullver is not None, a.slot is not None]

    atom_cases = [(cs(t), impl_call(lambda: cls(t), kinds={"MalformedAtom": "MalformedAtom"})) for t in toks]
    chk.count("atom", len(atom_cases))

    # ---- update streams
    gen = Gen(chk.rng)
    impl = Impl(chk)
    plan = [("updates", chk.n(360, 5000), dict()),
            ("malformed", chk.n(160, 2000), dict(malformed=True)),
            ("eapi8", chk.n(80, 800), dict(eapi8=True))]
    corpus = []
    from .common import VERIF
    import json
    for p in sorted((VERIF / "corpus" / "C42").glob("*.json")):
        c = json.loads(p.read_text())
        corpus.append((bool(c["eapi8"]), [(n, list(ls)) for n, ls in c["files"]], list(c["keys"])))
    streams = {}
    py_bad = []
    for name, n, kw in plan:
        cases = []
        src = (corpus if name == "updates" else []) + [None] * n
        for i, c in enumerate(src):
            if c is None:
                c = gen.case(big=(i % 5 == 0), **kw)
            res, listed, extra = impl.run(c)
            case = (c[0], listed, c[2])
            ref = py_reference(case)
            cases.append((c_case(*case), res, case))
            if nontrivial_key(case, ref):
                chk.nontrivial(repr((c[0], sorted(c[1]), c[2])))
            if isinstance(res, Err) or res != ref or extra:
                py_bad.append((name, case, res, ref, extra))
        chk.count(name, len(cases))
        streams[name] = cases
        for s in cases[:: max(1, len(cases) // 2)][:2]:
            chk.sample({"stream": name, "eapi8": s[2][0], "files_as_listed": s[2][1], "names": s[2][2], "impl": s[1]})

    # nonexistent directory -> {}
    r = impl_call(lambda: impl.mod.read_updates(str(chk.scratch / "no-such-dir"), impl.e7))
    chk.count("nodir", 1)
    if r != {}:
        chk.violation("property", {"what": "read_updates of a nonexistent directory is not {}", "input": "no-such-dir",
                                   "implementation": repr(r)})

    # ---- evaluate model and spec inside Coq
    a_bad, b_bad = [], []
    if ok:
        r = chk.coq_eval("atom", IMPORTS, "bstr", [(a, Raw(cres(b))) for a, b in atom_cases],
                         ["mismatches run_atom cases"])
        if r is not None:
            for i in r[0][:3]:
                a_bad.append(("atom", toks[i], atom_cases[i][1]))
        allc = [(name, c) for name, cases in streams.items() for c in cases]   # one coqc round for all streams
        r = chk.coq_eval("updates", IMPORTS, TY, [(c[0], Raw(cres(show_mapping(c[1])))) for _, c in allc],
                         ["mismatches run_updates cases",
                          "where_ (fun i r => negb (spec_updates_ok i r)) cases"], shard=150)
        if r is not None:
            a_bad += [(allc[i][0], allc[i][1][2], allc[i][1][1]) for i in r[0]]
            b_bad += [(allc[i][0], allc[i][1][2], allc[i][1][1]) for i in r[1]]

    # ---- property failures (B): concrete inputs, shrunk
    seen = set()
    for name, case, res, ref, extra in py_bad[:40]:
        small = shrink_case(impl, case) if not extra else case
        sres = impl.run(small)[0]
        key = repr(small)
        if key in seen:
            continue
        seen.add(key)
        if len(seen) > 3:
            break
        chk.violation("property",
                      {"what": "read_updates() mapping differs from the sequential reading of the update files"
                               + (" (unexpected or empty keys in the mapping: %r)" % extra if extra else ""),
                       "input": {"eapi8": small[0], "files_as_listed": small[1], "names": small[2]},
                       "implementation": sres, "sequential_reference": py_reference(small), "stream": name})
    if b_bad and not py_bad:
        for name, case, res in b_bad[:3]:
            chk.violation("property", {"what": "Spec_C42.chain_spec rejects the implementation's mapping",
                                       "input": {"eapi8": case[0], "files_as_listed": case[1], "names": case[2]},
                                       "implementation": res, "stream": name})
    for name, case, res in a_bad[:3]:
        chk.violation("correspondence",
                      {"what": f"implementation and Model_C42 disagree on stream '{name}' "
                               "(theorem updates_is_chain no longer speaks about this code)",
                       "input": case if name == "atom" else {"eapi8": case[0], "files_as_listed": case[1], "names": case[2]},
                       "implementation": res},
                      no_input=not (py_bad or b_bad))
    logging.disable(logging.NOTSET)


def replay(chk, data):
    logging.disable(logging.CRITICAL)
    inp = data.get("detail", {}).get("input")
    if not isinstance(inp, dict):
        print("no replayable input in this record")
        return
    case = (bool(inp["eapi8"]), [(n, list(ls)) for n, ls in inp["files_as_listed"]], list(inp["names"]))
    impl = Impl(chk)
    res, listed, extra = impl.run(case)
    case = (case[0], listed, case[2])
    print("implementation      :", res, extra)
    print("sequential reference:", py_reference(case))
    r = chk.coq_eval("replay", IMPORTS, TY, [(c_case(*case), Raw(cres(show_mapping(res))))],
                     ["mismatches run_updates cases", "where_ (fun i r => negb (spec_updates_ok i r)) cases"])
    print("model agrees with implementation:", r is not None and not r[0])
    print("spec accepts implementation     :", r is not None and not r[1])
