(* Spec_C22.v — the property's statement: a contents set is a finite map from NORMALISED path to
   entry, and the set operations are the map operations.  Nothing here looks at how
   contentsSet computes its results.

   The abstraction of a set is the function [abs s : str -> option entry] (the value stored
   under a path); an argument (an fs object, a path string, another set, a list or an
   iterator of either) is abstracted to the normalised paths it names ([arg_keys]) and, where
   the operation produces values from it, to the map it denotes ([arg_map], later items win,
   as in dict(...)).  *)
From Coq Require Import List NArith ZArith Bool.
Import ListNotations.
From Verif Require Import Base.Val C22.Model_C22.

Definition fmap := str -> option entry.

(* ---- abstraction *)
Definition abs (s : cset) : fmap := fun p => dget p (ents s).
Definition norm_key (it : item) : str :=            (* the normalised path an element argument names *)
  match it with IE e => eloc e | IS p => normpath p end.
Definition arg_keys (a : arg) : str -> Prop :=
  fun p => exists it, In it (arg_items a) /\ norm_key it = p.
(* the map denoted by a sequence of fs objects: a later object replaces an earlier one *)
Definition ents_map (l : list entry) : fmap := fun p => dget p (rev l).
Definition same_map (m1 m2 : fmap) : Prop := forall p, m1 p = m2 p.
Definition dom (m : fmap) : str -> Prop := fun p => m p <> None.

(* ---- the map operations *)
Definition M_set (e : entry) (m : fmap) : fmap := fun p => if str_eqb p (eloc e) then Some e else m p.
Definition M_remove (k : str) (m : fmap) : fmap := fun p => if str_eqb p k then None else m p.
(* keep / drop the keys in K (K given as a predicate; classical case split avoided by stating
   the two directions) *)
Definition is_restrict (keep : bool) (K : str -> Prop) (m r : fmap) : Prop :=
  forall p, (K p -> r p = if keep then m p else None) /\ (~ K p -> r p = if keep then None else m p).
Definition M_union (m1 m2 : fmap) : fmap :=          (* m1 wins on common keys *)
  fun p => match m1 p with Some e => Some e | None => m2 p end.
Definition M_symdiff (m1 m2 : fmap) : fmap :=
  fun p => match m1 p, m2 p with
           | Some e, None => Some e
           | None, Some e => Some e
           | _, _ => None
           end.
Definition M_inter (m1 m2 : fmap) : fmap :=          (* values of m1 *)
  fun p => match m2 p with Some _ => m1 p | None => None end.

(* ---- well-formed sets: what the constructors guarantee (dict keys unique; fsBase.__init__
   normalised every location) *)
Definition wf_entry (e : entry) : Prop := normpath (eloc e) = eloc e.
Definition wf_dict (d : dict) : Prop := NoDup (map eloc d) /\ Forall wf_entry d.
Definition wf (s : cset) : Prop := wf_dict (ents s).
Definition wf_item (it : item) : Prop := match it with IE e => wf_entry e | IS _ => True end.
Definition wf_arg (a : arg) : Prop :=
  match a with ACs o => wf o | AList l | AIter l => Forall wf_item l end.

(* ---- known class K2 (raw-in-container): difference / intersection_update / issubset /
   isdisjoint evaluate a raw `location in other`.  That is right for another contentsSet, for an
   iterator of fs objects or normalised path strings and for a list of normalised path strings;
   it is wrong for a list holding fs objects and for any path string that is not normalised. *)
Definition item_raw_okb (in_list : bool) (it : item) : bool :=
  match it with IE _ => negb in_list | IS p => str_eqb (normpath p) p end.
Definition raw_in_class (a : arg) : bool :=
  match a with
  | ACs _ => false
  | AList l => negb (forallb (item_raw_okb true) l)
  | AIter l => negb (forallb (item_raw_okb false) l)
  end.
(* known class K4 (symdiff-list-class-equality): symmetric_difference(_update) given a LIST tests
   membership of self's objects with fsBase.__eq__ (class and location); it goes wrong exactly when
   the list holds, for a path of self, an object of another class.  (Lists naming a path twice are
   outside the domain: which duplicate wins is not fixed by the property.) *)
Definition symdiff_list_class (s : cset) (es : list entry) : bool :=
  existsb (fun e => match dget (eloc e) (ents s) with
                    | Some x => negb (N.eqb (ekind x) (ekind e))
                    | None => false
                    end) es.


(* ---- the full statements (kept visible; some are refuted for the faithful model) *)
Definition difference_full_statement : Prop :=
  forall s a, wf s -> wf_arg a -> is_restrict false (arg_keys a) (abs s) (abs (difference s a)).
Definition issubset_full_statement : Prop :=
  forall s a, wf s -> wf_arg a -> (issubset s a = true <-> forall p, dom (abs s) p -> arg_keys a p).
Definition isdisjoint_full_statement : Prop :=
  forall s a, wf s -> wf_arg a -> (isdisjoint s a = true <-> forall p, dom (abs s) p -> ~ arg_keys a p).
Definition intersection_update_full_statement : Prop :=
  forall s a, wf s -> wf_arg a -> mut s = true ->
    exists s', intersection_update s a = Ok s' /\ is_restrict true (arg_keys a) (abs s) (abs s').
Definition intersection_full_statement : Prop :=
  forall s es r, wf s -> Forall wf_entry es -> intersection s (AIter (map IE es)) = Ok r ->
    same_map (abs r) (M_inter (abs s) (ents_map es)).
Definition symdiff_full_statement : Prop :=
  forall s es r, wf s -> Forall wf_entry es -> symmetric_difference s (AList (map IE es)) = Ok r ->
    same_map (abs r) (M_symdiff (abs s) (ents_map es)).
Definition discard_pinned_full_statement : Prop :=
  forall s it, wf s -> same_map (abs (discard_pinned s it)) (M_remove (norm_key it) (abs s)).

(* ---- relocation and missing directories *)
(* proper ancestors of a path: dirname iterated at least once *)
Inductive ancestor : str -> str -> Prop :=
| anc_parent p : ancestor p (dirname p)
| anc_up p a : ancestor p a -> ancestor p (dirname a).

(* completing missing directories: old entries stay; every new entry is a directory at an absent
   proper ancestor other than "/" of some entry (soundness); every such ancestor is present
   afterwards (completeness) *)
Definition missing_sound (s s' : cset) (tag : N) : Prop :=
  (forall p e, abs s p = Some e -> abs s' p = Some e)
  /\ (forall q e', abs s q = None -> abs s' q = Some e' ->
        exists x, e' = mk_entry x 1%N tag /\ q = normpath x /\ x <> [SL]
                  /\ exists e, In e (ents s) /\ ancestor (eloc e) x)
  /\ mut s' = mut s.
Definition missing_complete (s s' : cset) : Prop :=
  forall e a, In e (ents s) -> ancestor (eloc e) a -> a <> [SL] -> dom (abs s') (normpath a).
Definition missing_dirs_exact_statement : Prop :=
  forall s tag, wf s -> missing_sound s (add_missing_directories s tag) tag
                        /\ missing_complete s (add_missing_directories s tag).

(* ---- executable acceptors used on the implementation's results (comparison B in Coq) *)
(* stream "path": the result of normpath must be a fixpoint of normpath *)
Definition spec_path_ok (i : N * str * str) (r : val) : bool :=
  let '(f, _, _) := i in
  match f, r with
  | 0%N, VS s => str_eqb (normpath s) s
  | _, _ => true
  end.
