(* Prop_C03.v — the property theorems of C03 and nothing else. *)
From Coq Require Import List NArith ZArith Bool.
Import ListNotations.
From Verif Require Import Base.Val gen.Tables_eapi gen.Tables_C03 C03.Model_C03 C03.Spec_C03 C03.Proofs_C03
  C03.Version_C03 C03.UseDep_C03 C03.Grammar_C03 C03.Complete_C03.
Local Open Scope N_scope.

(* the gate table regenerated from eapi.py is exactly the PMS feature matrix for EAPI 0..9 and "no EAPI" *)
Theorem eapi_gate_table_is_pms_matrix :
  forallb gates_match (None :: map Some (map fst eapi_options)) = true
  /\ map fst eapi_options = [0;1;2;3;4;5;6;7;8;9].
Proof. exact eapi_gate_table_is_pms_matrix_proof. Qed.
Print Assumptions eapi_gate_table_is_pms_matrix.

(* every accepted atom (any EAPI, any text) renders to text that parses back to the very same
   attribute record — hence to an equal atom with the same restrictions *)
Theorem print_parse_roundtrip :
  forall e n s a, parse_atom e n s = Ok a -> parse_atom e n (print_atom a) = Ok a.
Proof. exact print_parse_roundtrip_proof. Qed.
Print Assumptions print_parse_roundtrip.

(* what is rendered is the input text with the USE dependencies sorted, nothing else changes *)
Theorem print_is_canon :
  forall e n s a, parse_atom e n s = Ok a -> print_atom a = canon s.
Proof. exact print_is_canon_proof. Qed.
Print Assumptions print_is_canon.

(* every accepted atom uses only the features its EAPI has in the PMS feature matrix:
   strong blockers, slot deps, sub-slots / slot operators, USE deps, USE defaults, ::repo only without EAPI *)
Theorem gating_sound :
  forall e n s a, parse_atom e n s = Ok a ->
  exists f, features_of e = Some f
    /\ (a_strong a = true -> f_strong f = true)
    /\ (is_some (a_slot a) = true -> f_slot f = true)
    /\ (is_some (a_subslot a) || is_some (a_slotop a) = true -> f_subslot f = true)
    /\ (is_some (a_use a) = true -> f_use f = true)
    /\ (forall u x, a_use a = Some u -> In x u -> In c_rpar x -> f_defaults f = true)
    /\ (is_some (a_repo a) = true -> e = None).
Proof. exact gating_sound_proof. Qed.
Print Assumptions gating_sound.

(* the component recognisers of the code are the PMS character classes (text without newline);
   slot names: the code additionally lets a name begin with "+" *)
Theorem charsets_agree :
  (forall s, ~ In c_nl s -> m_category s = pms_category s)
  /\ (forall s, ~ In c_nl s -> m_use_flag s = pms_use_flag s)
  /\ (forall s, repo_ok (Some s) = pms_repo_name s)
  /\ (forall s, slot_chunk_ok s = (pms_slot_name s
                                   || match s with c :: _ => (c =? c_plus) && forallb s_slot_char s | [] => false end)).
Proof. exact charsets_agree_proof. Qed.
Print Assumptions charsets_agree.

(* isvalid_pkg_name: a name is accepted iff first character and chunks are legal and it does not end
   in "-<version-like>" nor in "-<version-like>-r<digits>" *)
Theorem pkg_name_boundary :
  forall name,
    valid_pkg_name (split_on c_dash name) = true
    <-> (exists x t, name = x :: t /\ x <> c_dash /\ x <> c_plus)
        /\ forallb pkg_chunk_ok (split_on c_dash name) = true
        /\ ~ suffix_version_like name
        /\ ~ suffix_version_rev_like name.
Proof. exact pkg_name_boundary_proof. Qed.
Print Assumptions pkg_name_boundary.

(* the full acceptance statement is false of the faithful model (known classes: trailing newline,
   upper-case version letter, slot beginning with "+"; see Proofs_C03 examples) *)
Theorem accept_iff_grammar_refuted : ~ accept_iff_grammar_statement.
Proof. exact accept_iff_grammar_refuted_proof. Qed.
Print Assumptions accept_iff_grammar_refuted.

(* every rejection is a MalformedAtom, never another exception (holds since /repo 3aa9a5c) *)
Theorem reject_is_malformed :
  forall e s, features_of e <> None -> is_ok (parse_atom e false s) = false -> parse_atom e false s = Malformed.
Proof. exact reject_is_malformed_proof. Qed.
Print Assumptions reject_is_malformed.

(* the version scanner that models isvalid_version_re = the PMS 3.2 version syntax (without revision):
   equal on text without newline and without upper-case letters; every PMS version is accepted *)
Theorem version_agree :
  (forall v, ~ In c_nl v -> forallb (fun c => negb (s_upper c)) v = true -> m_version v = pms_version v)
  /\ (forall v, pms_version v = true -> m_version v = true).
Proof. exact version_agree_proof. Qed.
Print Assumptions version_agree.

(* the USE-dependency token check of atom.__init__ = the PMS 8.3.4 forms, for tokens without newline *)
Theorem use_dep_agree :
  forall d x, ~ In c_nl x -> valid_use_dep d x = pms_use_dep d x.
Proof. exact use_dep_agree_proof. Qed.
Print Assumptions use_dep_agree.

(* SOUNDNESS of acceptance (one half of accept_iff_grammar, in full): whatever is accepted is a PMS
   atom of that EAPI, outside the recorded classes — text without newline, no upper-case letter in
   the version, no slot / sub-slot name beginning with "+" *)
Theorem accept_sound_partial :
  forall e n s a,
    parse_atom e n s = Ok a -> ~ In c_nl s -> clean_atom a -> pms_atom_b e s = true.
Proof. exact accept_sound_proof. Qed.
Print Assumptions accept_sound_partial.

(* isvalid_pkg_name on the "-"-chunks = PMS 3.1.2 package-name rule (tried on every hyphen cut), for
   names without newline in which no chunk is a code-version carrying an upper-case letter *)
Theorem pkg_name_agree :
  forall name, ~ In c_nl name -> upper_version_chunk name = false ->
               valid_pkg_name (split_on c_dash name) = pms_pkg_name name.
Proof. exact pkg_name_agree_proof. Qed.
Print Assumptions pkg_name_agree.

(* COMPLETENESS of acceptance (the other half of accept_iff_grammar, in full): every string the PMS
   grammar recogniser accepts for an EAPI is accepted — for text without newline in which no
   contiguous piece is a code-version ([m_version]) carrying an upper-case letter *)
Theorem accept_complete_partial :
  forall e n s,
    pms_atom_b e s = true -> ~ In c_nl s -> no_upper_version s -> is_ok (parse_atom e n s) = true.
Proof. exact accept_complete_proof. Qed.
Print Assumptions accept_complete_partial.

(* the first sentence of the property as an equivalence, outside the three recorded classes stated on
   the INPUT: no newline; no contiguous piece that the code's version regex accepts with an upper-case
   letter; no ":+" and no "/+" (a slot or sub-slot name beginning with "+") *)
Theorem accept_iff_grammar_partial :
  forall e n s,
    ~ In c_nl s -> no_upper_version s -> no_plus_slot s ->
    is_ok (parse_atom e n s) = pms_atom_b e s.
Proof. exact accept_iff_grammar_partial_proof. Qed.
Print Assumptions accept_iff_grammar_partial.
