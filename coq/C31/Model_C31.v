(* Model_C31.v — executable model of the environment transfer to the build daemon.

   Python side (src/pkgcore/ebuild/processor.py, REPAIRED behaviour of
   fixes/C31-env-quoting.patch):
     _generate_env_str  -> generate_env_str      send_env framing -> frame / frame_file
   Bash side (data/lib/pkgcore/ebd/ebuild-daemon{,-lib}.bash):
     __ebd_read_line + __ebd_read_size (read -r -N n in the C locale = n bytes) -> reader
     eval "${line}" under IFS=$'\0'  -> bash_eval : a word-expansion model for exactly the
     fragment the generator can emit (assignment words, '...', $'...', "...", array literals,
     export); everything else evaluates to None ("outside the fragment").
   The pre-repair generator is kept as generate_env_str_old (for the _refuted theorems).
   No proofs here. *)
From Coq Require Import List NArith ZArith Bool DecimalN Decimal.
Import ListNotations.
From Verif Require Import Base.Val.
Local Open Scope N_scope.

(* ------------------------------------------------------------------ characters *)
Definition c_nl := 10.  Definition c_tab := 9.   Definition c_sp := 32.
Definition c_sq := 39.  Definition c_dq := 34.   Definition c_bs := 92.
Definition c_dollar := 36. Definition c_bt := 96. Definition c_eq := 61.
Definition c_lp := 40.  Definition c_rp := 41.   Definition c_lb := 91.
Definition c_rb := 93.  Definition c_us := 95.

Definition is_digit (c : N) : bool := (48 <=? c) && (c <=? 57).
Definition is_alpha_ascii (c : N) : bool :=
  ((65 <=? c) && (c <=? 90)) || ((97 <=? c) && (c <=? 122)).
Definition is_name_start (c : N) : bool := is_alpha_ascii c || (c =? c_us).
Definition is_name_char (c : N) : bool := is_name_start c || is_digit c.

Fixpoint mem_str (k : str) (l : list str) : bool :=
  match l with [] => false | x :: r => str_eqb k x || mem_str k r end.
Definition memN (c : N) (l : list N) : bool := existsb (N.eqb c) l.

Fixpoint join (sep : str) (l : list str) : str :=
  match l with
  | [] => []
  | [x] => x
  | x :: r => x ++ sep ++ join sep r
  end.

(* ------------------------------------------------------------------ decimal numerals *)
Fixpoint uint_str (u : Decimal.uint) : str :=
  match u with
  | Nil => []
  | D0 u => 48 :: uint_str u | D1 u => 49 :: uint_str u | D2 u => 50 :: uint_str u
  | D3 u => 51 :: uint_str u | D4 u => 52 :: uint_str u | D5 u => 53 :: uint_str u
  | D6 u => 54 :: uint_str u | D7 u => 55 :: uint_str u | D8 u => 56 :: uint_str u
  | D9 u => 57 :: uint_str u
  end.
Definition dec (n : N) : str := uint_str (N.to_uint n).       (* Python str(int), n >= 0 *)

Fixpoint str_uint (s : str) : option Decimal.uint :=
  match s with
  | [] => Some Nil
  | c :: r =>
      match str_uint r with
      | None => None
      | Some u =>
          if c =? 48 then Some (D0 u) else if c =? 49 then Some (D1 u)
          else if c =? 50 then Some (D2 u) else if c =? 51 then Some (D3 u)
          else if c =? 52 then Some (D4 u) else if c =? 53 then Some (D5 u)
          else if c =? 54 then Some (D6 u) else if c =? 55 then Some (D7 u)
          else if c =? 56 then Some (D8 u) else if c =? 57 then Some (D9 u)
          else None
      end
  end.
(* a decimal numeral as bash reads it in an arithmetic context / `read -N`: non-empty, and
   no leading zero unless it is "0" (a leading zero would mean octal: outside the fragment) *)
Definition parse_dec (s : str) : option N :=
  match s with
  | [] => None
  | c :: r =>
      if (c =? 48) && negb (match r with [] => true | _ => false end) then None
      else match str_uint s with Some u => Some (N.of_uint u) | None => None end
  end.

(* ================================================================== Python side *)
Inductive pyval := PStr (s : str) | PList (l : list str) | POther.
Definition env := list (str * pyval).                  (* a dict: keys are distinct *)

(* Python's Unicode classification of the code points >= 128 (str.isalnum / str.isalpha);
   a parameter of the model: the theorems hold for every classification. *)
Record uni := { alnum_hi : N -> bool; alpha_hi : N -> bool }.

Definition py_isalnum_c (U : uni) (c : N) : bool :=
  if c <? 128 then is_digit c || is_alpha_ascii c else alnum_hi U c.
Definition py_isalnum (U : uni) (s : str) : bool :=
  match s with [] => false | _ => forallb (py_isalnum_c U) s end.
Definition py_isalpha_c (U : uni) (c : N) : bool :=
  if c <? 128 then is_alpha_ascii c else alpha_hi U c.

(* str.split() without arguments: runs of Unicode whitespace separate, no empty pieces *)
Definition py_isspace (c : N) : bool :=
  ((9 <=? c) && (c <=? 13)) || ((28 <=? c) && (c <=? 32)) || (c =? 133) || (c =? 160)
  || (c =? 5760) || ((8192 <=? c) && (c <=? 8202)) || (c =? 8232) || (c =? 8233)
  || (c =? 8239) || (c =? 8287) || (c =? 12288).
Definition flush (cur : str) : list str := match cur with [] => [] | _ => [List.rev cur] end.
Fixpoint split_ws (cur : str) (s : str) : list str :=
  match s with
  | [] => flush cur
  | c :: r => if py_isspace c then flush cur ++ split_ws [] r else split_ws (c :: cur) r
  end.

(* sorted(env_dict.items()): code-point order of the (distinct) keys; insertion sort *)
Fixpoint str_leb (a b : str) : bool :=
  match a, b with
  | [], _ => true
  | _ :: _, [] => false
  | x :: a', y :: b' => if x <? y then true else if y <? x then false else str_leb a' b'
  end.
Fixpoint insert_kv (kv : str * pyval) (l : env) : env :=
  match l with
  | [] => [kv]
  | x :: r => if str_leb (fst kv) (fst x) then kv :: l else x :: insert_kv kv r
  end.
Fixpoint sort_env (e : env) : env :=
  match e with [] => [] | kv :: r => insert_kv kv (sort_env r) end.

Definition MARKER : str :=
  [80;75;71;67;79;82;69;95;78;79;78;69;88;80;79;82;84;69;68;95;86;65;82;83].
  (* "PKGCORE_NONEXPORTED_VARS" *)
Definition EXPORT : str := [101;120;112;111;114;116].            (* "export" *)

Fixpoint assoc (k : str) (e : env) : option pyval :=
  match e with [] => None | (k', v) :: r => if str_eqb k k' then Some v else assoc k r end.
Fixpoint remove_key (k : str) (e : env) : env :=
  match e with
  | [] => []
  | (k', v) :: r => if str_eqb k k' then remove_key k r else (k', v) :: remove_key k r
  end.

(* the quoting forms *)
Definition esc_ansi_c (c : N) : str :=
  if c =? c_bs then [c_bs; c_bs] else if c =? c_sq then [c_bs; c_sq] else [c].
Definition esc_ansi (v : str) : str := flat_map esc_ansi_c v.
(* _quote_env_value: '...' or, when the text has a quote, $'...' *)
Definition quote_hard (v : str) : str :=
  if negb (memN c_sq v) then c_sq :: v ++ [c_sq]
  else c_dollar :: c_sq :: esc_ansi v ++ [c_sq].
Definition quote_scalar (U : uni) (v : str) : str :=
  if py_isalnum U v then v else quote_hard v.
(* _quote_env_element: plain text keeps the historic "..." form *)
Definition dq_unsafe (c : N) : bool :=
  (c =? c_bs) || (c =? c_dq) || (c =? c_dollar) || (c =? c_bt) || (c =? 1) || (c =? 127).
Definition quote_elem (v : str) : str :=
  if existsb dq_unsafe v then quote_hard v else c_dq :: v ++ [c_dq].
Fixpoint elems (i : N) (vs : list str) : list str :=
  match vs with
  | [] => []
  | v :: r => ([c_lb] ++ dec i ++ [c_rb; c_eq] ++ quote_elem v) :: elems (N.succ i) r
  end.

Definition render_val (U : uni) (k : str) (v : pyval) : option str :=
  match v with
  | PStr s => Some (k ++ [c_eq] ++ quote_scalar U s)
  | PList l => Some (k ++ [c_eq; c_lp] ++ join [c_sp] (elems 0 l) ++ [c_rp])
  | POther => None
  end.

Inductive gerr := EAttribute | EIndex | EKey | EType.

Section Gen.
  Variable U : uni.
  Variable rv : str -> pyval -> option str.     (* render_val, or the pre-repair renderer *)
  Variable ro : list str.                        (* self._readonly_vars *)
  Variable nonexp : list str.

  (* the loop over the sorted items: (plain assignments, exported assignments) *)
  Fixpoint render_all (l : env) : gerr + (list str * list str) :=
    match l with
    | [] => inr ([], [])
    | (k, v) :: r =>
        if mem_str k ro then render_all r
        else match k with
             | [] => inl EIndex                                  (* key[0] *)
             | c :: _ =>
                 if negb (py_isalpha_c U c) && negb (c =? c_us) then inl EKey
                 else match rv k v with
                      | None => inl EType
                      | Some a =>
                          match render_all r with
                          | inl e => inl e
                          | inr (p, x) =>
                              if mem_str k nonexp then inr (a :: p, x) else inr (p, a :: x)
                          end
                      end
             end
    end.
End Gen.

Definition nonexported_of (e : env) : gerr + list str :=
  match assoc MARKER e with
  | None => inr []
  | Some (PStr s) => inr (split_ws [] s)
  | Some _ => inl EAttribute                       (* list/other has no .split *)
  end.

Definition lines_of (plain exported : list str) : list str :=
  (match plain with [] => [] | _ => [join [c_sp] plain] end)
  ++ (match exported with [] => [] | _ => [EXPORT ++ [c_sp] ++ join [c_sp] exported] end).

Definition generate_with (U : uni) rv (ro : list str) (e : env) : gerr + str :=
  match nonexported_of e with
  | inl x => inl x
  | inr nonexp =>
      match render_all U rv ro nonexp (sort_env (remove_key MARKER e)) with
      | inl x => inl x
      | inr (p, x) => inr (join [c_nl] (lines_of p x))
      end
  end.

Definition generate_env_str (U : uni) := generate_with U (render_val U).

(* ---- the generator before the repair (kept to state what was wrong) *)
Definition quote_scalar_old (U : uni) (v : str) : str :=
  if py_isalnum U v then v
  else if negb (memN c_sq v) then c_sq :: v ++ [c_sq]
  else c_dollar :: c_sq :: flat_map (fun c => if c =? c_sq then [c_bs; c_sq] else [c]) v ++ [c_sq].
Fixpoint elems_old (i : N) (vs : list str) : list str :=
  match vs with
  | [] => []
  | v :: r => ([c_lb] ++ dec i ++ [c_rb; c_eq; c_dq] ++ v ++ [c_dq]) :: elems_old (N.succ i) r
  end.
Definition render_val_old (U : uni) (k : str) (v : pyval) : option str :=
  match v with
  | PStr s => Some (k ++ [c_eq] ++ quote_scalar_old U s)
  | PList l => Some (k ++ [c_eq; c_lp] ++ join [c_sp] (elems_old 0 l) ++ [c_rp])
  | POther => None
  end.
Definition generate_env_str_old (U : uni) := generate_with U (render_val_old U).

(* ================================================================== the wire *)
(* what the text-mode pipe writes: UTF-8 *)
Definition utf8 (c : N) : list N :=
  if c <? 128 then [c]
  else if c <? 2048 then [192 + c / 64; 128 + c mod 64]
  else if c <? 65536 then [224 + c / 4096; 128 + (c / 64) mod 64; 128 + c mod 64]
  else [240 + (c / 262144) mod 8; 128 + (c / 4096) mod 64; 128 + (c / 64) mod 64; 128 + c mod 64].
Definition encode (s : str) : list N := flat_map utf8 s.

Definition HDR_BYTES : str :=
  [115;116;97;114;116;95;114;101;99;101;105;118;105;110;103;95;101;110;118;32;98;121;116;101;115;32].
  (* "start_receiving_env bytes " *)
Definition HDR_FILE : str :=
  [115;116;97;114;116;95;114;101;99;101;105;118;105;110;103;95;101;110;118;32;102;105;108;101;32].
  (* "start_receiving_env file " *)

(* send_env, inline: f"start_receiving_env bytes {wire_len(data)}\n{data}" *)
Definition frame (data : str) : list N :=
  encode (HDR_BYTES ++ dec (N.of_nat (length (encode data))) ++ [c_nl] ++ data).
(* before the repair the count was len(data): characters *)
Definition frame_old (data : str) : list N :=
  encode (HDR_BYTES ++ dec (N.of_nat (length data)) ++ [c_nl] ++ data).
(* send_env, file: the command line only (the data goes to <tmpdir>/ebd-env-transfer) *)
Definition frame_file (path : str) : list N := encode (HDR_FILE ++ path ++ [c_nl]).

(* daemon: `read line` = up to the first newline *)
Fixpoint read_line (bs : list N) : option (list N * list N) :=
  match bs with
  | [] => None
  | b :: r =>
      if b =? c_nl then Some ([], r)
      else match read_line r with Some (l, r') => Some (b :: l, r') | None => None end
  end.
Fixpoint strip_prefix (p s : str) : option str :=
  match p, s with
  | [], _ => Some s
  | x :: p', y :: s' => if x =? y then strip_prefix p' s' else None
  | _ :: _, [] => None
  end.
(* `start_receiving_env bytes N` then `read -r -N N` in the C locale: N bytes.
   Result: (payload handed to eval, what is left on the channel); None = reader blocks/dies *)
Definition reader (bs : list N) : option (list N * list N) :=
  match read_line bs with
  | None => None
  | Some (line, r) =>
      match strip_prefix HDR_BYTES line with
      | None => None
      | Some num =>
          match parse_dec num with
          | None => None
          | Some n =>
              if (length r <? N.to_nat n)%nat then None
              else Some (firstn (N.to_nat n) r, skipn (N.to_nat n) r)
          end
      end
  end.
Definition reader_file (bs : list N) : option (str * list N) :=
  match read_line bs with
  | None => None
  | Some (line, r) =>
      match strip_prefix HDR_FILE line with Some p => Some (p, r) | None => None end
  end.

(* ================================================================== bash side *)
Inductive bval := BStr (s : str) | BArr (l : list (N * str)).
Definition assignment := (str * bval * bool)%type.       (* name, value, by `export` *)

Definition cons1 {A} (c : N) (o : option (str * A)) : option (str * A) :=
  match o with Some (v, r) => Some (c :: v, r) | None => None end.

Inductive mode := MPlain | MSq | MDq | MAnsi.

(* unquoted characters that are literal in a word (a deliberately small, safe set) *)
Definition plain_char (c : N) : bool :=
  is_name_char c || (128 <=? c) || memN c [45; 46; 47; 44; 43; 64; 37; 58; 61].  (* - . / , + @ % : = *)
Definition is_term (c : N) : bool :=
  (c =? c_sp) || (c =? c_tab) || (c =? c_nl) || (c =? c_rp).
Definition dq_escapable (c : N) : bool :=
  (c =? c_bs) || (c =? c_dq) || (c =? c_dollar) || (c =? c_bt) || (c =? c_nl).
Definition is_octal (c : N) : bool := (48 <=? c) && (c <=? 55).
Definition hexval (c : N) : option N :=
  if is_digit c then Some (c - 48)
  else if (97 <=? c) && (c <=? 102) then Some (c - 87)
  else if (65 <=? c) && (c <=? 70) then Some (c - 55)
  else None.
(* single-character escapes of $'...' *)
Definition ansi_simple (c : N) : option N :=
  if c =? c_bs then Some c_bs else if c =? c_sq then Some c_sq else if c =? c_dq then Some c_dq
  else if c =? 63 then Some 63                                   (* \? *)
  else if c =? 97 then Some 7 else if c =? 98 then Some 8        (* \a \b *)
  else if (c =? 101) || (c =? 69) then Some 27                   (* \e \E *)
  else if c =? 102 then Some 12 else if c =? 110 then Some 10    (* \f \n *)
  else if c =? 114 then Some 13 else if c =? 116 then Some 9     (* \r \t *)
  else if c =? 118 then Some 11 else None.                       (* \v *)
(* a numeric escape denotes one byte; only 1..127 are inside the fragment (0 truncates the
   string in bash, >= 128 is a raw byte, not a character) *)
Definition byte_ok (n : N) : bool := (1 <=? n) && (n <? 128).

(* [arr] = the word is an element of a compound array assignment: bash 5.2 stores the control
   characters \001 (CTLESC) and \177 (CTLNUL) of a DOUBLE-quoted part of such a word with an
   extra \001 in front (observed with real bash by the harness; the repaired generator never
   double-quotes them).
   one shell word (value part), starting in mode m: Some (value, rest); rest starts at the
   unquoted terminator (blank, newline, `)`) or is empty.  None: unterminated quote, NUL,
   an active expansion ($x, `x`, $(x)), a metacharacter, or an escape outside the fragment *)
Fixpoint word (arr : bool) (m : mode) (s : str) {struct s} : option (str * str) :=
  match m with
  | MPlain =>
      match s with
      | [] => Some ([], [])
      | c :: s' =>
          if is_term c then Some ([], s)
          else if c =? c_sq then word arr MSq s'
          else if c =? c_dq then word arr MDq s'
          else if c =? c_dollar then
            match s' with
            | d :: s'' => if d =? c_sq then word arr MAnsi s'' else None
            | [] => None
            end
          else if plain_char c then cons1 c (word arr MPlain s')
          else None
      end
  | MSq =>
      match s with
      | [] => None
      | c :: s' =>
          if c =? 0 then None
          else if c =? c_sq then word arr MPlain s'
          else cons1 c (word arr MSq s')
      end
  | MDq =>
      match s with
      | [] => None
      | c :: s' =>
          if c =? 0 then None
          else if c =? c_dq then word arr MPlain s'
          else if (c =? c_dollar) || (c =? c_bt) then None
          else if c =? c_bs then
            match s' with
            | [] => None
            | d :: s'' =>
                if d =? 0 then None
                else if d =? c_nl then word arr MDq s''                     (* line continuation *)
                else if dq_escapable d then cons1 d (word arr MDq s'')
                else cons1 c_bs (cons1 d (word arr MDq s''))
            end
          else if arr && ((c =? 1) || (c =? 127)) then cons1 1 (cons1 c (word arr MDq s'))
          else cons1 c (word arr MDq s')
      end
  | MAnsi =>
      match s with
      | [] => None
      | c :: s' =>
          if c =? 0 then None
          else if c =? c_sq then word arr MPlain s'
          else if c =? c_bs then
            match s' with
            | [] => None
            | d :: s'' =>
                match ansi_simple d with
                | Some x => cons1 x (word arr MAnsi s'')
                | None =>
                    if is_octal d then
                      match s'' with
                      | e :: s3 =>
                          if is_octal e then
                            match s3 with
                            | f :: s4 =>
                                if is_octal f then
                                  let n := ((d - 48) * 64 + (e - 48) * 8 + (f - 48)) mod 256 in
                                  if byte_ok n then cons1 n (word arr MAnsi s4) else None
                                else
                                  let n := (d - 48) * 8 + (e - 48) in
                                  if byte_ok n then cons1 n (word arr MAnsi s3) else None
                            | [] => None
                            end
                          else
                            let n := d - 48 in
                            if byte_ok n then cons1 n (word arr MAnsi s'') else None
                      | [] => None
                      end
                    else if d =? 120 then                                 (* \xH, \xHH *)
                      match s'' with
                      | e :: s3 =>
                          match hexval e with
                          | None => None
                          | Some he =>
                              match s3 with
                              | f :: s4 =>
                                  match hexval f with
                                  | Some hf =>
                                      let n := he * 16 + hf in
                                      if byte_ok n then cons1 n (word arr MAnsi s4) else None
                                  | None => if byte_ok he then cons1 he (word arr MAnsi s3) else None
                                  end
                              | [] => None
                              end
                          end
                      | [] => None
                      end
                    else if (d =? 117) || (d =? 85) || (d =? 99) || (d =? 0) then None   (* \u \U \c *)
                    else cons1 c_bs (cons1 d (word arr MAnsi s''))            (* unknown: kept *)
                end
            end
          else cons1 c (word arr MAnsi s')
      end
  end.

(* NAME= at the start of a word: Some (name, rest after '=') *)
Fixpoint take_name_chars (s : str) : option (str * str) :=
  match s with
  | [] => None
  | c :: s' =>
      if c =? c_eq then Some ([], s')
      else if is_name_char c then cons1 c (take_name_chars s')
      else None
  end.
Definition valid_nameb (k : str) : bool :=
  match k with [] => false | c :: r => is_name_start c && forallb is_name_char r end.
Definition take_name (s : str) : option (str * str) :=
  match take_name_chars s with
  | Some (k, r) => if valid_nameb k then Some (k, r) else None
  | None => None
  end.

(* `[digits]=` of an array element *)
Fixpoint take_digits (s : str) : option (str * str) :=
  match s with
  | [] => None
  | c :: s' =>
      if c =? c_rb then Some ([], s')
      else if is_digit c then cons1 c (take_digits s')
      else None
  end.
Definition take_index (s : str) : option (N * str) :=
  match take_digits s with
  | Some (d, r) =>
      match parse_dec d, r with
      | Some i, c :: r' => if c =? c_eq then Some (i, r') else None
      | _, _ => None
      end
  | None => None
  end.

Fixpoint skip_ws (s : str) : str :=                  (* blanks and newlines (inside parens) *)
  match s with
  | c :: s' => if (c =? c_sp) || (c =? c_tab) || (c =? c_nl) then skip_ws s' else s
  | [] => []
  end.
Fixpoint skip_sp (s : str) : str :=                  (* blanks *)
  match s with
  | c :: s' => if (c =? c_sp) || (c =? c_tab) then skip_sp s' else s
  | [] => []
  end.

(* array literal body after `(`: explicitly subscripted elements only *)
Fixpoint arr_elems (fuel : nat) (s : str) : option (list (N * str) * str) :=
  match fuel with
  | O => None
  | S f =>
      match skip_ws s with
      | [] => None
      | c :: s' =>
          if c =? c_rp then Some ([], s')
          else if c =? c_lb then
            match take_index s' with
            | None => None
            | Some (i, s2) =>
                match word true MPlain s2 with
                | None => None
                | Some (v, s3) =>
                    match arr_elems f s3 with
                    | Some (l, r) => Some ((i, v) :: l, r)
                    | None => None
                    end
                end
            end
          else None
      end
  end.

(* a later element with the same subscript replaces the earlier one *)
Fixpoint arr_set (i : N) (v : str) (l : list (N * str)) : list (N * str) :=
  match l with
  | [] => [(i, v)]
  | (j, w) :: r =>
      if i =? j then (i, v) :: r
      else if i <? j then (i, v) :: (j, w) :: r          (* kept in subscript order *)
      else (j, w) :: arr_set i v r
  end.
Definition arr_norm (l : list (N * str)) : list (N * str) :=
  fold_left (fun acc iv => arr_set (fst iv) (snd iv) acc) l [].

Definition ends_word (s : str) : bool :=
  match s with
  | [] => true
  | c :: _ => (c =? c_sp) || (c =? c_tab) || (c =? c_nl)
  end.

(* the assignment words of one simple command, up to the newline: (assignments, rest) *)
Fixpoint assigns (fuel : nat) (exp : bool) (s : str) : option (list assignment * str) :=
  match fuel with
  | O => None
  | S f =>
      match skip_sp s with
      | [] => Some ([], [])
      | c :: s' =>
          if c =? c_nl then Some ([], s')
          else
            match take_name (c :: s') with
            | None => None
            | Some (k, r) =>
                let value :=
                  match r with
                  | d :: r' =>
                      if d =? c_lp then
                        match arr_elems f r' with
                        | Some (l, r2) => Some (BArr (arr_norm l), r2)
                        | None => None
                        end
                      else match word false MPlain r with
                           | Some (v, r2) => Some (BStr v, r2)
                           | None => None
                           end
                  | [] => Some (BStr [], [])
                  end in
                match value with
                | None => None
                | Some (bv, r2) =>
                    if ends_word r2 then
                      match assigns f exp r2 with
                      | Some (l, r3) => Some ((k, bv, exp) :: l, r3)
                      | None => None
                      end
                    else None
                end
            end
      end
  end.

Definition is_blank (c : N) : bool := (c =? c_sp) || (c =? c_tab).
Definition command (fuel : nat) (s : str) : option (list assignment * str) :=
  match strip_prefix EXPORT (skip_sp s) with
  | Some (c :: r) => if is_blank c then assigns fuel true r else assigns fuel false s
  | _ => assigns fuel false s
  end.

Fixpoint program (fuel : nat) (s : str) : option (list assignment) :=
  match s with
  | [] => Some []
  | _ :: _ =>
      match fuel with
      | O => None
      | S f =>
          match command (S f) s with
          | None => None
          | Some (l, r) =>
              match program f r with Some l' => Some (l ++ l') | None => None end
          end
      end
  end.

(* eval "<text>": the log of assignments performed, in order *)
Definition bash_eval (text : str) : option (list assignment) :=
  program (S (length text)) text.

(* the shell state after a log: later assignments replace the value, `export` is sticky *)
Definition shell := list (str * (bval * bool)).
Fixpoint sh_lookup (k : str) (st : shell) : option (bval * bool) :=
  match st with [] => None | (k', x) :: r => if str_eqb k k' then Some x else sh_lookup k r end.
Fixpoint sh_set (k : str) (v : bval) (e : bool) (st : shell) : shell :=
  match st with
  | [] => [(k, (v, e))]
  | (k', (v', e')) :: r =>
      if str_eqb k k' then (k, (v, e || e')) :: r else (k', (v', e')) :: sh_set k v e r
  end.
Definition run_log (log : list assignment) (st : shell) : shell :=
  fold_left (fun st a => let '(k, v, e) := a in sh_set k v e st) log st.
Definition final_lookup (k : str) (log : list assignment) : option (bval * bool) :=
  sh_lookup k (run_log log []).

(* ================================================================== encoders (harness) *)
Definition e_attr : str := [65;116;116;114;105;98;117;116;101;69;114;114;111;114].
Definition e_index : str := [73;110;100;101;120;69;114;114;111;114].
Definition e_key : str := [75;101;121;69;114;114;111;114].
Definition e_type : str := [84;121;112;101;69;114;114;111;114].
Definition enc_gerr (e : gerr) : val :=
  VErr match e with EAttribute => e_attr | EIndex => e_index | EKey => e_key | EType => e_type end.

Definition mkU (alnum alpha : list N) : uni :=
  {| alnum_hi := fun c => memN c alnum; alpha_hi := fun c => memN c alpha |}.

(* stream "gen": (alnum code points >= 128 of the case, alpha ones, readonly names, env) *)
Definition gen_input := (list N * list N * list str * env)%type.
Definition run_gen (i : gen_input) : val :=
  let '(an, al, ro, e) := i in
  match generate_env_str (mkU an al) ro e with
  | inl x => enc_gerr x
  | inr t => VS t
  end.

(* stream "frame": (text, path) -> the bytes send_env writes inline, the command line of the
   file variant, and the bytes of the transfer file *)
Definition run_frame2 (i : str * str) : val :=
  VL [VS (frame (fst i)); VS (frame_file (snd i)); VS (encode (fst i))].

(* the state of the named variables, as the harness dumps it from a real bash:
   [name; exported; is_array; [[index; value] ...]] for every name that is set, in order *)
Definition enc_var (k : str) (x : bval * bool) : val :=
  match x with
  | (BStr s, e) => VL [VS k; VB e; VB false; VL [VL [VZ 0; VS s]]]
  | (BArr l, e) =>
      VL [VS k; VB e; VB true; VL (map (fun iv => VL [VZ (Z.of_N (fst iv)); VS (snd iv)]) l)]
  end.
Fixpoint enc_state (names : list str) (log : list assignment) : list val :=
  match names with
  | [] => []
  | k :: r =>
      match final_lookup k log with
      | Some x => enc_var k x :: enc_state r log
      | None => enc_state r log
      end
  end.
(* stream "bash": (names to dump, text) *)
Definition run_bash (i : list str * str) : option val :=
  match bash_eval (snd i) with
  | Some log => Some (VL (enc_state (fst i) log))
  | None => None
  end.
(* indices where the model evaluates (inside the fragment) and differs from real bash *)
Definition bash_differs (i : list str * str) (r : val) : bool :=
  match run_bash i with Some v => negb (val_eqb v r) | None => false end.
Definition bash_outside (i : list str * str) (r : val) : bool :=
  match run_bash i with Some _ => false | None => true end.

(* stream "e2e", model side: generate, evaluate with the bash model, dump the keys *)
Definition run_e2e (i : gen_input) : val :=
  let '(an, al, ro, e) := i in
  match generate_env_str (mkU an al) ro e with
  | inl x => enc_gerr x
  | inr t =>
      match bash_eval t with
      | Some log => VL (enc_state (map fst e) log)
      | None => VErr [117;110;115;117;112;112;111;114;116;101;100]
      end
  end.
