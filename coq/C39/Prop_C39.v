(* Prop_C39.v — the property theorems of C39 and nothing else. *)
From Coq Require Import List NArith ZArith Bool.
Import ListNotations.
From Verif Require Import Base.Val C39.Model_C39 C39.Spec_C39 C39.Proofs_C39.

(* combining two list changes = applying the first, then the second — or it is refused *)
Theorem or_is_sequential : forall a b c,
  valid a = true -> valid b = true -> or_ a b = Some c ->
  forall l, same_set (apply c l) (apply b (apply a l)).
Proof. exact or_is_sequential_proof. Qed.
Print Assumptions or_is_sequential.

Theorem or_refused_iff : forall a b,
  valid a = true -> valid b = true ->
  (or_ a b = None <->
   replace a = None /\ replace b = None /\
   exists x, (In x (add a) \/ In x (add b)) /\ (In x (remove a) \/ In x (remove b))).
Proof. exact or_refused_iff_proof. Qed.
Print Assumptions or_refused_iff.

Theorem change_wire_exact : forall c l,
  valid c = true -> apply_wire (change_wire c) l = apply c l.
Proof. exact change_wire_exact_proof. Qed.
Print Assumptions change_wire_exact.

Theorem update_wire_exact : forall u k,
  length (scalars u) = 7%nat -> length (changes u) = 6%nat ->
  (In k (update_wire_keys u) <->
   k = 0%N
   \/ (exists i, nth_error (scalars u) i = Some true /\ k = (1 + N.of_nat i)%N)
   \/ (exists i c, nth_error (changes u) i = Some c /\ change_bool c = true /\ k = (8 + N.of_nat i)%N)
   \/ (k = 14%N /\ nflags u <> O) \/ (k = 15%N /\ has_comment u = true)
   \/ (k = 16%N /\ has_pkglist u = true) \/ (k = 17%N /\ has_rtr u = true)).
Proof. exact update_wire_exact_proof. Qed.
Print Assumptions update_wire_exact.
