"""C06 — boolean restriction trees evaluate as propositional logic; normal forms agree (DESIGN §6 C06).

Trees are built from REAL restriction objects in three domains
  syn   4 independent PackageRestriction leaves (category/package/fullver/use) over 32 synthetic
        packages realising every one of the 16 assignments (by a different value and by a
        missing attribute) — exhaustive truth tables
  pkg   PackageRestriction leaves over category/package/fullver/use/slot (value-level and
        package-level negate, missing attributes) and ebuild atoms, over 24 simple fake packages + 3
        partial objects; leaf truth is computed by the harness independently of the restriction classes
  val   value-type trees (StrExactMatch/StrGlobMatch/StrRegex/ContainmentMatch leaves) matched
        against strings

Streams (cases evaluated INSIDE Coq against C06.Model_C06 / C06.Restr / C06.Spec_C06)
  match  r.match(p) for every p of the domain's universe     (A) vs Restr.eval
                                                            (B) vs Spec_C06.prop_eval
  dnf    r.dnf_solutions(fse)   as set of sets of literals   (A) vs Model_C06.dnf
  cnf    r.cnf_solutions(fse)                                (A) vs Model_C06.cnf
  icnf   list(r.iter_cnf_solutions(fse))                     (A) vs Model_C06.cnf
  spec   the IMPLEMENTATION's clause lists evaluated under every assignment of the tree's leaves
         (B) vs prop_eval in Coq; plus the direct Python oracle: the clause lists evaluated with
         the literal objects' own .match on every universe object vs r.match
"""

import itertools
import json
from pathlib import Path

from .common import VERIF, Check, Err, cN, cbool, clist, cnat, copt, cpair, impl_call

IMPORTS = ("From Coq Require Import List NArith ZArith Bool.\n"
           "From Verif Require Import Base.Val C06.Restr C06.Model_C06 C06.Spec_C06.")
ANCHORS = ["restrictions/boolean.py::AndRestriction.match",
           "restrictions/boolean.py::AndRestriction.iter_dnf_solutions",
           "restrictions/boolean.py::AndRestriction.dnf_solutions",
           "restrictions/boolean.py::AndRestriction.iter_cnf_solutions",
           "restrictions/boolean.py::AndRestriction.cnf_solutions",
           "restrictions/boolean.py::OrRestriction.match",
           "restrictions/boolean.py::OrRestriction.cnf_solutions",
           "restrictions/boolean.py::OrRestriction.iter_dnf_solutions",
           "restrictions/boolean.py::OrRestriction.dnf_solutions",
           "restrictions/boolean.py::JustOneRestriction",
           "restrictions/boolean.py::AtMostOneOfRestriction",
           "restrictions/boolean.py::base.cnf_solutions",
           "restrictions/boolean.py::base.dnf_solutions",
           "restrictions/boolean.py::base.iter_cnf_solutions",
           "restrictions/boolean.py::base.iter_dnf_solutions",
           "restrictions/restriction.py::Negate",
           "restrictions/restriction.py::AlwaysBool",
           "restrictions/packages.py::PackageRestriction.match",
           "restrictions/packages.py::PackageRestriction._pull_attr",
           "ebuild/atom.py::atom.iter_dnf_solutions",
           "ebuild/atom.py::atom.iter_cnf_solutions",
           "ebuild/atom.py::atom.cnf_solutions"]
KINDS = {"NotImplementedError": "NotImplementedError", "AssertionError": "AssertionError"}
KCOQ = {"and": "KAnd", "or": "KOr", "one": "KJustOne", "amo": "KAtMostOne", "atom": "KAtom"}
KCODE = {"and": 3, "or": 4, "one": 5, "amo": 6, "atom": 7}

# --------------------------------------------------------------------------- tree descriptions
# ('L', neg, id) | ('A', b) | ('N', t) | ('B', kind, neg, (children...))


def c_tree(t):
    if t[0] == "L":
        return f"Leaf {cbool(t[1])} {cN(t[2])}"
    if t[0] == "A":
        return f"Always {cbool(t[1])}"
    if t[0] == "N":
        return f"Neg ({c_tree(t[1])})"
    return f"Node {KCOQ[t[1]]} {cbool(t[2])} {clist(['(' + c_tree(c) + ')' for c in t[3]], 'restr')}"


def enc_tree(t):
    if t[0] == "L":
        return [0, bool(t[1]), int(t[2])]
    if t[0] == "A":
        return [1, bool(t[1])]
    if t[0] == "N":
        return [2, enc_tree(t[1])]
    return [KCODE[t[1]], bool(t[2]), [enc_tree(c) for c in t[3]]]


def to_tuple(x):
    return tuple(to_tuple(i) for i in x) if isinstance(x, (list, tuple)) else x


def depth(t):
    if t[0] in "LA":
        return 0
    if t[0] == "N":
        return depth(t[1])
    return 1 + max([depth(c) for c in t[3]], default=0)


def leaf_ids(t, acc=None):
    acc = set() if acc is None else acc
    if t[0] == "L":
        acc.add(t[2])
    elif t[0] == "N":
        leaf_ids(t[1], acc)
    elif t[0] == "B":
        for c in t[3]:
            leaf_ids(c, acc)
    return acc


def size(t):
    if t[0] in "LA":
        return 1
    if t[0] == "N":
        return 1 + size(t[1])
    return 1 + sum(size(c) for c in t[3])


def py_eval(t, truth):
    """textbook evaluation of a description (used only to double check masks in replay)"""
    if t[0] == "L":
        return truth(t[2]) != t[1]
    if t[0] == "A":
        return t[1]
    if t[0] == "N":
        return not py_eval(t[1], truth)
    vs = [py_eval(c, truth) for c in t[3]]
    k = t[1]
    r = {"and": all(vs), "atom": all(vs), "or": any(vs),
         "one": (not vs) or sum(vs) == 1, "amo": sum(vs) <= 1}[k]
    return r != t[2]


# ---- the known classes (same recursion as Spec_C06.dnf_class / cnf_class, with the reason)
def dnf_reasons(fse, t, acc=None):
    acc = set() if acc is None else acc
    if t[0] != "B":
        return acc
    k, n, cs = t[1], t[2], t[3]
    if k == "and" or (k == "atom" and fse):
        if n:
            if not cs:
                acc.add("negated-empty-all-of")
        else:
            for c in cs:
                dnf_reasons(fse, c, acc)
    elif k == "or" and not n:
        if not cs:
            acc.add("empty-any-of")
        for c in cs:
            dnf_reasons(fse, c, acc)
    return acc


def cnf_reasons(fse, t, acc=None):
    acc = set() if acc is None else acc
    if t[0] != "B":
        return acc
    k, n, cs = t[1], t[2], t[3]
    if k == "and" or (k == "atom" and fse):
        if not n:
            for c in cs:
                cnf_reasons(fse, c, acc)
    elif k == "or" and not n:
        if not cs:
            acc.add("empty-any-of")
        for c in cs:
            dnf_reasons(fse, c, acc)
    return acc


def in_empty_any_of(case):
    """known_findings predicate: the normal-form expansion reaches an OrRestriction without children"""
    return "empty-any-of" in (dnf_reasons(case["fse"], case["tree"]) | cnf_reasons(case["fse"], case["tree"]))


def in_negated_empty_all_of(case):
    """known_findings predicate: the dnf expansion reaches a negated AndRestriction without children"""
    return "negated-empty-all-of" in dnf_reasons(case["fse"], case["tree"])


# --------------------------------------------------------------------------- domains
class Unknown(Exception):
    pass


class Obj:
    """a package-like object with exactly the given attributes"""

    def __init__(self, **kw):
        self.__dict__.update(kw)

    def __repr__(self):
        return "Obj(%s)" % ", ".join(f"{k}={v!r}" for k, v in sorted(self.__dict__.items()))


class Domain:
    def __init__(self, name, node_type):
        from pkgcore.ebuild.atom import atom
        from pkgcore.restrictions import boolean as B
        from pkgcore.restrictions import restriction as R
        self.name, self.nt = name, node_type
        self.B, self.R, self.atom_cls = B, R, atom
        self.mk = []        # id -> constructor(neg) or None (fixed object)
        self.truth = []     # id -> function(universe object) -> bool
        self.objs = {}      # (id, neg) -> restriction object (kept alive)
        self.by_obj = {}    # id(obj) -> (id, neg)
        self.universe = []
        self.udesc = []
        self.atoms = []     # (atom object, description)
        self.masks = None
        self.free = []      # leaf ids the generator may use with either negate flag

    def add_leaf(self, mk, truth):
        self.mk.append(mk)
        self.truth.append(truth)
        self.free.append(len(self.mk) - 1)
        return len(self.mk) - 1

    def add_fixed(self, obj):
        k = self.by_obj.get(id(obj))
        if k is not None:
            return k[0]
        self.mk.append(None)
        self.truth.append(lambda u, o=obj: bool(o.match(u)))
        i = len(self.mk) - 1
        self.objs[(i, False)] = obj
        self.by_obj[id(obj)] = (i, False)
        return i

    def add_atom(self, s):
        a = self.atom_cls(s)
        cs = []
        for r in a.restrictions:
            if isinstance(r, self.B.base):
                cs.append(self.ser(r))
            else:
                cs.append(("L", False, self.add_fixed(r)))
        self.atoms.append((a, ("B", "atom", False, tuple(cs))))

    def leaf(self, i, neg):
        o = self.objs.get((i, neg))
        if o is None:
            o = self.mk[i](neg)
            self.objs[(i, neg)] = o
            self.by_obj[id(o)] = (i, neg)
        return o

    def finish(self):
        self.masks = [sum((1 << i) for i, f in enumerate(self.truth) if f(u)) for u in self.universe]

    # description -> real restriction object
    def build(self, t, top=True):
        B, R = self.B, self.R
        if t[0] == "L":
            return self.leaf(t[2], t[1])
        if t[0] == "A":
            return R.AlwaysBool(self.nt, t[1])
        if t[0] == "N":
            return R.Negate(self.build(t[1], top))
        k = t[1]
        if k == "atom":
            for a, d in self.atoms:
                if d == t:
                    return a
            raise Unknown(f"no such atom {t!r}")
        cls = {"and": B.AndRestriction, "or": B.OrRestriction, "one": B.JustOneRestriction,
               "amo": B.AtMostOneOfRestriction}[k]
        kids = [self.build(c, False) for c in t[3]]
        if kids and size(t) % 4 == 1:
            # the other construction path: unfinalised node + add_restriction (+ finalize, which
            # a node needs before it can become a child; a root may stay unfinalised)
            o = cls(kids[0], node_type=self.nt, negate=t[2], finalize=False, disable_inst_caching=True)
            if kids[1:]:
                o.add_restriction(*kids[1:])
            if not (top and size(t) % 8 == 1):
                o.finalize()
            return o
        return cls(*kids, node_type=self.nt, negate=t[2])

    # real restriction object (a literal of a clause list) -> description
    def ser(self, o):
        B, R = self.B, self.R
        k = self.by_obj.get(id(o))
        if k is not None:
            return ("L", k[1], k[0])
        ty = type(o)
        if ty is R.Negate:
            return ("N", self.ser(o._restrict))
        if ty is R.AlwaysBool:
            return ("A", bool(o.negate))
        kinds = {B.AndRestriction: "and", B.OrRestriction: "or", B.JustOneRestriction: "one",
                 B.AtMostOneOfRestriction: "amo"}
        if ty in kinds:
            return ("B", kinds[ty], bool(o.negate), tuple(self.ser(c) for c in o.restrictions))
        if isinstance(o, self.atom_cls):
            for a, d in self.atoms:
                if a is o or a == o:
                    return d
        raise Unknown(repr(o))


def make_syn():
    from pkgcore.restrictions import packages as P
    from pkgcore.restrictions import values as V
    d = Domain("syn", "package")
    specs = [("category", lambda: V.StrExactMatch("c"), "c", "other"),
             ("package", lambda: V.StrExactMatch("p"), "p", "q"),
             ("fullver", lambda: V.StrExactMatch("1"), "1", "2"),
             ("use", lambda: V.ContainmentMatch("x"), frozenset(("x", "w")), frozenset(("w",)))]
    for attr, vr, _, _ in specs:
        d.add_leaf(lambda neg, attr=attr, vr=vr: P.PackageRestriction(attr, vr(), negate=neg), None)
    for missing in (False, True):
        for m in range(16):
            kw = {}
            for i, (attr, _, yes, no) in enumerate(specs):
                if m >> i & 1:
                    kw[attr] = yes
                elif not missing:
                    kw[attr] = no
            d.universe.append(Obj(**kw))
            d.udesc.append(repr(d.universe[-1]))
    d.masks = [m for _ in (0, 1) for m in range(16)]   # by construction, independent of .match
    return d


_MISSING = object()


def make_pkg():
    from pkgcore.restrictions import packages as P
    from pkgcore.restrictions import values as V
    d = Domain("pkg", "package")

    def leaf(attr, vr, base):
        # value-level negate vn is part of the proposition; a missing attribute makes it false
        for vn in (False, True):
            d.add_leaf(lambda neg, vn=vn: P.PackageRestriction(attr, vr(vn), negate=neg),
                       lambda u, vn=vn: (lambda a: False if a is _MISSING else (base(a) != vn))(
                           getattr(u, attr, _MISSING)))

    leaf("category", lambda vn: V.StrExactMatch("dev-libs", negate=vn), lambda a: a == "dev-libs")
    leaf("package", lambda vn: V.StrExactMatch("foo", negate=vn), lambda a: a == "foo")
    leaf("package", lambda vn: V.StrGlobMatch("b", negate=vn), lambda a: a.startswith("b"))
    leaf("fullver", lambda vn: V.StrExactMatch("1.0", negate=vn), lambda a: a == "1.0")
    leaf("fullver", lambda vn: V.StrGlobMatch("2.", negate=vn), lambda a: a.startswith("2."))
    leaf("use", lambda vn: V.ContainmentMatch("x", negate=vn), lambda a: "x" in a)
    leaf("use", lambda vn: V.ContainmentMatch("y", negate=vn), lambda a: "y" in a)
    leaf("use", lambda vn: V.ContainmentMatch(("x", "y"), match_all=True, negate=vn),
         lambda a: "x" in a and "y" in a)
    leaf("slot", lambda vn: V.StrExactMatch("0", negate=vn), lambda a: a == "0")
    leaf("nosuch", lambda vn: V.StrExactMatch("z", negate=vn), lambda a: a == "z")
    for cat in ("dev-libs", "sys-apps"):
        for pn in ("foo", "bar"):
            for ver in ("1.0", "2.0-r1"):
                for use in ((), ("x",), ("x", "y")):
                    v, _, r = ver.partition("-r")
                    d.universe.append(Obj(category=cat, package=pn, fullver=ver, version=v,
                                          revision=int(r) if r else None, use=frozenset(use), slot="0",
                                          key=f"{cat}/{pn}", cpvstr=f"{cat}/{pn}-{ver}"))
                    d.udesc.append(f"{cat}/{pn}-{ver} use={use}")
    # partial objects: attributes are missing (version/revision are kept: the atoms' VersionMatch
    # reads them directly from the package, not through PackageRestriction._pull_attr)
    for o in (Obj(category="dev-libs", package="foo", fullver="1.0", version="1.0", revision=None),
              Obj(use=("x", "y"), fullver="2.0-r1", version="2.0", revision=1),
              Obj(version="1.0", revision=None)):
        d.universe.append(o)
        d.udesc.append(repr(o))
    for s in ("dev-libs/foo", "=dev-libs/foo-1.0", ">=sys-apps/bar-1.5[x,-y]", "sys-apps/foo:0"):
        d.add_atom(s)
    d.finish()
    return d


def make_val():
    from pkgcore.restrictions import values as V
    d = Domain("val", "values")
    d.add_leaf(lambda neg: V.StrExactMatch("dev-libs", negate=neg), lambda u: u == "dev-libs")
    d.add_leaf(lambda neg: V.StrGlobMatch("dev-", negate=neg), lambda u: u.startswith("dev-"))
    d.add_leaf(lambda neg: V.StrGlobMatch("libs", prefix=False, negate=neg), lambda u: u.endswith("libs"))
    d.add_leaf(lambda neg: V.StrRegex("^sys", negate=neg), lambda u: u.startswith("sys"))
    d.add_leaf(lambda neg: V.ContainmentMatch("-", negate=neg), lambda u: "-" in u)
    d.universe = ["dev-libs", "dev-lang", "sys-libs", "sys-apps", "app-misc", "virtual", "libs", ""]
    d.udesc = list(d.universe)
    d.finish()
    return d


# --------------------------------------------------------------------------- generators
def gen_tree(rng, dom, depth_left, root=False):
    if not root and (depth_left == 0 or rng.random() < 0.3):
        x = rng.random()
        if x < 0.06:
            return ("A", rng.random() < 0.5)
        if x < 0.14 and dom.atoms:
            return rng.choice(dom.atoms)[1]
        return ("L", rng.random() < 0.25, rng.choice(dom.free))
    if not root and rng.random() < 0.12:
        return ("N", gen_tree(rng, dom, depth_left, False))
    kind = rng.choices(["and", "or", "one", "amo"], [35, 35, 15, 15])[0]
    n = rng.choices([0, 1, 2, 3, 4], [5, 15, 40, 30, 10])[0]
    return ("B", kind, rng.random() < 0.3,
            tuple(gen_tree(rng, dom, depth_left - 1) for _ in range(n)))


LIMIT = 48


def dnf_shape(t, fse):
    """clause lengths of the DNF the code will build (None = more than LIMIT clauses)"""
    if t[0] != "B":
        return [1]
    k, n, cs = t[1], t[2], t[3]
    if k in ("one", "amo") or (k == "atom" and not fse):
        return [1]
    if k in ("and", "atom"):
        if n:
            return [1] * len(cs) if cs else [0]
        out = [0]
        for c in cs:
            sh = dnf_shape(c, fse)
            if sh is None or len(out) * len(sh) > LIMIT:
                return None
            out = [a + b for a in out for b in sh]
        return out
    if n:
        return [len(cs)]
    if not cs:
        return [0]
    out = []
    for c in cs:
        sh = dnf_shape(c, fse)
        if sh is None or len(out) + len(sh) > LIMIT:
            return None
        out += sh
    return out


def cnf_count(t, fse):
    """upper bound on the number of CNF clauses (None = too many)"""
    if t[0] != "B":
        return 1
    k, n, cs = t[1], t[2], t[3]
    if k in ("one", "amo") or (k == "atom" and not fse) or n:
        return 1
    if k in ("and", "atom"):
        tot = 0
        for c in cs:
            x = cnf_count(c, fse)
            if x is None:
                return None
            tot += x
        return tot if tot <= 4 * LIMIT else None
    tot = 1
    for c in cs:
        sh = dnf_shape(c, fse)
        if sh is None:
            return None
        for ln in sh:
            tot *= max(1, ln)
        if tot > 4 * LIMIT:
            return None
    return tot


def small_enough(t, fse):
    return size(t) <= 60 and dnf_shape(t, fse) is not None and cnf_count(t, fse) is not None


def gen_small(rng, dom, depth_left, root, fse):
    for _ in range(50):
        t = gen_tree(rng, dom, depth_left, root)
        if small_enough(t, fse) and small_enough(t, True):
            return t
    return gen_tree(rng, dom, 1, root)


def ctor_stream():
    from pkgcore.restrictions import boolean as B
    from pkgcore.restrictions import packages as P
    from pkgcore.restrictions import restriction as R
    from pkgcore.restrictions import values as V
    kid = {0: (lambda: P.PackageRestriction("category", V.StrExactMatch("c")), "(Some (Some 0%N))"),
           1: (lambda: V.StrExactMatch("c"), "(Some (Some 1%N))"),
           2: (lambda: R.AlwaysBool(None), "(Some (@None N))"),
           3: (lambda: 5, "(@None (option N))")}
    nts = [(None, "(@None N)"), ("package", "(Some 0%N)"), ("values", "(Some 1%N)")]
    clss = [B.AndRestriction, B.OrRestriction, B.JustOneRestriction, B.AtMostOneOfRestriction]
    out = []
    n = 0
    for nt, cnt in nts:
        for ln in range(3):
            for ks in itertools.product(range(4), repeat=ln):
                cts = clist([kid[k][1] for k in ks], "option (option N)")
                for mode in (0, 1, 2):
                    for bogus in ((False, True) if mode == 0 else (False,)):
                        cls = clss[n % 4]
                        n += 1

                        def go():
                            objs = [kid[k][0]() for k in ks]
                            if mode == 0:
                                kw = {"bogus": 1} if bogus else {}
                                cls(*objs, node_type=nt, **kw)
                            else:
                                o = cls(node_type=nt, finalize=(mode == 2))
                                o.add_restriction(*objs)
                            return True
                        out.append((cpair(cN(mode), cnt, cts, cbool(bogus)), impl_call(go)))
    return out


def enum_shapes():
    """all two-level trees: outer kind x negate x up to two children drawn from leaves a, b,
    negated leaf, Negate wrapper, constants and every inner node over [], [c], [c, d]"""
    a, b, c, dd = (("L", False, i) for i in range(4))
    inner = [("B", k, n, cs) for k in ("and", "or", "one", "amo") for n in (False, True)
             for cs in ((), (c,), (c, dd))]
    pool = [a, b, ("L", True, 0), ("N", b), ("A", True), ("A", False)] + inner
    out = []
    for k in ("and", "or", "one", "amo"):
        for n in (False, True):
            out.append(("B", k, n, ()))
            for x in pool:
                out.append(("B", k, n, (x,)))
            for x in pool:
                for y in pool:
                    out.append(("B", k, n, (x, y)))
    # three children / three levels for the counting nodes and the distribution loops
    for k in ("and", "or", "one", "amo"):
        for n in (False, True):
            out.append(("B", k, n, (a, b, c)))
            out.append(("B", k, n, (a, ("L", True, 1), c, dd)))
            out.append(("B", k, n, (("B", "or", False, (a, ("B", "and", False, (b, c)))),
                                    ("B", "or", False, (("B", "and", False, (a, dd)), ("B", "and", True, (b, c)))))))
            out.append(("B", k, n, (("B", "and", False, (("B", "or", False, (a, b)), ("B", "or", False, (c, dd)))),
                                    ("B", "or", True, (a, c)))))
    return out


# --------------------------------------------------------------------------- one case
class Case:
    __slots__ = ("dom", "tree", "fse", "obj", "match", "dnf", "cnf", "icnf", "raw_dnf", "raw_cnf", "oracle")

    def as_input(self):
        return {"domain": self.dom.name, "fse": self.fse, "tree": self.tree}


def ser_nf(dom, raw):
    if isinstance(raw, Err):
        return raw
    try:
        return [[dom.ser(l) for l in cl] for cl in raw]
    except Unknown as e:
        return Err("UnknownLiteral:" + str(e)[:60])
    except Exception as e:  # noqa: BLE001
        return Err("BadClauseList:" + type(e).__name__)


def run_case(dom, tree, fse):
    c = Case()
    c.dom, c.tree, c.fse = dom, tree, fse
    c.obj = dom.build(tree)
    c.match = impl_call(lambda: [bool(c.obj.match(u)) for u in dom.universe])
    c.dnf = c.cnf = c.icnf = c.raw_dnf = c.raw_cnf = None
    c.oracle = []
    if tree[0] == "B":
        c.raw_dnf = impl_call(lambda: [list(cl) for cl in c.obj.dnf_solutions(fse)], kinds=KINDS)
        c.raw_cnf = impl_call(lambda: [list(cl) for cl in c.obj.cnf_solutions(fse)], kinds=KINDS)
        raw_icnf = impl_call(lambda: [list(cl) for cl in c.obj.iter_cnf_solutions(fse)], kinds=KINDS)
        c.dnf, c.cnf, c.icnf = ser_nf(dom, c.raw_dnf), ser_nf(dom, c.raw_cnf), ser_nf(dom, raw_icnf)
        # direct oracle on the implementation: its clause lists, read with the literal objects'
        # own match, against its own match of the tree — for every universe object
        if not isinstance(c.match, Err):
            forms = [("dnf", c.raw_dnf), ("cnf", c.raw_cnf)]
            if c.icnf != c.cnf:
                forms.append(("icnf", raw_icnf))
            for form, raw in forms:
                if isinstance(raw, Err):
                    continue
                for ui, u in enumerate(dom.universe):
                    try:
                        if form == "dnf":
                            v = any(all(l.match(u) for l in cl) for cl in raw)
                        else:
                            v = all(any(l.match(u) for l in cl) for cl in raw)
                    except Exception:  # noqa: BLE001
                        continue
                    if bool(v) != c.match[ui]:
                        c.oracle.append((form, ui, bool(v), c.match[ui]))
                        break
    return c


def fails(dom, tree, fse, form):
    """does the direct oracle fail for this tree (used by the shrinker)"""
    if tree[0] != "B":
        return False
    try:
        c = run_case(dom, tree, fse)
    except Exception:  # noqa: BLE001
        return False
    return any(f == form for f, *_ in c.oracle)


def shrink(dom, tree, fse, form, keep):
    """greedy: descend into a failing subtree, drop children, hoist grandchildren"""
    changed = True
    while changed:
        changed = False
        if tree[0] != "B":
            break
        cands = [c for c in tree[3] if c[0] == "B"]
        cands += [c[1] for c in tree[3] if c[0] == "N" and c[1][0] == "B"]
        for i in range(len(tree[3])):
            cands.append(tree[:3] + (tree[3][:i] + tree[3][i + 1:],))
        for i, c in enumerate(tree[3]):
            if c[0] == "B":
                for g in c[3]:
                    cands.append(tree[:3] + (tree[3][:i] + (g,) + tree[3][i + 1:],))
                for j in range(len(c[3])):
                    c2 = c[:3] + (c[3][:j] + c[3][j + 1:],)
                    cands.append(tree[:3] + (tree[3][:i] + (c2,) + tree[3][i + 1:],))
        for cand in cands:
            if size(cand) < size(tree) and keep(cand) and fails(dom, cand, fse, form):
                tree = cand
                changed = True
                break
    return tree


def spread_masks(ids):
    ids = sorted(ids)
    out = []
    for m in range(1 << len(ids)):
        out.append(sum((1 << i) for b, i in enumerate(ids) if m >> b & 1))
    return out


def c_clauses(nf):
    if nf is None or isinstance(nf, Err):
        return "(@None (list clause))"
    return "(Some %s)" % clist([clist(["(" + c_tree(l) + ")" for l in cl], "restr") for cl in nf], "clause")


# --------------------------------------------------------------------------- Coq case terms
def subterms(t, out):
    out.append(t)
    if t[0] == "N":
        subterms(t[1], out)
    elif t[0] == "B":
        for ch in t[3]:
            subterms(ch, out)
    return out

def preamble(doms):
    return "\n".join(f"Definition U_{n} : list N := {clist([cN(m) for m in d.masks], 'N')}." for n, d in doms.items())


def case_term(c, cnf, rng):
    tbl = {}
    for i, st in enumerate(subterms(c.tree, [])):
        tbl.setdefault(st, i)
    nsub = len(subterms(c.tree, []))
    extra = []

    def code(l):
        if l in tbl:
            return 2 * tbl[l]
        if l[0] == "N" and l[1] in tbl:
            return 2 * tbl[l[1]] + 1
        tbl[l] = nsub + len(extra)
        extra.append(l)
        return 2 * tbl[l]

    def c_nf(x):
        if x is None:
            return "(@None nfc)"
        if isinstance(x, Err):
            return {"NotImplementedError": "(Some (inr ENotImpl : nfc))",
                    "AssertionError": "(Some (inr EAssert : nfc))"}.get(x.kind, "(@None nfc)")
        return "(Some (inl (%s)%%N : nfc))" % clist(
            [clist([str(code(l)) for l in cl], "N") for cl in x], "list N")

    ids = leaf_ids(c.tree)
    for nf in (c.dnf, cnf):
        if nf is not None and not isinstance(nf, Err):
            for cl in nf:
                for l in cl:
                    leaf_ids(l, ids)
    if c.tree[0] != "B":
        ms = cpair("(@nil N)", "(@nil N)")
    elif len(ids) <= 7:
        ms = cpair("(%s)%%N" % clist([str(i) for i in sorted(ids)], "N"), "(@nil N)")
    else:
        top = max(ids) + 1
        ms = cpair("(@nil N)", "(%s)%%N" % clist(
            [str(m) for m in sorted(set(c.dom.masks) | {rng.getrandbits(top) for _ in range(64)})], "N"))
    nfs = cpair(c_nf(c.dnf), c_nf(cnf))
    return cpair(cbool(c.fse), c_tree(c.tree), f"U_{c.dom.name}", ms,
                 clist(["(" + c_tree(l) + ")" for l in extra], "restr"), nfs)

def packed(m):
    return m if isinstance(m, Err) else sum(1 << i for i, b in enumerate(m) if b)


# --------------------------------------------------------------------------- main
def main(chk: Check):
    chk.rule("real restriction trees (And/Or/JustOne/AtMostOne with negate, Negate wrappers, AlwaysBool, "
             "atoms) in 3 domains: all two-level shapes over 4 independent leaves + random trees to depth 4; "
             "match evaluated on every universe object (syn: all 16 assignments, realised by value and by "
             "missing attribute), dnf/cnf/iter_cnf clause lists compared as sets of sets and evaluated under "
             "every assignment of the tree's leaves; non-trivial = depth >= 2 and >= 2 distinct leaves")
    import time
    tm = {}
    t0 = time.time()

    def lap(name):
        nonlocal t0
        tm[name] = round(time.time() - t0, 1)
        t0 = time.time()
    chk.cov["phase_seconds"] = tm
    ok = chk.build(["C06/Prop_C06.vo"])
    lap("build")
    if ok:
        chk.check_assumptions("C06/Prop_C06.v")
    chk.lint(["C06"])
    chk.check_fingerprint(ANCHORS)
    lap("assumptions+lint")
    rng = chk.rng
    doms = {"syn": make_syn(), "pkg": make_pkg(), "val": make_val()}

    # ---- the leaves themselves: harness truth vs the leaf objects' match (both negate flags)
    leaf_bad = []
    for dom in (doms["pkg"], doms["val"]):
        for i in dom.free:
            for neg in (False, True):
                o = dom.leaf(i, neg)
                got = impl_call(lambda: [bool(o.match(u)) for u in dom.universe])
                want = [dom.truth[i](u) != neg for u in dom.universe]
                chk.count("leaf", len(want))
                if got != want:
                    leaf_bad.append({"domain": dom.name, "leaf": i, "negate": neg, "got": got, "want": want})
    for b in leaf_bad[:2]:
        chk.violation("property", {"what": "a negated leaf restriction is not the complement of the plain one "
                                           "(or the harness's leaf semantics are off)", "input": b})

    # ---- malformed stream: construction glue (type mixing, unknown keywords, add_restriction)
    ctor_cases = ctor_stream()
    chk.count("ctor", len(ctor_cases))

    # ---- generate
    todo = []   # (domain, tree, fse)
    cdir = VERIF / "corpus" / "C06"
    if cdir.is_dir():
        for f in sorted(cdir.glob("*.json")):
            d = json.loads(f.read_text())
            todo.append((doms[d["domain"]], to_tuple(d["tree"]), bool(d["fse"])))
    shapes = enum_shapes()
    nshape = chk.n(900, len(shapes))
    if nshape < len(shapes):
        base = [s for s in shapes if len(s[3]) <= 1 or len(s[3]) >= 3]
        rest = [s for s in shapes if len(s[3]) == 2]
        shapes = base + rng.sample(rest, max(0, nshape - len(base)))
    todo += [(doms["syn"], s, False) for s in shapes]
    for name, nq, nt in (("pkg", 400, 3000), ("val", 150, 1000), ("syn", 200, 1500)):
        dom = doms[name]
        for _ in range(chk.n(nq, nt)):
            fse = bool(dom.atoms) and rng.random() < 0.3
            t = gen_small(rng, dom, rng.choice([1, 2, 2, 3, 3, 4]), rng.random() < 0.93, fse)
            todo.append((dom, t, fse))

    lap("generate")
    # ---- run the implementation
    cases, seen = [], set()
    for dom, t, fse in todo:
        key = (dom.name, t, fse)
        if key in seen:
            continue
        seen.add(key)
        c = run_case(dom, t, fse)
        cases.append(c)
        if depth(t) >= 2 and len(leaf_ids(t)) >= 2:
            chk.nontrivial(repr(key))
    hist = {}
    for c in cases:
        k = f"{c.dom.name}/depth{depth(c.tree)}"
        hist[k] = hist.get(k, 0) + 1
    chk.cov["distribution"] = dict(sorted(hist.items()))
    nfc = [c for c in cases if c.tree[0] == "B"]
    chk.cov["refusals"] = {"dnf": sum(isinstance(c.dnf, Err) for c in nfc),
                           "cnf": sum(isinstance(c.cnf, Err) for c in nfc)}
    for c in (nfc[1::max(1, len(nfc) // 5)])[:5]:
        chk.sample({"domain": c.dom.name, "fse": c.fse, "tree": c_tree(c.tree),
                    "match": c.match if isinstance(c.match, Err) else "".join("01"[b] for b in c.match),
                    "dnf": c.dnf if isinstance(c.dnf, Err) else [[c_tree(l) for l in cl] for cl in c.dnf],
                    "cnf": c.cnf if isinstance(c.cnf, Err) else [[c_tree(l) for l in cl] for cl in c.cnf]})

    lap("implementation")
    # ---- evaluate model and spec inside Coq: one stream, every check on a case in one pass
    pre = preamble(doms)

    rows = [(c, "all") for c in cases] + [(c, "icnf") for c in nfc if c.icnf != c.cnf]
    all_cases = [(case_term(c, c.cnf if tag == "all" else c.icnf, rng), packed(c.match)) for c, tag in rows]
    chk.count("match", sum(len(c.dom.universe) for c in cases))
    for nme, n in (("dnf", len(nfc)), ("cnf", len(nfc)), ("icnf", len(nfc)), ("spec", 2 * len(nfc))):
        chk.count(nme, n)
    chk.cov["icnf_differs_from_cnf"] = len(rows) - len(cases)

    a_bad = []          # (stream, case)
    spec_bad = []       # (form, case)
    class_drift = []
    ctor_bad = []
    import resource
    cpu0 = resource.getrusage(resource.RUSAGE_CHILDREN).ru_utime
    if ok:
        import concurrent.futures as cf
        SH = 300
        shards = [all_cases[i:i + SH] for i in range(0, len(all_cases), SH)]
        with cf.ThreadPoolExecutor(max_workers=10) as ex:
            fut = ex.submit(chk.coq_eval, "ctor", IMPORTS, "N * option N * list (option (option N)) * bool",
                            ctor_cases, ["mismatches run_ctor cases"])
            outs = list(ex.map(lambda ks: chk.coq_eval(f"all{ks[0]}", IMPORTS, "all_input", ks[1],
                                                       ["check_cases cases"], shard=10 ** 6, preamble=pre),
                               enumerate(shards)))
            rc = fut.result()
        if rc is not None:
            ctor_bad = [ctor_cases[i] for i in rc[0]]
        coq_dnf_cls, coq_cnf_cls = set(), set()
        for k, r in enumerate(outs):
            if r is None:
                continue
            for v in r[0]:
                i, code = k * SH + v // 8, v % 8
                c, tag = rows[i]
                if tag == "icnf":
                    if code == 3:
                        a_bad.append(("icnf", c))
                    continue
                if code == 0:
                    a_bad.append(("match", c))
                elif code == 1:
                    spec_bad.append(("match", c))
                elif code == 2:
                    a_bad.append(("dnf", c))
                elif code == 3:
                    a_bad.append(("cnf", c))
                elif code == 4:
                    coq_dnf_cls.add(id(c))
                elif code == 5:
                    coq_cnf_cls.add(id(c))
                elif code == 6:
                    spec_bad.append(("dnf", c))
                elif code == 7:
                    spec_bad.append(("cnf", c))
        if all(r is not None for r in outs):
            for c in nfc:
                if (bool(dnf_reasons(c.fse, c.tree)) != (id(c) in coq_dnf_cls)
                        or bool(cnf_reasons(c.fse, c.tree)) != (id(c) in coq_cnf_cls)):
                    class_drift.append(c)

    lap("coq")
    tm["coq_cpu"] = round(resource.getrusage(resource.RUSAGE_CHILDREN).ru_utime - cpu0, 1)
    # ---- property failures (B): classify
    failures = []       # (form, case, how)
    for c in nfc:
        for form in sorted({f for f, *_ in c.oracle}):
            failures.append((form, c, "oracle"))
    have = {(f, id(c)) for f, c, _ in failures}
    for form, c in spec_bad:
        if (form, id(c)) not in have:
            failures.append((form, c, "spec"))
    new, known_n = [], {}
    for form, c, how in failures:
        if form == "match":
            new.append((form, c, how))
            continue
        reasons = (dnf_reasons if form == "dnf" else cnf_reasons)(c.fse, c.tree)
        cls = sorted(reasons)[0] if reasons else None
        ex = {"form": form, **c.as_input(), "tree_coq": c_tree(c.tree),
              "clauses": [[c_tree(l) for l in cl] for cl in {"dnf": c.dnf, "cnf": c.cnf, "icnf": c.icnf}[form]],
              "found_by": how}
        if cls is not None and (cls not in chk.known_seen or size(c.tree) < known_n.get(cls, 10 ** 9)):
            chk.known_seen.pop(cls, None)
            if chk.known_finding(cls, ex):
                known_n[cls] = size(c.tree)
                continue
        elif cls is not None and chk.known_finding(cls, ex):
            continue
        new.append((form, c, how))
    chk.cov["failures"] = {"known": len(failures) - len(new), "new": len(new)}
    reported = 0
    new.sort(key=lambda x: size(x[1].tree))
    for form, c, how in new[:3]:
        tree = c.tree
        if how == "oracle" and form != "match":
            rs = dnf_reasons if form == "dnf" else cnf_reasons
            tree = shrink(c.dom, tree, c.fse, form, lambda t: not rs(c.fse, t))
        c2 = run_case(c.dom, tree, c.fse)
        wit = None
        for f, ui, v, m in c2.oracle:
            if f == form:
                wit = {"object": c.dom.udesc[ui], "clauses_say": v, "match_says": m}
        chk.violation("property",
                      {"what": ("the %s pkgcore derives is not equivalent to the tree" % form) if form != "match"
                       else "match is not the propositional formula of the tree",
                       "input": {"domain": c.dom.name, "fse": c.fse, "tree": tree, "tree_coq": c_tree(tree)},
                       "implementation": {"match": c2.match,
                                          form: None if form == "match" else
                                          {"dnf": c2.dnf, "cnf": c2.cnf, "icnf": c2.icnf}[form]},
                       "witness": wit, "found_by": how})
        reported += 1
    # ---- correspondence failures (A)
    for stream, c in a_bad[:3]:
        chk.violation("correspondence",
                      {"what": f"implementation and model disagree on stream '{stream}' "
                               "(theorems of Prop_C06 no longer speak about this code)",
                       "input": {"domain": c.dom.name, "fse": c.fse, "tree": c.tree, "tree_coq": c_tree(c.tree)},
                       "implementation": {"match": c.match, "dnf": c.dnf, "cnf": c.cnf, "icnf": c.icnf}},
                      no_input=not (reported or leaf_bad))
    for inp, res in ctor_bad[:2]:
        chk.violation("correspondence", {"what": "construction glue (node_type check / keywords / add_restriction) "
                                                 "differs from Model_C06.run_ctor", "input": inp, "implementation": res},
                      no_input=not (reported or leaf_bad))
    for c in class_drift[:2]:
        chk.violation("correspondence", {"what": "harness class predicate and Spec_C06 class predicate disagree",
                                         "input": c.as_input()}, no_input=True)


def replay(chk, data):
    inp = data.get("detail", {}).get("input") or data.get("input") or data
    if not inp or "tree" not in inp:
        print("no tree in this replay file")
        return
    doms = {"syn": make_syn, "pkg": make_pkg, "val": make_val}
    dom = doms[inp["domain"]]()
    tree = to_tuple(inp["tree"])
    c = run_case(dom, tree, bool(inp.get("fse")))
    print("tree          :", c_tree(tree))
    print("implementation: match =", c.match)
    for nme, nf in (("dnf", c.dnf), ("cnf", c.cnf)):
        print(f"implementation: {nme}   =", nf if nf is None or isinstance(nf, Err) else [[c_tree(l) for l in cl] for cl in nf])
    print("spec (textbook): match =", [py_eval(tree, lambda i, m=m: bool(m >> i & 1)) for m in dom.masks])
    print("oracle failures (form, universe object, clauses say, match says):",
          [(f, dom.udesc[ui], v, m) for f, ui, v, m in c.oracle])
    print("known-class reasons: dnf", sorted(dnf_reasons(c.fse, tree)), "cnf", sorted(cnf_reasons(c.fse, tree)))
    if chk.build(["C06/Prop_C06.vo"]):
        r = chk.coq_eval("replay", IMPORTS, "all_input", [(case_term(c, c.cnf, chk.rng), packed(c.match))],
                         ["check_cases cases"], preamble=preamble({dom.name: dom}))
        names = {0: "(A) match differs from the model", 1: "(B) match differs from prop_eval",
                 2: "(A) dnf differs from the model", 3: "(A) cnf differs from the model",
                 4: "tree is in dnf_class", 5: "tree is in cnf_class",
                 6: "(B) dnf does not denote the tree", 7: "(B) cnf does not denote the tree"}
        print("Coq (model + spec) on this case:", [names[v % 8] for v in r[0]] if r else "did not evaluate")
