From Coq Require Import List NArith ZArith Bool.
From Verif Require Import Base.Val C18.Fs C28.Model_C28 C28.Spec_C28.
Import ListNotations.
Definition cases : list ((bstr) * val) := [
  (""%bs,
   (VT "\9.\9.\9."%bs));
  ("\a.\a."%bs,
   (VT "\9.\9.\9."%bs));
  ("DIST a 1\a."%bs,
   (VT "a size 1\9.\9.\9."%bs));
  ("DIST a 1"%bs,
   (VT "a size 1\9.\9.\9."%bs));
  ("DIST a\a."%bs,
   (VErr (s2l "ParseChksumError"%bs)));
  ("DIST\a."%bs,
   (VErr (s2l "ParseChksumError"%bs)));
  ("FOO a 1\a."%bs,
   (VErr (s2l "ParseChksumError"%bs)));
  ("dist a 1\a."%bs,
   (VErr (s2l "ParseChksumError"%bs)));
  ("DIST a 1 MD5\a."%bs,
   (VErr (s2l "ParseChksumError"%bs)));
  ("DIST a 1 MD5 ff\a.DIST a 2 MD5 00\a."%bs,
   (VErr (s2l "ParseChksumError"%bs)));
  ("DIST a 1 MD5 ff\a.AUX a 2 MD5 00\a."%bs,
   (VT "a size 1 md5 ff\9.a size 2 md5 0\9.\9."%bs));
  ("DIST a x\a."%bs,
   (VErr (s2l "ParseChksumError"%bs)));
  ("DIST a 1 MD5 zz\a."%bs,
   (VErr (s2l "ParseChksumError"%bs)));
  ("DIST a +1 MD5 +f\a."%bs,
   (VT "a size 1 md5 f\9.\9.\9."%bs));
  ("DIST a -1 MD5 -f\a."%bs,
   (VT "a size -1 md5 -f\9.\9.\9."%bs));
  ("DIST a 1_0 MD5 f_f\a."%bs,
   (VT "a size a md5 ff\9.\9.\9."%bs));
  ("DIST a 1__0\a."%bs,
   (VErr (s2l "ParseChksumError"%bs)));
  ("DIST a _1\a."%bs,
   (VErr (s2l "ParseChksumError"%bs)));
  ("DIST a 1_\a."%bs,
   (VErr (s2l "ParseChksumError"%bs)));
  ("DIST a 1 MD5 0xff\a."%bs,
   (VT "a size 1 md5 ff\9.\9.\9."%bs));
  ("DIST a 1 MD5 0Xff\a."%bs,
   (VT "a size 1 md5 ff\9.\9.\9."%bs));
  ("DIST a 1 MD5 0x\a."%bs,
   (VErr (s2l "ParseChksumError"%bs)));
  ("DIST a 1 MD5 0x_f\a."%bs,
   (VT "a size 1 md5 f\9.\9.\9."%bs));
  ("DIST a 1 MD5 0x__f\a."%bs,
   (VErr (s2l "ParseChksumError"%bs)));
  ("DIST a 0x10\a."%bs,
   (VErr (s2l "ParseChksumError"%bs)));
  ("DIST a 1 SIZE 5 MD5 ff\a."%bs,
   (VT "a size 1 md5 ff\9.\9.\9."%bs));
  ("DIST a 1 size zz MD5 ff\a."%bs,
   (VT "a size 1 md5 ff\9.\9.\9."%bs));
  ("DIST a 1 MD5 ff md5 ee\a."%bs,
   (VT "a size 1 md5 ee\9.\9.\9."%bs));
  ("DIST a 1 MD5 ff SHA1 aa MD5 bb\a."%bs,
   (VT "a size 1 md5 bb sha1 aa\9.\9.\9."%bs));
  ("DIST a 1 Md5 FF\a."%bs,
   (VT "a size 1 md5 ff\9.\9.\9."%bs));
  ("DIST a 1 FOO ff\a."%bs,
   (VT "a size 1 foo ff\9.\9.\9."%bs));
  ("DIST a 1\d.\a.DIST b 2\d.\a."%bs,
   (VT "a size 1\a.b size 2\9.\9.\9."%bs));
  ("DIST a 1\d.DIST b 2\d."%bs,
   (VT "a size 1\a.b size 2\9.\9.\9."%bs));
  ("DIST a 1\c.DIST b 2\a."%bs,
   (VErr (s2l "ParseChksumError"%bs)));
  ("  DIST   a \9. 1  \a."%bs,
   (VT "a size 1\9.\9.\9."%bs));
  ("DIST a\a0.1\a."%bs,
   (VT "a size 1\9.\9.\9."%bs));
  ("DIST a\2003.1 \3000.\a."%bs,
   (VT "a size 1\9.\9.\9."%bs));
  ("DIST a 1\2028.DIST b 2\a."%bs,
   (VErr (s2l "ParseChksumError"%bs)));
  ("DIST a 1\1c.MD5\1d.ff\a."%bs,
   (VT "a size 1 md5 ff\9.\9.\9."%bs));
  ("DIST a 1\85.\a."%bs,
   (VT "a size 1\9.\9.\9."%bs));
  ("MISC m 1\a.EBUILD e 2\a.AUX x 3\a.DIST d 4\a."%bs,
   (VT "d size 4\9.x size 3\9.e size 2\9.m size 1"%bs));
  ("DIST \e9. 1\a."%bs,
   (VT "\e9. size 1\9.\9.\9."%bs));
  ("DIST a 007\a."%bs,
   (VT "a size 7\9.\9.\9."%bs));
  ("DIST a 1 MD5 00000000000000000000000000000005\a."%bs,
   (VT "a size 1 md5 5\9.\9.\9."%bs));
  ("DIST a 1 MD5 f f\a."%bs,
   (VErr (s2l "ParseChksumError"%bs)));
  ("DIST a 1 MD5\a.\a."%bs,
   (VErr (s2l "ParseChksumError"%bs)));
  ("-----BEGIN PGP SIGNED MESSAGE-----\a.Hash: SHA1\a.\a.DIST a 1\a."%bs,
   (VErr (s2l "ParseChksumError"%bs)));
  ("DIST size 1 SIZE 2\a."%bs,
   (VT "size size 1\9.\9.\9."%bs));
  ("DIST a 1 MD5 ff\a.DIST a 1 MD5 ff\a."%bs,
   (VErr (s2l "ParseChksumError"%bs)));
  ("DIST a 1 MD5 g\a."%bs,
   (VErr (s2l "ParseChksumError"%bs)));
  ("DIST a 1 MD5 -\a."%bs,
   (VErr (s2l "ParseChksumError"%bs)));
  ("DIST a - MD5 f\a."%bs,
   (VErr (s2l "ParseChksumError"%bs)));
  ("DIST a + \a."%bs,
   (VErr (s2l "ParseChksumError"%bs)));
  ("DIST a 1 0 1\a."%bs,
   (VT "a size 1 0 1\9.\9.\9."%bs));
  ("DIST 1 1\a."%bs,
   (VT "1 size 1\9.\9.\9."%bs));
  ("AUX AUX 1\a."%bs,
   (VT "\9.AUX size 1\9.\9."%bs));
  ("EBUILD a 1 MD5 ff\a.EBUILD b 1\a.EBUILD a 3\a."%bs,
   (VErr (s2l "ParseChksumError"%bs)));
  ("DIST a.tgz 32592 MD5 97ba22999b39f6169abc5c2806b1489d\a.DIST b.tgz 9 MD5 c0d0e849e3c3a7d75ec4966c6b5d973e\a.DIST pkg-1.tar.gz 77 MD5 00000000000000000000000000000001\a.DIST pkg-1.tar.gz.sig 385037 RMD160 087e4f80922e1597f66dbbe9d7bc1e3e7706a57f\a.EBUILD pkg-2.0.ebuild 9 SHA1 dfa5cdf2fd9caee50dc33e76a952ff22a5853bd9\a.MISC a.EBUILD 11 SHA1 43425c1c583e4ac915bf945e92d071505958e6f2\a.MISC \65e5.\672c..xml 3 SHA1 07c005dd1e942a0b9432f6b678bdd9c47dd74408\a."%bs,
   (VT "a.tgz size 7f50 md5 97ba22999b39f6169abc5c2806b1489d\a.b.tgz size 9 md5 c0d0e849e3c3a7d75ec4966c6b5d973e\a.pkg-1.tar.gz size 4d md5 1\a.pkg-1.tar.gz.sig size 5e00d rmd160 87e4f80922e1597f66dbbe9d7bc1e3e7706a57f\9.\9.pkg-2.0.ebuild size 9 sha1 dfa5cdf2fd9caee50dc33e76a952ff22a5853bd9\9.a.EBUILD size b sha1 43425c1c583e4ac915bf945e92d071505958e6f2\a.\65e5.\672c..xml size 3 sha1 7c005dd1e942a0b9432f6b678bdd9c47dd74408"%bs));
  ("DIST a.tgz 4931 SHA1 95e8f5f6638c92952a2c215ed150f19d2ec57ef7\a.DIST pkg-2.0.tar.xz 164442 RMD160 ebea8d2e84a8f2e90a21751515f15fbfeac89d60\a."%bs,
   (VT "a.tgz size 1343 sha1 95e8f5f6638c92952a2c215ed150f19d2ec57ef7\a.pkg-2.0.tar.xz size 2825a rmd160 ebea8d2e84a8f2e90a21751515f15fbfeac89d60\9.\9.\9."%bs));
  ("DIST \e9..tar 5905 RMD160 fe94bc3cbd999d1e626035e2325fed24070c01c0\a."%bs,
   (VT "\e9..tar size 1711 rmd160 fe94bc3cbd999d1e626035e2325fed24070c01c0\9.\9.\9."%bs));
  ("DIST Pkg-1.zip 617 RMD160 bea2badab6651cee5f3bff5ee2de4982ba691720\d.\a.DIST pkg-1.tar.gz.sig 7 MD5 0000000000000000000000000000000b\d.\a.EBUILD pkg-1.ebuild 3 RMD160 e3092d4bac2451458993d8dbc413eec7c32609c1\d.\a.EBUILD \e9.t\e9..ebuild 9 RMD160 bd48d61f954b14549952c8625b37e97a9065a1f1\d.\a.MISC metadata.xml 10 RMD160 c1d99e6d12d0a29521ae1dc8a02c0aa07cb68ce9\d.\a."%bs,
   (VT "Pkg-1.zip size 269 rmd160 bea2badab6651cee5f3bff5ee2de4982ba691720\a.pkg-1.tar.gz.sig size 7 md5 b\9.\9.pkg-1.ebuild size 3 rmd160 e3092d4bac2451458993d8dbc413eec7c32609c1\a.\e9.t\e9..ebuild size 9 rmd160 bd48d61f954b14549952c8625b37e97a9065a1f1\9.metadata.xml size a rmd160 c1d99e6d12d0a29521ae1dc8a02c0aa07cb68ce9"%bs));
  ("AUX init.d 0 SHA1 da39a3ee5e6b4b0d3255bfef95601890afd80709\a.AUX pkg-1.ebuild 6 SHA1 410b30c22423886f09b462bcbfd38bd800e650ff\a.DIST Pkg-1.zip 145604 RMD160 a4b2a06284dbebfaab5eadc24f47c1b12a7d8ab4\a.DIST z.tar 27690 MD5 0096ff1bc4d1b0a7791bcbb119a5d07b\a.DIST \e9..tar 40367 BLAKE2B 95baae8e152371dc4e4620f2beab601775e4cfedd7c0e8689fec439b96a8ff8df47384d275e3eebc0bac2107d384ae1e7f02ed3f405f572c0e58cd7512326ece SHA512 0000000000000000000000000000000000000000000000000000000000000000000000000000000000000000000000000000000000000000000000000000000c\a."%bs,
   (VT "Pkg-1.zip size 238c4 rmd160 a4b2a06284dbebfaab5eadc24f47c1b12a7d8ab4\a.z.tar size 6c2a md5 96ff1bc4d1b0a7791bcbb119a5d07b\a.\e9..tar size 9daf blake2b 95baae8e152371dc4e4620f2beab601775e4cfedd7c0e8689fec439b96a8ff8df47384d275e3eebc0bac2107d384ae1e7f02ed3f405f572c0e58cd7512326ece sha512 c\9.init.d size 0 sha1 da39a3ee5e6b4b0d3255bfef95601890afd80709\a.pkg-1.ebuild size 6 sha1 410b30c22423886f09b462bcbfd38bd800e650ff\9.\9."%bs));
  ("DIST Pkg-1.zip 17 MD5 e1f376f3faca007b50584c8dc6a8baae SHA3_256 ab3ece9488cdb0fef50767520d989bb3ed597e07082b722df4b93de8a32053e4\a.DIST a.tgz 192 SHA1 0063e9f39a6c31f6a86be8d9fe2319befbc62dc9\a."%bs,
   (VT "Pkg-1.zip size 11 md5 e1f376f3faca007b50584c8dc6a8baae sha3_256 ab3ece9488cdb0fef50767520d989bb3ed597e07082b722df4b93de8a32053e4\a.a.tgz size c0 sha1 63e9f39a6c31f6a86be8d9fe2319befbc62dc9\9.\9.\9."%bs));
  ("AUX A.patch 11 RMD160 349a1a86f2fd19bda6cc96087cbba2fca804e50e\a.AUX sub/deep/x 0 RMD160 9c1185a5c5e9fc54612808977ee8f548b2258d31\a.AUX \fc..diff 4 RMD160 23ac1ac4a377accc78593cf85425105e8368c548\a.DIST 0.tar 7755736 BLAKE2B f9e08cfc9a31aaef9e9f7225eb8c32e2ddb15efd7269a17b14bb2f7ff17026ab5d0b41e41ad7028fd848d0e3a15bc465fc8aa9df1679fc27dff8462451f986fc RMD160 d4df84c49701cf08777f21bc695afe0448239097\a.DIST _.tar 984862 RMD160 8b6b05c530d6c4183e511ada33077eedf86a2aed\a.MISC Zz 7 RMD160 29915a2cd80859fb68a276291aaaa999539a1218\a.MISC \65e5.\672c..xml 11 RMD160 9149edb0c6d6f684231fd7285bcd8a8d1e689c2c\a."%bs,
   (VT "0.tar size 7657d8 blake2b f9e08cfc9a31aaef9e9f7225eb8c32e2ddb15efd7269a17b14bb2f7ff17026ab5d0b41e41ad7028fd848d0e3a15bc465fc8aa9df1679fc27dff8462451f986fc rmd160 d4df84c49701cf08777f21bc695afe0448239097\a._.tar size f071e rmd160 8b6b05c530d6c4183e511ada33077eedf86a2aed\9.A.patch size b rmd160 349a1a86f2fd19bda6cc96087cbba2fca804e50e\a.sub/deep/x size 0 rmd160 9c1185a5c5e9fc54612808977ee8f548b2258d31\a.\fc..diff size 4 rmd160 23ac1ac4a377accc78593cf85425105e8368c548\9.\9.Zz size 7 rmd160 29915a2cd80859fb68a276291aaaa999539a1218\a.\65e5.\672c..xml size b rmd160 9149edb0c6d6f684231fd7285bcd8a8d1e689c2c"%bs));
  ("DIST _.tar 26 MD5 c864349a281c36aa602d98e192710aa2 SHA3_256 76a01789e024f764e544aac01bde64ac39e7fb7690bd58008b2c43898dc643ff87\a.DIST pkg-1.tar.gz 93 SHA1 0000000000000000000000000000000000000008\a.DIST pkg-1.tar.gz.sig 23168 MD5 c580f90e75d819a448e7357c2133b1ad SHA1 8f0bb485172681f02da1a3fbfd9166844bebc7f9\a.DIST z.tar 56784 MD5 fc41c3757574b05389fc602d9d95ab06\a."%bs,
   (VT "_.tar size 1a md5 c864349a281c36aa602d98e192710aa2 sha3_256 76a01789e024f764e544aac01bde64ac39e7fb7690bd58008b2c43898dc643ff87\a.pkg-1.tar.gz size 5d sha1 8\a.pkg-1.tar.gz.sig size 5a80 md5 c580f90e75d819a448e7357c2133b1ad sha1 8f0bb485172681f02da1a3fbfd9166844bebc7f9\a.z.tar size ddd0 md5 fc41c3757574b05389fc602d9d95ab06\9.\9.\9."%bs));
  ("DIST Pkg-1.zip 3 MD5 00a993d9d0688766854fbaae46d0e1f5\a.DIST pkg-2.0.tar.xz 2 RMD160 a63ceccccf1681b1c0315e1cf8ed35b6cdd7a3cc\a."%bs,
   (VT "Pkg-1.zip size 3 md5 a993d9d0688766854fbaae46d0e1f5\a.pkg-2.0.tar.xz size 2 rmd160 a63ceccccf1681b1c0315e1cf8ed35b6cdd7a3cc\9.\9.\9."%bs));
  ("AUX b 4 MD5 1c3526f50b343aea1e0384d83bb3ab9f\a.DIST _.tar 52011 RMD160 2cb842b69a6daef72647c9fbc37c558713aebf31a3\a.DIST pkg-1.tar.gz.sig 9\a."%bs,
   (VT "_.tar size cb2b rmd160 2cb842b69a6daef72647c9fbc37c558713aebf31a3\a.pkg-1.tar.gz.sig size 9\9.b size 4 md5 1c3526f50b343aea1e0384d83bb3ab9f\9.\9."%bs));
  ("AUX a.patch 5 RMD160 27a8a4fc802effbab4a09d37290b0c2283f589c3\a.AUX sub/deep/x 9 RMD160 29751086b79494bb2662b76cfc10490a2c55a861\a.AUX z 9 RMD160 fbbb7e74cd38e8afc7c29cfa89d3ae84425e20ce\a.DIST b.tgz 23105 RMD160 811ba9a185593446745897799afda1ab87f302c6\a.DIST pkg-2.0.tar.xz 560669 SHA1 89480d38b8d97991ea54e5ff9de7ce9deea852fe\a.DIST \e9..tar 66100 SHA1 d4c349a004f6495b7296518adcd875b4cf0d51a1\a."%bs,
   (VT "b.tgz size 5a41 rmd160 811ba9a185593446745897799afda1ab87f302c6\a.pkg-2.0.tar.xz size 88e1d sha1 89480d38b8d97991ea54e5ff9de7ce9deea852fe\a.\e9..tar size 10234 sha1 d4c349a004f6495b7296518adcd875b4cf0d51a1\9.a.patch size 5 rmd160 27a8a4fc802effbab4a09d37290b0c2283f589c3\a.sub/deep/x size 9 rmd160 29751086b79494bb2662b76cfc10490a2c55a861\a.z size 9 rmd160 fbbb7e74cd38e8afc7c29cfa89d3ae84425e20ce\9.\9."%bs));
  ("DIST _.tar 47875 MD5 00000000000000000000000000000000\a.DIST a.tgz 95786 SHA3_512 0000000000000000000000000000000000000000000000000000000000000000000000000000000000000000000000000000000000000000000000000000000d\a.DIST b.tgz 676732 MD5 00000000000000000000000000000003\a.DIST pkg-1.tar.gz.sig 54558 MD5 cde58a201898c4c3407133918384b6c4\a.EBUILD pkg-2.0.ebuild 1 MD5 01abfc750a0c942167651c40d088531d\a.EBUILD \e9.t\e9..ebuild 4 MD5 683dcbc167745a402a828953baec4c88\a.MISC ChangeLog 7 MD5 475a5e233ba5d57ab9f7aee2e8342451\a."%bs,
   (VT "_.tar size bb03 md5 0\a.a.tgz size 1762a sha3_512 d\a.b.tgz size a537c md5 3\a.pkg-1.tar.gz.sig size d51e md5 cde58a201898c4c3407133918384b6c4\9.\9.pkg-2.0.ebuild size 1 md5 1abfc750a0c942167651c40d088531d\a.\e9.t\e9..ebuild size 4 md5 683dcbc167745a402a828953baec4c88\9.ChangeLog size 7 md5 475a5e233ba5d57ab9f7aee2e8342451"%bs));
  ("DIST 0.tar 4 MD5 00000000000000000000000000000002\a.DIST Pkg-1.zip 719974 SHA1 9172cd62f4bf887df06ef63c7ee5bfeda79457c2\a.EBUILD pkg-1.0-r1.ebuild 2 SHA512 f8aca02e28996a586f535eed5de9f4533b8b2910762f524459f6fae6fb3f8f7540db5f2c809c1c07167a95b33f6f3f85589af99182e2d2bf93f964de169dd4c0\a."%bs,
   (VT "0.tar size 4 md5 2\a.Pkg-1.zip size afc66 sha1 9172cd62f4bf887df06ef63c7ee5bfeda79457c2\9.\9.pkg-1.0-r1.ebuild size 2 sha512 f8aca02e28996a586f535eed5de9f4533b8b2910762f524459f6fae6fb3f8f7540db5f2c809c1c07167a95b33f6f3f85589af99182e2d2bf93f964de169dd4c0\9."%bs));
  ("AUX init.d 7 MD5 b685bbe4bf43288de7194a64f6e6bd99\a.DIST a.tgz 148 BLAKE2S 0c0bf6ee9e9e6b06dba07e8470b49c98307ef1d89fbba529b0fb52eef15b0f03 MD5 d8c3b0a6d1a599bab479153c5c1e4903\a.DIST pkg-1.tar.gz 5198 RMD160 03afffadde070540175f4026e89a67e82f185ab4\a.EBUILD .ebuild 2 MD5 e1c06d85ae7b8b032bef47e42e4c08f9\a.EBUILD pkg-2.0.ebuild 2 MD5 9bf5231767340fd1cf18bd162ea1787f\a.MISC metadata.xml 9 MD5 7644f47896fc86aaaa551de1403d4a44\a."%bs,
   (VT "a.tgz size 94 blake2s c0bf6ee9e9e6b06dba07e8470b49c98307ef1d89fbba529b0fb52eef15b0f03 md5 d8c3b0a6d1a599bab479153c5c1e4903\a.pkg-1.tar.gz size 144e rmd160 3afffadde070540175f4026e89a67e82f185ab4\9.init.d size 7 md5 b685bbe4bf43288de7194a64f6e6bd99\9..ebuild size 2 md5 e1c06d85ae7b8b032bef47e42e4c08f9\a.pkg-2.0.ebuild size 2 md5 9bf5231767340fd1cf18bd162ea1787f\9.metadata.xml size 9 md5 7644f47896fc86aaaa551de1403d4a44"%bs));
  ("DIST z.tar 83 RMD160 db6edd4984cf5dc9475e9d5f1364b90c78977dd1\a."%bs,
   (VT "z.tar size 53 rmd160 db6edd4984cf5dc9475e9d5f1364b90c78977dd1\9.\9.\9."%bs));
  ("DIST b.tgz 793 SHA1 e504cfdf0f3283365d48cdcb110132f11341e906\a.DIST pkg-2.0.tar.xz 6081 SHA1 0000000000000000000000000000000000000000\a."%bs,
   (VT "b.tgz size 319 sha1 e504cfdf0f3283365d48cdcb110132f11341e906\a.pkg-2.0.tar.xz size 17c1 sha1 0\9.\9.\9."%bs));
  ("DIST 0.tar 63 SHA1 c656d0c09893e6451d07dea7d784d4024fdd120e\a.DIST a.tgz 2932774 MD5 e2ad84e406bb96197a842d99483e6ebc\a.EBUILD \e9.t\e9..ebuild 6 RMD160 2f09fd5ebf45b6859e1bb36f204ecd51e78e2576\a.MISC Zz 7 RMD160 f19a47d68d822b878083d3935cb94e694f75fc73\a.MISC ebuild 5 RMD160 5ccd9a2cdca026005388a965fe7cc099177583fe\a."%bs,
   (VT "0.tar size 3f sha1 c656d0c09893e6451d07dea7d784d4024fdd120e\a.a.tgz size 2cc026 md5 e2ad84e406bb96197a842d99483e6ebc\9.\9.\e9.t\e9..ebuild size 6 rmd160 2f09fd5ebf45b6859e1bb36f204ecd51e78e2576\9.Zz size 7 rmd160 f19a47d68d822b878083d3935cb94e694f75fc73\a.ebuild size 5 rmd160 5ccd9a2cdca026005388a965fe7cc099177583fe"%bs));
  ("AUX a 10 MD5 b98d7beb08e05b55180fbe60b5324a61\a.AUX b.patch 8 MD5 e6b2fc2bf88271b70ee74b325aa3093f\a.AUX z 5 MD5 e1f91b0dac3e7efc390d4eb03465290c\a.DIST pkg-1.tar.gz.sig 2461614 BLAKE2B 9285850dd7b1f5700803712517353532ed497ad3f7a9b6e9a1f3b0e8cbc84592271c35cbf5812a5a45aadc3af86ca6d1ed58920925969eb8bb368b018184d8e1 SHA512 a633e6f012ba74069dbcdcac66fa1b94bf8064c5c3f14ae0d58ba57a70b6385110b7cecf8f96a36929e657416ea205f6725968543927c142a8c5e61d3d0d894c\a.EBUILD .ebuild 3 MD5 980458a9ecddfc0551521dd48c5a8100\a.EBUILD \e9.t\e9..ebuild 8 MD5 2dd61557000945e2670d4f894545946f\a.MISC ebuild 5 MD5 84d6078a4086a9939ed04af260d3f274\a."%bs,
   (VT "pkg-1.tar.gz.sig size 258fae blake2b 9285850dd7b1f5700803712517353532ed497ad3f7a9b6e9a1f3b0e8cbc84592271c35cbf5812a5a45aadc3af86ca6d1ed58920925969eb8bb368b018184d8e1 sha512 a633e6f012ba74069dbcdcac66fa1b94bf8064c5c3f14ae0d58ba57a70b6385110b7cecf8f96a36929e657416ea205f6725968543927c142a8c5e61d3d0d894c\9.a size a md5 b98d7beb08e05b55180fbe60b5324a61\a.b.patch size 8 md5 e6b2fc2bf88271b70ee74b325aa3093f\a.z size 5 md5 e1f91b0dac3e7efc390d4eb03465290c\9..ebuild size 3 md5 980458a9ecddfc0551521dd48c5a8100\a.\e9.t\e9..ebuild size 8 md5 2dd61557000945e2670d4f894545946f\9.ebuild size 5 md5 84d6078a4086a9939ed04af260d3f274"%bs));
  ("DIST b.tgz 43251 MD5 91ba9f186111b1790d41802e51d80daf\a.DIST z.tar 625 MD5 0000000000000000000000000000000d\a."%bs,
   (VT "b.tgz size a8f3 md5 91ba9f186111b1790d41802e51d80daf\a.z.tar size 271 md5 d\9.\9.\9."%bs));
  ("DIST 0.tar 856060 RMD160 cb5975f55e77e22a04889fd2383e80d434d43c16\a.DIST a.tgz 6336 SHA1 a346ffabc252f9135dc29bceec37eb7581b1c4db\a."%bs,
   (VT "0.tar size d0ffc rmd160 cb5975f55e77e22a04889fd2383e80d434d43c16\a.a.tgz size 18c0 sha1 a346ffabc252f9135dc29bceec37eb7581b1c4db\9.\9.\9."%bs));
  ("DIST pkg-1.tar.gz 108750 SHA1 270aff69ac6cd5ec39610fa1d343ec340c5958ec\a.DIST pkg-1.tar.gz.sig 764638 SHA1 00e2688b4d01d1142c88e5fb19a224a2f1fd10d8\a.DIST pkg-2.0.tar.xz 8306 SHA1 0109a1d39cb1795b6a67f84221b0305a8522700d\a.EBUILD .ebuild 10 MD5 c5a432713c8b3fa88b51d0af0d904de4\a.EBUILD pkg-2.0.ebuild 4 MD5 cf5f94b36d6345d94dcedae0b57df6c5\a."%bs,
   (VT "pkg-1.tar.gz size 1a8ce sha1 270aff69ac6cd5ec39610fa1d343ec340c5958ec\a.pkg-1.tar.gz.sig size baade sha1 e2688b4d01d1142c88e5fb19a224a2f1fd10d8\a.pkg-2.0.tar.xz size 2072 sha1 109a1d39cb1795b6a67f84221b0305a8522700d\9.\9..ebuild size a md5 c5a432713c8b3fa88b51d0af0d904de4\a.pkg-2.0.ebuild size 4 md5 cf5f94b36d6345d94dcedae0b57df6c5\9."%bs));
  ("\a.\a.DIST pkg-1.tar.gz.sig 2461614 BLAKE2B 9285850dd7b1f5700803712517353532ed497ad3f7a9b6e9a1f3b0e8cbc84592271c35cbf5812a5a45aadc3af86ca6d1ed58920925969eb8bb368b018184d8e1 SHA512 a633e6f012ba74069dbcdcac66fa1b94bf8064c5c3f14ae0d58ba57a70b6385110b7cecf8f96a36929e657416ea205f6725968543927c142a8c5e61d3d0d894c"%bs,
   (VT "pkg-1.tar.gz.sig size 258fae blake2b 9285850dd7b1f5700803712517353532ed497ad3f7a9b6e9a1f3b0e8cbc84592271c35cbf5812a5a45aadc3af86ca6d1ed58920925969eb8bb368b018184d8e1 sha512 a633e6f012ba74069dbcdcac66fa1b94bf8064c5c3f14ae0d58ba57a70b6385110b7cecf8f96a36929e657416ea205f6725968543927c142a8c5e61d3d0d894c\9.\9.\9."%bs));
  ("\e9..tar 5905 RMD160 fe94bc3cbd999d1e626035e2325fed24070c01c0\a."%bs,
   (VErr (s2l "ParseChksumError"%bs)));
  ("DIST Pkg-1.zip 617 RMD160 bea2badab6651cee5f3bff5ee2de4982ba691720\d.\a.DIST pkg-1.tar.gz.sig 7 MD5 MD5 0000000000000000000000000000000b\d.\a.EBUILD pkg-1.ebuild 3 RMD160 e3092d4bac2451458993d8dbc413eec7c32609c1\d.\a.EBUILD \e9.t\e9..ebuild 9 RMD160 bd48d61f954b14549952c8625b37e97a9065a1f1\d.\a.MISC metadata.xml 10 RMD160 c1d99e6d12d0a29521ae1dc8a02c0aa07cb68ce9\d.\a."%bs,
   (VErr (s2l "ParseChksumError"%bs)));
  ("DIST a 1\1c.MD5\1d.ff\a.dist"%bs,
   (VErr (s2l "ParseChksumError"%bs)));
  ("DIST pkg-2.0.tar.xz 8306 SHA1 0109a1d39cb1795b6a67f84221b0305a8522700d\a.EBUILD .ebuild 10 MD5 c5a432713c8b3fa88b51d0af0d904de4\a.pkg-1.tar.gz.sig 764638 SHA1 00e2688b4d01d1142c88e5fb19a224a2f1fd10d8\a.\a.EBUILD pkg-2.0.ebuild 4 MD5 cf5f94b36d6345d94dcedae0b57df6c5\a.DIST pkg-1.tar.gz 108750 SHA1 270aff69ac6cd5ec39610fa1d343ec340c5958ec"%bs,
   (VErr (s2l "ParseChksumError"%bs)));
  ("DIST Pkg-1.zip 617 RMD160 bea2badab6651cee5f3bff5ee2de4982ba691720\d.\a.DIST pkg-1.tar.gz.sig 7 MD5 0000000000000000000000000000000b\d. 1\a.EBUILD pkg-1.ebuild 3 RMD160 e3092d4bac2451458993d8dbc413eec7c32609c1\d.\a.EBUILD \e9.t\e9..ebuild 9 RMD160 bd48d61f954b14549952c8625b37e97a9065a1f1\d.\a.MISC metadata.xml 10 RMD160 c1d99e6d12d0a29521ae1dc8a02c0aa07cb68ce9\d.\a."%bs,
   (VErr (s2l "ParseChksumError"%bs)));
  ("DIST 0.tar 63 SHA1 c656d0c09893e6451d07dea7d784d4024fdd120e\a.DIST a.tgz 2932774 MD5 e2ad84e406bb96197a842d99483e6ebc\a.EBUILD \e9.t\e9..ebuild 6 RMD160 2f09fd5ebf45b6859e1bb36f204ecd51e78e2576\a.MISC Zz 7 RMD160 f19a47d68d822b878083d3935cb94e694f75fc73\a.MISC ebuild 5 5ccd9a2cdca026005388a965fe7cc099177583fe\a."%bs,
   (VErr (s2l "ParseChksumError"%bs)));
  ("DIST a -1 MD5 -f\a. SIZE"%bs,
   (VErr (s2l "ParseChksumError"%bs)));
  ("AUX init.d 0 SHA1 da39a3ee5e6b4b0d3255bfef95601890afd80709\a.DIST \e9..tar 40367 BLAKE2B 95baae8e152371dc4e4620f2beab601775e4cfedd7c0e8689fec439b96a8ff8df47384d275e3eebc0bac2107d384ae1e7f02ed3f405f572c0e58cd7512326ece SHA512 0000000000000000000000000000000000000000000000000000000000000000000000000000000000000000000000000000000000000000000000000000000c\a.FOO"%bs,
   (VErr (s2l "ParseChksumError"%bs)));
  ("AUX a.patch 5 RMD160 27a8a4fc802effbab4a09d37290b0c2283f589c3\a.AUX z 9 RMD160 fbbb7e74cd38e8afc7c29cfa89d3ae84425e20ce\a.\a.DIST \e9..tar 66100 SHA1 d4c349a004f6495b7296518adcd875b4cf0d51a1\a.DIST b.tgz 23105 RMD160 811ba9a185593446745897799afda1ab87f302c6\a.AUX sub/deep/x 9 RMD160 29751086b79494bb2662b76cfc10490a2c55a861\a.DIST pkg-2.0.tar.xz 560669 SHA1 89480d38b8d97991ea54e5ff9de7ce9deea852fe"%bs,
   (VT "\e9..tar size 10234 sha1 d4c349a004f6495b7296518adcd875b4cf0d51a1\a.b.tgz size 5a41 rmd160 811ba9a185593446745897799afda1ab87f302c6\a.pkg-2.0.tar.xz size 88e1d sha1 89480d38b8d97991ea54e5ff9de7ce9deea852fe\9.a.patch size 5 rmd160 27a8a4fc802effbab4a09d37290b0c2283f589c3\a.z size 9 rmd160 fbbb7e74cd38e8afc7c29cfa89d3ae84425e20ce\a.sub/deep/x size 9 rmd160 29751086b79494bb2662b76cfc10490a2c55a861\9.\9."%bs));
  ("DIST size 1 SIZE 2\a.1 "%bs,
   (VErr (s2l "ParseChksumError"%bs)));
  ("DIST Pkg-1.zip 617 RMD160 bea2badab6651cee5f3bff5ee2de4982ba691720\d.\a.DIST pkg-1.tar.gz.sig 7 MD5 0000000000000000000000000000000b\d.\a.EBUILD pkg-1.ebuild 3 RMD160 e3092d4bac2451458993d8dbc413eec7c32609c1\d.\a.EBUILD \e9.t\e9..ebuild 9 RMD160 bd48d61f954b14549952c8625b37e97a9065a1f1\d.\a.MISC metadata.xml 10 RMD160 c1d99e6d12d0a29521ae1dc8a02c0aa07cb68ce9\d.\a.DIST pkg-1.tar.gz.sig 7 MD5 0000000000000000000000000000000b\d.\a."%bs,
   (VErr (s2l "ParseChksumError"%bs)));
  ("DIST a 1\a.\a."%bs,
   (VT "a size 1\9.\9.\9."%bs));
  ("AUX  A.patch 11 RMD160 349a1a86f2fd19bda6cc96087cbba2fca804e50e\a.DIST _.tar 984862 RMD160 8b6b05c530d6c4183e511ada33077eedf86a2aed\a."%bs,
   (VT "_.tar size f071e rmd160 8b6b05c530d6c4183e511ada33077eedf86a2aed\9.A.patch size b rmd160 349a1a86f2fd19bda6cc96087cbba2fca804e50e\9.\9."%bs));
  ("DIST pkg-1.tar.gz.sig 764638 SHA1 00e2688b4d01d11\a.DIST pkg-1.tar.gz 108750 SHA1 270aff69ac6cd5ec39610fa1d343ec340c5958ec"%bs,
   (VT "pkg-1.tar.gz.sig size baade sha1 e2688b4d01d11\a.pkg-1.tar.gz size 1a8ce sha1 270aff69ac6cd5ec39610fa1d343ec340c5958ec\9.\9.\9."%bs));
  ("DIST a 0x10\a.DIST a 0x10\a."%bs,
   (VErr (s2l "ParseChksumError"%bs)));
  ("DIST 0.tar 856060 RMD160 +cb5975f55e77e22a04889fd2383e80d434d43c16\a.DIST a.tgz 6336 SHA1 a346ffabc252f9135dc29bceec37eb7581b1c4db\a.-3 "%bs,
   (VErr (s2l "ParseChksumError"%bs)));
  ("DIST Pkg-1.zip 3 MD5 00a993d9d0688766854fbaae46d0e1f5\d.\a.DIST pkg-2.0.tar.xz 2 RMD160 a63ceccccf1681b1c0315e1cf8ed35b6cdd7a3cc\d.\a."%bs,
   (VT "Pkg-1.zip size 3 md5 a993d9d0688766854fbaae46d0e1f5\a.pkg-2.0.tar.xz size 2 rmd160 a63ceccccf1681b1c0315e1cf8ed35b6cdd7a3cc\9.\9.\9."%bs));
  ("DIST z.tar 83 RMD160 db6edd4984cf5dc9475e9d5f1364b90c78977dd1\a.EBUILD"%bs,
   (VErr (s2l "ParseChksumError"%bs)));
  ("DIST pkg-1.tar.gz 108750 SHA1 270aff69ac6cd5ec39610fa1d343ec340c5958ec\d.\a.DIST pkg-1.tar.gz.sig 764638 SHA1 00e2688b4d01d1142c88e5fb19a224a2f1fd10d8\d.\a.DIST pkg-2.0.tar.xz 8306 SHA1 0109a1d39cb1795b6a67f84221b0305a8522700d\d.\a.EBUILD .ebuild 10 MD5 c5a432713c8b3fa88b51d0af0d904de4\d.\a.EBUILD pkg-2.0.ebuild 4 MD5 cf5f94b36d6345d94dcedae0b57df6c5\d.\a."%bs,
   (VT "pkg-1.tar.gz size 1a8ce sha1 270aff69ac6cd5ec39610fa1d343ec340c5958ec\a.pkg-1.tar.gz.sig size baade sha1 e2688b4d01d1142c88e5fb19a224a2f1fd10d8\a.pkg-2.0.tar.xz size 2072 sha1 109a1d39cb1795b6a67f84221b0305a8522700d\9.\9..ebuild size a md5 c5a432713c8b3fa88b51d0af0d904de4\a.pkg-2.0.ebuild size 4 md5 cf5f94b36d6345d94dcedae0b57df6c5\9."%bs));
  ("DIST a.tgz 4931 SHA1 95e8f5f6638c92952a2c215ed150f19d2ec57ef7\a.DIST pkg-2.0.tar.xz 164442 SIZE RMD160 ebea8d2e84a8f2e90a21751515f15fbfeac89d60\a."%bs,
   (VErr (s2l "ParseChksumError"%bs)));
  ("DIST _.tar 26 MD5 c864349a281c36aa602d98e192710aa2 SHA3_256 76a01789e024f764e544aac01bde64ac39e7fb7690bd58008b2c43898dc643ff87\2028.DIST pkg-1.tar.gz 93 SHA1 0000000000000000000000000000000000000008\2028.DIST pkg-1.tar.gz.sig 23168 MD5 c580f90e75d819a448e7357c2133b1ad SHA1 8f0bb485172681f02da1a3fbfd9166844bebc7f9\2028.DIST z.tar 56784 MD5 fc41c3757574b05389fc602d9d95ab06\2028."%bs,
   (VErr (s2l "ParseChksumError"%bs)));
  ("AUX a.patch 5 RMD160 27a8a4fc802effbab4a09d37290b0c2283f589c3\a.AUX sub/deep/x 9 RMD160 29751086b79494bb2662b76cfc10490a2c55a861\a.AUX z 9 RMD160 fbbb7e74cd38e8afc7c29cfa89d3ae84425e20ce\a.DIST b.tgz 23105 RMD160 811ba9a185593446745897799afda1ab87f302c6\a.DIST 560669 SHA1 89480d38b8d97991ea54e5ff9de7ce9deea852fe\a.DIST \e9..tar 66100 SHA1 d4c349a004f6495b7296518adcd875b4cf0d51a1\a."%bs,
   (VErr (s2l "ParseChksumError"%bs)));
  ("MISC a.EBUILD 11 SHA1 43425c1c583e4ac915bf945e92d071505958e6f2 \a.DIST pkg-1.tar.gz 77 MD5 00000000000000000000000000000001 \a."%bs,
   (VT "pkg-1.tar.gz size 4d md5 1\9.\9.\9.a.EBUILD size b sha1 43425c1c583e4ac915bf945e92d071505958e6f2"%bs));
  ("AUX  pkg-1.ebuild 6 SHA1 410b30c22423886f09b462bcbfd38bd800e650ff\a.\a."%bs,
   (VT "\9.pkg-1.ebuild size 6 sha1 410b30c22423886f09b462bcbfd38bd800e650ff\9.\9."%bs));
  ("DIST \e9..tar 5905 RMD160 fe94bc3cbd999d1e626035e2325fed24070c01c0\a.SIZE "%bs,
   (VErr (s2l "ParseChksumError"%bs)));
  ("\a.AUX AUX 1\a."%bs,
   (VT "\9.AUX size 1\9.\9."%bs));
  ("DIST a SIZE 1"%bs,
   (VErr (s2l "ParseChksumError"%bs)));
  ("DIST a.tgz 4931 SHA1 95e8f5f6638c92952a2c215ed150f19d2ec57ef7\a.DIST pkg-2.0.tar.xz 164442 RMD160 ebea8 1"%bs,
   (VErr (s2l "ParseChksumError"%bs)));
  ("FOO a 1_\a."%bs,
   (VErr (s2l "ParseChksumError"%bs)));
  ("DIST b.tgz 793 SHA1 e504cfdf0f3283365d48cdcb110132f11341e906\d.DIST pkg-2.0.tar.xz 6081 SHA1 0000000000000000000000000000000000000000\d.DIST pkg-2.0.tar.xz 6081 SHA1 0000000000000000000000000000000000000000\d."%bs,
   (VErr (s2l "ParseChksumError"%bs)));
  ("DIST _.tar 26 MD5 c864349a281c36aa602d98e192710aa2 SHA3_256 76a01789e024f764e544aac01bde64ac39e7fb7690bd58008b2c43898dc643ff87\a.\a.DIST pkg-1.tar.gz 93 SHA1 0000000000000000000000000000000000000008\a.\a.DIST pkg-1.tar.gz.sig 23168 MD5 c580f90e75d819a448e7357c2133b1ad SHA1 8f0bb485172681f02da1a3fbfd9166844bebc7f9\a.\a.DIST z.tar 56784 MD5 fc41c3757574b05389fc602d9d95ab06\a.\a."%bs,
   (VT "_.tar size 1a md5 c864349a281c36aa602d98e192710aa2 sha3_256 76a01789e024f764e544aac01bde64ac39e7fb7690bd58008b2c43898dc643ff87\a.pkg-1.tar.gz size 5d sha1 8\a.pkg-1.tar.gz.sig size 5a80 md5 c580f90e75d819a448e7357c2133b1ad sha1 8f0bb485172681f02da1a3fbfd9166844bebc7f9\a.z.tar size ddd0 md5 fc41c3757574b05389fc602d9d95ab06\9.\9.\9."%bs));
  ("DIST 0.tar 4 MD5 00000000000000000000000000000002\a.EBUILD Pkg-1.zip 719974 SHA1 9172cd62f4bf887df06ef63c7ee5bfeda79457c2\a.EBUILD pkg-1.0-r1.ebuild 2 SHA512 f8aca02e28996a586f535eed5de9f4533b8b2910762f524459f6fae6fb3f8f7540db5f2c809c1c07167a95b33f6f3f85589af99182e2d2bf93f964de169dd4c0\a."%bs,
   (VT "0.tar size 4 md5 2\9.\9.Pkg-1.zip size afc66 sha1 9172cd62f4bf887df06ef63c7ee5bfeda79457c2\a.pkg-1.0-r1.ebuild size 2 sha512 f8aca02e28996a586f535eed5de9f4533b8b2910762f524459f6fae6fb3f8f7540db5f2c809c1c07167a95b33f6f3f85589af99182e2d2bf93f964de169dd4c0\9."%bs));
  ("\a.MISC Zz 7 RMD160 29915a2cd80859fb68a276291aaaa999539a1218\a.DIST 0.tar 7755736 BLAKE2B f9e08cfc9a31aaef9e9f7225eb8c32e2ddb15efd7269a17b14bb2f7ff17026ab5d0b41e41ad7028fd848d0e3a15bc465fc8aa9df1679fc27dff8462451f986fc RMD160 d4df84c49701cf08777f21bc695afe0448239097"%bs,
   (VT "0.tar size 7657d8 blake2b f9e08cfc9a31aaef9e9f7225eb8c32e2ddb15efd7269a17b14bb2f7ff17026ab5d0b41e41ad7028fd848d0e3a15bc465fc8aa9df1679fc27dff8462451f986fc rmd160 d4df84c49701cf08777f21bc695afe0448239097\9.\9.\9.Zz size 7 rmd160 29915a2cd80859fb68a276291aaaa999539a1218"%bs));
  ("DIST Pkg-1.zip 617 -RMD160 bea2badab6651cee5f3bff5ee2de4982ba691720\d.\a.DIST pkg-1.tar.gz.sig 7 MD5 0000000000000000000000000000000b\d.\a.EBUILD pkg-1.ebuild 3 RMD160 e3092d4bac2451458993d8dbc413eec7c32609c1\d.\a.EBUILD \e9.t\e9..ebuild 9 RMD160 bd48d61f954b14549952c8625b37e97a9065a1f1\d.\a.MISC metadata.xml 10 RMD160\a."%bs,
   (VErr (s2l "ParseChksumError"%bs)));
  ("DIST a.tgz 32592 MD5 97ba229"%bs,
   (VT "a.tgz size 7f50 md5 97ba229\9.\9.\9."%bs));
  ("DIST b.tgz 793 SHA1 e504cfdf0f3283365d48cdcb110132f11341e906"%bs,
   (VT "b.tgz size 319 sha1 e504cfdf0f3283365d48cdcb110132f11341e906\9.\9.\9."%bs));
  ("DIST a 1 MD5 0x__f\a.\a."%bs,
   (VErr (s2l "ParseChksumError"%bs)));
  ("DIST Pkg-1.zip 3 MD5 00a993d9d0688766854fbaae46d0e1f5\a.DIST pkg-2.0.tar.xz 2 RMD160 A63CECCCCF1681B1C0315E1CF8ED35B6CDD7A3CC\a."%bs,
   (VT "Pkg-1.zip size 3 md5 a993d9d0688766854fbaae46d0e1f5\a.pkg-2.0.tar.xz size 2 rmd160 a63ceccccf1681b1c0315e1cf8ed35b6cdd7a3cc\9.\9.\9."%bs));
  ("MISC \65e5.\672c..xml 11 RMD160 9149edb0c6d6f684231fd7285bcd8a8d1e689c2c\a.\a.MISC Zz 7 RMD160 29915a2cd80859fb68a276291aaaa999539a1218\a.\a."%bs,
   (VT "\9.\9.\9.\65e5.\672c..xml size b rmd160 9149edb0c6d6f684231fd7285bcd8a8d1e689c2c\a.Zz size 7 rmd160 29915a2cd80859fb68a276291aaaa999539a1218"%bs));
  ("AUX a.patch 5 RMD160 27a8a4fc802effbab4a09d37290b0c2283f589c3\a.AUX sub/deep/x 9 RMD160 29751086b79494bb2662b76cfc10490a2c55a861\a.AUX z 9 RMD160 fbbb7e74cd38e8afc7c29cfa89d3ae84425e20ce\a.DIST b.tgz 23105 RMD160 811ba9a185593446745897799afda1ab87f302c6\a.DIST pkg-2.0.tar.xz 560669 SHA1 89480d38b8d97991ea54e5ff9de7ce9deea852feg\a.DIST \e9..tar 66100 SHA1 d4c349a004f6495b7296518adcd875b4cf0d51a1\a."%bs,
   (VErr (s2l "ParseChksumError"%bs)));
  ("\a.DIST _.tar 52011 RMD160 2cb842b69a6daef72647c9fbc37c558713aebf31a3\a.AUX b 4 MD5 1c3526f50b343aea1e0384d83bb3ab9f\a.DIST pkg-1.tar.gz.sig 9"%bs,
   (VT "_.tar size cb2b rmd160 2cb842b69a6daef72647c9fbc37c558713aebf31a3\a.pkg-1.tar.gz.sig size 9\9.b size 4 md5 1c3526f50b343aea1e0384d83bb3ab9f\9.\9."%bs));
  ("AUX a.patch 5 RMD160 27a8a4fc802effbab4a09d37290b0c2283f589c3\a.AUX sub/deep/x 9 RMD160 29751086b79494bb2662b76cfc10490a2c55a861\a.AUX z 9 RMD160 fbbb7e74cd38e8afc7c29cfa89d3ae84425e20ce\a.DIST b.tgz 23105 RMD160 811ba9a185593446745897799afda1ab87f302c6\a.DIST pkg-2.0.tar.xz 560669 SHA1 x 89480d38b8d97991ea54e5ff9de7ce9deea852fe\a.DIST \e9..tar 66100 SHA1 d4c349a004f6495b7296518adcd875b4cf0d51a1\a."%bs,
   (VErr (s2l "ParseChksumError"%bs)));
  ("DIST 0.tar 63 SHA1 c656d0c09893e6451d07dea7d784d4024fdd120e\a.MISC Zz 7 RMD160 f19a47d68d822b878083d3935cb94e694f75fc73\a.DIST a.tgz 2932774 MD5 e2ad84e406bb96197a842d99483e6ebc\a.MISC ebuild 5 RMD160 5ccd9a2cdca026005388a965fe7cc099177583fe\a.EBUILD \e9.t\e9..ebuild 6 RMD160 2f09fd5ebf45b6859e1bb36f204ecd51e78e2576\a."%bs,
   (VT "0.tar size 3f sha1 c656d0c09893e6451d07dea7d784d4024fdd120e\a.a.tgz size 2cc026 md5 e2ad84e406bb96197a842d99483e6ebc\9.\9.\e9.t\e9..ebuild size 6 rmd160 2f09fd5ebf45b6859e1bb36f204ecd51e78e2576\9.Zz size 7 rmd160 f19a47d68d822b878083d3935cb94e694f75fc73\a.ebuild size 5 rmd160 5ccd9a2cdca026005388a965fe7cc099177583fe"%bs));
  ("DIST a\a.f_f "%bs,
   (VErr (s2l "ParseChksumError"%bs)));
  ("AUX init.d 7 MD5 b685bbe4bf43288de7194a64f6e6bd99\d.\a.DIST a.tgz 148 BLAKE2S 0c0bf6ee9e9e6b06dba07e8470b49c98307ef1d89fbba529b0fb52eef15b0f03 MD5 d8c3b0a6d1a599bab479153c5c1e4903\d.\a."%bs,
   (VT "a.tgz size 94 blake2s c0bf6ee9e9e6b06dba07e8470b49c98307ef1d89fbba529b0fb52eef15b0f03 md5 d8c3b0a6d1a599bab479153c5c1e4903\9.init.d size 7 md5 b685bbe4bf43288de7194a64f6e6bd99\9.\9."%bs));
  ("EBUILD pkg-2.0.ebuild 9 SHA1 dfa5cdf2fd9caee50dc33e76a952ff22a5853bd9\a.EBUILD pkg-2.0.ebuild 9 SHA1 dfa5cdf2fd9caee50dc33e76a952ff22a5853bd9\a.DIST pkg-1.tar.gz.sig 385037 RMD160 087e4f80922e1597f66dbbe9d7bc1e3e7706a57f\a."%bs,
   (VErr (s2l "ParseChksumError"%bs)));
  ("DIST _.tar 26 MD5 c8"%bs,
   (VT "_.tar size 1a md5 c8\9.\9.\9."%bs));
  ("MISC Zz 7 RMD160 29915a2cd80859fb68a276291aaaa999539a1218\a.AUX \fc..diff 4 RMD160 23ac1ac4a377accc7859"%bs,
   (VT "\9.\fc..diff size 4 rmd160 23ac1ac4a377accc7859\9.\9.Zz size 7 rmd160 29915a2cd80859fb68a276291aaaa999539a1218"%bs));
  ("DIST  a.tgz  4931 SHA1 95e8f5f6638c92952a2c215ed150f19d2ec57ef7\a.DIST pkg-2.0.tar.xz 164442 RMD160 ebea8d2e84a8f2e90a21751515f15fbfeac89d60\a."%bs,
   (VT "a.tgz size 1343 sha1 95e8f5f6638c92952a2c215ed150f19d2ec57ef7\a.pkg-2.0.tar.xz size 2825a rmd160 ebea8d2e84a8f2e90a21751515f15fbfeac89d60\9.\9.\9."%bs));
  ("DIST \e9..tar 5905 -3 RMD160 fe94bc3cbd999d1e626035e2325fed24070c01c0\a."%bs,
   (VErr (s2l "ParseChksumError"%bs)));
  ("DIST a.tgz 4931 SHA1 95e8f5f6638c92952a2c215ed150f19d2ec57ef7\a.DIST pkg-2.0.tar.xz 164442 RMD160 ebea8d2e84a8f2e90a21751515f15fbfeac89d60\a. SIZE"%bs,
   (VErr (s2l "ParseChksumError"%bs)));
  ("DIST a 1\c.DIST b 2\a.DIST a 1\c.DIST b 2\a."%bs,
   (VErr (s2l "ParseChksumError"%bs)));
  ("DIST 1 MD5 ff\a.DIST a 2 MD5 00\a."%bs,
   (VErr (s2l "ParseChksumError"%bs)));
  ("\a.AUX sub/deep/x 0 RMD160 9c1185a5c5e9fc54612808977ee8f548b2258d31\a.AUX A.patch 11 RMD160 349a1a86f2fd19bda6cc96087cbba2fca804e50e"%bs,
   (VT "\9.sub/deep/x size 0 rmd160 9c1185a5c5e9fc54612808977ee8f548b2258d31\a.A.patch size b rmd160 349a1a86f2fd19bda6cc96087cbba2fca804e50e\9.\9."%bs));
  ("DIST Pkg-1.zip 617 RMD160\a.DIST pkg-1.tar.gz.sig 7 MD5 0000000000000000000000000000000b\d.\a.EBUILD pkg-1.ebuild 3 RMD160 e3092d4bac2451458993d8dbc413eec7c32609c1\d.\a.EBUILD \e9.t\e9..ebuild 9 RMD160 bd48d61f954b14549952c8625b37e97a9065a1f1\d.\a.MISC ff metadata.xml 10 RMD160 c1d99e6d12d0a29521ae1dc8a02c0aa07cb68ce9\d.\a."%bs,
   (VErr (s2l "ParseChksumError"%bs)));
  ("AUX a.patch 5 RMD160 27a8a4fc802effbab4a09d37290b0c2283f589c3\d.AUX sub/deep/x 9 RMD160 29751086b79494bb2662b76cfc10490a2c55a861\d.AUX z 9 RMD160 fbbb7e74cd38e8afc7c29cfa89d3ae84425e20ce\d.DIST MD5 b.tgz 23105 RMD160 811ba9a185593446745897799afda1ab87f302c6\d.DIST pkg-2.0.tar.xz 560669 SHA1 89480d38b8d97991ea54e5ff9de7ce9deea852fe\d.DIST \e9..tar 66100 SHA1 d4c349a004f6495b7296518adcd875b4cf0d51a1\d."%bs,
   (VErr (s2l "ParseChksumError"%bs)));
  ("AUX b.patch 8 MD5 e6b2fc2bf88271b70ee74b325aa3093f\d.EBUI"%bs,
   (VErr (s2l "ParseChksumError"%bs)));
  ("\a.DIST z.tar 83 RMD160 db6edd4984cf5dc9475e9d5f1364b90c78977dd1\a."%bs,
   (VT "z.tar size 53 rmd160 db6edd4984cf5dc9475e9d5f1364b90c78977dd1\9.\9.\9."%bs));
  ("MISC a.EBUILD 11 SHA1 43425c1c583e4ac915bf945e92d071505958e6f2\a.\a.DIST pkg-1.tar.gz 77 MD5 00000000000000000000000000000001"%bs,
   (VT "pkg-1.tar.gz size 4d md5 1\9.\9.\9.a.EBUILD size b sha1 43425c1c583e4ac915bf945e92d071505958e6f2"%bs));
  ("DIST 0.tar 856060 RMD160 cb5975f55e77e22a04889fd2383e80d434d43c16\a.DIST a.tgz 633"%bs,
   (VT "0.tar size d0ffc rmd160 cb5975f55e77e22a04889fd2383e80d434d43c16\a.a.tgz size 279\9.\9.\9."%bs));
  ("DIST\2003.0.tar\2003.856060\2003.RMD160 cb5975f55e77e22a04889fd2383e80d434d43c16\a.DIST a.tgz 6336 SHA1 a346ffabc252f9135dc29bceec37eb7581b1c4db\a."%bs,
   (VT "0.tar size d0ffc rmd160 cb5975f55e77e22a04889fd2383e80d434d43c16\a.a.tgz size 18c0 sha1 a346ffabc252f9135dc29bceec37eb7581b1c4db\9.\9.\9."%bs));
  ("DIST Pkg-1.zip 145604 RMD160 a4b2a06284dbebfaab5eadc24f47c1b12a7d8ab4\a.1 \a."%bs,
   (VErr (s2l "ParseChksumError"%bs)));
  ("DIST a.tgz 4931 SHA1 95e8f5f6638c92952a2c215ed150f19d2ec57ef7\a.DIST pkg-2.0.tar.xz 164442 ebea8d2e84a8f2e90a21751515f15fbfeac89d60\a."%bs,
   (VErr (s2l "ParseChksumError"%bs)));
  ("AUX\a0.b 4 MD5 1c3526f50b343aea1e0384d83bb3ab9f\a.DIST _.tar 52011 RMD160 2cb842b69a6daef72647c9fbc37c558713aebf31a3\a.DIST pkg-1.tar.gz.sig 9\a."%bs,
   (VT "_.tar size cb2b rmd160 2cb842b69a6daef72647c9fbc37c558713aebf31a3\a.pkg-1.tar.gz.sig size 9\9.b size 4 md5 1c3526f50b343aea1e0384d83bb3ab9f\9.\9."%bs));
  ("EBUILD \e9.t\e9..ebuild 9 RMD160 bd48d61f954b14549952c8625b37e97a9065a1f1\d.\a.EBUILD pkg-1.ebuild 3 RMD160 e3092d4bac2451458993d8dbc413eec7c32609c1\d.\a.MISC metadata.xml 10 RMD160 c1d99e6d12d0a29521ae1dc8a02c0aa07cb68ce9\d.\a.DIST Pkg-1.zip 617 RMD160 bea2badab6651cee5f3bff5ee2de4982ba691720\d.\a.DIST pkg-1.tar.gz.sig 7 MD5 0000000000000000000000000000000b\d.\a."%bs,
   (VT "Pkg-1.zip size 269 rmd160 bea2badab6651cee5f3bff5ee2de4982ba691720\a.pkg-1.tar.gz.sig size 7 md5 b\9.\9.\e9.t\e9..ebuild size 9 rmd160 bd48d61f954b14549952c8625b37e97a9065a1f1\a.pkg-1.ebuild size 3 rmd160 e3092d4bac2451458993d8dbc413eec7c32609c1\9.metadata.xml size a rmd160 c1d99e6d12d0a29521ae1dc8a02c0aa07cb68ce9"%bs));
  ("EBUILD .ebuild 3 MD5 980458a9ecddfc0551521dd48c5a8100\a.MISC b.patch 8 MD5 e6b2fc2bf88271b70ee74b325aa3093f\a."%bs,
   (VT "\9.\9..ebuild size 3 md5 980458a9ecddfc0551521dd48c5a8100\9.b.patch size 8 md5 e6b2fc2bf88271b70ee74b325aa3093f"%bs));
  ("DIST \e9..tar BLAKE2B 95baae8e152371dc4e4620f2beab601775e4cfedd7c0e8689fec439b96a8ff8df47384d275e3eebc0bac2107d384ae1e7f02ed3f405f572c0e58cd7512326ece SHA512 0000000000000000000000000000000000000000000000000000000000000000000000000000000000000000000000000000000000000000000000000000000c\a.AUX pkg-1.ebuild 6 SHA1 410b30c22423886f09b462bcbfd38bd800e650ff\a."%bs,
   (VErr (s2l "ParseChksumError"%bs)));
  ("\a.DIST z.tar 27690 MD5 0096ff1bc4d1b0a7791bcbb119a5d07b\a._ "%bs,
   (VErr (s2l "ParseChksumError"%bs)));
  ("MISC metadata.xml 9 MD5 7644f47896fc86aaaa551de1403d4a44\a.EBUILD pkg-2.0.ebuild 2g MD5 9bf5231767340fd1cf18bd162ea1787f\a."%bs,
   (VErr (s2l "ParseChksumError"%bs)));
  ("AUX a.patch 5 RMD160 27a8a4fc802effbab4a09d37290b0c2283f589c3\a.AUX sub/deep/x 9 RMD160 29751086b79494bb2662b76cfc10490a2c55a861\a.AUX z 9 RMD160 fbbb7e74cd38e8afc7c29cfa89d3ae84425e20ce\a.DIST b.tgz 23105 RMD160 811ba9a185593446745897799afda1ab87f302c6\a.DIST pkg-2.0.tar.xz 560669 SHA1 89480d38b8d97991ea54e5ff9de7ce9deea852fe\a.x DIST \e9..tar 66100 SHA1 d4c349a004f6495b7296518adcd875b4cf0d51a1\a."%bs,
   (VErr (s2l "ParseChksumError"%bs)));
  ("DIST Pkg-1.zip 3 MD5 00a993d9d0688766854fbaae46d0e1f5\a.DIST pkg-2.0.tar.xz 2 RMD160 -a63ceccccf1681b1c0315e1cf8ed35b6cdd7a3cc\a."%bs,
   (VT "Pkg-1.zip size 3 md5 a993d9d0688766854fbaae46d0e1f5\a.pkg-2.0.tar.xz size 2 rmd160 -a63ceccccf1681b1c0315e1cf8ed35b6cdd7a3cc\9.\9.\9."%bs));
  ("DIST a 1 MD5g 0x__f\a."%bs,
   (VErr (s2l "ParseChksumError"%bs)));
  ("DIST b.tgz 793 SHA1 e504cfdf0f3283365d48cdcb110132f11341e906\a.DIST pkg-2.0.tar.xz  SHA1 0000000000000000000000000000000000000000\a. 1"%bs,
   (VErr (s2l "ParseChksumError"%bs)));
  ("D"%bs,
   (VErr (s2l "ParseChksumError"%bs)));
  ("DIST  Pkg-1.zip  3 MD5 00a993d9d0688766854fbaae46d0e1f5\a.DIST pkg-2.0.tar.xz 2 RMD160 a63ceccccf1681b1c0315e1cf8ed35b6cdd7a3cc\a."%bs,
   (VT "Pkg-1.zip size 3 md5 a993d9d0688766854fbaae46d0e1f5\a.pkg-2.0.tar.xz size 2 rmd160 a63ceccccf1681b1c0315e1cf8ed35b6cdd7a3cc\9.\9.\9."%bs));
  ("MISC Zz 7 RMD160 29915a2cd80859fb68a276291aaaa999539a1218\a.\a."%bs,
   (VT "\9.\9.\9.Zz size 7 rmd160 29915a2cd80859fb68a276291aaaa999539a1218"%bs));
  ("DIST 0.tar 7755736 BLAKE2B f9e08cfc9a31aaef9e9f7225eb8c32e2ddb15efd7269a17b14bb2f7ff17026ab5d0b41e41ad7028fd848d0e3a15bc465fc8aa9df1679fc27dff8462451f986fc RMD160 d4df84c49701cf08777f21bc695afe0448239097\d.\a.AUX A.patch 11 RMD160 349a1a86f2fd19bda6cc96087cbba2fca804e50e\d.\a."%bs,
   (VT "0.tar size 7657d8 blake2b f9e08cfc9a31aaef9e9f7225eb8c32e2ddb15efd7269a17b14bb2f7ff17026ab5d0b41e41ad7028fd848d0e3a15bc465fc8aa9df1679fc27dff8462451f986fc rmd160 d4df84c49701cf08777f21bc695afe0448239097\9.A.patch size b rmd160 349a1a86f2fd19bda6cc96087cbba2fca804e50e\9.\9."%bs));
  ("DIST 0.tar 4 MD5 x 00000000000000000000000000000002\a.\a.DIST Pkg-1.zip 719974 SHA1 9172cd62f4bf887df06ef63c7ee5bfeda79457c2\a.EBUILD pkg-1.0-r1.ebuild 2 SHA512 f8aca02e28996a586f535eed5de9f4533b8b2910762f524459f6fae6fb3f8f7540db5f2c809c1c07167a95b33f6f3f85589af99182e2d2bf93f964de169dd4c0"%bs,
   (VErr (s2l "ParseChksumError"%bs)));
  ("DIST _.tar 26 MD5 c864349a281c36aa602d98e192710aa2 SHA3_256 76a01789e024f764e544aac01bde64ac39e7fb7690bd58008b2c43898dc643ff87\a.DIST pkg-1.tar.gz 93 SHA1 0000000000000000000000000000000000000008\a.DIST pkg-1.tar.gz.sig 23168 MD5 c580f90e75d819a448e7357c2133b1ad SHA1 8f0bb485172681f02da1a3fbfd9166844bebc7f9\a.x DIST z.tar 56784 MD5 fc41c3757574b05389fc602d9d95ab06\a."%bs,
   (VErr (s2l "ParseChksumError"%bs)));
  ("AUX a.patch 5 RMD160 27a8a4fc802effbab4a09d37290b0c2283f589c3\a.AUX z 9 RMD160 fbbb7e74cd38e8afc7c29cfa89d3ae84425e20ce\a.DIST b.tgz 23105 RMD160 811ba9a185593446745897799afda1ab87f302c6\a.DIST pkg-2.0.tar.xz 560669 SHA1 89480d38b8d97991ea54e5ff9de7ce9deea852fe\a.DIST \e9..tar 66100 SHA1 d4c349a004f6495b7296518adcd875b4cf0d51a1\a.AUX sub/deep/x 9 RMD160 29751086b79494bb2662b76cfc10490a2c55a861\a."%bs,
   (VT "b.tgz size 5a41 rmd160 811ba9a185593446745897799afda1ab87f302c6\a.pkg-2.0.tar.xz size 88e1d sha1 89480d38b8d97991ea54e5ff9de7ce9deea852fe\a.\e9..tar size 10234 sha1 d4c349a004f6495b7296518adcd875b4cf0d51a1\9.a.patch size 5 rmd160 27a8a4fc802effbab4a09d37290b0c2283f589c3\a.z size 9 rmd160 fbbb7e74cd38e8afc7c29cfa89d3ae84425e20ce\a.sub/deep/x size 9 rmd160 29751086b79494bb2662b76cfc10490a2c55a861\9.\9."%bs));
  ("DIST 0.tar 63 SHA1 c656d0c09893e6451d07dea7d784d4024fdd120e\a.ff DIST a.tgz 2932774 MD5 e2ad84e406bb96197a842d99483e6ebc\a.EBUILD \e9.t\e9..ebuild 6 RMD160 2f09fd5ebf45b6859e1bb36f204ecd51e78e2576\a.MISC Zz 7 RMD160 f19a47d68d822b878083d3935cb94e694f75fc73\a.MISC ebuild 5 RMD160 5ccd9a2cdca026005388a965fe7cc099177583fe\a."%bs,
   (VErr (s2l "ParseChksumError"%bs)));
  ("DIST pkg-1.tar.gz 108750 SHA1 270aff69ac6cd5ec39610fa1d343ec340c5958ec\a.DIST pkg-1.tar.gz.sig 764638 SHA1 00e2688b4d01d1142c88e5fb19a224a2f1fd10d8\a.DIST pkg-2.0.tar.xz 8306 SHA1 0109a1d39cb1795b6a67f84221b0305a8522700d\a.AUX .ebuild 10 MD5 c5a432713c8b3fa88b51d0af0d904de4\a.EBUILD pkg-2.0.ebuild 4 MD5 cf5f94b36d6345d94dcedae0b57df6c5\a."%bs,
   (VT "pkg-1.tar.gz size 1a8ce sha1 270aff69ac6cd5ec39610fa1d343ec340c5958ec\a.pkg-1.tar.gz.sig size baade sha1 e2688b4d01d1142c88e5fb19a224a2f1fd10d8\a.pkg-2.0.tar.xz size 2072 sha1 109a1d39cb1795b6a67f84221b0305a8522700d\9..ebuild size a md5 c5a432713c8b3fa88b51d0af0d904de4\9.pkg-2.0.ebuild size 4 md5 cf5f94b36d6345d94dcedae0b57df6c5\9."%bs));
  ("AUX sub/deep/x 0 RMD160 9c1185a5c5e9fc54612808977ee8f548b2258d31\a.DIST 0.tar 7755736 BLAKE2B f9e08cfc9a31aaef9e9f7225eb8c32e2ddb15efd7269a17b14bb2f7ff17026ab5d0b41e41ad7028fd848d0e3a15bc465fc8aa9df1679fc27dff8462451f986fc RMD160 d4df84c49701cf08777f21bc695afe0448"%bs,
   (VT "0.tar size 7657d8 blake2b f9e08cfc9a31aaef9e9f7225eb8c32e2ddb15efd7269a17b14bb2f7ff17026ab5d0b41e41ad7028fd848d0e3a15bc465fc8aa9df1679fc27dff8462451f986fc rmd160 d4df84c49701cf08777f21bc695afe0448\9.sub/deep/x size 0 rmd160 9c1185a5c5e9fc54612808977ee8f548b2258d31\9.\9."%bs));
  ("DIST 0.tar 63 SHA1 c656d0c09893e6451d07dea7d784d4024fdd120e\2028.DIST a.tgz 2932774 MD5 e2ad84e406bb96197a842d99483e6ebc\2028.EBUILD \e9.t\e9..ebuild 6 RMD160 2f09fd5ebf45b6859e1bb36f204ecd51e78e2576\2028.MISC Zz 7 RMD160 f19a47d68d822b878083d3935cb94e694f75fc73\2028.MISC ebuild 5 RMD160 5ccd9a2cdca026005388a965fe7cc099177583fe\2028."%bs,
   (VErr (s2l "ParseChksumError"%bs)));
  ("AUX\1f.a.patch\1f.5 RMD160 27a8a4fc802effbab4a09d37290b0c2283f589c3\a.AUX sub/deep/x 9 RMD160 29751086b79494bb2662b76cfc10490a2c55a861\a.AUX z 9 RMD160 fbbb7e74cd38e8afc7c29cfa89d3ae84425e20ce\a.DIST b.tgz 23105 RMD160 811ba9a185593446745897799afda1ab87f302c6\a.DIST pkg-2.0.tar.xz 560669 SHA1 89480d38b8d97991ea54e5ff9de7ce9deea852fe\a.DIST \e9..tar 66100 SHA1 d4c349a004f6495b7296518adcd875b4cf0d51a1\a."%bs,
   (VT "b.tgz size 5a41 rmd160 811ba9a185593446745897799afda1ab87f302c6\a.pkg-2.0.tar.xz size 88e1d sha1 89480d38b8d97991ea54e5ff9de7ce9deea852fe\a.\e9..tar size 10234 sha1 d4c349a004f6495b7296518adcd875b4cf0d51a1\9.a.patch size 5 rmd160 27a8a4fc802effbab4a09d37290b0c2283f589c3\a.sub/deep/x size 9 rmd160 29751086b79494bb2662b76cfc10490a2c55a861\a.z size 9 rmd160 fbbb7e74cd38e8afc7c29cfa89d3ae84425e20ce\9.\9."%bs));
  ("AUX\2003.b 4 x MD5 1c3526f50b343aea1e0384d83bb3ab9f\a.DIST _.tar 52011 RMD160 2cb842b69a6daef72647c9fbc37c558713aebf31a3\a.DIST pkg-1.tar.gz.sig 9\a."%bs,
   (VErr (s2l "ParseChksumError"%bs)));
  ("EBUILD pkg-1.0-r1.ebuild 2 SHA512 f8aca02e28996a586f535eed5de9f4533b8b2910762f524459f6fae6fb3f8f7540db5f2c809c1c07167a95b33f6f3f85589af99182e2d2bf93f964de169dd4c0\a.DIST 0.tar 4 MD5 00000000000000000000000000000002\a.DIST Pkg-1.zip 719974 SHA1 9172cd62f4bf887df06ef63c7ee5bfeda79457c2\a."%bs,
   (VT "0.tar size 4 md5 2\a.Pkg-1.zip size afc66 sha1 9172cd62f4bf887df06ef63c7ee5bfeda79457c2\9.\9.pkg-1.0-r1.ebuild size 2 sha512 f8aca02e28996a586f535eed5de9f4533b8b2910762f524459f6fae6fb3f8f7540db5f2c809c1c07167a95b33f6f3f85589af99182e2d2bf93f964de169dd4c0\9."%bs));
  ("DIST 0.tar 7755736 BLAKE2B f9e08cfc9a31aaef9e9f7225eb8c32e2ddb15efd7269a17b14bb2f7ff17026ab5d0b41e41ad7028fd848d0e3a15bc465fc8aa9df1679fc27dff8462451f986fc RMD160 d4df84c49701cf08777f21bc695afe0448239097\a.AUX sub/deep/x 0g RMD160 9c1185a5c5e9fc54612808977ee8f548b2258d31\a."%bs,
   (VErr (s2l "ParseChksumError"%bs)));
  ("DIST\a0.0.tar\a0.856060 RMD160 cb5975f55e77e22a04889fd2383e80d434d43c16\a.DIST a.tgz 6336 SHA1 a346ffabc252f9135dc29bceec37eb7581b1c4db\a."%bs,
   (VT "0.tar size d0ffc rmd160 cb5975f55e77e22a04889fd2383e80d434d43c16\a.a.tgz size 18c0 sha1 a346ffabc252f9135dc29bceec37eb7581b1c4db\9.\9.\9."%bs));
  ("DIST a 1_\a.\a.1 "%bs,
   (VErr (s2l "ParseChksumError"%bs)));
  ("DIST Pkg-1.zip 617 RMD160 bea2badab6651cee5f3bff5ee2de4982ba691720\d. 0x1f\a.DIST pkg-1.tar.gz.sig 7 MD5 0000000000000000000000000000000b\d.\a.EBUILD 3 RMD160 e3092d4bac2451458993d8dbc413eec7c32609c1\d.\a.EBUILD \e9.t\e9..ebuild 9 RMD160 bd48d61f954b14549952c8625b37e97a9065a1f1\d.\a.MISC metadata.xml 10 RMD160 c1d99e6d12d0a29521ae1dc8a02c0aa07cb68ce9\d.\a."%bs,
   (VErr (s2l "ParseChksumError"%bs)));
  ("DIST _.tar MD5 c864349a281c36aa602d98e192710aa2 SHA3_256 76a01789e024f764e544aac01bde64ac39e7fb7690bd58008b2c43898dc643ff87\a.DIST pkg-1.tar.gz 93 SHA1 0000000000000000000000000000000000000008\a.DIST pkg-1.tar.gz.sig 23168 MD5 c580f90e75d819a448e7357c2133b1ad SHA1 8f0bb485172681f02da1a3fbfd9166844bebc7f9\a.DIST z.tar 56784 MD5 fc41c3757574b05389fc602d9d95ab06\a."%bs,
   (VErr (s2l "ParseChksumError"%bs)));
  ("DIST a 1 0 1\a.DIST a 1 0 1\a."%bs,
   (VErr (s2l "ParseChksumError"%bs)));
  ("DIST a - MD"%bs,
   (VErr (s2l "ParseChksumError"%bs)));
  ("DIST pkg-1.tar.gz.sig 2461614 BLAKE2B 9285850dd7b1f5700803712517353532ed497ad3f7a9b6e9a1f3b0e8cbc84592271c35cbf5812a5a45aadc3af86ca6d1ed58920925969eb8bb368b018184d8e1 SHA512 a633e6f012ba74069dbcdcac66fa1b94bf8064c5c3f14ae0d58ba57a70b6385110b7cecf8f96a36929e657416ea205f6725968543927c142a8c5e61d3d0d894c \a.EBUILD \e9.t\e9..ebuild 8 MD5 2dd61557000945e2670d4f894545946f \a."%bs,
   (VT "pkg-1.tar.gz.sig size 258fae blake2b 9285850dd7b1f5700803712517353532ed497ad3f7a9b6e9a1f3b0e8cbc84592271c35cbf5812a5a45aadc3af86ca6d1ed58920925969eb8bb368b018184d8e1 sha512 a633e6f012ba74069dbcdcac66fa1b94bf8064c5c3f14ae0d58ba57a70b6385110b7cecf8f96a36929e657416ea205f6725968543927c142a8c5e61d3d0d894c\9.\9.\e9.t\e9..ebuild size 8 md5 2dd61557000945e2670d4f894545946f\9."%bs));
  ("DIST 0.tar 856060 RMD160 cb5975f55e77e22a04889fd2383e80d434d43c16\a.DIST a.tgz 6336 SHA1 a346ffabc252f9135dc29bceec37eb7581b1c4db\a.ff "%bs,
   (VErr (s2l "ParseChksumError"%bs)));
  ("DIST _.tar 26 MD5 c864349a281c36aa602d98e192710aa2 SHA3_256 76a01789e024f764e544aac01bde64ac39e7fb7690bd58008b2c43898dc643ff87 \a.DIST pkg-1.tar.gz 93 SHA1 0000000000000000000000000000000000000008 \a.DIST pkg-1.tar.gz.sig 23168 MD5 c580f90e75d819a448e7357c2133b1ad SHA1 8f0bb485172681f02da1a3fbfd9166844bebc7f9 \a.DIST z.tar 56784 MD5 fc41c3757574b05389fc602d9d95ab06 \a."%bs,
   (VT "_.tar size 1a md5 c864349a281c36aa602d98e192710aa2 sha3_256 76a01789e024f764e544aac01bde64ac39e7fb7690bd58008b2c43898dc643ff87\a.pkg-1.tar.gz size 5d sha1 8\a.pkg-1.tar.gz.sig size 5a80 md5 c580f90e75d819a448e7357c2133b1ad sha1 8f0bb485172681f02da1a3fbfd9166844bebc7f9\a.z.tar size ddd0 md5 fc41c3757574b05389fc602d9d95ab06\9.\9.\9."%bs));
  ("DIST 0.tar 4 MD5 00000000000000000000000000000002\a.EBUILD pkg-1.0-r1.ebuild 2 SHA512 f8aca02e28996a586f535eed5de9f4533b8b2910762f524459f6fae6fb3f8f7540db5f2c809c1c07167a95b33f6f3f85589af99182e2d2bf93f964de169dd4c0\a.\a.DIST Pkg-1.zip 719974 SHA1 9172cd62f4bf887df06ef63c7ee5bfeda79457c2"%bs,
   (VT "0.tar size 4 md5 2\a.Pkg-1.zip size afc66 sha1 9172cd62f4bf887df06ef63c7ee5bfeda79457c2\9.\9.pkg-1.0-r1.ebuild size 2 sha512 f8aca02e28996a586f535eed5de9f4533b8b2910762f524459f6fae6fb3f8f7540db5f2c809c1c07167a95b33f6f3f85589af99182e2d2bf93f964de169dd4c0\9."%bs));
  ("AUX a.patch 5 RMD160 27a8a4fc802effbab4a09d37290b0c2283f589c3\a.AUX sub/deep/x 9 RMD160 29751086b79494bb2662b76cfc10490a2c55a861\a.DIST b.tgz 23105 RMD160 811ba9a185593446745897799afda1ab87f302c6\a.AUX z 9 RMD160 fbbb7e74cd38e8afc7c29cfa89d3ae84425e20ce\a.DIST b.tgz 23105 RMD160 811ba9a185593446745897799afda1ab87f302c6\a.AUX a.patch 5 RMD160 27a8a4fc802effbab4a09d37290b0c2283f589c3\a.DIST pkg-2.0.tar.xz 560669 SHA1 89480d38b8d97991ea54e5ff9de7ce9deea852fe\a.DIST \e9..tar 66100 SHA1 d4c349a004f6495b7296518adcd875b4cf0d51a1\a."%bs,
   (VErr (s2l "ParseChksumError"%bs)));
  ("DIST a 1 -3 MD5 ff\a.DIST a 2 MD5 00\a."%bs,
   (VErr (s2l "ParseChksumError"%bs)));
  ("AUX\2003.b\2003.4\2003.MD5 1c3526f50b343aea1e0384d83bb3ab9f\a.DIST _.tar 52011 RMD160 2cb842b69a6daef72647c9fbc37c558713aebf31a3\a.DIST pkg-1.tar.gz.sig 9\a."%bs,
   (VT "_.tar size cb2b rmd160 2cb842b69a6daef72647c9fbc37c558713aebf31a3\a.pkg-1.tar.gz.sig size 9\9.b size 4 md5 1c3526f50b343aea1e0384d83bb3ab9f\9.\9."%bs));
  ("EBUILD Pkg-1.zip 3 MD5 00a993d9d0688766854fbaae46d0e1f5\a.MISC pkg-2.0.tar.xz 2 RMD160 a63ceccccf1681b1c0315e1cf8ed35b6cdd7a3cc\a."%bs,
   (VT "\9.\9.Pkg-1.zip size 3 md5 a993d9d0688766854fbaae46d0e1f5\9.pkg-2.0.tar.xz size 2 rmd160 a63ceccccf1681b1c0315e1cf8ed35b6cdd7a3cc"%bs));
  ("-----BEGIN PGP SIGNED MESSAGE-----\a.AUX SHA1\a.\a.DIST a 1\a."%bs,
   (VErr (s2l "ParseChksumError"%bs)))
].
Eval vm_compute in (mismatches run_parse cases).
