(* Spec_C34.v — what "filtering an environment dump" has to do, written without looking at the
   scanner: a dump is a list of definitions as bash writes them ([render]); filtering keeps or
   drops WHOLE definitions by name ([filter_ast]); the text of a dropped definition disappears,
   its terminating newline (the separator, not part of the definition) stays. *)
From Coq Require Import List NArith ZArith Bool.
Import ListNotations.
From Verif Require Import Base.Val C34.Model_C34.
Local Open Scope N_scope.

(* ---------------------------------------------------------------- the dump AST *)
(* scalar values as `set` prints them: a sequence of segments *)
Inductive vseg :=
| VBare (s : str)          (* unquoted run *)
| VSq (s : str)            (* '...' *)
| VEsc (c : N)             (* \c  (bash splices a quote as '\'' ) *)
| VAnsi (s : list (bool * N))  (* $'...': (true, c) is the escape pair \c, (false, c) a plain char *)
| VDq (s : list (bool * N)).   (* "...": same encoding; array elements and `declare -p` style *)

Inductive qvalue :=
| QScalar (l : list vseg)
| QArray (l : list (str * list vseg)).   (* ([idx]=elem [idx]=elem ...) *)

(* function bodies: a token tree.  W1 = text walked statement by statement (function level),
   the inside of TBr / TPar / TDq is walked by the balanced-delimiter walker. *)
Inductive tok :=
| TLit (c : N)
| TEsc (c : N)                   (* \c *)
| TSq (s : str)                  (* '...' *)
| TDq (l : list (bool * N))      (* "...", (true,c) = \c *)
| TPE (s : str)                  (* ${...} *)
| TAnsi (l : list (bool * N))    (* $'...' *)
| TVar (s : str)                 (* $name, $1, and (s empty) the dollar of $? $@ $* $! $- *)
| TArith (l : list tok)          (* $((...)) *)
| TDqx (l : list tok)            (* "..." with expansions inside *)
| THs                            (* the here-string operator <<< (function level) *)
| TSub (l : list tok)            (* $(...) holding one simple command of flat tokens *)
| TBr (l : list tok)             (* {...} *)
| TPar (l : list tok).           (* (...) *)

(* one statement of a function body: its tokens, the separator that ends it (';' or newline)
   and the white space that follows the separator *)
Record stmt := { s_toks : list tok; s_sep : N; s_ws : str }.

Inductive def :=
| Assign (name : str) (v : qvalue)
| Func (name : str) (lead : str) (body : list stmt).   (* lead: white space after the brace *)

(* ---------------------------------------------------------------- render *)
Definition render_pairs (l : list (bool * N)) : str :=
  flat_map (fun p : bool * N => if fst p then [cBS; snd p] else [snd p]) l.

Definition render_vseg (v : vseg) : str :=
  match v with
  | VBare s => s
  | VSq s => [cSQ] ++ s ++ [cSQ]
  | VEsc c => [cBS; c]
  | VAnsi s => [cDOL; cSQ] ++ render_pairs s ++ [cSQ]
  | VDq s => [cDQ] ++ render_pairs s ++ [cDQ]
  end.
Definition render_vsegs (l : list vseg) : str := flat_map render_vseg l.

Fixpoint render_elems (l : list (str * list vseg)) : str :=
  match l with
  | [] => []
  | [(i, e)] => [91] ++ i ++ [93; cEQ] ++ render_vsegs e
  | (i, e) :: r => [91] ++ i ++ [93; cEQ] ++ render_vsegs e ++ [cSP] ++ render_elems r
  end.

Definition render_value (v : qvalue) : str :=
  match v with
  | QScalar l => render_vsegs l
  | QArray l => [cLP] ++ render_elems l ++ [cRP]
  end.

Fixpoint render_tok (t : tok) : str :=
  match t with
  | TLit c => [c]
  | TEsc c => [cBS; c]
  | TSq s => [cSQ] ++ s ++ [cSQ]
  | TDq l => [cDQ] ++ render_pairs l ++ [cDQ]
  | TPE s => [cDOL; cLB] ++ s ++ [cRB]
  | TAnsi l => [cDOL; cSQ] ++ render_pairs l ++ [cSQ]
  | TVar s => cDOL :: s
  | TArith l => [cDOL; cLP; cLP] ++ flat_map render_tok l ++ [cRP; cRP]
  | TDqx l => [cDQ] ++ flat_map render_tok l ++ [cDQ]
  | THs => [cLT; cLT; cLT]
  | TSub l => [cDOL; cLP] ++ flat_map render_tok l ++ [cRP]
  | TBr l => [cLB] ++ flat_map render_tok l ++ [cRB]
  | TPar l => [cLP] ++ flat_map render_tok l ++ [cRP]
  end.
Definition render_toks (l : list tok) : str := flat_map render_tok l.

Definition render_stmt (s : stmt) : str := render_toks (s_toks s) ++ [s_sep s] ++ s_ws s.
Definition render_body (b : list stmt) : str := flat_map render_stmt b.

(* "NAME () \n{ " ++ lead ++ statements ++ "}" — bash prints "name () " newline "{ " newline *)
Definition func_head (name : str) : str := name ++ [cSP; cLP; cRP; cSP; cNL; cLB].

Definition render_def (d : def) : str :=
  match d with
  | Assign n v => n ++ [cEQ] ++ render_value v
  | Func n lead b => func_head n ++ lead ++ render_body b ++ [cRB]
  end.

(* every definition is followed by a newline *)
Definition render (ds : list def) : str := flat_map (fun d => render_def d ++ [cNL]) ds.

(* ---------------------------------------------------------------- filtering on the AST *)
Definition def_name (d : def) : str := match d with Assign n _ => n | Func n _ _ => n end.
Definition is_func (d : def) : bool := match d with Func _ _ _ => true | _ => false end.

(* the name test of one kind: no list = keep everything; blacklist: drop the listed names;
   whitelist: drop the names NOT listed.  Empty strings in the list are ignored. *)
Definition dropped (names : list str) (whitelist : bool) (n : str) : bool :=
  match names with
  | [] => false
  | _ => xorb whitelist (str_mem n (filter nonempty names))
  end.
Definition drop_def (vars funcs : list str) (vwl fwl : bool) (d : def) : bool :=
  if is_func d then dropped funcs fwl (def_name d) else dropped vars vwl (def_name d).

Definition filter_ast (vars funcs : list str) (vwl fwl : bool) (ds : list def) : list def :=
  filter (fun d => negb (drop_def vars funcs vwl fwl d)) ds.

(* the text that must come out: surviving definitions in order, each with its newline; a dropped
   definition leaves only its newline *)
Definition render_filtered (vars funcs : list str) (vwl fwl : bool) (ds : list def) : str :=
  flat_map (fun d => (if drop_def vars funcs vwl fwl d then [] else render_def d) ++ [cNL]) ds.

(* the name lists of the property: non-empty lists contain at least one non-empty name
   (otherwise build_regex_string returns None and main_run raises AttributeError) *)
Definition names_ok (names : list str) : bool :=
  match names with [] => true | _ => existsb nonempty names end.

(* ---------------------------------------------------------------- acceptors for the harness (B) *)
(* a dump given as the chunks bash printed: ((is_function, name), text incl. final newline) *)
Definition chunk := ((bool * str) * str)%type.
Definition chunk_dropped (vars funcs : list str) (vwl fwl : bool) (c : chunk) : bool :=
  let '((isf, n), _) := c in if isf then dropped funcs fwl n else dropped vars vwl n.
Definition expected_chunks (vars funcs : list str) (vwl fwl : bool) (cs : list chunk) : str :=
  flat_map (fun c => if chunk_dropped vars funcs vwl fwl c then [cNL] else snd c) cs.

Definition dump_input := ((list chunk * list str * list str) * (bool * bool))%type.
Definition run_dump (i : dump_input) : val :=
  let '((cs, v, f), (vw, fw)) := i in enc_d (main_run (flat_map snd cs) v f vw fw).
Definition spec_dump_ok (i : dump_input) (r : val) : bool :=
  let '((cs, v, f), (vw, fw)) := i in val_eqb r (digest (expected_chunks v f vw fw cs)).

(* ---------------------------------------------------------------- the proved sub-grammar *)
Definition is_ident (c : N) : bool :=
  ((48 <=? c) && (c <=? 57)) || ((65 <=? c) && (c <=? 90)) || ((97 <=? c) && (c <=? 122)) || (c =? cUS).
Definition var_name_ok (n : str) : bool := nonempty n && forallb is_ident n && negb (starts_with kw_function n).
Definition fname_char (c : N) : bool :=
  is_ident c || (c =? cMINUS) || (c =? 46) || (c =? 58) || (c =? 43) || (c =? 64).
Definition func_name_ok (n : str) : bool :=
  nonempty n && forallb fname_char n && negb (starts_with kw_function n).

(* characters bash leaves unquoted in a value, as far as the scanner is concerned *)
Definition bare_char (c : N) : bool :=
  negb (isspace c) && negb (mem c [cNUL; cSEMI; cSQ; cDQ; cBQ; cLP; cDOL; cBS; cHASH; cLB; cLT]).
Definition sq_char (c : N) : bool := negb (c =? cSQ) && negb (c =? cNUL).
(* inside $'..' and "..": a plain character, or a backslash pair *)
Definition ansi_pair (p : bool * N) : bool :=
  negb (snd p =? cNUL) && (fst p || (negb (snd p =? cSQ) && negb (snd p =? cBS))).
Definition dq_pair (p : bool * N) : bool :=
  negb (snd p =? cNUL) &&
  (fst p || (negb (snd p =? cDQ) && negb (snd p =? cBS) && negb (snd p =? cDOL) && negb (snd p =? cBQ))).

Definition vseg_ok (v : vseg) : bool :=
  match v with
  | VBare s => nonempty s && forallb bare_char s
  | VSq s => forallb sq_char s
  | VEsc c => negb (c =? cNUL) && negb (isspace c)
  | VAnsi s => forallb ansi_pair s
  | VDq s => forallb dq_pair s
  end.
(* the first segment must not be an escape or bare run starting with a character that the
   assignment loop treats specially; bare runs are maximal in what bash prints, which the
   scanner does not need *)
Definition idx_char (c : N) : bool := is_ident c.
Definition elem_seg_ok (v : vseg) : bool :=
  match v with VDq _ | VAnsi _ => vseg_ok v | _ => false end.
Definition value_ok (v : qvalue) : bool :=
  match v with
  | QScalar l => forallb vseg_ok l
  | QArray l => forallb (fun e => forallb idx_char (fst e) && forallb elem_seg_ok (snd e)) l
  end.

(* function bodies *)
Definition lit_char (c : N) : bool :=       (* harmless everywhere *)
  negb (mem c [cNUL; cSQ; cDQ; cBQ; cLP; cRP; cDOL; cBS; cHASH; cLB; cRB; cLT; cSEMI; cNL]).
Definition pe_char (c : N) : bool := negb (mem c [cNUL; cRB; cDOL]).
(* the text of a statement must not look like an assignment or a function header to the
   scanner: before the first blank/quote/paren/dash there is no '=', and the first word is not
   followed by "(" *)
Fixpoint no_eq_before_stop (s : str) : bool :=
  match s with
  | [] => false
  | c :: r => if envvar_stop c then true else if c =? cEQ then false else no_eq_before_stop r
  end.
Fixpoint first_nonblank (t : str) : option N :=
  match t with
  | [] => None
  | d :: t' => if isblank d then first_nonblank t' else Some d
  end.
Fixpoint word_then (s : str) : option N :=   (* the first character after the leading word and blanks *)
  match s with
  | [] => None
  | c :: r => if name_stop c then first_nonblank s else word_then r
  end.
(* the two strings differ at a position both have *)
Fixpoint diverges (w s : str) : bool :=
  match w, s with
  | a :: w', b :: s' => if a =? b then diverges w' s' else true
  | _, _ => false
  end.
Definition stmt_start_ok (text : str) : bool :=
  match text with
  | [] => false
  | c :: _ =>
      negb (isspace c) && negb (c =? cHASH) && negb (c =? cRB) && negb (c =? cNUL)
      && diverges kw_function text
      && no_eq_before_stop text
      && (name_stop c || match word_then text with Some d => negb (d =? cLP) | None => false end)
  end.

(* "$name" swallows the identifier characters that follow, so the character after a TVar must
   end the name; after a bare "$" it must moreover not open another kind of expansion *)
Definition var_follow (s : str) (c : N) : bool :=
  negb (isalnum c) && negb (c =? cUS) && negb (c =? cDOL)
  && (nonempty s || negb (mem c [cLP; cLB; cSQ])).
Definition follow_ok (t : tok) (r : list tok) : bool :=
  match t with
  | TVar s => match render_toks r with [] => true | c :: _ => var_follow s c end
  | _ => true
  end.
Fixpoint follows (l : list tok) : bool :=
  match l with [] => true | t :: r => follow_ok t r && follows r end.
Definition flat_tok (t : tok) : bool :=
  match t with
  | TLit c => lit_char c
  | TEsc c => negb (c =? cNUL)
  | TSq s => forallb sq_char s
  | TDq l => forallb dq_pair l
  | TPE s => forallb pe_char s
  | TAnsi l => forallb ansi_pair l
  | TVar s => forallb is_ident s
  | _ => false
  end.
(* the single command inside $(...): flat tokens, not an assignment or function header, not empty *)
Definition sub_ok (l : list tok) : bool :=
  forallb flat_tok l && follows l && stmt_start_ok (render_toks l ++ [cRP])
  && match render_toks l with c :: _ => negb (c =? cRP) | [] => false end.
Definition dq_char (c : N) : bool := negb (mem c [cNUL; cDQ; cBS; cDOL; cBQ]).
Fixpoint tok_ok (inner : bool) (t : tok) : bool :=
  match t with
  | TLit c => lit_char c || (inner && ((c =? cSEMI) || (c =? cNL) || (c =? cLT)))
  | TEsc c => negb (c =? cNUL)
  | TSq s => forallb sq_char s
  | TDq l => forallb dq_pair l
  | TPE s => forallb pe_char s
  | TAnsi l => forallb ansi_pair l
  | TVar s => forallb is_ident s
  | TArith l => forallb (tok_ok true) l
  | TDqx l =>
      forallb (fun d => match d with
                        | TLit c => dq_char c
                        | TEsc c => negb (c =? cNUL)
                        | TPE s => forallb pe_char s
                        | TVar s => forallb is_ident s
                        | TArith l2 => forallb (tok_ok true) l2
                        | TSub l2 => sub_ok l2
                        | _ => false
                        end) l
  | THs => negb inner
  | TSub l => sub_ok l
  | TBr l => forallb (tok_ok true) l
  | TPar l => forallb (tok_ok true) l
  end.
(* function level: a closing parenthesis is harmless there (case patterns) *)
Definition tok_ok1 (t : tok) : bool :=
  match t with TLit c => lit_char c || (c =? cRP) | _ => tok_ok false t end.

Fixpoint deep_follow (t : tok) : bool :=
  match t with
  | TBr l | TPar l | TArith l | TDqx l => follows l && forallb deep_follow l
  | _ => true
  end.

Definition stmt_ok (s : stmt) (following : str) : bool :=
  forallb tok_ok1 (s_toks s) && forallb deep_follow (s_toks s) && follows (s_toks s)
  && ((s_sep s =? cSEMI) || (s_sep s =? cNL))
  && forallb isspace (s_ws s)
  && stmt_start_ok (render_stmt s ++ following).

Fixpoint body_ok (b : list stmt) : bool :=
  match b with
  | [] => true
  | s :: r => stmt_ok s (render_body r ++ [cRB]) && body_ok r
  end.

Definition def_ok (d : def) : bool :=
  match d with
  | Assign n v => var_name_ok n && value_ok v
  | Func n lead b =>
      func_name_ok n && forallb isspace lead && body_ok b
  end.

(* stream "render": the AST the harness parsed from bash's own text must render back to it, and
   the acceptor tells whether the theorem's hypothesis covers it *)
Definition run_render (ds : list def) : val := digest (render ds).
