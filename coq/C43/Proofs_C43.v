(* Proofs_C43.v — lemmas and proofs; the property theorems are re-exported in Prop_C43.v. *)
From Coq Require Import List NArith ZArith Bool Arith Lia.
Import ListNotations.
From Verif Require Import Base.Val C42.Model_C42 C43.Model_C43 C43.Spec_C43.

Lemma memN_In x l : memN x l = true <-> In x l.
Proof.
  unfold memN. rewrite existsb_exists. split.
  - intros [y [Hy E]]. apply N.eqb_eq in E. subst. exact Hy.
  - intro H. exists x. split; [exact H | apply N.eqb_refl].
Qed.

Lemma child_of_fst e nd i y : In y (child_of e nd i) -> fst y = i.
Proof.
  unfold child_of. destruct (N.eqb i (fst nd)).
  - destruct (tl (snd nd)); cbn; [tauto | intros [<-|[]]; reflexivity].
  - destruct (stack_of e i); cbn; [tauto | intros [<-|[]]; reflexivity].
Qed.

Lemma children_fst e z y : In y (children e z) -> In (fst y) (inherits (snd z)).
Proof.
  unfold children. rewrite in_flat_map. intros [i [Hi Hy]].
  apply child_of_fst in Hy. subst. exact Hi.
Qed.

(* ------------------------------------------------------------------ one slist entry *)
Lemma scan_ok e cur st : forall inh names acc names' new,
  scan_inh e cur st inh names acc = inr (names', new) ->
  new = acc ++ flat_map (child_of e (cur, st)) inh
  /\ (forall x, In x names -> In x names')
  /\ (forall i, In i inh -> i <> cur -> ~ In i names /\ stack_of e i <> [] /\ In i names')
  /\ (forall i, In i inh -> i = cur -> tl st <> []).
Proof.
  induction inh as [|i0 r IH]; intros names acc names' new H; cbn [scan_inh] in H.
  - injection H as <- <-. cbn. rewrite app_nil_r. split; [reflexivity|]. split; [auto|]. split; intros i [].
  - cbn [flat_map]. unfold child_of at 1. cbn [fst snd].
    destruct (N.eqb i0 cur) eqn:E.
    + apply N.eqb_eq in E. subst i0. destruct (tl st) as [|s' st'] eqn:T; [discriminate|].
      apply IH in H as [-> [M [A B]]]. rewrite <- app_assoc.
      split; [reflexivity|]. split; [exact M|]. split.
      * intros i [<-|Hi] Ne; [congruence | apply A; assumption].
      * intros i [<-|Hi] Ei; [congruence | apply (B i); assumption].
    + apply N.eqb_neq in E. destruct (memN i0 names) eqn:Mm; [discriminate|].
      destruct (stack_of e i0) as [|t0 t] eqn:T; [discriminate|].
      apply IH in H as [-> [M [A B]]]. rewrite <- app_assoc.
      split; [reflexivity|]. split; [intros x Hx; apply M; right; exact Hx|]. split.
      * intros i [<-|Hi] Ne.
        -- split; [|split].
           ++ intro Hn. apply memN_In in Hn. congruence.
           ++ congruence.
           ++ apply M. left. reflexivity.
        -- destruct (A _ Hi Ne) as [Hn [Hs Hin]]. split; [|split; assumption].
           intro Hx. apply Hn. right. exact Hx.
      * intros j [<-|Hj] Ej; [congruence | apply (B j); assumption].
Qed.

Lemma scan_children e cur st names names' new :
  scan_inh e cur st (inherits st) names [] = inr (names', new) -> new = children e (cur, st).
Proof. intro H. apply scan_ok in H as [-> _]. reflexivity. Qed.

(* ------------------------------------------------------------------ worklist = level order *)
Inductive Qrel (e : env) : list node -> list node -> Prop :=
| Q_nil : Qrel e [] []
| Q_cons x q o : Qrel e (q ++ children e x) o -> Qrel e (x :: q) (x :: o).

Lemma bfs_Qrel e : forall fuel q names out order,
  bfs fuel e q names out = inr order -> exists o, order = out ++ o /\ Qrel e q o.
Proof.
  induction fuel as [|f IH]; intros q names out order H.
  - destruct q as [|[cur st] q]; cbn in H; [|discriminate].
    injection H as <-. exists []. split; [rewrite app_nil_r; reflexivity | constructor].
  - destruct q as [|[cur st] q]; cbn [bfs] in H.
    + injection H as <-. exists []. split; [rewrite app_nil_r; reflexivity | constructor].
    + destruct (scan_inh e cur st (inherits st) names []) as [x|[names' new]] eqn:S; [discriminate|].
      apply scan_children in S. subst new.
      apply IH in H as [o [-> Q]]. exists ((cur, st) :: o). split.
      * rewrite <- app_assoc. reflexivity.
      * constructor. exact Q.
Qed.

Lemma flat_map_snoc {A B} (f : A -> list B) l x : flat_map f (l ++ [x]) = flat_map f l ++ f x.
Proof. rewrite flat_map_app. cbn. rewrite app_nil_r. reflexivity. Qed.

Lemma Qrel_levels e q o : Qrel e q o -> forall a b, q = a ++ flat_map (children e) b ->
  exists o2, o = a ++ o2 /\ LevelOrder e (flat_map (children e) (b ++ a)) o2.
Proof.
  induction 1 as [|x q o Q IH]; intros a b E.
  - symmetry in E. apply app_eq_nil in E as [-> E]. exists []. split; [reflexivity|].
    rewrite app_nil_r, E. constructor.
  - destruct a as [|x' a'].
    + cbn in E. destruct (IH q [x]) as [o2 [-> L]]; [cbn; rewrite app_nil_r; reflexivity|].
      exists (x :: q ++ o2). split; [reflexivity|].
      rewrite app_nil_r, <- E. apply (LO_level e (x :: q) o2); [discriminate | exact L].
    + cbn in E. injection E as <- ->.
      destruct (IH a' (b ++ [x])) as [o2 [-> L]].
      { rewrite flat_map_snoc, <- app_assoc. reflexivity. }
      exists o2. split; [reflexivity|]. rewrite <- app_assoc in L. exact L.
Qed.

Theorem bfs_order_proof e fuel name st order :
  bfs fuel e [(name, st)] [name] [] = inr order -> LevelOrder e [(name, st)] order.
Proof.
  intro H. apply bfs_Qrel in H as [o [-> Q]]. cbn.
  destruct (Qrel_levels _ _ _ Q [(name, st)] []) as [o2 [-> L]]; [reflexivity|].
  apply (LO_level e [(name, st)] o2); [discriminate | exact L].
Qed.

Lemma LevelOrder_levels e l o : LevelOrder e l o -> forall d, length o < d -> levels d e l = o.
Proof.
  induction 1 as [|l o N L IH]; intros d Hd.
  - destruct d; reflexivity.
  - destruct d as [|d]; [lia|]. cbn [levels]. destruct l as [|x l]; [congruence|].
    rewrite IH; [reflexivity|]. rewrite app_length in Hd. cbn in Hd. lia.
Qed.

(* ------------------------------------------------------------------ first hit = nearest *)
Lemma first_some_nearest {B} (f : section -> option B) order :
  nearest f order (first_some (fun nd => f (head_sec nd)) order).
Proof.
  induction order as [|x order IH]; cbn.
  - intros y [].
  - destruct (f (head_sec x)) as [v|] eqn:E.
    + exists [], x, order. repeat split; [exact E | intros y []].
    + destruct (first_some (fun nd => f (head_sec nd)) order) as [v|]; cbn in *.
      * destruct IH as [before [x0 [after [-> [Hx Hb]]]]].
        exists (x :: before), x0, after. repeat split; [exact Hx|].
        intros y [<-|Hy]; [exact E | apply Hb; exact Hy].
      * intros y [<-|Hy]; [exact E | apply IH; exact Hy].
Qed.

Lemma collapse_inv e name c cfg :
  collapse e name = inr (c, cfg) ->
  exists order, bfs (fuel_of e) e [root e name] [name] [] = inr order
    /\ first_some (fun nd => s_class (head_sec nd)) order = Some c
    /\ cfg = (fun k => first_some (fun nd => assoc k (s_keys (head_sec nd))) order).
Proof.
  unfold collapse, root. destruct (stack_of e name) as [|s0 st] eqn:S; [discriminate|]. cbv zeta.
  destruct (s_ionly s0) as [[|]|];
    try discriminate;
    (match goal with |- context [bfs ?a ?b ?q ?n ?o] => destruct (bfs a b q n o) as [x|order] eqn:B end;
     [discriminate|];
     destruct (first_some (fun nd => s_class (head_sec nd)) order) as [c'|] eqn:C; [|discriminate];
     intro H; injection H as <- <-; exists order; auto).
Qed.

Theorem nearest_definition_proof e name c cfg :
  collapse e name = inr (c, cfg) ->
  exists order, LevelOrder e [root e name] order
    /\ nearest s_class order (Some c)
    /\ forall k, nearest (fun s => assoc k (s_keys s)) order (cfg k).
Proof.
  intro H. apply collapse_inv in H as [order [B [C ->]]].
  exists order. split; [eapply bfs_order_proof; exact B|]. split.
  - rewrite <- C. apply first_some_nearest.
  - intro k. apply (first_some_nearest (fun s => assoc k (s_keys s))).
Qed.

(* the section's own setting wins whatever its value is (in particular the falsy code 0) *)
Theorem own_setting_wins_proof e name c cfg k v :
  collapse e name = inr (c, cfg) ->
  assoc k (s_keys (head_sec (root e name))) = Some v -> cfg k = Some v.
Proof.
  intros H A. apply collapse_inv in H as [order [B [_ ->]]].
  apply bfs_Qrel in B as [o [-> Q]]. cbn [app].
  inversion Q as [|x q o' Q' E1 E2]; subst. cbn [first_some]. rewrite A. reflexivity.
Qed.

(* ------------------------------------------------------------------ errors *)
Definition resolves (e : env) (z : node) : Prop :=
  forall i, In i (inherits (snd z)) ->
    (i <> fst z -> stack_of e i <> []) /\ (i = fst z -> tl (snd z) <> []).

(* a successful run: everything reachable from the queue resolves, and no reachable section
   inherits (non-self) a name that is already in the set of inherited names *)
Lemma bfs_sound e : forall fuel q names out order,
  bfs fuel e q names out = inr order ->
  forall x0, In x0 q -> forall z, Reach e x0 z ->
    resolves e z /\ forall y, In y (children e z) -> fst y <> fst z -> ~ In (fst y) names.
Proof.
  induction fuel as [|f IH]; intros q names out order H x0 Hx0 z R.
  - destruct q as [|[cur st] q]; [destruct Hx0 | discriminate].
  - destruct q as [|[cur st] q]; [destruct Hx0|]. cbn [bfs] in H.
    destruct (scan_inh e cur st (inherits st) names []) as [x|[names' new]] eqn:S; [discriminate|].
    pose proof (scan_children _ _ _ _ _ _ S) as ->.
    apply scan_ok in S as [_ [M [A B]]].
    assert (Next : forall c, In c (q ++ children e (cur, st)) -> forall z, Reach e c z ->
              resolves e z /\ forall y, In y (children e z) -> fst y <> fst z -> ~ In (fst y) names).
    { intros c Hc z' R'. destruct (IH _ _ _ _ H c Hc z' R') as [Rs Nn]. split; [exact Rs|].
      intros y Hy Ny Hin. apply (Nn y Hy Ny). apply M. exact Hin. }
    destruct Hx0 as [<-|Hx0].
    + inversion R as [a|a c b Hc R']; subst.
      * split.
        -- intros i Hi. cbn [fst snd] in *. split; intro Hne; [apply (A i); assumption | apply (B i); assumption].
        -- intros y Hy Ny. apply children_fst in Hy. cbn [fst snd] in *. apply (A (fst y)); assumption.
      * apply (Next c); [apply in_or_app; right; exact Hc | exact R'].
    + apply (Next x0); [apply in_or_app; left; exact Hx0 | exact R].
Qed.

Lemma bfs_no_cycle e : forall fuel q names out order,
  bfs fuel e q names out = inr order ->
  (forall w, In w q -> In (fst w) names) ->
  forall x0, In x0 q -> forall x, Reach e x0 x -> forall z, Reach e x z ->
  forall y, In y (children e z) -> fst y <> fst z -> fst y <> fst x.
Proof.
  induction fuel as [|f IH]; intros q names out order H I x0 Hx0 x Rx z Rz y Hy Ny.
  - destruct q as [|[cur st] q]; [destruct Hx0 | discriminate].
  - destruct q as [|[cur st] q]; [destruct Hx0|].
    pose proof (bfs_sound e _ _ _ _ _ H) as Snd. cbn [bfs] in H.
    destruct (scan_inh e cur st (inherits st) names []) as [x1|[names' new]] eqn:S; [discriminate|].
    pose proof (scan_children _ _ _ _ _ _ S) as ->.
    apply scan_ok in S as [_ [M [A B]]].
    assert (I' : forall w, In w (q ++ children e (cur, st)) -> In (fst w) names').
    { intros w Hw. apply in_app_or in Hw as [Hw|Hw].
      - apply M, I. right. exact Hw.
      - apply children_fst in Hw. cbn [snd] in Hw.
        destruct (N.eq_dec (fst w) cur) as [Ew|Nw].
        + rewrite Ew. apply M, (I (cur, st)). left. reflexivity.
        + apply A; assumption. }
    destruct Hx0 as [<-|Hx0].
    + inversion Rx as [a|a c b Hc R']; subst.
      * intro Ey. destruct (Snd (cur, st) (or_introl eq_refl) z Rz) as [_ Nn].
        apply (Nn y Hy Ny). rewrite Ey. apply (I (cur, st)). left. reflexivity.
      * apply (IH _ _ _ _ H I' c (in_or_app _ _ _ (or_intror Hc)) x R' z Rz y Hy Ny).
    + apply (IH _ _ _ _ H I' x0 (in_or_app _ _ _ (or_introl Hx0)) x Rx z Rz y Hy Ny).
Qed.

Lemma collapse_ok_bfs e name c cfg :
  collapse e name = inr (c, cfg) -> exists order, bfs (fuel_of e) e [root e name] [name] [] = inr order.
Proof. intro H. apply collapse_inv in H as [order [B _]]. eauto. Qed.

Theorem cycle_reported_proof e name :
  has_cycle e name -> exists x, collapse e name = inl x.
Proof.
  intros [x [z [y [Rx [Rz [Hy [Ny Ey]]]]]]].
  destruct (collapse e name) as [er|[c cfg]] eqn:C; [eauto|]. exfalso.
  apply collapse_ok_bfs in C as [order B].
  refine (bfs_no_cycle e _ _ _ _ _ B _ (root e name) (or_introl eq_refl) x Rx z Rz y Hy Ny Ey).
  intros w [<-|[]]. left. reflexivity.
Qed.

Theorem missing_reported_proof e name :
  has_missing e name -> exists x, collapse e name = inl x.
Proof.
  intros [z [i [R [Hi Hm]]]].
  destruct (collapse e name) as [er|[c cfg]] eqn:C; [eauto|]. exfalso.
  apply collapse_ok_bfs in C as [order B].
  destruct (bfs_sound e _ _ _ _ _ B (root e name) (or_introl eq_refl) z R) as [Rs _].
  destruct (Rs i Hi) as [R1 R2].
  destruct Hm as [[Ne Em]|[Ee Et]]; [exact (R1 Ne Em) | exact (R2 Ee Et)].
Qed.

(* a collapse that succeeds saw a tree: no cycle, nothing missing *)
Theorem success_is_tree_proof e name c cfg :
  collapse e name = inr (c, cfg) -> ~ has_cycle e name /\ ~ has_missing e name.
Proof.
  intro H. split; intro X.
  - apply cycle_reported_proof in X as [x Hx]. congruence.
  - apply missing_reported_proof in X as [x Hx]. congruence.
Qed.

(* later config sources override earlier ones for the same name *)
Definition push_sec (n : N) (acc : list section) (src : source) : list section :=
  match assoc n src with Some s => s :: acc | None => acc end.

Lemma fold_push_acc n (e : env) : forall acc, fold_left (push_sec n) e acc = fold_left (push_sec n) e [] ++ acc.
Proof.
  induction e as [|src e IH]; intro acc; cbn [fold_left].
  - reflexivity.
  - unfold push_sec at 2 4. destruct (assoc n src) as [s|].
    + rewrite (IH (s :: acc)), (IH [s]). rewrite <- app_assoc. reflexivity.
    + apply IH.
Qed.

Lemma stack_of_app e1 e2 n : stack_of (e1 ++ e2) n = stack_of e2 n ++ stack_of e1 n.
Proof.
  unfold stack_of. change (fun acc src => match assoc n src with Some s => s :: acc | None => acc end)
    with (push_sec n).
  rewrite fold_left_app. apply fold_push_acc.
Qed.

Theorem source_override_proof e src n s :
  assoc n src = Some s -> stack_of (e ++ [src]) n = s :: stack_of e n.
Proof. intro H. rewrite stack_of_app. unfold stack_of at 1. cbn. rewrite H. reflexivity. Qed.

(* ------------------------------------------------------------------ the fuel always suffices *)
Definition Bq (e : env) : nat := S (max_inh e).
Definition Wq (e : env) : nat := Nat.pow (Bq e) (length e).
Definition wt (e : env) (nd : node) : nat := Nat.pow (Bq e) (length (snd nd)).
Definition univ (e : env) : list N := flat_map (map fst) e.
Definition unv (e : env) (names : list N) : nat :=
  length (filter (fun n => negb (memN n names)) (univ e)).
Definition qsum (e : env) (q : list node) : nat := list_sum (map (wt e) q).
Definition in_env (e : env) (s : section) : Prop := exists src n, In src e /\ In (n, s) src.
Definition wf_node (e : env) (nd : node) : Prop :=
  snd nd <> [] /\ length (snd nd) <= length e /\ Forall (in_env e) (snd nd).

Lemma Bq_pos e : 1 <= Bq e. Proof. unfold Bq. lia. Qed.
Lemma pow_pos b n : 1 <= b -> 1 <= Nat.pow b n.
Proof. intro H. induction n; cbn; nia. Qed.

Lemma assoc_In {A} n (l : list (N * A)) v : assoc n l = Some v -> In (n, v) l.
Proof.
  induction l as [|[k x] l IH]; cbn; [discriminate|].
  destruct (N.eqb n k) eqn:E; intro H.
  - apply N.eqb_eq in E. injection H as ->. subst. left. reflexivity.
  - right. apply IH. exact H.
Qed.

Lemma fold_push_inv n (e : env) : forall acc s,
  In s (fold_left (push_sec n) e acc) -> In s acc \/ exists src, In src e /\ In (n, s) src.
Proof.
  induction e as [|src e IH]; intros acc s H; cbn [fold_left] in H.
  - left. exact H.
  - apply IH in H as [H|[src' [H1 H2]]].
    + unfold push_sec in H. destruct (assoc n src) as [s'|] eqn:A.
      * destruct H as [<-|H]; [|left; exact H]. right. exists src. split; [left; reflexivity|].
        apply assoc_In. exact A.
      * left. exact H.
    + right. exists src'. split; [right; exact H1 | exact H2].
Qed.

Lemma fold_push_len n (e : env) : forall acc,
  length (fold_left (push_sec n) e acc) <= length e + length acc.
Proof.
  induction e as [|src e IH]; intro acc; cbn [fold_left length].
  - lia.
  - specialize (IH (push_sec n acc src)). unfold push_sec in *. destruct (assoc n src); cbn in *; lia.
Qed.

Lemma stack_of_wf e i : stack_of e i <> [] -> wf_node e (i, stack_of e i) /\ In i (univ e).
Proof.
  intro H. unfold stack_of in *.
  change (fun acc src => match assoc i src with Some s => s :: acc | None => acc end) with (push_sec i) in *.
  split; [split; [exact H|split]|].
  - cbn [snd]. pose proof (fold_push_len i e []) as L. cbn [length] in L. rewrite Nat.add_0_r in L. exact L.
  - cbn [snd]. apply Forall_forall. intros s Hs. apply fold_push_inv in Hs as [[]|[src [H1 H2]]].
    exists src, i. auto.
  - destruct (fold_left (push_sec i) e []) as [|s l] eqn:E; [exfalso; apply H; exact E|].
    assert (Hs : In s (fold_left (push_sec i) e [])) by (rewrite E; left; reflexivity).
    apply fold_push_inv in Hs as [[]|[src [H1 H2]]].
    unfold univ. apply in_flat_map. exists src. split; [exact H1|].
    apply in_map_iff. exists (i, s). auto.
Qed.

Lemma max_inh_bound e s : in_env e s -> length (inherits [s]) <= max_inh e.
Proof.
  intros [src [n [H1 H2]]]. unfold max_inh.
  set (g := fun (m' : nat) (ns : N * section) => Nat.max m' (length (inherits [snd ns]))).
  assert (G1 : forall l m, m <= fold_left g l m).
  { induction l as [|x l IH]; intro m; cbn [fold_left]; [lia|]. specialize (IH (g m x)).
    assert (m <= g m x) by (unfold g; lia). lia. }
  assert (G2 : forall l m, In (n, s) l -> length (inherits [s]) <= fold_left g l m).
  { induction l as [|x l IH]; intros m []; cbn [fold_left].
    - subst x. pose proof (G1 l (g m (n, s))) as G.
      assert (length (inherits [s]) <= g m (n, s)) by (unfold g; cbn [snd]; lia). lia.
    - apply IH. assumption. }
  assert (F1 : forall l m, m <= fold_left (fun m0 src0 => fold_left g src0 m0) l m).
  { induction l as [|x l IH]; intro m; cbn [fold_left]; [lia|]. specialize (IH (fold_left g x m)).
    pose proof (G1 x m). lia. }
  revert H1. generalize 0. induction e as [|x e IH]; intros m []; cbn [fold_left].
  - subst x. pose proof (F1 e (fold_left g src m)). pose proof (G2 src m H2). lia.
  - apply IH. assumption.
Qed.

Lemma filter_len_le {A} (p q : A -> bool) l :
  (forall x, p x = true -> q x = true) -> length (filter p l) <= length (filter q l).
Proof.
  intro H. induction l as [|x l IH]; cbn [filter]; [lia|].
  destruct (p x) eqn:P.
  - rewrite (H x P). cbn [length]. lia.
  - destruct (q x); cbn [length]; lia.
Qed.

Lemma filter_len_lt {A} (p q : A -> bool) l a :
  (forall x, p x = true -> q x = true) -> In a l -> p a = false -> q a = true ->
  length (filter p l) < length (filter q l).
Proof.
  intros H Ha Pa Qa. induction l as [|x l IH]; [destruct Ha|]. cbn [filter].
  destruct Ha as [->|Ha].
  - rewrite Pa, Qa. cbn [length]. pose proof (filter_len_le p q l H). lia.
  - specialize (IH Ha). destruct (p x) eqn:P.
    + rewrite (H x P). cbn [length]. lia.
    + destruct (q x); cbn [length]; lia.
Qed.

Lemma filter_len_all {A} (p : A -> bool) l : length (filter p l) <= length l.
Proof. induction l as [|x l IH]; cbn [filter length]; [lia|]. destruct (p x); cbn [length]; lia. Qed.

Lemma memN_cons x i names : memN x (i :: names) = N.eqb x i || memN x names.
Proof. reflexivity. Qed.

Lemma unv_sub i names x :
  negb (memN x (i :: names)) = true -> negb (memN x names) = true.
Proof. rewrite memN_cons. destruct (N.eqb x i), (memN x names); cbn; congruence. Qed.

Lemma unv_mono e i names : unv e (i :: names) <= unv e names.
Proof. unfold unv. apply filter_len_le. intro x. apply unv_sub. Qed.

Lemma unv_dec e i names : In i (univ e) -> ~ In i names -> unv e (i :: names) < unv e names.
Proof.
  intros H Hn. unfold unv. apply (filter_len_lt _ _ _ i); [intro x; apply unv_sub | exact H | |].
  - rewrite memN_cons, N.eqb_refl. reflexivity.
  - destruct (memN i names) eqn:Mi; [apply memN_In in Mi; contradiction | reflexivity].
Qed.

Lemma qsum_app e a b : qsum e (a ++ b) = qsum e a + qsum e b.
Proof. unfold qsum. rewrite map_app, list_sum_app. reflexivity. Qed.

Lemma qsum_snoc e a nd : qsum e (a ++ [nd]) = qsum e a + wt e nd.
Proof. rewrite qsum_app. unfold qsum, list_sum. cbn [map fold_right]. lia. Qed.

Lemma wt_le_W e nd : length (snd nd) <= length e -> wt e nd <= Wq e.
Proof. intro H. unfold wt, Wq. apply Nat.pow_le_mono_r; [pose proof (Bq_pos e); lia | exact H]. Qed.

(* accounting for one slist entry: a non-self inherit pays for its new entry with the name it
   uses up; a self-inherit costs one entry with a shorter stack *)
Lemma scan_measure e cur st : wf_node e (cur, st) -> forall inh names acc names' new,
  scan_inh e cur st inh names acc = inr (names', new) ->
  Forall (wf_node e) acc ->
  Forall (wf_node e) new /\
  unv e names' * Wq e + qsum e new
    <= unv e names * Wq e + qsum e acc + length inh * Nat.pow (Bq e) (pred (length st)).
Proof.
  intros [Hne [Hlen Hall]]. cbn [snd] in *.
  induction inh as [|i r IH]; intros names acc names' new H Facc; cbn [scan_inh] in H.
  - injection H as <- <-. split; [exact Facc | cbn; lia].
  - destruct (N.eqb i cur) eqn:E.
    + destruct (tl st) as [|s' st'] eqn:T; [discriminate|].
      assert (Wn : wf_node e (i, s' :: st')).
      { destruct st as [|s0 st0]; [congruence|]. cbn in T. subst st0.
        split; [discriminate|]. cbn [snd length] in *. split; [lia|]. inversion Hall; assumption. }
      apply IH in H as [Fn Le].
      * split; [exact Fn|]. rewrite qsum_snoc in Le.
        assert (Hw : wt e (i, s' :: st') = Nat.pow (Bq e) (pred (length st))).
        { unfold wt. cbn [snd]. destruct st as [|s0 st0]; [congruence|]. cbn in T. subst st0. reflexivity. }
        rewrite Hw in Le. cbn [length]. nia.
      * apply Forall_app. split; [exact Facc | constructor; [exact Wn | constructor]].
    + destruct (memN i names) eqn:Mm; [discriminate|].
      destruct (stack_of e i) as [|t0 t] eqn:T; [discriminate|].
      assert (Hs : stack_of e i <> []) by congruence.
      destruct (stack_of_wf e i Hs) as [Wn Iu]. rewrite T in Wn.
      assert (Ni : ~ In i names) by (intro X; apply memN_In in X; congruence).
      pose proof (unv_dec e i names Iu Ni) as Dec.
      apply IH in H as [Fn Le].
      * split; [exact Fn|]. rewrite qsum_snoc in Le.
        pose proof (wt_le_W e (i, t0 :: t) (proj1 (proj2 Wn))) as Lw.
        cbn [length]. nia.
      * apply Forall_app. split; [exact Facc | constructor; [exact Wn | constructor]].
Qed.

Lemma scan_not_fuel e cur st : forall inh names acc, scan_inh e cur st inh names acc <> inl EFuel.
Proof.
  induction inh as [|i r IH]; intros names acc; cbn [scan_inh]; [discriminate|].
  destruct (N.eqb i cur).
  - destruct (tl st); [discriminate | apply IH].
  - destruct (memN i names); [discriminate|]. destruct (stack_of e i); [discriminate | apply IH].
Qed.

Lemma bfs_fuel_enough e : forall fuel q names out,
  Forall (wf_node e) q -> unv e names * Wq e + qsum e q <= fuel ->
  bfs fuel e q names out <> inl EFuel.
Proof.
  induction fuel as [|f IH]; intros q names out Fq Hm.
  - destruct q as [|[cur st] q]; cbn [bfs]; [discriminate|]. exfalso.
    change (qsum e ((cur, st) :: q)) with (wt e (cur, st) + qsum e q) in Hm. pose proof (pow_pos (Bq e) (length st) (Bq_pos e)). unfold wt in Hm. cbn [snd] in Hm. lia.
  - destruct q as [|[cur st] q]; cbn [bfs]; [discriminate|].
    destruct (scan_inh e cur st (inherits st) names []) as [x|[names' new]] eqn:S.
    + intro X. injection X as ->. exact (scan_not_fuel _ _ _ _ _ _ S).
    + inversion Fq as [|a b Wn Fq']; subst.
      destruct (scan_measure e cur st Wn _ _ _ _ _ S (Forall_nil _)) as [Fn Le].
      apply IH; [apply Forall_app; split; assumption|].
      rewrite qsum_app.
      change (qsum e []) with 0 in Le.
      change (qsum e ((cur, st) :: q)) with (wt e (cur, st) + qsum e q) in Hm.
      destruct Wn as [Hne [Hlen Hall]]. cbn [snd] in *.
      destruct st as [|s0 st0]; [congruence|].
      assert (Li : length (inherits (s0 :: st0)) <= max_inh e).
      { inversion Hall; subst. apply (max_inh_bound e s0). assumption. }
      change (wt e (cur, s0 :: st0)) with (Bq e * Nat.pow (Bq e) (length st0)) in Hm. cbn [length pred] in Le.
      pose proof (pow_pos (Bq e) (length st0) (Bq_pos e)) as Pp.
      unfold Bq in *. nia.
Qed.

Theorem never_out_of_fuel_proof e name : collapse e name <> inl EFuel.
Proof.
  unfold collapse. destruct (stack_of e name) as [|s0 rest] eqn:S; [discriminate|]. cbv zeta.
  assert (Hs : stack_of e name <> []) by congruence.
  destruct (stack_of_wf e name Hs) as [Wn _]. rewrite S in Wn.
  assert (B : bfs (fuel_of e) e [(name, s0 :: rest)] [name] [] <> inl EFuel).
  { apply bfs_fuel_enough; [constructor; [exact Wn | constructor]|].
    change (qsum e [(name, s0 :: rest)]) with (wt e (name, s0 :: rest) + 0). pose proof (wt_le_W e _ (proj1 (proj2 Wn))) as Lw.
    assert (U : unv e [name] <= n_names e).
    { unfold unv. etransitivity; [apply filter_len_all|]. unfold univ, n_names.
      assert (G : forall l m, fold_left (fun m0 (src : source) => m0 + length src) l m
                              = m + length (flat_map (map fst) l)).
      { induction l as [|x l IH]; intro m; cbn; [lia|]. rewrite IH, app_length, map_length. lia. }
      rewrite G. lia. }
    unfold fuel_of. fold (Bq e). cbn [Nat.pow]. fold (Wq e).
    pose proof (Bq_pos e). pose proof (pow_pos (Bq e) (length e) (Bq_pos e)). unfold Wq in *. nia. }
  destruct (s_ionly s0) as [[|]|]; try discriminate;
    (destruct (bfs (fuel_of e) e [(name, s0 :: rest)] [name] []) as [x|order];
     [intro X; injection X as ->; congruence |
      destruct (first_some (fun nd => s_class (head_sec nd)) order); discriminate]).
Qed.

Theorem errors_are_reported_proof e name :
  has_cycle e name \/ has_missing e name -> exists x, collapse e name = inl x /\ x <> EFuel.
Proof.
  intro H. assert (X : exists x, collapse e name = inl x).
  { destruct H; [apply cycle_reported_proof | apply missing_reported_proof]; assumption. }
  destruct X as [x Hx]. exists x. split; [exact Hx|]. intros ->. exact (never_out_of_fuel_proof e name Hx).
Qed.

(* ------------------------------------------------------------------ non-vacuity *)
Local Open Scope bs_scope.
(* two sources; a <- [b; c], b <- d; later source overrides b and self-inherits the earlier b *)
Example ex_tree :
  run_collapse "a,bc,0-,w01;b,d,--,x02y03;c,,--,x04z05;d,,--,y06z07|b,b,--,y08@abcd"
  = VT "c001040805|Ec|Ec|Ec".
Proof. vm_compute. reflexivity. Qed.
(* value code 00 (the falsy value of the key's type) set nearer shadows truthy values set farther:
   a's own w00 and z00, and b's later-source x00 before the earlier b's x02 *)
Example ex_falsy_nearest :
  run_collapse "a,b,0-,w00z00;b,,--,w07x02y01z08|b,b,--,x00@a" = VT "c000000100".
Proof. vm_compute. reflexivity. Qed.
Example ex_errors :
  run_collapse "a,b,0-,;b,a,--,;c,x,0-,;d,d,0-,;e,,0t,;f,,--,@abcdefg"
  = VT "Era|Erb|Emx|Esd|Ei|Ec|En".
Proof. vm_compute. reflexivity. Qed.
Example ex_cycle : has_cycle (fst (dec_case "a,b,0-,;b,a,--,@a")) 97.
Proof.
  set (e := fst (dec_case "a,b,0-,;b,a,--,@a")).
  exists (root e 97), (98%N, stack_of e 98), (97%N, stack_of e 97).
  split; [apply R_refl|]. split.
  - eapply R_step; [|apply R_refl]. vm_compute. left. reflexivity.
  - split; [vm_compute; left; reflexivity|]. split; [vm_compute; discriminate | reflexivity].
Qed.
Example ex_missing : has_missing (fst (dec_case "c,x,0-,@c")) 99.
Proof.
  exists (root (fst (dec_case "c,x,0-,@c")) 99), 120%N. split; [apply R_refl|].
  split; [vm_compute; left; reflexivity|]. left. split; [vm_compute; discriminate | reflexivity].
Qed.
