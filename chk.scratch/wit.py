import random, collections, json
from harness import c17
from harness.common import shrink_list
from pkgcore.resolver import state as st
rng = random.Random(7)
ex = {}; cnt = collections.Counter()
for i in range(120000):
    cfg = c17.rand_cfg(rng); h = c17.gen_mal(rng, rng.randrange(2, 8))
    tr, f = c17.run_history(st, cfg, h)
    if f:
        k = f["first_nonwf"][1] if f["first_nonwf"] else "WF"
        cnt[k] += 1
        if k not in ex or len(h) < len(ex[k][1]): ex[k] = (cfg, h)
print(cnt)
out = []
for k, (cfg, h) in sorted(ex.items()):
    def fails(hh):
        try: _, f = c17.run_history(st, cfg, hh)
        except Exception: return False
        return f is not None and f["first_nonwf"] and f["first_nonwf"][1] == k
    hs = shrink_list(h, fails)
    _, f = c17.run_history(st, cfg, hs)
    print(k, cfg[2:], hs, "\n    ", f["what"], f.get("after_rollback"), f.get("replay"))
    out.append({"class": k, "cfg": cfg, "history": hs, "what": f["what"]})
json.dump(out, open("chk.scratch/wit.json", "w"))
