import os, tempfile, shutil, time, sys
from pkgcore.ebuild import repository
d = tempfile.mkdtemp(prefix="c49_")
os.makedirs(f"{d}/profiles"); os.makedirs(f"{d}/metadata"); os.makedirs(f"{d}/eclass"); os.makedirs(f"{d}/cat/pkg")
open(f"{d}/profiles/repo_name","w").write("c49\n")
open(f"{d}/metadata/layout.conf","w").write("masters =\ncache-formats =\n")
N=int(sys.argv[1])
for i in range(N):
    open(f"{d}/eclass/c{i}a.eclass","w").write(f'IUSE="ea"\nDEPEND="cat/ea"\ninherit c{i}b\nIUSE+=" ea2"\nsrc_compile() {{ :; }}\n')
    open(f"{d}/eclass/c{i}b.eclass","w").write('IUSE="eb"\nRDEPEND="cat/eb"\nRESTRICT="test"\npkg_setup() { :; }\n')
    os.makedirs(f"{d}/cat/p{i}")
    open(f"{d}/cat/p{i}/p{i}-1.ebuild","w").write(f'EAPI={i%9}\nIUSE="own"\nDEPEND="cat/own"\ninherit c{i}a\nSLOT=0\nDESCRIPTION="x"\nRESTRICT="mirror"\n')
t=time.time()
repo = repository.UnconfiguredTree(d)
n=0
for pkg in repo:
    x = dict(pkg.data); n+=1
    if n<3: print(pkg, x)
print(n, time.time()-t)
shutil.rmtree(d)
