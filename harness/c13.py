"""C13 — package visibility follows mask, keyword and license configuration (DESIGN §6 C13).

One stream of "worlds".  A world = a real on-disk ebuild repository (<= 8 packages with KEYWORDS,
SLOT and LICENSE incl. `||`, nested groups and USE conditionals; metadata served from a md5-dict
cache so no bash runs), a profile stack of 1-3 nodes (package.mask/unmask with `-atom` lines,
package.keywords, package.accept_keywords, make.defaults with ARCH / ACCEPT_KEYWORDS /
ACCEPT_LICENSE / USE), profiles/package.mask, profiles/license_groups (nested, missing members)
and a user configuration directory (package.mask, package.unmask, package.keywords,
package.accept_keywords — file or directory —, package.license) plus make.conf-level
ACCEPT_KEYWORDS / ACCEPT_LICENSE settings.  A real `pkgcore.ebuild.domain.domain` is built over
it and, for every package,
   overall  = is the package returned by the filtered, configured repository (domain._wrap_repo)
   parts    = the three conjuncts separately: filter_repo(pkg_filters=()) (masks only),
              _pkg_filters()[0] (keywords), _pkg_filters()[1] (license)
are recorded.  (A) Model_C13.run_world (evaluated inside Coq) must give the same values;
(B) Spec_C13.spec_world_ok (inside Coq) and `ref_visible` below (Python, written from the
statement: last writer wins scanned from the right, LICENSE as a formula) must accept the
implementation's overall answers.  Atoms/globs are abstracted to ids; which package an atom
matches is decided by `atom_matches` below (independent of pkgcore's matcher).
"""

from __future__ import annotations

import hashlib
import json
import logging
import os
import shutil
import tempfile

from .common import Check, Err, Raw, cN, cbool, clist, cpair, cval, impl_call

IMPORTS = ("From Coq Require Import List NArith ZArith Bool.\n"
           "From Verif Require Import Base.Val C12.Model_C12 C13.Model_C13 C13.Spec_C13.")
ANCHORS = ["ebuild/domain.py::generate_filter", "ebuild/domain.py::make_mask_filter",
           "ebuild/domain.py::apply_mask_filter", "ebuild/domain.py::domain.filter_repo",
           "ebuild/domain.py::domain._pkg_filters", "ebuild/domain.py::domain._make_keywords_filter",
           "ebuild/domain.py::domain._apply_keywords_filter", "ebuild/domain.py::domain._apply_license_filter",
           "ebuild/misc.py::collapsed_restrict_to_data", "ebuild/misc.py::non_incremental_collapsed_restrict_to_data",
           "ebuild/misc.py::incremental_expansion_license", "ebuild/misc.py::incremental_expansion",
           "repository/filtered.py::tree.itermatch", "ebuild/profiles.py::ProfileStack.default_env",
           "ebuild/profiles.py::ProfileNode._parse_atom_negations", "ebuild/repo_objs.py::Licenses._expand_groups",
           "ebuild/const.py"]

ARCH = "a1"
CATS = ("ca", "cb")
NAMES = ("p1", "p2", "p3")
VERS = ("1", "2")
SLOTS = ("0", "1")
LICS = ("L1", "L2", "L3", "L4")
GROUPS = ("G1", "G2", "G3")
FLAGS = ("f1", "f2")
KW_POOL = ("a1", "~a1", "b2", "~b2")
KINDS = {"ValueError": "ValueError"}


# ------------------------------------------------------------------ atoms (independent matcher)
def atom_kind(s: str) -> str:
    """bucket collapsed_restrict_to_data must file the parsed line under, decided from syntax"""
    body = s.split("::")[0]
    has_slot = ":" in body
    cp = body.split(":")[0].lstrip("<>=~")
    if "/" in cp:
        cat, name = cp.split("/")
    else:
        cat, name = "*", cp
    if "::" in s and (cat == "*" or name == "*"):
        return "EMulti"
    if cat == "*" and name == "*":
        return "EMulti" if has_slot else "EAlways"
    if cat == "*" or name == "*":
        return "EMulti" if has_slot else ("ECat" if name == "*" else "EPkg")
    return "EAtom"


def atom_parts(s: str):
    body = s.split("::")[0]
    slot = None
    if ":" in body:
        body, slot = body.split(":")
    op = ""
    while body and body[0] in "<>=~":
        op += body[0]
        body = body[1:]
    ver = None
    if op:
        body, ver = body.rsplit("-", 1)
    if "/" in body:
        cat, name = body.split("/")
    else:
        cat, name = "*", body
    return op, cat, name, ver, slot


def atom_matches(s: str, p) -> bool:
    op, cat, name, ver, slot = atom_parts(s)
    if cat != "*" and cat != p["cat"]:
        return False
    if name != "*" and name != p["name"]:
        return False
    if slot is not None and slot != p["slot"]:
        return False
    if op:
        a, b = int(p["ver"]), int(ver)
        return {"=": a == b, "~": a == b, ">=": a >= b, "<=": a <= b, ">": a > b, "<": a < b}[op]
    return True


def atom_samekey(s: str, p) -> bool:
    _, cat, name, _, _ = atom_parts(s)
    return cat == p["cat"] and name == p["name"]


# ------------------------------------------------------------------ generator
def gen_license(rng, depth=0):
    """a list of top-level LICENSE items; item = str | ("all", items) | ("any", items) | ("use", neg, flag, items)"""
    n = rng.choice((0, 1, 1, 1, 2, 2, 3)) if depth == 0 else rng.choice((1, 2, 2, 3))
    out = []
    for _ in range(n):
        r = rng.random()
        if depth >= 3 or r < 0.5:
            out.append(rng.choice(LICS))
        elif r < 0.7:
            out.append(("any", gen_license(rng, depth + 1)))
        elif r < 0.88:
            out.append(("use", rng.random() < 0.3, rng.choice(FLAGS), gen_license(rng, depth + 1)))
        else:
            out.append(("all", gen_license(rng, depth + 1)))
    return out


def lic_str(items) -> str:
    out = []
    for it in items:
        if isinstance(it, str):
            out.append(it)
        elif it[0] == "all":
            out.append("( %s )" % lic_str(it[1]))
        elif it[0] == "any":
            out.append("|| ( %s )" % lic_str(it[1]))
        else:
            out.append("%s%s? ( %s )" % ("!" if it[1] else "", it[2], lic_str(it[3])))
    return " ".join(out)


def gen_world(rng, malformed=False):
    w = {}
    combos = [(c, n, v) for c in CATS for n in NAMES for v in VERS]
    chosen = rng.sample(combos, rng.randint(3, 8))
    pkgs = []
    for c, n, v in sorted(chosen):
        r = rng.random()
        if r < 0.08:
            kws = []
        else:
            kws = rng.sample(KW_POOL, rng.randint(1, 3))
            if rng.random() < 0.12:
                kws.insert(0, "-*")
            if rng.random() < 0.08:
                kws.append("-a1")
        pkgs.append({"cat": c, "name": n, "ver": v, "slot": rng.choice(SLOTS), "kw": kws,
                     "lic": gen_license(rng)})
    w["pkgs"] = pkgs
    keys = sorted({(p["cat"], p["name"]) for p in pkgs})

    def atom(globs=False):
        r = rng.random()
        if globs and r < 0.3:
            return rng.choice(("*/*", "*/*", "ca/*", "cb/*", "*/p1", "*/p2", "p3", "ca/*:1", "*/*:0", "*/*::tr"))
        c, n = rng.choice(keys) if rng.random() < 0.85 else (rng.choice(CATS), rng.choice(NAMES))
        r = rng.random()
        if r < 0.45:
            return f"{c}/{n}"
        if r < 0.6:
            return f"={c}/{n}-{rng.choice(VERS)}"
        if r < 0.72:
            return f">={c}/{n}-2"
        if r < 0.8:
            return f"<{c}/{n}-2"
        return f"{c}/{n}:{rng.choice(SLOTS)}"

    # ---- masks
    seen = []

    def mask_lines(globs, negs):
        out = []
        for _ in range(rng.choice((0, 0, 1, 1, 2, 3))):
            if negs and seen and rng.random() < 0.35:
                out.append("-" + rng.choice(seen))
            else:
                a = rng.choice(seen) if seen and rng.random() < 0.25 else atom(globs)
                out.append(a)
                if atom_kind(a) == "EAtom":
                    seen.append(a)
        return out

    w["repo_masks"] = mask_lines(False, False)
    nnodes = rng.choice((1, 2, 2, 3))
    nodes = []
    for i in range(nnodes):
        nodes.append({"masks": mask_lines(False, True)})
    w["user_masks"] = mask_lines(True, False)
    seen = []
    for nd in nodes:
        nd["unmasks"] = mask_lines(False, True)
    w["user_unmasks"] = mask_lines(True, False)

    # ---- keywords
    mode = rng.random()
    base_ak = [ARCH] if mode < 0.55 else [ARCH, "~" + ARCH]
    if rng.random() < 0.15:
        base_ak.append(rng.choice(("b2", "~b2")))
    for i, nd in enumerate(nodes):
        nd["ak"] = list(base_ak) if i == 0 else (
            [rng.choice(("~a1", "-~a1", "b2", "-b2", "-*", "a1"))] if rng.random() < 0.25 else None)
    user_ak = None
    r = rng.random()
    if r < 0.3:
        user_ak = rng.sample(("~a1", "-~a1", "~b2", "b2", "-a1", "a1"), rng.randint(1, 2))
    elif r < 0.42:
        user_ak = [rng.choice(("**", "*", "~*"))] + ([rng.choice(("~a1", "-~a1"))] if rng.random() < 0.3 else [])
    elif r < 0.47:
        user_ak = ["-*", rng.choice(("a1", "~a1", "b2"))]
    w["user_ak"] = user_ak
    ktoks = ("a1", "~a1", "b2", "~b2", "**", "*", "~*", "-a1", "-~a1", "-b2", "-*", "-~b2")

    def kw_line(globs):
        a = atom(globs)
        r = rng.random()
        if r < 0.25:
            toks = []
        else:
            toks = [rng.choice(ktoks) for _ in range(rng.choice((1, 1, 2, 3)))]
        return (a, toks)

    w["user_pak"] = [kw_line(True) for _ in range(rng.choice((0, 1, 2, 3, 4)))]
    w["user_pak_dir"] = rng.random() < 0.3
    w["user_pkw"] = [kw_line(True) for _ in range(rng.choice((0, 0, 0, 1)))]
    for nd in nodes:
        nd["pak"] = [kw_line(False) for _ in range(rng.choice((0, 0, 1, 2)))]
        nd["pkw"] = [(atom(False), rng.sample(KW_POOL, rng.randint(1, 2))) for _ in range(rng.choice((0, 0, 0, 1)))]
    if rng.random() < 0.3:   # plain world: the containment short cut of _make_keywords_filter
        w["user_pak"], w["user_pkw"] = [], []
        for nd in nodes:
            nd["pak"], nd["pkw"] = [], []

    # ---- licenses
    ltoks = LICS + tuple("-" + x for x in LICS) + tuple("@" + g for g in GROUPS) \
        + tuple("-@" + g for g in GROUPS) + ("*", "-*", "@GX")

    def lic_toks(n):
        return [rng.choice(ltoks) for _ in range(n)]

    for i, nd in enumerate(nodes):
        nd["al"] = lic_toks(rng.randint(1, 3)) if rng.random() < (0.6 if i == 0 else 0.2) else None
    w["user_al"] = lic_toks(rng.randint(1, 3)) if rng.random() < 0.4 else None
    w["user_plic"] = [(atom(True), lic_toks(rng.choice((0, 1, 1, 2)))) for _ in range(rng.choice((0, 0, 1, 2, 3)))]
    groups = {}
    for i, g in enumerate(GROUPS):
        if rng.random() < 0.8:
            mem = rng.sample(LICS, rng.randint(1, 2))
            if i + 1 < len(GROUPS) and rng.random() < 0.4:
                mem.append("@" + GROUPS[i + 1])
            if rng.random() < 0.1:
                mem.append("@GX")
            groups[g] = mem
    w["groups"] = groups
    for i, nd in enumerate(nodes):
        nd["use"] = rng.sample(FLAGS, rng.randint(0, 2)) if i == 0 else (
            [rng.choice(("f1", "-f1", "f2", "-f2"))] if rng.random() < 0.2 else None)
    w["nodes"] = nodes
    w["malformed"] = None
    if malformed:
        where = rng.choice(("ak", "pak_global", "pak_specific", "al", "plic", "prof_pak"))
        bad = "-"
        if where == "ak":
            w["user_ak"] = (w["user_ak"] or []) + [bad]
        elif where == "pak_global":
            w["user_pak"].insert(rng.randint(0, len(w["user_pak"])), ("*/*", ["~a1", bad]))
        elif where == "pak_specific":
            c, n = rng.choice(keys)
            w["user_pak"].insert(rng.randint(0, len(w["user_pak"])), (f"{c}/{n}", [bad, "~a1"]))
        elif where == "prof_pak":
            c, n = rng.choice(keys)
            nodes[-1]["pak"].append((f"{c}/{n}", ["~b2", bad]))
        elif where == "al":
            bad = rng.choice(("-", "-@", "@"))
            w["user_al"] = (w["user_al"] or ["L1"]) + [bad]
        else:
            bad = rng.choice(("-", "-@", "@"))
            c, n = rng.choice(keys)
            w["user_plic"].append((rng.choice((f"{c}/{n}", "*/*")), ["L2", bad]))
        w["malformed"] = where
    return w


# ------------------------------------------------------------------ derived (config as the code sees it)
def close_groups(groups):
    """fixpoint closure of nested license groups; a missing group has no members"""
    out = {}

    def members(g, stack=()):
        res = set()
        for m in groups.get(g, ()):
            if m.startswith("@"):
                if m[1:] not in stack:
                    res |= members(m[1:], stack + (g,))
            else:
                res.add(m)
        return res

    for g in groups:
        out[g] = sorted(members(g))
    return out


def use_of(w):
    s = set()
    for nd in w["nodes"]:
        for t in nd["use"] or ():
            if t.startswith("-"):
                s.discard(t[1:])
            else:
                s.add(t)
    return sorted(s)


def stack(w, key, user):
    out = []
    for nd in w["nodes"]:
        out += nd[key] or []
    return out + (w[user] or [])


def kw_entries(w):
    out = list(w["user_pkw"]) + list(w["user_pak"])
    for nd in w["nodes"]:
        out += nd["pak"]
    return out


def prof_kw(w):
    return [e for nd in w["nodes"] for e in nd["pkw"]]


def split_neg(lines):
    return [l[1:] for l in lines if l.startswith("-")], [l for l in lines if not l.startswith("-")]


def node_stack(w, key):
    return [split_neg(nd[key]) for nd in w["nodes"] if nd[key]]


# ------------------------------------------------------------------ reference evaluator (B), from the statement
def last_writer(tokens, x, adds, dels, default=False):
    for t in reversed(tokens):
        if adds(t, x):
            return True
        if dels(t, x):
            return False
    return default


def inc_member(tokens, x):
    return last_writer(tokens, x, lambda t, y: t == y and not t.startswith("-"),
                       lambda t, y: t == "-*" or t == "-" + y)


def dedup(toks):
    out = []
    for t in toks:
        if t not in out:
            out.append(t)
    return out


def ref_mask_ok(w, p):
    def effective(seq):
        # seq: list of (neg, pos); an atom is in force iff its last mention is positive
        univ = {a for neg, pos in seq for a in pos}
        eff = set()
        for a in univ:
            for neg, pos in reversed(seq):
                if a in pos:
                    eff.add(a)
                    break
                if a in neg:
                    break
        return eff
    masks = effective([([], w["repo_masks"])] + node_stack(w, "masks") + [([], w["user_masks"])])
    unmasks = effective(node_stack(w, "unmasks") + [([], w["user_unmasks"])])
    masked = any(atom_matches(a, p) for a in masks)
    unmasked = any(atom_matches(a, p) for a in unmasks)
    return (not masked) or unmasked


def ref_kw_ok(w, p):
    ak = stack(w, "ak", "user_ak")
    univ = {t.lstrip("-") for t in ak} | {ARCH}
    e = {x for x in univ if inc_member(ak, x)}
    dk = {ARCH} | e | {x.lstrip("~") for x in e if x.startswith("~")}
    stable = ("~" + ARCH) not in dk
    ks = list(p["kw"])
    for a, add in prof_kw(w):
        if atom_matches(a, p):
            ks += add
    ents = [(a, dedup(t)) for a, t in kw_entries(w)]
    if stable:
        ents = [(a, t or ["~" + ARCH]) for a, t in ents]
    else:
        ents = [(a, t) for a, t in ents if t]
    glob = [t for a, ts in ents if atom_kind(a) == "EAlways" for t in ts]
    spec = []
    for kind in ("ECat", "EPkg", "EMulti"):
        spec += [t for a, ts in ents if atom_kind(a) == kind and atom_matches(a, p) for t in ts]
    seen_key = False
    for a, ts in ents:
        k = atom_kind(a)
        if k == "EAtom" and atom_samekey(a, p):
            seen_key = True
            if atom_matches(a, p):
                spec += ts
        elif k == "EAlways" and seen_key:
            spec += [t for t in ts if t.startswith("-")]
    head = sorted(dk) + glob
    if stable:
        def accepted(x):
            return inc_member(head + spec, x)
    else:
        def accepted(x):
            return inc_member(head, x) or x in spec
    if accepted("**"):
        return True
    if accepted("*") and any(k[0] not in "-~" for k in ks):
        return True
    if accepted("~*") and any(k[0] == "~" for k in ks):
        return True
    return any(accepted(k) for k in ks)


def ref_lic_ok(w, p):
    al = stack(w, "al", "user_al")
    if not al and not w["user_plic"]:
        return True
    toks = list(al)
    for a, ts in w["user_plic"]:
        if atom_matches(a, p):
            toks += dedup(ts)
    groups = close_groups(w["groups"])
    use = use_of(w)

    def adds(t, x):
        if t.startswith("-"):
            return False
        if t.startswith("@"):
            return x in groups.get(t[1:], ())
        return t == "*" or t == x

    def dels(t, x):
        if not t.startswith("-"):
            return False
        if t == "-*":
            return True
        if t.startswith("-@"):
            return x in groups.get(t[2:], ())
        return t[1:] == x

    def acc(x):
        return last_writer(toks, x, adds, dels)

    def ev(it):
        """None = absent (disabled conditional / emptied group)"""
        if isinstance(it, str):
            return acc(it)
        if it[0] == "use":
            if (it[2] in use) == it[1]:
                return None
            vals = [v for v in map(ev, it[3]) if v is not None]
            return all(vals) if vals else None
        vals = [v for v in map(ev, it[1]) if v is not None]
        if not vals:
            return None
        return all(vals) if it[0] == "all" else any(vals)

    return all(v for v in map(ev, p["lic"]) if v is not None)


def ref_visible(w, p):
    return ref_mask_ok(w, p) and ref_kw_ok(w, p) and ref_lic_ok(w, p)


# ------------------------------------------------------------------ known-finding class predicates
def empty_global_entry_stable(w) -> bool:
    """a match-all accept_keywords entry without keywords on a stable system"""
    ak = stack(w, "ak", "user_ak")
    if any(t in ("-", "") for t in ak):
        return False
    e = {x for x in {t.lstrip("-") for t in ak} if inc_member(ak, x)}
    dk = {ARCH} | e | {x.lstrip("~") for x in e if x.startswith("~")}
    return ("~" + ARCH) not in dk and any(atom_kind(a) == "EAlways" and not t for a, t in kw_entries(w))


def wildcard_fast_path(w) -> bool:
    """ACCEPT_KEYWORDS holds *, ~* or ** and there is no accept_keywords / profile package.keywords entry"""
    ak = stack(w, "ak", "user_ak")
    e = {x for x in ("*", "~*", "**") if inc_member(ak, x)}
    return bool(e) and not kw_entries(w) and not prof_kw(w)


# ------------------------------------------------------------------ materialise + drive the implementation
class _Ref:
    name = "tr"

    def __init__(self, repo):
        self.repo = repo

    def instantiate(self):
        return self.repo


def materialise(w, d):
    def wr(p, s):
        p = os.path.join(d, p)
        os.makedirs(os.path.dirname(p), exist_ok=True)
        with open(p, "w") as f:
            f.write(s)

    def lines(ents):
        return "".join("%s %s\n" % (a, " ".join(t)) for a, t in ents)

    wr("repo/profiles/repo_name", "tr\n")
    wr("repo/metadata/layout.conf", "masters =\ncache-formats = md5-dict\n")
    wr("repo/profiles/categories", "".join(c + "\n" for c in CATS))
    wr("repo/profiles/arch.list", "a1\nb2\n")
    wr("repo/profiles/eapi", "8\n")
    if w["repo_masks"]:
        wr("repo/profiles/package.mask", "# repo level\n" + "".join(a + "\n" for a in w["repo_masks"]))
    if w["groups"]:
        wr("repo/profiles/license_groups", "".join("%s %s\n" % (g, " ".join(m)) for g, m in w["groups"].items()))
    for i, nd in enumerate(w["nodes"]):
        base = f"repo/profiles/n{i}/"
        wr(base + "eapi", "8\n")
        if i:
            wr(base + "parent", f"../n{i - 1}\n")
        md = []
        if i == 0:
            md.append(f'ARCH="{ARCH}"')
        if nd["ak"] is not None:
            md.append('ACCEPT_KEYWORDS="%s"' % " ".join(nd["ak"]))
        if nd["al"] is not None:
            md.append('ACCEPT_LICENSE="%s"' % " ".join(nd["al"]))
        if nd["use"] is not None:
            md.append('USE="%s"' % " ".join(nd["use"]))
        wr(base + "make.defaults", "\n".join(md) + "\n")
        for key, fn in (("masks", "package.mask"), ("unmasks", "package.unmask")):
            if nd[key]:
                wr(base + fn, "".join(a + "\n" for a in nd[key]))
        if nd["pak"]:
            wr(base + "package.accept_keywords", lines(nd["pak"]))
        if nd["pkw"]:
            wr(base + "package.keywords", lines(nd["pkw"]))
    os.makedirs(os.path.join(d, "conf"), exist_ok=True)
    if w["user_masks"]:
        wr("conf/package.mask", "".join(a + "\n" for a in w["user_masks"]))
    if w["user_unmasks"]:
        wr("conf/package.unmask", "".join(a + "\n" for a in w["user_unmasks"]))
    if w["user_pkw"]:
        wr("conf/package.keywords", lines(w["user_pkw"]))
    if w["user_pak"]:
        if w["user_pak_dir"] and len(w["user_pak"]) > 1:
            wr("conf/package.accept_keywords/10-b", "# second\n" + lines(w["user_pak"][1:]))
            wr("conf/package.accept_keywords/05-a", lines(w["user_pak"][:1]))
        else:
            wr("conf/package.accept_keywords", lines(w["user_pak"]))
    if w["user_plic"]:
        wr("conf/package.license", lines(w["user_plic"]))
    for p in w["pkgs"]:
        kw, lic = " ".join(p["kw"]), lic_str(p["lic"])
        eb = 'EAPI=8\nSLOT="%s"\nKEYWORDS="%s"\nLICENSE="%s"\nIUSE="f1 f2"\n' % (p["slot"], kw, lic)
        wr(f"repo/{p['cat']}/{p['name']}/{p['name']}-{p['ver']}.ebuild", eb)
        md5 = hashlib.md5(eb.encode()).hexdigest()
        wr(f"repo/metadata/md5-cache/{p['cat']}/{p['name']}-{p['ver']}",
           f"DEFINED_PHASES=-\nEAPI=8\nIUSE=f1 f2\nKEYWORDS={kw}\nLICENSE={lic}\nSLOT={p['slot']}\n_md5_={md5}\n")


def run_impl(w, d):
    """-> (overall, parts): per package visible?/Err ; [mask_ok, kw, lic] or Err"""
    from pkgcore.cache.flat_hash import md5_cache
    from pkgcore.ebuild import domain as domain_mod
    from pkgcore.ebuild import profiles
    from pkgcore.ebuild import repository as ebuild_repo
    from pkgcore.ebuild.atom import atom
    from pkgcore.ebuild.repo_objs import RepoConfig

    materialise(w, d)
    rp = os.path.join(d, "repo")
    rc = RepoConfig(rp)
    repo = ebuild_repo.UnconfiguredTree(rp, repo_config=rc, cache=(md5_cache(rp),))
    prof = profiles.OnDiskProfile(os.path.join(rp, "profiles"), "n%d" % (len(w["nodes"]) - 1))
    settings = {"CHOST": "x", "DISTDIR": os.path.join(d, "dist")}
    if w["user_ak"] is not None:
        settings["ACCEPT_KEYWORDS"] = " ".join(w["user_ak"])
    if w["user_al"] is not None:
        settings["ACCEPT_LICENSE"] = " ".join(w["user_al"])
    dom = domain_mod.domain(prof, [_Ref(repo)], [], root=os.path.join(d, "root"),
                            config_dir=os.path.join(d, "conf"), **settings)
    n = len(w["pkgs"])
    fr = impl_call(lambda: dom._wrap_repo(repo), kinds=KINDS)
    if isinstance(fr, Err):
        return [fr] * n, fr
    conf = dom._configure_repo(repo)
    monly = dom.filter_repo(conf, pkg_filters=())
    filters = dom._pkg_filters()
    overall, parts = [], []
    for p in w["pkgs"]:
        a = atom(f"={p['cat']}/{p['name']}-{p['ver']}")
        overall.append(impl_call(lambda: len(list(fr.itermatch(a))) == 1, kinds=KINDS))
        cp = conf.match(a)[0]
        parts.append([impl_call(lambda: len(list(monly.itermatch(a))) == 1, kinds=KINDS),
                      impl_call(lambda: bool(filters[0].match(cp)), kinds=KINDS),
                      impl_call(lambda: bool(filters[1].match(cp)) if len(filters) > 1 else True, kinds=KINDS)])
    return overall, parts


# ------------------------------------------------------------------ Coq terms
class Strs:
    """string table: every distinct string becomes one definition in the cases file's preamble"""

    def __init__(self):
        self.ids = {}

    def __call__(self, s: str) -> str:
        if s not in self.ids:
            self.ids[s] = "s%d" % len(self.ids)
        return self.ids[s]

    def preamble(self) -> str:
        out = []
        for s, name in self.ids.items():
            lit = "[" + ";".join(str(ord(ch)) for ch in s) + "]%N" if s else "(@nil N)"
            out.append(f"Definition {name} : str := {lit}.")
        return "\n".join(out)


def world_term(w, S: Strs) -> str:
    ids = {}

    def aid(a):
        if a not in ids:
            ids[a] = len(ids)
        return ids[a]

    def nl(xs):
        return clist([cN(x) for x in xs], "N")

    def sl(xs):
        return clist([S(x) for x in xs], "str")

    def stk(seq):
        return clist([cpair(nl([aid(a) for a in neg]), nl([aid(a) for a in pos])) for neg, pos in seq],
                     "list N * list N")

    def ltree(it):
        if isinstance(it, str):
            return f"LLic {S(it)}"
        if it[0] == "use":
            return "LUse %s %d%%N %s" % (cbool(it[1]), FLAGS.index(it[2]),
                                        clist(["(%s)" % ltree(x) for x in it[3]], "ltree"))
        return "%s %s" % ("LAll" if it[0] == "all" else "LAny", clist(["(%s)" % ltree(x) for x in it[1]], "ltree"))

    cfg = ("{| repo_masks := %s; prof_masks := %s; user_masks := %s; prof_unmasks := %s; user_unmasks := %s; "
           "arch := %s; accept_kw := %s; prof_kw := %s; kw_entries := %s; accept_lic := %s; lic_entries := %s; "
           "groups := %s; use := %s |}") % (
        nl([aid(a) for a in w["repo_masks"]]), stk(node_stack(w, "masks")), nl([aid(a) for a in w["user_masks"]]),
        stk(node_stack(w, "unmasks")), nl([aid(a) for a in w["user_unmasks"]]),
        S(ARCH), sl(stack(w, "ak", "user_ak")),
        clist([cpair(cN(aid(a)), sl(t)) for a, t in prof_kw(w)], "N * list str"),
        clist([cpair(atom_kind(a), cN(aid(a)), sl(t)) for a, t in kw_entries(w)], "entry"),
        sl(stack(w, "al", "user_al")),
        clist([cpair(cN(aid(a)), sl(t)) for a, t in w["user_plic"]], "N * list str"),
        clist([cpair(S(g), sl(m)) for g, m in close_groups(w["groups"]).items()], "str * list str"),
        nl([FLAGS.index(f) for f in use_of(w)]))
    ps = []
    for p in w["pkgs"]:
        ps.append("{| p_match := %s; p_key := %s; p_kw := %s; p_lic := %s |}" % (
            nl([i for a, i in ids.items() if atom_matches(a, p)]),
            nl([i for a, i in ids.items() if atom_kind(a) == "EAtom" and atom_samekey(a, p)]),
            sl(p["kw"]), clist(["(%s)" % ltree(x) for x in p["lic"]], "ltree")))
    return cpair(cfg, clist(ps, "pkg"))


# ------------------------------------------------------------------ main
def evaluate_worlds(chk, worlds, tag):
    """run the implementation on every world; returns cases + python-side (B) failures"""
    S = Strs()
    cases, recs, ref_bad = [], [], []
    root = tempfile.mkdtemp(prefix="c13_")
    try:
        for k, w in enumerate(worlds):
            d = os.path.join(root, "w%d" % k)
            overall, parts = run_impl(w, d)
            shutil.rmtree(d, ignore_errors=True)
            cases.append((world_term(w, S), [overall, parts]))
            recs.append((w, overall, parts))
            if w["malformed"] is None and not isinstance(parts, Err):
                for p, o, pt in zip(w["pkgs"], overall, parts):
                    exp = [ref_mask_ok(w, p), ref_kw_ok(w, p), ref_lic_ok(w, p)]
                    if o != all(exp):
                        ref_bad.append({"world": w, "package": "%s/%s-%s" % (p["cat"], p["name"], p["ver"]),
                                        "implementation_visible": o, "statement_says": all(exp),
                                        "statement_conjuncts[mask,keywords,license]": exp,
                                        "implementation_conjuncts": pt})
                    if not all(exp):
                        chk.nontrivial((tag, k, p["cat"], p["name"], p["ver"], tuple(exp)))
                    key = "conj:" + "".join("T" if x else "F" for x in exp)
                    chk.cov[key] = chk.cov.get(key, 0) + 1
            elif w["malformed"] is not None:
                key = "malformed:" + w["malformed"]
                chk.cov[key] = chk.cov.get(key, 0) + 1
                if any(isinstance(o, Err) for o in overall):
                    chk.nontrivial((tag, k, "raises"))
    finally:
        shutil.rmtree(root, ignore_errors=True)
    return S, cases, recs, ref_bad


def classify(chk, w, detail):
    """a concrete property failure: known class or violation"""
    for cid, pred in (("empty-global-entry-stable", empty_global_entry_stable),
                      ("accept-keywords-wildcard-shortcut", wildcard_fast_path)):
        if pred(w) and chk.known_finding(cid, detail):
            return
    chk.violation("property", detail)


def load_corpus():
    out = []
    cdir = os.path.join(os.path.dirname(os.path.dirname(os.path.abspath(__file__))), "corpus", "C13")
    if os.path.isdir(cdir):
        for fn in sorted(os.listdir(cdir)):
            if fn.endswith(".json"):
                with open(os.path.join(cdir, fn)) as f:
                    data = json.load(f)
                out.extend(data if isinstance(data, list) else [data])
    return [fix_world(w) for w in out]


def fix_world(w):
    """json round trip: tuples of the LICENSE items come back as lists"""
    def lic(items):
        return [x if isinstance(x, str) else
                ((x[0], lic(x[1])) if x[0] != "use" else ("use", x[1], x[2], lic(x[3]))) for x in items]
    for p in w["pkgs"]:
        p["lic"] = lic(p["lic"])
    for key in ("user_pak", "user_pkw", "user_plic"):
        w[key] = [(a, list(t)) for a, t in w[key]]
    for nd in w["nodes"]:
        nd["pak"] = [(a, list(t)) for a, t in nd["pak"]]
        nd["pkw"] = [(a, list(t)) for a, t in nd["pkw"]]
    return w


def main(chk: Check):
    logging.disable(logging.CRITICAL)
    chk.rule("worlds = random on-disk repository (3-8 packages: KEYWORDS incl. -*, none; LICENSE trees with ||, "
             "groups, USE conditionals) + profile stack (1-3 nodes) + user config (masks/unmasks with -atom "
             "lines and globs, package.accept_keywords / package.keywords with **, *, ~*, -kw, -*, empty entries, "
             "ACCEPT_KEYWORDS stable/unstable/wildcards, ACCEPT_LICENSE / package.license with @group, -@group, *, "
             "-*, nested and missing license groups); a real domain filters the configured repo; per package: "
             "visible? and the three conjuncts separately.  Separate malformed stream: a bare '-', '-@', '@' token "
             "in one of six places.  Non-trivial = a package for which the three conjuncts of the statement are "
             "not all true (distinct by world, package and conjunct pattern), or a malformed world that raises")
    ok = chk.build(["C13/Prop_C13.vo"])
    if ok:
        chk.check_assumptions("C13/Prop_C13.v")
    chk.lint(["C13"])
    chk.check_fingerprint(ANCHORS)

    rng = chk.rng
    worlds = load_corpus()
    ncorpus = len(worlds)
    # a changed fingerprint quadruples the quick budget (the thorough one is kept for --tier thorough)
    boost = 4 if (chk.fingerprint_changed and not chk.thorough) else 1
    worlds += [gen_world(rng) for _ in range(1200 if chk.thorough else 110 * boost)]
    worlds += [gen_world(rng, malformed=True) for _ in range(150 if chk.thorough else 18 * boost)]
    import time
    t0 = time.time()
    S, cases, recs, ref_bad = evaluate_worlds(chk, worlds, "w")
    chk.cov["seconds_implementation"] = round(time.time() - t0, 1)
    npk = sum(len(w["pkgs"]) for w in worlds)
    chk.count("worlds", len(worlds))
    chk.count("packages", npk)
    chk.cov["corpus_worlds"] = ncorpus
    for w, overall, parts in recs[ncorpus:ncorpus + 2] + recs[-1:]:
        chk.sample({"world": w, "visible": overall, "conjuncts": parts})

    spec_bad, a_bad, pinned_ok = [], [], set()
    if ok:
        r = chk.coq_eval("worlds", IMPORTS, "world", cases,
                         ["mismatches run_both cases",
                          "where_ (fun w r => negb (spec_world_ok w r)) cases"],
                         shard=(180 if chk.thorough else 60), preamble=S.preamble())
        chk.cov["seconds_coq_cases"] = round(time.time() - t0 - chk.cov["seconds_implementation"], 1)
        if r is not None:
            a_bad, spec_bad = r[0], r[1]
            if a_bad:   # is it the pre-repair behaviour (Model_C13.visible_pinned)?
                sub = a_bad[:40]
                r2 = chk.coq_eval("pinned", IMPORTS, "world", [cases[i] for i in sub],
                                  ["mismatches run_both_pinned cases"], preamble=S.preamble())
                if r2 is not None:
                    pinned_ok = {sub[j] for j in range(len(sub))} - {sub[j] for j in r2[0]}
    # ---- (B) concrete property failures
    reported = 0
    groups_seen = {}
    for b in ref_bad:       # one example per kind of disagreement (class predicates x differing conjuncts)
        diff = tuple(x == y for x, y in zip(b["statement_conjuncts[mask,keywords,license]"],
                                            b["implementation_conjuncts"]))
        key = (empty_global_entry_stable(b["world"]), wildcard_fast_path(b["world"]), diff)
        groups_seen.setdefault(key, b)
    for b in list(groups_seen.values())[:6]:
        classify(chk, b["world"], {"what": "visibility differs from the statement's reference evaluator",
                                   "input": b})
        reported += 1
    bad_worlds = {id(b["world"]) for b in ref_bad}
    for i in spec_bad[:3]:
        w, overall, parts = recs[i]
        if id(w) in bad_worlds:
            continue
        classify(chk, w, {"what": "Spec_C13.spec_world_ok rejects the implementation's answers",
                          "input": {"world": w, "implementation_visible": overall}})
        reported += 1
    # ---- (A) model/implementation disagreement
    for i in a_bad[:3]:
        w, overall, parts = recs[i]
        if i in pinned_ok and (empty_global_entry_stable(w) or wildcard_fast_path(w)) and (id(w) in bad_worlds):
            continue      # the pre-repair behaviour, already reported above with its input
        chk.violation("correspondence",
                      {"what": "implementation and Model_C13 disagree (theorems of Prop_C13 no longer speak "
                               "about this code)", "input": {"world": w},
                       "implementation": {"visible": overall, "conjuncts": parts}},
                      no_input=not (ref_bad or spec_bad))


def replay(chk, data):
    logging.disable(logging.CRITICAL)
    inp = data.get("detail", data).get("input", {})
    w = inp.get("world") or inp.get("input", {}).get("world")
    if w is None:
        print("no world recorded in this file")
        return
    w = fix_world(w)
    d = tempfile.mkdtemp(prefix="c13r_")
    try:
        overall, parts = run_impl(w, d)
    finally:
        shutil.rmtree(d, ignore_errors=True)
    print("implementation visible:", overall)
    print("implementation conjuncts [mask, keywords, license]:", parts)
    print("statement (reference evaluator):",
          [[ref_mask_ok(w, p), ref_kw_ok(w, p), ref_lic_ok(w, p)] for p in w["pkgs"]] if w["malformed"] is None
          else "malformed world: no claim")
    S = Strs()
    r = chk.coq_eval("replay", IMPORTS, "world", [(world_term(w, S), [overall, parts])],
                     ["mismatches run_both cases", "where_ (fun w r => negb (spec_world_ok w r)) cases"],
                     preamble=S.preamble())
    print("model disagrees:" if r and r[0] else "model agrees", "; spec rejects" if r and r[1] else "; spec accepts")
