(* Proofs_C37.v — lemmas and proofs for C37. *)
From Coq Require Import List NArith ZArith Bool Lia Decimal DecimalN DecimalPos.
Import ListNotations.
From Verif Require Import Base.Val C37.Model_C37 C37.Spec_C37.

(* ------------------------------------------------------------------ induction on chart trees *)
Lemma chart_ind' (P : chart -> Prop) :
  (forall f o vs n s, P (Crit f o vs n s)) ->
  (forall j cs, Forall P cs -> P (Group j cs)) ->
  forall c, P c.
Proof.
  intros HC HG. fix IH 1. intros [f o vs n s | j cs].
  - apply HC.
  - apply HG. induction cs as [|c r IHr]; constructor; [apply IH | exact IHr].
Qed.

Lemma render_k_group j cs slot :
  render_k (Group j cs) slot =
  ((PC KF slot, s_OP) :: (PC KJ slot, join_str j) ::
     fst (render_list cs (N.succ slot)) ++ [(PC KF (snd (render_list cs (N.succ slot))), s_CP)],
   N.succ (snd (render_list cs (N.succ slot)))).
Proof.
  cbn [render_k].
  assert (E : forall s,
    (fix go (cs : list chart) (s : N) : kparams * N :=
       match cs with
       | [] => ([], s)
       | c :: r => let (p1, s1) := render_k c s in let (p2, s2) := go r s1 in (p1 ++ p2, s2)
       end) cs s = render_list cs s).
  { induction cs as [|c r IHr]; intro s; cbn; [reflexivity|].
    destruct (render_k c s) as [p1 s1]. rewrite IHr. reflexivity. }
  rewrite E. reflexivity.
Qed.

Lemma render_list_cons c r s :
  render_list (c :: r) s =
  (fst (render_k c s) ++ fst (render_list r (snd (render_k c s))),
   snd (render_list r (snd (render_k c s)))).
Proof.
  cbn [render_list]. destruct (render_k c s) as [p1 s1]. cbn [fst snd].
  destruct (render_list r s1) as [p2 s2]. reflexivity.
Qed.

Lemma render_list_app a b s :
  render_list (a ++ b) s =
  (fst (render_list a s) ++ fst (render_list b (snd (render_list a s))),
   snd (render_list b (snd (render_list a s)))).
Proof.
  revert s; induction a as [|c r IH]; intro s.
  - cbn. destruct (render_list b s); reflexivity.
  - rewrite <- app_comm_cons, !render_list_cons, IH. cbn [fst snd]. now rewrite app_assoc.
Qed.

(* number of slots a tree occupies *)
Fixpoint nslots (c : chart) : nat :=
  match c with
  | Crit _ _ _ _ _ => 1
  | Group _ cs => S (S (list_sum (map nslots cs)))
  end.
Definition nslots_l (cs : list chart) : nat := list_sum (map nslots cs).

Lemma nslots_l_cons c r : nslots_l (c :: r) = (nslots c + nslots_l r)%nat.
Proof. reflexivity. Qed.

Lemma nslots_group j cs : nslots (Group j cs) = S (S (nslots_l cs)).
Proof. reflexivity. Qed.

Lemma Nseq_app s a b : Nseq s (a + b) = Nseq s a ++ Nseq (s + N.of_nat a) b.
Proof.
  revert s; induction a as [|a IH]; intro s; cbn [Nseq Nat.add List.app].
  - now rewrite N.add_0_r.
  - rewrite IH. replace (s + N.of_nat (S a))%N with (N.succ s + N.of_nat a)%N by lia. reflexivity.
Qed.

Lemma f_slots_app a b : f_slots (a ++ b) = f_slots a ++ f_slots b.
Proof. unfold f_slots. now rewrite flat_map_app. Qed.
Lemma markers_app a b : markers (a ++ b) = markers a ++ markers b.
Proof. unfold markers. now rewrite flat_map_app. Qed.

Lemma f_slots_values slot (vs : list str) : f_slots (map (fun v => (PC KV slot, v)) vs) = [].
Proof. induction vs; cbn; auto. Qed.
Lemma markers_values slot (vs : list str) : markers (map (fun v => (PC KV slot, v)) vs) = [].
Proof. induction vs; cbn; auto. Qed.

Definition in_range (ps : kparams) (lo hi : N) : Prop :=
  forall k v, In (k, v) ps -> exists kind id, k = PC kind id /\ (lo <= id < hi)%N.

Lemma in_range_app a b lo hi : in_range a lo hi -> in_range b lo hi -> in_range (a ++ b) lo hi.
Proof. intros Ha Hb k v H. apply in_app_or in H as [H|H]; eauto. Qed.
Lemma in_range_weaken a lo hi lo' hi' :
  in_range a lo hi -> (lo' <= lo)%N -> (hi <= hi')%N -> in_range a lo' hi'.
Proof. intros Ha ? ? k v H. destruct (Ha k v H) as (kd & id & -> & ?). exists kd, id. split; [easy|lia]. Qed.

Lemma crit_in_range f o vs n s : in_range (crit_params f o vs n s) s (N.succ s).
Proof.
  intros k v H. unfold crit_params in H. cbn in H.
  destruct H as [H|[H|H]]; try (injection H as <- <-; eexists _, s; split; [reflexivity|lia]).
  apply in_app_or in H as [H|H].
  - apply in_map_iff in H as (x & H & _). injection H as <- <-. eexists _, s; split; [reflexivity|lia].
  - destruct n; cbn in H; [|tauto]. destruct H as [H|[]]. injection H as <- <-.
    eexists _, s; split; [reflexivity|lia].
Qed.

(* everything about slots, by induction on the tree *)
Definition slot_facts (ps : kparams) (s s' : N) (n : nat) : Prop :=
  s' = (s + N.of_nat n)%N /\ f_slots ps = Nseq s n /\ in_range ps s s'.

Lemma render_slots : forall c s, slot_facts (fst (render_k c s)) s (snd (render_k c s)) (nslots c).
Proof.
  induction c as [f o vs n sp | j cs IH] using chart_ind'; intro s.
  - cbn [render_k fst snd nslots]. split; [lia|]. split; [|apply crit_in_range].
    unfold crit_params. cbn. rewrite f_slots_app, f_slots_values. destruct n; reflexivity.
  - assert (L : forall s, slot_facts (fst (render_list cs s)) s (snd (render_list cs s)) (nslots_l cs)).
    { clear s. induction IH as [|c r Hc _ IHr]; intro s.
      - cbn. split; [lia|]. split; [reflexivity|]. intros k v [].
      - rewrite render_list_cons. cbn [fst snd]. rewrite nslots_l_cons.
        destruct (Hc s) as (E1 & F1 & R1). destruct (IHr (snd (render_k c s))) as (E2 & F2 & R2).
        split; [lia|]. split.
        + rewrite f_slots_app, F1, F2, Nseq_app. now rewrite E1.
        + apply in_range_app; eapply in_range_weaken; eauto; lia. }
    rewrite render_k_group, nslots_group. cbn [fst snd].
    destruct (L (N.succ s)) as (E & F & R). split; [lia|]. split.
    + cbn [f_slots flat_map fst List.app]. change (flat_map _ ?l) with (f_slots l).
      rewrite f_slots_app, F. cbn [f_slots flat_map fst List.app].
      replace (S (S (nslots_l cs))) with (1 + (nslots_l cs + 1))%nat by lia.
      rewrite Nseq_app. cbn [Nseq List.app]. f_equal. rewrite Nseq_app. cbn [Nseq].
      cbn [List.app]. rewrite ?app_nil_r.
      replace (s + N.of_nat 1)%N with (N.succ s) by lia. rewrite E. reflexivity.
    + intros k v [H|[H|H]]; try (injection H as <- <-; eexists _, s; split; [reflexivity|lia]).
      apply in_app_or in H as [H|H].
      * destruct (R k v H) as (kd & id & -> & ?). exists kd, id; split; [easy|lia].
      * destruct H as [H|[]]. injection H as <- <-. eexists _, _; split; [reflexivity|lia].
Qed.

Lemma render_list_slots : forall cs s,
  slot_facts (fst (render_list cs s)) s (snd (render_list cs s)) (nslots_l cs).
Proof.
  induction cs as [|c r IHr]; intro s.
  - cbn. split; [lia|]. split; [reflexivity|]. intros k v [].
  - rewrite render_list_cons. cbn [fst snd]. rewrite nslots_l_cons.
    destruct (render_slots c s) as (E1 & F1 & R1). destruct (IHr (snd (render_k c s))) as (E2 & F2 & R2).
    split; [lia|]. split.
    + rewrite f_slots_app, F1, F2, Nseq_app. now rewrite E1.
    + apply in_range_app; eapply in_range_weaken; eauto; lia.
Qed.

Lemma markers_crit f o vs n s : markers (crit_params f o vs n s) = [f].
Proof. unfold crit_params. rewrite !markers_app, markers_values. destruct n; reflexivity. Qed.

Lemma markers_group j cs s :
  markers (fst (render_k (Group j cs) s)) = s_OP :: markers (fst (render_list cs (N.succ s))) ++ [s_CP].
Proof.
  rewrite render_k_group. cbn [fst].
  change ((PC KF s, s_OP) :: (PC KJ s, join_str j) :: ?x) with ([(PC KF s, s_OP); (PC KJ s, join_str j)] ++ x).
  rewrite !markers_app. reflexivity.
Qed.

(* balanced OP / CP *)
Lemma render_balanced : forall c, wf_chart c = true -> forall s d rest,
  balanced_from d (markers (fst (render_k c s)) ++ rest) = balanced_from d rest.
Proof.
  induction c as [f o vs n sp | j cs IH] using chart_ind'; intros W s d rest.
  - cbn [render_k fst]. rewrite markers_crit. change ([f] ++ rest) with (f :: rest).
    cbn [balanced_from]. cbn [wf_chart] in W. apply andb_true_iff in W as [W1 W2].
    apply negb_true_iff in W1, W2. now rewrite W1, W2.
  - assert (L : forall s d rest,
        balanced_from d (markers (fst (render_list cs s)) ++ rest) = balanced_from d rest).
    { cbn [wf_chart] in W. clear s d rest. induction IH as [|c r Hc _ IHr]; intros s d rest; [reflexivity|].
      cbn [forallb] in W. apply andb_true_iff in W as [Wc Wr].
      rewrite render_list_cons. cbn [fst]. rewrite markers_app, <- app_assoc, Hc, IHr; auto. }
    rewrite markers_group. rewrite <- app_comm_cons.
    cbn [balanced_from]. change (str_eqb s_OP s_OP) with true. cbn iota.
    rewrite <- app_assoc, L. reflexivity.
Qed.

Lemma render_list_balanced : forall cs, forallb wf_chart cs = true -> forall s d rest,
  balanced_from d (markers (fst (render_list cs s)) ++ rest) = balanced_from d rest.
Proof.
  induction cs as [|c r IHr]; intros W s d rest; [reflexivity|].
  cbn [forallb] in W. apply andb_true_iff in W as [Wc Wr].
  rewrite render_list_cons. cbn [fst]. rewrite markers_app, <- app_assoc, render_balanced, IHr; auto.
Qed.

(* the statement of the property's first clause, for one tree rendered at any slot *)
Lemma slots_unique_balanced_proof : forall c s,
  let ps := fst (render_k c s) in
  let s' := snd (render_k c s) in
  (s < s')%N /\ slots_exact ps s s' /\ (wf_chart c = true -> balanced ps = true).
Proof.
  intros c s ps s'. destruct (render_slots c s) as (E & F & R). fold ps s' in E, F, R.
  assert (nslots c > 0)%nat by (destruct c; cbn; lia).
  split; [lia|]. split.
  - split; [lia|]. split.
    + rewrite F. f_equal. lia.
    + intros k id v Hin. destruct (R _ _ Hin) as (kd & id' & Hk & ?). injection Hk as -> ->. lia.
  - intro W. unfold balanced. rewrite <- (app_nil_r (markers ps)). unfold ps. now rewrite render_balanced.
Qed.

(* ------------------------------------------------------------------ the batching loop *)
Lemma chunks_concat cost budget vals : forall br used,
  concat (chunks cost budget vals br used) = List.rev br ++ vals.
Proof.
  induction vals as [|v r IH]; intros br used; cbn [chunks].
  - cbn. now rewrite !app_nil_r.
  - destruct (negb (is_nil br) && (budget <? used + cost v)%Z).
    + cbn [concat]. rewrite IH. cbn. reflexivity.
    + rewrite IH. cbn. now rewrite <- app_assoc.
Qed.

(* ------------------------------------------------------------------ parameter lookups *)
Lemma ckind_eqb_refl k : ckind_eqb k k = true.
Proof. destruct k; reflexivity. Qed.
Lemma pkey_eqb_refl k : pkey_eqb k k = true.
Proof. destruct k; cbn; [apply str_eqb_refl | now rewrite ckind_eqb_refl, N.eqb_refl]. Qed.
Lemma pkey_eqb_eq a b : pkey_eqb a b = true <-> a = b.
Proof.
  split; [|intros ->; apply pkey_eqb_refl].
  destruct a as [x|k s], b as [y|k' s']; cbn; try discriminate.
  - intro H. apply str_eqb_eq in H. now subst.
  - intro H. apply andb_true_iff in H as [H1 H2]. apply N.eqb_eq in H2. subst.
    destruct k, k'; try discriminate; reflexivity.
Qed.

Lemma vals_of_app a b k : vals_of (a ++ b) k = vals_of a k ++ vals_of b k.
Proof. unfold vals_of. now rewrite filter_app, map_app. Qed.
Lemma drop_key_app a b k : drop_key (a ++ b) k = drop_key a k ++ drop_key b k.
Proof. unfold drop_key. now rewrite filter_app. Qed.

Definition no_key (ps : kparams) (k : pkey) : Prop := forall v, ~ In (k, v) ps.
Lemma no_key_filter ps k : no_key ps k -> filter (fun kv => pkey_eqb (fst kv) k) ps = [].
Proof.
  induction ps as [|[k' v'] r IH]; intro H; [reflexivity|]. cbn.
  destruct (pkey_eqb k' k) eqn:E.
  - apply pkey_eqb_eq in E. subst. exfalso. apply (H v'). now left.
  - apply IH. intros v Hin. apply (H v). now right.
Qed.
Lemma vals_of_nokey ps k : no_key ps k -> vals_of ps k = [].
Proof. intro H. unfold vals_of. now rewrite no_key_filter. Qed.
Lemma drop_key_nokey ps k : no_key ps k -> drop_key ps k = ps.
Proof.
  induction ps as [|[k' v'] r IH]; intro H; [reflexivity|]. cbn.
  destruct (pkey_eqb k' k) eqn:E.
  - apply pkey_eqb_eq in E. subst. exfalso. apply (H v'). now left.
  - cbn. f_equal. apply IH. intros v Hin. apply (H v). now right.
Qed.
Lemma no_key_app a b k : no_key a k -> no_key b k -> no_key (a ++ b) k.
Proof. intros Ha Hb v H. apply in_app_or in H as [H|H]; [eapply Ha | eapply Hb]; eauto. Qed.

Lemma in_range_no_ps ps lo hi n : in_range ps lo hi -> no_key ps (PS n).
Proof. intros R v H. destruct (R _ _ H) as (? & ? & E & _). discriminate. Qed.
Lemma in_range_no_pc ps lo hi kd id : in_range ps lo hi -> ~ (lo <= id < hi)%N -> no_key ps (PC kd id).
Proof. intros R Hn v H. destruct (R _ _ H) as (? & ? & E & ?). injection E as <- <-. tauto. Qed.

Lemma in_simple_params s k v :
  In (k, v) (simple_params s) -> exists vs, In (match k with PS n => n | PC _ _ => [] end, vs) s /\ In v vs /\ exists n, k = PS n.
Proof.
  unfold simple_params. intro H. apply in_flat_map in H as ([n vs] & Hin & H).
  cbn [fst snd] in H. apply in_map_iff in H as (x & E & Hx). injection E as <- <-.
  exists vs. split; [exact Hin|]. split; [exact Hx|]. now exists n.
Qed.
Lemma simple_no_pc s kd id : no_key (simple_params s) (PC kd id).
Proof. intros v H. apply in_simple_params in H as (? & _ & _ & n & E). discriminate. Qed.
Lemma simple_no_other s key : (forall vs, ~ In (key, vs) s) -> no_key (simple_params s) (PS key).
Proof. intros Hn v H. apply in_simple_params in H as (vs & Hin & _ & _). exact (Hn vs Hin). Qed.

Lemma simple_params_app a b : simple_params (a ++ b) = simple_params a ++ simple_params b.
Proof. unfold simple_params. now rewrite flat_map_app. Qed.
Lemma simple_params_cons k vs r :
  simple_params ((k, vs) :: r) = map (fun v => (PS k, v)) vs ++ simple_params r.
Proof. reflexivity. Qed.

Lemma vals_of_own k (vs : list str) : vals_of (map (fun v => (PS k, v)) vs) (PS k) = vs.
Proof.
  induction vs as [|v r IH]; [reflexivity|]. unfold vals_of in *. cbn. rewrite str_eqb_refl. cbn. now rewrite IH.
Qed.
Lemma drop_key_own k (vs : list str) : drop_key (map (fun v => (PS k, v)) vs) (PS k) = [].
Proof.
  induction vs as [|v r IH]; [reflexivity|]. unfold drop_key in *. cbn. rewrite str_eqb_refl. cbn. exact IH.
Qed.
Lemma no_key_other k k' (vs : list str) : k <> k' -> no_key (map (fun v => (PS k, v)) vs) (PS k').
Proof. intros Hne v H. apply in_map_iff in H as (x & E & _). injection E as E _. congruence. Qed.

Lemma drop_key_simple s key :
  drop_key (simple_params s) (PS key)
  = simple_params (filter (fun kv => negb (str_eqb (fst kv) key)) s).
Proof.
  induction s as [|[k vs] r IH]; [reflexivity|].
  rewrite simple_params_cons, drop_key_app, IH. cbn [filter fst].
  destruct (str_eqb k key) eqn:E; cbn [negb].
  - apply str_eqb_eq in E. subst. now rewrite drop_key_own.
  - rewrite simple_params_cons. f_equal. apply drop_key_nokey, no_key_other.
    intro; subst. now rewrite str_eqb_refl in E.
Qed.
Lemma vals_of_simple s key vals :
  NoDup (map fst s) -> In (key, vals) s -> vals_of (simple_params s) (PS key) = vals.
Proof.
  induction s as [|[k vs] r IH]; intros ND Hin; [destruct Hin|].
  cbn [map fst] in ND. inversion ND as [|? ? Hnot ND']; subst.
  rewrite simple_params_cons, vals_of_app. destruct Hin as [E|Hin].
  - injection E as -> ->. rewrite vals_of_own, vals_of_nokey, app_nil_r; [reflexivity|].
    apply simple_no_other. intros vs' H. apply Hnot. change key with (fst (key, vs')). now apply in_map.
  - rewrite (IH ND' Hin), vals_of_nokey; [reflexivity|]. apply no_key_other.
    intro; subst. apply Hnot. change key with (fst (key, vals)). now apply in_map.
Qed.

Lemma tail_no_pc q kd id : no_key (tail_params q) (PC kd id).
Proof.
  intros v H. unfold tail_params in H.
  destruct (limit q), (offset q) as [o|], (order q); try destruct (Z.eqb o 0); cbn in H;
    repeat (destruct H as [H|H]; [discriminate H|]); exact H.
Qed.
Lemma tail_no_id q : no_key (tail_params q) (PS s_id).
Proof.
  intros v H. unfold tail_params in H.
  destruct (limit q), (offset q) as [o|], (order q); try destruct (Z.eqb o 0); cbn in H;
    repeat (destruct H as [H|H]; [discriminate H|]); exact H.
Qed.

Lemma vals_map_v s (vs : list str) : vals_of (map (fun v => (PC KV s, v)) vs) (PC KV s) = vs.
Proof.
  induction vs as [|v r IH]; [reflexivity|]. unfold vals_of in *. cbn. rewrite N.eqb_refl. cbn. now rewrite IH.
Qed.
Lemma drop_map_v s (vs : list str) : drop_key (map (fun v => (PC KV s, v)) vs) (PC KV s) = [].
Proof.
  induction vs as [|v r IH]; [reflexivity|]. unfold drop_key in *. cbn. rewrite N.eqb_refl. cbn. exact IH.
Qed.
Lemma vals_crit_v f o vs n s : vals_of (crit_params f o vs n s) (PC KV s) = vs.
Proof.
  unfold crit_params. rewrite !vals_of_app, vals_map_v. destruct n; cbn; now rewrite app_nil_r.
Qed.
Lemma drop_crit_v f o vs n s : drop_key (crit_params f o vs n s) (PC KV s) = crit_params f o [] n s.
Proof.
  unfold crit_params. rewrite !drop_key_app, drop_map_v. destruct n; reflexivity.
Qed.

(* ------------------------------------------------------------------ the split axis *)
Lemma first_max_in rest : forall best, In (first_max best rest) (best :: rest).
Proof.
  induction rest as [|a r IH]; intro best; cbn [first_max]; [now left|].
  destruct (joined_len (ax_vals best) <? joined_len (ax_vals a))%N.
  - right. apply IH.
  - destruct (IH best) as [H|H]; [now left | right; now right].
Qed.

Lemma chart_cands_spec cs : forall i a, In a (chart_cands i cs) ->
  exists j f o vals n, a = AxChart (i + j) f vals /\ nth_error cs j = Some (Crit f o vals n true).
Proof.
  induction cs as [|c r IH]; intros i a H; [destruct H|].
  assert (R : In a (chart_cands (S i) r) ->
              exists j f o vals n, a = AxChart (i + j) f vals /\ nth_error (c :: r) j = Some (Crit f o vals n true)).
  { intro H'. destruct (IH _ _ H') as (j & f & o & vals & n & -> & Hn).
    exists (S j), f, o, vals, n. split; [f_equal; lia | exact Hn]. }
  destruct c as [f o vs n [|] | j cs]; cbn [chart_cands] in H; auto.
  destruct H as [<-|H]; auto.
  exists 0%nat, f, o, vs, n. split; [f_equal; lia | reflexivity].
Qed.

Inductive axis_ok (q : query) : axis -> Prop :=
| ax_ok_simple vals : In (s_id, vals) (simple q) -> axis_ok q (AxSimple s_id vals)
| ax_ok_chart i f o vals n : nth_error (charts q) i = Some (Crit f o vals n true) -> axis_ok q (AxChart i f vals).

Lemma split_axis_ok q a : split_axis q = Some a -> axis_ok q a.
Proof.
  unfold split_axis. destruct (candidates q) as [|b r] eqn:E; [discriminate|].
  intro H. injection H as <-.
  assert (Hin : In (first_max b r) (candidates q)) by (rewrite E; apply first_max_in).
  unfold candidates in Hin. apply in_app_or in Hin as [Hin|Hin].
  - apply in_flat_map in Hin as ([k vs] & Hs & Hin). cbn [fst snd] in Hin.
    destruct (str_eqb k s_id) eqn:Ek; [|destruct Hin]. apply str_eqb_eq in Ek. subst.
    destruct Hin as [<-|[]]. now constructor.
  - apply chart_cands_spec in Hin as (j & f & o & vals & n & -> & Hn). cbn [Nat.add]. econstructor; eauto.
Qed.

Lemma nth_error_split' {A} (l : list A) i c :
  nth_error l i = Some c -> exists l1 l2, l = l1 ++ c :: l2 /\ length l1 = i /\ firstn i l = l1.
Proof.
  revert i; induction l as [|x r IH]; intros [|i] H; try discriminate.
  - injection H as ->. exists [], r. auto.
  - cbn in H. destruct (IH _ H) as (l1 & l2 & -> & <- & F). exists (x :: l1), l2.
    cbn. rewrite F. auto.
Qed.
Lemma replace_nth_at l1 c l2 vs :
  replace_nth (length l1) (l1 ++ c :: l2) vs = l1 ++ with_values c vs :: l2.
Proof. induction l1 as [|x r IH]; cbn; [reflexivity | now rewrite IH]. Qed.

(* the parameters of a query whose i-th chart is a criterion, with that criterion's values exposed *)
Lemma chart_params_at l1 f o vs n sp l2 s :
  fst (render_list (l1 ++ Crit f o vs n sp :: l2) s)
  = fst (render_list l1 s) ++ crit_params f o vs n (snd (render_list l1 s))
    ++ fst (render_list l2 (N.succ (snd (render_list l1 s)))).
Proof. rewrite render_list_app, render_list_cons. reflexivity. Qed.

Lemma rebuild_params q a : NoDup (map fst (simple q)) -> axis_ok q a ->
  vals_of (params_k q) (ax_key q a) = ax_vals a /\
  forall vs, vals_of (params_k (rebuild q a vs)) (ax_key q a) = vs /\
             drop_key (params_k (rebuild q a vs)) (ax_key q a) = drop_key (params_k q) (ax_key q a).
Proof.
  intros ND [vals Hin | i f o vals n Hn]; cbn [ax_key ax_vals].
  - (* the id axis *)
    assert (C : no_key (fst (render_list (charts q) 1)) (PS s_id))
      by (eapply in_range_no_ps, (render_list_slots (charts q) 1)).
    split.
    + unfold params_k. rewrite !vals_of_app, (vals_of_simple _ _ _ ND Hin).
      rewrite (vals_of_nokey _ _ C), (vals_of_nokey _ _ (tail_no_id q)). now rewrite !app_nil_r.
    + intro vs. unfold params_k, rebuild. cbn [simple charts limit offset order].
      change (tail_params {| simple := _; charts := charts q; limit := limit q; offset := offset q; order := order q |})
        with (tail_params q).
      rewrite simple_params_app, !vals_of_app, !drop_key_app, <- drop_key_simple.
      rewrite (vals_of_nokey _ _ C), (vals_of_nokey _ _ (tail_no_id q)).
      rewrite (drop_key_nokey _ _ C), (drop_key_nokey _ _ (tail_no_id q)).
      assert (N1 : vals_of (drop_key (simple_params (simple q)) (PS s_id)) (PS s_id) = []).
      { rewrite drop_key_simple. apply vals_of_nokey, simple_no_other. intros vs' H.
        apply filter_In in H as [_ H]. cbn [fst] in H. rewrite str_eqb_refl in H. discriminate H. }
      assert (N2 : drop_key (drop_key (simple_params (simple q)) (PS s_id)) (PS s_id)
                   = drop_key (simple_params (simple q)) (PS s_id)).
      { rewrite drop_key_simple. apply drop_key_nokey, simple_no_other. intros vs' H.
        apply filter_In in H as [_ H]. cbn [fst] in H. rewrite str_eqb_refl in H. discriminate H. }
      rewrite N1, N2. destruct vs as [|v r]; cbn [is_nil].
      * cbn. rewrite !app_nil_r. auto.
      * rewrite simple_params_cons. change (simple_params []) with (@nil (pkey * str)).
        rewrite !app_nil_r, vals_of_own, drop_key_own. cbn [List.app]. rewrite ?app_nil_r. auto.
  - (* a splittable criterion *)
    destruct (nth_error_split' _ _ _ Hn) as (l1 & l2 & Ec & Hlen & Hfirst).
    unfold slot_of. rewrite Hfirst. set (s1 := snd (render_list l1 1)).
    destruct (render_list_slots l1 1) as (E1 & _ & R1). fold s1 in E1, R1.
    destruct (render_list_slots l2 (N.succ s1)) as (E2 & _ & R2).
    assert (K1 : no_key (fst (render_list l1 1)) (PC KV s1)) by (eapply in_range_no_pc; eauto; lia).
    assert (K2 : no_key (fst (render_list l2 (N.succ s1))) (PC KV s1)) by (eapply in_range_no_pc; eauto; lia).
    assert (P : forall vs, params_k (rebuild q (AxChart i f vals) vs)
                = simple_params (simple q)
                  ++ (fst (render_list l1 1) ++ crit_params f o vs n s1 ++ fst (render_list l2 (N.succ s1)))
                  ++ tail_params q).
    { intro vs. unfold params_k, rebuild. cbn [simple charts limit offset order].
      change (tail_params {| simple := simple q; charts := _; limit := limit q; offset := offset q; order := order q |})
        with (tail_params q).
      rewrite Ec, <- Hlen, replace_nth_at. cbn [with_values]. now rewrite chart_params_at. }
    assert (P0 : params_k q
                = simple_params (simple q)
                  ++ (fst (render_list l1 1) ++ crit_params f o vals n s1 ++ fst (render_list l2 (N.succ s1)))
                  ++ tail_params q).
    { unfold params_k. rewrite Ec. now rewrite chart_params_at. }
    assert (V : forall vs, vals_of (simple_params (simple q)
                  ++ (fst (render_list l1 1) ++ crit_params f o vs n s1 ++ fst (render_list l2 (N.succ s1)))
                  ++ tail_params q) (PC KV s1) = vs).
    { intro vs. rewrite !vals_of_app, vals_crit_v.
      rewrite (vals_of_nokey _ _ (simple_no_pc _ _ _)), (vals_of_nokey _ _ K1), (vals_of_nokey _ _ K2),
        (vals_of_nokey _ _ (tail_no_pc _ _ _)). cbn [List.app]. now rewrite !app_nil_r. }
    assert (D : forall vs, drop_key (simple_params (simple q)
                  ++ (fst (render_list l1 1) ++ crit_params f o vs n s1 ++ fst (render_list l2 (N.succ s1)))
                  ++ tail_params q) (PC KV s1)
                = simple_params (simple q)
                  ++ (fst (render_list l1 1) ++ crit_params f o [] n s1 ++ fst (render_list l2 (N.succ s1)))
                  ++ tail_params q).
    { intro vs. rewrite !drop_key_app, drop_crit_v.
      now rewrite (drop_key_nokey _ _ (simple_no_pc _ _ _)), (drop_key_nokey _ _ K1), (drop_key_nokey _ _ K2),
        (drop_key_nokey _ _ (tail_no_pc _ _ _)). }
    split; [rewrite P0; apply V|]. intro vs. rewrite P, P0, V, !D. auto.
Qed.

Definition batches_partition_stmt : Prop := forall enc q base max,
  NoDup (map fst (simple q)) ->
  match split_axis q with
  | None => batches enc q base max = [q]
  | Some a =>
      let k := ax_key q a in
      vals_of (params_k q) k = ax_vals a /\
      concat (map (fun b => vals_of (params_k b) k) (batches enc q base max)) = ax_vals a /\
      (forall b, In b (batches enc q base max) -> drop_key (params_k b) k = drop_key (params_k q) k)
  end.

Lemma batches_partition_proof : batches_partition_stmt.
Proof.
  intros enc q base max ND. unfold batches. destruct (split_axis q) as [a|] eqn:E; [|reflexivity].
  destruct (rebuild_params q a ND (split_axis_ok _ _ E)) as [V0 R]. cbn zeta.
  split; [exact V0|]. split.
  - rewrite map_map. erewrite map_ext; [|intro vs; apply (proj1 (R vs))]. rewrite map_id.
    apply (chunks_concat _ _ _ [] 0%Z).
  - intros b Hb. apply in_map_iff in Hb as (vs & <- & _). apply (R vs).
Qed.

(* ------------------------------------------------------------------ parameter names round-trip *)
Lemma digits_uint_digits u : digits_uint (uint_digits u) = Some u.
Proof. induction u; cbn [uint_digits digits_uint]; try rewrite IHu; reflexivity. Qed.

Lemma uint_digits_nil u : uint_digits u = [] -> u = Nil.
Proof. destruct u; cbn; intro H; try discriminate; reflexivity. Qed.

Lemma undec_dec n : undec (dec_N n) = Some n.
Proof.
  unfold undec, dec_N. destruct (uint_digits (N.to_uint n)) as [|c r] eqn:E.
  - exfalso. apply uint_digits_nil in E. destruct n as [|p]; cbn in E; [discriminate|].
    exact (DecimalPos.Unsigned.to_uint_nonnil p E).
  - rewrite <- E, digits_uint_digits. cbn [option_map]. f_equal. apply DecimalN.Unsigned.of_to.
Qed.

Lemma classify_chart_key kd id : classify (key_str (PC kd id)) = PC kd id.
Proof.
  cbn [key_str classify].
  assert (E : ckind_of_char (ckind_char kd) = Some kd) by (destruct kd; reflexivity).
  now rewrite E, undec_dec.
Qed.
Lemma classify_plain n : plain_name n = true -> classify n = PS n.
Proof.
  unfold plain_name, classify. destruct n as [|c r]; [reflexivity|].
  destruct (ckind_of_char c); [destruct (undec r)|]; intro H; try discriminate; reflexivity.
Qed.

Definition keys_ok (ps : kparams) : Prop := forall k v, In (k, v) ps -> classify (key_str k) = k.
Lemma read_print ps : keys_ok ps -> read_keys (print_params ps) = ps.
Proof.
  induction ps as [|[k v] r IH]; intro H; [reflexivity|].
  cbn [print_params read_keys map fst snd]. rewrite (H k v (or_introl eq_refl)).
  f_equal. apply IH. intros k' v' Hin. apply (H k' v'). now right.
Qed.
Lemma keys_ok_app a b : keys_ok a -> keys_ok b -> keys_ok (a ++ b).
Proof. intros Ha Hb k v H. apply in_app_or in H as [H|H]; eauto. Qed.

Lemma wf_query_simple q : wf_query q = true ->
  forall k vs, In (k, vs) (simple q) -> plain_name k = true /\ is_control k = false.
Proof.
  unfold wf_query. intro W. apply andb_true_iff in W as [W _]. rewrite forallb_forall in W.
  intros k vs Hin. specialize (W _ Hin). cbn [fst] in W. apply andb_true_iff in W as [W1 W2].
  split; [exact W1 | now apply negb_true_iff in W2].
Qed.
Lemma wf_query_charts q : wf_query q = true -> forallb wf_chart (charts q) = true.
Proof. unfold wf_query. intro W. now apply andb_true_iff in W as [_ W]. Qed.

Lemma params_keys_ok q : wf_query q = true -> keys_ok (params_k q).
Proof.
  intro W. unfold params_k. apply keys_ok_app; [|apply keys_ok_app].
  - intros k v H. apply in_simple_params in H as (vs & Hin & _ & n & ->). cbn [key_str].
    apply classify_plain. exact (proj1 (wf_query_simple q W n vs Hin)).
  - intros k v H. destruct (render_list_slots (charts q) 1) as (_ & _ & R).
    destruct (R _ _ H) as (kd & id & -> & _). apply classify_chart_key.
  - intros k v H. unfold tail_params in H.
    destruct (limit q), (offset q) as [o|], (order q); try destruct (Z.eqb o 0); cbn in H;
      repeat (destruct H as [H|H]; [injection H as <- _; reflexivity|]); destruct H.
Qed.
Lemma read_keys_params q : wf_query q = true -> read_keys (params q) = params_k q.
Proof. intro W. apply read_print, params_keys_ok, W. Qed.

(* ------------------------------------------------------------------ the reader on rendered trees *)
Lemma vals_of_cons x l k :
  vals_of (x :: l) k = (if pkey_eqb (fst x) k then [snd x] else []) ++ vals_of l k.
Proof. unfold vals_of. cbn [filter]. destruct (pkey_eqb (fst x) k); reflexivity. Qed.

Lemma pc_eqb_slot kd kd' s s' : s <> s' -> pkey_eqb (PC kd s) (PC kd' s') = false.
Proof. intro H. cbn. apply N.eqb_neq in H. rewrite H. apply andb_false_r. Qed.

Lemma vals_map_v_other s (vs : list str) kd id :
  ckind_eqb KV kd = false -> vals_of (map (fun v => (PC KV s, v)) vs) (PC kd id) = [].
Proof.
  intro H. apply vals_of_nokey. intros v Hin. apply in_map_iff in Hin as (x & E & _).
  injection E as <- _. now rewrite ckind_eqb_refl in H.
Qed.

Lemma crit_lookup f o vs n s :
  vals_of (crit_params f o vs n s) (PC KF s) = [f] /\
  vals_of (crit_params f o vs n s) (PC KO s) = [o] /\
  vals_of (crit_params f o vs n s) (PC KN s) = (if n then [s_one] else []).
Proof.
  unfold crit_params. rewrite !vals_of_app, !vals_map_v_other by reflexivity.
  rewrite !vals_of_cons. cbn [fst snd pkey_eqb ckind_eqb andb]. rewrite !N.eqb_refl.
  destruct n; [rewrite !vals_of_cons; cbn [fst snd pkey_eqb ckind_eqb andb]; rewrite ?N.eqb_refl|]; auto.
Qed.

Definition agree (env ps : kparams) (lo hi : N) : Prop :=
  forall kd id, (lo <= id < hi)%N -> vals_of env (PC kd id) = vals_of ps (PC kd id).

Lemma join_of_str j : join_of (join_str j) = j.
Proof. destruct j; reflexivity. Qed.

Lemma Nseq_S s n : Nseq s (S n) = s :: Nseq (N.succ s) n.
Proof. reflexivity. Qed.
Lemma Nseq_snoc s n : Nseq s (n + 1) = Nseq s n ++ [(s + N.of_nat n)%N].
Proof. rewrite Nseq_app. reflexivity. Qed.

Lemma read_chart : forall c, wf_chart c = true -> forall env s rest cur stack,
  agree env (fst (render_k c s)) s (snd (render_k c s)) ->
  read_ids env (Nseq s (nslots c) ++ rest) cur stack = read_ids env rest (erase c :: cur) stack.
Proof.
  induction c as [f o vs n sp | j cs IH] using chart_ind'; intros W env s rest cur stack A.
  - cbn [render_k fst snd] in A. cbn [nslots Nseq List.app read_ids erase].
    destruct (crit_lookup f o vs n s) as (LF & LO & LN).
    rewrite (A KF s), (A KO s), (A KV s), (A KN s) by lia. rewrite LF, LO, LN, vals_crit_v.
    cbn [first_or_nil]. cbn [wf_chart] in W. apply andb_true_iff in W as [W1 W2].
    apply negb_true_iff in W1, W2. rewrite W1, W2. destruct n; reflexivity.
  - cbn [wf_chart] in W.
    assert (L : forall s rest cur stack,
      agree env (fst (render_list cs s)) s (snd (render_list cs s)) ->
      read_ids env (Nseq s (nslots_l cs) ++ rest) cur stack
      = read_ids env rest (List.rev (map erase cs) ++ cur) stack).
    { clear s rest cur stack A. induction IH as [|c r Hc _ IHr]; intros s rest cur stack A; [reflexivity|].
      cbn [forallb] in W. apply andb_true_iff in W as [Wc Wr].
      rewrite render_list_cons in A. cbn [fst snd] in A.
      destruct (render_slots c s) as (E1 & _ & R1).
      destruct (render_list_slots r (snd (render_k c s))) as (E2 & _ & R2).
      rewrite nslots_l_cons, Nseq_app, <- app_assoc, <- E1.
      rewrite (Hc Wc env s).
      - rewrite (IHr Wr).
        + cbn [map List.rev]. now rewrite <- app_assoc.
        + intros kd id Hid. rewrite (A kd id) by lia. rewrite vals_of_app.
          rewrite (vals_of_nokey (fst (render_k c s))); [reflexivity|].
          eapply in_range_no_pc; eauto. lia.
      - intros kd id Hid. rewrite (A kd id) by lia. rewrite vals_of_app.
        rewrite (vals_of_nokey (fst (render_list r _))); [now rewrite app_nil_r|].
        eapply in_range_no_pc; eauto. lia. }
    rewrite render_k_group in A. cbn [fst snd] in A.
    set (s1 := N.succ s) in *. set (P := fst (render_list cs s1)) in *.
    set (s2 := snd (render_list cs s1)) in *.
    destruct (render_list_slots cs s1) as (E & _ & R). fold s2 P in E, R.
    assert (Hs : (s < s1)%N) by (unfold s1; lia). assert (Hs2 : (s1 <= s2)%N) by lia.
    assert (NP : forall kd id, ~ (s1 <= id < s2)%N -> vals_of P (PC kd id) = []).
    { intros kd id Hn. apply vals_of_nokey. eapply in_range_no_pc; eauto. }
    (* lookups in this group's own parameters *)
    assert (A1 : vals_of env (PC KF s) = [s_OP] /\ vals_of env (PC KJ s) = [join_str j]
                 /\ vals_of env (PC KN s) = []).
    { rewrite !(A _ s) by lia. rewrite !vals_of_cons, !vals_of_app, !NP by lia. rewrite !vals_of_cons.
      cbn [fst snd]. rewrite !(pc_eqb_slot _ _ s2 s) by lia.
      cbn [pkey_eqb ckind_eqb andb]. rewrite !N.eqb_refl. auto. }
    assert (A2 : vals_of env (PC KF s2) = [s_CP]).
    { rewrite (A _ s2) by lia. rewrite !vals_of_cons, !vals_of_app, !NP by lia. rewrite !vals_of_cons.
      cbn [fst snd]. rewrite !(pc_eqb_slot _ _ s s2) by lia. rewrite pkey_eqb_refl. reflexivity. }
    assert (A3 : agree env P s1 s2).
    { intros kd id Hid. rewrite (A kd id) by lia. rewrite !vals_of_cons, !vals_of_app, !vals_of_cons.
      cbn [fst snd]. rewrite !(pc_eqb_slot _ _ s id), !(pc_eqb_slot _ _ s2 id) by lia.
      cbn [List.app]. now rewrite app_nil_r. }
    destruct A1 as (AF & AJ & AN).
    rewrite nslots_group. fold (nslots_l cs). rewrite Nseq_S. fold s1.
    replace (S (nslots_l cs)) with (nslots_l cs + 1)%nat by lia. rewrite Nseq_snoc.
    replace (s1 + N.of_nat (nslots_l cs))%N with s2 by lia.
    rewrite <- app_comm_cons, <- app_assoc. cbn [read_ids]. rewrite AF, AJ, AN. cbn [first_or_nil truthy].
    change (str_eqb s_OP s_OP) with true. cbn iota. rewrite join_of_str.
    rewrite (L s1 _ _ _ A3). cbn [List.app read_ids]. rewrite A2. cbn [first_or_nil].
    change (str_eqb s_CP s_OP) with false. change (str_eqb s_CP s_CP) with true. cbn iota.
    rewrite app_nil_r, rev_involutive. reflexivity.
Qed.

Lemma read_chart_list : forall cs, forallb wf_chart cs = true -> forall env s rest cur stack,
  agree env (fst (render_list cs s)) s (snd (render_list cs s)) ->
  read_ids env (Nseq s (nslots_l cs) ++ rest) cur stack
  = read_ids env rest (List.rev (map erase cs) ++ cur) stack.
Proof.
  induction cs as [|c r IHr]; intros W env s rest cur stack A; [reflexivity|].
  cbn [forallb] in W. apply andb_true_iff in W as [Wc Wr].
  rewrite render_list_cons in A. cbn [fst snd] in A.
  destruct (render_slots c s) as (E1 & _ & R1).
  destruct (render_list_slots r (snd (render_k c s))) as (E2 & _ & R2).
  rewrite nslots_l_cons, Nseq_app, <- app_assoc, <- E1.
  rewrite (read_chart c Wc env s).
  - rewrite (IHr Wr).
    + cbn [map List.rev]. now rewrite <- app_assoc.
    + intros kd id Hid. rewrite (A kd id) by lia. rewrite vals_of_app.
      rewrite (vals_of_nokey (fst (render_k c s))); [reflexivity|].
      eapply in_range_no_pc; eauto. lia.
  - intros kd id Hid. rewrite (A kd id) by lia. rewrite vals_of_app.
    rewrite (vals_of_nokey (fst (render_list r _))); [now rewrite app_nil_r|].
    eapply in_range_no_pc; eauto. lia.
Qed.

Lemma insert_sorted : forall n s, fold_right insert_u [] (Nseq s n) = Nseq s n.
Proof.
  induction n as [|n IH]; intro s; [reflexivity|].
  cbn [Nseq fold_right]. rewrite IH. destruct n as [|n]; [reflexivity|].
  cbn [Nseq insert_u]. assert (H : (s <? N.succ s)%N = true) by (apply N.ltb_lt; lia). now rewrite H.
Qed.

Lemma f_slots_simple s : f_slots (simple_params s) = [].
Proof.
  induction s as [|[k vs] r IH]; [reflexivity|]. rewrite simple_params_cons, f_slots_app, IH, app_nil_r.
  induction vs; cbn; auto.
Qed.
Lemma f_slots_tail q : f_slots (tail_params q) = [].
Proof.
  unfold tail_params. destruct (limit q), (offset q) as [o|], (order q); try destruct (Z.eqb o 0); reflexivity.
Qed.

Lemma read_charts_k_params q : forallb wf_chart (charts q) = true ->
  read_charts_k (params_k q) = Some (map erase (charts q)).
Proof.
  intro W. unfold read_charts_k, field_ids.
  destruct (render_list_slots (charts q) 1) as (E & F & R).
  assert (FS : f_slots (params_k q) = Nseq 1 (nslots_l (charts q))).
  { unfold params_k. now rewrite !f_slots_app, f_slots_simple, f_slots_tail, F, app_nil_r. }
  rewrite FS, insert_sorted, <- (app_nil_r (Nseq 1 _)).
  rewrite (read_chart_list (charts q) W (params_k q) 1 [] [] []).
  - cbn [read_ids]. now rewrite app_nil_r, rev_involutive.
  - intros kd id _. unfold params_k. rewrite !vals_of_app.
    rewrite (vals_of_nokey _ _ (simple_no_pc _ _ _)), (vals_of_nokey _ _ (tail_no_pc _ _ _)).
    cbn [List.app]. now rewrite app_nil_r.
Qed.

Lemma parse_render_proof : forall q, wf_query q = true ->
  read_charts (params q) = Some (map erase (charts q)).
Proof.
  intros q W. unfold read_charts. rewrite (read_keys_params q W).
  apply read_charts_k_params, wf_query_charts, W.
Qed.

(* ------------------------------------------------------------------ insertion-ordered dicts *)
Definition keys (d : sdict) : list str := map fst d.

Lemma str_eqb_false a b : str_eqb a b = false <-> a <> b.
Proof.
  split.
  - intros H E. subst. now rewrite str_eqb_refl in H.
  - intro H. destruct (str_eqb a b) eqn:E; [|reflexivity]. apply str_eqb_eq in E. contradiction.
Qed.

Lemma dict_get_set d k v k2 :
  dict_get (dict_set d k v) k2 = if str_eqb k k2 then Some v else dict_get d k2.
Proof.
  induction d as [|[k1 v1] r IH]; cbn [dict_set dict_get]; [reflexivity|].
  destruct (str_eqb k1 k) eqn:E1; cbn [dict_get].
  - apply str_eqb_eq in E1. subst k1. destruct (str_eqb k k2); reflexivity.
  - rewrite IH. destruct (str_eqb k1 k2) eqn:E2, (str_eqb k k2) eqn:E3; try reflexivity.
    apply str_eqb_eq in E2, E3. subst. now rewrite str_eqb_refl in E1.
Qed.

Lemma keys_set d k v k' : In k' (keys (dict_set d k v)) <-> In k' (keys d) \/ k' = k.
Proof.
  induction d as [|[k1 v1] r IH]; cbn [dict_set keys map fst In].
  - intuition.
  - destruct (str_eqb k1 k) eqn:E; cbn [map fst In].
    + apply str_eqb_eq in E. subst. intuition.
    + unfold keys in IH. rewrite IH. intuition.
Qed.
Lemma nodup_set d k v : NoDup (keys d) -> NoDup (keys (dict_set d k v)).
Proof.
  induction d as [|[k1 v1] r IH]; cbn [dict_set keys map fst]; intro ND.
  - repeat constructor. intros [].
  - inversion ND as [|? ? Hn ND']; subst. destruct (str_eqb k1 k) eqn:E; cbn [map fst].
    + constructor; assumption.
    + constructor; [|apply IH, ND']. intro H. apply (keys_set r k v k1) in H as [H|H]; [contradiction|].
      subst. now rewrite str_eqb_refl in E.
Qed.

Lemma dict_get_none d k : ~ In k (keys d) -> dict_get d k = None.
Proof.
  induction d as [|[k1 v1] r IH]; intro H; [reflexivity|]. cbn [dict_get].
  destruct (str_eqb k1 k) eqn:E.
  - apply str_eqb_eq in E. subst. exfalso. apply H. now left.
  - apply IH. intro H'. apply H. now right.
Qed.
Lemma dict_get_in d k vs : dict_get d k = Some vs -> In (k, vs) d.
Proof.
  induction d as [|[k1 v1] r IH]; cbn [dict_get]; [discriminate|].
  destruct (str_eqb k1 k) eqn:E; intro H.
  - apply str_eqb_eq in E. injection H as <-. subst. now left.
  - right. now apply IH.
Qed.
Lemma in_dict_get d k vs : NoDup (keys d) -> In (k, vs) d -> dict_get d k = Some vs.
Proof.
  induction d as [|[k1 v1] r IH]; intros ND H; [destruct H|]. cbn [dict_get].
  cbn [keys map fst] in ND. inversion ND as [|? ? Hn ND']; subst. destruct H as [H|H].
  - injection H as -> ->. now rewrite str_eqb_refl.
  - destruct (str_eqb k1 k) eqn:E.
    + apply str_eqb_eq in E. subst. exfalso. apply Hn. change k with (fst (k, vs)). now apply in_map.
    + now apply IH.
Qed.

Lemma dict_set_fresh d k v : ~ In k (keys d) -> dict_set d k v = d ++ [(k, v)].
Proof.
  induction d as [|[k1 v1] r IH]; intro H; [reflexivity|]. cbn [dict_set].
  destruct (str_eqb k1 k) eqn:E.
  - apply str_eqb_eq in E. subst. exfalso. apply H. now left.
  - cbn. f_equal. apply IH. intro H'. apply H. now right.
Qed.
Lemma dict_of_nodup l : NoDup (keys l) -> dict_of l = l.
Proof.
  unfold dict_of. intro ND.
  assert (G : forall acc, NoDup (keys (acc ++ l)) ->
              fold_left (fun d kv => dict_set d (fst kv) (snd kv)) l acc = acc ++ l).
  { clear ND. induction l as [|[k v] r IH]; intros acc ND; cbn [fold_left]; [now rewrite app_nil_r|].
    cbn [fst snd]. rewrite dict_set_fresh.
    - rewrite IH; rewrite <- app_assoc; [reflexivity | exact ND].
    - unfold keys in *. rewrite map_app in ND. apply NoDup_remove_2 in ND. intro H. apply ND.
      apply in_or_app. now left. }
  apply (G []). exact ND.
Qed.

Lemma merge_step_get d kv k2 :
  dict_get (merge_step d kv) k2
  = if str_eqb (fst kv) k2
    then Some (get_or_nil d (fst kv) ++ filter (fun x => negb (mem_str x (get_or_nil d (fst kv)))) (snd kv))
    else dict_get d k2.
Proof. unfold merge_step. apply dict_get_set. Qed.

Lemma fold_merge_get b : NoDup (keys b) -> forall d k,
  dict_get (fold_left merge_step b d) k
  = match dict_get b k with
    | None => dict_get d k
    | Some vb => Some (get_or_nil d k ++ filter (fun x => negb (mem_str x (get_or_nil d k))) vb)
    end.
Proof.
  induction b as [|[k1 v1] r IH]; intros ND d k; [reflexivity|].
  cbn [keys map fst] in ND. inversion ND as [|? ? Hn ND']; subst.
  cbn [fold_left dict_get]. rewrite (IH ND'), merge_step_get. cbn [fst snd].
  destruct (str_eqb k1 k) eqn:E.
  - apply str_eqb_eq in E. subst k1. now rewrite (dict_get_none r k Hn).
  - unfold get_or_nil at 1 2. rewrite merge_step_get. cbn [fst]. rewrite E. reflexivity.
Qed.

Lemma fold_merge_keys b : forall d k,
  In k (keys (fold_left merge_step b d)) <-> In k (keys d) \/ In k (keys b).
Proof.
  induction b as [|[k1 v1] r IH]; intros d k; cbn [fold_left keys map fst In]; [tauto|].
  rewrite IH. unfold merge_step. rewrite keys_set. cbn [fst]. unfold keys. intuition.
Qed.
Lemma fold_merge_nodup b : forall d, NoDup (keys d) -> NoDup (keys (fold_left merge_step b d)).
Proof.
  induction b as [|kv r IH]; intros d ND; [exact ND|]. cbn [fold_left]. apply IH.
  unfold merge_step. now apply nodup_set.
Qed.

Lemma dict_of_keys_nodup l : NoDup (keys (dict_of l)).
Proof.
  unfold dict_of.
  assert (G : forall acc, NoDup (keys acc) ->
     NoDup (keys (fold_left (fun d kv => dict_set d (fst kv) (snd kv)) l acc))).
  { induction l as [|kv r IH]; intros acc ND; [exact ND|]. cbn [fold_left]. apply IH. now apply nodup_set. }
  apply G. constructor.
Qed.
(* a & b never carries a plain key twice *)
Lemma and_keys_nodup a b : NoDup (keys (simple (and_q a b))).
Proof. cbn [and_q simple]. unfold merge_simple. apply fold_merge_nodup, dict_of_keys_nodup. Qed.

(* ------------------------------------------------------------------ meaning of a rendered query *)
Lemma mem_str_in x l : mem_str x l = true <-> In x l.
Proof.
  unfold mem_str. rewrite existsb_exists. split.
  - intros (y & Hy & E). apply str_eqb_eq in E. now subst.
  - intro H. exists x. split; [exact H | apply str_eqb_refl].
Qed.

Lemma forallb_const {A} (X : bool) (l : list A) : forallb (fun _ => X) l = is_nil l || X.
Proof. induction l as [|a r IH]; [reflexivity|]. cbn [forallb is_nil orb]. rewrite IH. destruct X, (is_nil r); reflexivity. Qed.

Lemma forallb_map' {A B} (f : B -> bool) (g : A -> B) l : forallb f (map g l) = forallb (fun x => f (g x)) l.
Proof. induction l as [|a r IH]; [reflexivity|]. cbn. now rewrite IH. Qed.
Lemma filter_all_true {A} (f : A -> bool) l : (forall x, In x l -> f x = true) -> filter f l = l.
Proof.
  induction l as [|a r IH]; intro H; [reflexivity|]. cbn. rewrite (H a (or_introl eq_refl)).
  f_equal. apply IH. intros x Hx. apply H. now right.
Qed.
Lemma filter_all_false {A} (f : A -> bool) l : (forall x, In x l -> f x = false) -> filter f l = [].
Proof.
  induction l as [|a r IH]; intro H; [reflexivity|]. cbn. rewrite (H a (or_introl eq_refl)).
  apply IH. intros x Hx. apply H. now right.
Qed.

Lemma tail_no_plain q k : is_control k = false -> no_key (tail_params q) (PS k).
Proof.
  intros Hc v H. unfold is_control in Hc. apply orb_false_iff in Hc as [Hc H3]. apply orb_false_iff in Hc as [H1 H2].
  apply str_eqb_false in H1, H2, H3. unfold tail_params in H.
  destruct (limit q), (offset q) as [o|], (order q); try destruct (Z.eqb o 0); cbn in H;
    repeat (destruct H as [H|H]; [injection H as E _; congruence|]); exact H.
Qed.

Section SemProofs.
  Variable bug : Type.
  Variable has : str -> str -> bug -> bool.
  Variable cond : str -> str -> list str -> bug -> bool.

  (* a plain key with its values: no value = no parameter = no constraint *)
  Definition key_sem (x : bug) (kv : str * list str) : bool :=
    is_nil (snd kv) || existsb (fun v => has (fst kv) v x) (snd kv).
  Definition simple_sem (s : sdict) (x : bug) : bool := forallb (key_sem x) s.

  Definition okf (ps : kparams) (x : bug) (kv : pkey * str) : bool :=
    match fst kv with
    | PS n => is_control n || existsb (fun v => has n v x) (vals_of ps (PS n))
    | PC _ _ => true
    end.

  Lemma simple_ok_params q x : wf_query q = true -> NoDup (keys (simple q)) ->
    simple_ok bug has (params_k q) x = simple_sem (simple q) x.
  Proof.
    intros W ND. change (simple_ok bug has (params_k q) x) with (forallb (okf (params_k q) x) (params_k q)).
    set (ps := params_k q).
    unfold params_k in ps. unfold ps at 2. rewrite !forallb_app. fold ps.
    (* chart part and paging part are no constraints *)
    assert (C : forallb (okf ps x) (fst (render_list (charts q) 1)) = true).
    { apply forallb_forall. intros [k v] Hin. destruct (render_list_slots (charts q) 1) as (_ & _ & R).
      destruct (R _ _ Hin) as (kd & id & -> & _). reflexivity. }
    assert (T : forallb (okf ps x) (tail_params q) = true).
    { apply forallb_forall. intros [k v] Hin. unfold tail_params in Hin.
      destruct (limit q), (offset q) as [o|], (order q); try destruct (Z.eqb o 0); cbn in Hin;
        repeat (destruct Hin as [Hin|Hin]; [injection Hin as <- _; reflexivity|]); destruct Hin. }
    rewrite C, T, !andb_true_r.
    (* plain part: one test per key *)
    assert (V : forall k vs, In (k, vs) (simple q) -> is_control k = false /\ vals_of ps (PS k) = vs).
    { intros k vs Hin. destruct (wf_query_simple q W k vs Hin) as [_ Hc]. split; [exact Hc|].
      unfold ps. rewrite !vals_of_app, (vals_of_simple _ _ _ ND Hin).
      rewrite (vals_of_nokey (fst (render_list (charts q) 1)) (PS k)),
              (vals_of_nokey _ _ (tail_no_plain q k Hc)); [now rewrite !app_nil_r|].
      eapply in_range_no_ps, (render_list_slots (charts q) 1). }
    clear C T. revert V. generalize (simple q) as s. clear ND W.
    induction s as [|[k vs] r IH]; intro V; [reflexivity|].
    rewrite simple_params_cons, forallb_app. cbn [simple_sem forallb].
    rewrite IH by (intros k' vs' H; apply V; now right). f_equal.
    destruct (V k vs (or_introl eq_refl)) as [Hc Hv].
    rewrite forallb_map'. unfold okf. cbn [fst]. rewrite Hc, Hv. cbn [orb]. unfold key_sem. cbn [fst snd].
    apply forallb_const.
  Qed.

  Lemma sem_charac q x : wf_query q = true -> NoDup (keys (simple q)) ->
    sem bug has cond q x
    = Some (simple_sem (simple q) x && charts_ok bug cond x (map erase (charts q))).
  Proof.
    intros W ND. unfold sem, sem_params. rewrite (read_keys_params q W). unfold sem_k.
    rewrite (read_charts_k_params q (wf_query_charts q W)). now rewrite simple_ok_params.
  Qed.

  Lemma charts_ok_app x a b :
    charts_ok bug cond x (a ++ b) = charts_ok bug cond x a && charts_ok bug cond x b.
  Proof. unfold charts_ok, somes. now rewrite map_app, flat_map_app, forallb_app. Qed.

  (* the merged value list of a key carried by both sides *)
  Lemma key_sem_merged x k va vb :
    is_nil va || is_nil vb || same_set va vb = true ->
    key_sem x (k, va ++ filter (fun y => negb (mem_str y va)) vb)
    = key_sem x (k, va) && key_sem x (k, vb).
  Proof.
    intro H. destruct va as [|a ra].
    - cbn [List.app mem_str existsb negb]. rewrite filter_all_true by reflexivity. reflexivity.
    - destruct vb as [|b rb]; [cbn [filter]; rewrite app_nil_r; now rewrite andb_true_r|].
      cbn [is_nil orb] in H. unfold same_set in H. apply andb_true_iff in H as [H1 H2].
      rewrite forallb_forall in H1, H2.
      assert (F : filter (fun y => negb (mem_str y (a :: ra))) (b :: rb) = []).
      { apply filter_all_false. intros y Hy. rewrite (H2 y Hy). reflexivity. }
      rewrite F, app_nil_r. unfold key_sem. cbn [fst snd is_nil orb].
      assert (E : existsb (fun v => has k v x) (a :: ra) = existsb (fun v => has k v x) (b :: rb)).
      { apply Bool.eq_iff_eq_true. rewrite !existsb_exists. split; intros (y & Hy & Hh); exists y; split; auto.
        - apply mem_str_in. now apply H1.
        - apply mem_str_in. now apply H2. }
      rewrite <- E. now rewrite andb_diag.
  Qed.
End SemProofs.

(* ------------------------------------------------------------------ & is conjunction *)
Lemma no_conflict_spec a b : conflict a b = false ->
  forall k va vb, dict_get (simple a) k = Some va -> dict_get (simple b) k = Some vb ->
  is_nil va || is_nil vb || same_set va vb = true.
Proof.
  intros C k va vb Ga Gb. destruct (is_nil va || is_nil vb || same_set va vb) eqn:E; [reflexivity|].
  exfalso. apply orb_false_iff in E as [E E3]. apply orb_false_iff in E as [E1 E2].
  assert (X : conflict a b = true).
  { unfold conflict. apply existsb_exists. exists (k, vb). split; [now apply dict_get_in|].
    cbn [fst snd]. now rewrite Ga, E1, E2, E3. }
  congruence.
Qed.

Lemma wf_and a b : wf_query a = true -> wf_query b = true -> NoDup (keys (simple a)) ->
  wf_query (and_q a b) = true.
Proof.
  intros Wa Wb NDa. unfold wf_query. apply andb_true_iff. split.
  - apply forallb_forall. intros [k vs] Hin. cbn [fst].
    assert (Hk : In k (keys (simple (and_q a b)))) by (change k with (fst (k, vs)); now apply in_map).
    cbn [and_q simple] in Hk. unfold merge_simple in Hk. rewrite (dict_of_nodup _ NDa) in Hk.
    apply fold_merge_keys in Hk.
    assert (G : forall q, wf_query q = true -> In k (keys (simple q)) ->
                plain_name k && negb (is_control k) = true).
    { intros q W H. apply in_map_iff in H as ([k' vs'] & E & H). cbn in E. subst k'.
      destruct (wf_query_simple q W k vs' H) as [H1 H2]. now rewrite H1, H2. }
    destruct Hk as [Hk|Hk]; eauto.
  - cbn [and_q charts]. rewrite forallb_app. now rewrite (wf_query_charts a Wa), (wf_query_charts b Wb).
Qed.

Section AndProof.
  Variable bug : Type.
  Variable has : str -> str -> bug -> bool.
  Variable cond : str -> str -> list str -> bug -> bool.

  Lemma simple_sem_iff d x : NoDup (keys d) ->
    (simple_sem bug has d x = true
     <-> forall k vs, dict_get d k = Some vs -> key_sem bug has x (k, vs) = true).
  Proof.
    intro ND. unfold simple_sem. rewrite forallb_forall. split.
    - intros H k vs G. apply H, dict_get_in, G.
    - intros H [k vs] Hin. apply H, in_dict_get; auto.
  Qed.

  Lemma simple_sem_merge a b x : NoDup (keys a) -> NoDup (keys b) ->
    (forall k va vb, dict_get a k = Some va -> dict_get b k = Some vb ->
                     is_nil va || is_nil vb || same_set va vb = true) ->
    simple_sem bug has (merge_simple a b) x = simple_sem bug has a x && simple_sem bug has b x.
  Proof.
    intros NDa NDb NC. apply Bool.eq_iff_eq_true. rewrite andb_true_iff.
    unfold merge_simple. rewrite (dict_of_nodup _ NDa).
    rewrite !simple_sem_iff by (auto; apply fold_merge_nodup; auto).
    assert (Knil : forall k vb, key_sem bug has x (k, [] ++ filter (fun y => negb (mem_str y [])) vb)
                                = key_sem bug has x (k, vb)).
    { intros k vb. now rewrite key_sem_merged by reflexivity. }
    split.
    - intro H. split.
      + intros k va Ga. destruct (dict_get b k) as [vb|] eqn:Gb.
        * specialize (H k (va ++ filter (fun y => negb (mem_str y va)) vb)).
          rewrite (fold_merge_get b NDb), Gb in H. unfold get_or_nil in H. rewrite Ga in H.
          specialize (H eq_refl). rewrite key_sem_merged in H by (eapply NC; eauto).
          now apply andb_true_iff in H as [H _].
        * apply H. now rewrite (fold_merge_get b NDb), Gb.
      + intros k vb Gb. destruct (dict_get a k) as [va|] eqn:Ga.
        * specialize (H k (va ++ filter (fun y => negb (mem_str y va)) vb)).
          rewrite (fold_merge_get b NDb), Gb in H. unfold get_or_nil in H. rewrite Ga in H.
          specialize (H eq_refl). rewrite key_sem_merged in H by (eapply NC; eauto).
          now apply andb_true_iff in H as [_ H].
        * rewrite <- Knil. apply H. rewrite (fold_merge_get b NDb), Gb. unfold get_or_nil. now rewrite Ga.
    - intros [Ha Hb] k vs GM. rewrite (fold_merge_get b NDb) in GM.
      destruct (dict_get b k) as [vb|] eqn:Gb; [|now apply Ha].
      injection GM as <-. unfold get_or_nil. destruct (dict_get a k) as [va|] eqn:Ga.
      + rewrite key_sem_merged by (eapply NC; eauto). now rewrite (Ha _ _ Ga), (Hb _ _ Gb).
      + rewrite Knil. now apply Hb.
  Qed.

  Lemma and_is_conjunction_partial_proof a b x :
    wf_query a = true -> wf_query b = true ->
    NoDup (map fst (simple a)) -> NoDup (map fst (simple b)) ->
    conflict a b = false ->
    sem bug has cond (and_q a b) x = opt_and (sem bug has cond a x) (sem bug has cond b x).
  Proof.
    intros Wa Wb NDa NDb NC.
    rewrite (sem_charac bug has cond (and_q a b) x (wf_and a b Wa Wb NDa) (and_keys_nodup a b)).
    rewrite (sem_charac bug has cond a x Wa NDa), (sem_charac bug has cond b x Wb NDb).
    cbn [opt_and and_q simple charts]. f_equal.
    rewrite map_app, charts_ok_app, (simple_sem_merge _ _ x NDa NDb (no_conflict_spec a b NC)).
    destruct (simple_sem bug has (simple a) x), (simple_sem bug has (simple b) x),
      (charts_ok bug cond x (map erase (charts a))), (charts_ok bug cond x (map erase (charts b))); reflexivity.
  Qed.
End AndProof.

Definition and_is_conjunction_stmt : Prop :=
  forall (bug : Type) has cond a b (x : bug),
    wf_query a = true -> wf_query b = true ->
    NoDup (map fst (simple a)) -> NoDup (map fst (simple b)) ->
    sem bug has cond (and_q a b) x = opt_and (sem bug has cond a x) (sem bug has cond b x).

Definition s1 : str := [49%N]. Definition s2 : str := [50%N]. Definition s3 : str := [51%N].
(* ids[1,2] & ids[2,3] on bug 1: the combined search selects it, the conjunction does not *)
Lemma and_is_conjunction_refuted_proof : ~ and_is_conjunction_stmt.
Proof.
  intro H.
  specialize (H cbug c_has c_cond (ctor 0 [s1; s2]) (ctor 0 [s2; s3]) [(s_id, [s1])] eq_refl eq_refl).
  assert (ND : forall l, NoDup (map fst (simple (ctor 0 l)))) by (intro l; cbn; repeat constructor; intros []).
  specialize (H (ND _) (ND _)). vm_compute in H. discriminate H.
Qed.
Lemma conflict_witness : conflict (ctor 0 [s1; s2]) (ctor 0 [s2; s3]) = true.
Proof. reflexivity. Qed.

(* ------------------------------------------------------------------ batches stay within the budget *)
Lemma rebuild_shape q a : axis_ok q a ->
  exists A B, forall vs, params_k (rebuild q a vs) = A ++ map (fun v => (ax_key q a, v)) vs ++ B.
Proof.
  intros [vals Hin | i f o vals n Hn]; cbn [ax_key].
  - exists (simple_params (filter (fun kv => negb (str_eqb (fst kv) s_id)) (simple q))),
           (fst (render_list (charts q) 1) ++ tail_params q).
    intro vs. unfold params_k, rebuild. cbn [simple charts limit offset order].
    change (tail_params {| simple := _; charts := charts q; limit := limit q; offset := offset q; order := order q |})
      with (tail_params q).
    rewrite simple_params_app, <- app_assoc. f_equal. f_equal.
    destruct vs as [|v r]; [reflexivity|]. cbn [is_nil]. rewrite simple_params_cons.
    change (simple_params []) with (@nil (pkey * str)). now rewrite app_nil_r.
  - destruct (nth_error_split' _ _ _ Hn) as (l1 & l2 & Ec & Hlen & Hfirst).
    unfold slot_of. rewrite Hfirst. set (s1 := snd (render_list l1 1)).
    exists (simple_params (simple q) ++ fst (render_list l1 1) ++ [(PC KF s1, f); (PC KO s1, o)]),
           ((if n then [(PC KN s1, s_one)] else []) ++ fst (render_list l2 (N.succ s1)) ++ tail_params q).
    intro vs. unfold params_k, rebuild. cbn [simple charts limit offset order].
    change (tail_params {| simple := simple q; charts := _; limit := limit q; offset := offset q; order := order q |})
      with (tail_params q).
    rewrite Ec, <- Hlen, replace_nth_at. cbn [with_values]. rewrite chart_params_at. fold s1.
    unfold crit_params. now rewrite <- !app_assoc.
Qed.

Section Budget.
  Variable enc : str -> N.

  Lemma tot_len_app a b : tot_len enc (a ++ b) = (tot_len enc a + tot_len enc b)%N.
  Proof. unfold tot_len. induction a as [|x r IH]; cbn [List.app fold_right]; [reflexivity|]. rewrite IH. lia. Qed.

  (* true cost of the values of a chunk under parameter name k, and the cost batches() computes *)
  Definition act_cost (k : pkey) (vs : list str) : Z :=
    fold_right (fun v acc => (Z.of_N (pair_len enc (k, v) + 1) + acc)%Z) 0%Z vs.
  Definition sum_cost (cost : str -> Z) (vs : list str) : Z :=
    fold_right (fun v acc => (cost v + acc)%Z) 0%Z vs.

  Lemma tot_len_values k vs : Z.of_N (tot_len enc (map (fun v => (k, v)) vs)) = act_cost k vs.
  Proof. unfold tot_len, act_cost. induction vs as [|v r IH]; [reflexivity|]. cbn [map fold_right]. lia. Qed.

  Lemma sum_cost_app cost a b : sum_cost cost (a ++ b) = (sum_cost cost a + sum_cost cost b)%Z.
  Proof. unfold sum_cost. induction a as [|x r IH]; cbn [List.app fold_right]; [reflexivity|]. rewrite IH. lia. Qed.

  Lemma act_le_cost k ck vs : (enc (key_str k) <= enc ck)%N ->
    (act_cost k vs <= sum_cost (value_cost enc ck) vs)%Z.
  Proof.
    intro H. unfold act_cost, sum_cost. induction vs as [|v r IH]; cbn [fold_right]; [lia|].
    unfold value_cost, pair_len in *. cbn [fst snd] in *. lia.
  Qed.

  (* every chunk the loop emits is a single value or is priced within the budget *)
  Lemma chunks_inv cost budget : forall vals br used,
    used = sum_cost cost (List.rev br) ->
    (br = [] \/ length br = 1%nat \/ (used <= budget)%Z) ->
    forall c, In c (chunks cost budget vals br used) ->
      (c = [] /\ br = [] /\ vals = []) \/ length c = 1%nat \/ (sum_cost cost c <= budget)%Z.
  Proof.
    induction vals as [|v r IH]; intros br used Hu Hinv c Hc; cbn [chunks] in Hc.
    - destruct Hc as [<-|[]]. destruct Hinv as [->|[H|H]].
      + now left.
      + right; left. now rewrite rev_length.
      + right; right. now rewrite <- Hu.
    - destruct (negb (is_nil br) && (budget <? used + cost v)%Z) eqn:E.
      + apply andb_true_iff in E as [E1 E2]. destruct Hc as [<-|Hc].
        * destruct Hinv as [->|[H|H]]; [discriminate E1| |].
          -- right; left. now rewrite rev_length.
          -- right; right. now rewrite <- Hu.
        * specialize (IH [v] (cost v)). cbn [List.rev List.app sum_cost fold_right] in IH.
          destruct (IH ltac:(lia) ltac:(right; left; reflexivity) c Hc) as [(_ & H & _)|H]; [discriminate H | now right].
      + specialize (IH (v :: br) (used + cost v)%Z). cbn [List.rev] in IH. rewrite sum_cost_app in IH.
        cbn [sum_cost fold_right] in IH.
        assert (Hinv' : v :: br = [] \/ length (v :: br) = 1%nat \/ (used + cost v <= budget)%Z).
        { apply andb_false_iff in E as [E|E].
          - apply negb_false_iff in E. destruct br; [right; left; reflexivity | discriminate E].
          - right; right. apply Z.ltb_ge in E. lia. }
        destruct (IH ltac:(unfold sum_cost in *; lia) Hinv' c Hc) as [(_ & H & _)|H]; [discriminate H | now right].
  Qed.

  Lemma chunks_values cost budget vals c x :
    In c (chunks cost budget vals [] 0%Z) -> In x c -> In x vals.
  Proof.
    intros Hc Hx. pose proof (chunks_concat cost budget vals [] 0%Z) as E.
    cbn [List.rev List.app] in E. rewrite <- E. apply in_concat. eauto.
  Qed.

  Definition fits (base max : Z) (q : query) : Prop :=
    (base + Z.of_N (ulen enc (params_k q)) <= max)%Z.

  Lemma rev_nil_inv {A} (l : list A) : List.rev l = [] -> l = [].
  Proof. destruct l as [|x r]; [reflexivity|]. cbn [List.rev]. intro H. now apply app_eq_nil in H as [_ H]. Qed.

  Lemma chunks_nonempty cost budget : forall vals br used,
    (br <> [] \/ vals <> []) -> ~ In [] (chunks cost budget vals br used).
  Proof.
    induction vals as [|v r IH]; intros br used H Hin; cbn [chunks] in Hin.
    - destruct Hin as [Hin|[]]. apply rev_nil_inv in Hin. destruct H as [H|H]; now apply H.
    - destruct (negb (is_nil br) && (budget <? used + cost v)%Z) eqn:E.
      + apply andb_true_iff in E as [E1 _]. destruct Hin as [Hin|Hin].
        * apply rev_nil_inv in Hin. subst br. discriminate E1.
        * eapply IH; [|exact Hin]. left. discriminate.
      + eapply IH; [|exact Hin]. left. discriminate.
  Qed.

  Lemma act_cost_pos k c : c <> [] -> (1 <= act_cost k c)%Z.
  Proof.
    destruct c as [|v r]; [congruence|]. intros _. unfold act_cost. cbn [fold_right].
    assert (0 <= fold_right (fun v acc => (Z.of_N (pair_len enc (k, v) + 1) + acc)%Z) 0%Z r)%Z
      by (induction r as [|x r IH]; cbn [fold_right]; lia).
    lia.
  Qed.

  Lemma batch_within_budget_partial_proof q base max a :
    split_axis q = Some a ->
    (enc (key_str (ax_key q a)) <= enc (ax_cost_key a))%N ->
    ax_vals a <> [] ->
    (forall v, In v (ax_vals a) -> fits base max (rebuild q a [v])) ->
    forall b, In b (batches enc q base max) -> fits base max b.
  Proof.
    intros E KL NE Single b Hb. unfold batches in Hb. rewrite E in Hb.
    apply in_map_iff in Hb as (c & <- & Hc).
    destruct (rebuild_shape q a (split_axis_ok _ _ E)) as (A & B & Sh).
    assert (Cne : c <> []).
    { intro; subst c. exact (chunks_nonempty _ _ (ax_vals a) [] 0%Z (or_intror NE) Hc). }
    pose proof (chunks_inv _ _ (ax_vals a) [] 0%Z eq_refl (or_introl eq_refl) c Hc) as [(H & _)|[H|H]].
    - contradiction.
    - destruct c as [|v [|? ?]]; try discriminate H. apply Single.
      eapply chunks_values; eauto. now left.
    - unfold fits, ulen. rewrite Sh, !tot_len_app. unfold budget_of, ulen in H. rewrite Sh in H.
      cbn [map List.app] in H. rewrite tot_len_app in H.
      pose proof (tot_len_values (ax_key q a) c) as TV.
      pose proof (act_le_cost (ax_key q a) (ax_cost_key a) c KL) as AC.
      pose proof (act_cost_pos (ax_key q a) c Cne) as AP.
      rewrite !N.pred_sub in *. lia.
  Qed.
End Budget.

Definition batch_within_budget_stmt : Prop :=
  forall enc q base max a,
    split_axis q = Some a -> ax_vals a <> [] ->
    (forall v, In v (ax_vals a) -> fits enc base max (rebuild q a [v])) ->
    forall b, In b (batches enc q base max) -> fits enc base max b.

(* the known class: the split axis is a criterion whose field name encodes shorter than v<slot> *)
Definition short_field_axis (enc : str -> N) (q : query) (a : axis) : bool :=
  (enc (ax_cost_key a) <? enc (key_str (ax_key q a)))%N.

Lemma simple_axis_not_short enc q vals : short_field_axis enc q (AxSimple s_id vals) = false.
Proof. unfold short_field_axis. cbn. apply N.ltb_irrefl. Qed.

Lemma batch_within_budget_outside_class enc q base max a :
  split_axis q = Some a -> short_field_axis enc q a = false -> ax_vals a <> [] ->
  (forall v, In v (ax_vals a) -> fits enc base max (rebuild q a [v])) ->
  forall b, In b (batches enc q base max) -> fits enc base max b.
Proof.
  intros E K. apply batch_within_budget_partial_proof; auto.
  unfold short_field_axis in K. apply N.ltb_ge in K. exact K.
Qed.

(* witness: ten keyword conditions, then a splittable criterion on field "a" (slot 11, key v11):
   each value is priced 4 but costs 6, so two values are put into a budget of 8 *)
Definition kw (n : N) : chart := Crit s_keywords s_anywords [107%N :: dec_N n] false false.
Definition wq : query :=
  {| simple := []; charts := map kw [0;1;2;3;4;5;6;7;8;9]%N ++ [Crit [97%N] s_anywords [[120%N]; [121%N]; [122%N]] false true];
     limit := None; offset := None; order := None |}.
Definition wax : axis := AxChart 10 [97%N] [[120%N]; [121%N]; [122%N]].
Definition wmax : Z := (Z.of_N (ulen qlen (params_k (rebuild wq wax []))) + 8)%Z.

Lemma batch_within_budget_refuted_proof : ~ batch_within_budget_stmt.
Proof.
  intro H. specialize (H qlen wq 0%Z wmax wax eq_refl ltac:(discriminate)).
  assert (S1 : forall v, In v (ax_vals wax) -> fits qlen 0 wmax (rebuild wq wax [v])).
  { intros v [<-|[<-|[<-|[]]]]; vm_compute; discriminate. }
  specialize (H S1 (rebuild wq wax [[120%N]; [121%N]])).
  assert (I : In (rebuild wq wax [[120%N]; [121%N]]) (batches qlen wq 0 wmax)) by (vm_compute; now left).
  specialize (H I). vm_compute in H. apply H. reflexivity.
Qed.
Lemma short_field_witness : short_field_axis qlen wq wax = true.
Proof. reflexivity. Qed.

(* ------------------------------------------------------------------ whole queries *)
Lemma markers_simple s : markers (simple_params s) = [].
Proof.
  induction s as [|[k vs] r IH]; [reflexivity|]. rewrite simple_params_cons, markers_app, IH, app_nil_r.
  induction vs; cbn; auto.
Qed.
Lemma markers_tail q : markers (tail_params q) = [].
Proof.
  unfold tail_params. destruct (limit q), (offset q) as [o|], (order q); try destruct (Z.eqb o 0); reflexivity.
Qed.

Lemma query_slots_proof : forall q, forallb wf_chart (charts q) = true ->
  f_slots (params_k q) = Nseq 1 (N.to_nat (snd (render_list (charts q) 1) - 1)) /\
  NoDup (f_slots (params_k q)) /\ balanced (params_k q) = true.
Proof.
  intros q W. destruct (render_list_slots (charts q) 1) as (E & F & R).
  assert (FS : f_slots (params_k q) = Nseq 1 (nslots_l (charts q))).
  { unfold params_k. now rewrite !f_slots_app, f_slots_simple, f_slots_tail, F, app_nil_r. }
  split; [rewrite FS; f_equal; lia|]. split.
  - rewrite FS. generalize (nslots_l (charts q)) as n. generalize 1%N as s.
    intros s n; revert s; induction n as [|n IH]; intro s; cbn [Nseq]; constructor; [|apply IH].
    assert (G : forall m t x, In x (Nseq t m) -> (t <= x)%N).
    { induction m as [|m IHm]; intros t x H; [destruct H|]. destruct H as [<-|H]; [lia|].
      apply IHm in H. lia. }
    intro H. apply G in H. lia.
  - unfold balanced, params_k. rewrite !markers_app, markers_simple, markers_tail, app_nil_r. cbn [List.app].
    rewrite <- (app_nil_r (markers _)). now rewrite render_list_balanced.
Qed.

(* ------------------------------------------------------------------ any_of (outside the statement; see notes) *)
Definition any_of_is_disjunction_stmt : Prop :=
  forall (bug : Type) has cond qs q (x : bug),
    (forall o, In o qs -> wf_query o = true) -> any_of qs = Some q ->
    sem bug has cond q x = opt_or_list (map (fun o => sem bug has cond o x) qs).
(* any_of(keywords(x) & keywords(y), keywords(z)) on a bug with keyword x only *)
Lemma any_of_is_disjunction_refuted_proof : ~ any_of_is_disjunction_stmt.
Proof.
  intro H.
  pose (kx := ctor 8 [[120%N]]). pose (ky := ctor 8 [[121%N]]). pose (kz := ctor 8 [[122%N]]).
  specialize (H cbug c_has c_cond [and_q kx ky; kz]
                {| simple := []; charts := [Group JOr (charts (and_q kx ky) ++ charts kz)];
                   limit := None; offset := None; order := None |}
                [(s_keywords, [[120%N]])]).
  assert (W : forall o, In o [and_q kx ky; kz] -> wf_query o = true)
    by (intros o [<-|[<-|[]]]; reflexivity).
  specialize (H W eq_refl). vm_compute in H. discriminate H.
Qed.

(* ------------------------------------------------------------------ the premises are satisfiable *)
Definition ex_group : chart :=
  Group JOr [Crit s_keywords s_anywords [s1; s2] false false;
             Group JAndG [Crit s_tag s_nowordssubstr [s3] true false]; Group JAnd []].
Example ex_slots : fst (render_k ex_group 5) <> [] /\ snd (render_k ex_group 5) = 13%N
                   /\ wf_chart ex_group = true.
Proof. split; [vm_compute; discriminate | split; reflexivity]. Qed.
Definition ex_q1 : query := and_q (and_q (ctor 2 [s1; s2]) (ctor 7 [])) (and_q (ctor 9 [s1; s2]) (q_chart ex_group)).
Definition ex_q2 : query := and_q (ctor 0 [s1; s2; s3]) (ctor 10 [s3]).
Example ex_and_premises :
  wf_query ex_q1 = true /\ wf_query ex_q2 = true /\ conflict ex_q1 ex_q2 = false
  /\ NoDup (map fst (simple ex_q1)) /\ NoDup (map fst (simple ex_q2))
  /\ length (params (and_q ex_q1 ex_q2)) = 29%nat.
Proof.
  split; [reflexivity|]. split; [reflexivity|]. split; [reflexivity|].
  split; [|split; [|reflexivity]]; vm_compute; repeat constructor; cbn; intuition discriminate.
Qed.
Example ex_batches :
  let q := and_q (ctor 0 [s1; s2; s3; s1; s2]) (ctor 7 []) in
  split_axis q = Some (AxSimple s_id [s1; s2; s3; s1; s2]) /\
  length (batches qlen q 0 26) = 3%nat /\
  (forall v, In v [s1; s2; s3; s1; s2] -> fits qlen 0 26 (rebuild q (AxSimple s_id [s1; s2; s3; s1; s2]) [v])).
Proof.
  cbn zeta. split; [reflexivity|]. split; [reflexivity|].
  intros v H. repeat (destruct H as [<-|H]; [vm_compute; discriminate|]). destruct H.
Qed.

(* ------------------------------------------------------------------ any_of, outside its known class *)
(* a chart that contributes nothing: a condition without values, a group of such *)
Fixpoint vacuous (c : chart) : bool :=
  match c with
  | Crit _ _ vs _ _ => is_nil vs
  | Group _ cs => forallb vacuous cs
  end.

Section AnyOf.
  Variable bug : Type.
  Variable has : str -> str -> bug -> bool.
  Variable cond : str -> str -> list str -> bug -> bool.

  Lemma somes_nil l : somes l = [] <-> forall o, In o l -> o = None.
  Proof.
    induction l as [|[b|] r IH]; cbn [somes flat_map List.app].
    - split; [intros _ o [] | reflexivity].
    - split; [discriminate|]. intro H. specialize (H (Some b) (or_introl eq_refl)). discriminate.
    - change (flat_map _ r) with (somes r). rewrite IH. split.
      + intros H o [<-|Ho]; auto.
      + intros H o Ho. apply H. now right.
  Qed.

  Lemma eval_none_iff x : forall c, eval bug cond x (erase c) = None <-> vacuous c = true.
  Proof.
    induction c as [f o vs n sp | j cs IH] using chart_ind'.
    - cbn. destruct vs; split; intro H; try discriminate; reflexivity.
    - cbn [erase eval vacuous].
      assert (E : somes (map (eval bug cond x) (map erase cs)) = [] <-> forallb vacuous cs = true).
      { rewrite somes_nil, forallb_forall, map_map. rewrite Forall_forall in IH. split.
        - intros H c Hc. apply IH; [exact Hc|]. apply H. apply in_map_iff. now exists c.
        - intros H o Ho. apply in_map_iff in Ho as (c & <- & Hc). apply IH; auto. }
      destruct (somes (map (eval bug cond x) (map erase cs))) eqn:S.
      + split; [intros _; now apply E | reflexivity].
      + split; [discriminate|]. intro H. apply E in H. discriminate H.
  Qed.

  Definition unit_operand (o : query) (c : chart) : Prop :=
    wf_query o = true /\ simple o = [] /\ charts o = [c] /\ vacuous c = false.

  Lemma operands_values x qs cs : Forall2 unit_operand qs cs ->
    exists vs, map (fun c => eval bug cond x (erase c)) cs = map Some vs /\
               map (fun o => sem bug has cond o x) qs = map (fun v => Some (v && true)) vs /\
               flat_map charts qs = cs /\ forallb wf_chart cs = true.
  Proof.
    induction 1 as [|o c qs cs (W & S & C & V) _ (vs & E1 & E2 & E3 & E4)].
    - exists []. repeat split; reflexivity.
    - destruct (eval bug cond x (erase c)) as [v|] eqn:Ev.
      2:{ apply eval_none_iff in Ev. congruence. }
      exists (v :: vs). cbn [map flat_map forallb]. rewrite Ev, E1, E2, E3, E4, C.
      assert (ND : NoDup (keys (simple o))) by (rewrite S; constructor).
      rewrite (sem_charac bug has cond o x W ND), S, C. cbn [map simple_sem forallb].
      unfold charts_ok. cbn [map somes flat_map]. rewrite Ev. cbn [List.app forallb id].
      pose proof (wf_query_charts o W) as Wc. rewrite C in Wc. cbn [forallb] in Wc.
      apply andb_true_iff in Wc as [Wc _]. rewrite Wc. repeat split; reflexivity.
  Qed.

  Lemma somes_map_some vs : somes (map Some vs) = vs.
  Proof. induction vs as [|v r IH]; [reflexivity|]. cbn [map somes flat_map List.app]. change (flat_map _ (map Some r)) with (somes (map Some r)). now rewrite IH. Qed.

  Lemma opt_or_list_values vs :
    opt_or_list (map (fun v => Some (v && true)) vs) = Some (existsb id vs).
  Proof.
    induction vs as [|v r IH]; [reflexivity|]. cbn [map opt_or_list fold_right existsb].
    unfold opt_or_list in IH. rewrite IH. unfold id at 1. now rewrite andb_true_r.
  Qed.

  Lemma any_of_is_disjunction_partial_proof qs cs q x :
    qs <> [] -> Forall2 unit_operand qs cs -> any_of qs = Some q ->
    sem bug has cond q x = opt_or_list (map (fun o => sem bug has cond o x) qs).
  Proof.
    intros NE F A. destruct (operands_values x qs cs F) as (vs & E1 & E2 & E3 & E4).
    unfold any_of in A. destruct (forallb (fun q => is_nil (simple q)) qs); [|discriminate].
    injection A as <-. rewrite E3.
    assert (W : wf_query {| simple := []; charts := [Group JOr cs]; limit := None; offset := None; order := None |} = true).
    { unfold wf_query. cbn [simple charts forallb wf_chart]. now rewrite E4. }
    rewrite (sem_charac bug has cond _ x W ltac:(constructor)). cbn [simple charts simple_sem forallb map erase].
    rewrite E2, opt_or_list_values. f_equal.
    unfold charts_ok. cbn [map eval]. rewrite map_map, E1, somes_map_some.
    destruct vs as [|v r].
    - destruct qs; [congruence|]. cbn [map] in E2. discriminate E2.
    - cbn [somes flat_map List.app forallb xorb]. unfold id at 1. destruct (existsb id (v :: r)); reflexivity.
  Qed.
End AnyOf.
