(* Spec_C02.v — the statement of C02 over the observable results of the seven questions asked of
   a pair (x, y):  ==, !=, <, <=, >, >=, hash(x) = hash(y).

     * objects that compare equal have equal hashes and are neither less nor greater;
     * objects that compare unequal are strictly ordered one way;
     * the six rich comparison operators are mutually consistent.

   plus the decidable KNOWN CLASSES in which the pinned implementation (and the faithful model)
   violates a clause; outside them the clauses are theorems (Prop_C02). *)
From Coq Require Import List NArith ZArith Bool.
Import ListNotations.
From Verif Require Import Base.Val gen.Tables_C02 C01.Model_C01 C02.Model_C02.

Record obs := { o_eq : bool; o_ne : bool; o_lt : bool; o_le : bool; o_gt : bool; o_ge : bool; o_hash : bool }.

Definition impb (a b : bool) : bool := negb a || b.

(* the clauses, one by one *)
Definition cl_eq_hash (o : obs) : bool := impb (o_eq o) (o_hash o).
Definition cl_eq_unordered (o : obs) : bool := impb (o_eq o) (negb (o_lt o) && negb (o_gt o)).
Definition cl_neq_strict (o : obs) : bool := impb (negb (o_eq o)) (o_lt o || o_gt o).
Definition cl_ne (o : obs) : bool := Bool.eqb (o_ne o) (negb (o_eq o)).
Definition cl_le (o : obs) : bool := Bool.eqb (o_le o) (o_lt o || o_eq o).
Definition cl_ge (o : obs) : bool := Bool.eqb (o_ge o) (o_gt o || o_eq o).
Definition cl_asym (o : obs) : bool := negb (o_lt o && o_gt o).
Definition all_clauses (o : obs) : bool :=
  cl_eq_hash o && cl_eq_unordered o && cl_neq_strict o && cl_ne o && cl_le o && cl_ge o && cl_asym o.

(* ---- known classes (decidable, on the pair) *)
(* CPV: same category and package, version texts differ (1.0 / 1.00, _alpha / _alpha0):
   equal, yet hashed by different texts *)
Definition cpv_known (a b : cpv) : bool := same_key a b && negb (str_eqb (ver a) (ver b)).

(* atoms *)
Definition k_strength (a b : atomf) : bool := negb (Bool.eqb (a_bstrong a) (a_bstrong b)).  (* ! vs !! *)
Definition k_use_order (a b : atomf) : bool :=
  negb (opt_eqb (list_eqb str_eqb) (a_use_raw a) (a_use_raw b)).                           (* [x,y] vs [y,x] *)
Definition k_blind (a b : atomf) : bool :=       (* attributes __cmp__ does not read *)
  negb (opt_eqb str_eqb (a_subslot a) (a_subslot b))
  || negb (opt_eqb str_eqb (a_slotop a) (a_slotop b))
  || negb (str_eqb (a_cpvstr a) (a_cpvstr b)).

Definition cpv_clauses (a b : cpv) (o : obs) : bool :=
  (cpv_known a b || cl_eq_hash o)
  && cl_eq_unordered o && cl_neq_strict o && cl_ne o && cl_le o && cl_ge o && cl_asym o.

Definition atom_clauses (a b : atomf) (o : obs) : bool :=
  (k_strength a b || k_use_order a b || cl_eq_hash o)
  && (k_strength a b || cl_eq_unordered o)
  && (k_blind a b || cl_neq_strict o)
  && cl_ne o
  && (k_strength a b || k_blind a b || (cl_le o && cl_ge o))
  && cl_asym o.

(* ---- executable acceptors on the IMPLEMENTATION's recorded results (comparison B) *)
Definition dec_obs (v : val) : option obs :=
  match v with
  | VL [VB e; VB n; VB l; VB le; VB g; VB ge; VB h] =>
      Some {| o_eq := e; o_ne := n; o_lt := l; o_le := le; o_gt := g; o_ge := ge; o_hash := h |}
  | _ => None
  end.
Definition spec_cpv_ok (i : cpv * cpv) (res : val) : bool :=
  match dec_obs res with Some o => cpv_clauses (fst i) (snd i) o | None => false end.
Definition spec_atom_ok (i : atomf * atomf) (res : val) : bool :=
  match dec_obs res with Some o => atom_clauses (fst i) (snd i) o | None => false end.

(* what the model answers *)
Definition cpv_obs (a b : cpv) : obs :=
  {| o_eq := cpv_eq2 a b; o_ne := negb (cpv_eq2 a b); o_lt := cpv_lt a b; o_le := cpv_le a b;
     o_gt := cpv_gt a b; o_ge := cpv_ge a b; o_hash := str_eqb (cpv_hash_key a) (cpv_hash_key b) |}.
Definition atom_obs (a b : atomf) : obs :=
  {| o_eq := atom_eq a b; o_ne := atom_ne a b; o_lt := atom_lt a b; o_le := atom_le a b;
     o_gt := atom_gt a b; o_ge := atom_ge a b; o_hash := str_eqb (atom_hash_key a) (atom_hash_key b) |}.
