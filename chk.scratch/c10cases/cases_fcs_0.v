From Coq Require Import List NArith ZArith Bool.
From Verif Require Import Base.Val C10.Model_C10 C10.Spec_C10.
Import ListNotations.

Definition cases : list ((fcs_input) * val) := 
[
  (([(Grp KOr false [(Cond true 2%N [(Flag false false [0%N])]); (Grp KAnd false [(Flag false false [1%N]); (Flag false false [2%N]); (Flag true false [1%N])])])], ((@nil (N)), (@nil (N)), [0%N; 2%N], (@nil (N)))),
   (sols_val false 0 nil));
  (([(Grp KOr false [(Cond true 2%N [(Flag false false [0%N])]); (Grp KAnd false [(Flag false false [1%N]); (Flag false false [2%N]); (Flag true false [1%N])])])], ([0%N], (@nil (N)), (@nil (N)), [2%N])),
   (sols_val false 7 [1]%N));
  (([(Grp KOr false [(Cond true 2%N [(Flag false false [0%N])]); (Grp KAnd false [(Flag false false [1%N]); (Flag false false [2%N]); (Flag true false [1%N])])])], ([1%N; 5%N], (@nil (N)), (@nil (N)), [5%N; 6%N])),
   (sols_val false 0 nil));
  (([(Grp KOr false [(Cond true 2%N [(Flag false false [0%N])]); (Grp KAnd false [(Flag false false [1%N]); (Flag false false [2%N]); (Flag true false [1%N])])])], ([2%N], [1%N], [2%N], [0%N; 2%N; 5%N])),
   (sols_val false 0 nil));
  (([(Grp KOr false [(Cond true 2%N [(Flag false false [0%N])]); (Grp KAnd false [(Flag false false [1%N]); (Flag false false [2%N]); (Flag true false [1%N])])])], ([0%N; 1%N], (@nil (N)), (@nil (N)), [2%N; 5%N])),
   (sols_val false 7 [1; 3]%N));
  (([(Grp KOr false [(Cond true 2%N [(Flag false false [0%N])]); (Grp KAnd false [(Flag false false [1%N]); (Flag false false [2%N]); (Flag true false [1%N])])])], ([0%N; 2%N], (@nil (N)), [0%N], [0%N])),
   (sols_val false 7 [4]%N));
  (([(Grp KOr false [(Cond true 2%N [(Flag false false [0%N])]); (Grp KAnd false [(Flag false false [1%N]); (Flag false false [2%N]); (Flag true false [1%N])])])], ([1%N; 2%N], (@nil (N)), [2%N], (@nil (N)))),
   (sols_val false 0 nil));
  (([(Grp KOr false [(Cond true 2%N [(Flag false false [0%N])]); (Grp KAnd false [(Flag false false [1%N]); (Flag false false [2%N]); (Flag true false [1%N])])])], ([0%N; 1%N; 2%N], (@nil (N)), (@nil (N)), [0%N; 5%N; 6%N])),
   (sols_val true 7 [1; 3; 4; 5; 6; 7]%N));
  (([(Flag true false [0%N]); (Flag false false [3%N])], ((@nil (N)), (@nil (N)), (@nil (N)), [5%N])),
   (sols_val false 0 nil));
  (([(Flag true false [0%N]); (Flag false false [3%N])], ([0%N], [3%N], (@nil (N)), [0%N; 3%N])),
   (sols_val false 0 nil));
  (([(Flag true false [0%N]); (Flag false false [3%N])], ([3%N; 5%N], (@nil (N)), (@nil (N)), (@nil (N)))),
   (sols_val false 41 [8; 40]%N));
  (([(Flag true false [0%N]); (Flag false false [3%N])], ([0%N; 3%N; 5%N], (@nil (N)), (@nil (N)), [5%N])),
   (sols_val false 41 [8; 40]%N));
  (([(Flag false false [3%N])], ((@nil (N)), (@nil (N)), (@nil (N)), [5%N])),
   (sols_val false 0 nil));
  (([(Flag false false [3%N])], ([3%N; 5%N], [5%N], (@nil (N)), [5%N])),
   (sols_val false 40 [40]%N));
  (([(Cond false 0%N [(Cond false 0%N [(Flag true false [0%N]); (Flag false false [0%N])]); (Grp KAmo false [(Flag false false [0%N]); (Flag true false [0%N])])]); (Flag true false [0%N])], ((@nil (N)), [5%N], (@nil (N)), [0%N; 6%N])),
   (sols_val true 1 [0]%N));
  (([(Cond false 0%N [(Cond false 0%N [(Flag true false [0%N]); (Flag false false [0%N])]); (Grp KAmo false [(Flag false false [0%N]); (Flag true false [0%N])])]); (Flag true false [0%N])], ([0%N], (@nil (N)), [5%N; 6%N], [0%N; 5%N])),
   (sols_val false 1 [0]%N));
  (([(Flag false false [1%N]); (Flag false false [1%N]); (Grp KAmo false [(Flag true false [1%N]); (Flag false false [1%N]); (Flag true false [0%N])])], ((@nil (N)), (@nil (N)), (@nil (N)), (@nil (N)))),
   (sols_val false 0 nil));
  (([(Flag false false [1%N]); (Flag false false [1%N]); (Grp KAmo false [(Flag true false [1%N]); (Flag false false [1%N]); (Flag true false [0%N])])], ([0%N], [5%N], (@nil (N)), [1%N; 6%N])),
   (sols_val false 0 nil));
  (([(Flag false false [1%N]); (Flag false false [1%N]); (Grp KAmo false [(Flag true false [1%N]); (Flag false false [1%N]); (Flag true false [0%N])])], ([1%N], (@nil (N)), (@nil (N)), [5%N; 6%N])),
   (sols_val false 0 nil));
  (([(Flag false false [1%N]); (Flag false false [1%N]); (Grp KAmo false [(Flag true false [1%N]); (Flag false false [1%N]); (Flag true false [0%N])])], ([0%N; 1%N], [5%N], [0%N], (@nil (N)))),
   (sols_val false 0 nil));
  (([(Flag false false [4%N])], ((@nil (N)), (@nil (N)), (@nil (N)), [6%N])),
   (sols_val false 0 nil));
  (([(Flag false false [4%N])], ([4%N], [4%N], (@nil (N)), (@nil (N)))),
   (sols_val true 16 [16]%N));
  (([(Cond true 2%N [(Flag false false [0%N]); (Grp KOne false [(Flag false false [2%N]); (Flag false false [0%N]); (Flag false false [0%N])]); (Flag true false [1%N])]); (Flag false false [2%N]); (Flag false false [2%N])], ((@nil (N)), (@nil (N)), (@nil (N)), (@nil (N)))),
   (sols_val false 0 nil));
  (([(Cond true 2%N [(Flag false false [0%N]); (Grp KOne false [(Flag false false [2%N]); (Flag false false [0%N]); (Flag false false [0%N])]); (Flag true false [1%N])]); (Flag false false [2%N]); (Flag false false [2%N])], ([0%N], [0%N], (@nil (N)), [6%N])),
   (sols_val false 0 nil));
  (([(Cond true 2%N [(Flag false false [0%N]); (Grp KOne false [(Flag false false [2%N]); (Flag false false [0%N]); (Flag false false [0%N])]); (Flag true false [1%N])]); (Flag false false [2%N]); (Flag false false [2%N])], ([1%N], (@nil (N)), [2%N], [5%N])),
   (sols_val false 0 nil));
  (([(Cond true 2%N [(Flag false false [0%N]); (Grp KOne false [(Flag false false [2%N]); (Flag false false [0%N]); (Flag false false [0%N])]); (Flag true false [1%N])]); (Flag false false [2%N]); (Flag false false [2%N])], ([2%N; 5%N], [2%N], (@nil (N)), [5%N])),
   (sols_val true 39 [4; 36]%N));
  (([(Cond true 2%N [(Flag false false [0%N]); (Grp KOne false [(Flag false false [2%N]); (Flag false false [0%N]); (Flag false false [0%N])]); (Flag true false [1%N])]); (Flag false false [2%N]); (Flag false false [2%N])], ([0%N; 1%N], (@nil (N)), (@nil (N)), [1%N])),
   (sols_val false 0 nil));
  (([(Cond true 2%N [(Flag false false [0%N]); (Grp KOne false [(Flag false false [2%N]); (Flag false false [0%N]); (Flag false false [0%N])]); (Flag true false [1%N])]); (Flag false false [2%N]); (Flag false false [2%N])], ([0%N; 2%N], [0%N; 1%N], [2%N], [0%N; 1%N; 2%N; 5%N; 6%N])),
   (sols_val false 0 nil));
  (([(Cond true 2%N [(Flag false false [0%N]); (Grp KOne false [(Flag false false [2%N]); (Flag false false [0%N]); (Flag false false [0%N])]); (Flag true false [1%N])]); (Flag false false [2%N]); (Flag false false [2%N])], ([1%N; 2%N], (@nil (N)), [1%N], [0%N])),
   (sols_val false 7 [4]%N));
  (([(Cond true 2%N [(Flag false false [0%N]); (Grp KOne false [(Flag false false [2%N]); (Flag false false [0%N]); (Flag false false [0%N])]); (Flag true false [1%N])]); (Flag false false [2%N]); (Flag false false [2%N])], ([0%N; 1%N; 2%N], (@nil (N)), (@nil (N)), [1%N; 2%N; 6%N])),
   (sols_val true 7 [4; 5; 6; 7]%N));
  (([(Grp KOne false [(Flag false false [1%N]); (Grp KOr false [(Flag false false [1%N]); (Flag false false [2%N]); (Flag false false [0%N])])])], ((@nil (N)), [5%N; 6%N], (@nil (N)), [5%N; 6%N])),
   (sols_val false 0 nil));
  (([(Grp KOne false [(Flag false false [1%N]); (Grp KOr false [(Flag false false [1%N]); (Flag false false [2%N]); (Flag false false [0%N])])])], ([0%N], [5%N], (@nil (N)), [1%N; 6%N])),
   (sols_val false 7 [1]%N));
  (([(Grp KOne false [(Flag false false [1%N]); (Grp KOr false [(Flag false false [1%N]); (Flag false false [2%N]); (Flag false false [0%N])])])], ([1%N; 5%N], [0%N], [5%N], [2%N])),
   (sols_val false 0 nil));
  (([(Grp KOne false [(Flag false false [1%N]); (Grp KOr false [(Flag false false [1%N]); (Flag false false [2%N]); (Flag false false [0%N])])])], ([2%N], [1%N], [6%N], [1%N; 5%N; 6%N])),
   (sols_val false 7 [4]%N));
  (([(Grp KOne false [(Flag false false [1%N]); (Grp KOr false [(Flag false false [1%N]); (Flag false false [2%N]); (Flag false false [0%N])])])], ([0%N; 1%N; 5%N], (@nil (N)), [2%N], [0%N])),
   (sols_val true 39 [1; 33]%N));
  (([(Grp KOne false [(Flag false false [1%N]); (Grp KOr false [(Flag false false [1%N]); (Flag false false [2%N]); (Flag false false [0%N])])])], ([0%N; 2%N; 5%N], (@nil (N)), [2%N], [5%N])),
   (sols_val false 39 [1; 33]%N));
  (([(Grp KOne false [(Flag false false [1%N]); (Grp KOr false [(Flag false false [1%N]); (Flag false false [2%N]); (Flag false false [0%N])])])], ([1%N; 2%N; 5%N], [0%N], [6%N], [0%N; 2%N])),
   (sols_val true 39 [4; 36]%N));
  (([(Grp KOne false [(Flag false false [1%N]); (Grp KOr false [(Flag false false [1%N]); (Flag false false [2%N]); (Flag false false [0%N])])])], ([0%N; 1%N; 2%N], [1%N], [5%N; 6%N], [2%N; 6%N])),
   (sols_val false 0 nil));
  (([(Flag false false [0%N]); (Grp KAmo false [(Flag true false [1%N]); (Flag true false [0%N]); (Flag false false [0%N])])], ([5%N], (@nil (N)), (@nil (N)), [0%N])),
   (sols_val false 0 nil));
  (([(Flag false false [0%N]); (Grp KAmo false [(Flag true false [1%N]); (Flag true false [0%N]); (Flag false false [0%N])])], ([0%N], [0%N], (@nil (N)), (@nil (N)))),
   (sols_val false 0 nil));
  (([(Flag false false [0%N]); (Grp KAmo false [(Flag true false [1%N]); (Flag true false [0%N]); (Flag false false [0%N])])], ([1%N; 5%N], (@nil (N)), (@nil (N)), [0%N; 5%N; 6%N])),
   (sols_val false 0 nil));
  (([(Flag false false [0%N]); (Grp KAmo false [(Flag true false [1%N]); (Flag true false [0%N]); (Flag false false [0%N])])], ([0%N; 1%N], [0%N], (@nil (N)), (@nil (N)))),
   (sols_val false 3 [3]%N));
  (([(Flag false false [2%N]); (Flag true false [0%N]); (Grp KOne false [(Grp KOne false [(Flag false false [0%N]); (Flag false false [1%N])]); (Grp KAnd false [(Flag false false [1%N]); (Cond false 2%N [(Flag false false [1%N])])]); (Cond true 2%N [(Flag true false [2%N])])])], ([5%N], (@nil (N)), (@nil (N)), [0%N; 1%N])),
   (sols_val false 0 nil));
  (([(Flag false false [2%N]); (Flag true false [0%N]); (Grp KOne false [(Grp KOne false [(Flag false false [0%N]); (Flag false false [1%N])]); (Grp KAnd false [(Flag false false [1%N]); (Cond false 2%N [(Flag false false [1%N])])]); (Cond true 2%N [(Flag true false [2%N])])])], ([0%N; 5%N], (@nil (N)), [2%N], [2%N])),
   (sols_val false 0 nil));
  (([(Flag false false [2%N]); (Flag true false [0%N]); (Grp KOne false [(Grp KOne false [(Flag false false [0%N]); (Flag false false [1%N])]); (Grp KAnd false [(Flag false false [1%N]); (Cond false 2%N [(Flag false false [1%N])])]); (Cond true 2%N [(Flag true false [2%N])])])], ([1%N], (@nil (N)), [0%N], [2%N; 5%N; 6%N])),
   (sols_val false 0 nil));
  (([(Flag false false [2%N]); (Flag true false [0%N]); (Grp KOne false [(Grp KOne false [(Flag false false [0%N]); (Flag false false [1%N])]); (Grp KAnd false [(Flag false false [1%N]); (Cond false 2%N [(Flag false false [1%N])])]); (Cond true 2%N [(Flag true false [2%N])])])], ([2%N; 5%N], [1%N; 2%N], (@nil (N)), [0%N; 1%N; 2%N; 6%N])),
   (sols_val true 39 [4; 36]%N));
  (([(Flag false false [2%N]); (Flag true false [0%N]); (Grp KOne false [(Grp KOne false [(Flag false false [0%N]); (Flag false false [1%N])]); (Grp KAnd false [(Flag false false [1%N]); (Cond false 2%N [(Flag false false [1%N])])]); (Cond true 2%N [(Flag true false [2%N])])])], ([0%N; 1%N; 5%N], (@nil (N)), (@nil (N)), [0%N; 6%N])),
   (sols_val false 0 nil));
  (([(Flag false false [2%N]); (Flag true false [0%N]); (Grp KOne false [(Grp KOne false [(Flag false false [0%N]); (Flag false false [1%N])]); (Grp KAnd false [(Flag false false [1%N]); (Cond false 2%N [(Flag false false [1%N])])]); (Cond true 2%N [(Flag true false [2%N])])])], ([0%N; 2%N], (@nil (N)), [0%N; 5%N], [0%N; 6%N])),
   (sols_val false 7 [4]%N));
  (([(Flag false false [2%N]); (Flag true false [0%N]); (Grp KOne false [(Grp KOne false [(Flag false false [0%N]); (Flag false false [1%N])]); (Grp KAnd false [(Flag false false [1%N]); (Cond false 2%N [(Flag false false [1%N])])]); (Cond true 2%N [(Flag true false [2%N])])])], ([1%N; 2%N; 5%N], (@nil (N)), [5%N], [0%N])),
   (sols_val false 39 [4]%N));
  (([(Flag false false [2%N]); (Flag true false [0%N]); (Grp KOne false [(Grp KOne false [(Flag false false [0%N]); (Flag false false [1%N])]); (Grp KAnd false [(Flag false false [1%N]); (Cond false 2%N [(Flag false false [1%N])])]); (Cond true 2%N [(Flag true false [2%N])])])], ([0%N; 1%N; 2%N], (@nil (N)), (@nil (N)), [2%N; 5%N; 6%N])),
   (sols_val true 7 [4]%N));
  (([(Flag false false [0%N]); (Flag false false [0%N])], ((@nil (N)), (@nil (N)), (@nil (N)), (@nil (N)))),
   (sols_val false 0 nil));
  (([(Flag false false [0%N]); (Flag false false [0%N])], ([0%N], [5%N], (@nil (N)), [5%N])),
   (sols_val false 1 [1]%N));
  (([(Cond false 0%N [(Flag false false [0%N])]); (Grp KAnd false [(Flag false false [4%N]); (Flag true false [1%N])])], ([5%N], [4%N], (@nil (N)), [0%N; 1%N])),
   (sols_val false 0 nil));
  (([(Cond false 0%N [(Flag false false [0%N])]); (Grp KAnd false [(Flag false false [4%N]); (Flag true false [1%N])])], ([0%N], [1%N; 6%N], [5%N], [1%N; 4%N; 5%N])),
   (sols_val false 0 nil));
  (([(Cond false 0%N [(Flag false false [0%N])]); (Grp KAnd false [(Flag false false [4%N]); (Flag true false [1%N])])], ([1%N; 5%N], (@nil (N)), [6%N], [1%N; 4%N])),
   (sols_val false 0 nil));
  (([(Cond false 0%N [(Flag false false [0%N])]); (Grp KAnd false [(Flag false false [4%N]); (Flag true false [1%N])])], ([4%N], [1%N], (@nil (N)), [1%N])),
   (sols_val false 19 [16]%N));
  (([(Cond false 0%N [(Flag false false [0%N])]); (Grp KAnd false [(Flag false false [4%N]); (Flag true false [1%N])])], ([0%N; 1%N; 5%N], [4%N], (@nil (N)), [1%N; 4%N])),
   (sols_val false 0 nil));
  (([(Cond false 0%N [(Flag false false [0%N])]); (Grp KAnd false [(Flag false false [4%N]); (Flag true false [1%N])])], ([0%N; 4%N], (@nil (N)), (@nil (N)), (@nil (N)))),
   (sols_val false 19 [16; 17]%N));
  (([(Cond false 0%N [(Flag false false [0%N])]); (Grp KAnd false [(Flag false false [4%N]); (Flag true false [1%N])])], ([1%N; 4%N], [0%N; 4%N], [6%N], (@nil (N)))),
   (sols_val true 19 [16]%N));
  (([(Cond false 0%N [(Flag false false [0%N])]); (Grp KAnd false [(Flag false false [4%N]); (Flag true false [1%N])])], ([0%N; 1%N; 4%N], (@nil (N)), [1%N; 5%N], [5%N; 6%N])),
   (sols_val false 19 [16; 17]%N))
].
Eval vm_compute in (mismatches run_fcs cases).
Eval vm_compute in (where_ (fun i r => negb (spec_fcs_ok i r)) cases).
