From Coq Require Import List NArith ZArith Bool Lia Permutation.
Import ListNotations.
From Verif Require Import Base.Val C18.Fs C18.FsLemmas C28.Model_C28 C28.Spec_C28.
Open Scope N_scope.

(* ================================================================ the write: atomicity *)
Lemma concat_chunks_fuel : forall fuel n s, (0 < n)%nat -> (length s <= fuel)%nat ->
  concat (chunks_fuel fuel n s) = s.
Proof.
  induction fuel as [|f IH]; intros n s Hn Hl; destruct s as [|x s']; cbn [chunks_fuel concat]; try reflexivity.
  - cbn in Hl. lia.
  - rewrite IH; [apply firstn_skipn|exact Hn|].
    rewrite skipn_length. cbn [length] in *. lia.
Qed.

Lemma concat_chunks_of n s : concat (chunks_of n s) = s.
Proof.
  destruct n as [|n]; cbn [chunks_of].
  - destruct s; cbn; [reflexivity|now rewrite app_nil_r].
  - apply concat_chunks_fuel; lia.
Qed.

Lemma TMP_neq_P : TMP <> P.
Proof. unfold TMP, P. intro H. discriminate H. Qed.

(* crash prefixes of the tail  write..; rename  from a staged state *)
Lemma staged_tail_atomic s s1 tmp p chunks k :
  tmp <> p -> staged s tmp s1 ->
  let ops := appends tmp chunks ++ [Rename tmp p] in
  let sk := run (firstn k ops) s1 in
  (forall q, q <> p -> q <> tmp -> lookup sk q = lookup s q) /\
  (lookup sk p = lookup s p \/
   exists s2, run_opt (appends tmp chunks) s1 = Some s2 /\ lookup sk p = lookup s2 tmp /\
              (length ops <= k)%nat).
Proof.
  intros Hne Hs1 ops sk. subst ops sk.
  pose proof (staged_middle s tmp chunks [] (Forall_nil _)) as Hmid. rewrite app_nil_r in Hmid.
  set (mid := appends tmp chunks) in *.
  destruct (Nat.le_gt_cases k (length mid)) as [Hk|Hk].
  - rewrite firstn_app. replace (k - length mid)%nat with 0%nat by lia. cbn [firstn]. rewrite app_nil_r.
    pose proof (run_prefix_inv _ _ Hmid s1 k Hs1) as [Hfr _].
    split; [intros q _ Hq; now apply Hfr|left; apply Hfr; congruence].
  - rewrite firstn_all2 by (rewrite app_length; cbn; lia).
    rewrite run_app. destruct (run_opt mid s1) as [s2|] eqn:Hm.
    + pose proof (run_inv _ _ Hmid s1 Hs1) as Hs2. rewrite (run_opt_run _ _ _ Hm) in Hs2.
      cbn [run]. destruct (apply_op s2 (Rename tmp p)) as [s3|] eqn:Hr.
      * destruct (staged_rename _ _ _ _ _ Hne Hs2 Hr) as [Hfr Hp].
        split; [exact Hfr|]. right. exists s2. repeat split; auto.
        rewrite app_length. cbn [length]. lia.
      * destruct Hs2 as [Hfr _]. split; [intros q _ Hq; now apply Hfr|left; apply Hfr; congruence].
    + pose proof (run_inv _ _ Hmid s1 Hs1) as [Hfr _].
      split; [intros q _ Hq; now apply Hfr|left; apply Hfr; congruence].
Qed.

(* a stale temporary with a private inode: truncating it stages an empty file *)
Lemma staged_truncate s tmp d m u g t i s1 :
  lookup s tmp = Some (File d m u g t i) ->
  (forall q n, q <> tmp -> lookup s q = Some n -> ino_of n <> Some i) ->
  apply_op s (Truncate tmp) = Some s1 ->
  staged s tmp s1 /\ lookup s1 tmp = Some (File [] m u g NOW i).
Proof.
  intros Hl Hpriv H. cbn in H. rewrite Hl in H. unfold update in H. rewrite Hl in H. cbn in H.
  injection H as <-.
  assert (Hoth : forall q, q <> tmp -> lookup (on_ino i truncate_data s) q = lookup s q).
  { intros q Hq. rewrite lookup_on_ino. destruct (lookup s q) as [n|] eqn:Hn; [|reflexivity].
    destruct (ino_of n) as [j|] eqn:Hj; [|reflexivity].
    destruct (N.eqb j i) eqn:E; [|reflexivity].
    apply N.eqb_eq in E; subst j. exfalso. eapply Hpriv; eauto. }
  assert (Ht : lookup (on_ino i truncate_data s) tmp = Some (File [] m u g NOW i)).
  { rewrite lookup_on_ino, Hl. cbn. now rewrite N.eqb_refl. }
  split; [|exact Ht]. split; [exact Hoth|].
  exists [], m, u, g, NOW, i. split; [exact Ht|].
  intros q n Hq Hn. rewrite Hoth in Hn by exact Hq. eapply Hpriv; eauto.
Qed.

(* the temporary is absent, not a regular file (then open() fails and nothing happens), or a
   regular file no other name is linked to *)
Definition tmp_private (s : fs) : Prop :=
  match lookup s TMP with
  | Some (File _ _ _ _ _ i) => forall q n, q <> TMP -> lookup s q = Some n -> ino_of n <> Some i
  | _ => True
  end.

Lemma appends_data s1 tmp chunks s2 m u g t i :
  lookup s1 tmp = Some (File [] m u g t i) ->
  run_opt (appends tmp chunks) s1 = Some s2 ->
  exists m' u' g' t' i', lookup s2 tmp = Some (File (concat chunks) m' u' g' t' i').
Proof.
  intros Ht H. destruct (run_opt_appends_tmp _ _ _ _ _ _ _ _ _ _ Ht H) as [[-> ->]|H2].
  - cbn. eauto 10.
  - cbn in H2. eauto 10.
Qed.

Lemma file_data_of s p d m u g t i : lookup s p = Some (File d m u g t i) -> file_data s p = Some d.
Proof. unfold file_data. now intros ->. Qed.

Lemma write_ops_atomic s mode chunk data k :
  tmp_private s ->
  let ops := write_ops s mode chunk data in
  let sk := run (firstn k ops) s in
  (forall q, q <> P -> q <> TMP -> lookup sk q = lookup s q) /\
  (lookup sk P = lookup s P \/ (file_data sk P = Some data /\ (length ops <= k)%nat)).
Proof.
  intros Hpriv ops sk. subst ops sk. unfold write_ops, open_tmp. unfold tmp_private in Hpriv.
  destruct (lookup s TMP) as [[d m u g t i| | | | ]|] eqn:Hl.
  2-6: (* fresh temporary (or a non-file in the way): the library lemma *)
    (pose proof (atomic_replace s TMP P mode (chunks_of chunk data) [] k TMP_neq_P (Forall_nil _)) as [Hfr Hp];
     unfold replace_ops in Hfr, Hp; cbn [app] in Hfr, Hp; split; [exact Hfr|];
     destruct Hp as [Hp|(s2 & Hs2 & Hp & _ & Hk)]; [now left|right];
     split; [|exact Hk];
     pose proof (staged_complete _ _ _ _ _ _ (Forall_nil _) Hs2) as Hc;
     unfold staged_node in Hc; cbn [fold_left] in Hc; rewrite concat_chunks_of in Hc;
     unfold file_data; rewrite Hp, Hc; reflexivity).
  (* stale temporary: truncated, then staged *)
  destruct k as [|k]; [cbn; split; [reflexivity|now left]|].
  cbn [firstn run]. destruct (apply_op s (Truncate TMP)) as [s1|] eqn:Ht; [|split; [reflexivity|now left]].
  destruct (staged_truncate _ _ _ _ _ _ _ _ _ Hl Hpriv Ht) as [Hst Ht1].
  destruct (staged_tail_atomic s s1 TMP P (chunks_of chunk data) k TMP_neq_P Hst) as [Hfr Hp].
  split; [exact Hfr|]. destruct Hp as [Hp|(s2 & Hs2 & Hp & Hk)]; [now left|right].
  destruct (appends_data _ _ _ _ _ _ _ _ _ Ht1 Hs2) as (m' & u' & g' & t' & i' & Hd).
  rewrite concat_chunks_of in Hd. split.
  - unfold file_data. rewrite Hp, Hd. reflexivity.
  - cbn [length]. lia.
Qed.

Lemma create_lookup s p m s1 :
  apply_op s (Create p m) = Some s1 -> lookup s1 p = Some (File [] m ME ME NOW (fresh_ino s)).
Proof.
  cbn. destruct (can_create s p); [|discriminate]. intro H; injection H as <-. apply lookup_set_same.
Qed.

(* the first call stages an empty private temporary *)
Lemma open_staged s mode s1 :
  tmp_private s -> apply_op s (open_tmp s mode) = Some s1 ->
  staged s TMP s1 /\ exists m u g t i, lookup s1 TMP = Some (File [] m u g t i).
Proof.
  unfold tmp_private, open_tmp. intros Hpriv H.
  destruct (lookup s TMP) as [[d m u g t i| | | | ]|] eqn:Hl.
  2-6: (split; [now apply (staged_create _ _ _ _ H)|];
        rewrite (create_lookup _ _ _ _ H); eauto 10).
  destruct (staged_truncate _ _ _ _ _ _ _ _ _ Hl Hpriv H) as [Hst Ht1]. split; [exact Hst|eauto 10].
Qed.

Lemma write_ops_complete s mode chunk data s' :
  tmp_private s -> run_opt (write_ops s mode chunk data) s = Some s' -> file_data s' P = Some data.
Proof.
  intros Hpriv H. unfold write_ops in H. cbn [run_opt] in H.
  destruct (apply_op s (open_tmp s mode)) as [s1|] eqn:Ho; [|discriminate].
  destruct (open_staged _ _ _ Hpriv Ho) as [Hst (m & u & g & t & i & Ht1)].
  rewrite run_opt_app in H.
  destruct (run_opt (appends TMP (chunks_of chunk data)) s1) as [s2|] eqn:Hm; [|discriminate].
  cbn [run_opt] in H. destruct (apply_op s2 (Rename TMP P)) as [s3|] eqn:Hr; [|discriminate].
  injection H as <-.
  pose proof (staged_middle s TMP (chunks_of chunk data) [] (Forall_nil _)) as Hmid. rewrite app_nil_r in Hmid.
  pose proof (run_inv _ _ Hmid s1 Hst) as Hs2. rewrite (run_opt_run _ _ _ Hm) in Hs2.
  destruct (staged_rename _ _ _ _ _ TMP_neq_P Hs2 Hr) as [_ Hp].
  destruct (appends_data _ _ _ _ _ _ _ _ _ Ht1 Hm) as (m' & u' & g' & t' & i' & Hd).
  rewrite concat_chunks_of in Hd. unfold file_data. rewrite Hp, Hd. reflexivity.
Qed.

Lemma update_atomic_proof : forall i s wr ops k,
  tmp_private s ->
  update_ops i s = Ok (wr, ops) ->
  let sk := run (firstn k ops) s in
  (forall q, q <> P -> q <> TMP -> lookup sk q = lookup s q) /\
  (lookup sk P = lookup s P \/
   exists text, update_text (u_thin i) (u_scan i) (u_fetch i) = Ok (Some text) /\
                file_data sk P = Some text /\ (length ops <= k)%nat).
Proof.
  intros i s wr ops k Hpriv H sk. subst sk. unfold update_ops, update_with in H.
  destruct (update_text (u_thin i) (u_scan i) (u_fetch i)) as [[text|]|kind] eqn:Ht; try discriminate.
  - assert (Hw : (forall q, q <> P -> q <> TMP ->
                   lookup (run (firstn k (write_ops s (u_mode i) (u_chunk i) text)) s) q = lookup s q) /\
                 (lookup (run (firstn k (write_ops s (u_mode i) (u_chunk i) text)) s) P = lookup s P \/
                  exists text0, Ok (Some text) = Ok (Some text0) /\
                    file_data (run (firstn k (write_ops s (u_mode i) (u_chunk i) text)) s) P = Some text0 /\
                    (length (write_ops s (u_mode i) (u_chunk i) text) <= k)%nat)).
    { destruct (write_ops_atomic s (u_mode i) (u_chunk i) text k Hpriv) as [Hfr Hp]. split; [exact Hfr|].
      destruct Hp as [Hp|[Hp Hk]]; [now left|right; eauto]. }
    destruct (file_data s P) as [old|] eqn:Ho.
    + destruct (str_eqb (read_nl old) text); injection H as <- <-.
      * rewrite firstn_nil. cbn. split; auto.
      * exact Hw.
    + injection H as <- <-. exact Hw.
  - injection H as <- <-. rewrite firstn_nil. cbn. auto.
Qed.

Lemma update_eio_keeps_old_proof : forall i s wr ops k,
  tmp_private s -> update_ops i s = Ok (wr, ops) -> (k < length ops)%nat ->
  lookup (run (eio_ops ops k) s) P = lookup s P.
Proof.
  intros i s wr ops k Hpriv H Hk.
  destruct (update_atomic_proof i s wr ops k Hpriv H) as [_ Hp].
  assert (Hold : lookup (run (firstn k ops) s) P = lookup s P).
  { destruct Hp as [Hp|(t & _ & _ & Hle)]; [exact Hp|lia]. }
  unfold eio_ops. rewrite run_app.
  destruct (run_opt (firstn k ops) s) as [s1|] eqn:Hr; [|exact Hold].
  rewrite (run_opt_run _ _ _ Hr) in Hold.
  destruct k as [|k]; [exact Hold|].
  cbn [run]. destruct (apply_op s1 (Unlink TMP)) as [s2|] eqn:Hu; [|exact Hold].
  rewrite <- Hold. eapply apply_op_frame; [exact Hu|].
  cbn. intros [E|[]]. exact (TMP_neq_P E).
Qed.

Lemma update_completes_proof : forall i s ops s',
  tmp_private s -> update_ops i s = Ok (true, ops) -> run_opt ops s = Some s' ->
  exists text, update_text (u_thin i) (u_scan i) (u_fetch i) = Ok (Some text) /\ file_data s' P = Some text.
Proof.
  intros i s ops s' Hpriv H Hr. unfold update_ops, update_with in H.
  destruct (update_text (u_thin i) (u_scan i) (u_fetch i)) as [[text|]|kind] eqn:Ht; try discriminate.
  exists text. split; [reflexivity|].
  destruct (file_data s P) as [old|] eqn:Ho.
  - destruct (str_eqb (read_nl old) text); [discriminate|]. injection H as <-.
    eapply write_ops_complete; eauto.
  - injection H as <-. eapply write_ops_complete; eauto.
Qed.

(* ================================================================ idempotence *)
Lemma read_nl_cons c r : c <> 13 -> read_nl (c :: r) = c :: read_nl r.
Proof.
  intro H. destruct c as [|p]; [reflexivity|].
  repeat (destruct p as [p|p|]; try reflexivity).
  exfalso. apply H. reflexivity.
Qed.

Lemma read_nl_id s : ~ In 13 s -> read_nl s = s.
Proof.
  induction s as [|c r IH]; intro H; [reflexivity|].
  rewrite read_nl_cons by (intros ->; apply H; now left).
  rewrite IH; [reflexivity|]. intro Hin. apply H. now right.
Qed.

Lemma idempotent_proof : forall i s wr ops s',
  tmp_private s ->
  update_ops i s = Ok (wr, ops) -> run_opt ops s = Some s' ->
  (forall text, update_text (u_thin i) (u_scan i) (u_fetch i) = Ok (Some text) -> ~ In 13 text) ->
  update_ops i s' = Ok (false, []).
Proof.
  intros i s wr ops s' Hpriv H Hr Hcr.
  destruct wr.
  - destruct (update_completes_proof i s ops s' Hpriv H Hr) as (text & Ht & Hd).
    unfold update_ops, update_with. rewrite Ht, Hd, (read_nl_id text (Hcr _ Ht)), str_eqb_refl. reflexivity.
  - assert (ops = []).
    { unfold update_ops, update_with in H.
      destruct (update_text (u_thin i) (u_scan i) (u_fetch i)) as [[text|]|kind]; try discriminate.
      - destruct (file_data s P); [destruct (str_eqb _ _)|]; try discriminate H; now injection H as <-.
      - now injection H as <-. }
    subst ops. cbn in Hr. injection Hr as <-. exact H.
Qed.

(* the unrepaired write is not atomic: a crash right after open(path, "w") leaves an empty Manifest *)
Definition old_fs : fs := mkfs (Some (s2l "DIST a 1 MD5 00000000000000000000000000000001
"%bs)) None.
Definition new_in : uin := Uin true [] [(s2l "a"%bs, [(SIZE, 2); (s2l "md5"%bs, 1)])] 420 0.
Lemma inplace_not_atomic_refuted_proof :
  exists i s wr ops k text,
    tmp_private s /\ update_ops_inplace i s = Ok (wr, ops) /\
    update_text (u_thin i) (u_scan i) (u_fetch i) = Ok (Some text) /\
    lookup (run (firstn k ops) s) P <> lookup s P /\
    file_data (run (firstn k ops) s) P <> Some text.
Proof.
  exists new_in, old_fs. eexists. eexists. exists 1%nat. eexists.
  split; [exact I|]. split; [vm_compute; reflexivity|]. split; [vm_compute; reflexivity|].
  split; vm_compute; discriminate.
Qed.
